import Rivaas.Proto
import Rivaas.Spec.Obs
import Rivaas.Model.ObsApp
import Rivaas.Model.Radix
/-
Driver for C08. Case lines (DESIGN.md §2.9):

  <id> R <facts> <prog> <patterns> <method> <k> (method version pattern intParam)^k => <log> <status> <size> <recd>
      one request through a router with the counting recorder
  <id> AW <n> (<facts> <prog> <method>)^n <patterns> => <spansStarted> <spansEnded> <active> <requests_total> <served>
      the same through a real HTTP server; some clients abort while the handler runs (quiescence only)
  <id> A <n> (<facts> <prog> <method>)^n <patterns> => <spansStarted> <spansEnded> <active> <n> (<span name> <span status> <metric route> <metric status> <client status> <client size> <metric size>)^n
      a history of requests through an app with the real recorder (tracetest.SpanRecorder + ManualReader)

  facts    = obs live useCompiled hasStatic <route?> <route?> tree treeCompiled <route?> <route?> versionEngine vcTree
             <version> <route?> <route?> sunset allowed noRoute <detected> <path>
  route?   = 0 | 1 <hid> <pattern>
  prog     = E <status> <size> | Q | O <size> | T <status> <size> | B <status> <size> | X <size> | F <status> <size> | G <size> | L <status> <size>
  log      = <n> (S <live> | W | H <hid> <pattern> <version> | E <label> <wrapped>)^n
  recd     = 0 | 1 <status> <size>

  <id> M <term 0|1> <n> (T | M | F1 | F0)^n <k> (<method> <path> <excluded> <status> <size> <label>)^k <patterns>
       => <tele mw> <tele app> <k> (<client status> <client size>)^k
      a history through a stack of standalone layers (tracing.Middleware, metrics.Middleware, foreign marked writers)
      in front of a plain handler (term 0) or an app with the real recorder (term 1)
  <id> O <startAt> <n> => <sum http_requests_active> <series != 0> <sum http_requests_total>
      n requests through an app whose OTLP metrics provider is started by the handler of request startAt
  tele     = <spansStarted> <spansEnded> <n> (<span name> <err>)^n <gauge {}> <gauge other series> <series != 0>
             <n> (<route> <status> <count> <size>)^n
-/
namespace Rivaas.DriverC08
open Rivaas.Proto Rivaas.Serve Rivaas.Obs

def pRoute : P (Option Route) := opt (do let h ← nat; let p ← str; pure ⟨h, p⟩)

def pFacts : P Facts := do
  let obs ← bool; let live ← bool; let uc ← bool; let hs ← bool
  let ls ← pRoute; let md ← pRoute
  let tree ← bool; let tc ← bool
  let ts ← pRoute; let tr ← pRoute
  let ve ← bool; let vt ← bool; let ver ← str
  let vc ← pRoute; let vr ← pRoute
  let sunset ← bool; let allowed ← bool; let noRoute ← bool
  let det ← str; let path ← str
  pure { obs := obs, live := live, useCompiled := uc, hasStatic := hs, lookupStatic := ls, matchDynamic := md,
         tree := tree, treeCompiled := tc, treeStatic := ts, treeRoute := tr, versionEngine := ve, vcTree := vt,
         version := ver, vCache := vc, vRoute := vr, sunset := sunset, allowed := allowed, noRoute := noRoute,
         detected := det, path := path }

def pProg : P Prog := do
  let k ← tok
  if k == "E" then (do let s ← nat; let n ← nat; pure (Prog.explicit s n))
  else if k == "Q" then pure Prog.silent
  else if k == "O" then Prog.writeOnly <$> nat
  else if k == "T" then (do let s ← nat; let n ← nat; pure (Prog.twice s n))
  else if k == "B" then (do let s ← nat; let n ← nat; pure (Prog.abort s n))
  else if k == "X" then Prog.panics <$> nat
  else if k == "F" then (do let s ← nat; let n ← nat; pure (Prog.copy s n))
  else if k == "G" then Prog.copyOnly <$> nat
  else if k == "L" then (do let s ← nat; let n ← nat; pure (Prog.flushed s n))
  else failure

def pEv : P MEv := do
  let k ← tok
  if k == "S" then MEv.start <$> bool
  else if k == "W" then pure MEv.wrap
  else if k == "H" then (do let h ← nat; let p ← str; let v ← str; pure (MEv.handler h p v))
  else if k == "E" then (do let l ← str; let w ← bool; pure (MEv.endCb l w))
  else failure

def pSeen : P Seen := do
  let log ← list pEv
  let st ← nat; let n ← nat
  let r ← opt (do let a ← nat; let b ← nat; pure (a, b))
  pure ⟨log, st, n, r⟩

def encEv : MEv → String
  | .start l => s!"S {if l then 1 else 0}"
  | .wrap => "W"
  | .handler h p v => s!"H {h} {encStr p} {encStr v}"
  | .endCb l w => s!"E {encStr l} {if w then 1 else 0}"

def encOut (o : Out) : String :=
  s!"{o.log.length} " ++ " ".intercalate (o.log.map encEv) ++ s!" {o.status} {o.size}"

/-- what the model expects the end callback's writer to report -/
def modelRecd (f : Facts) (o : Out) : Option (Nat × Nat) := if f.obs && f.live then some (o.status, o.size) else none

/-! the main-tree lookup recomputed with the routing model (Model/Radix) -/

structure RouteReg where
  method : Bytes
  ver : Bytes
  pattern : Bytes
  intParam : Bytes

def isDigits (v : Bytes) : Bool := v != [] && v.all fun c => '0' ≤ c && c ≤ '9'

def treeFor (routes : List RouteReg) (method ver : Bytes) : Rivaas.Radix.Tree :=
  let rec go (t : Rivaas.Radix.Tree) (i : Nat) : List RouteReg → Rivaas.Radix.Tree
    | [] => t
    | r :: rest =>
      if r.method == method && r.ver == ver then
        go (Rivaas.Radix.addRoute t r.pattern i (if r.intParam == [] then [] else [(r.intParam, 1)])) (i + 1) rest
      else go t (i + 1) rest
  go Rivaas.Radix.Tree.empty 0 routes

/-- the facts `tree.getRoute(path, c)` and `len(getAllowedMethodsForPath(path)) > 0` agree with the routing model: a predicted hit is a hit on a route with that
    pattern; when the request reaches the tree traversal (no earlier lookup answered) a predicted miss is a miss -/
def treeFactAgrees (f : Facts) (method : Bytes) (routes : List RouteReg) : Bool :=
  let leaf := (Rivaas.Radix.getRoute (fun _ v => isDigits v) (treeFor routes method []) f.path Rivaas.Radix.Ctx.fresh).1
  -- getAllowedMethodsForPath: some standard method's main tree has a route for the path
  let allowed := ["GET", "POST", "PUT", "PATCH", "DELETE", "HEAD", "OPTIONS"].any fun m =>
    (Rivaas.Radix.getRoute (fun _ v => isDigits v) (treeFor routes m.toList []) f.path Rivaas.Radix.Ctx.fresh).1.isSome
  (f.allowed == allowed) &&
  match f.treeRoute with
  | some rt => (leaf.map (·.path)) == some rt.pattern
  | none => !(f.tree && f.q1.isNone && f.q2.isNone && f.q3.isNone) || leaf.isNone

def stepR (id : String) (inp obs : List String) : String :=
  if obs == ["P"] then verdict id false false "-" "a-panic-escaped-ServeHTTP" else
  match runP (do
      let f ← pFacts; let p ← pProg; let pats ← list str; let method ← str
      let routes ← list (do let m ← str; let v ← str; let pt ← str; let ip ← str; pure (⟨m, v, pt, ip⟩ : RouteReg))
      pure (f, p, pats, method, routes)) inp, runP pSeen obs with
  | some (f, p, pats, method, routes), some seen =>
    let m := serve f p
    let mi := m.log == seen.log && m.status == seen.status && m.size == seen.size && modelRecd f m == seen.recd &&
      treeFactAgrees f method routes
    let s := specOK f.obs f.live pats seen
    verdict id mi s "-" (encOut m)
  | _, _ => s!"{id} bad-case"

/-! history through the real app recorder -/

structure SpanObs where
  name : Bytes          -- final span name
  err : Nat             -- 0 when the span status is Ok, else the code of "HTTP <code>"
  clientStatus : Nat    -- what the client of that request received
  clientSize : Nat
  deriving DecidableEq

/-- one (http.route, http.status_code) series of http_requests_total with the sum of http_response_size_bytes -/
structure Row where
  route : Bytes
  status : Nat
  count : Nat
  size : Nat
  deriving DecidableEq

structure HistObs where
  started : Nat
  ended : Nat
  active : Int
  spans : List SpanObs
  rows : List Row

def pHistObs : P HistObs := do
  let st ← nat; let en ← nat; let ac ← int
  let spans ← list (do
    let nm ← str; let e ← nat; let cs ← nat; let cz ← nat
    pure (⟨nm, e, cs, cz⟩ : SpanObs))
  let rows ← list (do
    let r ← str; let s ← nat; let c ← nat; let z ← nat
    pure (⟨r, s, c, z⟩ : Row))
  pure ⟨st, en, ac, spans, rows⟩

/-- label the model expects the end callback to report for a request -/
def modelLabel (o : Out) : Option Bytes :=
  match o.log.getLast? with
  | some (.endCb l _) => some l
  | _ => none

def errOf (status : Nat) : Nat := if status ≥ 400 then status else 0

/-- metrics.Finish: an empty route is reported as `_unmatched` -/
def routeAttr (l : Bytes) : Bytes := if l = [] then sUnmatched else l

def addRow (rows : List Row) (route : Bytes) (status size : Nat) : List Row :=
  match rows with
  | [] => [⟨route, status, 1, size⟩]
  | r :: rest =>
    if r.route = route ∧ r.status = status then { r with count := r.count + 1, size := r.size + size } :: rest
    else r :: addRow rest route status size

def sameMultiset (a b : List Row) : Bool := a.length == b.length && a.all (fun r => b.contains r)

def stepA (id : String) (inp obs : List String) : String :=
  if obs == ["P"] then verdict id false false "-" "a-panic-escaped-ServeHTTP" else
  match runP (do
      let reqs ← list (do let f ← pFacts; let p ← pProg; let m ← str; pure (f, p, m))
      let pats ← list str
      pure (reqs, pats)) inp, runP pHistObs obs with
  | some (reqs, pats), some h =>
    let outs := reqs.map fun (f, p, m) => (f, m, serve f p)
    let tele := outs.foldl (fun t (_, _, o) => t.run o.log) ({} : Tele)
    let liveOuts := outs.filter fun (f, _, _) => f.obs && f.live
    -- app/observability.go names the span METHOD + " " + label; an empty label (the empty pattern `GET ""`) becomes
    -- the `_unmatched` sentinel, as for the metrics (before /repo fix K08b the span kept METHOD + raw path)
    let expect : List SpanObs := liveOuts.filterMap fun (_, m, o) =>
      (modelLabel o).map fun l => ⟨m ++ " ".toList ++ routeAttr l, errOf o.status, o.status, o.size⟩
    let expectRows : List Row := liveOuts.foldl (fun rows (_, _, o) =>
      match modelLabel o with
      | some l => addRow rows (routeAttr l) o.status o.size
      | none => rows) []
    let mi := tele.started == h.started && tele.ended == h.ended && tele.active == h.active &&
      expect == h.spans && sameMultiset expectRows h.rows
    -- oracle on what was observed
    let allLabels := pats ++ sentinels
    let s := h.started == h.ended && h.active == 0 && h.spans.length == liveOuts.length &&
      h.spans.all (fun sp => sp.err == errOf sp.clientStatus &&
        ((reqs.map fun (_, _, m) => m).any fun m => (allLabels.filter (· != [])).any fun l => sp.name == m ++ " ".toList ++ l)) &&
      h.rows.all (fun r => labelOK pats r.route) &&
      (h.rows.foldl (fun n r => n + r.count) 0) == liveOuts.length &&
      (h.rows.foldl (fun n r => n + r.size) 0) == (h.spans.foldl (fun n sp => n + sp.clientSize) 0) &&
      -- the status distribution of the metric equals the distribution of what clients received
      (h.rows.map (·.status)).eraseDups.all (fun st =>
        ((h.rows.filter (·.status == st)).foldl (fun n r => n + r.count) 0) ==
          (h.spans.filter (·.clientStatus == st)).length)
    verdict id mi s "-" s!"{tele.started} {tele.ended} {tele.active} {expect.length} {expectRows.length}"
  | _, _ => s!"{id} bad-case"

/-! concurrent history: completion order is not part of the case, everything is compared as multisets -/

def countOf {α} [BEq α] (l : List α) (x : α) : Nat := (l.filter (· == x)).length
def sameBag {α} [BEq α] (a b : List α) : Bool := a.length == b.length && a.all (fun x => countOf a x == countOf b x)

def stepAC (id : String) (inp obs : List String) : String :=
  if obs == ["P"] then verdict id false false "-" "a-panic-escaped-ServeHTTP" else
  match runP (do
      let reqs ← list (do let f ← pFacts; let p ← pProg; let m ← str; pure (f, p, m))
      let pats ← list str
      pure (reqs, pats)) inp,
    runP (do
      let st ← nat; let en ← nat; let ac ← int
      let spans ← list (do let nm ← str; let e ← nat; pure (nm, e))
      let rows ← list (do let r ← str; let s ← nat; let c ← nat; let z ← nat; pure (⟨r, s, c, z⟩ : Row))
      let clients ← list (do let s ← nat; let z ← nat; pure (s, z))
      pure (st, en, ac, spans, rows, clients)) obs with
  | some (reqs, pats), some (started, ended, active, spans, rows, clients) =>
    let outs := reqs.map fun (f, p, m) => (f, m, serve f p)
    let tele := outs.foldl (fun t (_, _, o) => t.run o.log) ({} : Tele)
    let liveOuts := outs.filter fun (f, _, _) => f.obs && f.live
    let expect : List (Bytes × Nat) := liveOuts.filterMap fun (_, m, o) =>
      (modelLabel o).map fun l => (m ++ " ".toList ++ routeAttr l, errOf o.status)
    let expectRows : List Row := liveOuts.foldl (fun rows (_, _, o) =>
      match modelLabel o with
      | some l => addRow rows (routeAttr l) o.status o.size
      | none => rows) []
    let expectClients := liveOuts.map fun (_, _, o) => (o.status, o.size)
    let mi := tele.started == started && tele.ended == ended && tele.active == active &&
      sameBag expect spans && sameMultiset expectRows rows && sameBag expectClients clients
    let allLabels := pats ++ sentinels
    let s := started == ended && active == 0 && spans.length == liveOuts.length &&
      spans.all (fun sp =>
        ((reqs.map fun (_, _, m) => m).any fun m => (allLabels.filter (· != [])).any fun l => sp.1 == m ++ " ".toList ++ l)) &&
      -- the error statuses of the spans are the error statuses the clients received
      sameBag ((spans.map (·.2)).filter (· != 0)) ((clients.map fun c => errOf c.1).filter (· != 0)) &&
      rows.all (fun r => labelOK pats r.route) &&
      (rows.foldl (fun n r => n + r.count) 0) == liveOuts.length &&
      (rows.foldl (fun n r => n + r.size) 0) == (clients.foldl (fun n c => n + c.2) 0) &&
      (rows.map (·.status)).eraseDups.all (fun st =>
        ((rows.filter (·.status == st)).foldl (fun n r => n + r.count) 0) == (clients.filter (·.1 == st)).length)
    verdict id mi s "-" s!"{tele.started} {tele.ended} {tele.active} {expect.length} {expectRows.length}"
  | _, _ => s!"{id} bad-case"

/-! history through a real server with clients that abort mid-flight, real app recorder: at quiescence -/

def stepAW (id : String) (inp obs : List String) : String :=
  match runP (do
      let reqs ← list (do let f ← pFacts; let p ← pProg; let m ← str; pure (f, p, m))
      let pats ← list str
      pure (reqs, pats)) inp,
    runP (do let st ← nat; let en ← nat; let ac ← int; let tot ← nat; let served ← nat; pure (st, en, ac, tot, served)) obs with
  | some (reqs, _), some (started, ended, active, total, served) =>
    let outs := reqs.map fun (f, p, _) => (f, serve f p)
    let tele := outs.foldl (fun t (_, o) => t.run o.log) ({} : Tele)
    let live := (outs.filter fun (f, _) => f.obs && f.live).length
    let mi := tele.started == started && tele.ended == ended && tele.active == active && total == live && served == reqs.length
    -- oracle: every request reached the server, the gauge is back at zero, every started span ended, and every request
    -- the recorder did not exclude is in the totals — whether or not its client was still there
    let s := served == reqs.length && started == ended && active == 0 && started == live && total == live
    verdict id mi s "-" s!"{tele.started} {tele.ended} {tele.active} {live}"
  | _, _ => s!"{id} bad-case"

/-! history through a stack of standalone middlewares (kind M) -/

open Rivaas.ObsApp in
def pLayer : P Layer := do
  let k ← tok
  if k == "T" then pure Layer.tracing else if k == "M" then pure Layer.metrics
  else if k == "F1" then pure (Layer.foreign true) else if k == "F0" then pure (Layer.foreign false) else failure

/-- no foreign layer hides the response (marked writer that exposes nothing) -/
def C08StackReadable (stack : List ObsApp.Layer) : Bool := !stack.contains (ObsApp.Layer.foreign false)

structure TeleObs where
  t : ObsApp.Tele
  nonzero : Nat

def pTeleObs : P TeleObs := do
  let st ← nat; let en ← nat
  let spans ← list (do let nm ← str; let e ← nat; pure (nm, e))
  let g0 ← int; let ga ← int; let nz ← nat
  let rows ← list (do let r ← str; let s ← nat; let c ← nat; let z ← nat; pure (⟨r, s, c, z⟩ : ObsApp.Row))
  pure ⟨{ started := st, ended := en, spans := spans, gauge0 := g0, gaugeA := ga, rows := rows }, nz⟩

def sameRows (a b : List ObsApp.Row) : Bool := a.length == b.length && a.all (fun r => b.contains r)

def teleEq (m : ObsApp.Tele) (o : TeleObs) : Bool :=
  m.started == o.t.started && m.ended == o.t.ended && m.spans == o.t.spans && m.gauge0 == o.t.gauge0 &&
  m.gaugeA == o.t.gaugeA && sameRows m.rows o.t.rows

def stepM (id : String) (inp obs : List String) : String :=
  match runP (do
      let term ← bool
      let stack ← list pLayer
      let reqs ← list (do
        let m ← str; let p ← str; let x ← bool; let st ← nat; let sz ← nat; let l ← str
        pure (⟨m, p, x, st, sz, l⟩ : ObsApp.Req))
      let pats ← list str
      pure (term, stack, reqs, pats)) inp,
    runP (do
      let mw ← pTeleObs; let app ← pTeleObs
      let clients ← list (do let s ← nat; let z ← nat; pure (s, z))
      pure (mw, app, clients)) obs with
  | some (term, stack, reqs, pats), some (mw, app, clients) =>
    let tm := if term then ObsApp.Term.app else ObsApp.Term.mux
    let w := ObsApp.runAll ObsApp.fixed tm stack reqs
    let mi := teleEq w.mw mw && teleEq w.app app && clients == reqs.map (fun q => (q.status, q.size))
    -- oracle on what was observed: idle server = every started span ended, every series of the gauge at zero (both
    -- provider pairs); app recorder (unless a foreign layer hides the response): one row and one span per request it
    -- did not exclude, bounded route / span name, status and size as the client received them
    let live := (List.zip reqs clients).filter (fun qc => !qc.1.excluded)
    let quiet (o : TeleObs) : Bool := o.t.started == o.t.ended && o.nonzero == 0
    let allLabels := pats ++ sentinels
    let appOK : Bool :=
      if !term then true else
      app.t.spans.length == live.length && (app.t.rows.foldl (fun n r => n + r.count) 0) == live.length &&
      app.t.rows.all (fun r => labelOK pats r.route) &&
      app.t.spans.all (fun sp => reqs.any fun q => (allLabels.filter (· != [])).any fun l => sp.1 == q.method ++ " ".toList ++ l) &&
      (!C08StackReadable stack ||
        ((app.t.spans.map (·.2)) == live.map (fun qc => ObsApp.errOf qc.2.1) &&
         (app.t.rows.foldl (fun n r => n + r.size) 0) == (live.foldl (fun n qc => n + qc.2.2) 0) &&
         (app.t.rows.map (·.status)).eraseDups.all (fun st =>
           ((app.t.rows.filter (·.status == st)).foldl (fun n r => n + r.count) 0) == (live.filter (·.2.1 == st)).length)))
    let s := quiet mw && quiet app && appOK
    verdict id mi s "-" s!"{w.mw.started} {w.mw.ended} {w.mw.gauge0} {w.mw.gaugeA} {w.app.started} {w.app.ended} {w.app.gauge0}"
  | _, _ => s!"{id} bad-case"

/-! kind O: late-initialised metrics provider -/
def stepO (id : String) (inp obs : List String) : String :=
  match runP (do let sa ← nat; let n ← nat; pure (sa, n)) inp,
        runP (do let a ← int; let nz ← nat; let t ← int; pure (a, nz, t)) obs with
  | some (startAt, n), some (active, nonzero, total) =>
    let q : ObsApp.Req := ⟨[], [], false, 200, 0, []⟩
    let d := ObsApp.runDeferred startAt 0 (List.replicate n q) {}
    let mTotal : Nat := d.tele.rows.foldl (fun k r => k + r.count) 0
    let mi := d.tele.gauge0 == active && (mTotal : Int) == total
    let s := active == 0 && nonzero == 0
    verdict id mi s "-" s!"{d.tele.gauge0} {mTotal}"
  | _, _ => s!"{id} bad-case"

def step (line : String) : String :=
  match splitCase line with
  | none => "? bad-line"
  | some (id, inp, obs) =>
    -- a request that never completed / a panic in framework code outside a handler: violations by themselves
    if obs == ["T"] then verdict id false false "-" "request-never-completed" else
    if obs == ["P"] then verdict id false false "-" "a-panic-escaped-ServeHTTP" else
    match inp with
    | "R" :: rest => stepR id rest obs
    | "A" :: rest => stepA id rest obs
    | "AC" :: rest => stepAC id rest obs
    | "AW" :: rest => stepAW id rest obs
    | "M" :: rest => stepM id rest obs
    | "O" :: rest => stepO id rest obs
    | _ => s!"{id} bad-case"

end Rivaas.DriverC08

def main : IO UInt32 := Rivaas.Proto.driverMain Rivaas.DriverC08.step
