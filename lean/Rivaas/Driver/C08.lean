import Rivaas.Proto
/- Driver for C08 (stub: not built yet) -/
def main : IO UInt32 := do
  IO.eprintln "driver for C08 is not built yet"
  return 2
