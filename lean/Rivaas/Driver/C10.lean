import Rivaas.Proto
import Rivaas.Spec.Contain
/-
Driver for C10. Case lines (see harness/c10/main.go):

  <id> R <check> <compiled> <obs> <wire> <wrap> <global> <chain> => <result> <nf> <result>*
      obs  = app with observability on (c.Response is the size-tracking observability writer): read and ignored
      wire = the request went through a real net/http server: an escaped panic shows as a dropped
             connection (escaped value 9, trace only), so only `escaped.isSome` is compared there
      compiled = router.WithRouteCompilation (which serve path runs the chain): read and ignored by the model
      chain  = n (hid acts)…       acts = n act…   act = N | A | C | W | R | P v | K acts
      result = <trace: n ev…> <status> <body: n chunk…> <escaped: 0 | 1 v>
      model chain: position 0 = recovery (`recovers`, acts [Next]); position 1 = the timeout
      middleware with a 1h budget when wrap=1 (acts [Next]); then the handlers. Both are silent.
      follow-ups: the same chain with every handler passing through; then the route [99: W] behind
      the first <global> handlers (router-global middleware; they have no behaviour there: return).

  <id> T <waitH> <waitL> <custom> <budget ms, 0 = 1h> <prog: n hact…> => <status> <body> <escaped> <releasedEarly> <hpanicked> <recovered> <claimed: the timeout handler was called> <follow>
      waitL = the timeout middleware's logger waits (inside its Warn call) for the handler's signal
      hact = W | D | X | aC | aL | aE | aT | sH | aR | hold | P<v> | G<n>   (the timed chain, flattened; G<n> = Next's loop test)

  <id> O <opts: n opt…> <path> <prog: n hact…> => <hasDeadline> <budget s, 0 without deadline> <skipFn calls> <status> <body> <escaped> <hpanicked> <recovered>
      opt = D <ms> | NL | WL | H <tag> | SP <paths> | PX <paths> | SX <paths> | SK <0 = nil | 1 = returns false | 2 = returns true>
      the options of timeout.New in the order given; the request goes to <path>; the handler sees a context with a
      deadline iff the request was not skipped; prog has only W / P<v> / G<n> (nothing times out: the budget is 1h)
-/
namespace Rivaas.DriverC10
open Rivaas.Proto Rivaas.Chain

def pActs : Nat → P (List Act)
  | 0 => failure
  | d+1 => list do
    let k ← tok
    if k == "N" then pure Act.next else if k == "A" then pure .abort else if k == "C" then pure .cancel
    else if k == "W" then pure .write else if k == "R" then pure .ret
    else if k == "P" then Act.panic <$> nat
    else if k == "K" then Act.call <$> pActs d
    -- F: `c.Fail(err)` (app handlers; router-level handlers: Abort + JSON) — a call that aborts, then writes
    else if k == "F" then pure (Act.call [.abort, .write])
    -- T: overrun the budget of a timeout middleware in front of the chain — the request context is cancelled from then on
    else if k == "T" then pure .cancel
    else failure

structure Res where
  trace : List (Char × Nat)
  status : Nat
  body : List Nat
  escaped : Option Nat
  deriving BEq

def pEv : P (Char × Nat) := do
  let t ← tok
  match t.toList with
  | c :: rest =>
    match (String.ofList rest).toNat? with
    | some n => if c == 'e' || c == 'x' || c == 'u' then pure (c, n) else failure
    | none => failure
  | [] => failure

def pRes : P Res := do
  let trace ← list pEv
  let status ← nat
  let body ← list nat
  let escaped ← opt nat
  pure { trace, status, body, escaped }

def recChunk : Nat := 100000
def timeoutChunk : Nat := 100001
def okHid : Nat := 99

/-- ids of the chain positions: 0 for the silent ones -/
def idsOf (nsil : Nat) (hids : List Nat) : List Nat := List.replicate nsil 0 ++ hids

def evOfId : Char × Nat → Ev
  | ('e', n) => .enter n
  | ('x', n) => .exit n
  | (_, n) => .unwound n

def evPos : Ev → Nat | .enter k => k | .exit k => k | .unwound k => k
def evMap (f : Nat → Nat) : Ev → Ev | .enter k => .enter (f k) | .exit k => .exit (f k) | .unwound k => .unwound (f k)

/-- render positions as ids, drop silent positions -/
def rendTrace (ids : List Nat) (t : List Ev) : List Ev :=
  (t.filter fun e => ids.getD (evPos e) 0 != 0).map (evMap fun k => ids.getD k 0)

def rendChunk (ids : List Nat) : Chunk → Chunk
  | .h k => .h (ids.getD k 0)
  | .rec500 => .rec500

def codeOf (ids : List Nat) : Option Chunk → Nat
  | none => 200
  | some (.h k) => 210 + ids.getD k 0 % 80
  | some .rec500 => 500

def rend (ids : List Nat) : Render := fun r =>
  (rendTrace ids r.trace, codeOf ids r.status, r.body.map (rendChunk ids))

def seenOf (r : Res) : Seen :=
  { trace := r.trace.map evOfId, status := r.status,
    body := r.body.map fun n => if n == recChunk then Chunk.rec500 else Chunk.h n,
    escaped := r.escaped }

def showRes (o : Seen) : String :=
  let ev : Ev → String | .enter k => s!"e{k}" | .exit k => s!"x{k}" | .unwound k => s!"u{k}"
  let ch : Chunk → String | .h k => toString k | .rec500 => toString recChunk
  let es := match o.escaped with | none => "0" | some v => s!"1 {v}"
  s!"{o.trace.length} {" ".intercalate (o.trace.map ev)} {o.status} {o.body.length} {" ".intercalate (o.body.map ch)} {es}"

/-- the machine's run of a chain, as the harness would see it -/
def modelSeen (cfg : Cfg) (ids : List Nat) (progs : List Prog) : Option Seen :=
  let s := exec cfg progs
  if !s.stack.isEmpty && s.escaped.isNone then none
  else some { trace := rendTrace ids s.trace, status := codeOf ids s.status,
              body := s.body.map (rendChunk ids), escaped := s.escaped }

def silent (wrap : Bool) : List Prog :=
  [{ recovers := true, acts := [.next] }] ++ (if wrap then [{ acts := [.next] }] else [])

def stepR (id : String) (inp obs : List String) : String :=
  let pIn : P (Bool × Bool × Bool × Nat × List (Nat × List Act)) := do
    let check ← bool; let _compiled ← bool; let _obs ← bool; let wire ← bool; let wrap ← bool; let g ← nat
    let ch ← list (do let h ← nat; let a ← pActs 8; pure (h, a))
    pure (check, wire, wrap, g, ch)
  let pOut : P (Res × List Res) := do let r ← pRes; let fs ← list pRes; pure (r, fs)
  match runP pIn inp, runP pOut obs with
  | some (check, wire, wrap, g, ch), some (r, fs) =>
    let cfg : Cfg := { check := check }
    let sil := silent wrap
    let ids := idsOf sil.length (ch.map (·.1))
    let progs := sil ++ ch.map fun (_, a) => ({ acts := a } : Prog)
    -- follow-up 1: same chain, every handler passes through; follow-up 2: the /ok route
    let progs1 := sil ++ ch.map fun _ => ({ acts := [.next] } : Prog)
    let ids2 := idsOf sil.length ((ch.take g).map (·.1) ++ [okHid])
    let progs2 := sil ++ (ch.take g).map (fun _ => ({ acts := [] } : Prog)) ++ [({ acts := [.write] } : Prog)]
    match modelSeen cfg ids progs, modelSeen cfg ids progs1, modelSeen cfg ids2 progs2, fs with
    | some m, some m1, some m2, [f1, f2] =>
      let o := seenOf r
      -- over the wire an escaped panic is a dropped connection: no status, no body, no value
      let wireEq (a b : Seen) : Bool :=
        if a.escaped.isSome || b.escaped.isSome then a.escaped.isSome == b.escaped.isSome && a.trace == b.trace else a == b
      let eq := if wire then wireEq else fun a b => a == b
      let mi := eq m o && eq m1 (seenOf f1) && eq m2 (seenOf f2)
      let s := containOK check progs o [(progs1, rend ids, seenOf f1), (progs2, rend ids2, seenOf f2)]
      verdict id mi s "-" (showRes m ++ " 2 " ++ showRes m1 ++ " " ++ showRes m2)
    | _, _, _, _ => s!"{id} bad-case model could not run / wrong number of follow-ups"
  | _, _ => s!"{id} bad-case"

open Rivaas.Timeout in
def pHAct : P HAct := do
  let t ← tok
  if t == "W" then pure .write else if t == "D" then pure .fireDl else if t == "X" then pure .firePc
  else if t == "aC" then pure .awaitCtx else if t == "aL" then pure .awaitL else if t == "aE" then pure .awaitE else if t == "aT" then pure .awaitT else if t == "sH" then pure .signalH
  else if t == "aR" then pure .awaitRet else if t == "hold" then pure .hold
  else if t.startsWith "G" then
    match (t.drop 1).toString.toNat? with
    | some n => pure (.guard n)
    | none => failure
  else if t.startsWith "P" then
    match (t.drop 1).toString.toNat? with
    | some v => pure (.panic v)
    | none => failure
  else failure

open Rivaas.Timeout in
def tChunk (n : Nat) : Timeout.Chunk :=
  if n == recChunk then .rec500 else if n == timeoutChunk then .t408 else if n == 7 || n == 99 then .h else .other

open Rivaas.Timeout in
def tStatus (c : Option Timeout.Chunk) : Nat :=
  match c with
  | none => 200
  | some .h => 217
  | some .t408 => 408
  | some .rec500 => 500
  | some .other => 299

open Rivaas.Timeout in
def stepT (id : String) (inp obs : List String) : String :=
  let pIn : P (Hooks × Bool × Nat × List HAct) := do
    let w ← bool; let wl ← bool; let c ← bool; let budget ← nat; let p ← list pHAct
    pure ({ waitH := w, waitL := wl }, c, budget, p)
  let pOut : P (Nat × List Nat × Option Nat × Bool × Bool × Bool × Bool × Nat) := do
    let st ← nat; let b ← list nat; let e ← opt nat; let re ← bool; let hp ← bool; let rc ← bool; let cl ← bool; let f ← nat
    pure (st, b, e, re, hp, rc, cl, f)
  match runP pIn inp, runP pOut obs with
  | some (waitH, _custom, budget, prog), some (st, b, e, re, hp, rc, cl, f) =>
    let fuel := 4 * prog.length + 16
    -- under a real budget the middleware's own timer may fire once everything else is blocked
    let sched := if budget > 0 then fairT waitH else fair waitH
    let s1 := sched true fuel (init prog)
    let s2 := sched false fuel (init prog)
    -- the harness forces the order of events with channels: every fair schedule must agree
    if obsOf s1 != obsOf s2 || s1.rpc != .returned || s2.rpc != .returned then
      s!"{id} bad-case the program leaves the order of events open (or deadlocks) in the model"
    else
      let mObs := (tStatus s1.status, s1.body, s1.releasedEarly, s1.panicChan.isSome, s1.recovered.isSome, s1.timedOut, (229 : Nat))
      let body := b.map tChunk
      let iObs := (st, body, re, hp, rc, cl, f)
      let io : TObs := { status := (if st == 408 then some .t408 else if st == 500 then some .rec500 else if st == 200 then none else some .h),
                         body := body, escaped := e.isSome, releasedEarly := re, hPanicked := hp, recovered := rc, claimed := cl }
      let chs : Timeout.Chunk → String | .h => "7" | .t408 => toString timeoutChunk | .rec500 => toString recChunk | .other => "999999"
      verdict id (mObs == iObs && e.isNone) (timeoutOK io && f == 229) "-"
        s!"{tStatus s1.status} {s1.body.length} {" ".intercalate (s1.body.map chs)} 0 {if s1.releasedEarly then 1 else 0} {if s1.panicChan.isSome then 1 else 0} {if s1.recovered.isSome then 1 else 0} {if s1.timedOut then 1 else 0} 229"
  | _, _ => s!"{id} bad-case"

open Rivaas.Timeout in
def pOpt : P Opt := do
  let t ← tok
  if t == "D" then Opt.duration <$> nat else if t == "NL" then pure .withoutLogging else if t == "WL" then pure .withLogger
  else if t == "H" then Opt.handler <$> nat
  else if t == "SP" then Opt.skipPaths <$> list str else if t == "PX" then Opt.skipPrefix <$> list str
  else if t == "SX" then Opt.skipSuffix <$> list str
  else if t == "SK" then do
    let k ← nat
    pure (.skip (if k == 0 then none else some (k == 2)))
  else failure

open Rivaas.Timeout in
def stepO (id : String) (inp obs : List String) : String :=
  let pIn : P (List Opt × List Char × List HAct) := do
    let o ← list pOpt; let p ← str; let pr ← list pHAct; pure (o, p, pr)
  let pOut : P (Bool × Nat × Nat × Nat × List Nat × Option Nat × Bool × Bool) := do
    let dl ← bool; let bud ← nat; let calls ← nat; let st ← nat; let b ← list nat; let e ← opt nat; let hp ← bool; let rc ← bool
    pure (dl, bud, calls, st, b, e, hp, rc)
  match runP pIn inp, runP pOut obs with
  | some (opts, path, prog), some (dl, bud, calls, st, b, e, hp, rc) =>
    let cfg := configure opts
    let skipped := shouldSkip cfg path
    let fuel := 4 * prog.length + 16
    let s := if skipped then runSkipped 0 prog (init prog) else fair false true fuel (init prog)
    if s.rpc != .returned then s!"{id} bad-case the program does not return in the model"
    else
      let mCalls := if skipFuncCalled cfg path then 1 else 0
      let mBud := if skipped then 0 else cfg.durationMs / 1000
      let mObs := (!skipped, mBud, mCalls, tStatus s.status, s.body, s.panicChan.isSome, s.recovered.isSome)
      let body := b.map tChunk
      let iObs := (dl, bud, calls, st, body, hp, rc)
      let io : TObs := { status := (if st == 408 then some .t408 else if st == 500 then some .rec500 else if st == 200 then none else some .h),
                         body := body, escaped := e.isSome, releasedEarly := false, hPanicked := hp, recovered := rc, claimed := body.contains .t408 }
      let chs : Timeout.Chunk → String | .h => "7" | .t408 => toString timeoutChunk | .rec500 => toString recChunk | .other => "999999"
      verdict id (mObs == iObs && e.isNone) (timeoutOK io && (skipSpec opts path == !dl)) "-"
        s!"{if skipped then 0 else 1} {mBud} {mCalls} {tStatus s.status} {s.body.length} {" ".intercalate (s.body.map chs)} 0 {if s.panicChan.isSome then 1 else 0} {if s.recovered.isSome then 1 else 0}"
  | _, _ => s!"{id} bad-case"

def step (line : String) : String :=
  match splitCase line with
  | none => "? bad-line"
  | some (id, inp, obs) =>
    match inp with
    | "R" :: rest => stepR id rest obs
    | "T" :: rest => stepT id rest obs
    | "O" :: rest => stepO id rest obs
    | _ => s!"{id} bad-case unknown kind"

end Rivaas.DriverC10

def main : IO UInt32 := Rivaas.Proto.driverMain Rivaas.DriverC10.step
