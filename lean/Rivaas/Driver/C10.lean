import Rivaas.Proto
/- Driver for C10 (stub: not built yet) -/
def main : IO UInt32 := do
  IO.eprintln "driver for C10 is not built yet"
  return 2
