import Rivaas.Proto
import Rivaas.Spec.Lifecycle
import Rivaas.Model.Lifecycle
/-
Driver for C09. Case line (see harness/c09):

  <id> P <entry 0|1|2> <metrics> <tracing> <listen 0|1|2|3> <starts: n b…> <readies: n b…> <nReload> <shuts: n b…> <stops: n b…>
       <reqs: n (H j | D | N)…> <rounds: n (trig  n b…  (0 | 1 j)  pair)…>
    => LOG n <event>… RES <code> FIN <app> <met> <logs held> RQ n <0|1|2>… RR n <0|1|2|9>…

events:  s i a m z | S i | y i a m z | l r i | L r i | q k | Q k m | c | h i a m live | H i | f | p i a m | P i | r
-/
namespace Rivaas.DriverC09
open Rivaas.Proto Rivaas.Lifecycle

def pHB : P HB := do
  let n ← nat
  match n with
  | 0 => pure .ok
  | 1 => pure .err
  | 2 => pure .panic
  | 3 => pure .block
  | 4 => pure .cancelOk
  | _ => failure

def pListen : P Listen := do
  let n ← nat
  match n with
  | 0 => pure .ok
  | 1 => pure .busy
  | 2 => pure .bad
  | 3 => pure .cert
  | _ => failure

def pRel : P Rel := do
  let t ← tok
  if t == "H" then Rel.hook <$> nat
  else if t == "D" then pure .drain
  else if t == "N" then pure .never
  else failure

def pRound : P Round := do
  let t ← nat
  let trig ← (if t == 0 then pure Trig.prog else if t == 1 then pure Trig.hup else failure : P Trig)
  let beh ← list pHB
  let ca ← opt nat
  let pair ← bool
  pure { trig := trig, beh := beh, cancelAt := ca, pair := pair }

def pScenario : P Scenario := do
  -- entry point (0 Start, 1 StartTLS, 2 StartMTLS): the three share the model
  lit "P"
  let _proto ← nat
  let m ← bool
  let t ← bool
  let l ← pListen
  let starts ← list pHB
  let readies ← list pHB
  let nr ← nat
  let shuts ← list pHB
  let stops ← list pHB
  let reqs ← list pRel
  let rounds ← list pRound
  pure { metrics := m, tracing := t, listen := l, starts := starts, readies := readies, nReload := nr,
         shuts := shuts, stops := stops, reqs := reqs, rounds := rounds }

def pEv : P Ev := do
  let t ← tok
  match t with
  | "s" => do let i ← nat; let a ← bool; let m ← bool; let z ← bool; pure (.startIn i a m z)
  | "S" => Ev.startOut <$> nat
  | "y" => do let i ← nat; let a ← bool; let m ← bool; let z ← bool; pure (.ready i a m z)
  | "l" => do let r ← nat; let i ← nat; pure (.reloadIn r i)
  | "L" => do let r ← nat; let i ← nat; pure (.reloadOut r i)
  | "q" => Ev.reqIn <$> nat
  | "Q" => do let k ← nat; let m ← bool; pure (.reqFin k m)
  | "c" => pure .sig
  | "h" => do let i ← nat; let a ← bool; let m ← bool; let l ← bool; pure (.shutIn i a m l)
  | "H" => Ev.shutOut <$> nat
  | "f" => pure .flush
  | "p" => do let i ← nat; let a ← bool; let m ← bool; pure (.stopIn i a m)
  | "P" => Ev.stopOut <$> nat
  | "r" => pure .ret
  | _ => failure

def pRes : P Res := do
  let n ← nat
  match n with
  | 0 => pure .ok
  | 1 => pure .errStartup
  | 2 => pure .errListen
  | 3 => pure .errDrain
  | 4 => pure .errObs
  | 5 => pure .other
  | 8 => pure .hang
  | 9 => pure .panic
  | _ => failure

def pReqRes : P ReqRes := do
  let n ← nat
  match n with
  | 0 => pure .incomplete
  | 1 => pure .complete
  | 2 => pure .na
  | _ => failure

def pRRes : P RRes := do
  let n ← nat
  match n with
  | 0 => pure .ok
  | 1 => pure .err
  | 9 => pure .panic
  | 2 => pure .na
  | _ => failure

def pObs : P Obs := do
  lit "LOG"
  let log ← list pEv
  lit "RES"
  let res ← pRes
  lit "FIN"
  let fa ← bool
  let fm ← bool
  let fh ← bool
  lit "RQ"
  let rq ← list pReqRes
  lit "RR"
  let rr ← list pRRes
  pure { log := log, res := res, finApp := fa, finMet := fm, finHeld := fh, reqs := rq, rounds := rr }

def b01 (b : Bool) : String := if b then "1" else "0"

def showEv : Ev → String
  | .startIn i a m z => s!"s {i} {b01 a} {b01 m} {b01 z}"
  | .startOut i => s!"S {i}"
  | .ready i a m z => s!"y {i} {b01 a} {b01 m} {b01 z}"
  | .reloadIn r i => s!"l {r} {i}"
  | .reloadOut r i => s!"L {r} {i}"
  | .reqIn k => s!"q {k}"
  | .reqFin k m => s!"Q {k} {b01 m}"
  | .sig => "c"
  | .shutIn i a m l => s!"h {i} {b01 a} {b01 m} {b01 l}"
  | .shutOut i => s!"H {i}"
  | .flush => "f"
  | .stopIn i a m => s!"p {i} {b01 a} {b01 m}"
  | .stopOut i => s!"P {i}"
  | .ret => "r"

def showRes : Res → String
  | .ok => "0" | .errStartup => "1" | .errListen => "2" | .errDrain => "3" | .errObs => "4"
  | .other => "5" | .hang => "8" | .panic => "9"

def showReqRes : ReqRes → String
  | .incomplete => "0" | .complete => "1" | .na => "2"

def showRRes : RRes → String
  | .ok => "0" | .err => "1" | .panic => "9" | .na => "2"

def showObs (o : Obs) : String :=
  s!"LOG {o.log.length} " ++ " ".intercalate (o.log.map showEv) ++
  s!" RES {showRes o.res} FIN {b01 o.finApp} {b01 o.finMet} {b01 o.finHeld} RQ {o.reqs.length} " ++
  " ".intercalate (o.reqs.map showReqRes) ++ s!" RR {o.rounds.length} " ++
  " ".intercalate (o.rounds.map showRRes)

/-- `fx` = the variant of the code the implementation observations come from: `current` in a check run;
    `C09_FIXES=abcdeg` (six 0/1 flags) lets the as-shipped model be validated against an as-shipped tree -/
def stepWith (fx : Fixes) (line : String) : String :=
  match splitCase line with
  | none => "? bad-line"
  | some (id, inp, obs) =>
    match runP pScenario inp, runP pObs obs with
    | some sc, some o =>
      let m0 := run fx sc false
      let m1 := run fx sc true
      let mi := o == m0 || o == m1
      let s := Spec.holds sc o
      let d := Spec.classify sc
      verdict id mi s d (showObs (if o == m1 then m1 else m0))
    | _, _ => s!"{id} bad-case"

end Rivaas.DriverC09

def parseFixes (s : String) : Option Rivaas.Lifecycle.Fixes :=
  match s.toList.map (· == '1') with
  | [a, b, c, d, e, g] => some ⟨a, b, c, d, e, g⟩
  | _ => none

def main : IO UInt32 := do
  let fx ← match (← IO.getEnv "C09_FIXES") with
    | some s => match parseFixes s with
      | some f => pure f
      | none => do IO.eprintln "C09_FIXES must be six 0/1 flags (a b c d e g)"; return 2
    | none => pure Rivaas.Lifecycle.current
  Rivaas.Proto.driverMain (Rivaas.DriverC09.stepWith fx)
