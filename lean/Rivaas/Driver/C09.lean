import Rivaas.Proto
import Rivaas.Spec.Lifecycle
import Rivaas.Model.Lifecycle
import Rivaas.Model.LifecycleSkel
/-
Driver for C09. Case line (see harness/c09):

  <id> P <entry 0|1|2> <metrics> <tracing> <listen 0|1|2|3> <starts: n b…> <readies: n b…> <nReload> <shuts: n b…> <stops: n b…>
       <reqs: n (H j | D | N)…> <rounds: n (trig  n b…  (0 | 1 j)  pair)…>
    => LOG n <event>… RES <code> FIN <app> <met> <logs held> RQ n <0|1|2>… RR n <0|1|2|9>…

events:  s i a m z | S i | y i a m z | l r i | L r i | q k | Q k m | c | h i a m live | H i | f | p i a m | P i | r
-/
namespace Rivaas.DriverC09
open Rivaas.Proto Rivaas.Lifecycle

def pHB : P HB := do
  let n ← nat
  match n with
  | 0 => pure .ok
  | 1 => pure .err
  | 2 => pure .panic
  | 3 => pure .block
  | 4 => pure .cancelOk
  -- 5..11: the other ways to panic (error value, custom type, five genuine runtime errors)
  | 5 => pure .panic | 6 => pure .panic | 7 => pure .panic | 8 => pure .panic
  | 9 => pure .panic | 10 => pure .panic | 11 => pure .panic
  | _ => failure

def pListen : P Listen := do
  let n ← nat
  match n with
  | 0 => pure .ok
  | 1 => pure .busy
  | 2 => pure .bad
  | 3 => pure .cert
  | _ => failure

def pRel : P Rel := do
  let t ← tok
  if t == "H" then Rel.hook <$> nat
  else if t == "D" then pure .drain
  else if t == "N" then pure .never
  else if t == "J" then pure .hijack
  else failure

def pRound : P Round := do
  let t ← nat
  let trig ← (if t == 0 then pure Trig.prog else if t == 1 then pure Trig.hup else failure : P Trig)
  let beh ← list pHB
  let ca ← opt nat
  let pair ← bool
  -- harness only: the context of this (second, programmatic) round of a pair ends while it waits its turn
  let _ctxEnds ← bool
  pure { trig := trig, beh := beh, cancelAt := ca, pair := pair }

def pScenario : P Scenario := do
  -- entry point (0 Start, 1 StartTLS, 2 StartMTLS): the three share the model
  lit "P"
  let _proto ← nat
  -- particular configurations the model does not distinguish: SIGHUP during the shutdown sequence (the
  -- process must survive it), metrics over OTLP to a dead collector (no metrics port), slow metrics events
  lit "X"
  let _lateHup ← nat
  let _metDead ← bool
  let _metRace ← bool
  -- hooks registered from inside the first OnStart hook; the stop signal is a deadline, not a cancel
  let _lateReg ← bool
  let _byDeadline ← bool
  -- write timeout shorter than the shutdown timeout, a request that finishes late in the drain
  let _shortWrite ← bool
  let m ← bool
  let t ← bool
  let l ← pListen
  let starts ← list pHB
  let readies ← list pHB
  let nr ← nat
  let shuts ← list pHB
  let stops ← list pHB
  let reqs ← list pRel
  let rounds ← list pRound
  pure { metrics := m, tracing := t, listen := l, starts := starts, readies := readies, nReload := nr,
         shuts := shuts, stops := stops, reqs := reqs, rounds := rounds }

def pEv : P Ev := do
  let t ← tok
  match t with
  | "s" => do let i ← nat; let a ← bool; let m ← bool; let z ← bool; pure (.startIn i a m z)
  | "S" => Ev.startOut <$> nat
  | "y" => do let i ← nat; let a ← bool; let m ← bool; let z ← bool; pure (.ready i a m z)
  | "l" => do let r ← nat; let i ← nat; pure (.reloadIn r i)
  | "L" => do let r ← nat; let i ← nat; pure (.reloadOut r i)
  | "q" => Ev.reqIn <$> nat
  | "Q" => do let k ← nat; let m ← bool; pure (.reqFin k m)
  | "c" => pure .sig
  | "h" => do let i ← nat; let a ← bool; let m ← bool; let l ← bool; pure (.shutIn i a m l)
  | "H" => Ev.shutOut <$> nat
  | "f" => pure .flush
  | "p" => do let i ← nat; let a ← bool; let m ← bool; pure (.stopIn i a m)
  | "P" => Ev.stopOut <$> nat
  | "r" => pure .ret
  | _ => failure

def pRes : P Res := do
  let n ← nat
  match n with
  | 0 => pure .ok
  | 1 => pure .errStartup
  | 2 => pure .errListen
  | 3 => pure .errDrain
  | 4 => pure .errObs
  | 5 => pure .other
  | 7 => pure .killed
  | 8 => pure .hang
  | 9 => pure .panic
  | _ => failure

def pReqRes : P ReqRes := do
  let n ← nat
  match n with
  | 0 => pure .incomplete
  | 1 => pure .complete
  | 2 => pure .na
  | _ => failure

def pRRes : P RRes := do
  let n ← nat
  match n with
  | 0 => pure .ok
  | 1 => pure .err
  | 9 => pure .panic
  | 2 => pure .na
  | _ => failure

def pObs : P Obs := do
  lit "LOG"
  let log ← list pEv
  lit "RES"
  let res ← pRes
  lit "FIN"
  let fa ← bool
  let fm ← bool
  let fh ← bool
  lit "RQ"
  let rq ← list pReqRes
  lit "RR"
  let rr ← list pRRes
  pure { log := log, res := res, finApp := fa, finMet := fm, finHeld := fh, reqs := rq, rounds := rr }

def b01 (b : Bool) : String := if b then "1" else "0"

def showEv : Ev → String
  | .startIn i a m z => s!"s {i} {b01 a} {b01 m} {b01 z}"
  | .startOut i => s!"S {i}"
  | .ready i a m z => s!"y {i} {b01 a} {b01 m} {b01 z}"
  | .reloadIn r i => s!"l {r} {i}"
  | .reloadOut r i => s!"L {r} {i}"
  | .reqIn k => s!"q {k}"
  | .reqFin k m => s!"Q {k} {b01 m}"
  | .sig => "c"
  | .shutIn i a m l => s!"h {i} {b01 a} {b01 m} {b01 l}"
  | .shutOut i => s!"H {i}"
  | .flush => "f"
  | .stopIn i a m => s!"p {i} {b01 a} {b01 m}"
  | .stopOut i => s!"P {i}"
  | .ret => "r"

def showRes : Res → String
  | .ok => "0" | .errStartup => "1" | .errListen => "2" | .errDrain => "3" | .errObs => "4"
  | .other => "5" | .killed => "7" | .hang => "8" | .panic => "9"

def showReqRes : ReqRes → String
  | .incomplete => "0" | .complete => "1" | .na => "2"

def showRRes : RRes → String
  | .ok => "0" | .err => "1" | .panic => "9" | .na => "2"

def showObs (o : Obs) : String :=
  s!"LOG {o.log.length} " ++ " ".intercalate (o.log.map showEv) ++
  s!" RES {showRes o.res} FIN {b01 o.finApp} {b01 o.finMet} {b01 o.finHeld} RQ {o.reqs.length} " ++
  " ".intercalate (o.reqs.map showReqRes) ++ s!" RR {o.rounds.length} " ++
  " ".intercalate (o.rounds.map showRRes)

/-! ### skeleton lines: `<id> SKEL <n> { <name> <term> }… => OK` -/

open Rivaas.LifecycleSkel in
def pStmt : Nat → P Stmt
  | 0 => failure
  | f + 1 => do
    let t ← tok
    match t with
    | "C" => do let n ← str; let q ← str; pure (.call n q)
    | "R" => pure (.ret false)
    | "N" => pure (.ret true)
    | "J" => do let s ← pStmt f; let a ← pStmt f; let b ← pStmt f; pure (.try 0 s a b)
    | "T" => Stmt.tail <$> str
    | "G" => Stmt.goto <$> str
    | "K" => pure .skip
    | "S" => do let a ← pStmt f; let b ← pStmt f; pure (.seq a b)
    | "I" => do let a ← pStmt f; let b ← pStmt f; pure (.ite 0 a b)
    | "O" => Stmt.scope <$> pStmt f
    | _ => failure

open Rivaas.LifecycleSkel in
/-- one fresh atom per `if` occurrence -/
def number : Stmt → Nat → Stmt × Nat
  | .seq a b, n => let (a', n1) := number a n; let (b', n2) := number b n1; (.seq a' b', n2)
  | .ite _ t e, n => let (t', n1) := number t (n + 1); let (e', n2) := number e n1; (.ite n t' e', n2)
  | .scope s, n => let (s', n1) := number s n; (.scope s', n1)
  | .try _ s t e, n =>
    let (s', n1) := number s (n + 1); let (t', n2) := number t n1; let (e', n3) := number e n2
    (.try n s' t' e', n3)
  | s, n => (s, n)

open Rivaas.LifecycleSkel in
def pSkels : P Skels := do
  let n ← nat
  let fuel := 100000
  let items ← manyN n (do let name ← str; let t ← pStmt fuel; pure (String.ofList name, (number t 0).1))
  let entries := (items.filter fun p => p.1.startsWith "entry-").map (·.2)
  let arms := (items.filter fun p => p.1.startsWith "run-arm").map (·.2)
  match items.find? (·.1 == "run-pre"), items.find? (·.1 == "run-go"), items.find? (·.1 == "run-after") with
  | some pre, some go, some after =>
    pure { entries := entries, pre := pre.2, go := go.2, arms := arms, after := after.2 }
  | _, _, _ => failure

open Rivaas.LifecycleSkel in
def stepSkel (id : String) (inp : List String) : String :=
  match runP pSkels inp with
  | some k =>
    let v := check k
    verdict id v.ok true "-"
      s!"entries={b01 v.entries} pre={b01 v.pre} go={b01 v.go} arms={b01 v.arms} leaves={b01 v.leaves} after={b01 v.after}"
  | none => s!"{id} bad-case"

/-- `fx` = the variant of the code the implementation observations come from: `current` in a check run;
    `C09_FIXES=abcdeg` (six 0/1 flags) lets the as-shipped model be validated against an as-shipped tree -/
def stepWith (fx : Fixes) (line : String) : String :=
  match splitCase line with
  | none => "? bad-line"
  | some (id, "SKEL" :: inp, _) => stepSkel id inp
  | some (id, inp, obs) =>
    match runP pScenario inp, runP pObs obs with
    | some sc, some o =>
      let m0 := run fx sc false
      let m1 := run fx sc true
      let mi := o == m0 || o == m1
      let s := Spec.holds sc o
      let d := Spec.classify sc
      verdict id mi s d (showObs (if o == m1 then m1 else m0))
    | _, _ => s!"{id} bad-case"

end Rivaas.DriverC09

def parseFixes (s : String) : Option Rivaas.Lifecycle.Fixes :=
  match s.toList.map (· == '1') with
  | [a, b, c, d, e, g] => some ⟨a, b, c, d, e, g⟩
  | _ => none

def main : IO UInt32 := do
  let fx ← match (← IO.getEnv "C09_FIXES") with
    | some s => match parseFixes s with
      | some f => pure f
      | none => do IO.eprintln "C09_FIXES must be six 0/1 flags (a b c d e g)"; return 2
    | none => pure Rivaas.Lifecycle.current
  Rivaas.Proto.driverMain (Rivaas.DriverC09.stepWith fx)
