import Rivaas.Proto
/- Driver for C09 (stub: not built yet) -/
def main : IO UInt32 := do
  IO.eprintln "driver for C09 is not built yet"
  return 2
