import Rivaas.Proto
import Rivaas.Spec.Gates
/-
Driver for C17. The first token after the id is the gate kind.

  B <limit> <skip> <cl: A | G | V int> <body> <eofWithLast> <n> {D k | Z | F | X k}* <dflt> <n> cap* => <status> <ran> <err N|E|L|O> <data>
  A <skip> <n> {user pass}* <realm> <auth> <dec: 0 | 1 bytes> <validator: 0 | 1 verdict> => <ran> <status> <www: 0 | 1 s> <user>
  C <n> opt* <origin> <funcSays> <isOptions> => <ran> <status> acao acac expose methods headers maxage   (each 0 | 1 s)
      opt = O n s* | A b | M n s* | H n s* | E n s* | K b | X n | F b
  M <n> opt* <method> <ctxOrig> <csrfVerified> <clZero> <n>{name val}* <n>{name val}* <n>{raw upper}* <n>{raw norm}* => <ran> <seen> <original>
      opt = H s | Q s | A n s* | O n s* | B b | C b
  T <policy> <path> <pre> <hostSet> <rawQuery> <forceQuery> => <ran> <status> <loc: 0 | 1 s>
  E B <limit> => <status> <content-type> <body> <www: 0>          (bodylimit's default error handler, declared size over the limit)
  E A <realm> => <status> <content-type> <body> <www: 0 | 1 s>    (basicauth's default unauthorized handler, no credentials)

A panic of the real code is the single observation token `P`.
-/
namespace Rivaas.DriverC17
open Rivaas.Proto Rivaas.Gates

def b01 (b : Bool) : String := if b then "1" else "0"
def encOpt : Option Bytes → String
  | none => "0"
  | some s => "1 " ++ encStr s

def pair {α β} (p : P α) (q : P β) : P (α × β) := do
  let a ← p
  let b ← q
  pure (a, b)

/-! ### bodylimit -/

def pStep : P Body.Step := do
  let k ← tok
  if k == "D" then Body.Step.data <$> nat
  else if k == "Z" then pure .zero
  else if k == "F" then pure .fail
  else if k == "X" then Body.Step.dataFail <$> nat
  else failure

def pCL : P Body.CL := do
  let k ← tok
  if k == "A" then pure .absent
  else if k == "G" then pure .garbage
  else if k == "V" then Body.CL.val <$> int
  else failure

def pBodyReq : P Body.Req := do
  let limit ← nat
  let skip ← bool
  let cl ← pCL
  let body ← str
  let ewl ← bool
  let script ← list pStep
  let dflt ← nat
  let caps ← list nat
  pure { limit, skip, cl, body, script, eofWithLast := ewl, caps, dflt }

def pErr : P Body.Err := do
  let k ← tok
  if k == "N" then pure .none
  else if k == "E" then pure .eof
  else if k == "L" then pure .limit
  else if k == "O" then pure .other
  else failure

def pBodyObs : P Body.Obs := do
  let status ← nat
  let ran ← bool
  let err ← pErr
  let data ← str
  pure { status, ran, data, err }

def showErr : Body.Err → String
  | .none => "N" | .eof => "E" | .limit => "L" | .other => "O"

def showBodyObs (o : Body.Obs) : String :=
  s!"{o.status} {b01 o.ran} {showErr o.err} {encStr o.data}"

/-! ### basicauth -/

def pAuthReq : P (Bool × Auth.Req) := do
  let skip ← bool
  let users ← list (pair str str)
  let realm ← str
  let auth ← str
  let dec ← opt str
  let validator ← opt bool
  pure (skip, { users, realm, auth, dec, validator })

def pAuthObs : P Auth.Obs := do
  let ran ← bool
  let status ← nat
  let www ← opt str
  let user ← str
  pure { ran, status, www, user }

def showAuthObs (o : Auth.Obs) : String :=
  s!"{b01 o.ran} {o.status} {encOpt o.www} {encStr o.user}"

/-! ### default error responses (kind E) -/

def pErrObs : P Body.ErrResp := do
  let status ← nat
  let ctype ← str
  let body ← str
  let www ← opt str
  pure { status, ctype, body, www }

def showErrObs (o : Body.ErrResp) : String :=
  s!"{o.status} {encStr o.ctype} {encStr o.body} {encOpt o.www}"

/-! ### cors -/

def pCorsOpt : P Cors.Opt := do
  let k ← tok
  if k == "O" then Cors.Opt.origins <$> list str
  else if k == "A" then Cors.Opt.allowAll <$> bool
  else if k == "M" then Cors.Opt.methods <$> list str
  else if k == "H" then Cors.Opt.headers <$> list str
  else if k == "E" then Cors.Opt.exposed <$> list str
  else if k == "K" then Cors.Opt.credentials <$> bool
  else if k == "X" then Cors.Opt.maxAge <$> nat
  else if k == "F" then Cors.Opt.originFunc <$> bool
  else failure

def pCorsReq : P Cors.Req := do
  let opts ← list pCorsOpt
  let origin ← str
  let funcSays ← bool
  let isOptions ← bool
  pure { opts, origin, funcSays, isOptions }

def pCorsObs : P Cors.Obs := do
  let ran ← bool
  let status ← nat
  let acao ← opt str
  let acac ← opt str
  let expose ← opt str
  let methods ← opt str
  let headers ← opt str
  let maxAge ← opt str
  pure { ran, status, acao, acac, expose, methods, headers, maxAge }

def showCorsObs (o : Cors.Obs) : String :=
  s!"{b01 o.ran} {o.status} {encOpt o.acao} {encOpt o.acac} {encOpt o.expose} {encOpt o.methods} {encOpt o.headers} {encOpt o.maxAge}"

/-! ### methodoverride -/

def pMethodOpt : P Method.Opt := do
  let k ← tok
  if k == "H" then Method.Opt.header <$> str
  else if k == "Q" then Method.Opt.query <$> str
  else if k == "A" then Method.Opt.allow <$> list str
  else if k == "O" then Method.Opt.onlyOn <$> list str
  else if k == "B" then Method.Opt.respectBody <$> bool
  else if k == "C" then Method.Opt.csrf <$> bool
  else failure

def pMethodReq : P Method.Req := do
  let opts ← list pMethodOpt
  let method ← str
  let ctxOrig ← str
  let csrfVerified ← bool
  let clZero ← bool
  let hdr ← list (pair str str)
  let qry ← list (pair str str)
  let upper ← list (pair str str)
  let norm ← list (pair str str)
  pure { opts, method, ctxOrig, csrfVerified, clZero, hdr, qry, upper, norm }

def pMethodObs : P Method.Obs := do
  let ran ← bool
  let seen ← str
  let original ← str
  pure { ran, seen, original }

def showMethodObs (o : Method.Obs) : String :=
  s!"{b01 o.ran} {encStr o.seen} {encStr o.original}"

/-! ### trailingslash -/

def pSlashReq : P Slash.Req := do
  let policy ← nat
  let path ← str
  let pre ← str
  let hostSet ← bool
  let rawQuery ← str
  let forceQuery ← bool
  pure { policy, path, pre, hostSet, rawQuery, forceQuery }

def pSlashObs : P Slash.Obs := do
  let ran ← bool
  let status ← nat
  let loc ← opt str
  pure { ran, status, loc }

def showSlashObs (o : Slash.Obs) : String :=
  s!"{b01 o.ran} {o.status} {encOpt o.loc}"

/-! ### verdicts -/

/-- an observation is either the parsed record or `P` (the real code panicked) -/
def pObs {α} (p : P α) : P (Option α) := do
  match ← peek with
  | some "P" => let _ ← tok; pure none
  | _ => some <$> p

def decideCase {ρ ω} [BEq ω] (id : String) (inp obs : List String)
    (pReq : P ρ) (pO : P ω) (model : ρ → ω) (spec : ρ → ω → Bool) (cls : ρ → String) (sh : ω → String) : String :=
  match runP pReq inp, runP (pObs pO) obs with
  | some r, some o =>
    let m := model r
    match o with
    | some o => verdict id (o == m) (spec r o) (cls r) (sh m)
    | none => verdict id false false "-" (sh m)
  | _, _ => s!"{id} bad-case"

def step (line : String) : String :=
  match splitCase line with
  | none => "? bad-line"
  | some (id, inp, obs) =>
    match inp with
    | "B" :: rest => decideCase id rest obs pBodyReq pBodyObs Body.serve Body.specOK (fun _ => "-") showBodyObs
    | "A" :: rest => decideCase id rest obs pAuthReq pAuthObs (fun sr => Auth.gate sr.1 sr.2)
                       (fun sr o => Auth.gateSpecOK sr.1 sr.2 o) (fun _ => "-") showAuthObs
    | "C" :: rest => decideCase id rest obs pCorsReq pCorsObs Cors.serve
                       (fun r o => Cors.specOK (Cors.config r.opts) r o) (fun _ => "-") showCorsObs
    | "M" :: rest => decideCase id rest obs pMethodReq pMethodObs Method.serve
                       (fun r o => Method.specOK (Method.config r.opts) r o) (fun _ => "-") showMethodObs
    | "E" :: "B" :: rest => decideCase id rest obs nat pErrObs Body.errorResponse (fun _ o => Body.errSpecOK o) (fun _ => "-") showErrObs
    | "E" :: "A" :: rest => decideCase id rest obs str pErrObs Auth.errorResponse (fun _ o => Auth.errSpecOK o) (fun _ => "-") showErrObs
    | "T" :: rest => decideCase id rest obs pSlashReq pSlashObs Slash.serve Slash.specOK (fun _ => "-") showSlashObs
    | _ => s!"{id} bad-case"

end Rivaas.DriverC17

def main : IO UInt32 := Rivaas.Proto.driverMain Rivaas.DriverC17.step
