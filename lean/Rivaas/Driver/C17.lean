import Rivaas.Proto
/- Driver for C17 (stub: not built yet) -/
def main : IO UInt32 := do
  IO.eprintln "driver for C17 is not built yet"
  return 2
