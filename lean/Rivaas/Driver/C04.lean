import Rivaas.Proto
import Rivaas.Model.Bind
import Rivaas.Spec.Bind
import Rivaas.Model.BindObs
import Rivaas.Model.BindBody
import Rivaas.Spec.BindBody
import Rivaas.Model.BindAll
import Rivaas.Spec.BindAll
import Rivaas.Model.BindNestJSON
import Rivaas.Spec.BindNestJSON
import Rivaas.Lemmas.BindPath
import Rivaas.Model.BindAllNestJSON
/-
Driver for C04. Case line:
  <id> <G|T|B> <tag 0..4> <maxDepth> <maxSlice> <maxMap> <csv> <baseAuto> <nconv> { <leaf type key> <converter> }* <allErrors> <evB> <evC> <viaBinder> <Ty> <init Val>
       <nkeys> { <key> <nvals> <val>* }*        (entry B: <nsrc> { <tag> <nkeys> { <key> <nvals> <val>* }* }*)
       <ntbl> { <string> <i10> <i0> <u10> <u0> <f> <t> <d> <j> <nopq> { <kind> <rendering> }* <nconv> { <converter> <rendering> }* <nj: 0 | 1 Val> }*
       => (O <Val> | E <n> <name>* <D|L|M|C> | X) V <FieldBound B> <Done B> <FieldBound C> <Done C> <Stats.FieldsBound|-1>
  Ty  ::= P <code> | R Ty | L Ty | M Ty | T <n> { <name> <exported> <anon> <q> <p> <f> <h> <c> <default> Ty }*
  Val ::= i <int> | u <nat> | f <bits> | b <0|1> | s <str> | t <str> | n | p Val | l <n> Val* | m <n> {<key> Val}* | S <n> Val*
-/
namespace Rivaas.DriverC04
open Rivaas Rivaas.Proto Rivaas.Bind

def pPrim : P Prim := do
  let t ← tok
  match t with
  | "i0" => pure (.int 0) | "i8" => pure (.int 8) | "i16" => pure (.int 16) | "i32" => pure (.int 32) | "i64" => pure (.int 64)
  | "u0" => pure (.uint 0) | "u8" => pure (.uint 8) | "u16" => pure (.uint 16) | "u32" => pure (.uint 32) | "u64" => pure (.uint 64)
  | "f32" => pure .f32 | "f64" => pure .f64 | "b" => pure .bool | "s" => pure .str | "t" => pure .time | "d" => pure .dur
  | t =>
    -- o<k>: a leaf type with its own text form (url.URL, net.IP, net.IPNet, regexp.Regexp, TextUnmarshaler types)
    if t.startsWith "o" then match (t.drop 1).toNat? with
      | some k => pure (.opq k)
      | none => failure
    else failure

partial def pTy : P Ty := do
  let k ← tok
  match k with
  | "P" => Ty.prim <$> pPrim
  | "R" => Ty.ptr <$> pTy
  | "L" => Ty.slice <$> pTy
  | "M" => Ty.map <$> pTy
  | "T" => Ty.struct <$> list (do
      let name ← str; let ex ← bool; let an ← bool
      let tags ← manyN 5 str
      let d ← str
      let t ← pTy
      pure ({ name := name, exported := ex, anon := an, tags := tags, dflt := d }, t))
  | _ => failure

partial def pVal : P Val := do
  let k ← tok
  match k with
  | "i" => Val.int <$> int
  | "u" => Val.uint <$> nat
  | "f" => Val.flt <$> nat
  | "b" => Val.bool <$> bool
  | "s" => Val.str <$> str
  | "t" => Val.time <$> str
  | "n" => pure .nil
  | "p" => Val.ptr <$> pVal
  | "l" => Val.list <$> list pVal
  | "m" => Val.map <$> list (do let k ← str; let v ← pVal; pure (k, v))
  | "S" => Val.struct <$> list pVal
  | _ => failure

def pEntry : P (Bytes × PEntry) := do
  let s ← str
  let i10 ← opt int; let i0 ← opt int; let u10 ← opt nat; let u0 ← opt nat
  let f ← opt (do let a ← nat; let b ← nat; let o ← bool; let i ← bool; pure (a, b, o, i))
  let t ← opt str
  let d ← opt int
  let j ← opt (list (do let k ← str; let v ← str; pure (k, v)))
  let o ← list (do let k ← nat; let r ← str; pure (k, r))
  let c ← list (do let k ← nat; let r ← str; pure (k, r))
  let nj ← opt pVal
  pure (s, { i10 := i10, i0 := i0, u10 := u10, u0 := u0, f := f, t := t, d := d, j := j, o := o, c := c, nj := nj })

def pTag : P Tag := do
  let n ← nat
  match n with
  | 0 => pure .query | 1 => pure .path | 2 => pure .form | 3 => pure .header | 4 => pure .cookie
  | _ => failure

/-- event hooks (WithEvents): which hooks the Binder's / the call's options register (bit 0 FieldBound,
    bit 1 UnknownField, bit 2 Done; call: -1 = no per-call WithEvents) and how often they were invoked -/
structure EvObs where
  fbB : Nat
  doneB : Nat
  fbC : Nat
  doneC : Nat
  bound : Int      -- Stats.FieldsBound handed to the Done hook that fired (-1: none fired)

def hasFB (m : Nat) : Bool := m % 2 == 1
def hasDone (m : Nat) : Bool := (m / 4) % 2 == 1

/-- the hook set in force: a per-call WithEvents replaces the Binder's as a whole -/
def effMask (evB : Nat) (evC : Int) : Nat := if evC < 0 then evB else evC.toNat

/-- the model of the hooks, as the code is: only the hook set in force is invoked; `Done` fires once per call of
    a package-level function (`defer cfg.finish()`) and never through a Binder (its methods do not call
    `finish`); `FieldBound` is invoked only when registered, and at least once when the bind changed the
    destination. The hooks are not part of the C04 statement: they are compared with this model (MI), the
    oracle (S) says nothing about them. -/
def eventsAsModel (evB : Nat) (evC : Int) (viaBinder changed : Bool) (o : EvObs) : Bool :=
  let m := effMask evB evC
  let fb := if evC < 0 then o.fbB else o.fbC
  let done := if evC < 0 then o.doneB else o.doneC
  let fbOther := if evC < 0 then o.fbC else o.fbB
  let doneOther := if evC < 0 then o.doneC else o.doneB
  fbOther == 0 && doneOther == 0 &&
  done == (if hasDone m && !viaBinder then 1 else 0) &&
  (hasFB m || fb == 0) &&
  (!(hasFB m && done == 1) || o.bound == (fb : Int)) &&
  (!(hasFB m && changed) || decide (fb ≥ 1))

def pEvObs : P EvObs := do
  lit "V"
  let a ← nat; let b ← nat; let c ← nat; let d ← nat; let e ← int
  pure { fbB := a, doneB := b, fbC := c, doneC := d, bound := e }

/-- <maxDepth> <maxSlice> <maxMap> <csv> <baseAuto> <nconv> { <leaf type key> <converter> }* <allErrors>
    (with allErrors the observation is `O <Val>` — no error —, `A <n> { E <n> <name>* <class> | F … }*` or `X`) -/
def pCfg : P (Cfg × Bool) := do
  let md ← nat; let ms ← nat; let mm ← nat; let csv ← bool; let ba ← bool
  let convs ← list (do let k ← nat; let c ← nat; pure (k, c))
  let all ← bool      -- WithAllErrors
  pure ({ maxDepth := md, maxSlice := ms, maxMap := mm, csv := csv, baseAuto := ba, convs := convs }, all)

structure Case where
  entry : String
  tag : Tag
  cfg : Cfg
  all : Bool
  evB : Nat
  evC : Int
  viaBinder : Bool
  ty : Ty
  init : Val
  src : Src
  srcs : List Src
  tbl : List (Bytes × PEntry)

def pCase : P Case := do
  let e ← tok
  let tag ← pTag
  let cfg ← pCfg
  let evB ← nat
  let evC ← int
  let vb ← bool
  let ty ← pTy
  let init ← pVal
  let pKvs : P (List (Bytes × List Bytes)) := list (do let k ← str; let vs ← list str; pure (k, vs))
  -- entries B (Bind / BindTo) and A (app.Context.BindOnly): <n> { <tag> <kvs> }*; otherwise one source of kind <tag>
  let srcs ← if e == "B" || e == "A" then list (do let t ← pTag; let kvs ← pKvs; pure ({ kind := t, kvs := kvs } : Src))
             else (do let kvs ← pKvs; pure [({ kind := tag, kvs := kvs } : Src)])
  let tbl ← list pEntry
  pure { entry := e, tag := tag, cfg := cfg.1, all := cfg.2, evB := evB, evC := evC, viaBinder := vb,
         ty := ty, init := init, src := srcs.headD { kind := tag, kvs := [] }, srcs := srcs, tbl := tbl }

def pErrClass : P Err := do
  let t ← tok
  match t with
  | "D" => pure .depth | "L" => pure .sliceLen | "M" => pure .mapSize | "C" => pure .conv
  | _ => failure

def pObs : P Spec.Obs := do
  let k ← tok
  match k with
  | "O" => Spec.Obs.ok <$> pVal
  | "E" => do
    let names ← list str
    let c ← pErrClass
    pure (.err (Spec.wrapErr names c))
  | "X" => pure .panic
  | _ => failure

partial def encVal : Val → String
  | .int i => s!"i {i}"
  | .uint n => s!"u {n}"
  | .flt n => s!"f {n}"
  | .bool b => if b then "b 1" else "b 0"
  | .str s => "s " ++ encStr s
  | .time s => "t " ++ encStr s
  | .nil => "n"
  | .ptr v => "p " ++ encVal v
  | .list vs => s!"l {vs.length}" ++ String.join (vs.map fun v => " " ++ encVal v)
  | .map kvs => s!"m {kvs.length}" ++ String.join (kvs.map fun e => " " ++ encStr e.1 ++ " " ++ encVal e.2)
  | .struct vs => s!"S {vs.length}" ++ String.join (vs.map fun v => " " ++ encVal v)

def errParts : Err → List Bytes × Err
  | .bind n e => let (ns, c) := errParts e; (n :: ns, c)
  | e => ([], e)

def encErr (e : Err) : String :=
  let (ns, c) := errParts e
  let cls := match c with
    | .depth => "D" | .sliceLen => "L" | .mapSize => "M" | _ => "C"
  s!"E {ns.length}" ++ String.join (ns.map fun n => " " ++ encStr n) ++ " " ++ cls

def encObs : Spec.Obs → String
  | .ok v => "O " ++ encVal v
  | .err e => encErr e
  | .panic => "X"

/-! ### body entries

  <id> J <maxDepth> <maxSlice> <maxMap> <csv> <baseAuto> <Ty> <init>
       <nsteps> { S <tag> <kvs> | D <j|x> <policy 0|1|2> <reader> <readFails 0|1|2> <DocInfo> }* <tbl>
       => O <Val> | E <n> <name>* <class> | F <R|D|N|T|U <name>> | X
  <id> H <Ty> <init> <bodyTags> <ctype> 4 { <tag> <kvs> }* <form kvs> <ndocs> <DocInfo>* <nops> { b <strict> | s <doc|-1> | r }* <tbl> => …
  DocInfo ::= <Dec> <Dec> <object>      Dec ::= O <Val> | U <name> | B
-/

def pDec : P Dec := do
  let k ← tok
  match k with
  | "O" => Dec.ok <$> pVal
  | "U" => Dec.unknown <$> str
  | "B" => pure .bad
  | _ => failure

def pDocInfo : P DocInfo := do
  let l ← pDec; let s ← pDec; let o ← bool
  pure { lax := l, strict := s, object := o }

def pKvs : P (List (Bytes × List Bytes)) := list (do let k ← str; let vs ← list str; pure (k, vs))

def pStep : P Step := do
  let k ← tok
  match k with
  | "S" => do let t ← pTag; let kvs ← pKvs; pure (.src { kind := t, kvs := kvs })
  | "D" => do
    let f ← tok
    let pol ← nat; let rd ← bool; let rf ← nat; let d ← pDocInfo
    pure (.body { fmt := if f == "x" then .xml else .json,
                  policy := match pol with | 0 => .ignore | 1 => .warn | _ => .error,
                  reader := rd, readFails := rf, doc := d })
  | _ => failure

def pOp : P Op := do
  let k ← tok
  match k with
  | "b" => Op.bind <$> bool
  | "s" => do
    let i ← int
    pure (.setBody (if i < 0 then none else some i.toNat))
  | "r" => pure .reset
  | _ => failure

structure JCase where
  cfg : Cfg
  all : Bool
  ty : Ty
  init : Val
  steps : List Step
  tbl : List (Bytes × PEntry)

def pJCase : P JCase := do
  let cfg ← pCfg
  let ty ← pTy
  let init ← pVal
  let steps ← list pStep
  let tbl ← list pEntry
  pure { cfg := cfg.1, all := cfg.2, ty := ty, init := init, steps := steps, tbl := tbl }

structure HCase where
  ty : Ty
  init : Val
  http : Http
  ops : List Op
  tbl : List (Bytes × PEntry)

def pHCase : P HCase := do
  let ty ← pTy
  let init ← pVal
  let bt ← bool
  let ct ← str
  let params ← list (do let t ← pTag; let kvs ← pKvs; pure ({ kind := t, kvs := kvs } : Src))
  let form ← pKvs
  let mform ← opt pKvs
  let docs ← list pDocInfo
  let ops ← list pOp
  let tbl ← list pEntry
  pure { ty := ty, init := init, ops := ops, tbl := tbl,
         http := { ctype := ct, params := params, form := { kind := .form, kvs := form },
                   mform := mform.map (fun kvs => { kind := .form, kvs := kvs }), docs := docs, bodyTags := bt } }

def pBObs : P Spec.BObs := do
  let k ← tok
  match k with
  | "O" => Spec.BObs.ok <$> pVal
  | "E" => do
    let names ← list str
    let c ← pErrClass
    pure (.err (.bind (Spec.wrapErr names c)))
  | "F" => do
    let c ← tok
    match c with
    | "R" => pure (.err .read) | "D" => pure (.err .decode) | "N" => pure (.err .nobody) | "T" => pure (.err .ctype)
    | "U" => do let n ← str; pure (.err (.unknown n))
    | _ => failure
  | "X" => pure .panic
  | _ => failure

def lookupP (tbl : List (Bytes × PEntry)) : Params := fun s => (assoc s tbl).getD {}

/-- the hypotheses of `bind_meets_spec`, checked on every case: well-typed destination, type inside
    the grammar, source container well-formed, shipped float facts consistent (`FloatSane`) -/
def preconditions (c : Case) : Bool :=
  (match c.ty, c.init with
   | .struct fs, .struct ivs => wts fs ivs && Spec.inGrammarFs fs
   | _, _ => false) &&
  c.srcs.all Spec.srcOK &&
  -- app.Context.Bind / BindOnly / MustBind: the sources the handler saw, in bindInternal's order
  (c.entry != "A" || c.srcs.map (·.kind) == appSourceKinds) &&
  c.tbl.all (fun e => match e.2.f with
    | some (_, _, above, inf32) => !inf32 || above
    | none => true)

def encBErr : BErr → String
  | .decode => "F D" | .read => "F R" | .ctype => "F T" | .nobody => "F N"
  | .unknown n => "F U " ++ encStr n
  | .bind e => encErr e

def encBOut : BOut → String
  | .ok v => "O " ++ encVal v
  | .err e => encBErr e
  | .panic => "X"

def encBObs : Spec.BObs → String
  | .ok v => "O " ++ encVal v
  | .err e => encBErr e
  | .panic => "X"

def pBErrItem : P BErr := do
  let k ← tok
  match k with
  | "E" => do
    let names ← list str
    let c ← pErrClass
    pure (.bind (Spec.wrapErr names c))
  | "F" => do
    let c ← tok
    match c with
    | "R" => pure .read | "D" => pure .decode | "N" => pure .nobody | "T" => pure .ctype
    | "U" => do let n ← str; pure (.unknown n)
    | _ => failure
  | _ => failure

def pObsAllB : P Spec.ObsAllB := do
  let k ← tok
  match k with
  | "O" => do let v ← pVal; pure (.done v [])
  | "A" => do let es ← list pBErrItem; pure (.done .nil es)
  | "X" => pure .panic
  | _ => failure

def bindErrs? : List BErr → Option (List Err)
  | [] => some []
  | .bind e :: r => (bindErrs? r).map (e :: ·)
  | _ :: _ => none

def pObsAll : P Spec.ObsAll := do
  let o ← pObsAllB
  match o with
  | .panic => pure .panic
  | .done v es => match bindErrs? es with
    | some es' => pure (.done v es')
    | none => failure

def encAllB (v : Val) (es : List BErr) : String :=
  if es.isEmpty then "O " ++ encVal v
  else s!"A {es.length}" ++ String.join (es.map fun e => " " ++ encBErr e)

def encOutAll : OutAll → String
  | .panic => "X"
  | .done v es => encAllB v (es.map .bind)

def encObsAll : Spec.ObsAll → String
  | .panic => "X"
  | .done v es => encAllB v (es.map .bind)

def encOutAllB : OutAllB → String
  | .panic => "X"
  | .done v es => encAllB v es

def encObsAllB : Spec.ObsAllB → String
  | .panic => "X"
  | .done v es => encAllB v es

def stepsOK (steps : List Step) : Bool :=
  steps.all fun s => match s with
    | .src s => Spec.srcOK s
    | .body _ => true

def tblOK (tbl : List (Bytes × PEntry)) : Bool :=
  tbl.all (fun e => match e.2.f with
    | some (_, _, above, inf32) => !inf32 || above
    | none => true)

def disjointVals : List Val → List Val → List Val → Bool
  | i :: is, j :: js, c :: cs => (j == i || c == i) && disjointVals is js cs
  | _, _, _ => true

/-- the assumption of the body model, checked on every case: the fields the decoder changes are fields the
    value sources of the case leave alone -/
def disjoint (init dec vals : Val) : Bool :=
  match init, dec, vals with
  | .struct is, .struct js, .struct cs => disjointVals is js cs
  | _, _, _ => true

def stepsDisjoint (P : Params) (cfg : Cfg) (fs : List Fld) (init : Val) (steps : List Step) : Bool :=
  match bindMulti P cfg fs init (Spec.srcsOf steps) with
  | .ok v => (Spec.bodiesOf steps).all fun r => match decodeBody r with
    | .ok dv => disjoint init dv v
    | .error _ => true
  | _ => true

/-- the hypothesis `DocTyped` of `bindStepsAll_errors_meet_spec`: what the standard library decoded is a well-typed
    value of the destination type -/
def docsTyped (fs : List Fld) (steps : List Step) : Bool :=
  (Spec.bodiesOf steps).all fun r =>
    let ok := fun (d : Dec) => match d with
      | .ok (.struct js) => wts fs js
      | .ok _ => false
      | _ => true
    ok r.doc.lax && ok r.doc.strict

def stepJAll (id : String) (c : JCase) (obs : List String) : String :=
  match runP pObsAllB obs with
  | some o =>
    match c.ty, c.init with
    | .struct fs, .struct ivs =>
      if !(wts fs ivs && Spec.inGrammarFs fs && stepsOK c.steps && tblOK c.tbl && (Spec.bodiesOf c.steps).length ≤ 1 &&
           docsTyped fs c.steps) then
        s!"{id} bad-case preconditions"
      else
        let P := lookupP c.tbl
        if !stepsDisjoint P c.cfg fs c.init c.steps then s!"{id} bad-case body and value sources overlap" else
        let m := bindStepsAll P c.cfg fs c.init c.steps
        verdict id (encOutAllB m == encObsAllB o) (Spec.specStepsAll P c.cfg fs c.init c.steps o) "-" (encOutAllB m)
    | _, _ => s!"{id} bad-case type"
  | none => s!"{id} bad-case"

def stepJPlain (id : String) (c : JCase) (obs : List String) : String :=
  match runP pBObs obs with
  | some o =>
    match c.ty, c.init with
    | .struct fs, .struct ivs =>
      if !(wts fs ivs && Spec.inGrammarFs fs && stepsOK c.steps && tblOK c.tbl && (Spec.bodiesOf c.steps).length ≤ 1) then
        s!"{id} bad-case preconditions"
      else
        let P := lookupP c.tbl
        if !stepsDisjoint P c.cfg fs c.init c.steps then s!"{id} bad-case body and value sources overlap" else
        let m := bindSteps P c.cfg fs c.init c.steps
        verdict id (encBOut m == encBObs o) (Spec.specSteps P c.cfg fs c.init c.steps o) "-" (encBOut m)
    | _, _ => s!"{id} bad-case type"
  | none => s!"{id} bad-case"

def stepJ (id : String) (inp obs : List String) : String :=
  match runP pJCase inp with
  | some c => if c.all then stepJAll id c obs else stepJPlain id c obs
  | none => s!"{id} bad-case"

def lastStrict : List Op → Bool
  | [] => false
  | .bind s :: rest => if rest.any (fun o => match o with | .bind _ => true | _ => false) then lastStrict rest else s
  | _ :: rest => lastStrict rest

/-- a multipart body (bindForm's own test of the raw header) is bound through a MultipartGetter, which is a form getter
    for scalars, pointers and slices but not for map notation / nested structs: such cases need the parsed form shipped,
    a well-formed source and a type whose form-tagged fields are leaves of the top level -/
def multipartOK (fs : List Fld) (h : Http) : Bool :=
  !(hasPrefix h.ctype (B "multipart/form-data")) || !h.bodyTags || classifyCT h.ctype != .multipart ||
  (match h.mform with
   | some s => Spec.srcOK s
   | none => false) &&
  (Spec.nodesOf .form fs).isEmpty &&
  (Spec.leavesOf .form fs).all (fun l => !l.nested && !isMapTy l.ty)

def stepH (id : String) (inp obs : List String) : String :=
  match runP pHCase inp, runP pBObs obs with
  | some c, some o =>
    match c.ty, c.init with
    | .struct fs, .struct ivs =>
      if !(wts fs ivs && Spec.inGrammarFs fs && c.http.params.all Spec.srcOK && Spec.srcOK c.http.form && tblOK c.tbl &&
           c.http.params.map (·.kind) == appSourceKinds && multipartOK fs c.http) then
        s!"{id} bad-case preconditions"
      else
        let P := lookupP c.tbl
        let overlap := match bindMulti P Cfg.default fs c.init c.http.params with
          | .ok v => c.http.docs.any fun d => match d.lax with
            | .ok dv => !disjoint c.init dv v
            | _ => false
          | _ => false
        if overlap then s!"{id} bad-case body and value sources overlap" else
        let m := appRun P fs c.init c.http c.ops
        let reads := c.http.bodyTags && classifyCT c.http.ctype == .json &&
          (match bindMulti P Cfg.default fs c.init c.http.params with | .ok _ => true | _ => false)
        let doc := (Spec.docOfOps reads c.ops (none, some 0, none)).bind (fun i => c.http.docs[i]?)
        verdict id (encBOut m == encBObs o) (Spec.specApp P fs c.init c.http (lastStrict c.ops) doc o) "-" (encBOut m)
    | _, _ => s!"{id} bad-case type"
  | _, _ => s!"{id} bad-case"

/-- WithAllErrors: the collecting bind against the collecting oracle -/
def evVerdict (c : Case) (changed : Bool) (ev : EvObs) : Bool × Bool :=
  (eventsAsModel c.evB c.evC c.viaBinder changed ev, true)

def stepAll (id : String) (c : Case) (obs : List String) : String :=
  match runP (do let o ← pObsAll; let ev ← pEvObs; pure (o, ev)) obs with
  | none => s!"{id} bad-case"
  | some (o, ev) =>
    let changed := match o with
      | .done v [] => !(v == c.init)
      | _ => false
    let (emi, es) := evVerdict c changed ev
    if !preconditions c then s!"{id} bad-case preconditions" else
    let P := lookupP c.tbl
    match c.ty with
    | .struct fs =>
      if c.entry == "B" || c.entry == "A" then
        let m := bindMultiAll P c.cfg fs c.init c.srcs
        verdict id (encOutAll m == encObsAll o && emi) (Spec.specMultiAll P c.cfg fs c.init c.srcs o && es) "-" (encOutAll m)
      else
        let m := bindAllJ P c.cfg c.tag c.ty c.init c.src
        verdict id (encOutAll m == encObsAll o && emi) (Spec.specAllJ P c.cfg c.tag fs c.init c.src o && es) "-" (encOutAll m)
    | _ => s!"{id} bad-case type"

def stepPlain (id : String) (c : Case) (obs : List String) : String :=
  match runP (do let o ← pObs; let ev ← pEvObs; pure (o, ev)) obs with
  | none => s!"{id} bad-case"
  | some (o, ev) =>
    let changed := match o with
      | .ok v => !(v == c.init)
      | _ => false
    let (emi, es) := evVerdict c changed ev
    if !preconditions c then s!"{id} bad-case preconditions" else
    let P := lookupP c.tbl
    match c.ty with
    | .struct fs =>
      if c.entry == "B" || c.entry == "A" then
        -- several sources: bindMultiSource against the folded oracle
        let m := toObs (bindMulti P c.cfg fs c.init c.srcs)
        verdict id (encObs m == encObs o && emi) (Spec.specMulti P c.cfg fs c.init c.srcs o && es) "-" (encObs m)
      else
        -- one source: with the nested-struct JSON shortcut (`bindJ` is `bind` where the table ships no decoded struct)
        let m := toObs (bindJ P c.cfg c.tag c.ty c.init c.src)
        verdict id (encObs m == encObs o && emi) (Spec.specOKJ P c.cfg c.tag fs c.init c.src o && es) "-" (encObs m)
    | _ => s!"{id} bad-case type"

def step (line : String) : String :=
  match splitCase line with
  | none => "? bad-line"
  | some (id, "J" :: inp, obs) => stepJ id inp obs
  | some (id, "H" :: inp, obs) => stepH id inp obs
  | some (id, inp, obs) =>
    match runP pCase inp with
    | some c => if c.all then stepAll id c obs else stepPlain id c obs
    | none => s!"{id} bad-case"

end Rivaas.DriverC04

def main : IO UInt32 := Rivaas.Proto.driverMain Rivaas.DriverC04.step
