import Rivaas.Proto
import Rivaas.Model.Bind
import Rivaas.Spec.Bind
import Rivaas.Model.BindObs
import Rivaas.Lemmas.BindPath
/-
Driver for C04. Case line:
  <id> <G|T|B> <tag 0..4> <maxDepth> <maxSlice> <maxMap> <csv> <baseAuto> <Ty> <init Val>
       <nkeys> { <key> <nvals> <val>* }*        (entry B: <nsrc> { <tag> <nkeys> { <key> <nvals> <val>* }* }*)
       <ntbl> { <string> <i10> <i0> <u10> <u0> <f> <t> <d> <j> <nopq> { <kind> <rendering> }* }*
       => O <Val> | E <n> <name>* <D|L|M|C> | X
  Ty  ::= P <code> | R Ty | L Ty | M Ty | T <n> { <name> <exported> <anon> <q> <p> <f> <h> <c> <default> Ty }*
  Val ::= i <int> | u <nat> | f <bits> | b <0|1> | s <str> | t <str> | n | p Val | l <n> Val* | m <n> {<key> Val}* | S <n> Val*
-/
namespace Rivaas.DriverC04
open Rivaas Rivaas.Proto Rivaas.Bind

def pPrim : P Prim := do
  let t ← tok
  match t with
  | "i0" => pure (.int 0) | "i8" => pure (.int 8) | "i16" => pure (.int 16) | "i32" => pure (.int 32) | "i64" => pure (.int 64)
  | "u0" => pure (.uint 0) | "u8" => pure (.uint 8) | "u16" => pure (.uint 16) | "u32" => pure (.uint 32) | "u64" => pure (.uint 64)
  | "f32" => pure .f32 | "f64" => pure .f64 | "b" => pure .bool | "s" => pure .str | "t" => pure .time | "d" => pure .dur
  | t =>
    -- o<k>: a leaf type with its own text form (url.URL, net.IP, net.IPNet, regexp.Regexp, TextUnmarshaler types)
    if t.startsWith "o" then match (t.drop 1).toNat? with
      | some k => pure (.opq k)
      | none => failure
    else failure

partial def pTy : P Ty := do
  let k ← tok
  match k with
  | "P" => Ty.prim <$> pPrim
  | "R" => Ty.ptr <$> pTy
  | "L" => Ty.slice <$> pTy
  | "M" => Ty.map <$> pTy
  | "T" => Ty.struct <$> list (do
      let name ← str; let ex ← bool; let an ← bool
      let tags ← manyN 5 str
      let d ← str
      let t ← pTy
      pure ({ name := name, exported := ex, anon := an, tags := tags, dflt := d }, t))
  | _ => failure

partial def pVal : P Val := do
  let k ← tok
  match k with
  | "i" => Val.int <$> int
  | "u" => Val.uint <$> nat
  | "f" => Val.flt <$> nat
  | "b" => Val.bool <$> bool
  | "s" => Val.str <$> str
  | "t" => Val.time <$> str
  | "n" => pure .nil
  | "p" => Val.ptr <$> pVal
  | "l" => Val.list <$> list pVal
  | "m" => Val.map <$> list (do let k ← str; let v ← pVal; pure (k, v))
  | "S" => Val.struct <$> list pVal
  | _ => failure

def pEntry : P (Bytes × PEntry) := do
  let s ← str
  let i10 ← opt int; let i0 ← opt int; let u10 ← opt nat; let u0 ← opt nat
  let f ← opt (do let a ← nat; let b ← nat; let o ← bool; let i ← bool; pure (a, b, o, i))
  let t ← opt str
  let d ← opt int
  let j ← opt (list (do let k ← str; let v ← str; pure (k, v)))
  let o ← list (do let k ← nat; let r ← str; pure (k, r))
  pure (s, { i10 := i10, i0 := i0, u10 := u10, u0 := u0, f := f, t := t, d := d, j := j, o := o })

def pTag : P Tag := do
  let n ← nat
  match n with
  | 0 => pure .query | 1 => pure .path | 2 => pure .form | 3 => pure .header | 4 => pure .cookie
  | _ => failure

structure Case where
  entry : String
  tag : Tag
  cfg : Cfg
  ty : Ty
  init : Val
  src : Src
  srcs : List Src
  tbl : List (Bytes × PEntry)

def pCase : P Case := do
  let e ← tok
  let tag ← pTag
  let md ← nat; let ms ← nat; let mm ← nat; let csv ← bool; let ba ← bool
  let ty ← pTy
  let init ← pVal
  let pKvs : P (List (Bytes × List Bytes)) := list (do let k ← str; let vs ← list str; pure (k, vs))
  -- entries B (Bind / BindTo) and A (app.Context.BindOnly): <n> { <tag> <kvs> }*; otherwise one source of kind <tag>
  let srcs ← if e == "B" || e == "A" then list (do let t ← pTag; let kvs ← pKvs; pure ({ kind := t, kvs := kvs } : Src))
             else (do let kvs ← pKvs; pure [({ kind := tag, kvs := kvs } : Src)])
  let tbl ← list pEntry
  pure { entry := e, tag := tag, cfg := { maxDepth := md, maxSlice := ms, maxMap := mm, csv := csv, baseAuto := ba },
         ty := ty, init := init, src := srcs.headD { kind := tag, kvs := [] }, srcs := srcs, tbl := tbl }

def pErrClass : P Err := do
  let t ← tok
  match t with
  | "D" => pure .depth | "L" => pure .sliceLen | "M" => pure .mapSize | "C" => pure .conv
  | _ => failure

def pObs : P Spec.Obs := do
  let k ← tok
  match k with
  | "O" => Spec.Obs.ok <$> pVal
  | "E" => do
    let names ← list str
    let c ← pErrClass
    pure (.err (Spec.wrapErr names c))
  | "X" => pure .panic
  | _ => failure

partial def encVal : Val → String
  | .int i => s!"i {i}"
  | .uint n => s!"u {n}"
  | .flt n => s!"f {n}"
  | .bool b => if b then "b 1" else "b 0"
  | .str s => "s " ++ encStr s
  | .time s => "t " ++ encStr s
  | .nil => "n"
  | .ptr v => "p " ++ encVal v
  | .list vs => s!"l {vs.length}" ++ String.join (vs.map fun v => " " ++ encVal v)
  | .map kvs => s!"m {kvs.length}" ++ String.join (kvs.map fun e => " " ++ encStr e.1 ++ " " ++ encVal e.2)
  | .struct vs => s!"S {vs.length}" ++ String.join (vs.map fun v => " " ++ encVal v)

def errParts : Err → List Bytes × Err
  | .bind n e => let (ns, c) := errParts e; (n :: ns, c)
  | e => ([], e)

def encErr (e : Err) : String :=
  let (ns, c) := errParts e
  let cls := match c with
    | .depth => "D" | .sliceLen => "L" | .mapSize => "M" | _ => "C"
  s!"E {ns.length}" ++ String.join (ns.map fun n => " " ++ encStr n) ++ " " ++ cls

def encObs : Spec.Obs → String
  | .ok v => "O " ++ encVal v
  | .err e => encErr e
  | .panic => "X"

def lookupP (tbl : List (Bytes × PEntry)) : Params := fun s => (assoc s tbl).getD {}

/-- the hypotheses of `bind_meets_spec`, checked on every case: well-typed destination, type inside
    the grammar, source container well-formed, shipped float facts consistent (`FloatSane`) -/
def preconditions (c : Case) : Bool :=
  (match c.ty, c.init with
   | .struct fs, .struct ivs => wts fs ivs && Spec.inGrammarFs fs
   | _, _ => false) &&
  c.srcs.all Spec.srcOK &&
  c.tbl.all (fun e => match e.2.f with
    | some (_, _, above, inf32) => !inf32 || above
    | none => true)

def step (line : String) : String :=
  match splitCase line with
  | none => "? bad-line"
  | some (id, inp, obs) =>
    match runP pCase inp, runP pObs obs with
    | some c, some o =>
      if !preconditions c then s!"{id} bad-case preconditions" else
      let P := lookupP c.tbl
      match c.ty with
      | .struct fs =>
        if c.entry == "B" || c.entry == "A" then
          -- several sources: bindMultiSource against the folded oracle
          let m := toObs (bindMulti P c.cfg fs c.init c.srcs)
          verdict id (encObs m == encObs o) (Spec.specMulti P c.cfg fs c.init c.srcs o) "-" (encObs m)
        else
          let m := toObs (bind P c.cfg c.tag c.ty c.init c.src)
          verdict id (encObs m == encObs o) (Spec.specOK P c.cfg c.tag fs c.init c.src o) "-" (encObs m)
      | _ => s!"{id} bad-case type"
    | _, _ => s!"{id} bad-case"

end Rivaas.DriverC04

def main : IO UInt32 := Rivaas.Proto.driverMain Rivaas.DriverC04.step
