import Rivaas.Proto
/- Driver for C04 (stub: not built yet) -/
def main : IO UInt32 := do
  IO.eprintln "driver for C04 is not built yet"
  return 2
