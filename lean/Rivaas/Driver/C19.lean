import Rivaas.Proto
/- Driver for C19 (stub: not built yet) -/
def main : IO UInt32 := do
  IO.eprintln "driver for C19 is not built yet"
  return 2
