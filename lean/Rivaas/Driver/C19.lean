import Rivaas.Proto
import Rivaas.Model.Accept
import Rivaas.Model.Render
import Rivaas.Model.Headers
import Rivaas.Spec.Accept
import Rivaas.Spec.Render
/-
Driver for C19. Case lines (family letter first):
  N <n> { <kind 0..3> <header> <offers…> }* <npf> { <raw> <0 | 1 micro> }* => <n> { A <answer> <fresh answer> | P }*
  F <code> <preCT> <format> <nargs> { S <str> | O }* <sprintf> => R <status> <ctype> <body> | E | P
  J <variant> <code> <hasExtra> <extra> <encOK> <enc> => R <status> <ctype> <body> <same> | E <bodylen> <ctype> | P
  H <n> { <op> <args…> <code> <ship…> <keys…> }* => <n> { V <nkeys> { <values…> }* | P }*
  M <npre> {call}* <code> <accept> <vtext> <encOK> <enc> <npf> …pf => R <status> <ctype> <body> <same> | E <bodylen> <ctype> | P
  P <nw> { <calls…> <fmt> <val> <sprintf> }* <npf> …pf => <nw> { <panics> <ncalls> { <answers…> <fresh> }* <bodies…> }*
  R <n> { W <failAt> <mode> (F … | J … | T <kind> <code> <ct> <text>) }* => <n> { R <status> <ctype> <body> <same> | E <delivered> | P }*
-/
namespace Rivaas.DriverC19
open Rivaas.Proto

/-! ### N -/

def pKind : P Accept.Kind := do
  let k ← nat
  match k with
  | 0 => pure .accept | 1 => pure .charset | 2 => pure .encoding | 3 => pure .language
  | _ => failure

def pCall : P Accept.Call := do
  let k ← pKind
  let h ← str
  let os ← list str
  pure { kind := k, header := h, offers := os }

def pPF : P (Bytes × Option Nat) := do
  let raw ← str
  let v ← opt nat
  pure (raw, v)

def mkPF (tbl : List (Bytes × Option Nat)) : Accept.PF := fun raw => (tbl.lookup raw).join

def pNegObs : P (Option (Bytes × Bytes)) := do
  let k ← tok
  if k == "A" then do
    let a ← str
    let f ← str
    pure (some (a, f))
  else if k == "P" then pure none else failure

def encNeg (answers : List Bytes) : String :=
  " ".intercalate (toString answers.length :: answers.map encStr)

def stepN (id : String) (inp obs : List String) : String :=
  match runP (do let cs ← list pCall; let tbl ← list pPF; pure (cs, tbl)) inp, runP (list pNegObs) obs with
  | some (calls, tbl), some os =>
    let pf := mkPF tbl
    let m := Accept.run pf Accept.Ctx.fresh calls
    let mi := os.length == m.length && (os.zip m).all (fun p => match p.1 with
      | some (a, _) => a == p.2
      | none => false)
    let s := os.length == calls.length && (os.zip calls).all (fun p => match p.1 with
      | some (a, fresh) =>
        a == fresh && AcceptSpec.negotiationOK (p.2.kind == Accept.Kind.accept) p.2.header p.2.offers a
      | none => false)
    -- how many calls fall under the strong clause of the oracle (header in the grammar, offers well formed)
    let dom := (calls.filter (fun c => AcceptSpec.inDomain (c.kind == Accept.Kind.accept) c.header c.offers)).length
    verdict id mi s "-" ("N " ++ encNeg m ++ s!" dom {dom} {calls.length}")
  | _, _ => s!"{id} bad-case"

/-! ### F -/

def pArg : P (Option Bytes) := do
  let k ← tok
  if k == "S" then some <$> str else if k == "O" then pure none else failure

structure FObs where
  status : Nat
  ctype : Bytes
  body : Bytes

def pFObs : P (Option FObs) := do
  let k ← tok
  if k == "R" then do
    let st ← nat
    let ct ← str
    let b ← str
    pure (some { status := st, ctype := ct, body := b })
  else if k == "P" || k == "E" then pure none else failure

def stepF (id : String) (inp obs : List String) : String :=
  match runP (do
      let code ← nat; let pre ← str; let fmt ← str; let args ← list pArg; let sp ← str
      pure (code, pre, fmt, args, sp)) inp, runP pFObs obs with
  | some (code, pre, fmt, args, sp), some o =>
    let margs := args.map fun a => match a with | some s => Render.Arg.str s | none => Render.Arg.other
    let sargs := args.map fun a => match a with | some s => RenderSpec.Arg.str s | none => RenderSpec.Arg.other
    let mbody := Render.stringfBody fmt margs sp
    let mct := Render.stringfCType pre
    let mi := match o with
      | some r => r.status == code && r.ctype == mct && r.body == mbody
      | none => false
    let s := match o with
      | some r => RenderSpec.stringfOK code pre fmt sargs sp r.status r.ctype r.body
      | none => false
    verdict id mi s "-" s!"R {code} {encStr mct} {encStr mbody}"
  | _, _ => s!"{id} bad-case"

/-! ### J -/

inductive JObs
  | ok (status : Nat) (ctype body : Bytes) (same : Bool)
  | err (bodyLen : Nat) (ctype : Bytes)
  | panic

def pJObs : P JObs := do
  let k ← tok
  if k == "R" then do
    let st ← nat; let ct ← str; let b ← str; let same ← bool
    pure (.ok st ct b same)
  else if k == "E" then do
    let n ← nat; let ct ← str
    pure (.err n ct)
  else if k == "P" then pure .panic else failure

def stepJ (id : String) (inp obs : List String) : String :=
  match runP (do
      let v ← nat; let code ← nat; let he ← bool; let ex ← str; let ok ← bool; let enc ← str
      pure (v, code, he, ex, ok, enc)) inp, runP pJObs obs with
  | some (v, code, he, ex, ok, enc), some o =>
    let extra := if he then some ex else none
    if ok then
      let mbody := Render.jsonBody v extra enc
      let mct := Render.jsonCType v
      let (mi, s) := match o with
        | .ok st ct b same => (st == code && ct == mct && b == mbody, RenderSpec.jsonOK v code extra enc st ct b same)
        | _ => (false, false)
      verdict id mi s "-" s!"R {code} {encStr mct} {encStr mbody}"
    else
      -- encoding/json refused the value: the helper returns the error and writes nothing
      let (mi, s) := match o with
        | .err n ct => (n == 0 && ct == [], n == 0 && ct == [])
        | _ => (false, false)
      verdict id mi s "-" "E 0 h:"
  | _, _ => s!"{id} bad-case"

/-! ### R: histories of render calls, some to a response writer whose k-th Write fails -/

inductive RCall
  | f (code : Nat) (pre fmt : Bytes) (args : List (Option Bytes)) (sp : Bytes)
  | j (v code : Nat) (extra : Option Bytes) (ok : Bool) (enc : Bytes)
  | t (kind code : Nat) (ct text : Bytes)

structure RStep where
  failAt : Nat
  mode : Nat
  call : RCall

def pRStep : P RStep := do
  lit "W"
  let failAt ← nat
  let mode ← nat
  let k ← tok
  let call ← if k == "F" then do
      let code ← nat; let pre ← str; let fmt ← str; let args ← list pArg; let sp ← str
      pure (RCall.f code pre fmt args sp)
    else if k == "J" then do
      let v ← nat; let code ← nat; let he ← bool; let ex ← str; let ok ← bool; let enc ← str
      pure (RCall.j v code (if he then some ex else none) ok enc)
    else if k == "T" then do
      let kind ← nat; let code ← nat; let ct ← str; let text ← str
      pure (RCall.t kind code ct text)
    else failure
  pure { failAt := failAt, mode := mode, call := call }

inductive RObs
  | ok (status : Nat) (ctype body : Bytes) (same : Bool)
  | err (delivered : Bytes)
  | panic

def pRObs : P RObs := do
  let k ← tok
  if k == "R" then do
    let st ← nat; let ct ← str; let b ← str; let same ← bool
    pure (.ok st ct b same)
  else if k == "E" then RObs.err <$> str
  else if k == "P" then pure .panic else failure

/-- the model's response on a healthy writer: `none` = the helper returns an error and writes nothing -/
def rModel : RCall → Option (Nat × Bytes × Bytes)
  | .f code pre fmt args sp =>
    some (code, Render.stringfCType pre,
      Render.stringfBody fmt (args.map fun a => match a with | some s => Render.Arg.str s | none => Render.Arg.other) sp)
  | .j v code extra ok enc => if ok then some (code, Render.jsonCType v, Render.jsonBody v extra enc) else none
  | .t kind code ct text => some (code, Render.plainCType kind ct, text)

/-- the unchanged per-call oracle on a response that reports success -/
def rOracle (c : RCall) (st : Nat) (ct b : Bytes) (same : Bool) : Bool :=
  match c with
  | .f code pre fmt args sp =>
    RenderSpec.stringfOK code pre fmt (args.map fun a => match a with | some s => RenderSpec.Arg.str s | none => RenderSpec.Arg.other) sp st ct b
  | .j v code extra ok enc => ok && RenderSpec.jsonOK v code extra enc st ct b same
  | .t kind code ct0 text => RenderSpec.plainOK kind code ct0 text st ct b

def encRModel : Option (Nat × Bytes × Bytes) → String
  | some (code, ct, b) => s!"R {code} {encStr ct} {encStr b}"
  | none => "E"

def stepR (id : String) (inp obs : List String) : String :=
  match runP (list pRStep) inp, runP (list pRObs) obs with
  | some steps, some os =>
    let ms := steps.map (fun s => rModel s.call)
    let judge (p : RStep × RObs) : Bool × Bool :=
      let s := p.1
      let m := rModel s.call
      match p.2 with
      | .panic => (false, false)
      | .ok st ct b same =>
        -- success reported: exactly the documented response, whatever happened to other responses
        let mi := match m with
          | some (code, mct, mb) =>
            -- a writer broken at its first Write cannot deliver a non-empty body
            st == code && ct == mct && b == mb && !(s.failAt == 1 && !mb.isEmpty)
          | none => false
        (mi, rOracle s.call st ct b same)
      | .err _ =>
        -- failure reported: nothing is demanded of the bytes; the model expects it only from a broken
        -- writer or an unencodable value (how many Writes a helper issues is not documented behaviour)
        (s.failAt ≥ 1 || m.isNone, s.failAt ≥ 1 || m.isNone)
    let vs := (steps.zip os).map judge
    let okLen := os.length == steps.length
    verdict id (okLen && vs.all (·.1)) (okLen && vs.all (·.2)) "-" (" ".intercalate (toString ms.length :: ms.map encRModel))
  | _, _ => s!"{id} bad-case"

/-! ### P: requests served concurrently — per call the set of answers over all rounds -/

structure PWorker where
  calls : List Accept.Call
  fmt : Bytes
  val : Bytes
  sp : Bytes

def pPWorker : P PWorker := do
  let calls ← list pCall
  let fmt ← str
  let val ← str
  let sp ← str
  pure { calls := calls, fmt := fmt, val := val, sp := sp }

structure PObs where
  panics : Nat
  answers : List (List Bytes × Bytes)     -- distinct answers seen, answer of the call alone
  bodies : List Bytes

def pPObs : P PObs := do
  let panics ← nat
  let answers ← list (do let as ← list str; let f ← str; pure (as, f))
  let bodies ← list str
  pure { panics := panics, answers := answers, bodies := bodies }

def stepP (id : String) (inp obs : List String) : String :=
  match runP (do let ws ← list pPWorker; let tbl ← list pPF; pure (ws, tbl)) inp, runP (list pPObs) obs with
  | some (ws, tbl), some os =>
    let pf := mkPF tbl
    let judge (p : PWorker × PObs) : Bool × Bool :=
      let w := p.1
      let o := p.2
      let mAns := w.calls.map (Accept.answer pf)
      let mBody := Render.stringfBody w.fmt [Render.Arg.str w.val] w.sp
      let mi := o.panics == 0 && o.answers.map (·.1) == mAns.map (fun a => [a]) && o.bodies == [mBody]
      let s := o.panics == 0 && o.answers.length == w.calls.length &&
        (o.answers.zip w.calls).all (fun q => match q.1.1 with
          | [a] => a == q.1.2 && AcceptSpec.negotiationOK (q.2.kind == Accept.Kind.accept) q.2.header q.2.offers a
          | _ => false) &&
        (match o.bodies with
          | [b] => b == w.sp && (match RenderSpec.sprintfRef w.fmt [RenderSpec.Arg.str w.val] with
              | some x => b == x
              | none => true)
          | _ => false)
      (mi, s)
    let vs := (ws.zip os).map judge
    let okLen := os.length == ws.length
    verdict id (okLen && vs.all (·.1)) (okLen && vs.all (·.2)) "-"
      (" ".intercalate ("P" :: toString ws.length :: ws.map (fun w => encNeg (w.calls.map (Accept.answer pf)))))
  | _, _ => s!"{id} bad-case"

/-! ### M: Format (negotiated rendering), optionally after other negotiation calls on the same context -/

def stepM (id : String) (inp obs : List String) : String :=
  match runP (do
      let pre ← list pCall
      let code ← nat; let hdr ← str; let vtext ← str; let ok ← bool; let enc ← str; let tbl ← list pPF
      pure (pre, code, hdr, vtext, ok, enc, tbl)) inp, runP pJObs obs with
  | some (pre, code, hdr, vtext, ok, enc, tbl), some o =>
    let pf := mkPF tbl
    let call : Accept.Call := { kind := .accept, header := hdr, offers := Render.formatOffers }
    -- the answer inside the history (the model of the four calls on one context), then the rendering
    let ans := (Accept.run pf Accept.Ctx.fresh (pre ++ [call])).getLastD []
    let m := Render.formatResponse ans code vtext ok enc
    let ob : Option (Option (Nat × Bytes × Bytes × Bool)) := match o with
      | .ok st ct b same => some (some (st, ct, b, same))
      | .err n ct => if n == 0 && ct == [] then some none else none
      | .panic => none
    let mi := match ob, m with
      | some (some (st, ct, b, _)), some (mc, mct, mb) => st == mc && ct == mct && b == mb
      | some none, none => true
      | _, _ => false
    let s := match ob with
      | some x => RenderSpec.formatOK (AcceptSpec.negotiationOK true hdr Render.formatOffers) code vtext ok enc x
      | none => false
    verdict id mi s "-" (match m with
      | some (c, ct, b) => s!"R {c} {encStr ct} {encStr b}"
      | none => "E 0 h:")
  | _, _ => s!"{id} bad-case"

/-! ### H -/

structure HOp where
  op : Headers.Op
  keys : List Bytes
  /-- cookie round trip: (cookie line emitted, value set); the last observed "key" is the read-back -/
  rt : Option (Bool × Bytes) := none

def pHOp : P HOp := do
  let name ← tok
  let args ← list str
  let _code ← nat
  let ship ← list str
  let keys ← list str
  let a (i : Nat) : Bytes := args.getD i []
  let op ← match name with
    | "Header" => pure (Headers.Op.header (keys.getD 0 []) (a 1))
    | "Append" => pure (Headers.Op.append (keys.getD 0 []) (a 1))
    | "Vary" => pure (Headers.Op.vary args)
    | "Link" => pure (Headers.Op.link (a 0) (a 1))
    | "Redirect" => pure (Headers.Op.location (a 0))
    | "Location" => pure (Headers.Op.location (a 0))
    | "ContentType" => pure (Headers.Op.contentType (a 0) (ship.getD 0 []))
    | "Download" => pure (Headers.Op.download (a 0) (if args.length > 1 then some (a 1) else none))
    | "NotAllowed" => pure (Headers.Op.notAllowed args)
    | "SetCookie" => pure (Headers.Op.setCookie (ship.getD 0 []))
    | "CookieRT" => pure (Headers.Op.setCookie (ship.getD 0 []))
    | "Data" => pure (Headers.Op.data (a 0))
    | "Reader" => pure (Headers.Op.reader (a 0) (keys.getD 1 []) (a 2))
    | "AppFail" => pure (Headers.Op.failHeaders (keys.getD 0 []) (args.drop 2) (a 1))
    | _ => failure
  if name == "CookieRT" then
    pure { op := op, keys := keys.take 1, rt := some (!(ship.getD 0 []).isEmpty, a 1) }
  else pure { op := op, keys := keys }

def pHObs : P (Option (List (List Bytes))) := do
  let k ← tok
  if k == "V" then some <$> list (list str) else if k == "P" then pure none else failure

/-- model observations: after each operation the values of the keys it names -/
def runH : Headers.HMap → List HOp → List (List (List Bytes))
  | _, [] => []
  | m, o :: os =>
    let m' := Headers.apply m o.op
    -- the model of SetCookie ; GetCookie on the next request: the value as set, when the cookie was emitted
    let rb := match o.rt with
      | some (emitted, v) => [if emitted then [v] else []]
      | none => []
    (o.keys.map (Headers.hvals m') ++ rb) :: runH m' os

def encVals (vss : List (List Bytes)) : String :=
  " ".intercalate ("V" :: toString vss.length :: vss.map (fun vs => " ".intercalate (toString vs.length :: vs.map encStr)))

def stepH (id : String) (inp obs : List String) : String :=
  match runP (list pHOp) inp, runP (list pHObs) obs with
  | some ops, some os =>
    let m := runH [] ops
    let mi := os.length == m.length && (os.zip m).all (fun p => p.1 == some p.2)
    let s := os.length == ops.length && (os.zip ops).all (fun p => match p.1 with
      | some vss =>
        (match p.2.rt with
         | some (emitted, v) =>
           -- header values clean; the read-back (last entry) is judged by the round-trip clause, not by noCRLF
           (vss.dropLast).all (fun vs => vs.all RenderSpec.noCRLF) &&
           RenderSpec.cookieRoundTripOK emitted v (vss.getLastD [])
         | none => vss.all (fun vs => vs.all RenderSpec.noCRLF))
      | none => false)
    verdict id mi s "-" (" ".intercalate (toString m.length :: m.map encVals))
  | _, _ => s!"{id} bad-case"

def step (line : String) : String :=
  match splitCase line with
  | none => "? bad-line"
  | some (id, inp, obs) =>
    match inp with
    | "N" :: rest => stepN id rest obs
    | "F" :: rest => stepF id rest obs
    | "J" :: rest => stepJ id rest obs
    | "H" :: rest => stepH id rest obs
    | "R" :: rest => stepR id rest obs
    | "P" :: rest => stepP id rest obs
    | "M" :: rest => stepM id rest obs
    | _ => s!"{id} bad-case"

end Rivaas.DriverC19

def main : IO UInt32 := Rivaas.Proto.driverMain Rivaas.DriverC19.step
