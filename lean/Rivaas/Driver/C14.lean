import Rivaas.Proto
import Rivaas.Spec.Config
import Rivaas.Model.ConfigEnv
/-
Driver for C14. One case is a history of Loads on one Config (strings hex-encoded):

  <id> CFG <schema> <nValidators> <bound> <n> <probe key>… Z <n> { <field> <zero value> }*
       L <n> { S <n> { F | O <kvs> | E <prefix> <n> <NAME=value>* }*  B ( N | R | K <n> { <field> <value> }* )
               FI <n> { <field> <present> <zero> }*  RD <n> <placement>*
               RC ( 0 | 1 S … B … FI … ) }*          (RC 1: a second Load runs concurrently with these sources)
    => { L <failed> V <kvs> B <n> { <field> <value> }* G <n> <res>* TY <typed getters agree> PN <a Load panicked> RD <n> { <consistent> <kvs> }*
         RC ( 0 | 1 <second Load failed> ) }*

  <kvs> ::= <n> { <key> ( L <rendering> | M <kvs> ) }*      <res> ::= N | L <rendering> | M
  placement: 0 pointer taken before the Load and read after it, 1 inside a source's Load,
  2 inside a custom validator, 3 started under the write lock, 4 after the Load, 9 free-running.
-/
namespace Rivaas.DriverC14
open Rivaas.Proto Rivaas.Config

partial def pKvs : P Kvs := do
  let n ← nat
  manyN n (do
    let k ← str
    let t ← tok
    if t == "L" then do
      let r ← str
      pure (k, CVal.leaf r)
    else if t == "M" then do
      let m ← pKvs
      pure (k, CVal.map m)
    else failure)

def pSrc : P SrcResult := do
  let t ← tok
  if t == "F" then pure .fail
  else if t == "O" then SrcResult.ok <$> pKvs
  else if t == "E" then do
    -- the environment source: computed by the model from os.Environ() and the prefix
    let pfx ← str
    let environ ← list str
    pure (.ok (envSource pfx environ))
  else failure

def pPair : P (Bytes × Bytes) := do
  let a ← str
  let b ← str
  pure (a, b)

structure LoadCase where
  inp : LoadInput
  readers : List Nat
  race : Option LoadInput

def pInput : P LoadInput := do
  lit "S"
  let srcs ← list pSrc
  lit "B"
  let t ← tok
  let bind ← if t == "N" then pure none
    else if t == "R" then pure (some BindOutcome.reject)
    else if t == "K" then (fun fs => some (BindOutcome.ok fs)) <$> list pPair
    else failure
  lit "FI"
  let fields ← list (do
    let n ← str
    let p ← bool
    let z ← str
    pure ({ name := n, present := p, zero := z } : FieldInfo))
  pure { srcs := srcs, bind := bind, fields := fields }

def pLoad : P LoadCase := do
  let inp ← pInput
  lit "RD"
  let rds ← list nat
  lit "RC"
  let raced ← bool
  let race ← if raced then some <$> pInput else pure none
  pure { inp := inp, readers := rds, race := race }

structure Case where
  schema : Bool
  nv : Nat
  bound : Bool
  keys : List Bytes
  /-- the struct passed to `WithBinding` as it is before the first Load (its zero value) -/
  zero : List (Bytes × Bytes)
  loads : List LoadCase

def pCase : P Case := do
  lit "CFG"
  let schema ← bool
  let nv ← nat
  let bound ← bool
  let keys ← list str
  lit "Z"
  let zero ← list pPair
  lit "L"
  let loads ← list pLoad
  pure { schema := schema, nv := nv, bound := bound, keys := keys, zero := zero, loads := loads }

def pRes : P Res := do
  let t ← tok
  if t == "N" then pure .none
  else if t == "M" then pure .isMap
  else if t == "L" then Res.leaf <$> str
  else failure

structure Obs where
  load : LoadObs
  readers : List (Bool × Kvs)
  raceFailed : Option Bool

def pObs1 (keys : List Bytes) : P Obs := do
  lit "L"
  let failed ← bool
  lit "V"
  let vals ← pKvs
  lit "B"
  let bound ← list pPair
  lit "G"
  let gets ← list pRes
  lit "TY"
  let typed ← bool
  lit "PN"
  let panicked ← bool
  lit "RD"
  let rds ← list (do let ok ← bool; let m ← pKvs; pure (ok, m))
  lit "RC"
  let raced ← bool
  let rf ← if raced then some <$> bool else pure none
  pure { load := { failed := failed, values := vals, bound := bound, gets := keys.zip gets, typed := typed, panicked := panicked },
         readers := rds, raceFailed := rf }

partial def pObsAll (keys : List Bytes) : P (List Obs) := do
  match ← peek with
  | none => pure []
  | some "ST" => pure []
  | some _ => do
    let o ← pObs1 keys
    let rest ← pObsAll keys
    pure (o :: rest)

/-- the model of the code as it is in the repository now -/
def modelLoad (c : Case) (st : State) (inp : LoadInput) : State × Stage := load c.schema c.nv st inp

def zeroBound (c : Case) : List (Bytes × Bytes) := c.zero

def encRes : Res → String
  | .none => "N"
  | .isMap => "M"
  | .leaf r => "L " ++ encStr r

/-- compare one Load: model vs implementation (`mi`), oracle on the implementation (`s`) -/
def stepLoad (c : Case) (st : State) (prevV : Kvs) (prevB : List (Bytes × Bytes)) (lc : LoadCase) (o : Obs) :
    State × Bool × Bool × String :=
  let (st', stage) := modelLoad c st lc.inp
  let mFailed := stage != .ok
  let mGets := c.keys.map fun k => classify (get st'.values k)
  -- readers: placements 0,1,2 read the map installed before this Load's commit, 3,4 the one after
  let mReaders := lc.readers.map fun pl => if pl ≤ 2 then st.values else st'.values
  let rdMI := (lc.readers.zip (mReaders.zip o.readers)).all fun (pl, m, (_, seen)) =>
    if pl == 9 then kvsEq seen st.values || kvsEq seen st'.values else kvsEq seen m
  let mi := (o.load.failed == mFailed) && kvsEq o.load.values st'.values &&
    (!c.bound || o.load.bound == st'.bound) && (o.load.gets.map (·.2) == mGets) && rdMI
  let s := loadOK c.schema c.nv prevV prevB lc.inp o.load &&
    o.readers.all fun (ok, seen) => ok && readerOK prevV o.load.values seen
  (st', mi, s, s!"L {if mFailed then 1 else 0} G {mGets.length}" ++ String.join (mGets.map fun r => " " ++ encRes r))

/-- two racing Loads: the implementation must match one of the two orders of the locked regions -/
def stepRace (c : Case) (st : State) (prevV : Kvs) (prevB : List (Bytes × Bytes)) (a b : LoadInput)
    (o : Obs) (failedB : Bool) : State × Bool × Bool × String :=
  let order (x y : LoadInput) : State × Bool × Bool :=
    let r1 := modelLoad c st x
    let r2 := modelLoad c r1.1 y
    (r2.1, r1.2 != .ok, r2.2 != .ok)
  let (sAB, fA1, fB1) := order a b
  let (sBA, fB2, fA2) := order b a
  let fits (s : State) (fa fb : Bool) : Bool :=
    (o.load.failed == fa) && (failedB == fb) && kvsEq o.load.values s.values &&
    (!c.bound || o.load.bound == s.bound) &&
    (o.load.gets.map (·.2) == c.keys.map fun k => classify (get s.values k))
  let mAB := fits sAB fA1 fB1
  let mBA := fits sBA fA2 fB2
  let getsFit (x : LoadInput) : Bool := o.load.gets.all fun (k, r) => r == specGet (okMaps x) k
  let s := raceOK c.schema c.nv prevV prevB a b o.load.failed failedB o.load.values o.load.bound &&
    o.load.typed && !o.load.panicked && ((o.load.failed && failedB) || getsFit a || getsFit b)
  (if mAB then sAB else sBA, mAB || mBA, s, s!"RACE AB={mAB} BA={mBA}")

def runCase (c : Case) (obs : List Obs) : Bool × Bool × String :=
  let rec go (st : State) (prevV : Kvs) (prevB : List (Bytes × Bytes)) :
      List LoadCase → List Obs → Bool × Bool × String
    | [], [] => (true, true, "")
    | lc :: ls, o :: os =>
      let (st', mi, s, txt) := match lc.race, o.raceFailed with
        | some b, some fb => stepRace c st prevV prevB lc.inp b o fb
        | none, none => stepLoad c st prevV prevB lc o
        | _, _ => (st, false, false, "race-mismatch")
      let (mi2, s2, txt2) := go st' o.load.values o.load.bound ls os
      (mi && mi2, s && s2, txt ++ " " ++ txt2)
    | _, _ => (false, false, "length-mismatch")
  go { values := [], bound := if c.bound then zeroBound c else [] } [] (if c.bound then zeroBound c else []) c.loads obs

def step (line : String) : String :=
  match splitCase line with
  | none => "? bad-line"
  | some (id, inp, obs) =>
    match runP pCase inp with
    | some c =>
      -- an optional trailing `ST <anomaly>`: the …Or getters under reload stress returned something that
      -- is neither the value nor the default (oracle only; the model has no counterpart)
      let stress := match obs.reverse with
        | a :: "ST" :: _ => a == "1"
        | _ => false
      let obs' := match obs.reverse with
        | _ :: "ST" :: rest => rest.reverse
        | _ => obs
      match runP (pObsAll c.keys) obs' with
      | some os =>
        let (mi, s0, txt) := runCase c os
        let s := s0 && !stress
        verdict id mi s "-" (if mi && s then "" else txt ++ (if stress then " STRESS-ANOMALY" else ""))
      | none => s!"{id} bad-case (observation)"
    | none => s!"{id} bad-case (input)"

end Rivaas.DriverC14

def main : IO UInt32 := Rivaas.Proto.driverMain Rivaas.DriverC14.step
