import Rivaas.Proto
/- Driver for C14 (stub: not built yet) -/
def main : IO UInt32 := do
  IO.eprintln "driver for C14 is not built yet"
  return 2
