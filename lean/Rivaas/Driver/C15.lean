import Rivaas.Proto
/- Driver for C15 (stub: not built yet) -/
def main : IO UInt32 := do
  IO.eprintln "driver for C15 is not built yet"
  return 2
