import Rivaas.Proto
import Rivaas.Model.Compress
import Rivaas.Spec.Compress
/-
Driver for C15. Case line:
  <id> (<A|N> <minSize> <gzip> <br> <exclCT…> <exclPaths…> <exclExts…> | O <nOpts> {opt}*) <path> <accept-encoding> <recovery> <HEAD request: 0|1>
       <nPre> {<key> <n> <val>*}*   (headers an outer middleware set before the chain reached the compression middleware)
       <nSniff> {<prefix> <type>}* <nOps> {op}*  =>  <obs without middleware> <obs with middleware>
  op  ::= H <key> <n> <val>* | D <key> | W <code> | B <bytes> | F | C <n> <bytes>* | X | Z
          (Z: marker — the ops before it were performed by a middleware in FRONT of the compression middleware, on the bare writer)
  obs ::= P | E | R <status> <nh> {<key> <n> <val>*}* <ntrailers> {<key> <n> <val>*}* <wire body longer than 2048: 0|1> (0 | 1 <decoded body>) <nOuts> {<flag> <n> <err>}*
  bytes ::= h:<hex> | z:<seg>.<seg>…   with seg ::= <hex> | <hexbyte>*<count>
  opt ::= gl <int> | bl <int> | nb | ng | ms <int> | ep <strs> | ee <strs> | ect <strs> | lg
A line `<id> K <what> => <n> {<len p> <n> <err is nil: 0|1>}*` is contract-only: Write results of a handler behind the
middleware on an underlying writer that fails (judged by `writeContractRaw`, no model).
`A` selects the model of the code as shipped, `N` the model of the code as it is now, `O` the model of the code as it
is now with the configuration computed by the model from the option list (`Compress.config`).
-/
namespace Rivaas.DriverC15
open Rivaas.Proto Rivaas.Http Rivaas.Compress Rivaas.CompressSpec

def pSeg (s : String) : Option Bytes :=
  match s.splitOn "*" with
  | [h] => (unhexBytes h.toList).map bytesOfU8
  | [h, n] =>
    match unhexBytes h.toList, n.toNat? with
    | some [b], some k => some (List.replicate k (Char.ofNat b.toNat))
    | _, _ => none
  | _ => none

def pBytes : P Bytes := do
  let t ← tok
  if t.startsWith "h:" then
    match unhexBytes (t.drop 2).toString.toList with
    | some bs => pure (bytesOfU8 bs)
    | none => failure
  else if t.startsWith "z:" then
    let segs := ((t.drop 2).toString.splitOn ".").map pSeg
    if segs.all Option.isSome then pure (segs.filterMap id).flatten else failure
  else failure

def pOp : P Op := do
  let k ← tok
  if k == "H" then do let key ← str; let vs ← list str; pure (.setH key vs)
  else if k == "D" then Op.delH <$> str
  else if k == "W" then Op.writeHeader <$> nat
  else if k == "B" then Op.write <$> pBytes
  else if k == "F" then pure .flush
  else if k == "C" then Op.copy <$> list pBytes
  else if k == "X" then pure .panic
  else failure

def pErr : P Err := do
  let n ← nat
  pure (match n with | 0 => .ok | 1 => .bodyNotAllowed | 2 => .shortWrite | 3 => .invalidWrite | _ => .other)

structure ObsR where
  obs : Obs
  outs : List OutObs
  wireBig : Bool

/-- `none` = the exchange ended in a panic / torn-down connection -/
def pObs : P (Option ObsR) := do
  let k ← tok
  if k == "P" || k == "E" then pure none
  else if k == "R" then do
    let st ← nat
    let hs ← list (do let key ← str; let vs ← list str; pure (key, vs))
    let ts ← list (do let key ← str; let vs ← list str; pure (key, vs))
    let wb ← bool
    let dec ← opt pBytes
    let outs ← list (do let f ← nat; let n ← nat; let e ← pErr; pure (⟨f, n, e⟩ : OutObs))
    pure (some ⟨⟨st, hs, ts, dec⟩, outs, wb⟩)
  else failure

structure Case where
  asis : Bool
  cfg : Cfg
  path : Bytes
  ae : Bytes
  recovery : Bool
  head : Bool
  pre : Hdrs
  sniffTab : List (Bytes × Bytes)
  ops : List Op
  /-- what a middleware in front did on the bare writer before the chain went on (the ops before the marker `Z`) -/
  preOps : List Op := []

/-- one functional option, as the harness handed it to `compression.New` -/
def pOpt : P Opt := do
  let k ← tok
  if k == "gl" then Opt.gzipLevel <$> int
  else if k == "bl" then Opt.brotliLevel <$> int
  else if k == "nb" then pure .brotliDisabled
  else if k == "ng" then pure .gzipDisabled
  else if k == "ms" then Opt.minSize <$> int
  else if k == "ep" then Opt.exclPaths <$> list str
  else if k == "ee" then Opt.exclExts <$> list str
  else if k == "ect" then Opt.exclCT <$> list str
  else if k == "lg" then pure .logger
  else failure

/-- the configuration: either its fields (tags `A` / `N`) or, tag `O`, the list of options in the order they were
    given to `New` — the model folds them over `defaultConfig` (`Compress.config`) -/
def pCfg (tag : String) : P Cfg := do
  if tag == "O" then do
    let opts ← list pOpt
    pure (config opts).toCfg
  else do
    let ms ← nat
    let gz ← bool
    let br ← bool
    let ect ← list str
    let ep ← list str
    let ee ← list str
    pure ⟨ms, gz, br, ect, ep, ee⟩

def pCase : P Case := do
  let tag ← tok
  let cfg ← pCfg tag
  let path ← str
  let ae ← str
  let rc ← bool
  let hd ← bool
  let pre ← list (do let key ← str; let vs ← list str; pure (key, vs))
  let tab ← list (do let p ← pBytes; let t ← str; pure (p, t))
  let ops ← list (do
    match ← peek with
    | some "Z" => let _ ← tok; pure none
    | _ => some <$> pOp)
  let hasZ := ops.any Option.isNone
  let preOps := if hasZ then (ops.takeWhile Option.isSome).filterMap id else []
  let ops := if hasZ then ((ops.dropWhile Option.isSome).drop 1).filterMap id else ops.filterMap id
  pure { preOps := preOps, asis := tag == "A", cfg := cfg, path := path, ae := ae, recovery := rc, head := hd, pre := pre, sniffTab := tab, ops := ops }

/-- http.DetectContentType as shipped by the harness (looked up on the first 512 bytes); an
    argument the harness did not anticipate yields a marker that cannot equal a real type -/
def sniffOf (tab : List (Bytes × Bytes)) : Sniff := fun b =>
  match tab.find? (fun e => e.1 == b.take 512) with
  | some e => e.2
  | none => "?unshipped-sniff-argument".toList

def outsMatch : List WOut → List OutObs → Bool
  | [], [] => true
  | m :: ms, o :: os =>
    (match o.flag with
      | 0 => true
      | 1 => m.n == o.n && m.err == o.err
      | _ => (m.err == .ok) == (o.err == .ok)) && outsMatch ms os
  | _, _ => false

/-- a key with no values produces no header line; the client moves the `Trailer` announcement out of the
    header map, and `http.TrailerPrefix` keys are never written into the header block -/
def lines (h : Hdrs) : Hdrs :=
  h.filter (fun kv => !kv.2.isEmpty && kv.1 != kTrailer && !startsWith trailerPrefix kv.1)

def obsMatchesPlain (m : Base × List WOut) (o : Option ObsR) : Bool :=
  match o with
  | none => m.1.panicked
  | some r => !m.1.panicked && m.1.resp.status == r.obs.status && heq (lines m.1.resp.hdrs) (lines r.obs.hdrs) &&
      r.obs.decoded == some m.1.resp.body && outsMatch m.2 r.outs

def obsMatchesWith (m : WithResp) (o : Option ObsR) : Bool :=
  match o with
  | none => m.panicked
  | some r => !m.panicked && m.resp.status == r.obs.status && heq (lines m.resp.hdrs) (lines r.obs.hdrs) &&
      r.obs.decoded == m.decoded && outsMatch m.outs r.outs

def showWith (m : WithResp) : String :=
  if m.panicked then "P" else
  s!"R {m.resp.status} hdrs={m.resp.hdrs.map (fun kv => (String.ofList kv.1, kv.2.map String.ofList))} decoded={m.decoded.map (fun b => (encStr (b.take 48), b.length))} outs={m.outs.map (fun o => (o.n, repr o.err))}"

/-- contract-only lines (tag `K`): the underlying writer fails at some point, the handler's Write results are judged
    by the io.Writer clause alone (there is no model of an exchange on a failing connection: MI is not evaluated) -/
def stepContract (id : String) (obs : List String) : String :=
  match runP (list (do let l ← nat; let n ← int; let ok ← bool; pure (l, n, ok))) obs with
  | some outs => verdict id true (writeContractRaw outs) "-" "contract-only"
  | none => s!"{id} bad-case"

def step (line : String) : String :=
  match splitCase line with
  | none => "? bad-line"
  | some (id, "K" :: _, obs) => stepContract id obs
  | some (id, inp, obs) =>
    match runP pCase inp, runP (do let a ← pObs; let b ← pObs; pure (a, b)) obs with
    | some c, some (op, ow) =>
      let sn := sniffOf c.sniffTab
      let mp0 := if c.preOps.isEmpty then runPlain sn c.pre c.ops else runPlainFrom sn c.pre c.preOps c.ops
      let mw0 := if c.asis then runWithAsIs sn c.cfg c.path c.ae c.ops
        else if c.preOps.isEmpty then runWith sn c.cfg c.path c.ae c.pre c.ops
        else runWithFrom sn c.cfg c.path c.ae c.pre c.preOps c.ops
      -- K15r: the encoder ran behind a header block that was committed before (no Content-Encoding on the wire)
      let unl := !c.asis && !c.preOps.isEmpty && unlabelled sn c.cfg c.path c.ae c.pre c.preOps c.ops
      -- a HEAD response is the GET response without body (and without trailers): net/http accepts and drops the
      -- bytes; the middleware does not look at the method
      let mp := if c.head then ({ mp0.1 with body := [] }, mp0.2) else mp0
      let mw := if c.head then { mw0 with decoded := mw0.decoded.map (fun _ => []), resp := { mw0.resp with body := [] } } else mw0
      -- trailers (the as-shipped model does not have them)
      let trOK := c.asis || c.head || !c.preOps.isEmpty || (match op, ow with
        | some p, some w =>
          heq (lines ((runOps (plainStep sn) { live := c.pre } c.ops).1.trailersAtFinish sn false)) p.obs.trailers &&
          heq (lines (withTrailers sn c.cfg c.path c.ae c.pre c.ops w.wireBig)) w.obs.trailers
        | _, _ => true)
      -- an unlabelled encoded body cannot be predicted byte by byte (abstract codec; net/http sniffs a type from the
      -- encoded bytes): status, write results and "the body is not the plain one" (nothing at all behind a committed
      -- 204 / 304) are compared
      let miUnl := match ow with
        | none => mw.panicked
        | some r => !mw.panicked && mw.resp.status == r.obs.status &&
            (if noBody mw.resp.status then r.obs.decoded == some []   -- when the encoder's own writes start to fail is codec business
             else outsMatch mw.outs r.outs && r.obs.decoded != some mp.1.resp.body)
      let mi := obsMatchesPlain mp op && (if unl then miUnl else obsMatchesWith mw ow) && trOK
      -- the oracle, on what the implementation did
      let s := match op, ow with
        | some p, some w =>
          transparentObs p.obs w.obs && encodingOK c.ae p.obs w.obs && writeContract (writeLens c.ops) w.outs
        | none, _ => true      -- the program is outside the domain (it makes the bare writer panic)
        | some _, none => false
      let d := if !s && preCommits c.preOps then "pre-committed"
        else if !s && panicMidstream c.ops then "panic-midstream"
        else if !s && prefixTrailerUnannounced c.ops then "prefix-trailer-unannounced" else "-"
      verdict id mi s d (String.ofList ((showWith mw).toList.map (fun c => if c == ' ' then '_' else c)))
    | _, _ => s!"{id} bad-case"

end Rivaas.DriverC15

def main : IO UInt32 := Rivaas.Proto.driverMain Rivaas.DriverC15.step
