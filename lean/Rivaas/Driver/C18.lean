import Rivaas.Proto
import Rivaas.Spec.RealIP
/-
Driver for C18. Case line:
  <id> <maxHops> <peer> <peerTrusted> <nh> { X <n> { 0 | 1 <ip> <trusted> }* | S { 0 | 1 <ip> } }* => R <result> | P
-/
namespace Rivaas.DriverC18
open Rivaas.Proto Rivaas.RealIP

def pItem : P Item := opt (do let ip ← str; let t ← bool; pure (ip, t))

def pHdr : P Hdr := do
  let k ← tok
  if k == "X" then Hdr.xff <$> list pItem
  else if k == "S" then Hdr.single <$> opt str
  else failure

def pReq : P Req := do
  let mh ← nat
  let peer ← str
  let pt ← bool
  let hs ← list pHdr
  pure { maxHops := mh, peer := peer, peerTrusted := pt, hdrs := hs }

/-- observation: `R <result>` or `P` (panic) -/
def pObs : P (Option Bytes) := do
  let k ← tok
  if k == "R" then some <$> str else if k == "P" then pure none else failure

def step (line : String) : String :=
  match splitCase line with
  | none => "? bad-line"
  | some (id, inp, obs) =>
    match runP pReq inp, runP pObs obs with
    | some r, some o =>
      let m := clientIP r
      let mi := o == some m
      let s := match o with
        | some res => specOK r res
        | none => false
      verdict id mi s "-" ("R " ++ encStr m)
    | _, _ => s!"{id} bad-case"

end Rivaas.DriverC18

def main : IO UInt32 := Rivaas.Proto.driverMain Rivaas.DriverC18.step
