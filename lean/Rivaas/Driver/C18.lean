import Rivaas.Proto
import Rivaas.Spec.RealIP
import Rivaas.Model.RealIPText
import Rivaas.Model.RemoteAddr
/-
Driver for C18. Case line (raw header text + the `net` table for every candidate item):
  <id> <maxHops as configured> <RemoteAddr> <nh> { X <value> | S <value> }* (as configured)  2 { X <value> | S <value> } (the defaults)
       <ntbl> { <item> 0 | <item> 1 <canonical> <trusted> }*  =>  R <result> | P
The model derives the peer from RemoteAddr itself (`net.SplitHostPort` is modelled), splits and trims the header text itself (`splitAndTrim`, `parseOneIP`), classifies every
item through the table and runs the walk; the oracle `specOK` is evaluated on what the
implementation returned.
-/
namespace Rivaas.DriverC18
open Rivaas.Proto Rivaas.RealIP

def pRawHdr : P RawHdr := do
  let k ← tok
  if k == "X" then RawHdr.xff <$> str
  else if k == "S" then RawHdr.single <$> str
  else failure

def pEntry : P (Bytes × Option (Bytes × Bool)) := do
  let item ← str
  let r ← opt (do let ip ← str; let t ← bool; pure (ip, t))
  pure (item, r)

def pReq : P WireReq := do
  let mhConfigured ← int   -- as configured; the model applies compileProxies' normalisation itself
  let mh := compileMaxHops mhConfigured
  let ra ← str
  let configured ← list pRawHdr   -- the headers as configured (possibly none) …
  let defaults ← list pRawHdr     -- … and the default pair: the model chooses (compileProxies)
  let hs := compileHeaders configured defaults
  let tbl ← list pEntry
  pure { maxHops := mh, remoteAddr := ra, hdrs := hs, tbl := tbl }

/-- observation: `R <result>` or `P` (panic) -/
def pObs : P (Option Bytes) := do
  let k ← tok
  if k == "R" then some <$> str else if k == "P" then pure none else failure

/-- does the address lie inside a trusted CIDR, according to the case's `net` table -/
def tblTrusted (tbl : Table) (res : Bytes) : Bool :=
  tbl.any fun e => match e.2 with
    | some (ip, t) => ip == res && t
    | none => false

def step (line : String) : String :=
  match splitCase line with
  | none => "? bad-line"
  | some (id, inp, obs) =>
    match runP pReq inp, runP pObs obs with
    | some r, some o =>
      match r.toRaw.bind RawReq.parse with
      | none =>
        -- the model produced a candidate item the harness' table does not list: model and
        -- implementation disagree on the text layer (never guess a classification)
        verdict id false true "-" "table-miss"
      | some q =>
        let m := clientIP q
        let mi := o == some m
        let s := match o with
          | some res => specOK q res && strictOK q (tblTrusted r.tbl res)
          | none => false
        -- known-finding class, stated on the input: K18c (a header in front of X-Forwarded-For shadows it)
        let d := if shadowed q then "xff-shadowed" else "-"
        verdict id mi s d ("R " ++ encStr m)
    | _, _ => s!"{id} bad-case"

end Rivaas.DriverC18

def main : IO UInt32 := Rivaas.Proto.driverMain Rivaas.DriverC18.step
