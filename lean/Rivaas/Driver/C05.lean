import Rivaas.Proto
/- Driver for C05 (stub: not built yet) -/
def main : IO UInt32 := do
  IO.eprintln "driver for C05 is not built yet"
  return 2
