import Rivaas.Proto
import Rivaas.Spec.Presence
import Rivaas.Model.PresenceResolve
import Rivaas.Lemmas.PresenceLeaf
/-
Driver for C05. Case line (strings hex-encoded, lists as `n item…`):

  <id> J <json> R <n> { <path> <resolves> <n> { <tag> <n> <shown path>… }* <num> <embedded> <cresolves> <cpanics> <n> <ctag>… }*
       T <shape> W <n> { <n> <index>… <tag> <n> { <tag> <shape of e.Value()> }* }*     (partial mode; else `T X W 0`)
       O <mode 0=partial 1=full 2=runAll 3=interface> <maxErrors> <maxFields> <n> <redacted path>… <singleRule>
       F <n> { <json path> <path as shipped> <tag> <n> <shown path>… <shape of e.Value()> }*
       I <n> { <path> <code> }*        (what the type's Validate() method returns; modes 2 = all strategies, 3 = interface only)
       C <strategy 0=auto 1=interface 2=tags> <runAll> <interface applicable> <tags applicable> <custom: 0 | 1 <n> { <path> <code> }*>
         <through app.Context: 0 | 1 <entry point and options 0..7>>
    => PM <n> <path>… LV <n> <path>… V ( N | P | E <truncated> <n> { <path> <code> <hidden> }* )
       K <leak> D <deterministic>

  <json> ::= L | O <n> { <key> <json> }* | A <n> <json>*
  <shape> ::= X | Z | Q <shape> | I <shape> | N | M <n> { <key> <shape> }* | S <n> <shape>* | T <n> { <go name> <json tag> <anonymous> <struct-typed> <validate tag> <shape> }*
-/
namespace Rivaas.DriverC05
open Rivaas.Proto Rivaas.Presence

partial def pJson : P Json := do
  let k ← tok
  if k == "L" then pure .leaf
  else if k == "O" then do
    let n ← nat
    let kvs ← manyN n (do let key ← str; let v ← pJson; pure (key, v))
    pure (.obj kvs)
  else if k == "A" then do
    let n ← nat
    let items ← manyN n pJson
    pure (.arr items)
  else failure

partial def pShape : P Shape := do
  let k ← tok
  if k == "X" then pure .other
  else if k == "Z" then pure .nilPtr
  else if k == "Q" then Shape.ptr <$> pShape
  else if k == "S" then do
    let n ← nat
    Shape.seq <$> manyN n pShape
  else if k == "I" then Shape.iface <$> pShape
  else if k == "N" then pure .nilIface
  else if k == "M" then do
    let n ← nat
    Shape.map <$> manyN n (do let key ← str; let v ← pShape; pure (key, v))
  else if k == "T" then do
    let n ← nat
    let fs ← manyN n (do
      let name ← str; let jt ← str; let an ← bool; let sy ← bool; let vt ← str
      let sh ← pShape
      pure (({ name := name, jsonTag := jt, anonymous := an, structy := sy, validate := vt } : FieldInfo), sh))
    pure (.struct fs)
  else failure

def pViol : P Viol := do
  let t ← str
  let sh ← list str
  pure { tag := t, shows := sh }

def pRule : P Rule := do
  let p ← str
  let r ← bool
  let ts ← list pViol
  let num ← bool
  let emb ← bool
  let cr ← bool
  let cp ← bool
  let cts ← list str
  pure { path := p, resolves := r, tags := ts, num := num, emb := emb, cresolves := cr, ctags := if cp then none else some cts }

structure Case where
  top : List (Bytes × Json)
  rules : List Rule
  /-- the shape of the value and `validator.Var` at its locations (partial mode) -/
  shape : Shape
  var : VarTable
  full : Bool
  mode : Nat
  /-- the errors returned by the type's own `Validate()` method -/
  iface : List FieldErr
  opts : Opts
  single : Bool
  /-- `Validate`'s own glue: strategy asked for, `WithRunAll`, `isApplicable`, what the custom validator returned -/
  strat : Strat
  runAll : Bool
  applic : Applic
  custom : Option (List FieldErr)
  /-- the handler's entry point and options when the case goes through `app.Context` (harness/c05: AppVia) -/
  via : Option Nat
  fullErrs : List (Path × Viol)
  /-- the same errors with the path as `namespaceToJSONPath` computed it before the repair of K05e -/
  fullErrsAsIs : List (Path × Viol)
  /-- the same errors with the revealed paths computed by the model's own redaction walk over the shape of `e.Value()` -/
  fullErrsT : List (Path × Viol)

def pCase : P Case := do
  lit "J"
  let j ← pJson
  let top ← match j with
    | .obj kvs => pure kvs
    | _ => failure
  lit "R"
  let rules ← list pRule
  lit "T"
  let shape ← pShape
  lit "W"
  let var ← list (do let loc ← list nat; let t ← str; let vs ← list (do let tg ← str; let sh ← pShape; pure (tg, sh)); pure (loc, t, vs))
  lit "O"
  let mode ← nat
  let me ← nat
  let mf ← nat
  let red ← list str
  let single ← bool
  lit "F"
  let fe ← list (do let p ← str; let ap ← str; let t ← pViol; let sh ← pShape; pure (p, ap, t, sh))
  lit "I"
  let ie ← list (do let p ← str; let c ← str; pure ({ path := p, code := c, hidden := false } : FieldErr))
  lit "C"
  let sn ← nat
  let ra ← bool
  let ai ← bool
  let at_ ← bool
  let cu ← opt (list (do let p ← str; let c ← str; pure ({ path := p, code := c, hidden := false } : FieldErr)))
  let via ← opt nat
  let strat : Strat := if sn == 1 then .iface else if sn == 2 then .tags else .auto
  pure { top := top, rules := rules, shape := shape, var := var, strat := strat, runAll := ra,
         applic := { iface := ai, tags := at_, schema := false }, custom := cu, via := via, full := mode != 0, mode := mode, iface := ie,
         opts := { maxErrors := me, maxFields := mf, redacted := red }, single := single,
         fullErrs := fe.map fun (p, _, t, _) => (p, t), fullErrsAsIs := fe.map fun (_, ap, t, _) => (ap, t),
         fullErrsT := fe.map fun (p, _, t, sh) => (p, ({ tag := t.tag, shows := reveals (maxRecursionDepth + 1) p sh } : Viol)) }

/-- what `Validate`/`ValidatePartial` did: panic, nil, or a `*validation.Error` -/
inductive VObs where
  | panic
  | res (r : Option Result)
  deriving DecidableEq

structure Obs where
  pm : List Path
  leaves : List Path
  v : VObs
  leak : Bool
  det : Bool

def pFieldErr : P FieldErr := do
  let p ← str
  let c ← str
  let h ← bool
  pure { path := p, code := c, hidden := h }

def pObs : P Obs := do
  lit "PM"
  let pm ← list str
  lit "LV"
  let lv ← list str
  lit "V"
  let k ← tok
  let v ← if k == "N" then pure (VObs.res none)
    else if k == "P" then pure VObs.panic
    else if k == "E" then do
      let t ← bool
      let fs ← list pFieldErr
      pure (VObs.res (some { fields := fs, truncated := t }))
    else failure
  lit "K"
  let leak ← bool
  lit "D"
  let det ← bool
  pure { pm := pm, leaves := lv, v := v, leak := leak, det := det }

def encPaths (ps : List Path) : String :=
  s!"{ps.length}" ++ String.join (ps.map fun p => " " ++ encStr p)

def encV : VObs → String
  | .panic => "P"
  | .res none => "N"
  | .res (some r) =>
    s!"E {if r.truncated then 1 else 0} {r.fields.length}" ++
      String.join (r.fields.map fun e => s!" {encStr e.path} {encStr e.code} {if e.hidden then 1 else 0}")

/-- the model of the code as it is in the repository now -/
def modelPresence (c : Case) : List Path := presence c.top
def modelLeaves (pm : List Path) : List Path := leafPaths pm
/-- the app layer's option fold: over which presence map the handler's call validates partially (`none` = it
    validates fully). `pm` is what the context computed from the body it bound. -/
def appMode (via : Nat) (pm : List Path) : Option (List Path) :=
  let others : List VOpt := [.other]
  if via == 1 then validateMode (.part true :: others) (some pm)
  else if via == 2 then bindMode [.validation (.part true :: others)] (some pm)
  else if via == 3 then bindMode [.part, .presence pm, .validation others] (some pm)
  else if via == 6 then bindPatchMode [.validation others] (some pm)
  else bindMode [.part, .validation others] (some pm)

/-- `validatePartialT pm shape var o` unfolded one step (`Rivaas.C05.validatePartialT_unfold`, by `rfl`) so
    that the leaf list computed for the comparison is reused and the compiled code goes through the
    `@[csimp]` implementation of `leafPaths` (`Lemmas/PresenceLeaf.lean`) -/
def modelValidate (c : Case) (leaves : List Path) : VObs :=
  let tagsRes :=
    if c.mode == 0 then
      match c.via with
      | none => partialFrom mkErr leaves (ownTagsT c.shape c.var) c.opts
      | some v =>
        -- through app.Context: partial validation over the presence map the folded options end up with
        (match appMode v (presence c.top) with
         | some pm => partialFrom mkErr (leafPaths pm) (ownTagsT c.shape c.var) c.opts
         | none => validateFull c.fullErrsT c.opts)
    else validateFull c.fullErrsT c.opts
  .res (validateTop c.custom c.runAll c.strat c.applic
    { iface := coerce c.iface c.opts, tags := tagsRes, schema := none } c.opts)

/-- errors that ought to be reported, evaluated on the presence set the implementation reported -/
def want (c : Case) (o : Obs) : List Want :=
  let ifaceWant : List Want := c.iface.map fun e => ⟨e.path, e.code, []⟩
  let tagWant : List Want := c.fullErrs.map fun (p, v) => ⟨p, tagPrefix ++ v.tag, v.shows⟩
  -- documented: a custom validator's error ends the call; WithRunAll adds up the applicable strategies;
  -- StrategyAuto prefers the type's own Validate method
  if let some errs := c.custom then errs.map fun e => ⟨e.path, e.code, []⟩
  else if c.mode == 2 then ifaceWant ++ tagWant
  else if c.mode == 3 then ifaceWant
  else if c.strat == .auto && c.applic.iface then ifaceWant
  else if c.mode == 1 then tagWant
  else expectedErrs o.pm c.rules c.opts

def specOK (c : Case) (o : Obs) : Bool :=
  presenceOK c.top o.pm && leavesOK o.pm o.leaves &&
  (match o.v with
   | .panic => false
   -- the cap is demanded whatever the rules are (K05l repaired: a field may yield several errors)
   | .res r => errorsOK (want c o) c.opts true r) &&
  !o.leak && o.det

def step (line : String) : String :=
  match splitCase line with
  | none => "? bad-line"
  | some (id, inp, obs) =>
    match runP pCase inp, runP pObs obs with
    | some c, some o =>
      let mpm := modelPresence c
      let mlv := modelLeaves mpm
      let mv := modelValidate c mlv
      -- `leak` and `det` are oracle bits about the implementation only; the model has no counterpart
      let mi := o.pm == mpm && o.leaves == mlv && decide (o.v = mv)
      let s := specOK c o
      -- the model's observation is printed only where it is needed (a disagreement or an oracle failure)
      verdict id mi s "-" (if mi && s then "" else s!"PM {encPaths mpm} LV {encPaths mlv} V {encV mv} K 0 D 1")
    | _, _ => s!"{id} bad-case"

end Rivaas.DriverC05

def main : IO UInt32 := Rivaas.Proto.driverMain Rivaas.DriverC05.step
