import Rivaas.Model.Config
/-
C14 — the property's oracle, independent of how the merge is programmed.

* `lastWins`: the value at a key path is decided by the *last source that defines it*, found by
  scanning the sources backwards; a source defines a path when it has a value there (a non-map
  value decides, a map says "a map, keep merging") or a non-map value at a proper prefix (which
  replaces the whole subtree, so the path is gone).
* a failed Load leaves values and bound struct as they were; a successful one installs the
  last-wins values and the struct a fresh `Config` produces from the same sources.
* a concurrent reader sees one of the installed maps, whole.
-/
namespace Rivaas.Config

/-- how one source relates to a (non-empty) segment path -/
inductive Probe where
  /-- the source does not reach the path: some key on the way is missing -/
  | absent
  /-- the source has a non-map value at a proper prefix: the subtree is replaced -/
  | blocked
  /-- the source has a non-map value at the path -/
  | leaf (r : Bytes)
  /-- the source has a map at the path -/
  | isMap
  deriving Repr, DecidableEq

def probe : Kvs → List Bytes → Probe
  | _, [] => .absent
  | kvs, [k] =>
    match lookup k kvs with
    | none => .absent
    | some (.leaf r) => .leaf r
    | some (.map _) => .isMap
  | kvs, k :: k2 :: ks =>
    match lookup k kvs with
    | none => .absent
    | some (.leaf _) => .blocked
    | some (.map inner) => probe inner (k2 :: ks)

/-- what a lookup yields, up to the contents of a map -/
inductive Res where
  | none
  | leaf (r : Bytes)
  | isMap
  deriving Repr, DecidableEq

def classify : Option CVal → Res
  | none => .none
  | some (.leaf r) => .leaf r
  | some (.map _) => .isMap

/-- scan from the last source backwards; the first one that defines the path decides -/
def lastWinsRev (p : List Bytes) : List Kvs → Res
  | [] => .none
  | s :: earlier =>
    match probe s p with
    | .leaf r => .leaf r
    | .blocked => .none
    | .isMap => .isMap
    | .absent => lastWinsRev p earlier

/-- sources in load order, keys compared case-insensitively (`normalize` lower-cases them) -/
def lastWins (srcs : List Kvs) (p : List Bytes) : Res := lastWinsRev p (srcs.map normalize).reverse

/-- `Get(key)`: the whole lower-cased key as one top-level key first, else the dotted path; a nil
    value counts as absent; the empty key yields nothing -/
def specGet (srcs : List Kvs) (key : Bytes) : Res :=
  if key = [] then .none
  else
    let r := match lastWins srcs [lower key] with
      | .none => lastWins srcs (splitDots (lower key))
      | r => r
    if r = .leaf nilLeaf then .none else r

/-! ### well-formedness: the keys of a Go map are distinct -/

def DistinctKeys (l : Kvs) : Prop := (l.map (·.1)).Nodup

mutual
  def WF : CVal → Prop
    | .leaf _ => True
    | .map kvs => DistinctKeys kvs ∧ WFs kvs
  def WFs : Kvs → Prop
    | [] => True
    | (_, v) :: rest => WF v ∧ WFs rest
end

/-! ### the oracle on observations -/

/- every segment path to a node of a tree -/
mutual
  def allPaths : Kvs → List (List Bytes)
    | [] => []
    | (k, v) :: rest => ([k] :: (allPathsVal v).map (k :: ·)) ++ allPaths rest
  def allPathsVal : CVal → List (List Bytes)
    | .leaf _ => []
    | .map kvs => allPaths kvs
end

/-- the values installed by a successful Load: at every path of any source and at every path of
    the observed map the observed value is the one the last defining source gives -/
def valuesOK (srcs : List Kvs) (obs : Kvs) : Bool :=
  let ps := (srcs.flatMap fun s => allPaths (normalize s)) ++ allPaths obs
  ps.all fun p => classify (getPath obs p) == lastWins srcs p

/- equality of trees as Go maps: the order of the entries does not matter (keys are distinct) -/
mutual
  def cvalEq : CVal → CVal → Bool
    | .leaf a, .leaf b => a == b
    | .map a, .map b => a.length == b.length && kvsSub a b
    | _, _ => false
  /-- every entry of the first map has an equal entry in the second -/
  def kvsSub : Kvs → Kvs → Bool
    | [], _ => true
    | (k, v) :: rest, b =>
      (match lookup k b with
       | some v' => cvalEq v v'
       | none => false) && kvsSub rest b
end

def kvsEq (a b : Kvs) : Bool := a.length == b.length && kvsSub a b

/-- is a fault injected into this Load, judged on the sources alone (last-wins on the fault keys)? -/
def srcFails (inp : LoadInput) : Bool :=
  inp.srcs.any fun r => match r with | .fail => true | .ok _ => false

def okMaps (inp : LoadInput) : List Kvs :=
  inp.srcs.filterMap fun r => match r with | .ok m => some m | .fail => none

def keyTrue (srcs : List Kvs) (k : Bytes) : Bool := lastWins srcs [k] == .leaf "b:true".toList

def mustFail (schema : Bool) (nv : Nat) (inp : LoadInput) : Bool :=
  srcFails inp ||
  (schema && keyTrue (okMaps inp) "schemafail".toList) ||
  (List.range nv).any (fun i =>
    keyTrue (okMaps inp) ("vfail".toList ++ (Nat.repr i).toList) ||
    keyTrue (okMaps inp) ("vpanic".toList ++ (Nat.repr i).toList)) ||
  (match inp.bind with | some .reject => true | _ => false)

/-- what one Load was observed to do -/
structure LoadObs where
  failed : Bool
  values : Kvs
  bound : List (Bytes × Bytes)
  /-- `Get(key)` after the Load, for the probe keys of the case -/
  gets : List (Bytes × Res)
  /-- the typed getters (`String`, `Int`, `Bool`, …, the `…Or` variants, generic `Get`/`GetOr`) agree
      with `Get`: a present value, falsy or not, is converted; the default only replaces nil -/
  typed : Bool
  /-- the Load panicked (it must not: every fault is to come back as an error) -/
  panicked : Bool
  deriving Repr

/-- the oracle for one Load, given what was observed before it -/
def loadOK (schema : Bool) (nv : Nat) (prevValues : Kvs) (prevBound : List (Bytes × Bytes))
    (inp : LoadInput) (o : LoadObs) : Bool :=
  if mustFail schema nv inp then
    o.failed && kvsEq o.values prevValues && o.bound == prevBound && o.typed && !o.panicked
  else
    !o.failed && valuesOK (okMaps inp) o.values &&
    (match inp.bind with
     | some (.ok fresh) => o.bound == fresh
     | _ => o.bound == prevBound) &&
    (o.gets.all fun (k, r) => r == specGet (okMaps inp) k) && o.typed && !o.panicked

/-- Two Loads racing on one `Config` (their sources are read concurrently, their locked regions
    run in some order): each fails exactly when a fault is injected into it, and the final values
    and bound struct come from **one** of the successful Loads — both from the same one — or are
    untouched if both fail. -/
def raceOK (schema : Bool) (nv : Nat) (prevValues : Kvs) (prevBound : List (Bytes × Bytes))
    (a b : LoadInput) (failedA failedB : Bool) (values : Kvs) (bound : List (Bytes × Bytes)) : Bool :=
  let fits (x : LoadInput) : Bool :=
    valuesOK (okMaps x) values &&
    (match x.bind with
     | some (.ok fresh) => bound == fresh
     | _ => bound == prevBound)
  (failedA == mustFail schema nv a) && (failedB == mustFail schema nv b) &&
  (if !mustFail schema nv a && !mustFail schema nv b then fits a || fits b
   else if !mustFail schema nv a then fits a
   else if !mustFail schema nv b then fits b
   else kvsEq values prevValues && bound == prevBound)

/-- a reader saw one of the installed maps, whole: the one before or the one after the Load it ran
    against -/
def readerOK (before after seen : Kvs) : Bool :=
  kvsEq seen before || kvsEq seen after

end Rivaas.Config
