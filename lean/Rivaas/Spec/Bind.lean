import Rivaas.Model.BindTypes
/-
C04 — the oracle, written independently of the model (no index paths, no mutation, no order of
evaluation): the destination type is unfolded into its *leaves* (every bound field with the full
key it answers to, the place of its value, and the chain of Go field names a `BindError` reports)
and its nested-struct *nodes*; the statement is then read leaf by leaf:

  * key present  -> the leaf holds exactly the converted value (all values for a slice, the
                    dot/bracket entries for a map), or the outcome is an error naming the leaf
                    when a value is not representable (malformed, out of range, overflows to Inf);
  * key absent   -> the declared default, converted; without default the leaf is untouched;
  * limits       -> a slice longer than maxSlice, a map with more than maxMap entries, a nested
                    struct deeper than maxDepth are errors and never bound;
  * never a panic.

Where the statement leaves an outcome open the oracle admits every allowed one (nil vs allocated
empty map / struct pointer, which of several offending fields is reported, default converted with
the package's default options or with the call's options, keys that are ambiguous for a field).
Core Lean only.
-/
namespace Rivaas.Bind.Spec
open Rivaas.Bind

/-! ### what "its own key" means -/

/-- names a field answers to under a tag (`none`: the field is not bound under this tag) -/
def tagNames (tv name : Bytes) (isForm : Bool) : Option (Bytes × List Bytes) :=
  if tv.isEmpty && !isForm then none
  else if isForm && tv == B "-" then none
  else
    let parts := (splitB ',' tv).map trimSpace
    let primary := parts.headD []
    let aliases := (parts.drop 1).filter (fun p => !p.isEmpty && !(isForm && p == B "omitempty"))
    some (if primary.isEmpty && isForm then name else primary, aliases)

structure Leaf where
  path : List Nat        -- field indices from the root value (pointers are followed)
  names : List Bytes     -- Go field names: enclosing nested struct fields, then the leaf
  keys : List Bytes      -- full keys in lookup order (primary first, then aliases)
  ty : Ty
  dflt : Bytes
  nested : Bool          -- below a nested (non-embedded) struct field
  deriving Repr, Inhabited

structure Node where
  names : List Bytes     -- the nested struct field and the ones enclosing it
  depth : Nat            -- nesting depth at which its fields are bound
  deriving Repr, Inhabited

/-- a field the bind does not look at under this tag (unexported, no tag, `-`): it must stay as it was -/
structure Frame where
  path : List Nat
  ty : Ty
  deriving Repr, Inhabited

inductive Item | leaf (l : Leaf) | node (n : Node) | frame (f : Frame)
  deriving Repr, Inhabited

/-- the leaf seen from the struct that embeds (anonymously) the struct it belongs to: same keys -/
def Leaf.under (i : Nat) (l : Leaf) : Leaf := { l with path := i :: l.path }

/-- the leaf seen from the struct that holds the struct it belongs to as the nested field `name`
    with key `key`: its keys are prefixed with `key.`, errors are reported below `name` -/
def Leaf.below (i : Nat) (name key : Bytes) (l : Leaf) : Leaf :=
  { l with path := i :: l.path, names := name :: l.names, keys := l.keys.map (key ++ B "." ++ ·), nested := true }

def Item.under (i : Nat) : Item → Item
  | .leaf l => .leaf (l.under i)
  | .node n => .node n
  | .frame f => .frame { f with path := i :: f.path }

def Item.below (i : Nat) (name key : Bytes) : Item → Item
  | .leaf l => .leaf (l.below i name key)
  | .node n => .node { names := name :: n.names, depth := n.depth + 1 }
  | .frame f => .frame { f with path := i :: f.path }

mutual
/-- unfold field `i`: an embedded struct contributes its fields in place (same keys), a nested
    struct contributes a node and its fields under `<key>.`, anything else is a leaf -/
def itemsFld (tag : Tag) (i : Nat) (h : FieldHdr) : Ty → List Item
  | .struct fs =>
    if !h.exported then [.frame { path := [i], ty := .struct fs }]
    else if h.anon then (itemsFs tag 0 fs).map (Item.under i)
    else match tagNames (h.tag tag) h.name (tag == .form) with
      | none => [.frame { path := [i], ty := .struct fs }]
      | some (p, _) => .node { names := [h.name], depth := 1 } :: (itemsFs tag 0 fs).map (Item.below i h.name p)
  | .ptr (.struct fs) =>
    if !h.exported then [.frame { path := [i], ty := .ptr (.struct fs) }]
    else if h.anon then (itemsFs tag 0 fs).map (Item.under i)
    else match tagNames (h.tag tag) h.name (tag == .form) with
      | none => [.frame { path := [i], ty := .ptr (.struct fs) }]
      | some (p, _) => .node { names := [h.name], depth := 1 } :: (itemsFs tag 0 fs).map (Item.below i h.name p)
  | t =>
    if !h.exported then [.frame { path := [i], ty := t }]
    else match tagNames (h.tag tag) h.name (tag == .form) with
      | none => [.frame { path := [i], ty := t }]
      | some (p, as) => [.leaf { path := [i], names := [h.name], keys := p :: as, ty := t, dflt := h.dflt, nested := false }]
def itemsFs (tag : Tag) : Nat → List Fld → List Item
  | _, [] => []
  | i, (h, t) :: rest => itemsFld tag i h t ++ itemsFs tag (i+1) rest
end

/-- unfold a struct type into leaves and nodes -/
def items (tag : Tag) (fs : List Fld) : List Item := itemsFs tag 0 fs

def leavesOf (tag : Tag) (fs : List Fld) : List Leaf :=
  (items tag fs).filterMap fun | .leaf l => some l | _ => none

def nodesOf (tag : Tag) (fs : List Fld) : List Node :=
  (items tag fs).filterMap fun | .node n => some n | _ => none

def framesOf (tag : Tag) (fs : List Fld) : List Frame :=
  (items tag fs).filterMap fun | .frame f => some f | _ => none

/-! ### what the source says about a key -/

/-- the values a source holds for a key (`none` = key absent) -/
def present (s : Src) (k : Bytes) : Option (List Bytes) :=
  match s.kind with
  | .query | .form =>
    match assoc k s.kvs with
    | some (v :: vs) => some (v :: vs)
    | some [] => some ((assoc (k ++ B "[]") s.kvs).getD [])
    | none => assoc (k ++ B "[]") s.kvs
  | .path => assoc k s.kvs
  | .cookie => match (s.kvs.filter (fun e => e.1 == k)).flatMap (·.2) with
    | [] => if (assoc k s.kvs).isSome then some [] else none
    | vs => some vs
  | .header => match s.kvs.find? (fun e => canonHeader e.1 == canonHeader k && !e.2.isEmpty) with
    | some e => some e.2
    | none => none

/-- a source container as Go builds it: no key with an empty value list (url.ParseQuery,
    http.Header.Add, cookies never produce one); header keys in canonical form -/
def srcOK (s : Src) : Bool :=
  s.kvs.all (fun e => !e.2.isEmpty) &&
  (match s.kind with
   | .header => s.kvs.all (fun e => canonHeader e.1 == e.1)
   | _ => true)

/-- inputs on which the statement does not determine the outcome for this leaf: a scalar whose
    key occurs only in the slice notation `k[]`, or — below a nested struct — a key that is a
    proper dotted prefix of a key in the source -/
def ambiguousKey (s : Src) (nested : Bool) (k : Bytes) : Bool :=
  match s.kind with
  | .query | .form =>
    ((assoc k s.kvs).isNone && (assoc (k ++ B "[]") s.kvs).isSome) ||
    (nested && s.kvs.any (fun e => hasPrefix e.1 (k ++ B ".")))
  | _ => false

/-! ### what "converted value" means -/

def fitsInt (w : Nat) (i : Int) : Prop := -(2 ^ (bitsOf w - 1) : Int) ≤ i ∧ i < (2 ^ (bitsOf w - 1) : Int)
def fitsUint (w : Nat) (n : Nat) : Prop := n < 2 ^ bitsOf w

instance (w : Nat) (i : Int) : Decidable (fitsInt w i) := by unfold fitsInt; exact inferInstance
instance (w : Nat) (n : Nat) : Decidable (fitsUint w n) := by unfold fitsUint; exact inferInstance

def boolWord (s : Bytes) : Option Bool :=
  let l := (trimSpace s).map lowerB
  if l ∈ [B "true", B "1", B "yes", B "on", B "t", B "y"] then some true
  else if l ∈ [B "false", B "0", B "no", B "off", B "f", B "n", B ""] then some false
  else none

/-- what a string denotes for a leaf kind: the value when the kind can represent it, and whether
    refusing it (an error naming the field) is an admissible outcome. Refusal is admissible exactly
    when there is no value — and for the float32 band between MaxFloat32 and the first value that
    rounds to infinity, where the statement allows both rounding down and refusing. -/
structure Den where
  val : Option Val
  refusable : Bool
  deriving Repr, Inhabited

def Den.of (v : Option Val) : Den := { val := v, refusable := v.isNone }

def denote (P : Params) (cfg : Cfg) : Prim → Bytes → Den
  | .str, s => .of (some (.str s))
  | .int w, s => .of (match (if cfg.baseAuto then (P s).i0 else (P s).i10) with
    | some i => if fitsInt w i then some (.int i) else none
    | none => none)
  | .uint w, s => .of (match (if cfg.baseAuto then (P s).u0 else (P s).u10) with
    | some n => if fitsUint w n then some (.uint n) else none
    | none => none)
  | .f64, s => .of ((P s).f.map fun x => .flt x.1)
  | .f32, s => match (P s).f with
    | some (_, b32, above, inf32) =>
      if inf32 then .of none                       -- a finite value must never become infinity
      else { val := some (.flt b32), refusable := above }
    | none => .of none
  | .bool, s => .of ((boolWord s).map .bool)
  -- a converter registered for the leaf type says what the text denotes
  | .time, s => match cfg.convs.lookup timeKey with
    | some c => .of (((P s).c.lookup c).map .time)
    | none => .of ((P s).t.map .time)
  | .dur, s => .of ((P s).d.map .int)
  | .opq k, s => match cfg.convs.lookup k with
    | some c => .of (((P s).c.lookup c).map .time)
    | none => .of (((P s).o.lookup k).map .time)

def allSome {α} : List (Option α) → Option (List α)
  | [] => some []
  | none :: _ => none
  | some a :: r => (allSome r).map (a :: ·)

/-! ### expectation per leaf -/

/-- admissible outcomes for one leaf: final values (`none` = untouched) and error classes -/
structure Expect where
  oks : List (Option Val)
  errs : List Err
  deriving Repr, Inhabited

def firstPresent (s : Src) : List Bytes → Option (List Bytes)
  | [] => none
  | k :: r => match present s k with
    | some vs => some vs
    | none => firstPresent s r

def sliceValues (cfg : Cfg) (vs : List Bytes) : List Bytes :=
  if cfg.csv && vs.length == 1 then (splitB ',' (vs.headD [])).map trimSpace else vs

def insertKV (k : Bytes) (v : Val) : List (Bytes × Val) → List (Bytes × Val)
  | [] => [(k, v)]
  | (k', v') :: r => if k' == k then (k, v) :: r else if k < k' then (k, v) :: (k', v') :: r else (k', v') :: insertKV k v r

/-- map key denoted by a source key for the map leaf `full` (`none`: not an entry of this map;
    `some none`: malformed bracket notation) -/
def entryKey (full key : Bytes) : Option (Option Bytes) :=
  match cutPrefix key (full ++ B ".") with
  | some k => some (if k.isEmpty then none else some k)
  | none =>
    match cutPrefix key (full ++ B "[") with
    | none => none
    | some after =>
      let inner := after.takeWhile (· != ']')
      let tail := after.dropWhile (· != ']')
      if tail.isEmpty || inner.isEmpty || (tail.contains '[') then some none
      else
        let q := fun c => c == '"' || c == '\''
        let k := ((inner.dropWhile q).reverse.dropWhile q).reverse
        some (if k.isEmpty then none else some k)

def mapEntries (s : Src) (full : Bytes) : List (Option Bytes × Bytes) :=
  if s.kind == .query || s.kind == .form then
    s.kvs.filterMap fun e => (entryKey full e.1).map fun mk => (mk, e.2.headD [])
  else []

def expectScalar (P : Params) (cfg : Cfg) (s : Src) (l : Leaf) (p : Prim) (isPtr : Bool) : Expect :=
  let wrap := fun v => if isPtr then Val.ptr v else v
  match firstPresent s l.keys with
  | some vs =>
    let v := vs.headD []
    if isPtr && v.isEmpty then { oks := [none], errs := [] }
    else
      let d := denote P cfg p v
      { oks := d.val.toList.map (fun x => some (wrap x)), errs := if d.refusable then [.conv] else [] }
  | none =>
    if l.dflt.isEmpty then { oks := [none], errs := [] }
    else
      -- the declared default, converted with the package defaults or with the options of the call
      let c := [denote P Cfg.default p l.dflt, denote P cfg p l.dflt]
      { oks := c.filterMap (fun d => d.val.map (fun x => some (wrap x))),
        errs := if c.any (·.refusable) then [.conv] else [] }

def expectSlice (P : Params) (cfg : Cfg) (s : Src) (l : Leaf) (e : Ty) (isPtr : Bool) : Expect :=
  let wrap := fun v => if isPtr then Val.ptr v else v
  match firstPresent s l.keys with
  | none => { oks := [none], errs := [] }
  | some [] => { oks := [none], errs := [] }
  | some vs =>
    let vs := sliceValues cfg vs
    if cfg.maxSlice > 0 && vs.length > cfg.maxSlice then { oks := [], errs := [.sliceLen] }
    else match e with
      | .prim p =>
        let ds := vs.map (denote P cfg p)
        { oks := (allSome (ds.map (·.val))).toList.map (fun xs => some (wrap (.list xs))),
          errs := if ds.any (·.refusable) then [.conv] else [] }
      | _ => { oks := [], errs := [.conv] }

/-- expectation for a map leaf, relative to the entries it had before (`m0`) -/
def expectMap (P : Params) (cfg : Cfg) (s : Src) (l : Leaf) (vt : Ty) (isPtr : Bool) (m0 : List (Bytes × Val)) : Expect :=
  let wrap := fun v => if isPtr then Val.ptr v else v
  let full := l.keys.headD []
  let es := mapEntries s full
  let badKey := es.any (fun e => e.1.isNone)
  -- the entries: dot/bracket keys, or — when there are none — a JSON object under the bare key
  let src : List (Bytes × Bytes) :=
    if !es.isEmpty then es.filterMap (fun e => e.1.map (·, e.2))
    else match present s full with
      | some (v :: _) => if v.isEmpty then [] else ((P v).j).getD []
      | _ => []
  let tooMany := cfg.maxMap > 0 && (es.length > cfg.maxMap || src.length > cfg.maxMap)
  match vt with
  | .prim p =>
    let ds := src.map fun e => (e.1, denote P cfg p e.2)
    { oks := if tooMany || badKey then [] else
               (allSome (ds.map fun e => e.2.val.map (e.1, ·))).toList.map
                 (fun kvs => some (wrap (.map (kvs.foldl (fun m e => insertKV e.1 e.2 m) m0)))),
      errs := (if tooMany then [.mapSize] else []) ++ (if badKey || ds.any (·.2.refusable) then [.conv] else []) }
  | _ => if src.isEmpty && !badKey then { oks := [none], errs := [] } else { oks := [], errs := [.conv] }

mutual
/-- follow a path of field indices through structs and pointers (`none`: a nil pointer on the way) -/
def valAt : Val → List Nat → Option Val
  | v, [] => some v
  | .struct vs, i :: rest => valAtFs vs i rest
  | .ptr v, i :: rest => valAt v (i :: rest)
  | _, _ :: _ => none
/-- … field `i` of the field list, then the rest of the path -/
def valAtFs : List Val → Nat → List Nat → Option Val
  | [], _, _ => none
  | x :: _, 0, rest => valAt x rest
  | _ :: xs, i + 1, rest => valAtFs xs i rest
end

/-- nil and empty are the same map; a nil pointer to a map and a pointer to an empty map likewise -/
def normLeaf : Val → Val
  | .map [] => .nil
  | .ptr (.map []) => .nil
  | .ptr .nil => .nil
  | v => v

def mapOf : Option Val → List (Bytes × Val)
  | some (.map kvs) => kvs
  | some (.ptr (.map kvs)) => kvs
  | _ => []

/-- expectation for a leaf, given the entries its map value had before (only map leaves look at it) -/
def expectV (P : Params) (cfg : Cfg) (s : Src) (l : Leaf) (m0 : List (Bytes × Val)) : Expect :=
  match l.ty with
  | .prim p => expectScalar P cfg s l p false
  | .ptr (.prim p) => expectScalar P cfg s l p true
  | .slice e => expectSlice P cfg s l e false
  | .ptr (.slice e) => expectSlice P cfg s l e true
  | .map v => expectMap P cfg s l v false m0
  | .ptr (.map v) => expectMap P cfg s l v true m0
  | _ => { oks := [], errs := [.conv] }     -- a field type outside the grammar cannot be bound

def expect (P : Params) (cfg : Cfg) (s : Src) (init : Val) (l : Leaf) : Expect :=
  expectV P cfg s l (mapOf (valAt init l.path))

/-- the field types of the grammar (DESIGN.md §3 C04): leaves are scalars, pointers to scalars,
    slices of scalars, string-keyed maps of scalars and pointers to those; structs all the way down -/
def leafTy : Ty → Bool
  | .prim _ => true
  | .ptr (.prim _) => true
  | .slice (.prim _) => true
  | .ptr (.slice (.prim _)) => true
  | .map (.prim _) => true
  | .ptr (.map (.prim _)) => true
  | _ => false

mutual
def inGrammar : Ty → Bool
  | .struct fs => inGrammarFs fs
  | .ptr (.struct fs) => inGrammarFs fs
  | t => leafTy t
def inGrammarFs : List Fld → Bool
  | [] => true
  | (_, t) :: r => inGrammar t && inGrammarFs r
end

def ambiguous (s : Src) (l : Leaf) : Bool :=
  match l.ty with
  | .map _ | .ptr (.map _) =>
    -- two source keys that denote the same map key: the statement does not say which one wins
    let ks := (mapEntries s (l.keys.headD [])).filterMap (·.1)
    decide (ks.eraseDups.length ≠ ks.length)
  | .slice _ | .ptr (.slice _) => l.keys.any (fun k => l.nested && s.kvs.any (fun e => hasPrefix e.1 (k ++ B ".")))
  | _ => l.keys.any (ambiguousKey s l.nested)

/-- the leaf of the result satisfies one admissible outcome -/
def holds (init v : Val) (l : Leaf) (e : Option Val) : Bool :=
  let cur := valAt v l.path
  let was := valAt init l.path
  match e with
  | some x => match cur with
    | some c => normLeaf c == normLeaf x
    | none => false
  | none => match cur, was with
    | some c, some w => normLeaf c == normLeaf w
    | none, none => true
    | some c, none => normLeaf c == normLeaf (zero l.ty)
    | none, some _ => false

/-- a field outside the bind is as it was (a field that did not exist — below a nil pointer that
    was allocated for a sibling — is the zero value of its type) -/
def holdsFrame (init v : Val) (f : Frame) : Bool :=
  match valAt v f.path, valAt init f.path with
  | some c, some w => c == w
  | none, none => true
  | some c, none => c == zero f.ty
  | none, some _ => false

def wrapErr : List Bytes → Err → Err
  | [], e => e
  | n :: r, e => .bind n (wrapErr r e)

/-- every error the statement allows for this input (for a leaf whose keys are ambiguous in this
    source, any error naming the leaf) -/
def causes (P : Params) (cfg : Cfg) (tag : Tag) (fs : List Fld) (init : Val) (s : Src) : List Err :=
  ((leavesOf tag fs).flatMap fun l =>
      ((expect P cfg s init l).errs ++ (if ambiguous s l then [Err.conv, Err.sliceLen, Err.mapSize] else [])).map (wrapErr l.names)) ++
  ((nodesOf tag fs).filter (fun n => cfg.maxDepth < n.depth)).map (fun n => wrapErr n.names .depth)

/-- the only admissible outcome is an error -/
def mustFail (P : Params) (cfg : Cfg) (tag : Tag) (fs : List Fld) (init : Val) (s : Src) : Bool :=
  (leavesOf tag fs).any (fun l => !ambiguous s l && (expect P cfg s init l).oks.isEmpty) ||
  (nodesOf tag fs).any (fun n => cfg.maxDepth < n.depth)

inductive Obs
  | ok (v : Val)
  | err (e : Err)
  | panic
  deriving Repr, Inhabited

/-- the C04 oracle on an observed outcome -/
def specOK (P : Params) (cfg : Cfg) (tag : Tag) (fs : List Fld) (init : Val) (s : Src) : Obs → Bool
  | .panic => false
  | .err e => (causes P cfg tag fs init s).contains e
  | .ok v =>
    !mustFail P cfg tag fs init s &&
    ((leavesOf tag fs).all fun l =>
      ambiguous s l || (expect P cfg s init l).oks.any (holds init v l)) &&
    (framesOf tag fs).all (holdsFrame init v)


/-! ### several sources (Bind / BindTo, app.Context.Bind)

A source takes part when the type mentions its tag. Leaf by leaf: the value is the one of the last
source (in order) that holds the leaf's key, else the declared default, else what the leaf held
before. Read as two rounds — defaults, then the sources without defaults — and folded over the
admissible values per leaf. -/

def explicitTag (tag : Tag) (h : FieldHdr) : Bool := !(h.tag tag).isEmpty && (h.tag tag) != B "-"

mutual
def mentionsFld (tag : Tag) (h : FieldHdr) : Ty → Bool
  | .struct fs => h.exported && (explicitTag tag h || (h.anon && mentionsFs tag fs))
  | .ptr (.struct fs) => h.exported && (explicitTag tag h || (h.anon && mentionsFs tag fs))
  | _ => h.exported && explicitTag tag h
def mentionsFs (tag : Tag) : List Fld → Bool
  | [] => false
  | (h, t) :: rest => mentionsFld tag h t || mentionsFs tag rest
end

structure Phase where
  src : Src
  defaultsOnly : Bool      -- the round of the defaults: the source counts as empty
  noDefaults : Bool        -- the round of the values: default tags do not apply
  deriving Repr, Inhabited

def phasesOf (fs : List Fld) (srcs : List Src) : List Phase :=
  let ss := srcs.filter (fun s => mentionsFs s.kind fs)
  if srcs.length == 1 then ss.map (fun s => { src := s, defaultsOnly := false, noDefaults := false })
  else ss.map (fun s => { src := { s with kvs := [] }, defaultsOnly := true, noDefaults := false }) ++
       ss.map (fun s => { src := s, defaultsOnly := false, noDefaults := true })

def Phase.leaf (ph : Phase) (l : Leaf) : Leaf := if ph.noDefaults then { l with dflt := [] } else l

/-- admissible values of the leaf at `path` after the phase, from those before it -/
def stepAdm (P : Params) (cfg : Cfg) (fs : List Fld) (path : List Nat) (ph : Phase) (A : List (Option Val)) :
    List (Option Val) :=
  match (leavesOf ph.src.kind fs).find? (fun l => l.path == path) with
  | none => A
  | some l0 =>
    let l := ph.leaf l0
    A.flatMap fun a =>
      let E := expectV P cfg ph.src l (mapOf a)
      let oks := if ph.defaultsOnly && E.oks.isEmpty then [none] else E.oks   -- an unusable default may be overridden later
      oks.map fun o => match o with
        | none => a
        | some x => some x

def matchesAdm (ty : Ty) (cur : Option Val) : Option Val → Bool
  | some x => match cur with
    | some c => normLeaf c == normLeaf x
    | none => false
  | none => match cur with
    | none => true
    | some c => normLeaf c == normLeaf (zero ty)

def multiCauses (P : Params) (cfg : Cfg) (fs : List Fld) (init : Val) (srcs : List Src) : List Err :=
  (phasesOf fs srcs).flatMap fun ph =>
    ((leavesOf ph.src.kind fs).flatMap fun l0 =>
      let l := ph.leaf l0
      ((expect P cfg ph.src init l).errs ++ (if ambiguous ph.src l then [Err.conv, Err.sliceLen, Err.mapSize] else [])).map (wrapErr l.names)) ++
    ((nodesOf ph.src.kind fs).filter (fun n => cfg.maxDepth < n.depth)).map (fun n => wrapErr n.names .depth)

/-- the C04 oracle for a bind from several sources -/
def specMulti (P : Params) (cfg : Cfg) (fs : List Fld) (init : Val) (srcs : List Src) : Obs → Bool
  | .panic => false
  | .err e => (srcs.isEmpty && e == Err.conv) || (multiCauses P cfg fs init srcs).contains e
  | .ok v =>
    let phs := phasesOf fs srcs
    !srcs.isEmpty &&
    phs.all (fun ph => (nodesOf ph.src.kind fs).all (fun n => n.depth ≤ cfg.maxDepth)) &&
    ((phs.flatMap fun ph => (leavesOf ph.src.kind fs).map (fun l => (l.path, l.ty))).all fun pt =>
      phs.any (fun ph => (leavesOf ph.src.kind fs).any (fun l => l.path == pt.1 && ambiguous ph.src (ph.leaf l))) ||
      (phs.foldl (fun A ph => stepAdm P cfg fs pt.1 ph A) [valAt init pt.1]).any (matchesAdm pt.2 (valAt v pt.1))) &&
    -- a field that no participating source binds stays as it was
    (match phs with
     | [] => v == init      -- no source's tag occurs in the type: nothing is bound, the destination is as it was
     | ph0 :: rest => ((framesOf ph0.src.kind fs).filter fun f =>
         rest.all fun ph => (framesOf ph.src.kind fs).any (fun f' => f'.path == f.path)).all (holdsFrame init v))

end Rivaas.Bind.Spec
