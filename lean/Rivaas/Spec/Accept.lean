import Rivaas.Basic
/-
Declarative oracle for content negotiation (C19), written from RFC 9110 §5.6.1 (lists), §5.6.2
(tokens), §5.6.6 (parameters), §12.4.2 (weights), §12.5.1–12.5.4 and the documented matching rules of
the four helpers — not from the code. Core Lean only.

  header   = [ OWS element OWS ] *( "," [ OWS element OWS ] )        empty elements are skipped
  element  = range *( OWS ";" OWS [ name "=" ( token / quoted ) ] )
  weight   = the parameter named q / Q, whose value must be a `qvalue`; at most one per element
  qvalue   = ( "0" [ "." 0*3DIGIT ] ) / ( "1" [ "." 0*3("0") ] )

A header outside this grammar (or with a quoted string that contains `,` or `;`) has no defined
quality assignment: `ranges` is `none` and the oracle only demands what the statement demands of every
string (the answer is an offer or empty, and is the same on every call).

Quality of an offer = q of the most specific range that matches it (0 if none matches). When several
equally specific ranges carry different q the header is ambiguous and every reading is admitted:
`Acceptable` is a relation (`qmin`/`qmax`), and any tie-break among best offers is allowed.
-/
namespace Rivaas.AcceptSpec

/-- every segment between separators, empty ones included -/
def splitOn (sep : Char) : Bytes → List Bytes
  | [] => [[]]
  | c :: r =>
    if c == sep then [] :: splitOn sep r
    else match splitOn sep r with
      | [] => [[c]]          -- unreachable: splitOn never returns []
      | seg :: segs => (c :: seg) :: segs

def isOWS (c : Char) : Bool := c == ' ' || c == '\t'
def strip (s : Bytes) : Bytes := ((s.dropWhile isOWS).reverse.dropWhile isOWS).reverse

def isAlphaNum (c : Char) : Bool :=
  (48 ≤ c.toNat && c.toNat ≤ 57) || (65 ≤ c.toNat && c.toNat ≤ 90) || (97 ≤ c.toNat && c.toNat ≤ 122)
/-- RFC 9110 tchar, and obs-text (bytes 0x80–0xFF), which a recipient treats as opaque data: such bytes
    compare byte for byte (HTTP case-insensitivity is ASCII only) -/
def isTchar (c : Char) : Bool := isAlphaNum c || "!#$%&'*+-.^_`|~".toList.contains c || c.toNat ≥ 128
def isToken (s : Bytes) : Bool := !s.isEmpty && s.all isTchar

def isDigitC (c : Char) : Bool := 48 ≤ c.toNat && c.toNat ≤ 57

/-- value of up to three decimal digits after the point, in thousandths -/
def frac3 : Bytes → Nat
  | [] => 0
  | [a] => (a.toNat - 48) * 100
  | [a, b] => (a.toNat - 48) * 100 + (b.toNat - 48) * 10
  | a :: b :: c :: _ => (a.toNat - 48) * 100 + (b.toNat - 48) * 10 + (c.toNat - 48)

/-- the `qvalue` grammar, in thousandths -/
def qvalue (s : Bytes) : Option Nat :=
  match s with
  | ['0'] => some 0
  | ['1'] => some 1000
  | '0' :: '.' :: ds => if ds.length ≤ 3 && ds.all isDigitC then some (frac3 ds) else none
  | '1' :: '.' :: zs => if zs.length ≤ 3 && zs.all (· == '0') then some 1000 else none
  | _ => none

/-- quoted-string without escapes or separators inside -/
def isQuoted (s : Bytes) : Bool :=
  s.length ≥ 2 && s.head? == some '"' && s.getLast? == some '"' &&
    ((s.drop 1).dropLast).all (fun c => c != '"' && c != '\\' && c.toNat ≥ 32 && c.toNat != 127)

def splitEq : Bytes → Option (Bytes × Bytes)
  | [] => none
  | c :: r => if c == '=' then some ([], r) else (splitEq r).map fun (a, b) => (c :: a, b)

inductive Param
  | weight (q : Nat)
  | other
  deriving DecidableEq, Repr

/-- one stripped, non-empty parameter piece -/
def param (p : Bytes) : Option Param :=
  match splitEq p with
  | none => none
  | some (name, value) =>
    if !isToken name then none
    else if name == ['q'] || name == ['Q'] then (qvalue value).map Param.weight
    else if isToken value || isQuoted value then some Param.other
    else none

def params : List Bytes → Option (List Param)
  | [] => some []
  | p :: rest =>
    let p' := strip p
    if p'.isEmpty then params rest
    else match param p', params rest with
      | some x, some xs => some (x :: xs)
      | _, _ => none

def weights (ps : List Param) : List Nat := ps.filterMap fun p => match p with | .weight q => some q | .other => none

/-- a range with its weight in thousandths; `value` keeps the case of the header -/
structure Range where
  value : Bytes
  q : Nat
  deriving DecidableEq, Repr

def lowerC (c : Char) : Char := if 65 ≤ c.toNat && c.toNat ≤ 90 then Char.ofNat (c.toNat + 32) else c
def lower (s : Bytes) : Bytes := s.map lowerC

/-- media-range = "*/*" / type "/*" / type "/" subtype -/
def mediaRange (v : Bytes) : Option (Bytes × Bytes) :=
  match splitOn '/' v with
  | [t, s] =>
    if isToken t && isToken s && (t != ['*'] || s == ['*']) then some (lower t, lower s) else none
  | _ => none

/-- the range grammar: a media-range for Accept, a token for the other three headers -/
def rangeOK (media : Bool) (v : Bytes) : Bool := if media then (mediaRange v).isSome else isToken v

/-- the weight of an element: 1 by default, the q parameter when there is exactly one -/
def weightOf (ws : List Nat) : Option Nat :=
  match ws with
  | [] => some 1000
  | [q] => some q
  | _ => none

/-- one stripped, non-empty list element; `media` selects the range grammar -/
def element (media : Bool) (e : Bytes) : Option Range :=
  match splitOn ';' e with
  | [] => none
  | r :: ps =>
    if !rangeOK media (strip r) then none
    else match params ps with
      | none => none
      | some xs => (weightOf (weights xs)).map fun q => { value := strip r, q := q }

def elements (media : Bool) : List Bytes → Option (List Range)
  | [] => some []
  | e :: rest =>
    let e' := strip e
    if e'.isEmpty then elements media rest
    else match element media e', elements media rest with
      | some x, some xs => some (x :: xs)
      | _, _ => none

/-- the ranges a header denotes, `none` when it is outside the grammar -/
def ranges (media : Bool) (header : Bytes) : Option (List Range) := elements media (splitOn ',' header)

/-! ### offers -/

def isSpaceC (c : Char) : Bool := c == ' ' || (9 ≤ c.toNat && c.toNat ≤ 13)
def trimSpace (s : Bytes) : Bytes := ((s.dropWhile isSpaceC).reverse.dropWhile isSpaceC).reverse

def b (x : String) : Bytes := x.toList

/-- the documented short names of `Accepts` -/
def shortNames : List (Bytes × Bytes) :=
  [(b "html", b "text/html"), (b "json", b "application/json"), (b "xml", b "application/xml"),
   (b "text", b "text/plain"), (b "txt", b "text/plain"), (b "png", b "image/png"), (b "jpg", b "image/jpeg"),
   (b "jpeg", b "image/jpeg"), (b "gif", b "image/gif"), (b "webp", b "image/webp"), (b "svg", b "image/svg+xml"),
   (b "css", b "text/css"), (b "js", b "application/javascript"), (b "javascript", b "application/javascript"),
   (b "pdf", b "application/pdf"), (b "zip", b "application/zip"), (b "mp4", b "video/mp4"),
   (b "webm", b "video/webm"), (b "mp3", b "audio/mpeg"), (b "wav", b "audio/wav")]

/-- an `Accepts` offer as (type, subtype): a short name or `type/subtype`, case-insensitive, blanks around -/
def mediaOffer (o : Bytes) : Option (Bytes × Bytes) :=
  let m := lower (trimSpace o)
  let full := match shortNames.lookup m with
    | some f => f
    | none => m
  match splitOn '/' full with
  | [t, s] => if isToken t && isToken s && !t.contains '*' && !s.contains '*' then some (t, s) else none
  | _ => none

/-- an Accept-Charset / -Encoding / -Language offer: a token, case-insensitive, blanks around -/
def tokenOffer (o : Bytes) : Option Bytes :=
  let m := lower (trimSpace o)
  if isToken m && m != ['*'] then some m else none

/-! ### specificity, quality, the relation -/

/-- 3 exact, 2 `type/*`, 1 `*/*`, 0 no match (parameters other than q are documented to be ignored) -/
def mediaSpecificity (o : Bytes × Bytes) (r : Range) : Nat :=
  match mediaRange r.value with
  | none => 0
  | some (t, s) =>
    if t == o.1 && s == o.2 then 3
    else if t == o.1 && s == ['*'] then 2
    else if t == ['*'] && s == ['*'] then 1
    else 0

def startsWith : Bytes → Bytes → Bool
  | _, [] => true
  | [], _ :: _ => false
  | a :: as, b :: bs => a == b && startsWith as bs

/-- 3 equal, 2 one is a `-`-prefix of the other ("en" / "en-US", documented both ways), 1 `*`, 0 no match -/
def tokenSpecificity (o : Bytes) (r : Range) : Nat :=
  let v := lower r.value
  if v == o then 3
  else if startsWith v (o ++ ['-']) || startsWith o (v ++ ['-']) then 2
  else if v == ['*'] then 1
  else 0

def maxNat (l : List Nat) : Nat := l.foldl max 0

/-- the most specific ranges that match (empty when nothing matches) -/
def top (sp : Range → Nat) (rs : List Range) : List Range :=
  let m := maxNat (rs.map sp)
  if m == 0 then [] else rs.filter (fun r => sp r == m)

def qmax (sp : Range → Nat) (rs : List Range) : Nat := maxNat ((top sp rs).map (·.q))
def qmin (sp : Range → Nat) (rs : List Range) : Nat :=
  match (top sp rs).map (·.q) with
  | [] => 0
  | q :: qs => qs.foldl min q

/-- `ans` is an admissible answer for offers whose specificity functions are `sps` (same order as `offers`) -/
def acceptable (rs : List Range) (offers : List Bytes) (sps : List (Range → Nat)) (ans : Bytes) : Bool :=
  if offers.isEmpty then ans.isEmpty
  else if rs.isEmpty then offers.contains ans            -- no preference stated: any offer
  else if ans.isEmpty then sps.all (fun sp => qmin sp rs == 0)
  else
    (offers.zip sps).any (fun p => p.1 == ans && qmax p.2 rs > 0 && sps.all (fun sp => qmin sp rs ≤ qmax p.2 rs))

/-- what every answer must satisfy, whatever the header -/
def wellFormedAnswer (offers : List Bytes) (ans : Bytes) : Bool := ans.isEmpty || offers.contains ans

def allSome {α} : List (Option α) → Option (List α)
  | [] => some []
  | none :: _ => none
  | some a :: r => (allSome r).map (a :: ·)

/-- the oracle: `media = true` for Accepts, `false` for the three Accept-* helpers -/
def negotiationOK (media : Bool) (header : Bytes) (offers : List Bytes) (ans : Bytes) : Bool :=
  wellFormedAnswer offers ans &&
  (match ranges media header with
   | none => true
   | some rs =>
     if media then
       match allSome (offers.map mediaOffer) with
       | none => true
       | some os => acceptable rs offers (os.map mediaSpecificity) ans
     else
       match allSome (offers.map tokenOffer) with
       | none => true
       | some os => acceptable rs offers (os.map tokenSpecificity) ans)

/-- the strong clause applies (header in the grammar, offers well formed) -/
def inDomain (media : Bool) (header : Bytes) (offers : List Bytes) : Bool :=
  (ranges media header).isSome &&
  (if media then (allSome (offers.map mediaOffer)).isSome else (allSome (offers.map tokenOffer)).isSome)

end Rivaas.AcceptSpec
