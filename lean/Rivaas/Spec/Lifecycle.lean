import Rivaas.Model.LifecycleTypes
/-
C09 — the lifecycle language as a predicate on observations.

`holds sc o` says that what was observed (`o`: event log, result of `Start`, final probes, client
results, `Reload` results) is allowed by the property for the scenario `sc` (which hooks exist, what
each of them does, which faults the environment injects). It is written from the statement, clause
by clause, and does not mention the model. Where the statement leaves an outcome open the predicate
admits every outcome:

* a panic in an OnStart or OnShutdown hook may leave `Start` (the statement promises containment
  only for reload and OnStop hooks); nothing is demanded after it — but it may equally be contained;
* the order among OnReady hooks, among OnStop hooks, and between OnReady hooks and anything later;
* whether OnShutdown / OnStop hooks run after a *failed* start-up;
* the result (`nil` or the drain error) when the shutdown budget was used up before the drain began.

Core Lean only (the driver evaluates `holds` on what the implementation did).
-/
namespace Rivaas.Lifecycle.Spec
open Rivaas.Lifecycle

/-! ### vocabulary -/

def isStart : Ev → Bool | .startIn .. => true | .startOut .. => true | _ => false
def isReady : Ev → Bool | .ready .. => true | _ => false
def isReload : Ev → Bool | .reloadIn .. => true | .reloadOut .. => true | _ => false
def isReqFin : Ev → Bool | .reqFin .. => true | _ => false
def isSig : Ev → Bool | .sig => true | _ => false
def isShut : Ev → Bool | .shutIn .. => true | .shutOut .. => true | _ => false
def isFlush : Ev → Bool | .flush => true | _ => false
def isStop : Ev → Bool | .stopIn .. => true | .stopOut .. => true | _ => false
def isRet : Ev → Bool | .ret => true | _ => false

/-- (enter?, index) of a hook event of the given kind -/
def startTag : Ev → Option (Bool × Nat)
  | .startIn i _ _ _ => some (true, i) | .startOut i => some (false, i) | _ => none
def shutTag : Ev → Option (Bool × Nat)
  | .shutIn i _ _ _ => some (true, i) | .shutOut i => some (false, i) | _ => none
def stopTag : Ev → Option (Bool × Nat)
  | .stopIn i _ _ => some (true, i) | .stopOut i => some (false, i) | _ => none
def reloadRound : Ev → Option Nat
  | .reloadIn r _ => some r | .reloadOut r _ => some r | _ => none

/-- hooks `lo, lo+1, …, lo+n-1`, one after the other: enter, leave, enter, leave, … -/
def seqUp : Nat → Nat → List (Bool × Nat)
  | 0, _ => []
  | n + 1, lo => (true, lo) :: (false, lo) :: seqUp n (lo + 1)

/-- hooks `lo+n-1, …, lo+1, lo` in that (reverse registration) order -/
def seqDown : Nat → Nat → List (Bool × Nat)
  | 0, _ => []
  | n + 1, lo => (true, lo + n) :: (false, lo + n) :: seqDown n lo

/-- every `p`-event comes before every `q`-event -/
def precedes (p q : Ev → Bool) : List Ev → Bool
  | [] => true
  | e :: es => (!q e || es.all fun x => !p x) && precedes p q es

/-- no `p`-event before the first `g`-event (and none at all without a `g`-event) -/
def guardedBy (g p : Ev → Bool) : List Ev → Bool
  | [] => true
  | e :: es => g e || (!p e && guardedBy g p es)

/-- what follows the (first) return of `Start` -/
def afterRet : List Ev → List Ev
  | [] => []
  | e :: es => if isRet e then es else afterRet es

/-! ### start-up -/

/-- an OnStart hook with this behaviour aborts start-up -/
def startFails (b : HB) : Bool := b == .err || b == .panic || b == .block

/-- number of OnStart hooks that run: up to and including the first that fails -/
def runCount : List HB → Nat
  | [] => 0
  | b :: rest => if startFails b then 1 else runCount rest + 1

/-- "before the listener opens": no OnStart hook sees the application serving -/
def startProbeOk : Ev → Bool
  | .startIn _ app _ _ => !app
  | _ => true

/-- "OnReady runs only once the server accepts connections" (and only registered hooks, at most once) -/
def readyProbeOk (n : Nat) : Ev → Bool
  | .ready i app _ _ => app && i < n
  | _ => true

def readyIdx : Ev → Option Nat | .ready i _ _ _ => some i | _ => none

def nodupNat : List Nat → Bool
  | [] => true
  | x :: xs => !xs.contains x && nodupNat xs

/-- telemetry is down again and what it buffered — traces, startup logs — has been flushed before
    `Start` returns -/
def telemetryClean (sc : Scenario) (o : Obs) : Bool :=
  !o.finMet && !o.finHeld && (!sc.tracing || (o.log.count .flush == 1 && precedes isFlush isRet o.log))

/-- `Start` returned an error (which one is not the property's business) -/
def isError : Res → Bool
  | .ok => false | .hang => false | .killed => false | .panic => false | _ => true

/-- "the first failure aborts startup leaving nothing running" -/
def failedStartOk (sc : Scenario) (o : Obs) (failing : Option HB) : Bool :=
  !o.log.any isReady &&
  match failing with
  | some .panic => o.res == .panic || (isError o.res && !o.finApp && telemetryClean sc o)
  | _ => isError o.res && !o.finApp && telemetryClean sc o

/-! ### shutdown -/

/-- an OnShutdown hook registered after hook `i` (so running before it) holds on until the deadline -/
def blockAbove (shuts : List HB) (i : Nat) : Bool := (shuts.drop (i + 1)).any (· == .block)

/-- OnShutdown hooks run while the server still serves and telemetry is still up, with a context that
    has not ended (unless an earlier hook used up the budget) -/
def shutProbeOk (sc : Scenario) : Ev → Bool
  | .shutIn i app met live => app && met == sc.metrics && (live || blockAbove sc.shuts i)
  | _ => true

/-- requests finish while telemetry is still up -/
def reqProbeOk (sc : Scenario) : Ev → Bool
  | .reqFin _ met => met == sc.metrics
  | _ => true

/-- OnStop hooks run when the server and telemetry are down -/
def stopProbeOk (n : Nat) : Ev → Bool
  | .stopIn i app met => !app && !met && i < n
  | .stopOut i => i < n
  | _ => true

/-- index of the OnShutdown hook whose panic ends the LIFO loop: the highest panicking index -/
def lastPanic : List HB → Nat → Option Nat
  | [], _ => none
  | b :: rest, i => match lastPanic rest (i + 1) with
    | some p => some p
    | none => if b == .panic then some i else none

/-- a request the environment never lets finish before the deadline -/
def stuckForever (nShut : Nat) : Rel → Bool
  | .hook j => j ≥ nShut
  | .drain => false
  | .never => true
  | .hijack => false

/-- the shutdown timeout can legitimately expire: a request cannot finish, or a hook used up the budget -/
def timeoutLegit (sc : Scenario) : Bool :=
  sc.reqs.any (stuckForever sc.shuts.length) || sc.shuts.any (· == .block)

def reqInIdx : Ev → Option Nat | .reqIn k => some k | _ => none

/-- every request whose handler was entered got its complete response -/
def allComplete (o : Obs) : Bool :=
  (o.log.filterMap reqInIdx).all fun k => o.reqs[k]? == some .complete

def eachOnce (tags : List (Bool × Nat)) (n : Nat) : Bool :=
  (List.range n).all fun i => tags.count (true, i) == 1 && tags.count (false, i) == 1

/-- "Every request accepted before the signal receives its complete response unless the shutdown
    timeout expires" — and the timeout may only expire for a reason -/
def requestsOk (sc : Scenario) (o : Obs) : Bool :=
  (o.res != .errDrain || timeoutLegit sc) &&
  (o.res != .ok || allComplete o) &&
  (o.res == .errDrain || o.reqs.all (· != .incomplete)) &&
  o.log.all (reqProbeOk sc)

/-- telemetry is flushed (once) and is down, the server is down, every OnStop hook runs exactly once -/
def flushStopOk (sc : Scenario) (o : Obs) : Bool :=
  (!sc.tracing || o.log.count .flush == 1) &&
  eachOnce (o.log.filterMap stopTag) sc.stops.length &&
  o.log.all (stopProbeOk sc.stops.length) &&
  !o.finApp && !o.finMet

/-- "… OnShutdown hooks …, then in-flight requests are drained, then telemetry is flushed, then OnStop
    hooks run …, and Start returns only afterwards" -/
def orderOk (L : List Ev) : Bool :=
  precedes isShut isFlush L && precedes isShut isStop L && precedes isShut isRet L &&
  precedes isReqFin isFlush L && precedes isReqFin isStop L && precedes isReqFin isRet L &&
  precedes isFlush isStop L && precedes isFlush isRet L && precedes isStop isRet L

/-- the shutdown sequence when no panic leaves it -/
def tailOk (sc : Scenario) (o : Obs) : Bool :=
  o.log.filterMap shutTag == seqDown sc.shuts.length 0 &&
  requestsOk sc o && flushStopOk sc o && orderOk o.log

/-- the shutdown sequence after a successful start-up -/
def shutdownOk (sc : Scenario) (o : Obs) : Bool :=
  let L := o.log
  guardedBy isSig isShut L && guardedBy isSig isRet L &&
  L.all (shutProbeOk sc) &&
  match o.res with
  | .ok => tailOk sc o
  | .errDrain => tailOk sc o
  | .panic =>
    -- only the panic of an OnShutdown hook may leave Start here; the hooks before it ran, LIFO
    match lastPanic sc.shuts 0 with
    | some p => L.filterMap shutTag == seqDown (sc.shuts.length - p) p
    | none => false
  | _ => false

/-! ### reloads -/

/-- a round that has been left is never entered again -/
def noInterleave : List Nat → Bool
  | [] => true
  | r :: rest => (rest.dropWhile (· == r)).all (· != r) && noInterleave rest

/-! ### the language -/

/-- a reload event of a round the environment started by calling `Reload` itself (a round started by
    SIGHUP is run by the lifecycle: it is the lifecycle's own work) -/
def isEnvReload (sc : Scenario) (e : Ev) : Bool :=
  match reloadRound e with
  | some r => match sc.rounds[r]? with
    | some rd => rd.trig == .prog
    | none => false
  | none => false

/-- Start returns, exactly once, and nothing but reload calls of the environment happens after it -/
def returnsOnce (sc : Scenario) (L : List Ev) : Bool := L.any isRet && (afterRet L).all (isEnvReload sc)

/-- OnStart hooks: sequential, in registration order, up to the first failure, before the listener opens -/
def startsOk (sc : Scenario) (L : List Ev) : Bool :=
  L.filterMap startTag == seqUp (runCount sc.starts) 0 && L.all startProbeOk

/-- OnReady hooks: only registered ones, each at most once, only when the server accepts -/
def readiesOk (sc : Scenario) (L : List Ev) : Bool :=
  L.all (readyProbeOk sc.readies.length) && nodupNat (L.filterMap readyIdx)

/-- reloads are serialised and never panic into their caller -/
def reloadsOk (o : Obs) : Bool :=
  noInterleave (o.log.filterMap reloadRound) && o.rounds.all (· != .panic)

def holds (sc : Scenario) (o : Obs) : Bool :=
  let failing := sc.starts.find? startFails
  returnsOnce sc o.log && startsOk sc o.log && readiesOk sc o.log && reloadsOk o &&
  (if failing.isNone && sc.listen == .ok then shutdownOk sc o else failedStartOk sc o failing)

/-! ### classes of the findings of DESIGN.md §7 (on the scenario only) -/

def startupFails (sc : Scenario) : Bool := sc.starts.any startFails || sc.listen != .ok

/-- class token the driver prints in `D=`; `-` when the scenario is in no open class -/
def classify (_sc : Scenario) : String := "-"

end Rivaas.Lifecycle.Spec
