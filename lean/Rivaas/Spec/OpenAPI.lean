import Rivaas.Model.OpenAPIBuild
/-
C07 — the oracle: what the statement demands of a produced document, written on the document itself
(`Doc Schema`, the structured reading of the produced JSON) and on the operations handed in. It does not
mention the generator. (The data types `Doc`, `Tree`, `OpIn`, `Version`, `Sc` are shared with the model;
no model *function* is used here except the text helpers of OpenAPIText.)

  refsClosed     every `$ref` is `#/components/schemas/<token>` and resolves (JSON pointer) to a component
  pathParamsOK   every `:name` of a route is `{name}` in the path key and exactly one required path parameter
  opIdsUnique    operationIds are pairwise different
  namesOK        component keys match ^[a-zA-Z0-9._-]+$
  wfDoc          WF: the transcribed fragment of the 3.0 / 3.1 meta-schema (partial — see notes/C07.md)
Core Lean only.
-/
namespace Rivaas.OpenAPI

/-! ## references -/

mutual
  def Tree.refs {α} : Tree α → List B
    | .ref r => [r]
    | .node _ i p a => OTree.refs i ++ PTree.refs p ++ OTree.refs a
  def OTree.refs {α} : OTree α → List B
    | .none => []
    | .some t => Tree.refs t
  def PTree.refs {α} : PTree α → List B
    | .nil => []
    | .cons _ t rest => Tree.refs t ++ PTree.refs rest
end

def Operation.schemas {σ} (o : Operation σ) : List σ :=
  o.params.map (·.schema) ++ o.body.toList ++ o.resps.filterMap (·.schema)

def Doc.operations {σ} (d : Doc σ) : List (Operation σ) := d.paths.flatMap fun pi => pi.2.map (·.2)

/-- every schema that occurs in the document -/
def Doc.allSchemas {σ} (d : Doc σ) : List σ := d.operations.flatMap Operation.schemas ++ d.schemas.map (·.2)

def Doc.allRefs {α} (d : Doc (Tree α)) : List B := d.allSchemas.flatMap Tree.refs

/-- JSON pointer unescaping of one reference token (`~1` ↦ `/`, `~0` ↦ `~`) -/
def unescapeToken : B → B
  | '~' :: '1' :: rest => '/' :: unescapeToken rest
  | '~' :: '0' :: rest => '~' :: unescapeToken rest
  | c :: rest => c :: unescapeToken rest
  | [] => []

/-- does the `$ref` string resolve to a member of `components.schemas`? -/
def resolves (keys : List B) (r : B) : Bool :=
  match cutPrefix (s "#/components/schemas/") r with
  | some tok => !tok.contains '/' && keys.contains (unescapeToken tok)
  | none => false

def refsClosed {α} (d : Doc (Tree α)) : Bool := d.allRefs.all (resolves (d.schemas.map (·.1)))

/-! ## path parameters -/

/-- the route's parameter names: segments that start with `:` -/
def specRouteParams (route : B) : List B :=
  (splitOn '/' route).filterMap fun seg => match seg with
    | ':' :: name => some name
    | _ => none

/-- the route with every `:name` segment written `{name}` -/
def specPathKey (route : B) : B :=
  joinWith ['/'] ((splitOn '/' route).map fun seg => match seg with
    | ':' :: name => ['{'] ++ name ++ ['}']
    | _ => seg)

def specMember (method : B) : B := toLower method

/-- the clause for one operation of the document and the route it was generated for -/
def opPathParamsOK {σ} (key : B) (o : Operation σ) (route : B) : Bool :=
  (specRouteParams route).all fun n =>
    (splitOn '/' key).contains (['{'] ++ n ++ ['}']) &&
    ((o.params.filter fun p => p.loc == s "path" && p.name == n).length == 1) &&
    (o.params.all fun p => !(p.loc == s "path" && p.name == n) || p.required)

/-- an operation handed in survives into the document unless a later one has the same key and method -/
def survives (ops : List OpIn) : List OpIn :=
  match ops with
  | [] => []
  | op :: rest =>
    if rest.any (fun o => specPathKey o.path == specPathKey op.path && specMember o.method == specMember op.method)
    then survives rest else op :: survives rest

def pathParamsOK {σ} (ops : List OpIn) (d : Doc σ) : Bool :=
  (survives ops).all fun op =>
    match d.paths.lookup (specPathKey op.path) with
    | none => (specRouteParams op.path).isEmpty || !([s "get", s "put", s "post", s "delete", s "options", s "head", s "patch"].contains (specMember op.method))
    | some item =>
      match item.lookup (specMember op.method) with
      | none =>               -- no member: fine for a method that has none (TRACE, custom methods) or a route without
                              -- parameters; otherwise the route's parameters are documented nowhere
        (specRouteParams op.path).isEmpty || !([s "get", s "put", s "post", s "delete", s "options", s "head", s "patch"].contains (specMember op.method))
      | some o => opPathParamsOK (specPathKey op.path) o op.path

/-! ## operation ids, names -/

def Doc.opIds {σ} (d : Doc σ) : List B := d.operations.map (·.opId)

def nodupB : List B → Bool
  | [] => true
  | x :: xs => !xs.contains x && nodupB xs

def opIdsUnique {σ} (d : Doc σ) : Bool := nodupB d.opIds

/-- the character class `[a-zA-Z0-9._-]` -/
def nameCharOK (c : Char) : Bool :=
  ('a' ≤ c && c ≤ 'z') || ('A' ≤ c && c ≤ 'Z') || ('0' ≤ c && c ≤ '9') || c = '.' || c = '_' || c = '-'

/-- `^[a-zA-Z0-9._-]+$` -/
def nameOK (k : B) : Bool := !k.isEmpty && k.all nameCharOK

def namesOK {σ} (d : Doc σ) : Bool := d.schemas.all fun ks => nameOK ks.1

/-! ## WF: a fragment of the meta-schemas -/

def typeNames : List B := [s "array", s "boolean", s "integer", s "number", s "object", s "string"]

def isNatText (x : B) : Bool := !x.isEmpty && x.all isDigit

/-- one scalar member of a Schema Object -/
def attrCoreOK (v : Version) (a : B × Sc) : Bool :=
  let k := a.1
  match v, a.2 with
  | _, .str x =>
    if k = s "type" then typeNames.contains x
    else [s "format", s "pattern", s "example", s "description"].contains k || (v = .v31 && k = s "contentEncoding")
  | _, .strs xs =>
    if k = s "required" then !xs.isEmpty && nodupB xs
    else if k = s "enum" then !xs.isEmpty
    else if k = s "type" then v = .v31 && !xs.isEmpty && nodupB xs && xs.all fun t => typeNames.contains t || t = s "null"
    else v = .v31 && k = s "examples"
  | .v30, .bool _ => [s "nullable", s "exclusiveMaximum", s "exclusiveMinimum"].contains k
  | .v31, .bool _ => false
  | _, .num x =>
    if [s "maxLength", s "minLength"].contains k then isNatText x
    else [s "maximum", s "minimum"].contains k || (v = .v31 && [s "exclusiveMaximum", s "exclusiveMinimum"].contains k)

/-- one scalar member of a Schema Object; `default` admits any value -/
def attrOK (v : Version) (a : B × Sc) : Bool := a.1 == s "default" || attrCoreOK v a

mutual
  def wfSchema (v : Version) : Schema → Bool
    | .ref _ => true
    | .node h i p a => h.all (attrOK v) && wfO v i && wfP v p && wfO v a
  def wfO (v : Version) : OTree Attrs → Bool
    | .none => true
    | .some t => wfSchema v t
  def wfP (v : Version) : PTree Attrs → Bool
    | .nil => true
    | .cons _ t rest => wfSchema v t && wfP v rest
end

def locs : List B := [s "query", s "header", s "path", s "cookie"]

/-- the `style` enumeration of the Parameter Object, per location (transcribed from the meta-schemas);
    `[]` = no `style` member -/
def specStyleOK (loc style : B) : Bool :=
  style.isEmpty ||
  (loc == s "path" && [s "matrix", s "label", s "simple"].contains style) ||
  (loc == s "query" && [s "form", s "spaceDelimited", s "pipeDelimited", s "deepObject"].contains style) ||
  (loc == s "header" && style == s "simple") ||
  (loc == s "cookie" && style == s "form")

def wfParam (v : Version) (p : Param Schema) : Bool :=
  !p.name.isEmpty && locs.contains p.loc && (p.loc != s "path" || p.required) && specStyleOK p.loc p.style &&
  wfSchema v p.schema

/-- a key of the Responses Object: `default` or `^[1-5](?:\d{2}|XX)$` (transcribed from the meta-schemas) -/
def specCodeOK (c : B) : Bool :=
  c = s "default" ||
  (c.length == 3 &&
   (match c.head? with | some a => '1' ≤ a && a ≤ '5' | none => false) &&
   (((c.drop 1).all fun d => '0' ≤ d && d ≤ '9') || c.drop 1 = ['X', 'X']))

def wfResp (v : Version) (r : Resp Schema) : Bool :=
  specCodeOK r.code && !r.description.isEmpty && (match r.schema with | some x => wfSchema v x | none => true) &&
  !(r.hasExample && !r.exampleNames.isEmpty)     -- Media Type Object: `example` and `examples` are mutually exclusive

def nodupPairs : List (B × B) → Bool
  | [] => true
  | x :: xs => !xs.contains x && nodupPairs xs

def wfOperation (v : Version) (o : Operation Schema) : Bool :=
  o.params.all (wfParam v) &&
  nodupPairs (o.params.map fun p => (p.loc, p.name)) &&     -- uniqueItems; a parameter is (in, name)
  (match o.body with | some x => wfSchema v x | none => true) &&
  !o.resps.isEmpty && o.resps.all (wfResp v)

def members : List B := [s "get", s "put", s "post", s "delete", s "options", s "head", s "patch", s "trace"]

/-- (Uniqueness of the keys of `paths`, of a path item, of `responses`, of `components.schemas` and of a
    schema object is not part of WF: they are JSON object keys.) -/
def wfDoc (v : Version) (d : Doc Schema) : Bool :=
  (match v with
   | .v30 => hasPrefix (s "3.0.") d.openapi && d.dialect.isEmpty && d.infoSummary.isEmpty  -- the 3.0 Info Object has no `summary`
   | .v31 => hasPrefix (s "3.1.") d.openapi) &&
  d.paths.all (fun pi => hasPrefix (s "/") pi.1 &&
    pi.2.all (fun mo => members.contains mo.1 && wfOperation v mo.2)) &&
  d.schemas.all (fun ks => wfSchema v ks.2)

/-! ## the whole oracle on one produced document -/

def docOK (v : Version) (ops : List OpIn) (d : Doc Schema) : Bool :=
  refsClosed d && pathParamsOK ops d && opIdsUnique d && namesOK d && wfDoc v d

end Rivaas.OpenAPI
