import Rivaas.Spec.Match
/-
Decidable classifiers of the recorded C01 findings (DESIGN.md §2.4). Each is stated on the route set,
the request and the *reference* matcher only — never on what the tree model does — so that the partial
theorem `¬D… → dispatch = refMatch` is not a tautology about the model.

Core Lean only.
-/
namespace Rivaas.Match
open Rivaas.Route

def sameShape : PSeg → PSeg → Bool
  | .lit x, .lit y => x = y
  | .par _, .par _ => true
  | .wild, .wild => true
  | _, _ => false

/-- the first `i` segments of both patterns exist and agree up to parameter names -/
def prefixAgree : Nat → Pat → Pat → Bool
  | 0, _, _ => true
  | i + 1, a :: as, b :: bs => sameShape a b && prefixAgree i as bs
  | _ + 1, _, _ => false

def shapeEq : Pat → Pat → Bool
  | [], [] => true
  | a :: as, b :: bs => sameShape a b && shapeEq as bs
  | _, _ => false

def compat : PSeg → Bytes → Bool
  | .lit s, x => s = x
  | _, _ => true

def isStaticPat (p : Pat) : Bool := p.all fun s => kind s = 3

/-- routes of the method that contain a parameter or a wildcard -/
def dynRoutes (R : List Route) (m : Bytes) : List Route :=
  R.filter fun r => r.method = m ∧ ¬ isStaticPat r.pat

/-- a parameter-free route of the method matches the path outright -/
def staticHit (R : List Route) (m : Bytes) (p : RPath) : Bool :=
  R.any fun r => r.method = m ∧ isStaticPat r.pat ∧ (matchPat p.trail r.pat p.segs).isSome

/-- members of `dynRoutes` whose pattern matches, constraints ignored -/
def shapeCands (R : List Route) (m : Bytes) (p : RPath) : List Route :=
  (dynRoutes R m).filter fun r => (matchPat p.trail r.pat p.segs).isSome

/-- the best pattern match when constraints are ignored (last registered among equals) -/
def rho (R : List Route) (m : Bytes) (p : RPath) : Option Route :=
  pick none (shapeCands R m p)

/-- K01b (repaired; kept for the as-shipped witness and for C11): a route sharing `ρ`'s prefix offers, at some position, a compatible segment of strictly
higher priority — a descent that never backtracks leaves `ρ`'s branch there -/
def dShadow1 (R : List Route) (m : Bytes) (p : RPath) : Bool :=
  !staticHit R m p &&
  match rho R m p with
  | none => false
  | some ρ =>
    (dynRoutes R m).any fun r' =>
      (List.range ρ.pat.length).any fun i =>
        prefixAgree i r'.pat ρ.pat &&
        match r'.pat[i]?, ρ.pat[i]?, p.segs[i]? with
        | some a, some b, some x => compat a x && kind b < kind a
        | _, _, _ => false

/-- K01f (repaired; kept for the as-shipped witness and for C11): constraints were only checked at the one
leaf a descent reached: `ρ` fails its own constraints while another pattern match passes its own -/
def dCfall1 (sat : Nat → Bytes → Bool) (R : List Route) (m : Bytes) (p : RPath) : Bool :=
  !staticHit R m p &&
  match rho R m p with
  | none => false
  | some ρ => (routeMatch sat ρ p).isNone && (shapeCands R m p).any fun r => (routeMatch sat r p).isSome

/-- K01a (repaired; kept for the as-shipped witness): another route reaches one of `ρ`'s parameter
positions through the same prefix but calls the parameter differently (one shared child per node, one name) -/
def dNames1 (R : List Route) (m : Bytes) (p : RPath) : Bool :=
  !staticHit R m p &&
  match rho R m p with
  | none => false
  | some ρ =>
    (dynRoutes R m).any fun r1 =>
      (List.range ρ.pat.length).any fun i =>
        prefixAgree i r1.pat ρ.pat &&
        match r1.pat[i]?, ρ.pat[i]? with
        | some (PSeg.par n1), some (PSeg.par n2) => n1 ≠ n2
        | _, _ => false

/-- K01c: another route has exactly `ρ`'s shape but not its pattern or not its constraints (one leaf
per shape: registrations overwrite each other) -/
def dOverwrite1 (R : List Route) (m : Bytes) (p : RPath) : Bool :=
  !staticHit R m p &&
  match rho R m p with
  | none => false
  | some ρ => (dynRoutes R m).any fun r1 => shapeEq r1.pat ρ.pat && (r1.pat ≠ ρ.pat || r1.cons ≠ ρ.cons)

/-- the outcome of a request depends on its own method tree and, for 404/405, on all seven -/
def methodsOf (req : Req) : List Bytes := req.method :: stdMethods

def dShadow (R : List Route) (req : Req) (p : RPath) : Bool := (methodsOf req).any fun m => dShadow1 R m p
def dCfall (sat : Nat → Bytes → Bool) (R : List Route) (req : Req) (p : RPath) : Bool := (methodsOf req).any fun m => dCfall1 sat R m p
def dNames (R : List Route) (req : Req) (p : RPath) : Bool := (methodsOf req).any fun m => dNames1 R m p
def dOverwrite (R : List Route) (req : Req) (p : RPath) : Bool := (methodsOf req).any fun m => dOverwrite1 R m p

/-- another route of the method has exactly the shape of the route the reference selects but another pattern,
i.e. names a parameter differently (the tree keeps one leaf per shape, the compiled matcher one template per
pattern text) — the part of K01c that the comparison of the two engines (C11) is sensitive to -/
def dSameShape1 (sat : Nat → Bytes → Bool) (R : List Route) (m : Bytes) (p : RPath) : Bool :=
  match refRoute sat R m p with
  | none => false
  | some ρ => (dynRoutes R m).any fun r1 => shapeEq r1.pat ρ.pat && r1.pat ≠ ρ.pat

/-- the routes registered after (the first occurrence of) `ρ` -/
def laterThan (ρ : Route) : List Route → List Route
  | [] => []
  | r :: rest => if r = ρ then rest else laterThan ρ rest

/-- K01c, the one class left since the K01b/K01f repair (the descent backtracks): the route the reference
selects was registered, and later a route of the same method with exactly its shape was registered too
(`/u/:id` then `/u/:name`, or the same pattern again) — the tree keeps one leaf per shape, the later
registration replaced the earlier one. (The later route itself does not match the request — otherwise the
reference, which takes the last among equals, would have selected it.) -/
def dReplaced1 (sat : Nat → Bytes → Bool) (R : List Route) (m : Bytes) (p : RPath) : Bool :=
  match refRoute sat R m p with
  | none => false
  | some ρ => (laterThan ρ R).any fun r1 => r1.method = m && shapeEq r1.pat ρ.pat

/-- the class as it bears on one request: the request method's own tree, and — only when no route of the
request method matches, i.e. when the answer is computed by probing the seven standard methods (405 + `Allow`) —
the trees of those methods -/
def dReplaced (sat : Nat → Bytes → Bool) (R : List Route) (req : Req) (p : RPath) : Bool :=
  dReplaced1 sat R req.method p ||
    ((refRoute sat R req.method p).isNone && stdMethods.any fun m => dReplaced1 sat R m p)

/-- the class token the driver prints. Since the K01a repair (a handler reads its parameters under the
names of its own pattern) and the K01b/K01f repair (the descent tries the next alternative when a subtree
or a constraint fails) the only class left is K01c `overwrite`. -/
def classify (sat : Nat → Bytes → Bool) (R : List Route) (req : Req) (p : RPath) : String :=
  if dReplaced sat R req p then "overwrite" else "-"

/-- the domain of the equality: every pattern is in the property's vocabulary (`pat` is the parse of
`text`), and every constraint names a parameter its own route declares (`filepath` for a trailing `*`;
so a parameter-free route carries none) -/
def normalRoute (r : Route) : Bool :=
  parsePattern r.text = some r.pat && r.cons.all fun (n, _) => (declNames r.pat).contains n

def normal (R : List Route) : Bool := R.all normalRoute

end Rivaas.Match
