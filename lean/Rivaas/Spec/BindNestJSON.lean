import Rivaas.Spec.Bind
import Rivaas.Model.BindNestJSON
/-
C04 — oracle for the nested-struct JSON shortcut. A nested struct field of the destination whose own key
holds one JSON value that `encoding/json` accepts for it (shipped) ends up holding exactly that decoded
struct — neither defaults nor other keys change it —, and the rest of the destination is judged as
always: the oracle `specOK` on the type with that field hidden from the bind and the decoded struct in
its place before the bind (a hidden field is a frame: it must come out as it went in).
-/
namespace Rivaas.Bind.Spec
open Rivaas.Bind

/-- the decoded struct (as the field holds it) when the shortcut applies to field `(h, t)` -/
def shortcutAt (P : Params) (cfg : Cfg) (tag : Tag) (s : Src) (h : FieldHdr) (t : Ty) : Option Val :=
  match structFields? t with
  | none => none
  | some _ =>
    -- a nested struct field of the top level lies at depth 1: beyond a depth limit of 0 nothing is decoded
    if !h.exported || h.anon || cfg.maxDepth < 1 then none
    else match tagNames (h.tag tag) h.name (tag == .form) with
      | none => none
      | some (p, _) =>
        let v := ((present s p).getD []).headD []
        if v != [] && looksJSON v then (P v).nj.map (rewrap t) else none

def hideFs : List Fld → List (Option Val) → List Fld
  | (h, t) :: fs, some _ :: sc => ({ h with exported := false }, t) :: hideFs fs sc
  | f :: fs, _ :: sc => f :: hideFs fs sc
  | fs, _ => fs

def placeVals : List Val → List (Option Val) → List Val
  | _ :: vs, some d :: sc => d :: placeVals vs sc
  | v :: vs, _ :: sc => v :: placeVals vs sc
  | vs, _ => vs

def shortcuts (P : Params) (cfg : Cfg) (tag : Tag) (fs : List Fld) (s : Src) : List (Option Val) :=
  fs.map fun f => shortcutAt P cfg tag s f.1 f.2

def specOKJ (P : Params) (cfg : Cfg) (tag : Tag) (fs : List Fld) (init : Val) (s : Src) (o : Obs) : Bool :=
  let sc := shortcuts P cfg tag fs s
  if sc.all Option.isNone then specOK P cfg tag fs init s o
  else match init with
    | .struct ivs => specOK P cfg tag (hideFs fs sc) (.struct (placeVals ivs sc)) s o
    | _ => false

end Rivaas.Bind.Spec
