import Rivaas.Basic
/-
Oracles for the rendering helpers (C19), independent of the model. Core Lean only.

* `sprintfRef`: fmt.Sprintf on the fragment {literal bytes, `%%`, `%s` with a string operand, operands
  used up exactly}. Outside the fragment it is undefined (`none`) and the shipped fmt.Sprintf result
  is the reference.
* `units`: the UTF-16 code units a JSON text denotes when `\uXXXX` escapes, two-character escapes and
  (strictly valid, RFC 3629) UTF-8 sequences are read the way a JSON decoder reads them. Two texts with
  the same units decode to the same value.
-/
namespace Rivaas.RenderSpec

inductive Arg
  | str (s : Bytes)
  | other
  deriving DecidableEq, Repr

def sprintfRef : Bytes → List Arg → Option Bytes
  | [], [] => some []
  | [], _ :: _ => none                                   -- %!(EXTRA …)
  | '%' :: '%' :: r, args => (sprintfRef r args).map ('%' :: ·)
  | '%' :: 's' :: r, .str v :: args => (sprintfRef r args).map (v ++ ·)
  | '%' :: _, _ => none                                  -- other verbs, flags, missing operand
  | c :: r, args => (sprintfRef r args).map (c :: ·)

/-! ### JSON text → UTF-16 code units -/

def hexVal (c : Nat) : Option Nat :=
  if 48 ≤ c ∧ c ≤ 57 then some (c - 48)
  else if 97 ≤ c ∧ c ≤ 102 then some (c - 87)
  else if 65 ≤ c ∧ c ≤ 70 then some (c - 55)
  else none

def isCont (b : Nat) : Bool := 0x80 ≤ b && b ≤ 0xBF

/-- strict UTF-8 (RFC 3629): scalar value and length of the sequence at the head, if well formed -/
def utf8Head (l : List Nat) : Option (Nat × Nat) :=
  match l with
  | b0 :: b1 :: rest =>
    if 0xC2 ≤ b0 && b0 ≤ 0xDF then
      (if isCont b1 then some ((b0 - 0xC0) * 64 + (b1 - 0x80), 2) else none)
    else match rest with
      | b2 :: rest2 =>
        if 0xE0 ≤ b0 && b0 ≤ 0xEF then
          let r := (b0 - 0xE0) * 4096 + (b1 - 0x80) * 64 + (b2 - 0x80)
          (if isCont b1 && isCont b2 && 0x800 ≤ r && !(0xD800 ≤ r && r ≤ 0xDFFF) then some (r, 3) else none)
        else match rest2 with
          | b3 :: _ =>
            if 0xF0 ≤ b0 && b0 ≤ 0xF4 then
              let r := (b0 - 0xF0) * 262144 + (b1 - 0x80) * 4096 + (b2 - 0x80) * 64 + (b3 - 0x80)
              (if isCont b1 && isCont b2 && isCont b3 && 0x10000 ≤ r && r ≤ 0x10FFFF then some (r, 4) else none)
            else none
          | [] => none
      | [] => none
  | _ => none

/-- UTF-16 encoding of a scalar value -/
def utf16 (r : Nat) : List Nat :=
  if r < 0x10000 then [r] else [0xD800 + (r - 0x10000) / 0x400, 0xDC00 + (r - 0x10000) % 0x400]

/-- what a decoder makes of a surrogate pair -/
def combine (h l : Nat) : Nat := 0x10000 + (h - 0xD800) * 0x400 + (l - 0xDC00)

def simpleEscape (c : Nat) : Option Nat :=
  if c == 34 then some 34 else if c == 92 then some 92 else if c == 47 then some 47
  else if c == 98 then some 8 else if c == 102 then some 12 else if c == 110 then some 10
  else if c == 114 then some 13 else if c == 116 then some 9 else none

/-- one lexer step at byte `b` (followed by `rest`); `next` reads the remainder -/
def unitsStep (next : List Nat → Option (List Nat)) (b : Nat) (rest : List Nat) : Option (List Nat) :=
  if b == 92 then
    match rest with
    | 117 :: h1 :: h2 :: h3 :: h4 :: r =>
      match hexVal h1, hexVal h2, hexVal h3, hexVal h4 with
      | some a, some b', some c, some d => (next r).map ((a * 4096 + b' * 256 + c * 16 + d) :: ·)
      | _, _, _, _ => none
    | c :: r =>
      match simpleEscape c with
      | some u => (next r).map (u :: ·)
      | none => none
    | [] => none
  else if b < 128 then (next rest).map (b :: ·)
  else match utf8Head (b :: rest) with
    | some (r, n) => (next (rest.drop (n - 1))).map (utf16 r ++ ·)
    | none => none

/-- code units of a JSON text; `fuel` bounds the iterations (`units` supplies the length) -/
def unitsF : Nat → List Nat → Option (List Nat)
  | _, [] => some []
  | 0, _ :: _ => none
  | fuel + 1, b :: rest => unitsStep (unitsF fuel) b rest

def units (l : List Nat) : Option (List Nat) := unitsF l.length l

def isASCII (l : List Nat) : Bool := l.all (· < 128)

end Rivaas.RenderSpec

namespace Rivaas.RenderSpec

/-! ### documented shape of each JSON variant's response -/

def bstr (s : String) : Bytes := s.toList

/-- documented body of the byte-exact variants: 0 JSON, 1 IndentedJSON, 2 PureJSON (= what encoding/json
    wrote), 3 SecureJSON (prefix, default `while(1);`, then the JSON), 5 JSONP (`callback(json)`) -/
def exactBody (variant : Nat) (extra : Option Bytes) (enc : Bytes) : Bytes :=
  let pick (dflt : String) : Bytes := match extra with
    | some x => if x == [] then bstr dflt else x
    | none => bstr dflt
  if variant == 3 then pick "while(1);" ++ enc
  else if variant == 5 then pick "callback" ++ bstr "(" ++ enc ++ bstr ")"
  else enc

def contentTypeOf (variant : Nat) : Bytes :=
  if variant == 5 then bstr "application/javascript; charset=utf-8" else bstr "application/json; charset=utf-8"

/-- the oracle for one JSON response. `same` is the harness's verdict "the body (prefix / callback
    stripped) decodes with encoding/json to the value json.Marshal's output decodes to". -/
def jsonOK (variant code : Nat) (extra : Option Bytes) (enc : Bytes)
    (status : Nat) (ctype body : Bytes) (same : Bool) : Bool :=
  status == code && ctype == contentTypeOf variant && same &&
  (if variant == 4 then
     let b := body.map (·.toNat)
     isASCII b && (match units (enc.map (·.toNat)) with
       | some us => units b == some us
       | none => true)
   else body == exactBody variant extra enc)

/-- the oracle for one Stringf response -/
def stringfOK (code : Nat) (preCT format : Bytes) (args : List Arg) (sprintf : Bytes)
    (status : Nat) (ctype body : Bytes) : Bool :=
  status == code && ctype == (if preCT == [] then bstr "text/plain" else preCT) && body == sprintf &&
  (match sprintfRef format args with
   | some x => body == x
   | none => true)

/-- the oracle for one String (0) / HTML (1) / Data (2) response on a fresh response writer: the payload
    as given, the status as given, the documented content type -/
def plainOK (kind code : Nat) (ct text : Bytes) (status : Nat) (ctype body : Bytes) : Bool :=
  status == code && body == text &&
  ctype == (if kind == 0 then bstr "text/plain" else if kind == 1 then bstr "text/html"
            else if kind == 2 then (if ct == [] then bstr "application/octet-stream" else ct)
            else if kind == 5 then ct   -- DataFromReader (5): everything the reader delivers, the content type as given
            else [])   -- SendStatus (3): `text` is the standard status text; NoContent (4): code 204, no body

/-- documented response of `Format` for one representation: JSON as `JSON` sends it, `<p>…</p>` as
    text/html, the one-element XML document as application/xml, the plain `%v` text as text/plain -/
def formatShape (f : String) (code : Nat) (vtext : Bytes) (encOK : Bool) (enc : Bytes)
    (obs : Option (Nat × Bytes × Bytes × Bool)) : Bool :=
  match obs with
  | none => f == "json" && !encOK                       -- an error is reported only when the value cannot be encoded
  | some (status, ctype, body, same) =>
    status == code &&
    (if f == "json" then encOK && ctype == bstr "application/json; charset=utf-8" && body == enc && same
     else if f == "html" then ctype == bstr "text/html" && body == bstr "<p>" ++ vtext ++ bstr "</p>"
     else if f == "xml" then
       ctype == bstr "application/xml" && body == bstr "<?xml version=\"1.0\"?>\n<response>" ++ vtext ++ bstr "</response>"
     else ctype == bstr "text/plain" && body == vtext)

/-- the oracle for `Format`: the response is the documented shape of SOME representation that is an
    admissible answer of the negotiation over json / html / xml / txt (`admissible` is the negotiation
    oracle for the request's Accept header; the empty answer = nothing acceptable = plain text fallback) -/
def formatOK (admissible : Bytes → Bool) (code : Nat) (vtext : Bytes) (encOK : Bool) (enc : Bytes)
    (obs : Option (Nat × Bytes × Bytes × Bool)) : Bool :=
  ["json", "html", "xml", "txt", ""].any fun f =>
    admissible (bstr f) && formatShape (if f == "" then "txt" else f) code vtext encOK enc obs

/-- SetCookie then GetCookie (documented: "sets a cookie with the given name and value", "the value is
    automatically URL-unescaped"): when the cookie line was emitted, the value read back from it on the
    next request is the value that was set -/
def cookieRoundTripOK (emitted : Bool) (value : Bytes) (readBack : List Bytes) : Bool :=
  !emitted || readBack == [value]

/-- no CR, no LF -/
def noCRLF (v : Bytes) : Bool := v.all (fun c => c != '\r' && c != '\n')

end Rivaas.RenderSpec
