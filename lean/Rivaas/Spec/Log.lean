import Rivaas.Model.Log
/-
C20 (redaction half) — the oracle, stated on what was observed in the output, independent of how
any handler is programmed:

  "the values of the documented sensitive keys (password, token, secret, api_key, authorization)
   never appear in the output, for every handler type and every way an attribute can reach a record"

An observation is (a) the `key path = value` pairs parsed back from the bytes the writer received
and (b) for every attribute of the input, whether the distinctive core of its value occurs anywhere
in those bytes. A *sensitive attribute* is a non-group attribute whose own key is in the list
(that is what slog's ReplaceAttr contract and `buildReplaceAttr` speak about; a group whose *name*
happens to be `password` is not an attribute with a value of its own).
-/
namespace Rivaas.Log

mutual
  /-- the non-group attributes of an attribute tree, in order: (own key, value) -/
  def leavesOf : Attr → List (Bytes × Bytes)
    | .leaf k v => [(k, v)]
    | .group _ as => leavesOfAll as
  def leavesOfAll : List Attr → List (Bytes × Bytes)
    | [] => []
    | a :: as => leavesOf a ++ leavesOfAll as
end

def chainLeaves : List ChainOp → List (Bytes × Bytes)
  | [] => []
  | .withAttrs as :: rest => leavesOfAll as ++ chainLeaves rest
  | .withGroup _ :: rest => chainLeaves rest

/-- every attribute that takes part in the log call, whatever its placement -/
def inputLeaves (c : Case) : List (Bytes × Bytes) :=
  leavesOfAll c.root ++ chainLeaves c.chain ++ leavesOfAll c.call

/-- the key an output pair is printed under -/
def Pair.key (p : Pair) : Option Bytes := p.1.getLast?

/-- an output pair printed under a sensitive key shows the marker and nothing else -/
def pairOK (p : Pair) : Bool :=
  match Pair.key p with
  | some k => if k ∈ sensitive then p.2 == redactedVal else true
  | none => true

/-- `occ[i]` = the core of the value of input attribute `i` occurs in the raw output -/
def occOK (leaves : List (Bytes × Bytes)) (occ : List Bool) : Bool :=
  (leaves.zip occ).all fun lo => !(decide (lo.1.1 ∈ sensitive) && lo.2)

/-- the C20 redaction oracle on an observation -/
def specOK (c : Case) (obs : List Pair) (occ : List Bool) : Bool :=
  obs.all pairOK && occOK (inputLeaves c) occ && occ.length == (inputLeaves c).length

end Rivaas.Log
