import Rivaas.Spec.Version
import Rivaas.Model.VersionCfg
/-
C13 — oracle for the configuration step, written from the documentation of the options (not from `NewConfig`):
a configuration is accepted exactly when every option is well-formed; an accepted configuration asks its
detectors in the order of the statement ("custom first, then path, header, query and Accept in configuration
order"), has a non-empty default version (the last `WithDefault`, else `v1`), validates against the last
`WithValidVersions` list, and has exactly the response behaviours that were switched on.
Core Lean only.
-/
namespace Rivaas.Version.Spec
open Rivaas.Version

def hasPlaceholder (p : Bytes) : Bool := (index p versionPlaceholder).isSome

/-- what the doc comment of each option requires of its argument -/
def wellFormed : Opt → Bool
  | .det (.path p) => p != [] && hasPlaceholder p
  | .det (.header n) => n != []
  | .det (.query q) => q != []
  | .det (.accept p) => p != [] && hasPlaceholder p
  | .det (.custom _) => true
  | .customNil => false
  | .dflt v => v != []
  | .valid vs => vs != [] && !vs.contains []
  | .responseHeaders => true | .warning299 => true | .sunsetEnforcement => true | .observer => true | .clock => true

def detOf : Opt → Option DetOpt
  | .det d => some d
  | .customNil => none | .dflt _ => none | .valid _ => none | .responseHeaders => none | .warning299 => none
  | .sunsetEnforcement => none | .observer => none | .clock => none

def methodName : DetOpt → Bytes
  | .path _ => vb!"path" | .header _ => vb!"header" | .query _ => vb!"query"
  | .accept _ => vb!"accept" | .custom _ => vb!"custom"

/-- the value the last option of a kind set, else the initial value -/
def lastOr {α} (f : Opt → Option α) (init : α) (opts : List Opt) : α :=
  ((opts.filterMap f).getLast?).getD init

def cfgSpecOK (opts : List Opt) : CfgObs → Bool
  | .rejected _ => opts.any (fun o => !wellFormed o)
  | .accepted methods dflt valid svh sw enf obs =>
    opts.all wellFormed && dflt != [] &&
    methods == ((detectionOrder ((opts.filterMap detOf).map fun d => (d, ()))).map fun p => methodName p.1) &&
    dflt == lastOr (fun o => match o with | .dflt v => some v | _ => none) (vb!"v1") opts &&
    valid == lastOr (fun o => match o with | .valid vs => some vs | _ => none) [] opts &&
    svh == opts.contains .responseHeaders && sw == opts.contains .warning299 &&
    enf == opts.contains .sunsetEnforcement && obs == opts.contains .observer

end Rivaas.Version.Spec
