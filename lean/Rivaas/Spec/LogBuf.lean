import Rivaas.Model.LogBuf
/-
C20 (buffering half) — the oracle: a monitor that reads an observed event trace left to right, knowing
only the workers' programs. It is independent of how the logger is programmed.

  "Across any interleaving of logging with StartBuffering, FlushBuffer, SetLevel and Shutdown, every
   record accepted while buffering is delivered to the output exactly once by the time FlushBuffer
   returns, and the records of one goroutine are emitted in the order they were logged."

* exactly once / order: a write must be of a record its worker logged, intact (with the attributes it
  was logged with), and its sequence number must exceed every sequence number of that worker written
  before (hence no record twice);
* delivered by the time FlushBuffer returns: a log call that had returned before a FlushBuffer call
  began, was accepted (its level was enabled and the logger not shut down when the call began) and
  whose write the environment did not fail, has been written when that FlushBuffer returns.
A record logged through a derived `slog.Logger` after `Shutdown` may or may not be written (the
statement does not say), so it is never *required*. A record logged through a stale `slog.Logger`
(obtained with `Logger()` right after construction, before `StartBuffering`) is accepted by the level
that logger was built with (Info; `SetLevel` and `Shutdown` do not reach it) and is then required
like any other. The order and exactly-once clauses apply to everything that is written.
-/
namespace Rivaas.LogBuf

def opAt (progs : List (List Op)) (g i : Nat) : Option Op := (progs[g]?).bind (·[i]?)

def loggedSeqs (progs : List (List Op)) (g : Nat) : List Nat :=
  (progs[g]?.getD []).filterMap fun op => match op with | .log c => some c.seq | _ => none

/-! ### exactly once, in order, genuine -/

/-- state of the order monitor: (worker, seq) written so far (latest first), verdict so far -/
structure OMon where
  written : List (Nat × Nat) := []
  ok : Bool := true
  deriving Repr

def oStep (progs : List (List Op)) (m : OMon) : Ev → OMon
  | .write g seq intact =>
    { written := (g, seq) :: m.written,
      ok := m.ok && intact && (loggedSeqs progs g).contains seq &&
            m.written.all fun w => !(w.1 == g) || decide (w.2 < seq) }
  | _ => m

def orderMonitor (progs : List (List Op)) (tr : List Ev) : OMon := tr.foldl (oStep progs) {}

/-! ### delivered by the time FlushBuffer returns -/

structure DMon where
  /-- the logger's level and shutdown flag as the trace implies them -/
  level : Nat := 1
  shutdown : Bool := false
  /-- log calls that have begun and not returned: (worker, op index, must be delivered) -/
  inCall : List (Nat × Nat × Bool) := []
  /-- (worker, seq) of the calls that have returned and must be delivered -/
  returned : List (Nat × Nat) := []
  /-- (worker, seq) written so far -/
  written : List (Nat × Nat) := []
  /-- FlushBuffer calls in progress: (worker, op index, `returned` when the call began) -/
  flushes : List (Nat × Nat × List (Nat × Nat)) := []
  ok : Bool := true
  deriving Repr

/-- must the record of this call be delivered, given the logger state when the call began -/
def mustDeliver (level : Nat) (shutdown : Bool) (c : LogCall) : Bool :=
  (bif c.stale then decide (1 ≤ c.lvl) else decide (level ≤ c.lvl) && !shutdown) && !c.fail

def dStep (custom : Bool) (progs : List (List Op)) (m : DMon) : Ev → DMon
  | .begin g i =>
    match opAt progs g i with
    | some (.log c) => { m with inCall := (g, i, mustDeliver m.level m.shutdown c) :: m.inCall }
    | some (.setLevel l) => if custom then m else { m with level := l }
    | some .shutdown => { m with shutdown := true }
    | some .flush => { m with flushes := (g, i, m.returned) :: m.flushes }
    | _ => m
  | .done g i =>
    match opAt progs g i with
    | some (.log c) =>
      let must := m.inCall.any fun x => x.1 == g && x.2.1 == i && x.2.2
      { m with inCall := m.inCall.filter (fun x => !(x.1 == g && x.2.1 == i)),
               returned := if must then (g, c.seq) :: m.returned else m.returned }
    | some .flush =>
      let snaps := m.flushes.filter fun x => x.1 == g && x.2.1 == i
      { m with flushes := m.flushes.filter (fun x => !(x.1 == g && x.2.1 == i)),
               ok := m.ok && snaps.all fun x => x.2.2.all fun gs => m.written.contains gs }
    | _ => m
  | .write g seq _ => { m with written := (g, seq) :: m.written }

def deliveryMonitor (custom : Bool) (progs : List (List Op)) (tr : List Ev) : DMon :=
  tr.foldl (dStep custom progs) {}

/-- exclusion predicate of the recorded finding K20f, stated on the input: some worker logs through a
    `slog.Logger` it obtained before `StartBuffering` -/
def hasStale (progs : List (List Op)) : Bool :=
  progs.any fun p => p.any fun op => match op with | .log c => c.stale | _ => false

/-- the C20 buffering oracle -/
def specOK (custom : Bool) (progs : List (List Op)) (tr : List Ev) : Bool :=
  (orderMonitor progs tr).ok && (deliveryMonitor custom progs tr).ok

/-! ### stress histories (no conductor): the end-state reading of the same clauses

After all loggers have stopped and a final `FlushBuffer` has returned, the output of goroutine `g`, which
logged `n` accepted records, must be 0, 1, …, n-1: each exactly once, in order, none missing. The harness
ships the output run-length encoded: maximal stretches `(start, len)` of consecutive sequence numbers. -/

def expandRuns : List (Nat × Nat) → List Nat
  | [] => []
  | (start, len) :: rest => (List.range len).map (start + ·) ++ expandRuns rest

def stressOK (logged : List Nat) (runs : List (List (Nat × Nat))) : Bool :=
  logged.length == runs.length &&
  (logged.zip runs).all fun nr => if nr.1 == 0 then nr.2.isEmpty else nr.2 == [(0, nr.1)]

/-- what the repaired logger must produce -/
def stressExpected (logged : List Nat) : List (List (Nat × Nat)) :=
  logged.map fun n => if n == 0 then [] else [(0, n)]

end Rivaas.LogBuf
