import Rivaas.Model.RouteBase
/-
Declarative oracle for C01 (and the pattern vocabulary reused by C11): the segment-wise reference
matcher with static > parameter > wildcard priority. Written from the property statement, not from the
code: no tree, no descent, no parameter slots — a route set is a list, a match is a structural
comparison of a pattern with the path's segments, the winner is a maximum of a priority order.

Core Lean only.
-/
namespace Rivaas.Match
open Rivaas.Route

/-! ### patterns -/

inductive PSeg where
  | lit (s : Bytes)
  | par (n : Bytes)
  | wild
deriving DecidableEq, Repr

abbrev Pat := List PSeg

/-- the name under which a trailing `*` hands the rest of the path to the handler -/
def wildName : Bytes := "filepath".toList

def splitOnSlash : Bytes → List Bytes
  | [] => [[]]
  | c :: cs =>
    if c = '/' then [] :: splitOnSlash cs
    else match splitOnSlash cs with
      | [] => [[c]]
      | h :: t => (c :: h) :: t

def joinSlash : List Bytes → Bytes
  | [] => []
  | [a] => a
  | a :: b :: rest => a ++ '/' :: joinSlash (b :: rest)

def parseSeg (seg : Bytes) : Option PSeg :=
  match seg with
  | [] => none
  | ['*'] => some PSeg.wild
  | ':' :: n => if n = [] ∨ n.contains ':' ∨ n.contains '*' then none else some (PSeg.par n)
  | _ => if seg.contains ':' ∨ seg.contains '*' then none else some (PSeg.lit seg)

def parseSegs : List Bytes → Option Pat
  | [] => some []
  | s :: rest => do
    let a ← parseSeg s
    let r ← parseSegs rest
    pure (a :: r)

def wildOnlyLast : Pat → Bool
  | [] => true
  | [_] => true
  | a :: rest => a ≠ PSeg.wild && wildOnlyLast rest

def parNames : Pat → List Bytes
  | [] => []
  | PSeg.par n :: rest => n :: parNames rest
  | _ :: rest => parNames rest

/-- every name the pattern declares: its parameters and, for a trailing `*`, `filepath` -/
def declNames (p : Pat) : List Bytes :=
  parNames p ++ (if p.getLast? = some PSeg.wild then [wildName] else [])

def distinct : List Bytes → Bool
  | [] => true
  | a :: rest => !rest.contains a && distinct rest

/-- A pattern in the domain the property speaks about: starts with `/`, no empty segment (so no
trailing slash except the root itself), `*` only as the whole last segment, `:name` with a non-empty
name, no other `:` or `*`, parameter names distinct. `none` = outside that domain. -/
def parsePattern (text : Bytes) : Option Pat :=
  match text with
  | ['/'] => some []
  | '/' :: rest =>
    match parseSegs (splitOnSlash rest) with
    | some p => if wildOnlyLast p ∧ distinct (declNames p) then some p else none
    | none => none
  | _ => none

def renderSeg : PSeg → Bytes
  | .lit s => s
  | .par n => ':' :: n
  | .wild => ['*']

def render (p : Pat) : Bytes := '/' :: joinSlash (p.map renderSeg)

/-- A request path in the domain: starts with `/`, no empty segment; `some []` is the root. -/
def parseCanonical (path : Bytes) : Option (List Bytes) :=
  match path with
  | ['/'] => some []
  | '/' :: rest =>
    let segs := splitOnSlash rest
    if segs.all (· ≠ []) then some segs else none
  | _ => none

/-- a request path as the matcher sees it: the text between the slashes (leading slash dropped), and
whether the path ends in a slash (the empty text after it is not a segment) -/
structure RPath where
  segs : List Bytes
  trail : Bool
deriving DecidableEq, Repr

/-- Any request path cut at slashes. Segments may be empty here (`/a//b`); `/` and the empty path are
the root. For a canonical path this is `⟨parseCanonical path, false⟩`. -/
def cutAny (path : Bytes) : RPath :=
  if path = ['/'] ∨ path = [] then ⟨[], false⟩
  else
    let rest := match path with
      | '/' :: r => r
      | _ => path
    let segs := splitOnSlash rest
    if segs.getLast? = some [] then ⟨segs.dropLast, true⟩ else ⟨segs, false⟩

/-! ### matching -/

/-- Does the pattern match the segments, and with which bindings (in pattern order)?
A literal matches the equal segment, a parameter any one segment, a trailing wildcard one or more
remaining segments (bound to `filepath` as the rest of the path text, a trailing slash included).
A path that ends in a slash is matched by wildcard patterns only. -/
def matchPat (trail : Bool) : Pat → List Bytes → Option (List (Bytes × Bytes))
  | [], [] => if trail then none else some []
  | [PSeg.wild], x :: xs => some [(wildName, joinSlash (x :: xs) ++ (if trail then ['/'] else []))]
  | PSeg.lit s :: pt, x :: xs => if s = x then matchPat trail pt xs else none
  | PSeg.par n :: pt, x :: xs => (matchPat trail pt xs).map ((n, x) :: ·)
  | _, _ => none

def bindGet (n : Bytes) : List (Bytes × Bytes) → Option Bytes
  | [] => none
  | (k, v) :: rest => if k = n then some v else bindGet n rest

/-- a registered route; `cons` are (parameter name, constraint id), `rid` names its handler chain -/
structure Route where
  method : Bytes
  text : Bytes
  pat : Pat
  cons : List (Bytes × Nat)
  rid : Nat
deriving DecidableEq, Repr

/-- the pattern text a registration stands for: the plain concatenation of the group prefixes and the path;
for a route of a mounted sub-router the mount prefix — without its trailing slash, with a leading slash —
followed by that text, the sub-router's root route `/` being the prefix itself -/
def regText (g : Reg) : Bytes :=
  let sub := g.groups.foldr (· ++ ·) g.path
  match g.mount with
  | none => sub
  | some pre =>
    let p := if pre.getLast? = some '/' then pre.dropLast else pre
    let p := if p.head? = some '/' then p else '/' :: p
    if sub = ['/'] then p else p ++ sub

/-- The registered routes as the oracle reads the script: route `i` is registration `i`, its pattern
text is `regText`, parsed by `parsePattern`.
`none` when some pattern is outside the vocabulary of the property. -/
def specRoutesFrom : Nat → List Reg → Option (List Route)
  | _, [] => some []
  | i, g :: gs =>
    let text := regText g
    match parsePattern text, specRoutesFrom (i + 1) gs with
    | some p, some rest => some ({ method := g.method, text := text, pat := p, cons := g.cons, rid := i } :: rest)
    | _, _ => none

def specRoutes (script : List Reg) : Option (List Route) := specRoutesFrom 0 script

/-- every constraint of the route accepts the value bound to its parameter -/
def consOK (sat : Nat → Bytes → Bool) (cons : List (Bytes × Nat)) (b : List (Bytes × Bytes)) : Bool :=
  cons.all fun (n, cid) =>
    match bindGet n b with
    | some v => sat cid v
    | none => false

/-- the route matches the path: pattern and constraints ("constraints are part of matching") -/
def routeMatch (sat : Nat → Bytes → Bool) (r : Route) (p : RPath) : Option (List (Bytes × Bytes)) :=
  match matchPat p.trail r.pat p.segs with
  | some b => if consOK sat r.cons b then some b else none
  | none => none

def kind : PSeg → Nat
  | .lit _ => 3
  | .par _ => 2
  | .wild => 1

/-- `better a b`: at the first segment where the two patterns differ in kind, `a` has the stronger
one (static over parameter over wildcard) -/
def better : Pat → Pat → Bool
  | a :: as, b :: bs => if kind a = kind b then better as bs else kind b < kind a
  | _, _ => false

/-- candidates: routes of the method that match -/
def cands (sat : Nat → Bytes → Bool) (R : List Route) (m : Bytes) (p : RPath) : List Route :=
  R.filter fun r => r.method = m ∧ (routeMatch sat r p).isSome

/-- the reference choice: a candidate no other candidate beats; among equals the last registered
(the statement leaves that choice open, `admissible` below admits all of them) -/
def pick : Option Route → List Route → Option Route
  | cur, [] => cur
  | none, r :: rest => pick (some r) rest
  | some c, r :: rest => if better c.pat r.pat then pick (some c) rest else pick (some r) rest

def refRoute (sat : Nat → Bytes → Bool) (R : List Route) (m : Bytes) (p : RPath) : Option Route :=
  pick none (cands sat R m p)

/-- methods (of the standard seven) that have a matching route -/
def allowedSet (sat : Nat → Bytes → Bool) (R : List Route) (p : RPath) : List Bytes :=
  stdMethods.filter fun m => (cands sat R m p) ≠ []

def lookupAsk (b : List (Bytes × Bytes)) (ask : List Bytes) : List (Bytes × Bytes) :=
  ask.map fun n => (n, (bindGet n b).getD [])

/-- the reference outcome as an observation (deterministic: last registered among equals, sorted
`Allow`, NoRoute handler answering 404 when one is installed) -/
def refMatch (sat : Nat → Bytes → Bool) (noRoute : Bool) (R : List Route) (req : Req) (p : RPath) : Obs :=
  match refRoute sat R req.method p with
  | some r =>
    let b := (routeMatch sat r p).getD []
    { status := 200, allow := [], ran := some r.rid, noRoute := false, pattern := r.text,
      params := SMap.ofList b, lookups := lookupAsk b req.ask }
  | none =>
    let al := allowedSet sat R p
    if al ≠ [] then
      { status := 405, allow := sortBytes al, ran := none, noRoute := false, pattern := [], params := [], lookups := [] }
    else if noRoute then
      { status := 404, allow := [], ran := none, noRoute := true, pattern := "_not_found".toList,
        params := [], lookups := lookupAsk [] req.ask }
    else
      { status := 404, allow := [], ran := none, noRoute := false, pattern := [], params := [], lookups := [] }

/-! ### the oracle as a relation on what was observed -/

/-- `r` is an admissible answer: a candidate that no candidate beats -/
def admissible (sat : Nat → Bytes → Bool) (R : List Route) (m : Bytes) (p : RPath) (r : Route) : Bool :=
  let C := cands sat R m p
  C.contains r && C.all fun c => !better c.pat r.pat

/-- the handler reads, under every name its own pattern declares, the corresponding segment -/
def readsOwn (b : List (Bytes × Bytes)) (o : Obs) : Bool :=
  b.all fun (n, v) =>
    SMap.get n o.params = some v &&
    (match bindGet n o.lookups with
     | some v' => v' = v
     | none => true)            -- the case did not ask for this name

def sameSet (a b : List Bytes) : Bool := a.all (b.contains ·) && b.all (a.contains ·)

/-- C01 on a canonical path: what the statement demands of the observation, nothing more.
* some candidate exists: the chain that ran belongs to an admissible route and reads its own bindings;
* none: no route handler ran; 405 with exactly the matching methods in `Allow` when there are any,
  otherwise 404 or the NoRoute handler. -/
def specOK (sat : Nat → Bytes → Bool) (R : List Route) (req : Req) (p : RPath) (o : Obs) : Bool :=
  if cands sat R req.method p ≠ [] then
    match o.ran with
    | some rid =>
      R.any fun r => r.rid = rid && admissible sat R req.method p r &&
        readsOwn ((routeMatch sat r p).getD []) o
    | none => false
  else
    o.ran.isNone &&
    (let al := allowedSet sat R p
     if al ≠ [] then o.status = 405 && sameSet o.allow al
     else o.status = 404 || o.noRoute)

/-- Outside the canonical domain the statement does not fix whether an empty segment may bind a
parameter, so only soundness is demanded: a route handler that ran belongs to a route of the request
method whose pattern matches the path cut at slashes (constraints not examined). -/
def soundOK (R : List Route) (req : Req) (o : Obs) : Bool :=
  match o.ran with
  | some rid =>
    let p := cutAny req.path
    R.any fun r => r.rid = rid && r.method = req.method && (matchPat p.trail r.pat p.segs).isSome
  | none => true

end Rivaas.Match
