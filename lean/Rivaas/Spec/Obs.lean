import Rivaas.Model.Serve
/-
C08 oracle, written against what was *observed* for one request (the counting recorder's log, what the
client received, what the writer handed to the end callback reports) — independent of the model of
ServeHTTP. It only shares the event vocabulary (`MEv`) with the model. Core Lean only.
-/
namespace Rivaas.Obs
open Rivaas.Serve

/-- observation of one request -/
structure Seen where
  log : List MEv
  status : Nat                 -- what the client received
  size : Nat
  recd : Option (Nat × Nat)    -- StatusCode()/Size() of the writer passed to OnRequestEnd, read inside the callback
  deriving DecidableEq, Repr

def isStart : MEv → Bool | .start _ => true | _ => false
def isWrap : MEv → Bool | .wrap => true | _ => false
def isEnd : MEv → Bool | .endCb .. => true | _ => false

/-- the fixed sentinels of router/router.go and router/serve.go -/
def sentinels : List Bytes := ["_not_found".toList, "_method_not_allowed".toList, "_unmatched".toList]

def labelOK (patterns : List Bytes) (l : Bytes) : Bool := patterns.contains l || sentinels.contains l

/-- The statement of C08 for one request.
    `obs`: a recorder is installed; `live`: it did not exclude the request (returned a non-nil state).
    * not installed: no callback at all;
    * installed: exactly one start, first; it reports the state the recorder chose;
    * excluded: no wrap, no end;
    * live: exactly one wrap right after the start, exactly one end, the end is the LAST event (after every
      handler: the response is complete), its label is a registered pattern or a sentinel, it received the wrapped
      writer, and the status/size that writer reports equal what the client received. -/
def specOK (obs live : Bool) (patterns : List Bytes) (s : Seen) : Bool :=
  if !obs then
    s.log.all (fun e => !isStart e && !isWrap e && !isEnd e) && s.recd.isNone
  else
    (s.log.filter isStart).length == 1 && s.log.head? == some (MEv.start live) &&
    (if !live then
      s.log.all (fun e => !isWrap e && !isEnd e) && s.recd.isNone
    else
      (s.log.filter isWrap).length == 1 && (s.log.drop 1).head? == some MEv.wrap &&
      (s.log.filter isEnd).length == 1 &&
      (match s.log.getLast? with
       | some (.endCb l wrapped) => wrapped && labelOK patterns l
       | _ => false) &&
      s.recd == some (s.status, s.size))

/-! ### history level: what a recorder like app/observability.go derives from the callbacks -/

/-- spans started / ended and the active-requests up-down counter -/
structure Tele where
  started : Nat := 0
  ended : Nat := 0
  active : Int := 0
  deriving DecidableEq, Repr

def Tele.step (t : Tele) : MEv → Tele
  | .start true => { t with started := t.started + 1, active := t.active + 1 }
  | .endCb .. => { t with ended := t.ended + 1, active := t.active - 1 }
  | _ => t

def Tele.run (t : Tele) (log : List MEv) : Tele := log.foldl Tele.step t

/-- idle server: every started span ended, gauge back at zero -/
def Tele.quiescent (t : Tele) : Bool := t.started == t.ended && t.active == 0

end Rivaas.Obs
