import Rivaas.Spec.MatchClass
/-
Decidable classifiers of the recorded C11 findings. The oracle of C11 is "the engine with route
compilation answers exactly like the plain tree engine"; a request on which the two differ is
attributed to a recorded finding only through one of these predicates, each stated on the route set,
the request and the reference matcher (Spec/Match) — not on either engine model.

Core Lean only.
-/
namespace Rivaas.Match
open Rivaas.Route

/-- routes the compiled matcher keeps in its dynamic list: at least one parameter, no wildcard -/
def compiledDyn (r : Route) : Bool := !isStaticPat r.pat && r.pat.getLast? != some PSeg.wild

/-- K11a: some route the compiled matcher can select (it scans parameter routes by number of static
segments, then registration order, and stops at the first match) matches the request without being
an answer the reference admits — another matching route beats it segment-wise (possibly a wildcard
route, which the compiler leaves to the tree) -/
def dOrder1 (sat : Nat → Bytes → Bool) (R : List Route) (m : Bytes) (p : RPath) : Bool :=
  R.any fun r => r.method = m && compiledDyn r && (routeMatch sat r p).isSome && !admissible sat R m p r

/- K11e (class `undeclared`): some route carries a constraint on a name its pattern does not declare
(`normal R` fails): the tree then never matches that route, the compiled matcher ignores the constraint.
K11d (two constraints on one parameter) and K11f (white space trimmed by `CompileRoute` only) were
repaired (6caf0d2, 59d7821) and are no longer classes. -/

/-- every pattern is in the vocabulary (constraints unrestricted) -/
def patternsOK (R : List Route) : Bool := R.all fun r => parsePattern r.text = some r.pat

/-- the class token for a request on which the two engines differ. The compiled tables only serve the
request's own method; the 404/405 tail is shared code. `overwrite` is K01c seen through the comparison: another
route has the shape of the route the reference selects — under another pattern text (two compiled templates,
one tree leaf) or registered later (the tree leaf was replaced). The tree-side classes `names` (K01a), `shadow`
(K01b) and `cfall` (K01f) went with their repairs: the tree engine now is the reference outside `overwrite`. -/
def classify11 (sat : Nat → Bytes → Bool) (R : List Route) (req : Req) (p : RPath) : String :=
  let m := req.method
  if !normal R then "undeclared"
  else if dSameShape1 sat R m p || dReplaced1 sat R m p then "overwrite"
  else if dOrder1 sat R m p then "order"
  else "-"

end Rivaas.Match
