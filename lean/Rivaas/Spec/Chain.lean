import Rivaas.Model.Chain
/-
C02 — the oracle for chain *execution*: a small reference interpreter of the chain semantics,
structurally recursive on the **suffix** of the chain. No index, no stack, no fuel — it shares only
the vocabulary (`Act`, `Prog`, `Ev`, `Chunk`, `Cfg.check`) with the machine of `Model/Chain.lean`.

For `h :: rest`: record `enter`, perform `h`'s acts; the first `Next()` (when the chain is neither
aborted nor cancelled) splices in the whole run of `rest` and marks the suffix consumed, later
`Next()`s are no-ops; record `exit`; if the suffix was never consumed and the chain is neither
aborted nor cancelled, continue with `rest` (a handler that returns without `Next` does not stop
the chain — that is what `Context.Next`'s loop does). A panic propagates outwards through plain
handlers (`unwound`) to the nearest handler with a deferred `recover`, which answers 500, aborts
the chain and returns normally; with no such handler it leaves `ServeHTTP`.
-/
namespace Rivaas.Chain

structure RS where
  aborted : Bool := false
  cancelled : Bool := false
  trace : List Ev := []
  status : Option Chunk := none
  body : List Chunk := []
  deriving Repr, DecidableEq, Inhabited

def RS.emit (s : RS) (e : Ev) : RS := { s with trace := s.trace ++ [e] }
def RS.write (s : RS) (c : Chunk) : RS := { s with status := s.status.or (some c), body := s.body ++ [c] }
def RS.stopped (check : Bool) (s : RS) : Bool := s.aborted || (check && s.cancelled)

/-- The acts of one function body at position `k`. `nextK` is the meaning of "run the rest of the
    chain"; `c` says whether this handler has already called `Next()`. Result: state, consumed
    flag, and the panic value if the body was left by a panic. -/
def refActs (k : Nat) (nextK : RS → RS × Option Nat) : List Act → Bool → RS → RS × Bool × Option Nat
  | [], c, s => (s, c, none)
  | .ret :: _, c, s => (s, c, none)
  | .abort :: as, c, s => refActs k nextK as c { s with aborted := true }
  | .cancel :: as, c, s => refActs k nextK as c { s with cancelled := true }
  | .write :: as, c, s => refActs k nextK as c (s.write (Chunk.h k))
  | .panic v :: _, c, s => (s, c, some v)
  | .call b :: as, c, s =>
    match refActs k nextK b c s with
    | (s1, c1, some v) => (s1, c1, some v)
    | (s1, c1, none) => refActs k nextK as c1 s1
  | .next :: as, c, s =>
    if c then refActs k nextK as c s
    else
      match nextK s with
      | (s1, some v) => (s1, true, some v)
      | (s1, none) => refActs k nextK as true s1

/-- run the chain suffix whose first element sits at position `k` -/
def refChain (check : Bool) (k : Nat) : List Prog → RS → RS × Option Nat
  | [], s => (s, none)
  | h :: rest, s =>
    if s.stopped check then (s, none)
    else
      match refActs k (refChain check (k+1) rest) h.acts false (s.emit (.enter k)) with
      | (s1, _, some v) =>
        if h.recovers then ((({ s1 with aborted := true }).write Chunk.rec500).emit (.exit k), none)
        else (s1.emit (.unwound k), some v)
      | (s1, c, none) =>
        let s2 := s1.emit (.exit k)
        if c then (s2, none) else refChain check (k+1) rest s2

/-- what the reference semantics says about a whole request -/
def ref (check : Bool) (progs : List Prog) : RS × Option Nat := refChain check 0 progs {}

end Rivaas.Chain
