import Rivaas.Model.HttpBase
/-
C15 oracle, written against the *observations* (what a client and the handler can see), not against
the middleware's state machine:

  * `transparentObs` — same status, same headers apart from Content-Encoding / Content-Length /
    Vary, and the body decoded according to its Content-Encoding is the body of the run without
    the middleware;
  * `writeContract` — every `Write` the handler made returned `(len p, nil)` or an error with
    `n ≤ len p` (io.Writer), every `io.Copy` either copied everything or reported an error;
  * `Listed` — token-level reading of Accept-Encoding (RFC 9110 §12.5.3): the coding is named by an
    element of the comma-separated list whose weight is not zero, or it is not named at all and a
    `*` element with non-zero weight is present.  Where the grammar leaves the reading open
    (malformed weights, repeated elements, repeated `q` parameters) the relation admits every
    reading: only a syntactically valid zero weight (`0`, `0.`, `0.0`, `0.00`, `0.000`) refuses.

Uses only the header-map helpers and the `Op`/`WOut` vocabulary of `Model/HttpBase`; nothing of the
compressWriter model.  Core Lean only.
-/
namespace Rivaas.CompressSpec
open Rivaas.Http

/-! ### Accept-Encoding at token level -/

def lowerC (c : Char) : Char := if 'A' ≤ c ∧ c ≤ 'Z' then Char.ofNat (c.toNat + 32) else c

/-- split at every occurrence of the separator (like strings.Split: n separators give n+1 fields) -/
def splitOnC (sep : Char) : Bytes → List Bytes
  | [] => [[]]
  | c :: cs =>
    match splitOnC sep cs with
    | [] => [[]]          -- unreachable
    | f :: fs => if c == sep then [] :: f :: fs else (c :: f) :: fs

def isOWS (c : Char) : Bool := c == ' ' || c == '\t'
def trimOWS (s : Bytes) : Bytes := ((s.dropWhile isOWS).reverse.dropWhile isOWS).reverse

/-- the coding an element names, lower-cased -/
def elemCoding (el : Bytes) : Bytes := (trimOWS (el.takeWhile (· != ';'))).map lowerC

/-- the parameters `name=value` of an element (name lower-cased, both trimmed) -/
def elemParams (el : Bytes) : List (Bytes × Bytes) :=
  ((splitOnC ';' el).drop 1).map fun p =>
    ((trimOWS (p.takeWhile (· != '='))).map lowerC, trimOWS ((p.dropWhile (· != '=')).drop 1))

/-- a syntactically valid qvalue that is zero -/
def isZeroQ (v : Bytes) : Bool :=
  match v with
  | ['0'] => true
  | '0' :: '.' :: ds => ds.length ≤ 3 && ds.all (· == '0')
  | _ => false

/-- the element refuses its coding: it carries weights and every one of them is a valid zero -/
def elemRefused (el : Bytes) : Bool :=
  let qs := (elemParams el).filter (fun nv => nv.1 == ['q'])
  !qs.isEmpty && qs.all (fun nv => isZeroQ nv.2)

/-- the client lists coding `e` (lower case) with non-zero quality -/
def listed (e ae : Bytes) : Bool :=
  let els := splitOnC ',' ae
  els.any (fun el => elemCoding el == e && !elemRefused el) ||
    (els.all (fun el => elemCoding el != e) && els.any (fun el => elemCoding el == ['*'] && !elemRefused el))

/-! ### transparency on observed responses -/

/-- an observed response: status, headers (Date / Content-Length not recorded), the body after
    decoding by its Content-Encoding (`none`: not decodable) -/
structure Obs where
  status : Nat
  hdrs : Hdrs
  trailers : Hdrs := []       -- header fields received after the body
  decoded : Option Bytes
  deriving Repr

def strip3 (h : Hdrs) : Hdrs := hdel (hdel (hdel h kCE) kCL) kVary

def transparentObs (plain w : Obs) : Bool :=
  w.status == plain.status && heq (strip3 w.hdrs) (strip3 plain.hdrs) &&
    heq (strip3 w.trailers) (strip3 plain.trailers) &&
    w.decoded.isSome && w.decoded == plain.decoded

/-- the encoding clause: the middleware's Content-Encoding is one the client lists -/
def encodingOK (ae : Bytes) (plain w : Obs) : Bool :=
  let ce := hfirst w.hdrs kCE
  ce == hfirst plain.hdrs kCE || listed (ce.map lowerC) ae

/-! ### io.Writer contract on what the handler saw -/

/-- observed result of a write-like call: `flag` 0 = not observed, 1 = (n, err), 2 = only whether err is nil -/
structure OutObs where
  flag : Nat
  n : Nat
  err : Err
  deriving Repr

def writeLens : List Op → List Nat
  | [] => []
  | .write d :: os => d.length :: writeLens os
  | .copy cs :: os => (cs.map List.length).sum :: writeLens os
  | _ :: os => writeLens os

/-- `(len p, nil)` or (`err ≠ nil` and `n ≤ len p`) -/
def outOK (len : Nat) (o : OutObs) : Bool :=
  o.flag != 1 || (o.err == .ok && o.n == len) || (o.err != .ok && o.n ≤ len)

def writeContract : List Nat → List OutObs → Bool
  | _, [] => true
  | [], _ :: _ => false
  | l :: ls, o :: os => outOK l o && writeContract ls os

/-- the io.Writer contract on raw results `(len p, n, err = nil)` — for writes whose underlying writer fails, where
    no model of the exchange exists: `0 ≤ n ≤ len p`, and a short count comes with an error -/
def writeContractRaw (outs : List (Nat × Int × Bool)) : Bool :=
  outs.all fun o => decide (0 ≤ o.2.1) && decide (o.2.1 ≤ (o.1 : Int)) && (!o.2.2 || o.2.1 == (o.1 : Int))

/-! ### exclusion classes of the open findings (K15m, K15p) -/

def isPrefixTrailerSet : Op → Bool
  | .setH k _ => startsWith trailerPrefix k
  | _ => false
def isTrailerAnnounce : Op → Bool
  | .setH k _ => k == kTrailer
  | _ => false

/-- the handler sends a trailer through `http.TrailerPrefix` without ever announcing a `Trailer`:
    whether net/http can deliver it depends on the size of the body on the wire -/
def prefixTrailerUnannounced (ops : List Op) : Bool :=
  ops.any isPrefixTrailerSet && !ops.any isTrailerAnnounce


def isPanicOp : Op → Bool
  | .panic => true
  | _ => false

/-- the handler writes, copies or flushes and panics afterwards: behind `[recovery, compression]`
    the recovery middleware's error body then follows a finished compressed stream -/
def panicMidstream : List Op → Bool
  | [] => false
  | .write _ :: os => os.any isPanicOp
  | .copy _ :: os => os.any isPanicOp
  | .flush :: os => os.any isPanicOp
  | _ :: os => panicMidstream os

/-- a middleware in front of the compression middleware has committed the response (final status, body bytes, a flush)
    or panicked before the chain went on: class of the open finding K15r -/
def preCommits (pre : List Op) : Bool :=
  pre.any fun o => match o with
    | .writeHeader c => !informational c
    | .write _ => true
    | .copy _ => true
    | .flush => true
    | .panic => true
    | _ => false

end Rivaas.CompressSpec
