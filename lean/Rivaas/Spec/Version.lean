import Rivaas.Model.Version
/-
C13 — the property's oracle, written from the statement and not from the code:

* the *standard parsers* the statement refers to (`net/url.ParseQuery` semantics for the query
  string; media ranges split on `,`, parameters on `;`, optional white space trimmed for Accept) —
  the query parser is itself compared with Go's `url.Values` on every case by the driver;
* version selection: first candidate, in the order "custom detectors first, then the others in
  configuration order", that the valid-versions list accepts, else the default;
* which tree, which routing path, what `Version()` reports, 410, lifecycle headers.

It shares with the model only the data types (`Cfg`, `Route`, `Req`, `Obs`) and `List` itself.
Core Lean only.
-/
namespace Rivaas.Version.Spec
open Rivaas.Version

/-! ### standard parsing of a query string (`url.ParseQuery`, errors skipped as `URL.Query` does) -/

def hexv (c : Char) : Option Nat :=
  if '0' ≤ c ∧ c ≤ '9' then some (c.toNat - '0'.toNat)
  else if 'a' ≤ c ∧ c ≤ 'f' then some (c.toNat - 'a'.toNat + 10)
  else if 'A' ≤ c ∧ c ≤ 'F' then some (c.toNat - 'A'.toNat + 10)
  else none

/-- `url.QueryUnescape`: `%XX` is a byte, `+` is a space, a malformed escape is an error -/
def queryUnescape : Bytes → Option Bytes
  | [] => some []
  | c :: rest =>
    if c = '%' then
      match rest with
      | a :: b :: rest' =>
        match hexv a, hexv b, queryUnescape rest' with
        | some x, some y, some r => some (Char.ofNat (x * 16 + y) :: r)
        | _, _, _ => none
      | _ => none
    else if c = '+' then (queryUnescape rest).map (' ' :: ·)
    else (queryUnescape rest).map (c :: ·)

def splitStep (sep c : Char) (acc : List Bytes) : List Bytes :=
  if c = sep then [] :: acc
  else match acc with
    | [] => [[c]]
    | h :: t => (c :: h) :: t

/-- the pieces between occurrences of `sep` -/
def splitOn (sep : Char) (l : Bytes) : List Bytes := l.foldr (splitStep sep) [[]]

/-- decoded `(key, value)` pairs in order; a pair with `;`, an empty pair or a bad escape is dropped -/
def queryPairs (raw : Bytes) : List (Bytes × Bytes) :=
  (splitOn '&' raw).filterMap fun kv =>
    if kv.contains ';' then none
    else if kv = [] then none
    else
      let k := kv.takeWhile (· != '=')
      let v := (kv.dropWhile (· != '=')).drop 1
      match queryUnescape k, queryUnescape v with
      | some k', some v' => some (k', v')
      | _, _ => none

/-- first value of the decoded key, if the key occurs -/
def queryFirst (raw key : Bytes) : Option Bytes :=
  ((queryPairs raw).find? (fun p => p.1 == key)).map (·.2)

/-! ### standard parsing of an Accept header -/

def isOWS (c : Char) : Bool := c = ' ' || c = '\t'

def trimOWS (l : Bytes) : Bytes := ((l.dropWhile isOWS).reverse.dropWhile isOWS).reverse

/-- the media types of the header's media ranges, left to right, parameters removed -/
def mediaTypes (accept : Bytes) : List Bytes :=
  (splitOn ',' accept).map fun range => trimOWS (range.takeWhile (· != ';'))

/-- the `v` with `mt = pfx ++ v ++ sfx`, when there is a non-empty one (lengths fix the only candidate) -/
def middle (pfx sfx mt : Bytes) : Option Bytes :=
  let v := (mt.drop pfx.length).take (mt.length - pfx.length - sfx.length)
  if mt = pfx ++ v ++ sfx ∧ v ≠ [] then some v else none

/-- pattern `pfx{version}sfx`: the version named by the first media type of that shape -/
def acceptVersion (pattern accept : Bytes) : Option Bytes :=
  match index pattern versionPlaceholder with
  | none => none
  | some i => (mediaTypes accept).findSome? (middle (pattern.take i) (pattern.drop (i + versionPlaceholder.length)))

/-! ### path patterns -/

/-- the non-empty text before `{version}` in a path pattern -/
def pathPrefix (pattern : Bytes) : Option Bytes :=
  match index pattern versionPlaceholder with
  | none => none
  | some i => if pattern.take i = [] then none else some (pattern.take i)

/-- what follows the pattern prefix in the path (`none`: the path does not begin with it) -/
def afterPrefix (pfx path : Bytes) : Option Bytes :=
  if path.take pfx.length = pfx then some (path.drop pfx.length) else none

/-- path = pfx ++ seg ++ rest with `seg` the non-empty run up to the next `/`: `(seg, rest)` -/
def segmentAfter (pfx path : Bytes) : Option (Bytes × Bytes) :=
  match afterPrefix pfx path with
  | none => none
  | some after =>
    let seg := after.takeWhile (· != '/')
    if seg = [] then none else some (seg, after.dropWhile (· != '/'))

def versionSegment (pattern path : Bytes) : Option (Bytes × Bytes) :=
  match pathPrefix pattern with
  | none => none
  | some pfx => segmentAfter pfx path

/-- the version a path pattern names: the segment, with the `v` that ends the prefix put back -/
def pathVersion (pattern path : Bytes) : Option Bytes :=
  match pathPrefix pattern with
  | none => none
  | some pfx =>
    (segmentAfter pfx path).map fun sr => if pfx.getLast? = some 'v' then 'v' :: sr.1 else sr.1

/-! ### selection -/

/-- the candidate a detection option yields for the request (`none`: nothing, or an empty string) -/
def candidate (req : Req) : DetOpt × LibVal → Option Bytes
  | (.path p, _) => pathVersion p req.path
  | (.header _, .header v) => if v = [] then none else some v
  | (.query q, _) => queryFirst req.rawQuery q
  | (.accept p, .accept v) => acceptVersion p v
  | (.custom _, .custom v) => if v = [] then none else some v
  | _ => none

def isCustom : DetOpt → Bool
  | .custom _ => true
  | _ => false

/-- "custom first, then path, header, query and Accept in configuration order" (of several custom
    detectors the one configured last is asked first: each is inserted at the front) -/
def detectionOrder {α} (opts : List (DetOpt × α)) : List (DetOpt × α) :=
  (opts.filter (fun o => isCustom o.1)).reverse ++ opts.filter (fun o => !isCustom o.1)

def accepted (valid : List Bytes) (v : Bytes) : Bool := v != [] && (valid.isEmpty || valid.contains v)

/-- the selected version -/
def selected (cfg : Cfg) (req : Req) : Bytes :=
  (((detectionOrder (cfg.opts.zip req.lib)).filterMap (candidate req)).find? (accepted cfg.valid)).getD cfg.dflt

def hasRoutes (routes : List Route) (ver : Option Bytes) (method : Bytes) : Bool :=
  routes.any fun r => r.ver == ver && r.method == method

/-- does the table of (tree, method) hold this path (`/` also answers the empty path) -/
def routed (routes : List Route) (ver : Option Bytes) (method path : Bytes) : Option Bytes :=
  let p := if path = [] then ['/'] else path
  if routes.any (fun r => r.ver == ver && r.method == method && r.path == p) then some p else none

/-- the tree that serves a version: its own when it has routes for the method, else the default's -/
def servingTree (cfg : Cfg) (routes : List Route) (method ver : Bytes) : Option Bytes :=
  if hasRoutes routes (some ver) method then some ver
  else if hasRoutes routes (some cfg.dflt) method then some cfg.dflt
  else none

/-- routing paths the statement admits. One path pattern (the documented use): the path with prefix and
    version segment removed when the pattern finds a segment, the path itself otherwise. With several
    path patterns the statement does not say whose segment is removed; every pattern whose prefix the
    path properly extends is admitted, provided some pattern finds a segment. -/
def patOf : DetOpt → Option Bytes
  | .path p => some p
  | _ => none

/-- the configured path patterns, in configuration order -/
def pathPatterns (cfg : Cfg) : List Bytes := cfg.opts.filterMap patOf

/-- the path with the prefix and the segment that follows it removed (`/` if nothing is left);
    `none`: the path does not properly extend the prefix -/
def stripAfter (pfx path : Bytes) : Option Bytes :=
  match afterPrefix pfx path with
  | none => none
  | some after =>
    if after = [] then none
    else
      let rest := after.dropWhile (· != '/')
      some (if rest = [] then ['/'] else rest)

def stripBy (path pattern : Bytes) : Option Bytes :=
  match pathPrefix pattern with
  | none => none
  | some pfx => stripAfter pfx path

def routingPaths (cfg : Cfg) (path : Bytes) : List Bytes :=
  if (pathPatterns cfg).any (fun p => (versionSegment p path).isSome) then
    (pathPatterns cfg).filterMap (stripBy path)
  else [path]

/-- the lifecycle configured for a version: the last `r.Version(v, …)` call with options -/
def lifecycleOf (cfg : Cfg) (v : Bytes) : Option LC :=
  ((cfg.lifecycles.filter (fun p => p.1 == v)).getLast?).map (·.2)

/-- past its sunset date under enforcement -/
def gone (cfg : Cfg) (v : Bytes) : Bool :=
  match lifecycleOf cfg v with
  | some lc =>
    (match lc.sunset with
     | some (d, _, _) => cfg.enforceSunset && decide (d < cfg.now)
     | none => false)
  | none => false

def isDeprecated (cfg : Cfg) (v : Bytes) : Bool :=
  match lifecycleOf cfg v with
  | some lc => lc.deprecated
  | none => false

def hasSunsetDate (cfg : Cfg) (v : Bytes) : Bool :=
  match lifecycleOf cfg v with
  | some lc => lc.sunset.isSome
  | none => false

def noLifecycleHeaders (o : Obs) : Bool :=
  o.hDeprecation.isNone && o.hSunset.isNone && o.hLink.isNone && o.hWarning.isNone

def isNotFound (o : Obs) : Bool := o.handler.isNone && (o.status = 404 || o.status = 405)

/-- outcome for one admitted routing path -/
def outcomeOK (cfg : Cfg) (routes : List Route) (req : Req) (rp : Bytes) (o : Obs) : Bool :=
  let v := selected cfg req
  match servingTree cfg routes req.method v with
  | none => isNotFound o
  | some tv =>
    match routed routes (some tv) req.method rp with
    | none => isNotFound o
    | some p =>
      if gone cfg v then
        -- 410 without running a handler
        o.status = 410 && o.handler.isNone
      else
        -- the handler of that tree runs and `Version()` reports the selected version
        o.status = 200 && o.handler == some (some tv, p) && o.version == some v &&
        -- deprecation / sunset headers exactly for versions configured as deprecated
        (o.hDeprecation.isSome == isDeprecated cfg v) &&
        (o.hSunset.isSome == (isDeprecated cfg v && hasSunsetDate cfg v)) &&
        (isDeprecated cfg v || (o.hLink.isNone && o.hWarning.isNone)) &&
        (o.hXAPIVersion.isNone || o.hXAPIVersion == some v)

/-- The oracle of C13 on an observation. -/
def specOK (cfg : Cfg) (routes : List Route) (req : Req) (o : Obs) : Bool :=
  match routed routes none req.method req.path with
  | some p =>
    -- unversioned routes always win and report no version
    o.status = 200 && o.handler == some (none, p) && o.version == some [] && noLifecycleHeaders o
  | none => (routingPaths cfg req.path).any fun rp => outcomeOK cfg routes req rp o

/-- one detection option and the library value shipped for it: the right kind, and for a query option
    exactly what standard parsing of the raw query says -/
def agreesOne (req : Req) : DetOpt × LibVal → Bool
  | (.query q, .query has get) =>
    (has == (queryFirst req.rawQuery q).isSome) && (get == (queryFirst req.rawQuery q).getD [])
  | (.query _, _) => false
  | (.header _, .header _) => true
  | (.accept _, .accept _) => true
  | (.custom _, .custom _) => true
  | (.path _, .none) => true
  | _ => false

/-- what the harness shipped for the query options is what standard parsing says -/
def libAgrees (cfg : Cfg) (req : Req) : Bool :=
  cfg.opts.length == req.lib.length && (cfg.opts.zip req.lib).all (agreesOne req)

end Rivaas.Version.Spec
