import Rivaas.Model.RateLimit
/-
C16 — the property's oracle, stated on observations and independent of how the stores are
programmed.

Token bucket: a *reference bucket* that only remembers the level right after the last admission
(or creation) and when that was; what is available at `now` is `min(burst, level + rate·(now − at))`.
Rejected calls leave no trace in it. For non-decreasing clocks the limiter must decide exactly like
the reference; for every clock sequence (regressing ones included) it must never over-admit:
no set of calls whose timestamps lie within an interval of length `T` contains more than
`burst + rate·T` admissions. A rejection must name the least whole number of seconds after which
a retry (no other traffic) is admitted.

Sliding window: per key and fixed window, never more admissions than the limit.
Units as in the model: 1/512 token, 1/512 s.
-/
namespace Rivaas.RateLimit

/-! ## reference token bucket -/

structure Ref where
  level : Int
  at_ : Int
  deriving DecidableEq, Repr

/-- tokens (in units) the reference bucket holds at `now` -/
def Ref.avail (r B : Int) (x : Ref) (now : Int) : Int := min B (x.level + r * (now - x.at_))

/-- admit iff a whole token is there -/
def Ref.step (r B : Int) (x : Ref) (now : Int) : Ref × Bool :=
  if x.avail r B now ≥ 512 then ({ level := x.avail r B now - 512, at_ := now }, true) else (x, false)

def Ref.run (r B : Int) : Ref → List Int → List Bool
  | _, [] => []
  | x, t :: ts => (x.step r B t).2 :: Ref.run r B (x.step r B t).1 ts

/-- would a call at `now` be admitted -/
def Ref.admits (r B : Int) (x : Ref) (now : Int) : Bool := decide (x.avail r B now ≥ 512)

/-- `R` is the least whole number of seconds (at least one) after which a retry is admitted -/
def resetTruthful (r B : Int) (x : Ref) (now R : Int) : Bool :=
  decide (1 ≤ R) && x.admits r B (now + 512 * R) && (R == 1 || !x.admits r B (now + 512 * (R - 1)))

def sorted : List Int → Bool
  | a :: b :: rest => decide (a ≤ b) && sorted (b :: rest)
  | _ => true

/-- what the reference says about one key's calls (non-decreasing clock): decision, remaining whole
    tokens after an admission, truthful reset after a rejection -/
def refAgrees (r B : Int) : Ref → List (Int × Out) → Bool
  | _, [] => true
  | x, (t, o) :: rest =>
    let s := x.step r B t
    (o.allowed == s.2) &&
    (if s.2 then o.remaining == s.1.level / 512 else (o.remaining == 0 && resetTruthful r B x t o.reset)) &&
    refAgrees r B s.1 rest

/-- one start position of the admission bound, scanned forward: `cnt` admissions so far, all
    timestamps so far within `[lo, hi]`; after every further call the run admitted so far must fit
    `(B + r·(hi − lo))/512` -/
def boundScan (r B : Int) : Int → Int → Int → List (Int × Out) → Bool
  | _, _, _, [] => true
  | cnt, lo, hi, (t, o) :: rest =>
    decide (512 * (cnt + (if o.allowed then 1 else 0)) ≤ B + r * (max hi t - min lo t)) &&
    boundScan r B (cnt + (if o.allowed then 1 else 0)) (min lo t) (max hi t) rest

/-- every contiguous run of one key's calls that starts at the head of the list admits at most
    `(B + r·T)/512` of them, `T` the spread of its timestamps -/
def boundFrom (r B : Int) : List (Int × Out) → Bool
  | [] => true
  | (t, o) :: rest => boundScan r B 0 t t ((t, o) :: rest)

/-- … and so does every contiguous run, wherever it starts -/
def boundOK (r B : Int) : List (Int × Out) → Bool
  | [] => true
  | c :: rest => boundFrom r B (c :: rest) && boundOK r B rest

/-- whatever the clock did before: when a call is rejected with `resetSeconds = R` and the key's next
    call comes at least `R` seconds later, that call is admitted -/
def retryHolds : List (Int × Out) → Bool
  | (t1, o1) :: (t2, o2) :: rest =>
    (if !o1.allowed && decide (t2 ≥ t1 + 512 * o1.reset) then o2.allowed else true) && retryHolds ((t2, o2) :: rest)
  | _ => true

/-- the calls of one key, in order -/
def project (key : Bytes) (calls : List (Bytes × Int)) (outs : List Out) : List (Int × Out) :=
  (calls.zip outs).filterMap fun co => if co.1.1 == key then some (co.1.2, co.2) else none

def keysOf (calls : List (Bytes × Int)) : List Bytes := (calls.map (·.1)).eraseDups

/-- the token-bucket oracle on a whole store trace: keys are judged independently (each against
    its own reference bucket created full at its first call); a key whose clock never regresses must
    agree with the reference call by call; every key must respect the admission bound and honour
    its own Retry-After -/
def bucketSpecOK (r B : Int) (calls : List (Bytes × Int)) (outs : List Out) : Bool :=
  outs.length == calls.length &&
  (keysOf calls).all fun k =>
    let p := project k calls outs
    boundOK r B p && retryHolds p &&
    (match p with
     | [] => true
     | (t0, _) :: _ => if sorted (p.map (·.1)) then refAgrees r B { level := B, at_ := t0 } p else true)

/-! ## simultaneous first requests on a cold limiter (wall clock) -/

/-- `G` requests released together on a fresh limiter, answered within less than one token's worth of
    refill: at most `burst` of them are admitted. (Each goroutine reads the clock on its own, so the
    calls reach the store with timestamps that may regress by microseconds — the statement allows the
    resulting *under*-admission, never more than the tokens available.) -/
def coldSpecOK (burst : Int) (outs : List Out) : Bool :=
  decide (((outs.filter (·.allowed)).length : Int) ≤ burst)

/-- what every such run produces besides the bound, micro-regressions of the clock included: the
    k-th admission leaves at most `burst − k` whole tokens (so among the admitted calls, those reporting
    `remaining ≥ v` number at most `burst − v`), a rejected call reports no token left -/
def coldShapeOK (burst : Int) (outs : List Out) : Bool :=
  let adm := outs.filter (·.allowed)
  (adm.all fun o => decide (0 ≤ o.remaining) &&
      decide (((adm.filter fun p => decide (p.remaining ≥ o.remaining)).length : Int) + o.remaining ≤ burst)) &&
  (outs.all fun o => o.allowed || (o.remaining == 0 && decide (1 ≤ o.reset)))

/-! ## middleware glue -/

/-- the response of the token-bucket middleware is truthful about the store's answer: a rejected
    call is answered 429 with `Retry-After` equal to the store's reset (when enforcing without a
    callback), the handler runs iff the call was admitted (or the limiter only reports), and the
    `RateLimit-*` headers repeat the store's values -/
def mwSpecOK (cfg : MwCfg) (o : Out) (m : MwObs) : Bool :=
  (if cfg.headers then m.remaining == some o.remaining && m.reset == some o.reset && m.limit.isSome
   else m.remaining == none && m.reset == none && m.limit == none) &&
  (if o.allowed then m.ran && m.status == 200 && m.retryAfter == none
   else if cfg.hasCallback then !m.ran
   else if cfg.enforce then !m.ran && m.status == 429 && m.retryAfter == some o.reset
   else m.ran)

/-! ## sliding window -/

/-- the key and window (by its start) an answered request is admitted in, if its handler ran -/
def admittedOf (cfg : WinCfg) (reqs : List WinReq) (a : Nat × WinObs) : Option (Bytes × Nat) :=
  match reqs[a.1]? with
  | some q => if a.2.ran then some (q.key, windowStart cfg.W q.now) else none
  | none => none

/-- per key and fixed window (identified by its start), at most `limit` admissions
    (a limiter configured as report-only — neither `Enforce` nor a callback — rejects nothing) -/
def windowBoundOK (cfg : WinCfg) (reqs : List WinReq) (answers : List (Nat × WinObs)) : Bool :=
  if !cfg.enforce && !cfg.hasCallback then true else
  (answers.filterMap (admittedOf cfg reqs)).eraseDups.all fun kw =>
    decide (((answers.filterMap (admittedOf cfg reqs)).filter (· == kw)).length ≤ cfg.limit)

/-- a rejected request is answered 429 *with* a `Retry-After`, and its handler does not run -/
def rejectOK (answers : List (Nat × WinObs)) : Bool :=
  answers.all fun a => a.2.status != 429 || (a.2.retryAfter.isSome && !a.2.ran)

/-- a retry: request `j` is the next request on its key after request `i`, `i` was answered 429 with
    `Retry-After: R`, and `j` is issued at least `R` seconds later — then `j` must be admitted -/
def retryOK (reqs : List WinReq) (answers : List (Nat × WinObs)) (retries : List (Nat × Nat)) : Bool :=
  retries.all fun ij =>
    match answers.lookup ij.1, answers.lookup ij.2, reqs[ij.1]?, reqs[ij.2]? with
    | some a, some b, some qi, some qj =>
      match a.retryAfter with
      | some R => if decide (qj.now ≥ qi.now + R * nsPerSec) then b.ran else true
      | none => true
    | _, _, _, _ => true

/-! ## sliding window over scripted counts: is the advertised `Retry-After` truthful? -/

/-- the sliding estimate (times `W·10⁹`) that the key's next request would see at instant `t` (ns), when the
    window starting at `ws` holds `c` counted requests, the one before it `p`, and nothing else arrives:
    inside the window `c + p·(1 − e/W)`, in the next window `c·(1 − e/W)`, afterwards 0 -/
def estimateNum (W c p ws t : Nat) : Nat :=
  let Wns := W * nsPerSec
  if t < (ws + W) * nsPerSec then c * Wns + p * (Wns - (t - ws * nsPerSec))
  else if t < (ws + 2 * W) * nsPerSec then c * (Wns - (t - (ws + W) * nsPerSec))
  else 0

/-- a request served at `now` on counts `(cur, prev)` of the window starting at `ws`: if it is answered
    `Retry-After: R`, then `R` seconds later the estimate — this request counted, no other traffic — is below
    the limit, i.e. the retry succeeds -/
def scriptedRetryOK (limit W cur prev ws now : Nat) (o : WinObs) : Bool :=
  match o.retryAfter with
  | some R => decide (estimateNum W (cur + 1) prev ws (now + R * nsPerSec) < limit * (W * nsPerSec))
  | none => true

end Rivaas.RateLimit
