import Rivaas.Model.Gates
/-
C17 — the property's oracle for each gate, stated on *observations* (what the handler saw and what
the response carried), independent of how the middleware is programmed. Each `specOK` demands what
the statement of C17 says and nothing more; the driver evaluates it on what the real code did and
the theorems of `Props/C17.lean` prove it of the model for every input.
Only the input/observation record types are shared with `Model/Gates.lean`.
-/
namespace Rivaas.Gates

/-! ## bodylimit -/
namespace Body

/-- every `Read` of the transport hands out at least one byte or reports io.EOF -/
def wellBehaved (s : List Step) : Bool := s.all fun st => match st with | .data _ => true | _ => false

/-- the request declares a size above the limit -/
def declaredOver (r : Req) : Bool :=
  match r.cl with
  | .val n => decide (n > (r.limit : Int))
  | _ => false

/-- * a request is refused before the handler only with 413 and only when its declared or actual
      size exceeds the limit;
    * when the handler's read ends cleanly (io.EOF) it has received the whole body, and the body
      is within the limit — never a silently truncated body, never more than the limit;
    * a body within the limit that arrives over a well-behaved transport reads cleanly;
    * in every case the handler receives a prefix of the body of at most `limit` bytes, and ErrBodyLimitExceeded is
      reported only for a body over the limit, after exactly `limit` bytes.
    On a skipped path the middleware must not interfere at all. -/
def specOK (r : Req) (o : Obs) : Bool :=
  if r.skip then
    o.ran && (if o.err == .eof then o.data == r.body else true)
      && (if wellBehaved r.script then o.err == .eof else true)
  else if !o.ran then
    o.status == 413 && (declaredOver r || decide (r.body.length > r.limit))
  else
    (if o.err == .eof then o.data == r.body && decide (r.body.length ≤ r.limit) else true)
      && (if decide (r.body.length ≤ r.limit) && wellBehaved r.script then o.err == .eof else true)
      -- whatever the outcome: what the handler received is a prefix of the body, never more than the limit; and the
      -- limit error is raised only for a body that really is over the limit, after exactly `limit` bytes
      && o.data.isPrefixOf r.body && decide (o.data.length ≤ r.limit)
      && (if o.err == .limit then decide (r.body.length > r.limit) && decide (o.data.length = r.limit) else true)

/-- the statement's word on the rejection: it "answers 413" (the body of the answer is not specified) -/
def errSpecOK (o : ErrResp) : Bool := o.status == 413

end Body

/-! ## basicauth -/
namespace Auth

def lower (c : Char) : Char := if 'A' ≤ c ∧ c ≤ 'Z' then Char.ofNat (c.toNat + 32) else c

/-- the header names the Basic scheme (RFC 7617: the scheme is case-insensitive; the statement
    leaves open whether other casings are accepted, so the oracle admits both) -/
def schemeBasic (auth : Bytes) : Bool := (auth.take 6).map lower == "basic ".toList

/-- `cred` is `u:p` for the configured pair `(u, p)`; a user name cannot contain a colon -/
def pairMatches (cred : Bytes) (up : Bytes × Bytes) : Bool :=
  !up.1.contains ':' && cred == up.1 ++ ':' :: up.2

/-- the credential `cred` is accepted by the configuration: with a validator, it has the form `u:p`
    and the validator accepts that pair (`verdict`); otherwise it is `u:p` for a configured pair.
    `user` is the user name it names. -/
def accepts (r : Req) (cred user : Bytes) : Bool :=
  match r.validator with
  | some verdict => verdict && cred.contains ':' && user == cred.takeWhile (· != ':')
  | none => r.users.any fun up => pairMatches cred up && user == up.1

/-- the header is exactly `Basic ` followed by base64 text that decodes to an accepted credential -/
def wellFormedValid (r : Req) : Bool :=
  prefixBasic.isPrefixOf r.auth &&
  match r.dec with
  | some cred =>
    (match r.validator with
     | some verdict => verdict && cred.contains ':'
     | none => r.users.any (pairMatches cred))
  | none => false

/-- * the handler runs only for a Basic header whose payload decodes to a credential the configuration
      accepts (a configured user/password pair, or a pair the configured validator accepts), and it
      sees that user;
    * otherwise the answer is 401 with a `WWW-Authenticate` header;
    * a well-formed header with an accepted credential is never refused. -/
def specOK (r : Req) (o : Obs) : Bool :=
  if o.ran then
    schemeBasic r.auth &&
    (match r.dec with
     | some cred => accepts r cred o.user
     | none => false)
  else
    o.status == 401 && o.www.isSome && !wellFormedValid r

/-- with skip paths: a request whose path is literally one of the configured skip paths is exempt
    (the handler runs); every other request is subject to the oracle above -/
def gateSpecOK (skip : Bool) (r : Req) (o : Obs) : Bool :=
  if skip then o.ran else specOK r o

/-- the statement's word on the rejection: "answers 401 with WWW-Authenticate" -/
def errSpecOK (o : Body.ErrResp) : Bool := o.status == 401 && o.www.isSome

end Auth

/-! ## cors -/
namespace Cors

/-- the configuration allows this origin: allow-all, else the origin function if one is set, else
    membership in the list -/
def configAllows (cfg : Cfg) (origin : Bytes) (funcSays : Bool) : Bool :=
  cfg.allowAll || (cfg.hasFunc && funcSays) || (!cfg.hasFunc && cfg.allowedOrigins.contains origin)

/-- * `Access-Control-Allow-Origin` is emitted only for a request origin the configuration allows,
      and names that origin (or `*` under allow-all);
    * never `*` together with `Access-Control-Allow-Credentials: true`. -/
def specOK (cfg : Cfg) (r : Req) (o : Obs) : Bool :=
  (match o.acao with
   | none => true
   | some v => r.origin != [] && configAllows cfg r.origin r.funcSays &&
               (v == r.origin || (v == star && cfg.allowAll)))
  && !(o.acao == some star && o.acac == some strue)

end Cors

/-! ## methodoverride -/
namespace Method

/-- the override the request carries: the value of the configured override header, else (when a
    query parameter is configured) the value of that query parameter — as `Header.Get` and
    `URL.Query().Get` report them; "" = the request asks for no override -/
def asked (cfg : Cfg) (r : Req) : Bytes :=
  if get r.hdr cfg.header ≠ [] then get r.hdr cfg.header
  else if cfg.queryParam ≠ [] then get r.qry cfg.queryParam
  else []

/-- the handler runs, and the method it sees is the request's own unless the request method is an
    allowed source (`onlyOn`), the method seen is an allowed target (`allow`) — both compared
    upper-cased as the documentation of the options says — and that target is the one the request
    asked for through the configured override header / query parameter (normalised) -/
def specOK (cfg : Cfg) (r : Req) (o : Obs) : Bool :=
  o.ran &&
  (o.seen == r.method ||
   ((cfg.onlyOn.map (app r.upper)).contains (app r.upper r.method) &&
    (cfg.allow.map (app r.upper)).contains o.seen &&
    asked cfg r != [] && o.seen == app r.norm (asked cfg r)))

end Method

/-! ## trailingslash -/
namespace Slash

def hexVal (c : Char) : Option Nat :=
  if '0' ≤ c ∧ c ≤ '9' then some (c.toNat - 48)
  else if 'a' ≤ c ∧ c ≤ 'f' then some (c.toNat - 87)
  else if 'A' ≤ c ∧ c ≤ 'F' then some (c.toNat - 55)
  else none

/-- percent-decoding as every client and server performs it on a path -/
def pctDecode : Bytes → Option Bytes
  | [] => some []
  | c :: rest =>
    if c = '%' then
      match rest with
      | a :: b :: rest' =>
        match hexVal a, hexVal b, pctDecode rest' with
        | some x, some y, some r => some (Char.ofNat (16 * x + y) :: r)
        | _, _, _ => none
      | _ => none
    else (pctDecode rest).map (c :: ·)

/-- the reference up to its query -/
def pathPart (s : Bytes) : Bytes := s.takeWhile (· ≠ '?')

/-- the characters before the first `/`, `?` or `#` contain a colon (a client would read a scheme) -/
def schemeLike : Bytes → Bool
  | [] => false
  | c :: r => if c = '/' ∨ c = '?' ∨ c = '#' then false else if c = ':' then true else schemeLike r

/-- A reference printed without scheme and host that no client reads as naming another host:
    it does not begin with two slashes, nor with a backslash in either of the first two positions
    (browsers treat `\` as `/`), and if it is not path-absolute it cannot be taken for `scheme:`. -/
def safeRef (l : Bytes) : Bool :=
  match l with
  | [] => true
  | c :: rest =>
    if c = '\\' then false
    else if c = '/' then
      match rest with
      | [] => true
      | d :: _ => !(d == '/' || d == '\\')
    else !schemeLike l

/-- no byte that clients strip or rewrite before resolving (controls, space, DEL, backslash) -/
def cleanPath (p : Bytes) : Bool := p.all fun c => decide (c.toNat > 32) && c != '\\' && c.toNat != 127

/-- the decoded path `p` is the request path with the final slash added or removed
    (`./p` is the same relative reference as `p`) -/
def moduloSlash (path p : Bytes) : Bool :=
  p == path ++ ['/'] || p ++ ['/'] == path

/-- what follows the printed `scheme://host` (if any) starts a path or a query, so it cannot extend
    the host; without scheme and host the whole reference must be safe -/
def startOK (pre rest : Bytes) : Bool :=
  if pre = [] then safeRef rest
  else match rest with
    | [] => true
    | c :: _ => c == '/' || c == '?'

/-- the path part percent-decodes to the request path with the final slash added or removed -/
def decodesTo (path pp : Bytes) : Bool :=
  match pctDecode pp with
  | some p => moduloSlash path p || (['.', '/'].isPrefixOf p && moduloSlash path (p.drop 2))
  | none => false

/-- a `Location` value is acceptable for this request when `pre` is what may precede the path -/
def locOKWith (pre : Bytes) (r : Req) (loc : Bytes) : Bool :=
  pre.isPrefixOf loc &&
  startOK pre (loc.drop pre.length) &&
  cleanPath (pathPart (loc.drop pre.length)) &&
  decodesTo r.path (pathPart (loc.drop pre.length))

def specOKWith (pre : Bytes) (r : Req) (o : Obs) : Bool :=
  match o.loc with
  | none => o.status != 308
  | some loc => o.status == 308 && !o.ran && locOKWith pre r loc

/-- what may precede the path of a `Location`: the request's own `scheme://host` — and only when the request target
    HAS a host. A scheme alone (`http:///evil.com/x`, `http:/evil.com/x`: net/http accepts such request targets) is not
    the request's origin: every client reads what follows it as another host. -/
def ownPrefix (r : Req) : Bytes := if r.hostSet then r.pre else []

/-- a `Location` value is acceptable for this request -/
def locOK (r : Req) (loc : Bytes) : Bool := locOKWith (ownPrefix r) r loc

/-- * a redirect (308 with a `Location`) goes only to the request's own path with the final slash
      added or removed (compared after percent-decoding), the handler does not run,
    * and the `Location` is either a reference without scheme and host that no client can read as
      naming another host, or the request's own `scheme://host` (a request target with a host) followed by a path. -/
def specOK (r : Req) (o : Obs) : Bool := specOKWith (ownPrefix r) r o

end Slash

end Rivaas.Gates
