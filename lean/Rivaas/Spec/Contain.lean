import Rivaas.Spec.Chain
import Rivaas.Model.Timeout
import Rivaas.Model.TimeoutOpts
/-
C10 — the oracle, stated on observations.

Recovery part (`Rivaas.Chain`): with the recovery middleware first in the chain, no panic leaves
`ServeHTTP`; if the reference semantics says the status line is recovery's (a panic was raised
while nothing had been written) the client got a 500; follow-up requests on the same router behave
like requests on a fresh one.

Timeout part (`Rivaas.Timeout`): one well-formed response — at most one timeout body, never together
with handler output or a second error body, status 408 whenever the timeout body is there —,
`ServeHTTP` does not return while the handler goroutine still runs, a panic of the timed handler
has reached recovery by the time `ServeHTTP` returns (observed: recovery handled a panic) and is
answered with recovery's 500 if nothing had been written, nothing escapes.
-/
namespace Rivaas.Chain

/-- what one request was observed to do, positions already rendered as handler ids by the caller -/
structure Seen where
  trace : List Ev
  /-- the HTTP status code -/
  status : Nat
  body : List Chunk
  escaped : Option Nat
  deriving Repr, DecidableEq, Inhabited

/-- how the harness sees a reference result: positions rendered as handler ids, silent positions
    (the uninstrumented recovery / timeout middleware) dropped, status chunk turned into a code -/
abbrev Render := RS → List Ev × Nat × List Chunk

/-- a request "served normally": exactly what the reference semantics says for a fresh context -/
def servedNormally (check : Bool) (rend : Render) (progs : List Prog) (o : Seen) : Bool :=
  let (r, esc) := ref check progs
  let (t, st, b) := rend r
  o.trace == t && o.status == st && o.body == b && o.escaped.isNone && esc.isNone

/-- the recovery clause of C10 on an observed request and its follow-ups -/
def containOK (check : Bool) (progs : List Prog) (o : Seen)
    (followups : List (List Prog × Render × Seen)) : Bool :=
  o.escaped.isNone &&
  ((ref check progs).1.status != some Chunk.rec500 || o.status == 500) &&
  followups.all fun (p, rend, f) => servedNormally check rend p f

end Rivaas.Chain

namespace Rivaas.Timeout

/-- observation of a timed request after `ServeHTTP` has returned and the handler goroutine ended -/
structure TObs where
  status : Option Chunk
  body : List Chunk
  escaped : Bool
  releasedEarly : Bool
  /-- the timed handler panicked -/
  hPanicked : Bool
  /-- the recovery middleware handled a panic (its logger / response handler was called) -/
  recovered : Bool
  /-- the timeout middleware answered the overrun: its timeout handler was called -/
  claimed : Bool
  deriving Repr, DecidableEq, Inhabited

def timeoutOK (o : TObs) : Bool :=
  let hasT := o.body.contains Chunk.t408
  let hasH := o.body.contains Chunk.h
  let hasR := o.body.contains Chunk.rec500
  !o.escaped && !o.releasedEarly &&
  o.body.count Chunk.t408 ≤ 1 &&
  !(hasT && (hasH || hasR)) &&
  (!hasT || o.status == some Chunk.t408) &&
  -- well-formed: no bytes that are nobody's document, and no 408 status line in front of somebody else's body
  !o.body.contains Chunk.other && (o.status != some Chunk.t408 || hasT) &&
  -- exactly one: when the middleware answers the overrun the response is exactly the timeout response, and a
  -- timeout body comes from nowhere else
  (!o.claimed || (o.body == [Chunk.t408] && o.status == some Chunk.t408)) && (!hasT || o.claimed) &&
  (!o.hPanicked || o.recovered) &&
  (!o.hPanicked || hasH || hasT || o.status == some Chunk.rec500)

/-- the model state as an observation (meaningful once `R` has returned) -/
def obsOf (s : St) : TObs :=
  { status := s.status, body := s.body, escaped := false, releasedEarly := s.releasedEarly,
    hPanicked := s.panicChan.isSome, recovered := s.recovered.isSome, claimed := s.timedOut }


/-! ### which requests the timeout middleware leaves alone (declarative reading of the options) -/

/-- this option alone makes the path a skipped one -/
def optSkips (path : List Char) : Opt → Bool
  | .skipPaths ps => ps.contains path
  | .skipPrefix ps => ps.any fun p => p.isPrefixOf path
  | .skipSuffix ps => ps.any fun s => s.isSuffixOf path
  | _ => false

def isSkipOpt : Opt → Bool
  | .skip _ => true
  | _ => false

/-- the `WithSkip` option that counts is the last one given -/
def lastSkipFn : List Opt → Option Bool
  | [] => none
  | .skip r :: os => if os.any isSkipOpt then lastSkipFn os else r
  | _ :: os => lastSkipFn os

/-- a request is left alone iff some path / prefix / suffix option — wherever it stands in the option list — covers
    its path, or the last `WithSkip` function says so -/
def skipSpec (opts : List Opt) (path : List Char) : Bool :=
  opts.any (optSkips path) || lastSkipFn opts == some true

end Rivaas.Timeout
