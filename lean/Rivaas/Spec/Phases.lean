import Rivaas.Model.Phases
/-
C12 — the property's oracle as a monitor over the observable trace. It knows nothing about
`sync.Once`, pending lists or program positions: it sees, per scheduler step, which goroutine was
released, where that goroutine is afterwards (`Vis`) and what it reported (`Out`), and at the end the
probe requests. "Serving began" is the first time a goroutine is seen parked at `freeze.flags` (the
point right after the two flags are stored) — or, at the latest, when `ServeHTTP` has returned for a request
(also one whose context was already done on arrival: it is a request all the same).

* a registration / constraint / naming attempt is accepted before serving began and panics afterwards;
* every request answers exactly as the set of accepted registrations and accepted constraints says —
  no request sees a partially registered table, no late mutation takes effect;
* `URLFor` on an accepted name succeeds once serving began, and never succeeds for another name;
* at the end every goroutine has finished (Freeze/Warmup from many goroutines: no deadlock) and the probe
  requests see exactly the accepted registrations and constraints.
Core Lean only.
-/
namespace Rivaas.Phases.Spec
open Rivaas.Phases

structure Mon where
  servingBegun : Bool
  accepted : List RouteId
  cons : List RouteId
  names : List RouteId
  deriving Repr, DecidableEq

def Mon.init : Mon := { servingBegun := false, accepted := [], cons := [], names := [] }

/-- what a request for route `t` must answer -/
def expected (m : Mon) (t : RouteId) (valInt : Bool) : Option RouteId :=
  if m.accepted.contains t && (!m.cons.contains t || valInt) then some t else none

/-- the verdict a mutation attempt must get: accepted before serving began, rejected afterwards,
    `na` exactly when there is no such route object -/
def mutationOK (m : Mon) (objExists : Bool) (res : Res) : Bool :=
  match res with
  | .na => !objExists
  | .accepted => objExists && !m.servingBegun
  | .rejected => objExists && m.servingBegun

/-- one trace entry against the monitor: `none` = the oracle is violated -/
def Mon.next (m : Mon) (k : Kind) (e : Ev) : Option Mon :=
  let m' := if e.vis = .freezeFlags then { m with servingBegun := true } else m
  match k, e.out with
  | .register r, .mut res =>
    -- a registration of an id that already has an object is outside the case format (`na`)
    if res = .na then (if m.accepted.contains r then some m' else none)
    else if m.accepted.contains r then none
    else if mutationOK m true res then
      some (if res = .accepted then { m' with accepted := r :: m'.accepted } else m')
    else none
  | .whereInt r, .mut res =>
    if mutationOK m (m.accepted.contains r) res then
      some (if res = .accepted then { m' with cons := r :: m'.cons } else m')
    else none
  | .setName r, .mut res =>
    if mutationOK m (m.accepted.contains r) res then
      some (if res = .accepted then { m' with names := r :: m'.names } else m')
    else none
  | .whereBad r, .mut res =>
    -- a constraint that does not compile is dropped: accepted / rejected like any other, no effect
    if mutationOK m (m.accepted.contains r) res then some m' else none
  | .urlFor r, .url u =>
    (match u with
     | .ok => if m.names.contains r && m.servingBegun then some m' else none
     | .notFrozen => if m.servingBegun then none else some m'
     | .notFound => if m.names.contains r then none else some m')
  | .request t v false, .hit h => if m.servingBegun && h == expected m t v then some m' else none
  -- a request whose context was already done has been through `ServeHTTP`: it is a request, so serving has begun
  -- ("registered before the first request"), whatever it was answered
  | .request _ _ true, .gone => some { m' with servingBegun := true }
  -- a step that reports nothing: the goroutine moved to its next yield point, is blocked, or had finished
  | _, .none => some m'
  | _, _ => none

def monitor (kinds : List Kind) : Mon → List Ev → Option Mon
  | m, [] => some m
  | m, e :: rest =>
    match kinds[e.actor]? with
    | none => none
    | some k =>
      match m.next k e with
      | none => none
      | some m' => monitor kinds m' rest

/-- final observation: where every goroutine is, and the probe requests (integer / non-integer value)
    for the route ids `ids` -/
def finalOK (m : Mon) (finalVis : List Vis) (ids : List RouteId)
    (probes : List (Option RouteId × Option RouteId)) : Bool :=
  finalVis.all (· = .done) &&
  probes == ids.map fun r => (expected m r true, expected m r false)

/-- The oracle of C12 on an observed run. -/
def specOK (kinds : List Kind) (ids : List RouteId) (trace : List Ev) (finalVis : List Vis)
    (probes : List (Option RouteId × Option RouteId)) : Bool :=
  match monitor kinds Mon.init trace with
  | none => false
  | some m => finalOK m finalVis ids probes

end Rivaas.Phases.Spec
