import Rivaas.Model.Reverse
/-
C12 (last clause) — oracle for the URLFor round trip, stated on the observation: for a named route and
parameter values that are valid single path segments, `URLFor` returns a path and requesting that path
runs the route's handler with the same parameter values.
-/
namespace Rivaas.Reverse.Spec
open Rivaas.Reverse

/-- a valid single path segment: not empty, no `/` -/
def validSegment (v : Bytes) : Bool := v != [] && !v.contains '/'

/-- the pieces of a pattern between slashes -/
def pieces (pattern : Bytes) : List Bytes :=
  pattern.foldr (fun c acc =>
    if c = '/' then [] :: acc
    else match acc with
      | [] => [[c]]
      | h :: t => (c :: h) :: t) [[]]

/-- parameter names of the pattern, left to right -/
def paramNames (pattern : Bytes) : List Bytes :=
  (pieces pattern).filterMap fun p => match p with | ':' :: n => some n | _ => none

/-- the patterns the clause is about: begins with `/`, no empty piece except a trailing one, static text
    that a URL carries unchanged (no `%`, `?`, `#`, `*`), non-empty distinct parameter names -/
def wellFormed (pattern : Bytes) : Bool :=
  match pieces pattern with
  | [] :: rest =>
    let body := if rest.getLast? = some [] then rest.dropLast else rest
    (pattern = ['/'] || (body != [] && body.all (· != []))) &&
    body.all (fun p => p.head? = some ':' || p.all (fun c => c != '%' && c != '?' && c != '#' && c != '*' && c != ':')) &&
    (paramNames pattern).all (· != []) && (paramNames pattern).eraseDups.length == (paramNames pattern).length
  | _ => false

/-- `vals`: name ↦ (value, escaped, "the server decodes the escaped text back to the value") -/
def specOK (pattern : Bytes) (vals : List (Bytes × Bytes × Bytes × Bool)) (o : Obs) : Bool :=
  let names := paramNames pattern
  let applicable := wellFormed pattern && names.all fun n =>
    match vals.find? (fun e => e.1 == n) with
    | some (_, v, _, rt) => validSegment v && rt
    | none => false
  if applicable then
    match o with
    | .routedBack _ ps =>
      ps == names.map fun n => (n, match vals.find? (fun e => e.1 == n) with | some (_, v, _, _) => v | none => [])
    | _ => false
  else true

end Rivaas.Reverse.Spec
