import Rivaas.Spec.BindBody
import Rivaas.Spec.BindNestJSON
import Rivaas.Model.BindAll
/-
C04 — oracle for binds that collect their errors (`WithAllErrors`). The statement's clause "a value the
field type cannot represent yields an error naming that field" read for a bind that goes on after an
error: every reported error is one the statement allows (it names a field whose own value or limit
causes it), and every field whose only admissible outcome is an error is named by a reported error.
Without any error the plain oracle applies.
-/
namespace Rivaas.Bind.Spec
open Rivaas.Bind

inductive ObsAll
  | done (v : Val) (errs : List Err)
  | panic
  deriving Repr, Inhabited

inductive ObsAllB
  | done (v : Val) (errs : List BErr)
  | panic
  deriving Repr, Inhabited

def errNames : Err → List Bytes
  | .bind n e => n :: errNames e
  | _ => []

/-- the bind looks at the leaf: no nested struct around it lies beyond the depth limit -/
def leafReached (cfg : Cfg) (l : Leaf) : Bool := decide (l.names.length ≤ cfg.maxDepth + 1)

def specAll (P : Params) (cfg : Cfg) (tag : Tag) (fs : List Fld) (init : Val) (s : Src) : ObsAll → Bool
  | .panic => false
  | .done v [] => specOK P cfg tag fs init s (.ok v)
  | .done _ errs =>
    errs.all (fun e => (causes P cfg tag fs init s).contains e) &&
    ((leavesOf tag fs).all fun l =>
      ambiguous s l || !leafReached cfg l || !(expect P cfg s init l).oks.isEmpty ||
      errs.any (fun e => errNames e == l.names)) &&
    ((nodesOf tag fs).all fun n =>
      n.depth != cfg.maxDepth + 1 || errs.any (fun e => errNames e == n.names))

/-- … with the nested-struct JSON shortcut: the collecting oracle on the type with the shortcut fields hidden from
    the bind and the decoded structs in their place (as `specOKJ`) -/
def specAllJ (P : Params) (cfg : Cfg) (tag : Tag) (fs : List Fld) (init : Val) (s : Src) (o : ObsAll) : Bool :=
  let sc := shortcuts P cfg tag fs s
  if sc.all Option.isNone then specAll P cfg tag fs init s o
  else match init with
    | .struct ivs => specAll P cfg tag (hideFs fs sc) (.struct (placeVals ivs sc)) s o
    | _ => false

def specMultiAll (P : Params) (cfg : Cfg) (fs : List Fld) (init : Val) (srcs : List Src) : ObsAll → Bool
  | .panic => false
  | .done v [] => specMulti P cfg fs init srcs (.ok v)
  | .done _ errs =>
    errs.all fun e => (srcs.isEmpty && e == Err.conv) || (multiCauses P cfg fs init srcs).contains e

/-- with body sources: a body source that can only fail is reported next to the field errors -/
def specStepsAll (P : Params) (cfg : Cfg) (fs : List Fld) (init : Val) (steps : List Step) : ObsAllB → Bool
  | .panic => false
  | .done v [] => specSteps P cfg fs init steps (.ok v)
  | .done _ errs =>
    (errs.all fun e => match e with
      | .bind e' => (steps.isEmpty && e' == Err.conv) || (multiCauses P cfg fs init (srcsOf steps)).contains e'
      | e => (bodiesOf steps).any fun r => (admissible r).any (isErrWith e)) &&
    ((bodiesOf steps).all fun r =>
      !(okVals (admissible r)).isEmpty || errs.any (fun e => (admissible r).any (isErrWith e)))

end Rivaas.Bind.Spec

namespace Rivaas.Bind
/-- the collecting model's outcome as an observation the collecting oracle judges -/
def toObsAll : OutAll → Spec.ObsAll
  | .done v es => .done v es
  | .panic => .panic
end Rivaas.Bind
