import Rivaas.Model.Presence
/-
C05 — the property's oracle, stated declaratively and independently of how the Go code computes
it: which paths *occur* in a JSON object (an inductive relation on segment paths plus the dotted
rendering), what a *leaf* is (a present path with no present descendant), which errors partial
validation *must* report (leaf ∧ has a rule of its own ∧ violates it), what capping and redaction
mean. The `…OK` functions at the end evaluate the oracle on what the implementation was
observed to do (the driver's `S` bit).
-/
namespace Rivaas.Presence

/-! ### which paths occur in a body -/

inductive Seg where
  | key (k : Bytes)
  | idx (i : Nat)
  deriving DecidableEq, Repr

abbrev SegPath := List Seg

/-- The paths that occur in an object: every key; below a key whose value is an object, that
    object's paths; below a key whose value is an array, every index, and below the index of an
    item that is an object, that object's paths. (Arrays directly inside arrays are not entered:
    the statement quantifies over objects, nesting and arrays of objects.) -/
inductive Occurs : List (Bytes × Json) → SegPath → Prop
  | key {kvs k v} : (k, v) ∈ kvs → Occurs kvs [.key k]
  | inObj {kvs k kvs' p} : (k, .obj kvs') ∈ kvs → Occurs kvs' p → Occurs kvs (.key k :: p)
  | idx {kvs k items} {i : Nat} : (k, .arr items) ∈ kvs → i < items.length →
      Occurs kvs [.key k, .idx i]
  | inItem {kvs k items} {i : Nat} {kvs' p} : (k, .arr items) ∈ kvs →
      items[i]? = some (.obj kvs') → Occurs kvs' p → Occurs kvs (.key k :: .idx i :: p)

def segStr : Seg → Bytes
  | .key k => k
  | .idx i => itoa i

/-- the dotted rendering of a segment path: segments joined with `.` -/
def render : SegPath → Bytes
  | [] => []
  | [s] => segStr s
  | s :: t :: rest => segStr s ++ '.' :: render (t :: rest)

/-- a dotted path occurs in the body -/
def OccursStr (top : List (Bytes × Json)) (p : Path) : Prop := ∃ sp, Occurs top sp ∧ render sp = p

/- brute-force enumeration of the occurring segment paths (executable counterpart of `Occurs`;
   `enum_iff_occurs` in Props/C05 proves they agree) -/
mutual
  def enumObj : List (Bytes × Json) → List SegPath
    | [] => []
    | (k, v) :: rest => ([.key k] :: (enumVal v).map (.key k :: ·)) ++ enumObj rest
  def enumVal : Json → List SegPath
    | .leaf => []
    | .obj kvs => enumObj kvs
    | .arr items => enumItems 0 items
  def enumItems : Nat → List Json → List SegPath
    | _, [] => []
    | i, item :: rest => ([.idx i] :: (enumItem item).map (.idx i :: ·)) ++ enumItems (i + 1) rest
  def enumItem : Json → List SegPath
    | .obj kvs => enumObj kvs
    | _ => []
end

/- nesting depth of the objects `markPresence` would enter: the top-level object is at depth 0,
   an object that is the value of a key or an item of an array under a key is one deeper -/
mutual
  def depthObj : List (Bytes × Json) → Nat
    | [] => 0
    | (_, v) :: rest => max (depthVal v) (depthObj rest)
  def depthVal : Json → Nat
    | .leaf => 0
    | .obj kvs => 1 + depthObj kvs
    | .arr items => depthItems items
  def depthItems : List Json → Nat
    | [] => 0
    | item :: rest => max (depthItem item) (depthItems rest)
  def depthItem : Json → Nat
    | .obj kvs => 1 + depthObj kvs
    | _ => 0
end

/-! ### leaves -/

/-- `q` lies below `p`: `p ++ "."` is a prefix of `q` -/
def isParentOf (p q : Path) : Prop := (p ++ ['.']) <+: q

instance (p q : Path) : Decidable (isParentOf p q) := by unfold isParentOf; infer_instance

/-- a present path with no present descendant -/
def IsLeaf (pm : List Path) (p : Path) : Prop := p ∈ pm ∧ ¬ ∃ q ∈ pm, isParentOf p q

def isLeafB (pm : List Path) (p : Path) : Bool :=
  pm.contains p && !pm.any fun q => (p ++ ['.']).isPrefixOf q

/-! ### errors -/

/-- an error that ought to be reported: where, which code, and which paths' values it would print -/
structure Want where
  path : Path
  code : Bytes
  shows : List Path
  deriving Repr, DecidableEq

/-- the violations of the path's own rule -/
def violations (rules : List Rule) (p : Path) : List Want :=
  match rules.find? (fun r => r.path == p) with
  | some r => if r.resolves then r.tags.map (fun v => ⟨p, tagPrefix ++ v.tag, v.shows⟩) else []
  | none => []

/-- partial validation must report `(p, c)` iff this holds -/
def Expected (pm : List Path) (rules : List Rule) (p : Path) (c : Bytes) : Prop :=
  IsLeaf pm p ∧ ∃ w ∈ violations rules p, w.code = c

/-! ### the oracle on observations -/

def subsetB (a b : List Path) : Bool := a.all fun x => b.contains x

/-- strictly ascending in the byte order: sorted and duplicate-free -/
def strictAsc : List Path → Bool
  | [] => true
  | [_] => true
  | p :: q :: rest => (leB p q && p != q) && strictAsc (q :: rest)

/-- presence: everything marked occurs; everything that occurs is marked unless the body nests
    deeper than the documented recursion limit -/
def presenceOK (top : List (Bytes × Json)) (obs : List Path) : Bool :=
  let occ := (enumObj top).map render
  subsetB obs occ && (depthObj top > maxRecursionDepth || subsetB occ obs)

/-- LeafPaths (evaluated against the presence set the implementation itself reported):
    exactly the leaves, each once -/
def leavesOK (pm : List Path) (leaves : List Path) : Bool :=
  leaves.all (isLeafB pm) && (pm.filter (isLeafB pm)).all leaves.contains &&
  (sortPaths leaves |> strictAsc)

def errSorted : List FieldErr → Bool
  | [] => true
  | [_] => true
  | a :: b :: rest => errLe a b && errSorted (b :: rest)

/-- the expected error list of partial validation in leaf order over the leaves that are within
    the configured field limit -/
def expectedErrs (pm : List Path) (rules : List Rule) (o : Opts) : List Want :=
  ((sortPaths (pm.filter (isLeafB pm))).take (maxLeaves o)).flatMap (violations rules)

/-- the field errors of a result (`nil` has none) -/
def fieldsOf : Option Result → List FieldErr
  | some r => r.fields
  | none => []

/-- `Truncated` of a result (`nil` is not truncated) -/
def truncOf : Option Result → Bool
  | some r => r.truncated
  | none => false

/-- What the statement demands of a returned error list, given the list `want` of errors that
    ought to be reported:
    * soundness — every reported error is wanted (never an absent field, never a non-violation);
    * completeness up to the cap — a wanted error may be missing only if `Truncated` is set and
      the list is full;
    * capped — with a maximum configured and at most one violation per field the list is no longer
      than the maximum; `Truncated` only when the maximum was reached;
    * ordered by (path, code);
    * redaction — an error hides its value if the redactor covers its path or the path of any
      value that printing the reported value would reveal (where several wanted errors share path
      and code, only what all of them demand is demanded). -/
def errorsOK (want : List Want) (o : Opts) (singleRule : Bool) (obs : Option Result) : Bool :=
  let fields := fieldsOf obs
  let trunc := truncOf obs
  let got := fields.map fun e => (e.path, e.code)
  let wantPC := want.map fun w => (w.path, w.code)
  let missing := wantPC.filter fun w => !got.contains w
  got.all wantPC.contains &&
  (missing.isEmpty || (trunc && o.maxErrors > 0 && fields.length ≥ o.maxErrors)) &&
  (!(o.maxErrors > 0 && singleRule) || fields.length ≤ o.maxErrors) &&
  (!trunc || (o.maxErrors > 0 && fields.length ≥ o.maxErrors)) &&
  (!obs.isSome || !fields.isEmpty) &&
  errSorted fields &&
  fields.all fun e =>
    e.hidden || !(o.redacted.contains e.path ||
      (let ms := want.filter fun w => w.path == e.path && w.code == e.code
       !ms.isEmpty && ms.all fun w => w.shows.any o.redacted.contains))

end Rivaas.Presence
