import Rivaas.Model.ErrFmt
import Rivaas.Spec.Accept
/-
C06 — the oracle, stated on the observed response, independent of how `fail`, `selectFormatter`
and the formatters are programmed (it shares only the data types with the model).

  "Fail and its status helpers abort the chain and write exactly one response whose HTTP status
   equals the formatter's status and the status member in the body, whose Content-Type is the
   formatter's media type, and whose body is valid JSON of the formatter's documented shape …
   JSON:API always has a non-empty errors array. When formatters are chosen by content negotiation,
   the one used is a configured media type the client accepts, otherwise the configured default."

Where the statement leaves the outcome open (which of several acceptable media types; option
combinations it does not mention; a malformed Accept header) the oracle is a relation that admits
every candidate.
-/
namespace Rivaas.ErrFmt

/-! ### the status the documentation promises -/

mutual
  /-- every status declared by a layer of the error value, outermost first (pre-order) -/
  def statusLayers : Err → List Nat
    | .node caps _ kids => caps.st.toList ++ statusLayersL kids
  def statusLayersL : List Err → List Nat
    | [] => []
    | e :: es => statusLayers e ++ statusLayersL es
end

/-- the documented status of each helper (its doc comment: "responds with a 404 Not Found error" …) -/
def helperDoc : Helper → Nat
  | .notFound => 404 | .badRequest => 400 | .unauthorized => 401 | .forbidden => 403 | .conflict => 409
  | .gone => 410 | .unprocessable => 422 | .tooMany => 429 | .internal => 500 | .unavailable => 503

/-- "The HTTP status is determined from the error (via ErrorType interface) or defaults to 500";
    `FailStatus` and the helpers give it explicitly; a configured `StatusResolver` takes precedence -/
def docStatus (f : Fmt) : Call → Nat
  | .fail e => match f.statusRes with
    | some s => s
    | none => (statusLayers e).head?.getD 500
  | .failStatus s _ => f.statusRes.getD s
  | .helper h _ => f.statusRes.getD (helperDoc h)

/-! ### media types -/

def mediaTypeOf : FKind → Bytes
  | .rfc9457 => "application/problem+json".toList
  | .jsonapi => "application/vnd.api+json".toList
  | .simple => "application/json".toList

def isSp (c : Char) : Bool := c == ' ' || c == '\t'
def trimSp (b : Bytes) : Bytes := ((b.dropWhile isSp).reverse.dropWhile isSp).reverse
def lowerB (b : Bytes) : Bytes := b.map fun c => if 'A' ≤ c ∧ c ≤ 'Z' then Char.ofNat (c.toNat + 32) else c

def splitOnChar (sep : Char) : Bytes → List Bytes
  | [] => [[]]
  | c :: rest =>
    match splitOnChar sep rest with
    | [] => [[c]]   -- unreachable
    | seg :: segs => if c == sep then [] :: seg :: segs else (c :: seg) :: segs

/-- the media type of a Content-Type header value: parameters dropped, case-insensitive -/
def headerMediaType (ct : Bytes) : Bytes := lowerB (trimSp (ct.takeWhile (· != ';')))

/-! ### what the client accepts: the declarative Accept oracle of C19 (`Spec/Accept.lean`, RFC 9110 §12.5.1) -/

/-- a configured media type without its parameters (`application/json; charset=utf-8`: they take no part) -/
def mtCore (mt : Bytes) : Bytes := mt.takeWhile (· != ';')

/-- the ranges an Accept header denotes; `none` = outside the grammar; an absent header states no preference -/
def parseAcceptHdr : Option Bytes → Option (List AcceptSpec.Range)
  | none => some []
  | some h => AcceptSpec.ranges true h

/-- how specifically a range covers the configured media type `mt` (3 exact, 2 `type/*`, 1 `*/*`, 0 not at all) -/
def specOf (mt : Bytes) : AcceptSpec.Range → Nat :=
  match AcceptSpec.mediaOffer (mtCore mt) with
  | some p => AcceptSpec.mediaSpecificity p
  | none => fun _ => 0

/-- the configured key is a plain media type (`type/subtype`, possibly with parameters after a `;`) -/
def offerPlain (mt : Bytes) : Bool := (AcceptSpec.mediaOffer (mtCore mt)).isSome

/-- the client accepts media type `mt`: the most specific range that covers it has a non-zero quality —
    `application/json;q=0, */*` does not accept `application/json`. Several ranges of that same specificity:
    any of them with q > 0 will do (the statement does not say). No preference stated: everything is acceptable. -/
def clientAccepts (ranges : List AcceptSpec.Range) (mt : Bytes) : Bool :=
  ranges.isEmpty || AcceptSpec.qmax (specOf mt) ranges > 0

/-- the most specific ranges covering `mt` disagree (one refuses with q=0, another of the same specificity takes
    it): the statement does not say which one speaks for the client -/
def acceptAmbiguous (ranges : List AcceptSpec.Range) (mt : Bytes) : Bool :=
  AcceptSpec.qmax (specOf mt) ranges > 0 && AcceptSpec.qmin (specOf mt) ranges == 0

/-! ### which formatter may have been used -/

/-- every formatter the configuration mentions, plus the documented ultimate fallback -/
def candidates : List Opt → List Fmt
  | [] => [fallbackFmt]
  | .formatter f :: rest => f :: candidates rest
  | .formatters m :: rest => m.map (·.2) ++ candidates rest
  | .defaultFormat _ :: rest => candidates rest

def negotiated (m : List (Bytes × Fmt)) (dflt : Bytes) (all : List Fmt) (accept : Option Bytes) : List Fmt :=
  match parseAcceptHdr accept with
  | none => all
  | some ranges =>
    -- a key that is no media type, or a client whose most specific ranges disagree: the outcome is left open
    if m.any (fun kv => !offerPlain kv.1) then all else
    if m.any (fun kv => acceptAmbiguous ranges kv.1) then all else
    let acc := m.filter fun kv => clientAccepts ranges kv.1
    if !acc.isEmpty then acc.map (·.2)
    else if dflt.isEmpty then all   -- no default configured: the statement leaves the outcome open
    else match m.find? fun kv => kv.1 == dflt with
      | some kv => [kv.2]
      | none => all

/-- the formatters the statement admits for a configuration (the shapes it names: nothing configured,
    one formatter, a negotiated map with or without default; any other combination: every candidate) -/
def allowed (opts : List Opt) (accept : Option Bytes) : List Fmt :=
  match opts with
  | [] => [fallbackFmt]
  | [.formatter f] => [f]
  | [.formatters m] => negotiated m [] (candidates opts) accept
  | [.formatters m, .defaultFormat d] => negotiated m d (candidates opts) accept
  | [.defaultFormat d, .formatters m] => negotiated m d (candidates opts) accept
  | _ => candidates opts

/-! ### the documented shape of the body -/

def isStrAt (k : Bytes) (b : Json) : Bool := match b.get? k with | some (.str _) => true | _ => false
def optStrAt (k : Bytes) (b : Json) : Bool := match b.get? k with | some (.str _) => true | none => true | _ => false
def isObj : Json → Bool | .obj _ => true | _ => false

def shapeOK (k : FKind) (status : Nat) (b : Json) : Bool :=
  isObj b &&
  match k with
  | .rfc9457 =>
    isStrAt kType b && isStrAt kTitle b && optStrAt kDetail b && optStrAt kInstance b &&
    (match b.get? kStatus with | some (.num t) => t == natBytes status | _ => false)
  | .jsonapi =>
    (match b.get? kErrors with
     | some (.arr xs) => !xs.isEmpty && xs.all fun x => isObj x &&
        (match x.get? kStatus with | some (.str t) => t == natBytes status | _ => false)
     | _ => false)
  | .simple => isStrAt kError b

/-- everything the statement says about one response, for a given formatter -/
def respOK (f : Fmt) (pos : Nat) (call : Call) (o : Resp) : Bool :=
  o.status == docStatus f call &&
  headerMediaType o.contentType == mediaTypeOf f.kind &&
  (match o.bodies with | [b] => shapeOK f.kind o.status b | _ => false) &&
  o.aborted && o.entered.all (· ≤ pos)

/-- "abort the chain", on its own: the flag is set and no position after the failing one was entered
    (what is left of the statement when the configured formatter is not one of the three and its body
    cannot be encoded at all) -/
def abortOK (pos : Nat) (o : Resp) : Bool := o.aborted && o.entered.all (· ≤ pos)

/-- the C06 oracle on an observed response -/
def specOK (opts : List Opt) (accept : Option Bytes) (pos : Nat) (call : Call) (o : Resp) : Bool :=
  (allowed opts accept).any fun f => respOK f pos call o

/-- net/http does not let these statuses carry a body over a real connection (and 1xx other than 101
    are not final statuses at all) -/
def bodylessStatus (s : Nat) : Bool := (100 ≤ s && s ≤ 199) || s == 204 || s == 304

/-- exclusion predicate of the recorded finding K06c, stated on the input: the response travels over a
    real connection and the status some admissible formatter must answer with cannot carry a body -/
def knownK06c (w : Wire) (opts : List Opt) (accept : Option Bytes) (call : Call) : Bool :=
  w == .server && (allowed opts accept).any fun f => bodylessStatus (docStatus f call)

/-! ### `ProblemDetail.MarshalJSON` called directly -/

def memberIs (k : Bytes) (v : Json) (b : Json) : Bool := match b.get? k with | some x => x == v | none => false
def memberAbsent (k : Bytes) (b : Json) : Bool := (b.get? k).isNone

/-- RFC 9457 reserved members carry the struct's own fields whatever the extensions say; every other
    extension is there; nothing else is -/
def marshalOK (p : Problem) (b : Json) : Bool :=
  memberIs kType (.str p.type) b && memberIs kTitle (.str p.title) b &&
  memberIs kStatus (.num (natBytes p.status)) b &&
  (if p.detail.isEmpty then memberAbsent kDetail b else memberIs kDetail (.str p.detail) b) &&
  (if p.instance_.isEmpty then memberAbsent kInstance b else memberIs kInstance (.str p.instance_) b) &&
  p.extensions.all (fun kv => reserved.contains kv.1 || (match b.get? kv.1 with | some x => x == kv.2 | none => false)) &&
  (match b with
   | .obj kvs => kvs.all fun kv => reserved.contains kv.1 || p.extensions.any fun e => e.1 == kv.1
   | _ => false)

end Rivaas.ErrFmt
