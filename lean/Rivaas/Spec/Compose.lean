import Rivaas.Model.Compose
/-
C02 — the oracle for chain *composition*, written as look-ups into the script (no simulated
router state): for a route reached through a list of mounts, the **levels** of enclosing scopes,
outermost first —

  serving router's global middleware ; per mount: [the parent's middleware again when
  `InheritMiddleware`] , the sub-router's middleware , `WithMiddleware` extras ; the groups from the
  outermost to the innermost ; finally the route's own handlers (before, handler, after).

The statement fixes the *order* and the *isolation* but not the moment at which a scope's
middleware list is sampled, so a level is a pair `(must, may)`: middleware attached to the scope
before the route (or the nested scope) was declared **must** run, middleware attached later **may**.
A chain is admitted iff it is the concatenation, level by level, of `must` followed by a
subsequence of `may`. Nothing outside the enclosing scopes can be matched (isolation), nothing can
be reordered across or inside levels (composition order), the route handlers come last.
-/
namespace Rivaas.Compose

/-- (must, may) -/
abbrev Level := List Hid × List Hid

/-- a served route: the `mount` ops it is reached through (script indices, outermost first) and
    the op that declared it -/
structure Target where
  mounts : List Nat
  route : Nat
  deriving Repr, DecidableEq, Inhabited

/-- enumerate with positions -/
def indexed {α} (l : List α) : List (Nat × α) := l.zipIdx.map fun (a, i) => (i, a)

def flat (l : List (List Hid)) : List Hid := l.flatten

/-- middleware attached by the ops selected by `sel`, split at time `t` -/
def splitAt (script : List Op) (sel : Op → Option (List Hid)) (t : Nat) : Level :=
  let xs := (indexed script).filterMap fun (i, op) => (sel op).map fun hs => (i, hs)
  (flat ((xs.filter (·.1 < t)).map (·.2)), flat ((xs.filter (·.1 > t)).map (·.2)))

/-- `r.Use` (and `app.Use` for router 0) -/
def routerLevel (script : List Op) (r : Nat) (t : Nat) : Level :=
  splitAt script (fun op => match op with
    | .use r' hs => if r' = r then some hs else none
    | .ause hs => if r = 0 then some hs else none
    | _ => none) t

/-- script index of the op that created the `g`-th object of a class -/
def nthIdx (script : List Op) (isCreate : Op → Bool) (g : Nat) : Option Nat :=
  ((indexed script).filter fun (_, op) => isCreate op)[g]?.map (·.1)

def isGroupCreate : Op → Bool | .group .. => true | .subgroup .. => true | _ => false
def isVGroupCreate : Op → Bool | .vgroup .. => true | _ => false
def isAGroupCreate : Op → Bool | .agroup .. => true | .asubgroup .. => true | _ => false
def isAVGroupCreate : Op → Bool | .aversion .. => true | .avsubgroup .. => true | _ => false
def isVRouterCreate : Op → Bool | .version .. => true | .aversion .. => true | _ => false

/-- One class of group objects (router groups, app groups, app version groups), described by how
    its API calls appear in the script: which ops create an object of the class, what a root
    creation contributes (path prefix, middleware), what a nested creation contributes (parent,
    segment, middleware), and which ops attach middleware later (`Use`). -/
structure GClass where
  isC : Op → Bool
  root : Op → Option (Path × List Hid)
  sub : Op → Option (Nat × Nat × List Hid)
  useOp : Op → Option (Nat × List Hid)

/-- middleware attached to group `g` of the class by `Use` -/
def GClass.useSel (C : GClass) (g : Nat) : Op → Option (List Hid) := fun op =>
  match C.useOp op with
  | some (g', hs) => if g' = g then some hs else none
  | none => none

/-- `route.Group` -/
def groupC : GClass where
  isC := isGroupCreate
  root := fun op => match op with | .group _ seg hs => some ([seg], hs) | _ => none
  sub := fun op => match op with | .subgroup p seg hs => some (p, seg, hs) | _ => none
  useOp := fun op => match op with | .guse g hs => some (g, hs) | _ => none

/-- `app.Group` -/
def agroupC : GClass where
  isC := isAGroupCreate
  root := fun op => match op with | .agroup seg hs _ _ => some ([seg], hs) | _ => none
  sub := fun op => match op with | .asubgroup p seg hs => some (p, seg, hs) | _ => none
  useOp := fun op => match op with | .aguse g hs => some (g, hs) | _ => none

/-- `app.VersionGroup` (the root is what `app.Version` returns: no prefix, no middleware) -/
def avgroupC : GClass where
  isC := isAVGroupCreate
  root := fun op => match op with | .aversion _ => some ([], []) | _ => none
  sub := fun op => match op with | .avsubgroup p seg hs => some (p, seg, hs) | _ => none
  useOp := fun op => match op with | .avuse g hs => some (g, hs) | _ => none

/-- Levels of group `g` of class `C` (outermost ancestor first) as seen by something declared in
    it at time `t`: (script index of the root ancestor's creation, path prefix, levels). An
    ancestor's middleware is sampled at the moment its child was created. -/
def genLevels (C : GClass) (script : List Op) : Nat → Nat → Nat → Option (Nat × Path × List Level)
  | 0, _, _ => none
  | fuel+1, g, t => do
    let i ← nthIdx script C.isC g
    let op ← script[i]?
    let own (hs : List Hid) : Level :=
      let l := splitAt script (C.useSel g) t
      (hs ++ l.1, l.2)
    match C.root op with
    | some (pre, hs) => pure (i, pre, [own hs])
    | none =>
      match C.sub op with
      | some (p, seg, hs) =>
        let (ri, pre, ls) ← genLevels C script fuel p i
        pure (ri, pre ++ [seg], ls ++ [own hs])
      | none => none

/-- (router, version) of the `v`-th version router -/
def vrouterOf (script : List Op) (v : Nat) : Option (Nat × Nat) := do
  let i ← nthIdx script isVRouterCreate v
  match script[i]? with
  | some (.version r ver) => pure (r, ver)
  | some (.aversion ver) => pure (0, ver)
  | _ => none

/-- what the declaring op contributes: declaring router, version tree, path below the mounts,
    levels from the outermost group inwards, the route's own handlers -/
def routeInfo (script : List Op) (i : Nat) : Option (Nat × Option Nat × Path × List Level × List Hid) :=
  match script[i]? with
  | some (.route (.router r) seg hs) => some (r, none, [seg], [], hs)
  | some (.route (.group g) seg hs) => do
    let (ri, pre, ls) ← genLevels groupC script (g+1) g i
    match script[ri]? with
    | some (.group r _ _) => pure (r, none, pre ++ [seg], ls, hs)
    | _ => none
  | some (.route (.vrouter v) seg hs) => do
    let (r, ver) ← vrouterOf script v
    pure (r, some ver, [seg], [], hs)
  | some (.route (.vgroup vg) seg hs) => do
    let j ← nthIdx script isVGroupCreate vg
    match script[j]? with
    | some (.vgroup v gseg ghs) =>
      let (r, ver) ← vrouterOf script v
      pure (r, some ver, [gseg, seg], [(ghs, [])], hs)
    | _ => none
  | some (.aroute .app seg b h a) => some (0, none, [seg], [], b ++ [h] ++ a)
  | some (.aroute (.agroup g) seg b h a) => do
    let (_, pre, ls) ← genLevels agroupC script (g+1) g i
    pure (0, none, pre ++ [seg], ls, b ++ [h] ++ a)
  | some (.aroute (.avgroup vg) seg b h a) => do
    let (ri, pre, ls) ← genLevels avgroupC script (vg+1) vg i
    match script[ri]? with
    | some (.aversion ver) => pure (0, some ver, pre ++ [seg], ls, b ++ [h] ++ a)
    | _ => none
  | _ => none

/-- the moment an instance `(js, ti)` — a route declared at `ti`, reached through the mounts `js`,
    outermost first — arrives at the router its outermost mount attaches to -/
def arrival (js : List Nat) (ti : Nat) : Nat := match js with | [] => ti | j :: _ => j

/-- levels and path prefix contributed by the mounts `js` (outermost first) of a route that was
    declared at time `ti` on router `rr`; `serving` is the router the outermost mount must attach to -/
def mountLevels (script : List Op) (ti rr : Nat) : List Nat → Nat → Option (Path × List Level)
  | [], serving => if serving = rr then some ([], []) else none
  | j :: js, serving =>
    match script[j]? with
    | some (.mount p s seg inherit extra) =>
      let tnext := arrival js ti
      -- a mount carries the routes its sub-router has at that moment: the route (or the inner
      -- mount that brought it) must precede this mount
      if p ≠ serving || !(decide (tnext < j)) then none else do
      let (pre, ls) ← mountLevels script ti rr js s
      pure (seg :: pre,
            (if inherit then [routerLevel script p j] else []) ++ [routerLevel script s tnext, (extra, [])] ++ ls)
    | _ => none

/-- version tree, path and the levels (route handlers as the last level) of a target served by router 0 -/
def levels (script : List Op) (tg : Target) : Option (Option Nat × Path × List Level) := do
  let (rr, ver, path, gls, hs) ← routeInfo script tg.route
  let (mpre, mls) ← mountLevels script tg.route rr tg.mounts 0
  let t0 := arrival tg.mounts tg.route
  pure (ver, mpre ++ path, [routerLevel script 0 t0] ++ mls ++ gls ++ [(hs, [])])

/-- all remainders of `chain` after a subsequence of `may` has been consumed from its front -/
def subseqRemainders : List Hid → List Hid → List (List Hid)
  | [], c => [c]
  | m :: ms, c =>
    subseqRemainders ms c ++
      (match c with
       | x :: c' => if x = m then subseqRemainders ms c' else []
       | [] => [])

/-- `chain` = concatenation over the levels of `must ++ (a subsequence of may)` -/
def matchLevels : List Level → List Hid → Bool
  | [], c => c.isEmpty
  | (must, may) :: ls, c =>
    must.isPrefixOf c && (subseqRemainders may (c.drop must.length)).any (matchLevels ls)

/-- the composition oracle on an observed chain -/
def chainOK (script : List Op) (tg : Target) (chain : List Hid) : Bool :=
  match levels script tg with
  | some (_, _, ls) => matchLevels ls chain
  | none => false

/-- Known finding K02b: the target is reached through a mount whose sub-router had been warmed up
    (`Warmup()`) before the `Mount` call while already carrying middleware — `Mount` then reads the
    sub-router's *trees*, whose handler slices already contain that middleware, and prepends it again. -/
def dK02b (script : List Op) (tg : Target) : Bool :=
  tg.mounts.any fun j =>
    match script[j]? with
    | some (.mount _ s _ _ _) =>
      (indexed script).any (fun (i, op) => i < j && (match op with | .warmup r => r == s | _ => false)) &&
      (indexed script).any (fun (i, op) => i < j && (match op with | .use r hs => r == s && !hs.isEmpty | _ => false))
    | _ => false

/-! ### well-formed scripts (what the generators emit; hypothesis of `C02.compose_admitted_mountfree`) -/

/-- number of ops before time `t` that create an object of a class -/
def cnt (isC : Op → Bool) (script : List Op) (t : Nat) : Nat := ((script.take t).filter isC).length

def isNewRouterOp : Op → Bool | .newRouter => true | _ => false
def isMountOp : Op → Bool | .mount .. => true | _ => false

/-- the path segment a declaring op gives its route -/
def routeSegOf : Op → Option Nat
  | .route _ seg _ => some seg
  | .aroute _ seg _ _ _ => some seg
  | _ => none

/-- references of a class's nested-creation and `Use` ops point to existing objects -/
def classRefsOK (C : GClass) (script : List Op) (t : Nat) (op : Op) : Bool :=
  (match C.sub op with | some (p, _, _) => decide (p < cnt C.isC script t) | none => true) &&
  (match C.useOp op with | some (g, _) => decide (g < cnt C.isC script t) | none => true)

/-- the group / version object a route or a version group is declared on exists already -/
def ownRefsOK (script : List Op) (t : Nat) : Op → Bool
  | .route (.group g) _ _ => decide (g < cnt isGroupCreate script t)
  | .route (.vrouter v) _ _ => decide (v < cnt isVRouterCreate script t)
  | .route (.vgroup vg) _ _ => decide (vg < cnt isVGroupCreate script t)
  | .aroute (.agroup g) _ _ _ _ => decide (g < cnt isAGroupCreate script t)
  | .aroute (.avgroup vg) _ _ _ _ => decide (vg < cnt isAVGroupCreate script t)
  | .vgroup v _ _ => decide (v < cnt isVRouterCreate script t)
  | _ => true

/-- routers referred to exist; version trees only on the serving router; a router is mounted
    into one created earlier -/
def routerRefsOK (script : List Op) (t : Nat) : Op → Bool
  | .use r _ => decide (r < 1 + cnt isNewRouterOp script t)
  | .route (.router r) _ _ => decide (r < 1 + cnt isNewRouterOp script t)
  | .group r _ _ => decide (r < 1 + cnt isNewRouterOp script t)
  | .version r _ => decide (r = 0)
  | .mount p s _ _ _ => decide (p < s) && decide (s < 1 + cnt isNewRouterOp script t)
  | _ => true

/-- every object the op at time `t` refers to exists already -/
def opRefsOK (script : List Op) (t : Nat) (op : Op) : Bool :=
  classRefsOK groupC script t op && classRefsOK agroupC script t op && classRefsOK avgroupC script t op &&
  ownRefsOK script t op && routerRefsOK script t op

/-- the path segment of a `Mount` -/
def mountSegOf : Op → Option Nat
  | .mount _ _ seg _ _ => some seg
  | _ => none

/-- well-formed: all references resolve at the time they are made, route segments are pairwise distinct -/
def wfB (script : List Op) : Bool :=
  ((List.range script.length).all fun t =>
    match script[t]? with
    | some op => opRefsOK script t op
    | none => true) &&
  ((List.range script.length).all fun i => (List.range script.length).all fun j =>
    i == j ||
    ((match script[i]?.bind routeSegOf, script[j]?.bind routeSegOf with
      | some a, some b => a != b
      | _, _ => true) &&
     (match script[i]?.bind mountSegOf, script[j]?.bind mountSegOf with
      | some a, some b => a != b
      | _, _ => true)))

def isWhereOp : Op → Bool | .whereOp .. => true | _ => false

def noMountB (script : List Op) : Bool := script.all fun op => !isMountOp op

/-- no constraint is added to a route after its declaration (`Where…` re-registers a registered route) -/
def noWhereB (script : List Op) : Bool := script.all fun op => !isWhereOp op

/-- only the serving router is warmed up explicitly (a sub-router warmed up before `Mount` is
    finding K02b) -/
def subsColdB (script : List Op) : Bool := script.all fun op => match op with | .warmup r => r == 0 | _ => true

end Rivaas.Compose
