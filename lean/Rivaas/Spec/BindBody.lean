import Rivaas.Spec.Bind
import Rivaas.Model.BindBody
/-
C04 — oracle for the body side of binding, stated without reference to the model's control flow.

A body bind decodes *the document of this call* — all the bytes of the slice or of the reader,
nothing left over from another call — the way the standard library reads it (shipped), under the
unknown-field policy in force; the entry point (bytes / reader / FromJSON… / Binder method) does
not matter. Fields the document does not set are as the value sources left them.
-/
namespace Rivaas.Bind.Spec
open Rivaas.Bind

inductive BObs
  | ok (v : Val)
  | err (e : BErr)
  | panic
  deriving Repr, Inhabited

def decOut : Dec → Except BErr Val
  | .ok v => .ok v
  | .unknown n => .error (.unknown n)
  | .bad => .error .decode

/-- the outcomes the statement admits for one body source -/
def admissible (r : BodyReq) : List (Except BErr Val) :=
  let byPolicy : List (Except BErr Val) := match r.fmt, r.policy with
    | .json, .error => [decOut r.doc.strict]
    | .json, .warn => if r.doc.object then [decOut r.doc.lax] else [decOut r.doc.lax, .error .decode]
    | _, _ => [decOut r.doc.lax]
  if !r.reader || r.readFails == 0 then byPolicy
  else if r.readFails == 1 then [.error .read]        -- the document never arrived in full
  else .error .read :: byPolicy                        -- the document arrived, then the reader failed: either

def isOkWith (v : Val) : Except BErr Val → Bool
  | .ok w => v == w
  | .error _ => false

def isErrWith (e : BErr) : Except BErr Val → Bool
  | .ok _ => false
  | .error e' => e == e'

/-- one body source alone (JSON…, XML…, the Binder's methods) -/
def specBody (r : BodyReq) : BObs → Bool
  | .panic => false
  | .ok v => (admissible r).any (isOkWith v)
  | .err e => (admissible r).any (isErrWith e)

def unmergeVals : List Val → List Val → List Val → List Val
  | i :: is, j :: js, c :: cs => (if j == i then c else i) :: unmergeVals is js cs
  | _, _, cs => cs

/-- the observed value with the fields the decoder changed put back as they were -/
def unmerge (init dec obs : Val) : Val :=
  match init, dec, obs with
  | .struct is, .struct js, .struct cs => .struct (unmergeVals is js cs)
  | _, _, c => c

def carriesVals : List Val → List Val → List Val → Bool
  | i :: is, j :: js, c :: cs => (j == i || c == j) && carriesVals is js cs
  | _, _, _ => true

/-- every field the decoder changed holds the decoder's value -/
def carries (init dec obs : Val) : Bool :=
  match init, dec, obs with
  | .struct is, .struct js, .struct cs => carriesVals is js cs
  | _, _, _ => false

def bodiesOf : List Step → List BodyReq
  | [] => []
  | .body r :: rest => r :: bodiesOf rest
  | .src _ :: rest => bodiesOf rest

def srcsOf : List Step → List Src
  | [] => []
  | .src s :: rest => s :: srcsOf rest
  | .body _ :: rest => srcsOf rest

def okVals : List (Except BErr Val) → List Val
  | [] => []
  | .ok v :: r => v :: okVals r
  | .error _ :: r => okVals r

/-- value and body sources together (Bind / BindTo with FromJSON…; at most one body source) -/
def specSteps (P : Params) (cfg : Cfg) (fs : List Fld) (init : Val) (steps : List Step) : BObs → Bool
  | .panic => false
  | .err (.bind e) => specMulti P cfg fs init (srcsOf steps) (.err e)
  | .err e => (bodiesOf steps).any fun r => (admissible r).any (isErrWith e)
  | .ok v =>
    match bodiesOf steps with
    | [] => specMulti P cfg fs init (srcsOf steps) (.ok v)
    | r :: _ =>
      (okVals (admissible r)).any fun dv =>
        carries init dv v &&
        (if (srcsOf steps).isEmpty then unmerge init dv v == init
         else specMulti P cfg fs init (srcsOf steps) (.ok (unmerge init dv v)))

/-- which document the latest bind of a handler has to decode: the one its context remembers from an
    earlier bind (until ResetBinding), else the one the request body holds at that moment
    (state: remembered, held now, answer so far) -/
def docOfOps (reads : Bool) : List Op → Option Nat × Option Nat × Option Nat → Option Nat
  | [], (_, _, ans) => ans
  | .bind _ :: rest, (rem, cur, _) =>
    match cur with
    | none => docOfOps reads rest (rem, cur, none)
    | some c =>
      let d := rem.getD c
      docOfOps reads rest (if reads then some d else rem, cur, some d)
  | .setBody d :: rest, (rem, _, ans) => docOfOps reads rest (rem, d, ans)
  | .reset :: rest, (_, cur, ans) => docOfOps reads rest (none, cur, ans)

/-- app.Context: the latest bind of the handler. `doc`: the document the bind has to decode — the one
    the context remembers, else the one the request body holds now. -/
def specApp (P : Params) (fs : List Fld) (init : Val) (h : Http) (strict : Bool) (doc : Option DocInfo) : BObs → Bool
  | .panic => false
  | .err (.bind e) =>
    specMulti P Cfg.default fs init h.params (.err e) ||
    (h.bodyTags && (classifyCT h.ctype == .form || classifyCT h.ctype == .multipart) &&
      (causes P Cfg.default .form fs init (formSrc h)).any (fun c => match c, e with
        | .bind n _, .bind m _ => n == m     -- the form bind starts from what the parameters left: judged by field
        | a, b => a == b))
  | .err .ctype => h.bodyTags && classifyCT h.ctype == .other
  | .err .nobody => h.bodyTags && classifyCT h.ctype == .json && doc.isNone
  | .err e =>
    h.bodyTags && classifyCT h.ctype == .json &&
    match doc with
    | some d => (admissible { fmt := .json, policy := if strict then .error else .ignore, reader := false, readFails := 0, doc := d }).any (isErrWith e)
    | none => false
  | .ok v =>
    if !h.bodyTags then specMulti P Cfg.default fs init h.params (.ok v)
    else match classifyCT h.ctype, doc with
      | .json, some d =>
        (okVals (admissible { fmt := .json, policy := if strict then .error else .ignore, reader := false, readFails := 0, doc := d })).any fun dv =>
          carries init dv v && specMulti P Cfg.default fs init h.params (.ok (unmerge init dv v))
      | .json, none => false
      | .form, _ | .multipart, _ =>
        -- two binds in a row: the form values (of the container bindForm reads, `formSrc`) are bound onto what the
        -- parameters left, and that second bind is judged by the plain oracle
        (match bindMulti P Cfg.default fs init h.params with
         | .ok v1 => specOK P Cfg.default .form fs v1 (formSrc h) (.ok v)
         | _ => false)
      | .other, _ => false

end Rivaas.Bind.Spec
