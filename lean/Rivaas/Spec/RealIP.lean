import Rivaas.Model.RealIP
/-
C18 — the property's oracle, stated on observations (what `ClientIP()` returned), independent
of how the walk is programmed.
-/
namespace Rivaas.RealIP

/-- some untrusted item has at most `budget` trusted items to its right
    (list is right-to-left: head = rightmost) -/
def untrustedWithin : Nat → List Item → Bool
  | _, [] => false
  | budget, none :: rest => untrustedWithin budget rest
  | _, some (_, false) :: _ => true
  | 0, some (_, true) :: _ => false
  | budget+1, some (_, true) :: rest => untrustedWithin budget rest

def isUntrusted : Option (Bytes × Bool) → Prop
  | some (_, false) => True
  | _ => False

instance : DecidablePred isUntrusted := fun o => by
  cases o with
  | none => exact isFalse (by simp [isUntrusted])
  | some p => cases p with | mk a b => cases b <;> simp [isUntrusted] <;> infer_instance

/-- the valid IP literals a header offers -/
def hdrIPs : Hdr → List Bytes
  | .xff items => items.filterMap (fun it => it.map (·.1))
  | .single v => v.toList

/-- addresses of a header's items that are classified untrusted / trusted -/
def xffUntrusted (items : List Item) : List Bytes :=
  items.filterMap fun it => match it with | some (ip, false) => some ip | _ => none

/-- does a header offer any address at all (so that it is the one the documented order selects) -/
def hdrOffers (h : Hdr) : Bool := !(hdrIPs h).isEmpty

/-- The oracle of C18 on an observed result `res`:
    * untrusted peer → the peer, whatever the headers say;
    * trusted peer → the peer or a valid IP literal from a configured header, taken from the first
      configured header that offers one (peer only if none does);
    * if that first offering header is X-Forwarded-For and it names an untrusted address within the
      hop limit, the result is one of its untrusted addresses. -/
def specOK (r : Req) (res : Bytes) : Bool :=
  if !r.peerTrusted then res == r.peer
  else match r.hdrs.find? hdrOffers with
    | none => res == r.peer
    | some h =>
      (hdrIPs h).contains res &&
      (match h with
       | .xff items =>
         if untrustedWithin r.maxHops items.reverse then (xffUntrusted items).contains res else true
       | .single _ => true)

end Rivaas.RealIP
