import Rivaas.Model.RealIP
/-
C18 — the property's oracle, stated on observations (what `ClientIP()` returned), independent
of how the walk is programmed.
-/
namespace Rivaas.RealIP

/-- some untrusted item has at most `budget` trusted items to its right
    (list is right-to-left: head = rightmost) -/
def untrustedWithin : Nat → List Item → Bool
  | _, [] => false
  | budget, none :: rest => untrustedWithin budget rest
  | _, some (_, false) :: _ => true
  | 0, some (_, true) :: _ => false
  | budget+1, some (_, true) :: rest => untrustedWithin budget rest

def isUntrusted : Option (Bytes × Bool) → Prop
  | some (_, false) => True
  | _ => False

instance : DecidablePred isUntrusted := fun o => by
  cases o with
  | none => exact isFalse (by simp [isUntrusted])
  | some p => cases p with | mk a b => cases b <;> simp [isUntrusted] <;> infer_instance

/-- the valid IP literals a header offers -/
def hdrIPs : Hdr → List Bytes
  | .xff items => items.filterMap (fun it => it.map (·.1))
  | .single v => v.toList

/-- addresses of a header's items that are classified untrusted / trusted -/
def xffUntrusted (items : List Item) : List Bytes :=
  items.filterMap fun it => match it with | some (ip, false) => some ip | _ => none

/-- does a header offer any address at all (so that it is the one the documented order selects) -/
def hdrOffers (h : Hdr) : Bool := !(hdrIPs h).isEmpty

/-- The oracle of C18 on an observed result `res`:
    * untrusted peer → the peer, whatever the headers say;
    * trusted peer → the peer or a valid IP literal from a configured header, taken from the first
      configured header that offers one (peer only if none does);
    * if that first offering header is X-Forwarded-For and it names an untrusted address within the
      hop limit, the result is one of its untrusted addresses. -/
def specOK (r : Req) (res : Bytes) : Bool :=
  if !r.peerTrusted then res == r.peer
  else match r.hdrs.find? hdrOffers with
    | none => res == r.peer
    | some h =>
      (hdrIPs h).contains res &&
      (match h with
       | .xff items =>
         if untrustedWithin r.maxHops items.reverse then (xffUntrusted items).contains res else true
       | .single _ => true)

/-! ## the third clause read literally, for every header order (round 2, review item C18-1) -/

/-- a configured X-Forwarded-For header that names an untrusted address within the hop limit -/
def xffNamesUntrusted (maxHops : Nat) : Hdr → Bool
  | .xff items => untrustedWithin maxHops items.reverse
  | .single _ => false

/-- "never the address of a trusted proxy when X-Forwarded-For also names an untrusted address within the hop
    limit" — whatever the configured header order: with a trusted peer, as soon as SOME configured X-Forwarded-For
    names such an address, the result must not lie inside a trusted CIDR (`resTrusted`) -/
def strictOK (r : Req) (resTrusted : Bool) : Bool :=
  !(r.peerTrusted && r.hdrs.any (xffNamesUntrusted r.maxHops)) || !resTrusted

/-- the class of inputs on which the documented header order and that clause pull apart (finding K18c): some
    configured X-Forwarded-For names an untrusted address within the limit, but the FIRST configured header that
    offers an address is another one (a single-valued header such as X-Real-IP placed before X-Forwarded-For, or an
    earlier X-Forwarded-For entry that does not) -/
def shadowed (r : Req) : Bool :=
  r.peerTrusted && r.hdrs.any (xffNamesUntrusted r.maxHops) &&
  (match r.hdrs.find? hdrOffers with
   | some h => !xffNamesUntrusted r.maxHops h
   | none => false)

end Rivaas.RealIP
