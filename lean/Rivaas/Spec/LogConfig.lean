import Rivaas.Model.LogConfig
/-
C20 — what the documentation of `logging` promises about construction and acceptance, written without following the
code: the *last* option of a kind decides (debug mode on implies source on and level Debug unless a later option says
otherwise); a call is accepted iff the logger is not shut down at that point, its level is at least the level in force
at that point, and — when sampling is configured and the call is below Error — it is among the first `Initial`
sampled calls or the `Thereafter`-th, `2·Thereafter`-th, … after them (every one when `Thereafter = 0`), where the
sampled calls are the enabled, below-Error calls made before shutdown.
-/
namespace Rivaas.LogConfig

/-- the level a list of options leaves: the last of `level l`, `debugLevel`, `debugMode true` -/
def specLevel (opts : List Opt) : Nat :=
  -- read from the right: the last relevant option wins
  (opts.reverse.findSome? fun o => match o with
    | .level l => some l | .debugLevel => some 0 | .debugMode true => some 0 | _ => none).getD 1

def specSampling (opts : List Opt) : Option (Int × Int) :=
  opts.reverse.findSome? fun o => match o with | .sampling i t => some (i, t) | _ => none

/-- the oracle, as a left-to-right reading of the history that keeps only what the promise mentions: level in force,
    shut down or not, how many sampled calls there have been -/
def specGo (s : Option (Int × Int)) (level seen : Nat) (down : Bool) : List Call → List Bool
  | [] => []
  | .setLevel l :: rest => specGo s l seen down rest
  | .shutdown :: rest => specGo s level seen true rest
  | .log lvl :: rest =>
    let enabled := !down && decide (level ≤ lvl)
    let sampledCall := enabled && decide (lvl < 3) && s.isSome
    let seen' := if sampledCall then seen + 1 else seen
    let pass := match s with
      | none => true
      | some (i, t) => decide (3 ≤ lvl) || decide ((seen' : Int) ≤ i) || t == 0 || ((seen' : Int) - i) % t == 0
    (enabled && pass) :: specGo s level seen' down rest

def specAccepted (opts : List Opt) (calls : List Call) : List Bool :=
  specGo (specSampling opts) (specLevel opts) 0 false calls

/-- what `DebugInfo()` must report after construction -/
structure Info where
  level : Nat
  addSource : Bool
  debugMode : Bool
  deriving DecidableEq, Repr

def specInfo (opts : List Opt) : Info :=
  { level := specLevel opts,
    addSource := (opts.reverse.findSome? fun o => match o with
      | .source b => some b | .debugMode true => some true | _ => none).getD false,
    debugMode := (opts.reverse.findSome? fun o => match o with | .debugMode b => some b | _ => none).getD false }

/-- `New` succeeds iff the output is not nil, a custom logger (if the last word is one) is not nil, sampling values are
    not negative and — without a custom logger — the handler type is one of the three documented ones -/
def specValid (opts : List Opt) : Bool :=
  let lastOut : Bool := (opts.reverse.findSome? fun o => match o with | .output n => some n | _ => none).getD false
  let anyCustom := opts.any fun o => match o with | .custom _ => true | _ => false
  let lastCustomNil : Bool := (opts.reverse.findSome? fun o => match o with | .custom n => some n | _ => none).getD false
  let samplingOk := match specSampling opts with | some (i, t) => decide (0 ≤ i) && decide (0 ≤ t) | none => true
  let lastHandler : Nat := (opts.reverse.findSome? fun o => match o with | .handler h => some h | _ => none).getD 0
  !lastOut && !(anyCustom && lastCustomNil) && samplingOk && (anyCustom || decide (lastHandler ≤ 2))

end Rivaas.LogConfig
