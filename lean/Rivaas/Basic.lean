/-- Go strings and byte slices are carried as `List Char` with one char per byte (code points
    0..255): models index them byte-wise exactly as Go's `s[i]` does. -/
abbrev Rivaas.Bytes := List Char
