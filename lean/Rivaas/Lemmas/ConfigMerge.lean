import Rivaas.Spec.Config
/-
C14 — the merge of `loadSourcesSequential` against the declarative "last source that defines the
path decides" (appendix sketch H, extended from one scalar leaf to every kind of outcome and from
one merge step to any number of sources). Nested inductive: functions are `mutual` over (value,
entry list); the main induction is on the *path*.
-/
namespace Rivaas.Config

theorem lookup_upsert_self (d : Kvs) (k : Bytes) (v : CVal) :
    lookup k (upsert d k v) = some (match lookup k d with | some v' => merge v' v | none => v) := by
  induction d with
  | nil => simp [upsert, lookup]
  | cons kv rest ih =>
    obtain ⟨k', v'⟩ := kv
    by_cases h : k' = k
    · simp [upsert, lookup, h]
    · simp [upsert, lookup, h, ih]

theorem lookup_upsert_other (d : Kvs) (k k2 : Bytes) (v : CVal) (hne : k2 ≠ k) :
    lookup k2 (upsert d k v) = lookup k2 d := by
  induction d with
  | nil => simp [upsert, lookup]; intro h; exact absurd h.symm hne
  | cons kv rest ih =>
    obtain ⟨k', v'⟩ := kv
    by_cases h : k' = k
    · subst h
      have : ¬ k' = k2 := fun e => hne e.symm
      simp [upsert, lookup, this]
    · by_cases h2 : k' = k2
      · subst h2; simp [upsert, lookup, h]
      · simp [upsert, lookup, h, h2, ih]

theorem lookup_none_of_not_mem {l : Kvs} {k : Bytes} (h : k ∉ l.map (·.1)) : lookup k l = none := by
  induction l with
  | nil => rfl
  | cons kv rest ih =>
    obtain ⟨k', v'⟩ := kv
    simp only [List.map_cons, List.mem_cons, not_or] at h
    have : ¬ k' = k := fun e => h.1 e.symm
    simp [lookup, this, ih h.2]

/-- one merge step seen through a lookup: the source's entry (merged with the destination's, if
    both exist), else the destination's -/
theorem lookup_mergeKvs (s d : Kvs) (k : Bytes) (hs : DistinctKeys s) :
    lookup k (mergeKvs d s) =
      match lookup k s with
      | some v => some (match lookup k d with | some v' => merge v' v | none => v)
      | none => lookup k d := by
  induction s generalizing d with
  | nil => simp [mergeKvs, lookup]
  | cons kv rest ih =>
    obtain ⟨k1, v1⟩ := kv
    simp only [DistinctKeys, List.map_cons, List.nodup_cons] at hs
    have hk1 : lookup k1 rest = none := lookup_none_of_not_mem hs.1
    simp only [mergeKvs]
    rw [ih _ hs.2]
    by_cases h : k1 = k
    · subst h
      simp [lookup, hk1, lookup_upsert_self]
    · have h' : k ≠ k1 := fun e => h e.symm
      simp [lookup, h, lookup_upsert_other _ _ _ _ h']

theorem WFs_lookup {kvs : Kvs} {k : Bytes} {v : CVal} (h : WFs kvs) (hl : lookup k kvs = some v) : WF v := by
  induction kvs with
  | nil => simp [lookup] at hl
  | cons kv rest ih =>
    obtain ⟨k', v'⟩ := kv
    simp only [WFs] at h
    by_cases hk : k' = k
    · simp [lookup, hk] at hl; subst hl; exact h.1
    · simp [lookup, hk] at hl; exact ih h.2 hl

theorem merge_leaf (d : CVal) (r : Bytes) : merge d (.leaf r) = .leaf r := by
  cases d <;> simp [merge]

theorem merge_leaf_left (r : Bytes) (s : CVal) : merge (.leaf r) s = s := by
  cases s <;> simp [merge]

/-- what a single (well-formed) tree yields at a path, in terms of `probe` -/
theorem classify_getPath_self (m : Kvs) (p : List Bytes) (hp : p ≠ []) :
    classify (getPath m p) =
      match probe m p with
      | .leaf r => .leaf r
      | .blocked => .none
      | .isMap => .isMap
      | .absent => .none := by
  induction p generalizing m with
  | nil => exact absurd rfl hp
  | cons k ks ih =>
    cases ks with
    | nil =>
      simp only [getPath, probe]
      cases lookup k m with
      | none => rfl
      | some v => cases v <;> rfl
    | cons k2 ks' =>
      simp only [getPath, probe]
      cases lookup k m with
      | none => rfl
      | some v =>
        cases v with
        | leaf r => rfl
        | map inner => exact ih inner (by simp)

/-- **one merge step**: at every path the later source decides if it defines the path, and
    otherwise the destination's value stands -/
theorem classify_getPath_merge (p : List Bytes) (hp : p ≠ []) (d s : Kvs) (hd : DistinctKeys s) (hw : WFs s) :
    classify (getPath (mergeKvs d s) p) =
      match probe s p with
      | .leaf r => .leaf r
      | .blocked => .none
      | .isMap => .isMap
      | .absent => classify (getPath d p) := by
  induction p generalizing d s with
  | nil => exact absurd rfl hp
  | cons k ks ih =>
    cases ks with
    | nil =>
      simp only [getPath, probe, lookup_mergeKvs s d k hd]
      cases hl : lookup k s with
      | none => rfl
      | some v =>
        cases v with
        | leaf r => simp [merge_leaf]; cases lookup k d <;> simp [classify]
        | map m =>
          cases hld : lookup k d with
          | none => simp [classify]
          | some v' => cases v' <;> simp [merge, classify]
    | cons k2 ks' =>
      simp only [getPath, probe, lookup_mergeKvs s d k hd]
      cases hl : lookup k s with
      | none =>
        simp only []
      | some v =>
        cases v with
        | leaf r =>
          cases hld : lookup k d with
          | none => simp [classify]
          | some v' => simp [merge_leaf, classify]
        | map m =>
          have hwm : WF (.map m) := WFs_lookup hw hl
          simp only [WF] at hwm
          cases hld : lookup k d with
          | none =>
            simp only []
            rw [classify_getPath_self m (k2 :: ks') (by simp)]
            cases probe m (k2 :: ks') <;> simp [classify]
          | some v' =>
            cases v' with
            | leaf r =>
              simp only [merge]
              rw [classify_getPath_self m (k2 :: ks') (by simp)]
              cases probe m (k2 :: ks') <;> simp [classify]
            | map dm =>
              simp only [merge]
              exact ih (by simp) dm m hwm.1 hwm.2

end Rivaas.Config

namespace Rivaas.Config

/-! ### `normalizeMapKeys` produces well-formed maps -/

theorem mem_keys_put (l : Kvs) (k : Bytes) (v : CVal) (x : Bytes) :
    x ∈ (put l k v).map (·.1) ↔ x ∈ l.map (·.1) ∨ x = k := by
  induction l with
  | nil => simp [put]
  | cons kv rest ih =>
    obtain ⟨k', v'⟩ := kv
    by_cases h : k' = k
    · subst h
      simp only [put, if_true, List.map_cons, List.mem_cons]
      constructor
      · intro hx; exact Or.inl hx
      · rintro (hx | hx)
        · exact hx
        · exact Or.inl hx
    · simp only [put, h, if_false, List.map_cons, List.mem_cons, ih]
      constructor
      · rintro (hx | hx | hx)
        · exact Or.inl (Or.inl hx)
        · exact Or.inl (Or.inr hx)
        · exact Or.inr hx
      · rintro ((hx | hx) | hx)
        · exact Or.inl hx
        · exact Or.inr (Or.inl hx)
        · exact Or.inr (Or.inr hx)

theorem distinct_put (l : Kvs) (k : Bytes) (v : CVal) (h : DistinctKeys l) : DistinctKeys (put l k v) := by
  induction l with
  | nil => simp [put, DistinctKeys]
  | cons kv rest ih =>
    obtain ⟨k', v'⟩ := kv
    simp only [DistinctKeys, List.map_cons, List.nodup_cons] at h
    by_cases hk : k' = k
    · simp only [put, hk, if_true, DistinctKeys, List.map_cons, List.nodup_cons]
      exact ⟨hk ▸ h.1, h.2⟩
    · simp only [put, hk, if_false, DistinctKeys, List.map_cons, List.nodup_cons]
      refine ⟨?_, ih h.2⟩
      intro hm
      rcases (mem_keys_put rest k v k').mp hm with h1 | h1
      · exact h.1 h1
      · exact hk h1

theorem WFs_put (l : Kvs) (k : Bytes) (v : CVal) (h : WFs l) (hv : WF v) : WFs (put l k v) := by
  induction l with
  | nil => simp [put, WFs, hv]
  | cons kv rest ih =>
    obtain ⟨k', v'⟩ := kv
    simp only [WFs] at h
    by_cases hk : k' = k
    · simp only [put, hk, if_true, WFs]; exact ⟨hv, h.2⟩
    · simp only [put, hk, if_false, WFs]; exact ⟨h.1, ih h.2⟩

mutual
  def CVal.size : CVal → Nat
    | .leaf _ => 1
    | .map kvs => 1 + sizeKvs kvs
  def sizeKvs : Kvs → Nat
    | [] => 0
    | (_, v) :: rest => 1 + v.size + sizeKvs rest
end

mutual
  theorem wf_normalize : ∀ (kvs : Kvs), DistinctKeys (normalize kvs) ∧ WFs (normalize kvs)
    | [] => by simp [normalize, DistinctKeys, WFs]
    | (k, v) :: rest => by
      have h1 := wf_normalize rest
      have h2 := wf_normalizeVal v
      simp only [normalize]
      exact ⟨distinct_put _ _ _ h1.1, WFs_put _ _ _ h1.2 h2⟩
  termination_by kvs => sizeKvs kvs
  decreasing_by all_goals (simp only [sizeKvs]; omega)
  theorem wf_normalizeVal : ∀ (v : CVal), WF (normalizeVal v)
    | .leaf r => by simp [normalizeVal, WF]
    | .map kvs => by
      simp only [normalizeVal, WF]
      exact wf_normalize kvs
  termination_by v => v.size
  decreasing_by all_goals (simp only [CVal.size]; omega)
end

/-! ### any number of sources -/

theorem mergeAll_snoc (srcs : List Kvs) (s : Kvs) :
    mergeAll (srcs ++ [s]) = mergeKvs (mergeAll srcs) (normalize s) := by
  simp [mergeAll, List.foldl_append]

theorem getPath_nil_kvs (p : List Bytes) : getPath [] p = none := by
  cases p with
  | nil => rfl
  | cons k ks => cases ks <;> simp [getPath, lookup]

theorem classify_getPath_mergeAll_rev (rs : List Kvs) (p : List Bytes) (hp : p ≠ []) :
    classify (getPath (mergeAll rs.reverse) p) = lastWinsRev p (rs.map normalize) := by
  induction rs with
  | nil => simp [mergeAll, lastWinsRev, getPath_nil_kvs, classify]
  | cons r rest ih =>
    rw [List.reverse_cons, mergeAll_snoc]
    have hw := wf_normalize r
    rw [classify_getPath_merge p hp _ _ hw.1 hw.2, ih]
    simp only [List.map_cons, lastWinsRev]
    cases probe (normalize r) p <;> rfl

/-- **last source wins** — for every list of sources and every key path: what the merged map
    holds at the path is what the last source defining the path gives (a non-map value as is,
    "a map" if it is a map there, nothing if that source replaced an enclosing subtree by a
    non-map value), keys compared case-insensitively -/
theorem classify_getPath_mergeAll (srcs : List Kvs) (p : List Bytes) (hp : p ≠ []) :
    classify (getPath (mergeAll srcs) p) = lastWins srcs p := by
  have := classify_getPath_mergeAll_rev srcs.reverse p hp
  rw [List.reverse_reverse] at this
  rw [this, lastWins, List.map_reverse]

end Rivaas.Config

namespace Rivaas.Config

/-! ### sources -/

theorem loadSources_spec (srcs : List SrcResult) (i : Nat) (acc : List Kvs) :
    (srcFails ⟨srcs, none, []⟩ = false →
      loadSources srcs i acc = .ok (acc.reverse ++ okMaps ⟨srcs, none, []⟩)) ∧
    (srcFails ⟨srcs, none, []⟩ = true → ∃ j, loadSources srcs i acc = .error j) := by
  induction srcs generalizing i acc with
  | nil => simp [srcFails, loadSources, okMaps]
  | cons r rest ih =>
    cases r with
    | fail => simp [srcFails, loadSources]
    | ok m =>
      have := ih (i + 1) (m :: acc)
      simp only [srcFails, okMaps, List.any_cons, Bool.false_or, List.filterMap_cons, loadSources] at this ⊢
      constructor
      · intro h
        rw [this.1 h]
        simp
      · exact this.2

/-! ### equality of well-formed maps is reflexive -/

theorem lookup_head (k : Bytes) (v : CVal) (rest : Kvs) : lookup k ((k, v) :: rest) = some v := by
  simp [lookup]

mutual
  theorem cvalEq_refl : ∀ (v : CVal), WF v → cvalEq v v = true
    | .leaf r, _ => by simp [cvalEq]
    | .map kvs, h => by
      simp only [WF] at h
      simp only [cvalEq, beq_self_eq_true, Bool.true_and]
      exact kvsSub_refl kvs kvs h.2 (fun k v hkv => by
        -- with distinct keys, the entry found under `k` is the entry itself
        induction kvs with
        | nil => simp at hkv
        | cons e rest ih =>
          obtain ⟨ek, ev⟩ := e
          have hd := h.1
          simp only [DistinctKeys, List.map_cons, List.nodup_cons] at hd
          rcases List.mem_cons.mp hkv with h0 | h0
          · simp only [Prod.mk.injEq] at h0
            rw [h0.1, h0.2]; exact lookup_head _ _ _
          · have hne : ¬ ek = k := by
              intro e; apply hd.1; rw [e]
              exact List.mem_map.mpr ⟨(k, v), h0, rfl⟩
            simp only [lookup, hne, if_false]
            simp only [WFs] at h
            exact ih ⟨hd.2, h.2.2⟩ h0)
  termination_by v => v.size
  decreasing_by all_goals (simp only [CVal.size]; omega)
  /-- every entry of `a` is found in `b` under its key with an equal value, provided `b` returns
      each entry of `a` under its key -/
  theorem kvsSub_refl : ∀ (a b : Kvs), WFs a → (∀ k v, (k, v) ∈ a → lookup k b = some v) → kvsSub a b = true
    | [], _, _, _ => by simp [kvsSub]
    | (k, v) :: rest, b, hw, hl => by
      simp only [WFs] at hw
      simp only [kvsSub, hl k v (List.mem_cons_self ..), Bool.and_eq_true]
      exact ⟨cvalEq_refl v hw.1, kvsSub_refl rest b hw.2 (fun k' v' h' => hl k' v' (List.mem_cons_of_mem _ h'))⟩
  termination_by a => sizeKvs a
  decreasing_by all_goals (simp only [sizeKvs]; omega)
end

theorem kvsEq_refl (a : Kvs) (hd : DistinctKeys a) (hw : WFs a) : kvsEq a a = true := by
  have := cvalEq_refl (.map a) (by simp only [WF]; exact ⟨hd, hw⟩)
  simpa [cvalEq, kvsEq] using this

end Rivaas.Config

namespace Rivaas.Config

/-! ### merging well-formed maps gives a well-formed map (the state invariant of `Config.values`) -/

theorem mem_keys_upsert (d : Kvs) (k : Bytes) (v : CVal) (x : Bytes) :
    x ∈ (upsert d k v).map (·.1) ↔ x ∈ d.map (·.1) ∨ x = k := by
  induction d with
  | nil => simp [upsert]
  | cons kv rest ih =>
    obtain ⟨k', v'⟩ := kv
    by_cases h : k' = k
    · subst h
      simp only [upsert, if_true, List.map_cons, List.mem_cons]
      constructor
      · intro hx; exact Or.inl hx
      · rintro (hx | hx)
        · exact hx
        · exact Or.inl hx
    · simp only [upsert, h, if_false, List.map_cons, List.mem_cons, ih]
      constructor
      · rintro (hx | hx | hx)
        · exact Or.inl (Or.inl hx)
        · exact Or.inl (Or.inr hx)
        · exact Or.inr hx
      · rintro ((hx | hx) | hx)
        · exact Or.inl hx
        · exact Or.inr (Or.inl hx)
        · exact Or.inr (Or.inr hx)

theorem distinct_upsert (d : Kvs) (k : Bytes) (v : CVal) (h : DistinctKeys d) : DistinctKeys (upsert d k v) := by
  induction d with
  | nil => simp [upsert, DistinctKeys]
  | cons kv rest ih =>
    obtain ⟨k', v'⟩ := kv
    simp only [DistinctKeys, List.map_cons, List.nodup_cons] at h
    by_cases hk : k' = k
    · simp only [upsert, hk, if_true, DistinctKeys, List.map_cons, List.nodup_cons]
      exact ⟨hk ▸ h.1, h.2⟩
    · simp only [upsert, hk, if_false, DistinctKeys, List.map_cons, List.nodup_cons]
      refine ⟨?_, ih h.2⟩
      intro hm
      rcases (mem_keys_upsert rest k v k').mp hm with h1 | h1
      · exact h.1 h1
      · exact hk h1

theorem WFs_upsert_of (d : Kvs) (k : Bytes) (v : CVal) (hm : ∀ v', WF v' → WF (merge v' v))
    (h : WFs d) (hv : WF v) : WFs (upsert d k v) := by
  induction d with
  | nil => simp [upsert, WFs, hv]
  | cons kv rest ih =>
    obtain ⟨k', v'⟩ := kv
    simp only [WFs] at h
    by_cases hk : k' = k
    · simp only [upsert, hk, if_true, WFs]; exact ⟨hm v' h.1, h.2⟩
    · simp only [upsert, hk, if_false, WFs]; exact ⟨h.1, ih h.2⟩

mutual
  theorem wf_merge : ∀ (s d : CVal), WF d → WF s → WF (merge d s)
    | .leaf r, d, _, _ => by rw [merge_leaf]; simp [WF]
    | .map s, .leaf r, _, hs => by rw [merge_leaf_left]; exact hs
    | .map s, .map d, hd, hs => by
      simp only [WF] at hd hs
      simp only [merge, WF]
      exact wf_mergeKvs s d hd.1 hd.2 hs.1 hs.2
  termination_by s => s.size
  decreasing_by all_goals (simp only [CVal.size]; omega)
  theorem wf_mergeKvs : ∀ (s d : Kvs), DistinctKeys d → WFs d → DistinctKeys s → WFs s →
      DistinctKeys (mergeKvs d s) ∧ WFs (mergeKvs d s)
    | [], d, hd, hw, _, _ => by simp only [mergeKvs]; exact ⟨hd, hw⟩
    | (k, v) :: rest, d, hd, hw, hsd, hsw => by
      simp only [WFs] at hsw
      simp only [DistinctKeys, List.map_cons, List.nodup_cons] at hsd
      simp only [mergeKvs]
      exact wf_mergeKvs rest (upsert d k v) (distinct_upsert d k v hd)
        (WFs_upsert_of d k v (fun v' hv' => wf_merge v v' hv' hsw.1) hw hsw.1) hsd.2 hsw.2
  termination_by s => sizeKvs s
  decreasing_by all_goals (simp only [sizeKvs]; omega)
end

theorem wf_mergeAll (srcs : List Kvs) : DistinctKeys (mergeAll srcs) ∧ WFs (mergeAll srcs) := by
  have : ∀ (rs : List Kvs), DistinctKeys (mergeAll rs.reverse) ∧ WFs (mergeAll rs.reverse) := by
    intro rs
    induction rs with
    | nil => simp [mergeAll, DistinctKeys, WFs]
    | cons r rest ih =>
      rw [List.reverse_cons, mergeAll_snoc]
      have hn := wf_normalize r
      exact wf_mergeKvs _ _ ih.1 ih.2 hn.1 hn.2
  have h := this srcs.reverse
  rwa [List.reverse_reverse] at h

end Rivaas.Config
