import Rivaas.Model.Compress
import Rivaas.Spec.Compress
/-
Helper lemmas for C15 (compression transparency), part 1: header maps as finite maps (`hget` after
`hset` / `hdel`), the sniffing formula of the base writer, and the relation `PassRel` between two
base writers that agree on everything a client can observe.
-/
namespace Rivaas.C15
open Rivaas.Http Rivaas.Compress

theorem lemma_hget_nil (k : Bytes) : hget [] k = none := rfl

theorem lemma_hget_cons (a : Bytes × List Bytes) (as : Hdrs) (k : Bytes) :
    hget (a :: as) k = if a.1 = k then some a.2 else hget as k := by
  unfold hget
  by_cases h : a.1 = k <;> simp [List.find?_cons, h]

theorem lemma_hget_hdel (h : Hdrs) (k k' : Bytes) :
    hget (hdel h k) k' = if k' = k then none else hget h k' := by
  induction h with
  | nil => simp [hdel, lemma_hget_nil]
  | cons a as ih =>
    have hd : hdel (a :: as) k = if a.1 = k then hdel as k else a :: hdel as k := by
      unfold hdel
      by_cases h : a.1 = k <;> simp [List.filter_cons, h]
    rw [hd]
    by_cases h1 : a.1 = k
    · simp only [h1, if_true, ih, lemma_hget_cons]
      by_cases h2 : k' = k
      · simp [h2]
      · have : ¬ (k = k') := fun e => h2 e.symm
        simp [h2, this]
    · simp only [h1, if_false, lemma_hget_cons, ih]
      by_cases h2 : k' = k
      · have : ¬ (a.1 = k') := fun e => h1 (e.trans h2)
        simp [h2, this]
        intro e; exact absurd e h1
      · simp [h2]

theorem lemma_hget_append (a b : Hdrs) (k : Bytes) :
    hget (a ++ b) k = (hget a k).or (hget b k) := by
  induction a with
  | nil => simp [lemma_hget_nil]
  | cons x xs ih =>
    simp only [List.cons_append, lemma_hget_cons, ih]
    by_cases h : x.1 = k <;> simp [h]

theorem lemma_hget_hset (h : Hdrs) (k : Bytes) (vs : List Bytes) (k' : Bytes) :
    hget (hset h k vs) k' = if k' = k then some vs else hget h k' := by
  unfold hset
  rw [lemma_hget_append, lemma_hget_hdel, lemma_hget_cons, lemma_hget_nil]
  by_cases hk : k' = k
  · simp [hk]
  · have : ¬ (k = k') := fun e => hk e.symm
    simp [hk, this]

theorem lemma_hhas_hget (h : Hdrs) (k : Bytes) : hhas h k = (hget h k).isSome := by
  induction h with
  | nil => simp [hhas, lemma_hget_nil]
  | cons a as ih =>
    unfold hhas at *
    simp only [List.any_cons, lemma_hget_cons, ih]
    by_cases ha : a.1 = k <;> simp [ha]

theorem lemma_hfirst_hget (h : Hdrs) (k : Bytes) :
    hfirst h k = match hget h k with | some (v :: _) => v | _ => [] := rfl



/-- the Content-Type net/http adds when the header block goes out with first chunk `chunk` -/
def ctypeFor (sn : Sniff) (status : Nat) (snap : Hdrs) (chunk : Bytes) : Option Bytes :=
  if !noBody status && (hfirst snap kCE).isEmpty && !hhas snap kCT && !chunk.isEmpty
  then some (sn (chunk.take 512)) else none

theorem lemma_emit (sn : Sniff) (b : Base) (p : Bytes) (h : b.sent = false) :
    b.emit sn p = { b with sent := true, pend := [], ctype := ctypeFor sn b.status b.snap p } := by
  simp [Base.emit, h, ctypeFor]

theorem lemma_emit_sent (sn : Sniff) (b : Base) (p : Bytes) (h : b.sent = true) : b.emit sn p = b := by
  simp [Base.emit, h]

theorem lemma_ctypeFor_append (sn : Sniff) (st : Nat) (snap : Hdrs) (a b : Bytes)
    (h : hhas snap kCT = true ∨ 512 ≤ a.length) :
    ctypeFor sn st snap (a ++ b) = ctypeFor sn st snap a := by
  unfold ctypeFor
  rcases h with h | h
  · simp [h]
  · have h1 : (a ++ b).take 512 = a.take 512 := by
      rw [List.take_append_of_le_length h]
    have h2 : (a ++ b).isEmpty = false := by
      cases a with
      | nil => simp at h
      | cons x xs => simp
    have h3 : a.isEmpty = false := by
      cases a with
      | nil => simp at h
      | cons x xs => simp
    simp [h1, h2, h3]

/-- everything of a base writer except the live header map agrees; the live maps agree as long as
    they can still be read (before WriteHeader) -/
def PassRel (a b : Base) : Prop :=
  a = { b with live := a.live } ∧ (b.wrote = false → a.live = b.live)

theorem lemma_pass_refl (b : Base) : PassRel b b := ⟨rfl, fun _ => rfl⟩

theorem lemma_pass_writeHeader (a b : Base) (c : Nat) (h : PassRel a b) :
    PassRel (a.writeHeader c) (b.writeHeader c) := by
  obtain ⟨h1, h2⟩ := h
  cases b with
  | mk live wrote status snap sent ctype pend body panicked =>
    cases a with
    | mk live' wrote' status' snap' sent' ctype' pend' body' panicked' =>
      simp only [Base.mk.injEq] at h1
      obtain ⟨_, rfl, rfl, rfl, rfl, rfl, rfl, rfl, rfl⟩ := h1
      simp only at h2
      unfold Base.writeHeader PassRel
      by_cases hw : wrote' = true
      · simp [hw]
      · have hw' : wrote' = false := by simpa using hw
        have := h2 hw'
        subst this
        simp only [hw']
        split
        · simp
        · split
          · simp [hw']
          · simp

theorem lemma_pass_emit (sn : Sniff) (a b : Base) (p : Bytes) (h : PassRel a b) (hw : b.wrote = true) :
    PassRel (a.emit sn p) (b.emit sn p) := by
  obtain ⟨h1, _⟩ := h
  cases b with
  | mk live wrote status snap sent ctype pend body panicked =>
    cases a with
    | mk live' wrote' status' snap' sent' ctype' pend' body' panicked' =>
      simp only [Base.mk.injEq] at h1
      obtain ⟨_, rfl, rfl, rfl, rfl, rfl, rfl, rfl, rfl⟩ := h1
      simp only at hw
      subst hw
      unfold Base.emit PassRel
      by_cases hs : sent' = true <;> simp [hs]

theorem lemma_pass_wrote (a b : Base) (h : PassRel a b) : a.wrote = b.wrote := by
  obtain ⟨h1, _⟩ := h; rw [h1]

theorem lemma_writeHeader_wrote (b : Base) (h : b.wrote = true) (c : Nat) : b.writeHeader c = b := by
  simp [Base.writeHeader, h]




theorem lemma_pass_eq_of_unwritten (a b : Base) (h : PassRel a b) (hw : b.wrote = false) : a = b := by
  obtain ⟨h1, h2⟩ := h
  rw [h1, h2 hw]

theorem lemma_pass_write (sn : Sniff) (a b : Base) (d : Bytes) (h : PassRel a b) :
    PassRel (a.write sn d).1 (b.write sn d).1 ∧ (a.write sn d).2 = (b.write sn d).2 := by
  by_cases hw : b.wrote = false
  · have := lemma_pass_eq_of_unwritten a b h hw
    subst this
    exact ⟨⟨rfl, fun _ => rfl⟩, rfl⟩
  · have hw' : b.wrote = true := by simpa using hw
    obtain ⟨h1, _⟩ := h
    cases b with
    | mk live wrote status snap sent ctype pend body panicked =>
      cases a with
      | mk live' wrote' status' snap' sent' ctype' pend' body' panicked' =>
        simp only [Base.mk.injEq] at h1
        obtain ⟨_, rfl, rfl, rfl, rfl, rfl, rfl, rfl, rfl⟩ := h1
        simp only at hw'
        subst hw'
        unfold Base.write PassRel
        simp only [if_true]
        by_cases hd : d.isEmpty = true
        · simp [hd]
        · simp only [hd]
          by_cases hn : noBody status' = true
          · simp [hn]
          · simp only [hn]
            by_cases hs : sent' = true
            · simp [hs]
            · simp only [hs]
              by_cases ho : pend'.length + d.length > 2048
              · simp [ho, Base.emit, hs]
              · simp [ho]

theorem lemma_pass_flush (sn : Sniff) (a b : Base) (h : PassRel a b) :
    PassRel (a.flush sn) (b.flush sn) := by
  by_cases hw : b.wrote = false
  · have := lemma_pass_eq_of_unwritten a b h hw
    subst this
    exact ⟨rfl, fun _ => rfl⟩
  · have hw' : b.wrote = true := by simpa using hw
    obtain ⟨h1, _⟩ := h
    cases b with
    | mk live wrote status snap sent ctype pend body panicked =>
      cases a with
      | mk live' wrote' status' snap' sent' ctype' pend' body' panicked' =>
        simp only [Base.mk.injEq] at h1
        obtain ⟨_, rfl, rfl, rfl, rfl, rfl, rfl, rfl, rfl⟩ := h1
        simp only at hw'
        subst hw'
        unfold Base.flush PassRel
        by_cases hs : sent' = true <;> simp [Base.emit, hs]

theorem lemma_pass_resp (a b : Base) (h : PassRel a b) : a.resp = b.resp := by
  obtain ⟨h1, _⟩ := h
  rw [h1]
  rfl


end Rivaas.C15
