import Rivaas.Lemmas.LifecycleOrder
/-
C09 — helper lemmas, part 3: what each function of the model contributes to the log.
-/
namespace Rivaas.Lifecycle
open Spec

/-! ### executeStartHooks -/

theorem kindsIn_sigIf (b : Bool) (ks : List Kind) (h : Kind.sig ∈ ks) : kindsIn ks (sigIf b) := by
  cases b
  · exact kindsIn_nil _
  · intro e he
    simp only [sigIf, if_true, List.mem_singleton] at he
    subst he; exact h

theorem startHooks_kinds (met : Bool) (i : Nat) (c : Bool) (hs : List HB) :
    kindsIn [.start, .sig] (startHooks met i c hs).evs := by
  induction hs generalizing i c with
  | nil => exact kindsIn_nil _
  | cons b rest ih =>
    cases b <;> simp only [startHooks]
    · exact kindsIn_cons (by simp [kind]) (kindsIn_cons (by simp [kind]) (ih _ _))
    · exact kindsIn_cons (by simp [kind]) (kindsIn_cons (by simp [kind]) (kindsIn_nil _))
    · exact kindsIn_cons (by simp [kind]) (kindsIn_cons (by simp [kind]) (kindsIn_nil _))
    · exact kindsIn_cons (by simp [kind]) (kindsIn_append (kindsIn_sigIf _ _ (by simp))
        (kindsIn_cons (by simp [kind]) (kindsIn_nil _)))
    · exact kindsIn_cons (by simp [kind]) (kindsIn_append (kindsIn_sigIf _ _ (by simp))
        (kindsIn_cons (by simp [kind]) (ih _ _)))

theorem filterMap_startTag_sigIf (b : Bool) : (sigIf b).filterMap startTag = [] := by
  cases b <;> simp [sigIf, startTag]

/-- OnStart hooks run one after the other, in registration order, up to and including the first that fails -/
theorem startHooks_tags (met : Bool) (i : Nat) (c : Bool) (hs : List HB) :
    (startHooks met i c hs).evs.filterMap startTag = seqUp (runCount hs) i := by
  induction hs generalizing i c with
  | nil => simp [startHooks, runCount, seqUp]
  | cons b rest ih =>
    cases b <;>
      simp [startHooks, runCount, startFails, seqUp, startTag, List.filterMap_append,
        filterMap_startTag_sigIf, ih]

theorem all_startProbeOk_sigIf (b : Bool) : (sigIf b).all startProbeOk = true := by
  cases b <;> simp [sigIf, startProbeOk]

/-- no OnStart hook sees the application serving -/
theorem startHooks_probes (met : Bool) (i : Nat) (c : Bool) (hs : List HB) :
    (startHooks met i c hs).evs.all startProbeOk = true := by
  induction hs generalizing i c with
  | nil => simp [startHooks]
  | cons b rest ih =>
    cases b <;> simp [startHooks, startProbeOk, List.all_append, all_startProbeOk_sigIf, ih]

/-- how the loop ends is decided by the first hook that fails -/
theorem startHooks_out (met : Bool) (i : Nat) (c : Bool) (hs : List HB) :
    (startHooks met i c hs).out = match hs.find? startFails with
      | none => .done
      | some .panic => .panicked
      | some _ => .failed := by
  induction hs generalizing i c with
  | nil => simp [startHooks]
  | cons b rest ih =>
    cases b <;> simp [startHooks, startFails, ih]

/-- a context that is cancelled when the hooks are done was cancelled in one of them -/
theorem startHooks_cancelled (met : Bool) (i : Nat) (c : Bool) (hs : List HB)
    (h : (startHooks met i c hs).cancelled = true) : c = true ∨ (startHooks met i c hs).evs.any isSig = true := by
  induction hs generalizing i c with
  | nil => left; simpa [startHooks] using h
  | cons b rest ih =>
    cases b <;> simp only [startHooks] at h ⊢
    · rcases ih _ _ h with h1 | h1
      · left; exact h1
      · right; simp [h1]
    · left; exact h
    · left; exact h
    · cases c
      · right; simp [sigIf, isSig]
      · left; rfl
    · cases c
      · right; simp [sigIf, isSig]
      · left; rfl

/-! ### executeReadyHooks -/

theorem readyHooks_kinds (app met : Bool) (i : Nat) (hs : List HB) :
    kindsIn [.ready] (readyHooks app met i hs) := by
  induction hs generalizing i with
  | nil => exact kindsIn_nil _
  | cons b rest ih => exact kindsIn_cons (by simp [kind]) (ih _)

theorem readyHooks_idx (app met : Bool) (i : Nat) (hs : List HB) :
    (readyHooks app met i hs).filterMap readyIdx = List.range' i hs.length := by
  induction hs generalizing i with
  | nil => simp [readyHooks]
  | cons b rest ih => simp [readyHooks, readyIdx, ih, List.range'_succ]

theorem readyHooks_probes (met : Bool) (i n : Nat) (hs : List HB) (h : i + hs.length ≤ n) :
    (readyHooks true met i hs).all (readyProbeOk n) = true := by
  induction hs generalizing i with
  | nil => simp [readyHooks]
  | cons b rest ih =>
    simp only [List.length_cons] at h
    simp only [readyHooks, List.all_cons, readyProbeOk, Bool.true_and, Bool.and_eq_true, decide_eq_true_eq]
    exact ⟨by omega, ih (i + 1) (by omega)⟩

/-! ### requests entering -/

theorem reqIns_kinds (k : Nat) (qs : List Rel) : kindsIn [.reqIn] (reqIns k qs) := by
  induction qs generalizing k with
  | nil => exact kindsIn_nil _
  | cons q rest ih => exact kindsIn_cons (by simp [kind]) (ih _)

theorem reqIns_idx (k : Nat) (qs : List Rel) :
    (reqIns k qs).filterMap reqInIdx = List.range' k qs.length := by
  induction qs generalizing k with
  | nil => simp [reqIns]
  | cons q rest ih => simp [reqIns, reqInIdx, ih, List.range'_succ]

/-! ### drain, flush, stop -/

theorem drainEvs_kinds (met : Bool) (k : Nat) (qs : List Rel) : kindsIn [.reqFin] (drainEvs met k qs) := by
  induction qs generalizing k with
  | nil => exact kindsIn_nil _
  | cons q rest ih =>
    simp only [drainEvs]
    apply kindsIn_append _ (ih _)
    split
    · exact kindsIn_cons (by simp [kind]) (kindsIn_nil _)
    · exact kindsIn_nil _

theorem drainEvs_probes (sc : Scenario) (k : Nat) (qs : List Rel) :
    (drainEvs sc.metrics k qs).all (reqProbeOk sc) = true := by
  induction qs generalizing k with
  | nil => simp [drainEvs]
  | cons q rest ih =>
    simp only [drainEvs, List.all_append, ih, Bool.and_true]
    split <;> simp [reqProbeOk]

theorem flushIf_kinds (b : Bool) : kindsIn [.flush] (flushIf b) := by
  cases b
  · exact kindsIn_nil _
  · exact kindsIn_cons (by simp [kind]) (kindsIn_nil _)

theorem stopHooks_kinds (i : Nat) (hs : List HB) : kindsIn [.stop] (stopHooks i hs) := by
  induction hs generalizing i with
  | nil => exact kindsIn_nil _
  | cons b rest ih => exact kindsIn_cons (by simp [kind]) (kindsIn_cons (by simp [kind]) (ih _))

/-- every OnStop hook runs, whatever the hooks do (each is called under its own recover) -/
theorem stopHooks_tags (i : Nat) (hs : List HB) :
    (stopHooks i hs).filterMap stopTag = seqUp hs.length i := by
  induction hs generalizing i with
  | nil => simp [stopHooks, seqUp]
  | cons b rest ih => simp [stopHooks, stopTag, seqUp, ih]

theorem stopHooks_probes (i n : Nat) (hs : List HB) (h : i + hs.length ≤ n) :
    (stopHooks i hs).all (stopProbeOk n) = true := by
  induction hs generalizing i with
  | nil => simp [stopHooks]
  | cons b rest ih =>
    simp only [List.length_cons] at h
    simp only [stopHooks, List.all_cons, stopProbeOk, Bool.not_false, Bool.true_and, Bool.and_eq_true,
      decide_eq_true_eq]
    exact ⟨by omega, by omega, ih (i + 1) (by omega)⟩

end Rivaas.Lifecycle
