import Rivaas.Lemmas.OpenAPIDoc
set_option linter.unusedSimpArgs false
/-
C07 — helper lemmas: insertion sort by key gives the same list for every permutation of an
association list with distinct keys (the engine behind "map iteration order cannot change the output").
-/
namespace Rivaas.OpenAPI
open List

theorem bytesLe_total : ∀ a b : B, bytesLe a b = true ∨ bytesLe b a = true
  | [], _ => Or.inl (by simp [bytesLe])
  | _ :: _, [] => Or.inr (by simp [bytesLe])
  | a :: as, b :: bs => by
    simp only [bytesLe]
    by_cases h1 : a.toNat < b.toNat
    · simp [h1]
    · by_cases h2 : b.toNat < a.toNat
      · simp [h2]
      · simp only [h1, h2, if_false]
        exact bytesLe_total as bs

theorem char_eq_of_toNat {a b : Char} (h : a.toNat = b.toNat) : a = b := by
  apply Char.ext
  apply UInt32.toNat_inj.1
  exact h

theorem bytesLe_antisymm : ∀ a b : B, bytesLe a b = true → bytesLe b a = true → a = b
  | [], [], _, _ => rfl
  | [], _ :: _, _, h => by simp [bytesLe] at h
  | _ :: _, [], h, _ => by simp [bytesLe] at h
  | a :: as, b :: bs, h1, h2 => by
    simp only [bytesLe] at h1 h2
    by_cases l1 : a.toNat < b.toNat
    · have : ¬ b.toNat < a.toNat := by omega
      simp [l1, this] at h2
    · by_cases l2 : b.toNat < a.toNat
      · simp [l1, l2] at h1
      · simp only [l1, l2, if_false] at h1 h2
        have : a = b := char_eq_of_toNat (by omega)
        rw [this, bytesLe_antisymm as bs h1 h2]

theorem bytesLe_trans : ∀ a b c : B, bytesLe a b = true → bytesLe b c = true → bytesLe a c = true
  | [], _, _, _, _ => by simp [bytesLe]
  | _ :: _, [], _, h, _ => by simp [bytesLe] at h
  | _ :: _, _ :: _, [], _, h => by simp [bytesLe] at h
  | a :: as, b :: bs, c :: cs, h1, h2 => by
    simp only [bytesLe] at h1 h2 ⊢
    by_cases l1 : a.toNat < b.toNat
    · by_cases l2 : b.toNat < c.toNat
      · have : a.toNat < c.toNat := by omega
        simp [this]
      · by_cases l3 : c.toNat < b.toNat
        · simp [l2, l3] at h2
        · have : a.toNat < c.toNat := by omega
          simp [this]
    · by_cases l1' : b.toNat < a.toNat
      · simp [l1, l1'] at h1
      · simp only [l1, l1', if_false] at h1
        by_cases l2 : b.toNat < c.toNat
        · have : a.toNat < c.toNat := by omega
          simp [this]
        · by_cases l3 : c.toNat < b.toNat
          · simp [l2, l3] at h2
          · simp only [l2, l3, if_false] at h2
            have e1 : ¬ a.toNat < c.toNat := by omega
            have e2 : ¬ c.toNat < a.toNat := by omega
            simp only [e1, e2, if_false]
            exact bytesLe_trans as bs cs h1 h2

/-! ## a generic insertion sort by a key with a total order -/

section
variable {α κ : Type} (key : α → κ) (le : κ → κ → Bool)

def insertBy (x : α) : List α → List α
  | [] => [x]
  | y :: ys => if le (key x) (key y) then x :: y :: ys else y :: insertBy x ys

def sortBy : List α → List α
  | [] => []
  | x :: xs => insertBy key le x (sortBy xs)

theorem insertBy_perm (x : α) : ∀ l : List α, insertBy key le x l ~ x :: l
  | [] => by simp [insertBy]
  | y :: ys => by
    simp only [insertBy]
    split
    · exact Perm.refl _
    · exact ((insertBy_perm x ys).cons y).trans (Perm.swap x y ys)

theorem sortBy_perm : ∀ l : List α, sortBy key le l ~ l
  | [] => by simp [sortBy]
  | x :: xs => by
    simp only [sortBy]
    exact (insertBy_perm key le x _).trans ((sortBy_perm xs).cons x)

variable (htotal : ∀ a b : κ, le a b = true ∨ le b a = true)
variable (htrans : ∀ a b c : κ, le a b = true → le b c = true → le a c = true)

include htotal htrans in
theorem insertBy_sorted (x : α) : ∀ l : List α, l.Pairwise (fun a b => le (key a) (key b) = true) →
    (insertBy key le x l).Pairwise (fun a b => le (key a) (key b) = true)
  | [], _ => by simp [insertBy]
  | y :: ys, h => by
    simp only [insertBy]
    rw [pairwise_cons] at h
    split
    next hle =>
      rw [pairwise_cons]
      refine ⟨?_, pairwise_cons.2 h⟩
      intro z hz
      simp only [mem_cons] at hz
      rcases hz with rfl | hz
      · exact hle
      · exact htrans _ _ _ hle (h.1 z hz)
    next hle =>
      rw [pairwise_cons]
      refine ⟨?_, insertBy_sorted x ys h.2⟩
      intro z hz
      have := (insertBy_perm key le x ys).mem_iff.1 hz
      simp only [mem_cons] at this
      rcases this with rfl | hz'
      · rcases htotal (key z) (key y) with h' | h'
        · exact absurd h' hle
        · exact h'
      · exact h.1 z hz'

include htotal htrans in
theorem sortBy_sorted : ∀ l : List α, (sortBy key le l).Pairwise (fun a b => le (key a) (key b) = true)
  | [] => by simp [sortBy]
  | x :: xs => by
    simp only [sortBy]
    exact insertBy_sorted key le htotal htrans x _ (sortBy_sorted xs)

variable (hanti : ∀ a b : κ, le a b = true → le b a = true → a = b)

include htotal htrans hanti in
/-- sorting two permutations of a list with distinct keys gives the same list -/
theorem sortBy_perm_invariant {l₁ l₂ : List α} (hp : l₁ ~ l₂) (hk : (l₁.map key).Nodup) :
    sortBy key le l₁ = sortBy key le l₂ := by
  have hperm : sortBy key le l₁ ~ sortBy key le l₂ := (sortBy_perm key le l₁).trans (hp.trans (sortBy_perm key le l₂).symm)
  apply Perm.eq_of_pairwise (le := fun a b => le (key a) (key b) = true) ?_
    (sortBy_sorted key le htotal htrans l₁) (sortBy_sorted key le htotal htrans l₂) hperm
  intro a b ha hb h1 h2
  have hkey : key a = key b := hanti _ _ h1 h2
  have ha' : a ∈ l₁ := (sortBy_perm key le l₁).mem_iff.1 ha
  have hb' : b ∈ l₁ := hp.mem_iff.2 ((sortBy_perm key le l₂).mem_iff.1 hb)
  -- distinct keys: equal keys mean the same element
  clear hperm ha hb hp h1 h2
  induction l₁ with
  | nil => simp at ha'
  | cons x xs ih =>
    simp only [map_cons, nodup_cons, mem_map, not_exists, not_and] at hk
    simp only [mem_cons] at ha' hb'
    rcases ha' with rfl | ha' <;> rcases hb' with rfl | hb'
    · rfl
    · exact absurd hkey.symm (hk.1 b hb')
    · exact absurd hkey (hk.1 a ha')
    · exact ih hk.2 ha' hb'
end

theorem sortByKey_eq_sortBy {β : Type} (l : List (B × β)) : sortByKey l = sortBy (fun x : B × β => x.1) bytesLe l := by
  induction l with
  | nil => rfl
  | cons x xs ih =>
    simp only [sortByKey, sortBy, ih]
    generalize sortBy (fun x : B × β => x.1) bytesLe xs = ys
    induction ys with
    | nil => rfl
    | cons y ys ih2 => simp only [insertKey, insertBy, ih2]

/-- **map iteration order of `byPath`**: every permutation of the association list gives the same sorted list -/
theorem sortByKey_perm_invariant {β : Type} {l₁ l₂ : List (B × β)} (hp : l₁ ~ l₂) (hk : (l₁.map (·.1)).Nodup) :
    sortByKey l₁ = sortByKey l₂ := by
  rw [sortByKey_eq_sortBy, sortByKey_eq_sortBy]
  exact sortBy_perm_invariant _ _ bytesLe_total bytesLe_trans bytesLe_antisymm hp hk

def natLe (a b : Nat) : Bool := decide (a ≤ b)

theorem sortStatuses_eq_sortBy (l : List (Nat × B × Option Ty)) :
    sortStatuses l = sortBy (fun x : Nat × B × Option Ty => x.1) natLe l := by
  induction l with
  | nil => rfl
  | cons x xs ih =>
    simp only [sortStatuses, sortBy, ih]
    generalize sortBy (fun x : Nat × B × Option Ty => x.1) natLe xs = ys
    induction ys with
    | nil => rfl
    | cons y ys ih2 => simp only [insertStatus, insertBy, ih2, natLe, decide_eq_true_eq]

/-- **map iteration order of `doc.ResponseTypes`** -/
theorem sortStatuses_perm_invariant {l₁ l₂ : List (Nat × B × Option Ty)} (hp : l₁ ~ l₂) (hk : (l₁.map (·.1)).Nodup) :
    sortStatuses l₁ = sortStatuses l₂ := by
  rw [sortStatuses_eq_sortBy, sortStatuses_eq_sortBy]
  exact sortBy_perm_invariant _ _ (by intro a b; simp [natLe]; omega) (by intro a b c; simp [natLe]; omega)
    (by intro a b; simp [natLe]; omega) hp hk

end Rivaas.OpenAPI
