import Rivaas.Model.Bind
/-
C04 helper lemmas: well-typed values, the algebra of `reach` / `updAt` (reflect index paths),
and the behaviour of the bind loop on the promoted fields of one embedded struct (`lift` lemmas).
-/
set_option linter.unusedSimpArgs false
set_option linter.unusedVariables false
namespace Rivaas.Bind

/-! ### well-typed destination values -/

mutual
/-- the value has the shape of the type as far as binding looks at it: structs field by field,
    pointers nil or pointing to a well-shaped value -/
def wt : Ty → Val → Bool
  | .struct fs, .struct vs => wts fs vs
  | .struct _, _ => false
  | .ptr _, .nil => true
  | .ptr t, .ptr x => wt t x
  | .ptr _, _ => false
  | _, _ => true
def wts : List Fld → List Val → Bool
  | [], [] => true
  | (_, t) :: fs, v :: vs => wt t v && wts fs vs
  | _, _ => false
end

mutual
theorem lemma_wt_zero : ∀ t : Ty, wt t (zero t) = true
  | .prim p => by cases p <;> simp [zero, zeroPrim, wt]
  | .ptr t => by simp [zero, wt]
  | .slice t => by simp [zero, wt]
  | .map t => by simp [zero, wt]
  | .struct fs => by simp only [zero, wt]; exact lemma_wts_zero fs
theorem lemma_wts_zero : ∀ fs : List Fld, wts fs (zeroFs fs) = true
  | [] => by simp [zeroFs, wts]
  | (h, t) :: fs => by simp [zeroFs, wts, lemma_wt_zero t, lemma_wts_zero fs]
end

theorem lemma_wts_get : ∀ (fs : List Fld) (vs : List Val) (i : Nat) (h : FieldHdr) (t : Ty),
    wts fs vs = true → fs[i]? = some (h, t) → ∃ v, vs[i]? = some v ∧ wt t v = true
  | [], _, i, h, t, _, hf => by simp at hf
  | (h', t') :: fs, [], i, h, t, hw, _ => by simp [wts] at hw
  | (h', t') :: fs, v :: vs, 0, h, t, hw, hf => by
    simp only [wts, Bool.and_eq_true] at hw
    simp only [List.getElem?_cons_zero, Option.some.injEq, Prod.mk.injEq] at hf
    exact ⟨v, by simp, by rw [← hf.2]; exact hw.1⟩
  | (h', t') :: fs, v :: vs, i+1, h, t, hw, hf => by
    simp only [wts, Bool.and_eq_true] at hw
    simp only [List.getElem?_cons_succ] at hf ⊢
    exact lemma_wts_get fs vs i h t hw.2 hf

theorem lemma_wts_set : ∀ (fs : List Fld) (vs : List Val) (i : Nat) (h : FieldHdr) (t : Ty) (v' : Val),
    wts fs vs = true → fs[i]? = some (h, t) → wt t v' = true → wts fs (vs.set i v') = true
  | [], _, i, h, t, _, _, hf, _ => by simp at hf
  | (h', t') :: fs, [], i, h, t, _, hw, _, _ => by simp [wts] at hw
  | (h', t') :: fs, v :: vs, 0, h, t, v', hw, hf, hv => by
    simp only [wts, Bool.and_eq_true] at hw
    simp only [List.getElem?_cons_zero, Option.some.injEq, Prod.mk.injEq] at hf
    simp only [List.set_cons_zero, wts, Bool.and_eq_true]
    exact ⟨by rw [hf.2]; exact hv, hw.2⟩
  | (h', t') :: fs, v :: vs, i+1, h, t, v', hw, hf, hv => by
    simp only [wts, Bool.and_eq_true] at hw
    simp only [List.getElem?_cons_succ] at hf
    simp only [List.set_cons_succ, wts, Bool.and_eq_true]
    exact ⟨hw.1, lemma_wts_set fs vs i h t v' hw.2 hf hv⟩

/-! ### one step of `reach` / `updAt` below a struct -/

theorem lemma_reach_one (vs : List Val) (i : Nat) :
    reach (.struct vs) [i] = match vs[i]? with
      | none => .bad
      | some x => .ok x := by
  simp only [reach]
  cases vs[i]? <;> rfl

theorem lemma_reach_struct (vs : List Val) (i a : Nat) (r : List Nat) (cs : List Val)
    (hv : vs[i]? = some (.struct cs)) : reach (.struct vs) (i :: a :: r) = reach (.struct cs) (a :: r) := by
  simp [reach, hv]

theorem lemma_reach_ptr (vs : List Val) (i a : Nat) (r : List Nat) (y : Val)
    (hv : vs[i]? = some (.ptr y)) : reach (.struct vs) (i :: a :: r) = reach y (a :: r) := by
  simp [reach, hv]

theorem lemma_reach_nil (vs : List Val) (i a : Nat) (r : List Nat)
    (hv : vs[i]? = some .nil) : reach (.struct vs) (i :: a :: r) = .nilptr := by
  simp [reach, hv]

theorem lemma_updAt_one (fs : List Fld) (vs : List Val) (i : Nat) (h : FieldHdr) (t : Ty) (x : Val) (f : Val → Val)
    (hf : fs[i]? = some (h, t)) (hv : vs[i]? = some x) :
    updAt (.struct fs) (.struct vs) [i] f = .struct (vs.set i (f x)) := by
  simp [updAt, hf, hv]

theorem lemma_updAt_struct (fs : List Fld) (vs : List Val) (i a : Nat) (r : List Nat) (h : FieldHdr)
    (sub : List Fld) (cs : List Val) (f : Val → Val)
    (hf : fs[i]? = some (h, .struct sub)) (hv : vs[i]? = some (.struct cs)) :
    updAt (.struct fs) (.struct vs) (i :: a :: r) f =
      .struct (vs.set i (updAt (.struct sub) (.struct cs) (a :: r) f)) := by
  simp [updAt, hf, hv]

theorem lemma_updAt_ptr (fs : List Fld) (vs : List Val) (i a : Nat) (r : List Nat) (h : FieldHdr)
    (t' : Ty) (y : Val) (f : Val → Val)
    (hf : fs[i]? = some (h, .ptr t')) (hv : vs[i]? = some (.ptr y)) :
    updAt (.struct fs) (.struct vs) (i :: a :: r) f = .struct (vs.set i (.ptr (updAt t' y (a :: r) f))) := by
  simp [updAt, hf, hv]

theorem lemma_updAt_nil (fs : List Fld) (vs : List Val) (i a : Nat) (r : List Nat) (h : FieldHdr)
    (t' : Ty) (f : Val → Val)
    (hf : fs[i]? = some (h, .ptr t')) (hv : vs[i]? = some .nil) :
    updAt (.struct fs) (.struct vs) (i :: a :: r) f =
      .struct (vs.set i (.ptr (updAt t' (zero t') (a :: r) f))) := by
  simp [updAt, hf, hv]

/-- below a struct value `updAt` yields a struct value -/
theorem lemma_updAt_shape (fs : List Fld) (vs : List Val) (a : Nat) (r : List Nat) (f : Val → Val) :
    ∃ cs', updAt (.struct fs) (.struct vs) (a :: r) f = .struct cs' := by
  simp only [updAt]
  split
  · split
    · exact ⟨_, rfl⟩
    · split <;> exact ⟨_, rfl⟩
  · exact ⟨_, rfl⟩


theorem lemma_set_self : ∀ (vs : List Val) (j : Nat) (x : Val), vs[j]? = some x → vs.set j x = vs
  | [], _, _, h => by simp at h
  | v :: vs, 0, x, h => by simp at h; simp [h]
  | v :: vs, j+1, x, h => by
    simp only [List.getElem?_cons_succ] at h
    simp [lemma_set_self vs j x h]

theorem lemma_get_set (vs : List Val) (j : Nat) (x y : Val) (h : vs[j]? = some x) : (vs.set j y)[j]? = some y := by
  have : j < vs.length := by
    cases hlt : decide (j < vs.length) with
    | true => simpa using hlt
    | false =>
      have : vs.length ≤ j := by simpa using hlt
      simp [List.getElem?_eq_none this] at h
  simp [this]

/-! ### the bind loop -/

variable (P : Params) (cfg : Cfg) (nest : Nest)

theorem lemma_loop_append (sty : List Fld) (g : Getter) (d : Nat) :
    ∀ (l1 l2 : List FieldInfo) (e : Val),
      loopWith P cfg nest sty (l1 ++ l2) e g d =
        match loopWith P cfg nest sty l1 e g d with
        | .ok e' => loopWith P cfg nest sty l2 e' g d
        | o => o
  | [], l2, e => by simp [loopWith]
  | f :: l1, l2, e => by
    simp only [List.cons_append, loopWith]
    split
    · rfl
    · split
      · exact lemma_loop_append sty g d l1 l2 e
      · split
        · split
          · exact lemma_loop_append sty g d l1 l2 _
          · rename_i o _
            cases o <;> rfl
        · rfl

/-- the field seen from the struct that embeds its struct at position `j` -/
def pj (j : Nat) (f : FieldInfo) : FieldInfo := { f with index := j :: f.index }

theorem lemma_wants_pj (g : Getter) (j : Nat) (f : FieldInfo) : wants g (pj j f) = wants g f := rfl

theorem lemma_action_pj (g : Getter) (d j : Nat) (f : FieldInfo) (cur : Val) :
    fieldAction P cfg nest g d (pj j f) cur = fieldAction P cfg nest g d f cur := rfl

/-- how the outcome of the loop over the fields of an embedded struct shows in the embedding value -/
def liftOut (vs : List Val) (j : Nat) (wrap : Val → Val) : Outcome → Outcome
  | .ok y => .ok (.struct (vs.set j (wrap y)))
  | o => o

/-- **embedded struct (by value).** The loop over the promoted fields of the struct embedded at
    position `j` acts on that struct alone. -/
theorem lemma_lift_struct (sty : List Fld) (j : Nat) (h : FieldHdr) (sub : List Fld) (g : Getter) (d : Nat)
    (hs : sty[j]? = some (h, .struct sub)) :
    ∀ (L : List FieldInfo) (vs cs : List Val), (∀ f ∈ L, f.index ≠ []) → vs[j]? = some (.struct cs) →
      loopWith P cfg nest sty (L.map (pj j)) (.struct vs) g d =
        liftOut vs j id (loopWith P cfg nest sub L (.struct cs) g d)
  | [], vs, cs, _, hv => by
    simp only [List.map_nil, loopWith, liftOut, id]
    rw [lemma_set_self vs j _ hv]
  | f :: L, vs, cs, hL, hv => by
    have hq : f.index ≠ [] := hL f (by simp)
    have hL' : ∀ f ∈ L, f.index ≠ [] := fun f hf => hL f (by simp [hf])
    obtain ⟨a, r, hidx⟩ : ∃ a r, f.index = a :: r := by
      cases hi : f.index with
      | nil => exact absurd hi hq
      | cons a r => exact ⟨a, r, rfl⟩
    simp only [List.map_cons, loopWith, pj, hidx, lemma_reach_struct vs j a r cs hv]
    have hw : wants g { f with index := j :: a :: r } = wants g f := rfl
    rw [hw]
    split
    · simp [liftOut]
    · split
      · exact lemma_lift_struct sty j h sub g d hs L vs cs hL' hv
      · rw [lemma_updAt_struct sty vs j a r h sub cs id hs hv]
        obtain ⟨cs1, hcs1⟩ := lemma_updAt_shape sub cs a r id
        rw [hcs1]
        have hv1 : (vs.set j (Val.struct cs1))[j]? = some (.struct cs1) := lemma_get_set vs j _ _ hv
        rw [lemma_reach_struct _ j a r cs1 hv1]
        split
        · rename_i cur hcur
          have ha : fieldAction P cfg nest g d { f with index := j :: a :: r } cur = fieldAction P cfg nest g d f cur := rfl
          rw [ha]
          split
          · rename_i nv hnv
            rw [lemma_updAt_struct sty _ j a r h sub cs1 _ hs hv1]
            obtain ⟨cs2, hcs2⟩ := lemma_updAt_shape sub cs1 a r (fun _ => nv)
            rw [hcs2, List.set_set]
            have hv2 : (vs.set j (Val.struct cs2))[j]? = some (.struct cs2) := lemma_get_set vs j _ _ hv
            rw [lemma_lift_struct sty j h sub g d hs L _ cs2 hL' hv2]
            cases loopWith P cfg nest sub L (Val.struct cs2) g d <;> simp [liftOut, List.set_set]
          · rename_i o _
            cases o <;> simp [liftOut, Stop.out]
        · simp [liftOut]


/-- **embedded pointer, allocated.** Same through the pointer. -/
theorem lemma_lift_ptr (sty : List Fld) (j : Nat) (h : FieldHdr) (sub : List Fld) (g : Getter) (d : Nat)
    (hs : sty[j]? = some (h, .ptr (.struct sub))) :
    ∀ (L : List FieldInfo) (vs cs : List Val), (∀ f ∈ L, f.index ≠ []) → vs[j]? = some (.ptr (.struct cs)) →
      loopWith P cfg nest sty (L.map (pj j)) (.struct vs) g d =
        liftOut vs j .ptr (loopWith P cfg nest sub L (.struct cs) g d)
  | [], vs, cs, _, hv => by
    simp only [List.map_nil, loopWith, liftOut]
    rw [lemma_set_self vs j _ hv]
  | f :: L, vs, cs, hL, hv => by
    have hq : f.index ≠ [] := hL f (by simp)
    have hL' : ∀ f ∈ L, f.index ≠ [] := fun f hf => hL f (by simp [hf])
    obtain ⟨a, r, hidx⟩ : ∃ a r, f.index = a :: r := by
      cases hi : f.index with
      | nil => exact absurd hi hq
      | cons a r => exact ⟨a, r, rfl⟩
    simp only [List.map_cons, loopWith, pj, hidx, lemma_reach_ptr vs j a r _ hv]
    have hw : wants g { f with index := j :: a :: r } = wants g f := rfl
    rw [hw]
    split
    · simp [liftOut]
    · split
      · exact lemma_lift_ptr sty j h sub g d hs L vs cs hL' hv
      · rw [lemma_updAt_ptr sty vs j a r h (.struct sub) (.struct cs) id hs hv]
        obtain ⟨cs1, hcs1⟩ := lemma_updAt_shape sub cs a r id
        rw [hcs1]
        have hv1 : (vs.set j (Val.ptr (.struct cs1)))[j]? = some (.ptr (.struct cs1)) := lemma_get_set vs j _ _ hv
        rw [lemma_reach_ptr _ j a r _ hv1]
        split
        · rename_i cur hcur
          have ha : fieldAction P cfg nest g d { f with index := j :: a :: r } cur = fieldAction P cfg nest g d f cur := rfl
          rw [ha]
          split
          · rename_i nv hnv
            rw [lemma_updAt_ptr sty _ j a r h (.struct sub) (.struct cs1) _ hs hv1]
            obtain ⟨cs2, hcs2⟩ := lemma_updAt_shape sub cs1 a r (fun _ => nv)
            rw [hcs2, List.set_set]
            have hv2 : (vs.set j (Val.ptr (.struct cs2)))[j]? = some (.ptr (.struct cs2)) := lemma_get_set vs j _ _ hv
            rw [lemma_lift_ptr sty j h sub g d hs L _ cs2 hL' hv2]
            cases loopWith P cfg nest sub L (Val.struct cs2) g d <;> simp [liftOut, List.set_set]
          · rename_i o _
            cases o <;> simp [liftOut, Stop.out]
        · simp [liftOut]

/-- **embedded pointer, nil.** Nothing happens until the first promoted field that receives a
    value; from there on the loop behaves as if the pointer had been allocated beforehand. -/
theorem lemma_lift_nil (sty : List Fld) (j : Nat) (h : FieldHdr) (sub : List Fld) (g : Getter) (d : Nat)
    (hs : sty[j]? = some (h, .ptr (.struct sub))) :
    ∀ (L : List FieldInfo) (vs : List Val),
      (∀ f ∈ L, f.index ≠ [] ∧ reach (zero (.struct sub)) f.index ≠ .bad) → vs[j]? = some .nil →
      loopWith P cfg nest sty (L.map (pj j)) (.struct vs) g d =
        if L.any (wants g) then
          loopWith P cfg nest sty (L.map (pj j)) (.struct (vs.set j (.ptr (zero (.struct sub))))) g d
        else .ok (.struct vs)
  | [], vs, _, hv => by simp [loopWith]
  | f :: L, vs, hL, hv => by
    obtain ⟨hq, hbad⟩ := hL f (by simp)
    have hL' : ∀ f ∈ L, f.index ≠ [] ∧ reach (zero (.struct sub)) f.index ≠ .bad := fun f hf => hL f (by simp [hf])
    obtain ⟨a, r, hidx⟩ : ∃ a r, f.index = a :: r := by
      cases hi : f.index with
      | nil => exact absurd hi hq
      | cons a r => exact ⟨a, r, rfl⟩
    have hv0 : (vs.set j (Val.ptr (zero (.struct sub))))[j]? = some (.ptr (zero (.struct sub))) := lemma_get_set vs j _ _ hv
    have hw : wants g { f with index := j :: a :: r } = wants g f := rfl
    by_cases hwf : wants g f = true
    · -- the field receives a value: both sides allocate the same struct
      simp only [List.any_cons, hwf, Bool.true_or, if_true]
      simp only [List.map_cons, loopWith, pj, hidx, lemma_reach_nil vs j a r hv,
        lemma_reach_ptr _ j a r _ hv0, hw, hwf]
      rw [hidx] at hbad
      rw [lemma_updAt_nil sty vs j a r h (.struct sub) id hs hv,
        lemma_updAt_ptr sty _ j a r h (.struct sub) _ id hs hv0, List.set_set]
      cases hz : reach (zero (.struct sub)) (a :: r) with
      | bad => exact absurd hz hbad
      | ok x => simp
      | nilptr => simp
    · have hwf' : wants g f = false := by simpa using hwf
      simp only [List.any_cons, hwf', Bool.false_or]
      simp only [List.map_cons, loopWith, pj, hidx, lemma_reach_nil vs j a r hv,
        lemma_reach_ptr _ j a r _ hv0, hw, hwf']
      rw [hidx] at hbad
      rw [lemma_lift_nil sty j h sub g d hs L vs hL' hv]
      cases hz : reach (zero (.struct sub)) (a :: r) with
      | bad => exact absurd hz hbad
      | ok x => simp
      | nilptr => simp

end Rivaas.Bind
