import Rivaas.Spec.Version
/-
String-level lemmas for C13: the Go-style scanners of the model (`index`, `indexByte`, `splitByte`,
`trimSpace`, prefix/suffix tests, slicing) against the list combinators the spec is written with.
-/
namespace Rivaas.Version
open Rivaas.Version.Spec

/-! ### `takeWhile` / `dropWhile` facts missing from core -/

theorem lemma_takeWhile_eq_self {p : Char → Bool} {l : Bytes} (h : ∀ x ∈ l, p x = true) :
    l.takeWhile p = l := by
  induction l with
  | nil => rfl
  | cons a t ih =>
    simp only [List.takeWhile_cons, h a (by simp), if_true]
    rw [ih (fun x hx => h x (by simp [hx]))]

theorem lemma_dropWhile_eq_nil {p : Char → Bool} {l : Bytes} (h : ∀ x ∈ l, p x = true) :
    l.dropWhile p = [] := by
  induction l with
  | nil => rfl
  | cons a t ih =>
    simp only [List.dropWhile_cons, h a (by simp), if_true]
    exact ih (fun x hx => h x (by simp [hx]))

theorem lemma_dropWhile_nil_all {p : Char → Bool} {l : Bytes} (h : l.dropWhile p = []) :
    ∀ x ∈ l, p x = true := by
  induction l with
  | nil => simp
  | cons a t ih =>
    simp only [List.dropWhile_cons] at h
    split at h
    · rename_i ha
      intro x hx
      rcases List.mem_cons.1 hx with rfl | hx
      · exact ha
      · exact ih h x hx
    · simp at h

theorem lemma_mem_takeWhile {p : Char → Bool} {l : Bytes} {x : Char} (h : x ∈ l.takeWhile p) :
    p x = true := by
  induction l with
  | nil => simp at h
  | cons a t ih =>
    simp only [List.takeWhile_cons] at h
    split at h
    · rename_i ha
      rcases List.mem_cons.1 h with rfl | h
      · exact ha
      · exact ih h
    · simp at h

/-! ### `indexByte` -/

theorem lemma_indexByteFrom_none (b : Char) (l : Bytes) (i : Nat) :
    indexByteFrom b l i = none ↔ b ∉ l := by
  induction l generalizing i with
  | nil => simp [indexByteFrom]
  | cons c cs ih =>
    simp only [indexByteFrom]
    by_cases h : c = b
    · simp [h]
    · simp only [h, if_false, ih, List.mem_cons]
      constructor
      · intro hn hm
        rcases hm with hm | hm
        · exact h hm.symm
        · exact hn hm
      · intro hn hm
        exact hn (Or.inr hm)

theorem lemma_indexByteFrom_some (b : Char) (l : Bytes) (i e : Nat) (h : indexByteFrom b l i = some e) :
    i ≤ e ∧ l.take (e - i) = l.takeWhile (· != b) ∧ l.drop (e - i) = l.dropWhile (· != b) ∧ b ∈ l := by
  induction l generalizing i with
  | nil => simp [indexByteFrom] at h
  | cons c cs ih =>
    simp only [indexByteFrom] at h
    by_cases hc : c = b
    · simp only [hc, if_true, Option.some.injEq] at h
      subst h
      simp [hc]
    · simp only [hc, if_false] at h
      obtain ⟨h1, h2, h3, h4⟩ := ih (i + 1) h
      have hne : (c != b) = true := by simpa using hc
      have : e - i = (e - (i + 1)) + 1 := by omega
      refine ⟨by omega, ?_, ?_, by simp [h4]⟩
      · rw [this]; simp [hne, h2]
      · rw [this]; simp [hne, h3]

theorem lemma_indexByte_none (l : Bytes) (b : Char) (h : indexByte l b = none) :
    l.takeWhile (· != b) = l ∧ l.dropWhile (· != b) = [] := by
  have hb : b ∉ l := (lemma_indexByteFrom_none b l 0).1 h
  constructor
  · apply lemma_takeWhile_eq_self
    intro a ha
    simp only [bne_iff_ne, ne_eq]
    intro hab; exact hb (hab ▸ ha)
  · apply lemma_dropWhile_eq_nil
    intro a ha
    simp only [bne_iff_ne, ne_eq]
    intro hab; exact hb (hab ▸ ha)

theorem lemma_indexByte_some (l : Bytes) (b : Char) (e : Nat) (h : indexByte l b = some e) :
    l.take e = l.takeWhile (· != b) ∧ l.drop e = l.dropWhile (· != b) := by
  obtain ⟨_, h2, h3, _⟩ := lemma_indexByteFrom_some b l 0 e h
  exact ⟨by simpa using h2, by simpa using h3⟩

/-! ### splitting -/

theorem lemma_splitByte_eq (sep : Char) (l : Bytes) : splitByte sep l = Spec.splitOn sep l := by
  induction l with
  | nil => simp [splitByte, Spec.splitOn]
  | cons c cs ih =>
    simp only [splitByte, Spec.splitOn, List.foldr_cons, Spec.splitStep] at ih ⊢
    rw [ih]
    by_cases hc : c = sep
    · simp [hc]
    · simp only [hc, if_false]
      cases List.foldr _ _ cs <;> rfl

/-! ### trimming -/

/-- no control character other than HTAB: what `net/http` lets through in a header value -/
def HeaderSafe (l : Bytes) : Prop := ∀ c ∈ l, c ≠ '\n' ∧ c ≠ '\x0b' ∧ c ≠ '\x0c' ∧ c ≠ '\r'

theorem lemma_isSpace_eq_isOWS (c : Char) (h : c ≠ '\n' ∧ c ≠ '\x0b' ∧ c ≠ '\x0c' ∧ c ≠ '\r') :
    isSpace c = isOWS c := by
  simp [isSpace, isOWS, h.1, h.2.1, h.2.2.1, h.2.2.2]

theorem lemma_dropWhile_congr {p q : Char → Bool} (l : Bytes) (h : ∀ c ∈ l, p c = q c) :
    l.dropWhile p = l.dropWhile q := by
  induction l with
  | nil => rfl
  | cons c cs ih =>
    have hc := h c (by simp)
    simp only [List.dropWhile_cons, hc]
    split
    · exact ih (fun d hd => h d (by simp [hd]))
    · rfl

theorem lemma_trimSpace_eq_trimOWS (l : Bytes) (h : HeaderSafe l) : trimSpace l = trimOWS l := by
  unfold trimSpace trimRight trimLeft trimOWS
  have h1 : l.dropWhile isSpace = l.dropWhile isOWS :=
    lemma_dropWhile_congr l (fun c hc => lemma_isSpace_eq_isOWS c (h c hc))
  rw [h1]
  have h2 : ∀ c ∈ (l.dropWhile isOWS).reverse, isSpace c = isOWS c := by
    intro c hc
    have : c ∈ l := (List.dropWhile_sublist _).subset (List.mem_reverse.1 hc)
    exact lemma_isSpace_eq_isOWS c (h c this)
  rw [lemma_dropWhile_congr _ h2]

theorem lemma_trimOWS_safe (l : Bytes) (h : HeaderSafe l) : HeaderSafe (trimOWS l) := by
  intro c hc
  unfold trimOWS at hc
  have h1 : c ∈ (l.dropWhile isOWS).reverse := (List.dropWhile_sublist _).subset (List.mem_reverse.1 hc)
  exact h c ((List.dropWhile_sublist _).subset (List.mem_reverse.1 h1))

/-- right trim -/
def rtrim (l : Bytes) : Bytes := (l.reverse.dropWhile isOWS).reverse

theorem lemma_trimOWS_def (l : Bytes) : trimOWS l = rtrim (l.dropWhile isOWS) := rfl

/-- right-trimming stops at a non-blank character -/
theorem lemma_rtrim_append_cons (p q : Bytes) (c : Char) (hc : isOWS c = false) :
    rtrim (p ++ c :: q) = p ++ c :: rtrim q := by
  unfold rtrim
  simp only [List.reverse_append, List.reverse_cons, List.append_assoc, List.singleton_append]
  rw [List.dropWhile_append]
  split
  · rename_i hq
    have hq' : List.dropWhile isOWS q.reverse = [] := by simpa using hq
    simp [hq', hc]
  · simp

theorem lemma_rtrim_idem (l : Bytes) : rtrim (rtrim l) = rtrim l := by
  unfold rtrim
  simp only [List.reverse_reverse]
  congr 1
  cases h : List.dropWhile isOWS l.reverse with
  | nil => rfl
  | cons a t =>
    have : isOWS a = false := by
      have := List.head_dropWhile_not (p := isOWS) (l := l.reverse) (by simp [h])
      simpa [h] using this
    simp [this]

theorem lemma_rtrim_mem (l : Bytes) (c : Char) (h : c ∈ rtrim l) : c ∈ l := by
  unfold rtrim at h
  exact List.mem_reverse.1 ((List.dropWhile_sublist _).subset (List.mem_reverse.1 h))

theorem lemma_ltrim_of_head (l : Bytes) (h : ∀ c, l.head? = some c → isOWS c = false) :
    l.dropWhile isOWS = l := by
  cases l with
  | nil => rfl
  | cons a t => simp [h a (by simp)]

theorem lemma_head_dropWhile (l : Bytes) : ∀ c, (l.dropWhile isOWS).head? = some c → isOWS c = false := by
  intro c hc
  induction l with
  | nil => simp at hc
  | cons a t ih =>
    simp only [List.dropWhile_cons] at hc
    split at hc
    · exact ih hc
    · rename_i ha
      simp at hc
      subst hc
      simpa using ha

theorem lemma_head_rtrim (l : Bytes) (h : ∀ c, l.head? = some c → isOWS c = false) :
    ∀ c, (rtrim l).head? = some c → isOWS c = false := by
  intro c hc
  cases l with
  | nil => simp [rtrim] at hc
  | cons a t =>
    have ha := h a (by simp)
    have := lemma_rtrim_append_cons [] t a ha
    simp only [List.nil_append] at this
    rw [this] at hc
    simp at hc
    subst hc
    exact ha

theorem lemma_sep_not_ows : isOWS ';' = false := by decide

/-- the media type of one Accept item, as the code computes it (trim, cut at `;`, trim again),
    is the trimmed text before the first `;` -/
theorem lemma_item_mediaType (x : Bytes) :
    trimOWS ((trimOWS x).takeWhile (· != ';')) = trimOWS (x.takeWhile (· != ';')) := by
  -- x = ws ++ y with y = ltrim x
  have hx : x = x.takeWhile isOWS ++ x.dropWhile isOWS := (List.takeWhile_append_dropWhile).symm
  generalize hy : x.dropWhile isOWS = y at hx
  have hyhead : ∀ c, y.head? = some c → isOWS c = false := by
    rw [← hy]; exact lemma_head_dropWhile x
  have hws : ∀ a ∈ x.takeWhile isOWS, (a != ';') = true := by
    intro a ha
    have : isOWS a = true := lemma_mem_takeWhile ha
    simp only [bne_iff_ne, ne_eq]
    intro h; subst h; simp [isOWS] at this
  have hwsall : ∀ a ∈ x.takeWhile isOWS, isOWS a = true := fun a ha => lemma_mem_takeWhile ha
  -- right-hand side: trimOWS (ws ++ takeWhile y) = rtrim (ltrim (takeWhile y))
  have hR : trimOWS (x.takeWhile (· != ';')) = trimOWS (y.takeWhile (· != ';')) := by
    conv => lhs; rw [hx]
    rw [List.takeWhile_append_of_pos hws]
    rw [lemma_trimOWS_def, lemma_trimOWS_def, List.dropWhile_append_of_pos hwsall]
  rw [hR, lemma_trimOWS_def x, hy]
  -- now compare takeWhile on (rtrim y) and on y
  by_cases hs : ';' ∈ y
  · obtain ⟨p, q, hpq, hp⟩ : ∃ p q, y = p ++ ';' :: q ∧ ';' ∉ p := by
      refine ⟨y.takeWhile (· != ';'), (y.dropWhile (· != ';')).tail, ?_, ?_⟩
      · have hd : y.dropWhile (· != ';') ≠ [] := by
          intro h
          have := lemma_dropWhile_nil_all h _ hs
          simp at this
        cases hdd : y.dropWhile (· != ';') with
        | nil => exact absurd hdd hd
        | cons a t =>
          have ha : (a != ';') = false := by
            have := List.head_dropWhile_not (p := (· != ';')) (l := y) (by simp [hdd])
            simpa [hdd] using this
          have : a = ';' := by simpa using ha
          subst this
          have := List.takeWhile_append_dropWhile (p := (· != ';')) (l := y)
          rw [hdd] at this
          simpa using this.symm
      · intro hm
        have := lemma_mem_takeWhile hm
        simp at this
    have htw : ∀ r : Bytes, (p ++ ';' :: r).takeWhile (· != ';') = p := by
      intro r
      rw [List.takeWhile_append]
      have : List.takeWhile (fun x => x != ';') p = p := by
        apply lemma_takeWhile_eq_self
        intro a ha
        simp only [bne_iff_ne, ne_eq]
        intro h; exact hp (h ▸ ha)
      simp [this]
    rw [hpq, lemma_rtrim_append_cons p q ';' lemma_sep_not_ows, htw, htw]
  · have h1 : y.takeWhile (· != ';') = y := by
      apply lemma_takeWhile_eq_self
      intro a ha
      simp only [bne_iff_ne, ne_eq]
      intro h; exact hs (h ▸ ha)
    have h2 : (rtrim y).takeWhile (· != ';') = rtrim y := by
      apply lemma_takeWhile_eq_self
      intro a ha
      simp only [bne_iff_ne, ne_eq]
      intro h; exact hs (h ▸ lemma_rtrim_mem y a ha)
    rw [h1, h2, lemma_trimOWS_def, lemma_trimOWS_def, lemma_ltrim_of_head y hyhead,
      lemma_ltrim_of_head (rtrim y) (lemma_head_rtrim y hyhead), lemma_rtrim_idem]

/-! ### prefix, suffix, middle -/

theorem lemma_middle_iff (pfx sfx mt : Bytes) :
    (hasPrefix mt pfx = true ∧ hasSuffix mt sfx = true ∧ pfx.length + sfx.length ≤ mt.length) ↔
    mt = pfx ++ (mt.drop pfx.length).take (mt.length - pfx.length - sfx.length) ++ sfx := by
  unfold hasPrefix hasSuffix
  rw [List.isPrefixOf_iff_prefix, List.isSuffixOf_iff_suffix]
  constructor
  · rintro ⟨hp, hs, hl⟩
    have h1 : pfx ++ mt.drop pfx.length = mt := List.prefix_iff_eq_append.1 hp
    have h2 : sfx = mt.drop (mt.length - sfx.length) := List.suffix_iff_eq_drop.1 hs
    have h3 : mt.drop pfx.length =
        (mt.drop pfx.length).take (mt.length - pfx.length - sfx.length) ++
        (mt.drop pfx.length).drop (mt.length - pfx.length - sfx.length) := (List.take_append_drop _ _).symm
    have h4 : (mt.drop pfx.length).drop (mt.length - pfx.length - sfx.length) = sfx := by
      rw [List.drop_drop]
      have : pfx.length + (mt.length - pfx.length - sfx.length) = mt.length - sfx.length := by omega
      rw [this, ← h2]
    rw [h4] at h3
    calc mt = pfx ++ mt.drop pfx.length := h1.symm
      _ = pfx ++ ((mt.drop pfx.length).take (mt.length - pfx.length - sfx.length) ++ sfx) := by rw [← h3]
      _ = _ := by simp
  · intro h
    refine ⟨?_, ?_, ?_⟩
    · exact ⟨_, by rw [List.append_assoc] at h; exact h.symm⟩
    · exact ⟨_, h.symm⟩
    · have := congrArg List.length h
      simp only [List.length_append] at this
      omega

end Rivaas.Version

namespace Rivaas.Version
open Rivaas.Version.Spec

theorem lemma_trimOWS_idem (x : Bytes) : trimOWS (trimOWS x) = trimOWS x := by
  rw [lemma_trimOWS_def x, lemma_trimOWS_def,
    lemma_ltrim_of_head _ (lemma_head_rtrim _ (lemma_head_dropWhile x)), lemma_rtrim_idem]

theorem lemma_take_safe (l : Bytes) (n : Nat) (h : HeaderSafe l) : HeaderSafe (l.take n) :=
  fun c hc => h c ((List.take_sublist n l).subset hc)

/-- one iteration of the `extractFromAccept` loop computes the standard media type of the item -/
theorem lemma_accept_mediaType (item : Bytes) (h : HeaderSafe item) :
    acceptMediaType item = trimOWS (item.takeWhile (· != ';')) := by
  unfold acceptMediaType
  rw [lemma_trimSpace_eq_trimOWS item h]
  cases hi : indexByte (trimOWS item) ';' with
  | none =>
    simp only [hi]
    have := (lemma_indexByte_none _ _ hi).1
    rw [← lemma_item_mediaType, this, lemma_trimOWS_idem]
  | some semi =>
    simp only [hi]
    rw [lemma_trimSpace_eq_trimOWS _ (lemma_take_safe _ _ (lemma_trimOWS_safe item h)),
      (lemma_indexByte_some _ _ _ hi).1, lemma_item_mediaType]

theorem lemma_accept_conditions (pfx sfx mt : Bytes) (k : Option Bytes) :
    (if !hasPrefix mt pfx then k
     else if !hasSuffix mt sfx then k
     else if mt.length < pfx.length + sfx.length then k
     else if sliceFromTo mt pfx.length (mt.length - sfx.length) != [] then
       some (sliceFromTo mt pfx.length (mt.length - sfx.length))
     else k) =
    (match middle pfx sfx mt with
     | some v => some v
     | none => k) := by
  have hslice : sliceFromTo mt pfx.length (mt.length - sfx.length) =
      (mt.drop pfx.length).take (mt.length - pfx.length - sfx.length) := by
    unfold sliceFromTo
    rw [Nat.sub_right_comm]
  have hiff := lemma_middle_iff pfx sfx mt
  rw [hslice]
  unfold middle
  by_cases h1 : hasPrefix mt pfx = true
  · by_cases h2 : hasSuffix mt sfx = true
    · by_cases h3 : pfx.length + sfx.length ≤ mt.length
      · have heq := hiff.1 ⟨h1, h2, h3⟩
        have h3' : ¬ (mt.length < pfx.length + sfx.length) := by omega
        simp only [h1, h2, h3', Bool.not_true, Bool.false_eq_true, if_false]
        by_cases hv : (mt.drop pfx.length).take (mt.length - pfx.length - sfx.length) = []
        · simp [hv]
        · have : ((mt.drop pfx.length).take (mt.length - pfx.length - sfx.length) != []) = true := by
            simpa using hv
          simp only [this, if_true]
          rw [if_pos ⟨heq, hv⟩]
      · have h3' : mt.length < pfx.length + sfx.length := by omega
        have hne : ¬ (mt = pfx ++ (mt.drop pfx.length).take (mt.length - pfx.length - sfx.length) ++ sfx) :=
          fun h => h3 (hiff.2 h).2.2
        simp only [h1, h2, h3', Bool.not_true, Bool.false_eq_true, if_false, if_true]
        rw [if_neg (fun h => hne h.1)]
    · have hne : ¬ (mt = pfx ++ (mt.drop pfx.length).take (mt.length - pfx.length - sfx.length) ++ sfx) :=
        fun h => h2 (hiff.2 h).2.1
      have h2' : hasSuffix mt sfx = false := by simpa using h2
      simp only [h1, h2', Bool.not_true, Bool.not_false, Bool.false_eq_true, if_false, if_true]
      rw [if_neg (fun h => hne h.1)]
  · have hne : ¬ (mt = pfx ++ (mt.drop pfx.length).take (mt.length - pfx.length - sfx.length) ++ sfx) :=
      fun h => h1 (hiff.2 h).1
    have h1' : hasPrefix mt pfx = false := by simpa using h1
    simp only [h1', Bool.not_false, if_true]
    rw [if_neg (fun h => hne h.1)]

theorem lemma_acceptLoop_eq (pfx sfx : Bytes) (items : List Bytes) (h : ∀ it ∈ items, HeaderSafe it) :
    acceptLoop pfx sfx items =
      (items.map fun r => trimOWS (r.takeWhile (· != ';'))).findSome? (middle pfx sfx) := by
  induction items with
  | nil => simp [acceptLoop]
  | cons item rest ih =>
    have hi := h item (by simp)
    have ih' := ih (fun it hit => h it (by simp [hit]))
    simp only [acceptLoop, List.map_cons, List.findSome?_cons]
    rw [lemma_accept_mediaType item hi, lemma_accept_conditions, ih']
    cases middle pfx sfx (trimOWS (List.takeWhile (fun x => x != ';') item)) <;> rfl

theorem lemma_splitOn_safe (sep : Char) (l : Bytes) (h : HeaderSafe l) :
    ∀ it ∈ Spec.splitOn sep l, HeaderSafe it := by
  induction l with
  | nil => intro it hit; simp [Spec.splitOn] at hit; subst hit; intro c hc; simp at hc
  | cons c cs ih =>
    have hcs : HeaderSafe cs := fun d hd => h d (by simp [hd])
    have ih' := ih hcs
    intro it hit
    simp only [Spec.splitOn, List.foldr_cons] at hit ih'
    generalize List.foldr (Spec.splitStep sep) [[]] cs = acc at hit ih'
    unfold Spec.splitStep at hit
    by_cases hc : c = sep
    · simp only [hc, if_true, List.mem_cons] at hit
      rcases hit with rfl | hit
      · intro d hd; simp at hd
      · exact ih' it hit
    · simp only [hc, if_false] at hit
      cases acc with
      | nil =>
        simp at hit; subst hit
        intro d hd; simp at hd; subst hd; exact h d (by simp)
      | cons a t =>
        simp only [List.mem_cons] at hit
        rcases hit with rfl | hit
        · intro d hd
          rcases List.mem_cons.1 hd with rfl | hd
          · exact h d (by simp)
          · exact ih' a (by simp) d hd
        · exact ih' it (by simp [hit])

/-- **Accept detection agrees with standard parsing** (every header value `net/http` lets through) -/
theorem lemma_accept_scan_eq_std (pattern accept : Bytes) (i : Nat)
    (hp : index pattern versionPlaceholder = some i) (hs : HeaderSafe accept) :
    extractFromAccept (acceptParts pattern).1 (acceptParts pattern).2 accept = acceptVersion pattern accept := by
  unfold extractFromAccept acceptVersion acceptParts mediaTypes
  simp only [hp]
  rw [lemma_splitByte_eq, lemma_acceptLoop_eq _ _ _ (lemma_splitOn_safe ',' accept hs)]
  rfl

end Rivaas.Version
