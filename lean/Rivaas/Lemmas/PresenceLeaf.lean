import Rivaas.Spec.Presence
import Rivaas.Lemmas.BytesOrder
/-
C05 — `LeafPaths` after the repair of K05 (prefix set, appendix sketch D) against the declarative
`IsLeaf` (a present path with no present descendant), and its independence of map iteration order.
-/
namespace Rivaas.Presence

theorem mem_dottedPrefixes (p q : Path) : p ∈ dottedPrefixes q ↔ isParentOf p q := by
  induction q generalizing p with
  | nil => simp [dottedPrefixes, isParentOf]
  | cons c cs ih =>
    unfold dottedPrefixes isParentOf
    cases p with
    | nil =>
      by_cases hc : c = '.'
      · simp [hc]
      · simp [hc, List.prefix_cons_iff]
        intro h; exact hc h.symm
    | cons d ds =>
      have ih' := ih ds
      unfold isParentOf at ih'
      by_cases hc : c = '.'
      · simp [hc, List.cons_prefix_cons, ih']
        constructor
        · rintro ⟨h, rfl⟩; exact ⟨rfl, h⟩
        · rintro ⟨rfl, h⟩; exact ⟨h, rfl⟩
      · simp [hc, List.cons_prefix_cons, ih']
        constructor
        · rintro ⟨h, rfl⟩; exact ⟨rfl, h⟩
        · rintro ⟨rfl, h⟩; exact ⟨h, rfl⟩

/-- the filter of the repaired algorithm keeps exactly the leaves -/
theorem mem_leafFilter (pm : List Path) (p : Path) :
    p ∈ pm.filter (fun p => !(pm.flatMap dottedPrefixes).contains p) ↔ IsLeaf pm p := by
  simp [IsLeaf, List.mem_filter, List.mem_flatMap, mem_dottedPrefixes]

theorem isLeafB_iff (pm : List Path) (p : Path) : isLeafB pm p = true ↔ IsLeaf pm p := by
  simp [isLeafB, IsLeaf, isParentOf]

/-- the repaired filter and the oracle's filter select the same sub-list -/
theorem leafFilter_eq (pm : List Path) :
    pm.filter (fun p => !(pm.flatMap dottedPrefixes).contains p) = pm.filter (isLeafB pm) := by
  apply List.filter_congr
  intro p hp
  have h1 := mem_leafFilter pm p
  have h2 := isLeafB_iff pm p
  simp only [List.mem_filter, hp, true_and] at h1
  cases hb : isLeafB pm p
  · have : ¬ IsLeaf pm p := by rw [← h2]; simp [hb]
    have : ¬ ((!(pm.flatMap dottedPrefixes).contains p) = true) := fun h => this (h1.mp h)
    simpa using this
  · exact h1.mpr (h2.mp hb)

theorem leafPaths_eq_spec (pm : List Path) : leafPaths pm = sortPaths (pm.filter (isLeafB pm)) := by
  unfold leafPaths; rw [leafFilter_eq]

/-- The oracle's formulation, used as the *compiled* implementation of `leafPaths`: it tests each
    path against the present paths directly instead of materialising the set of all dotted
    prefixes (quadratic in the nesting depth). `@[csimp]` makes the compiler use it on the strength
    of the equality proof; the theorems keep talking about `leafPaths`. -/
def leafPathsFast (pm : List Path) : List Path := sortPaths (pm.filter (isLeafB pm))

@[csimp] theorem leafPaths_eq_fast : @leafPaths = @leafPathsFast := by
  funext pm; exact leafPaths_eq_spec pm

theorem perm_leafFilter {pm₁ pm₂ : List Path} (h : pm₁.Perm pm₂) :
    (pm₁.filter (isLeafB pm₁)).Perm (pm₂.filter (isLeafB pm₂)) := by
  have hf : isLeafB pm₁ = isLeafB pm₂ := by
    funext p
    have e1 : pm₁.contains p = pm₂.contains p := h.contains_eq
    have e2 : (pm₁.any fun q => (p ++ ['.']).isPrefixOf q) = (pm₂.any fun q => (p ++ ['.']).isPrefixOf q) := by
      apply Bool.eq_iff_iff.mpr
      simp only [List.any_eq_true]
      constructor
      · rintro ⟨x, hx, hq⟩; exact ⟨x, h.mem_iff.mp hx, hq⟩
      · rintro ⟨x, hx, hq⟩; exact ⟨x, h.mem_iff.mpr hx, hq⟩
    simp only [isLeafB, e1, e2]
  rw [hf]
  exact h.filter _

end Rivaas.Presence
