import Rivaas.Spec.Presence
import Rivaas.Lemmas.BytesOrder
/-
C05 — `ComputePresence` against the declarative `Occurs`:

* `enum_iff_occurs`   the brute-force enumeration lists exactly the occurring segment paths;
* `markEntries_eq`    within the recursion limit the model marks, in order, exactly the dotted
                      renderings of the enumeration;
* `markEntries_sub`   beyond the limit it still marks nothing that does not occur.

Nested inductive (`Json` through `List (Bytes × Json)`): the theorems are mutual, written as
equation-style definitions on the shape in the head, with a hand-written size measure.
-/
namespace Rivaas.Presence

mutual
  def Json.size : Json → Nat
    | .leaf => 1
    | .obj kvs => 1 + sizeKvs kvs
    | .arr items => 1 + sizeItems items
  def sizeKvs : List (Bytes × Json) → Nat
    | [] => 0
    | (_, v) :: rest => 1 + v.size + sizeKvs rest
  def sizeItems : List Json → Nat
    | [] => 0
    | v :: rest => 1 + v.size + sizeItems rest
end

/-! ### enumeration ↔ Occurs (appendix sketch I) -/

theorem enumItems_idx (items : List Json) (base i : Nat) (h : i < items.length) :
    [Seg.idx (base + i)] ∈ enumItems base items := by
  induction items generalizing base i with
  | nil => simp at h
  | cons it rest ih =>
    cases i with
    | zero => simp [enumItems]
    | succ j =>
      simp only [enumItems, List.mem_append]
      right
      have := ih (base+1) j (by simpa using h)
      simpa [Nat.add_assoc, Nat.add_comm 1 j] using this

theorem enumItems_item (items : List Json) (base i : Nat) (kvs' : List (Bytes × Json)) (q : SegPath)
    (h : items[i]? = some (.obj kvs')) (hq : q ∈ enumObj kvs') :
    (Seg.idx (base + i) :: q) ∈ enumItems base items := by
  induction items generalizing base i with
  | nil => simp at h
  | cons it rest ih =>
    cases i with
    | zero =>
      simp at h; subst h
      simp only [enumItems, List.mem_append]
      left; simp [enumItem, hq]
    | succ j =>
      simp only [enumItems, List.mem_append]
      right
      have := ih (base+1) j (by simpa using h)
      simpa [Nat.add_assoc, Nat.add_comm 1 j] using this

theorem enum_complete {kvs : List (Bytes × Json)} {p : SegPath} (h : Occurs kvs p) : p ∈ enumObj kvs := by
  induction h with
  | @key kvs k v hm =>
    induction kvs with
    | nil => simp at hm
    | cons kv rest ih =>
      obtain ⟨k1, v1⟩ := kv
      simp only [List.mem_cons, Prod.mk.injEq] at hm
      rcases hm with ⟨rfl, rfl⟩ | hm
      · simp [enumObj]
      · simp only [enumObj, List.mem_append]; right; exact ih hm
  | @inObj kvs k kvs' p hm _ ih =>
    induction kvs with
    | nil => simp at hm
    | cons kv rest ih2 =>
      obtain ⟨k1, v1⟩ := kv
      simp only [List.mem_cons, Prod.mk.injEq] at hm
      rcases hm with ⟨rfl, rfl⟩ | hm
      · simp only [enumObj, enumVal, List.mem_append]; left
        simp [ih]
      · simp only [enumObj, List.mem_append]; right; exact ih2 hm
  | @idx kvs k items i hm hi =>
    induction kvs with
    | nil => simp at hm
    | cons kv rest ih2 =>
      obtain ⟨k1, v1⟩ := kv
      simp only [List.mem_cons, Prod.mk.injEq] at hm
      rcases hm with ⟨rfl, rfl⟩ | hm
      · simp only [enumObj, enumVal, List.mem_append]; left
        have := enumItems_idx items 0 i hi
        simp at this; simp [this]
      · simp only [enumObj, List.mem_append]; right; exact ih2 hm
  | @inItem kvs k items i kvs' p hm hit _ ih =>
    induction kvs with
    | nil => simp at hm
    | cons kv rest ih2 =>
      obtain ⟨k1, v1⟩ := kv
      simp only [List.mem_cons, Prod.mk.injEq] at hm
      rcases hm with ⟨rfl, rfl⟩ | hm
      · simp only [enumObj, enumVal, List.mem_append]; left
        have := enumItems_item items 0 i kvs' p hit ih
        simp at this; simp [this]
      · simp only [enumObj, List.mem_append]; right; exact ih2 hm

theorem Occurs.mono {kvs kvs2 : List (Bytes × Json)} {p : SegPath} (hsub : ∀ x ∈ kvs, x ∈ kvs2)
    (h : Occurs kvs p) : Occurs kvs2 p := by
  cases h with
  | key hm => exact .key (hsub _ hm)
  | inObj hm ho => exact .inObj (hsub _ hm) ho
  | idx hm hi => exact .idx (hsub _ hm) hi
  | inItem hm hit ho => exact .inItem (hsub _ hm) hit ho

mutual
  theorem enumObj_sound : ∀ (kvs : List (Bytes × Json)) (p : SegPath), p ∈ enumObj kvs → Occurs kvs p
    | [], p, h => by simp [enumObj] at h
    | (k, .leaf) :: rest, p, h => by
      simp only [enumObj, enumVal, List.map_nil, List.mem_append, List.mem_cons, List.not_mem_nil, or_false] at h
      rcases h with rfl | h
      · exact .key (List.mem_cons_self ..)
      · exact Occurs.mono (fun x hx => List.mem_cons_of_mem _ hx) (enumObj_sound rest p h)
    | (k, .obj kvs') :: rest, p, h => by
      simp only [enumObj, enumVal, List.mem_append, List.mem_cons, List.mem_map] at h
      rcases h with (rfl | ⟨q, hq, rfl⟩) | h
      · exact .key (List.mem_cons_self ..)
      · exact .inObj (List.mem_cons_self ..) (enumObj_sound kvs' q hq)
      · exact Occurs.mono (fun x hx => List.mem_cons_of_mem _ hx) (enumObj_sound rest p h)
    | (k, .arr items) :: rest, p, h => by
      simp only [enumObj, enumVal, List.mem_append, List.mem_cons, List.mem_map] at h
      rcases h with (rfl | ⟨q, hq, rfl⟩) | h
      · exact .key (List.mem_cons_self ..)
      · rcases enumItems_sound items 0 q hq with ⟨i, _, hi, rfl⟩ | ⟨i, kvs', r, _, hit, ho, rfl⟩
        · exact .idx (List.mem_cons_self ..) (by simpa using hi)
        · exact .inItem (List.mem_cons_self ..) (by simpa using hit) ho
      · exact Occurs.mono (fun x hx => List.mem_cons_of_mem _ hx) (enumObj_sound rest p h)
  termination_by kvs => sizeKvs kvs
  decreasing_by all_goals (simp only [sizeKvs, Json.size]; omega)
  theorem enumItems_sound : ∀ (items : List Json) (base : Nat) (p : SegPath), p ∈ enumItems base items →
      (∃ i, base ≤ i ∧ i - base < items.length ∧ p = [Seg.idx i]) ∨
      (∃ i kvs' q, base ≤ i ∧ items[i - base]? = some (.obj kvs') ∧ Occurs kvs' q ∧ p = Seg.idx i :: q)
    | [], base, p, h => by simp [enumItems] at h
    | .obj kvs' :: rest, base, p, h => by
      simp only [enumItems, enumItem, List.mem_append, List.mem_cons, List.mem_map] at h
      rcases h with (rfl | ⟨q, hq, rfl⟩) | h
      · exact Or.inl ⟨base, Nat.le_refl _, by simp, rfl⟩
      · exact Or.inr ⟨base, kvs', q, Nat.le_refl _, by simp, enumObj_sound kvs' q hq, rfl⟩
      · rcases enumItems_sound rest (base+1) p h with ⟨i, hb, hi, rfl⟩ | ⟨i, kvs', q, hb, hit, ho, rfl⟩
        · refine Or.inl ⟨i, by omega, ?_, rfl⟩
          simp only [List.length_cons]; omega
        · refine Or.inr ⟨i, kvs', q, by omega, ?_, ho, rfl⟩
          have : i - base = (i - (base+1)) + 1 := by omega
          rw [this]; simpa using hit
    | .leaf :: rest, base, p, h => by
      simp only [enumItems, enumItem, List.map_nil, List.mem_append, List.mem_cons, List.not_mem_nil, or_false] at h
      rcases h with rfl | h
      · exact Or.inl ⟨base, Nat.le_refl _, by simp, rfl⟩
      · rcases enumItems_sound rest (base+1) p h with ⟨i, hb, hi, rfl⟩ | ⟨i, kvs', q, hb, hit, ho, rfl⟩
        · refine Or.inl ⟨i, by omega, ?_, rfl⟩
          simp only [List.length_cons]; omega
        · refine Or.inr ⟨i, kvs', q, by omega, ?_, ho, rfl⟩
          have : i - base = (i - (base+1)) + 1 := by omega
          rw [this]; simpa using hit
    | .arr _ :: rest, base, p, h => by
      simp only [enumItems, enumItem, List.map_nil, List.mem_append, List.mem_cons, List.not_mem_nil, or_false] at h
      rcases h with rfl | h
      · exact Or.inl ⟨base, Nat.le_refl _, by simp, rfl⟩
      · rcases enumItems_sound rest (base+1) p h with ⟨i, hb, hi, rfl⟩ | ⟨i, kvs', q, hb, hit, ho, rfl⟩
        · refine Or.inl ⟨i, by omega, ?_, rfl⟩
          simp only [List.length_cons]; omega
        · refine Or.inr ⟨i, kvs', q, by omega, ?_, ho, rfl⟩
          have : i - base = (i - (base+1)) + 1 := by omega
          rw [this]; simpa using hit
  termination_by items => sizeItems items
  decreasing_by all_goals (simp only [sizeItems, Json.size]; omega)
end

/-- the `range` loop visits the entries one by one: its marks are the concatenation of what each
    entry contributes (so a different iteration order permutes them, nothing else) -/
theorem markEntries_flatMap (join : Nat → Bytes → Bytes → Bytes) (d : Nat) (pre : Bytes)
    (kvs : List (Bytes × Json)) :
    markEntries join d pre kvs =
      kvs.flatMap fun kv => join d pre kv.1 :: markBelow join d (join d pre kv.1) kv.2 := by
  induction kvs with
  | nil => simp [markEntries]
  | cons kv rest ih =>
    obtain ⟨k, v⟩ := kv
    simp [markEntries, ih]

/-! ### the model marks the renderings of the enumeration -/

/-- the dotted path the model builds for the segment path `sp` met at depth `d` under `pre` -/
def pref (d : Nat) (pre : Bytes) (sp : SegPath) : Bytes :=
  if d = 0 then render sp else pre ++ '.' :: render sp

theorem render_cons {s : Seg} {q : SegPath} (hq : q ≠ []) :
    render (s :: q) = segStr s ++ '.' :: render q := by
  cases q with
  | nil => exact absurd rfl hq
  | cons t rest => simp [render]

theorem enumObj_ne_nil {kvs : List (Bytes × Json)} {q : SegPath} (h : q ∈ enumObj kvs) : q ≠ [] := by
  induction kvs with
  | nil => simp [enumObj] at h
  | cons kv rest ih =>
    obtain ⟨k, v⟩ := kv
    simp only [enumObj, List.mem_append, List.mem_cons, List.mem_map] at h
    rcases h with (rfl | ⟨_, _, rfl⟩) | h
    · simp
    · simp
    · exact ih h

theorem enumItems_ne_nil {items : List Json} {i : Nat} {q : SegPath} (h : q ∈ enumItems i items) : q ≠ [] := by
  induction items generalizing i with
  | nil => simp [enumItems] at h
  | cons it rest ih =>
    simp only [enumItems, List.mem_append, List.mem_cons, List.mem_map] at h
    rcases h with (rfl | ⟨_, _, rfl⟩) | h
    · simp
    · simp
    · exact ih h

theorem enumVal_ne_nil {v : Json} {q : SegPath} (h : q ∈ enumVal v) : q ≠ [] := by
  cases v with
  | leaf => simp [enumVal] at h
  | obj kvs => exact enumObj_ne_nil (by simpa [enumVal] using h)
  | arr items => exact enumItems_ne_nil (by simpa [enumVal] using h)

theorem enumItem_ne_nil {v : Json} {q : SegPath} (h : q ∈ enumItem v) : q ≠ [] := by
  cases v with
  | leaf => simp [enumItem] at h
  | obj kvs => exact enumObj_ne_nil (by simpa [enumItem] using h)
  | arr items => simp [enumItem] at h

theorem pref_key (d : Nat) (pre k : Bytes) : pref d pre [Seg.key k] = joinKey d pre k := by
  simp [pref, joinKey, render, segStr]

theorem pref_key_cons (d : Nat) (pre k : Bytes) {q : SegPath} (hq : q ≠ []) :
    pref d pre (Seg.key k :: q) = joinKey d pre k ++ '.' :: render q := by
  simp only [pref, joinKey, render_cons hq, segStr]
  by_cases hd : d = 0 <;> simp [hd]

theorem below_idx (path : Bytes) (i : Nat) :
    path ++ '.' :: render [Seg.idx i] = path ++ '.' :: itoa i := by
  simp [render, segStr]

theorem below_idx_cons (path : Bytes) (i : Nat) {q : SegPath} (hq : q ≠ []) :
    path ++ '.' :: render (Seg.idx i :: q) = (path ++ '.' :: itoa i) ++ '.' :: render q := by
  simp [render_cons hq, segStr]

theorem map_congr_mem {α β} {f g : α → β} {l : List α} (h : ∀ x ∈ l, f x = g x) : l.map f = l.map g :=
  List.map_congr_left h

mutual
  /-- within the recursion limit the loop marks exactly the renderings of the enumeration, in order -/
  theorem markEntries_eq : ∀ (kvs : List (Bytes × Json)) (d : Nat) (pre : Bytes),
      d + depthObj kvs ≤ maxRecursionDepth →
      markEntries joinKey d pre kvs = (enumObj kvs).map (pref d pre)
    | [], d, pre, _ => by simp [markEntries, enumObj]
    | (k, v) :: rest, d, pre, h => by
      simp only [depthObj] at h
      have h1 : d + depthVal v ≤ maxRecursionDepth := by omega
      have h2 : d + depthObj rest ≤ maxRecursionDepth := by omega
      simp only [markEntries, enumObj, List.map_append, List.map_cons, List.map_map, pref_key]
      rw [markEntries_eq rest d pre h2, markBelow_eq v d (joinKey d pre k) h1]
      congr 2
      apply map_congr_mem
      intro q hq
      simp [Function.comp, pref_key_cons d pre k (enumVal_ne_nil hq)]
  termination_by kvs => sizeKvs kvs
  decreasing_by all_goals (simp only [sizeKvs]; omega)
  theorem markBelow_eq : ∀ (v : Json) (d : Nat) (path : Bytes),
      d + depthVal v ≤ maxRecursionDepth →
      markBelow joinKey d path v = (enumVal v).map (fun q => path ++ '.' :: render q)
    | .leaf, d, path, _ => by simp [markBelow, enumVal]
    | .obj kvs, d, path, h => by
      simp only [depthVal] at h
      have h1 : ¬ (d + 1 > maxRecursionDepth) := by omega
      simp only [markBelow, h1, if_false, enumVal]
      rw [markEntries_eq kvs (d + 1) path (by omega)]
      apply map_congr_mem
      intro q _
      simp [pref]
    | .arr items, d, path, h => by
      simp only [depthVal] at h
      simp only [markBelow, enumVal]
      exact markItems_eq items d path 0 h
  termination_by v => v.size
  decreasing_by all_goals (simp only [Json.size]; omega)
  theorem markItems_eq : ∀ (items : List Json) (d : Nat) (path : Bytes) (i : Nat),
      d + depthItems items ≤ maxRecursionDepth →
      markItems joinKey d path i items = (enumItems i items).map (fun q => path ++ '.' :: render q)
    | [], d, path, i, _ => by simp [markItems, enumItems]
    | item :: rest, d, path, i, h => by
      simp only [depthItems] at h
      have h1 : d + depthItem item ≤ maxRecursionDepth := by omega
      have h2 : d + depthItems rest ≤ maxRecursionDepth := by omega
      simp only [markItems, enumItems, List.map_append, List.map_cons, List.map_map, below_idx]
      rw [markItems_eq rest d path (i + 1) h2, markItem_eq item d (path ++ '.' :: itoa i) h1]
      congr 2
      apply map_congr_mem
      intro q hq
      simp [Function.comp, below_idx_cons path i (enumItem_ne_nil hq)]
  termination_by items => sizeItems items
  decreasing_by all_goals (simp only [sizeItems]; omega)
  theorem markItem_eq : ∀ (item : Json) (d : Nat) (itemPath : Bytes),
      d + depthItem item ≤ maxRecursionDepth →
      markItem joinKey d itemPath item = (enumItem item).map (fun q => itemPath ++ '.' :: render q)
    | .leaf, d, path, _ => by simp [markItem, enumItem]
    | .arr _, d, path, _ => by simp [markItem, enumItem]
    | .obj kvs, d, path, h => by
      simp only [depthItem] at h
      have h1 : ¬ (d + 1 > maxRecursionDepth) := by omega
      simp only [markItem, h1, if_false, enumItem]
      rw [markEntries_eq kvs (d + 1) path (by omega)]
      apply map_congr_mem
      intro q _
      simp [pref]
  termination_by item => item.size
  decreasing_by all_goals (simp only [Json.size]; omega)
end

mutual
  /-- whatever the nesting depth, nothing is marked that is not a rendering of the enumeration -/
  theorem markEntries_sub : ∀ (kvs : List (Bytes × Json)) (d : Nat) (pre : Bytes) (p : Path),
      p ∈ markEntries joinKey d pre kvs → p ∈ (enumObj kvs).map (pref d pre)
    | [], d, pre, p, h => by simp [markEntries] at h
    | (k, v) :: rest, d, pre, p, h => by
      simp only [markEntries, List.mem_append, List.mem_cons] at h
      simp only [enumObj, List.map_append, List.map_cons, List.map_map, pref_key, List.mem_append,
        List.mem_cons]
      rcases h with (h | h) | h
      · exact Or.inl (Or.inl h)
      · left; right
        have := markBelow_sub v d (joinKey d pre k) p h
        simp only [List.mem_map] at this ⊢
        obtain ⟨q, hq, rfl⟩ := this
        exact ⟨q, hq, by simp [Function.comp, pref_key_cons d pre k (enumVal_ne_nil hq)]⟩
      · exact Or.inr (markEntries_sub rest d pre p h)
  termination_by kvs => sizeKvs kvs
  decreasing_by all_goals (simp only [sizeKvs]; omega)
  theorem markBelow_sub : ∀ (v : Json) (d : Nat) (path : Bytes) (p : Path),
      p ∈ markBelow joinKey d path v → p ∈ (enumVal v).map (fun q => path ++ '.' :: render q)
    | .leaf, d, path, p, h => by simp [markBelow] at h
    | .obj kvs, d, path, p, h => by
      simp only [markBelow] at h
      by_cases h1 : d + 1 > maxRecursionDepth
      · simp [h1] at h
      · simp only [h1, if_false] at h
        have := markEntries_sub kvs (d + 1) path p h
        simp only [List.mem_map] at this ⊢
        obtain ⟨q, hq, rfl⟩ := this
        exact ⟨q, by simpa [enumVal] using hq, by simp [pref]⟩
    | .arr items, d, path, p, h => by
      simp only [markBelow] at h
      simpa [enumVal] using markItems_sub items d path 0 p h
  termination_by v => v.size
  decreasing_by all_goals (simp only [Json.size]; omega)
  theorem markItems_sub : ∀ (items : List Json) (d : Nat) (path : Bytes) (i : Nat) (p : Path),
      p ∈ markItems joinKey d path i items →
      p ∈ (enumItems i items).map (fun q => path ++ '.' :: render q)
    | [], d, path, i, p, h => by simp [markItems] at h
    | item :: rest, d, path, i, p, h => by
      simp only [markItems, List.mem_append, List.mem_cons] at h
      simp only [enumItems, List.map_append, List.map_cons, List.map_map, below_idx, List.mem_append,
        List.mem_cons]
      rcases h with (h | h) | h
      · exact Or.inl (Or.inl h)
      · left; right
        have := markItem_sub item d (path ++ '.' :: itoa i) p h
        simp only [List.mem_map] at this ⊢
        obtain ⟨q, hq, rfl⟩ := this
        exact ⟨q, hq, by simp [Function.comp, below_idx_cons path i (enumItem_ne_nil hq)]⟩
      · exact Or.inr (markItems_sub rest d path (i + 1) p h)
  termination_by items => sizeItems items
  decreasing_by all_goals (simp only [sizeItems]; omega)
  theorem markItem_sub : ∀ (item : Json) (d : Nat) (itemPath : Bytes) (p : Path),
      p ∈ markItem joinKey d itemPath item →
      p ∈ (enumItem item).map (fun q => itemPath ++ '.' :: render q)
    | .leaf, d, path, p, h => by simp [markItem] at h
    | .arr _, d, path, p, h => by simp [markItem] at h
    | .obj kvs, d, path, p, h => by
      simp only [markItem] at h
      by_cases h1 : d + 1 > maxRecursionDepth
      · simp [h1] at h
      · simp only [h1, if_false] at h
        have := markEntries_sub kvs (d + 1) path p h
        simp only [List.mem_map] at this ⊢
        obtain ⟨q, hq, rfl⟩ := this
        exact ⟨q, by simpa [enumItem] using hq, by simp [pref]⟩
  termination_by item => item.size
  decreasing_by all_goals (simp only [Json.size]; omega)
end

end Rivaas.Presence
