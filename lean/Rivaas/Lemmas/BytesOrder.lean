import Rivaas.Model.Presence
/-
Order facts about `leB` (Go's `<=` on strings, byte-wise) and the canonical sorted forms built
on it: `sortPaths` is a sorting function that depends only on the multiset of its input
(appendix sketch Z), `dedupAdj ∘ sortPaths` only on the set. Core Lean only.
-/
namespace Rivaas.Presence

theorem leB_refl (a : Bytes) : leB a a = true := by
  induction a with
  | nil => simp [leB]
  | cons x xs ih => simp [leB, ih]

theorem leB_total (a b : Bytes) : (leB a b || leB b a) = true := by
  induction a generalizing b with
  | nil => simp [leB]
  | cons x xs ih =>
    cases b with
    | nil => simp [leB]
    | cons y ys =>
      simp only [leB]
      by_cases h1 : x.toNat < y.toNat
      · simp [h1]
      · by_cases h2 : y.toNat < x.toNat
        · simp [h1, h2]
        · simpa [h1, h2] using ih ys

theorem leB_trans (a b c : Bytes) (h1 : leB a b = true) (h2 : leB b c = true) : leB a c = true := by
  induction a generalizing b c with
  | nil => simp [leB]
  | cons x xs ih =>
    cases b with
    | nil => simp [leB] at h1
    | cons y ys =>
      cases c with
      | nil => simp [leB] at h2
      | cons z zs =>
        simp only [leB] at h1 h2 ⊢
        by_cases hxy : x.toNat < y.toNat
        · by_cases hyz : y.toNat < z.toNat
          · have : x.toNat < z.toNat := by omega
            simp [this]
          · by_cases hzy : z.toNat < y.toNat
            · simp [hyz, hzy] at h2
            · have : x.toNat < z.toNat := by omega
              simp [this]
        · by_cases hyx : y.toNat < x.toNat
          · simp [hxy, hyx] at h1
          · simp only [hxy, hyx, if_false] at h1
            by_cases hyz : y.toNat < z.toNat
            · have : x.toNat < z.toNat := by omega
              simp [this]
            · by_cases hzy : z.toNat < y.toNat
              · simp [hyz, hzy] at h2
              · simp only [hyz, hzy, if_false] at h2
                have e1 : ¬ x.toNat < z.toNat := by omega
                have e2 : ¬ z.toNat < x.toNat := by omega
                simp only [e1, e2, if_false]
                exact ih ys zs h1 h2

theorem char_eq_of_toNat_eq {x y : Char} (h : x.toNat = y.toNat) : x = y := Char.toNat_inj.mp h

theorem leB_antisymm (a b : Bytes) (h1 : leB a b = true) (h2 : leB b a = true) : a = b := by
  induction a generalizing b with
  | nil =>
    cases b with
    | nil => rfl
    | cons y ys => simp [leB] at h2
  | cons x xs ih =>
    cases b with
    | nil => simp [leB] at h1
    | cons y ys =>
      simp only [leB] at h1 h2
      by_cases hxy : x.toNat < y.toNat
      · have : ¬ y.toNat < x.toNat := by omega
        simp [hxy, this] at h2
      · by_cases hyx : y.toNat < x.toNat
        · simp [hxy, hyx] at h1
        · simp only [hxy, hyx, if_false] at h1 h2
          have : x = y := char_eq_of_toNat_eq (by omega)
          rw [this, ih ys h1 h2]

/-- the sort depends only on the multiset of its input: map iteration order cannot show -/
theorem sortPaths_perm {l₁ l₂ : List Path} (h : l₁.Perm l₂) : sortPaths l₁ = sortPaths l₂ := by
  unfold sortPaths
  have hp : (l₁.mergeSort leB).Perm (l₂.mergeSort leB) :=
    (List.mergeSort_perm l₁ _).trans (h.trans (List.mergeSort_perm l₂ _).symm)
  have hs₁ := List.pairwise_mergeSort (le := leB) leB_trans leB_total l₁
  have hs₂ := List.pairwise_mergeSort (le := leB) leB_trans leB_total l₂
  exact hp.eq_of_pairwise (le := fun a b => leB a b = true)
    (fun a b _ _ h1 h2 => leB_antisymm a b h1 h2) hs₁ hs₂

theorem mem_sortPaths {l : List Path} {p : Path} : p ∈ sortPaths l ↔ p ∈ l :=
  (List.mergeSort_perm l leB).mem_iff

theorem sortPaths_sorted (l : List Path) : (sortPaths l).Pairwise (fun a b => leB a b = true) :=
  List.pairwise_mergeSort (le := leB) leB_trans leB_total l

theorem sortPaths_length (l : List Path) : (sortPaths l).length = l.length :=
  (List.mergeSort_perm l leB).length_eq

/-- strictly ascending in the byte order -/
def ltB (a b : Bytes) : Prop := leB a b = true ∧ a ≠ b

theorem mem_dedupAdj {l : List Path} {p : Path} : p ∈ dedupAdj l ↔ p ∈ l := by
  induction l with
  | nil => simp [dedupAdj]
  | cons a rest ih =>
    cases rest with
    | nil => simp [dedupAdj]
    | cons b rest' =>
      simp only [dedupAdj]
      by_cases hab : a = b
      · subst hab
        simp only [if_true, ih, List.mem_cons]
        constructor
        · intro h; exact Or.inr h
        · intro h; rcases h with h | h
          · exact Or.inl h
          · exact h
      · simp only [hab, if_false, List.mem_cons, ih]

theorem dedupAdj_strict {l : List Path} (h : l.Pairwise (fun a b => leB a b = true)) :
    (dedupAdj l).Pairwise ltB := by
  induction l with
  | nil => simp [dedupAdj]
  | cons a rest ih =>
    cases rest with
    | nil => simp [dedupAdj]
    | cons b rest' =>
      have hrest := (List.pairwise_cons.mp h).2
      have ha := (List.pairwise_cons.mp h).1
      simp only [dedupAdj]
      by_cases hab : a = b
      · simp only [hab, if_true]; exact ih hrest
      · simp only [hab, if_false]
        refine List.pairwise_cons.mpr ⟨?_, ih hrest⟩
        intro x hx
        have hx' : x ∈ b :: rest' := mem_dedupAdj.mp hx
        refine ⟨ha x hx', ?_⟩
        intro hax
        subst hax
        -- b ≤ a (as a ∈ b :: rest' and the tail is sorted) and a ≤ b, so a = b
        have hba : leB b a = true := by
          rcases List.mem_cons.mp hx' with h1 | h1
          · rw [h1]; exact leB_refl _
          · exact (List.pairwise_cons.mp hrest).1 a h1
        exact hab (leB_antisymm a b (ha b (List.mem_cons_self ..)) hba)

/-- a strictly ascending list is determined by its set of members -/
theorem strict_ext {l₁ l₂ : List Path} (h₁ : l₁.Pairwise ltB) (h₂ : l₂.Pairwise ltB)
    (h : ∀ p, p ∈ l₁ ↔ p ∈ l₂) : l₁ = l₂ := by
  have n₁ : l₁.Nodup := h₁.imp (fun hab => hab.2)
  have n₂ : l₂.Nodup := h₂.imp (fun hab => hab.2)
  have hp : l₁.Perm l₂ := (List.perm_ext_iff_of_nodup n₁ n₂).mpr h
  exact hp.eq_of_pairwise (le := fun a b => leB a b = true)
    (fun a b _ _ h1 h2 => leB_antisymm a b h1 h2) (h₁.imp (fun hab => hab.1)) (h₂.imp (fun hab => hab.1))

/-- the canonical form of a path set depends only on the set -/
theorem canon_ext {l₁ l₂ : List Path} (h : ∀ p, p ∈ l₁ ↔ p ∈ l₂) :
    dedupAdj (sortPaths l₁) = dedupAdj (sortPaths l₂) := by
  apply strict_ext (dedupAdj_strict (sortPaths_sorted _)) (dedupAdj_strict (sortPaths_sorted _))
  intro p
  simp only [mem_dedupAdj, mem_sortPaths, h]

theorem mem_canon {l : List Path} {p : Path} : p ∈ dedupAdj (sortPaths l) ↔ p ∈ l := by
  simp only [mem_dedupAdj, mem_sortPaths]

end Rivaas.Presence
