import Rivaas.Lemmas.RadixSearch
import Rivaas.Lemmas.MatchOrder
/-
Layer L1 of C01 assembled: a method tree filled from a list of routes, looked up with the model's
`walk`, against the reference choice of Spec/Match.
-/
namespace Rivaas.RadixL
open Rivaas.Route Rivaas.Radix Rivaas.Match Rivaas.MatchL

def leafOf (r : Route) : Leaf := ⟨r.rid, r.cons, r.text, declNames r.pat⟩
def bodyOf (pat : Pat) : Pat := if endsWild pat then pat.dropLast else pat
def toEntry (r : Route) : Entry := ⟨bodyOf r.pat, endsWild r.pat, leafOf r⟩

/-- routes that live in the node map: everything except non-empty parameter-free patterns -/
def inTree (r : Route) : Bool := !isStaticPat r.pat || r.pat.isEmpty

/-- a pattern the tree registration handles as the vocabulary intends -/
def patOK (pat : Pat) : Prop := (bodyOf pat).all litOK = true

def entriesOf (R : List Route) (m : Bytes) : List Entry :=
  (R.filter fun r => r.method = m && inTree r).map toEntry

theorem toEntry_pat (r : Route) : (toEntry r).pat = r.pat := by
  unfold toEntry Entry.pat bodyOf
  simp only
  by_cases hw : endsWild r.pat = true
  · simp only [hw, if_true]
    unfold endsWild at hw
    simp only [decide_eq_true_eq] at hw
    have hne : r.pat ≠ [] := by intro e; rw [e] at hw; simp at hw
    have := List.dropLast_concat_getLast hne
    rw [List.getLast?_eq_some_getLast hne] at hw
    injection hw with hw
    rw [hw] at this
    exact this
  · simp [hw]

theorem entriesOf_ok (R : List Route) (hR : ∀ r ∈ R, patOK r.pat) (m : Bytes) : ∀ e ∈ entriesOf R m, e.ok := by
  intro e he
  simp only [entriesOf, List.mem_map, List.mem_filter] at he
  obtain ⟨r, ⟨hr, _⟩, rfl⟩ := he
  exact hR r hr

theorem lastSome_suff {α β} (f : α → Option β) (l1 l2 : List α) (a : α) (v : β) (ha : f a = some v)
    (h2 : ∀ c ∈ l2, f c = none) : lastSome f (l1 ++ a :: l2) = some v := by
  induction l1 with
  | nil =>
    simp only [List.nil_append, lastSome]
    have : lastSome f l2 = none := by
      induction l2 with
      | nil => rfl
      | cons c cs ih =>
        simp only [lastSome, h2 c (List.mem_cons_self ..), ih (fun x hx => h2 x (List.mem_cons_of_mem _ hx))]
        rfl
    simp [this, ha]
  | cons b rest ih => simp [lastSome, ih]

theorem mem_entriesOf {R : List Route} {m : Bytes} {e : Entry} (he : e ∈ entriesOf R m) :
    ∃ r ∈ R, r.method = m ∧ inTree r = true ∧ e = toEntry r := by
  simp only [entriesOf, List.mem_map, List.mem_filter, Bool.and_eq_true, decide_eq_true_eq] at he
  obtain ⟨r, ⟨hr, hrm, hrt⟩, rfl⟩ := he
  exact ⟨r, hr, hrm, hrt, rfl⟩

theorem mem_dynRoutes {R : List Route} {m : Bytes} {r : Route} (hr : r ∈ R) (hm : r.method = m)
    (ht : inTree r = true) (hne : r.pat ≠ []) : r ∈ dynRoutes R m := by
  simp only [dynRoutes, List.mem_filter, decide_eq_true_eq]
  refine ⟨hr, hm, ?_⟩
  simp only [inTree, Bool.or_eq_true, Bool.not_eq_true', List.isEmpty_iff] at ht
  rcases ht with h | h
  · simp [h]
  · exact absurd h hne

/-! ### bindings and names -/

theorem declNames_cons (a : PSeg) (pt : Pat) (ha : a ≠ PSeg.wild) :
    declNames (a :: pt) = (match a with | PSeg.par n => [n] | _ => []) ++ declNames pt := by
  have hl : ((a :: pt).getLast? = some PSeg.wild) ↔ (pt.getLast? = some PSeg.wild) := by
    cases pt with
    | nil => simp [ha]
    | cons b bs => simp [List.getLast?_cons_cons]
  unfold declNames
  cases a with
  | wild => exact absurd rfl ha
  | lit s => simp only [parNames, List.nil_append]; simp only [hl]
  | par n => simp only [parNames, List.cons_append, List.nil_append]; simp only [hl]

theorem matchPat_keys (trail : Bool) (pat : Pat) (segs : List Bytes) (b : List (Bytes × Bytes))
    (h : matchPat trail pat segs = some b) : b.map (·.1) = declNames pat := by
  induction pat generalizing segs b with
  | nil =>
    cases segs with
    | nil =>
      cases trail <;> simp [matchPat] at h
      subst h; rfl
    | cons x xs => simp [matchPat] at h
  | cons a pt ih =>
    cases segs with
    | nil => cases a <;> cases pt <;> simp [matchPat] at h
    | cons x xs =>
      cases a with
      | wild =>
        cases pt with
        | nil =>
          simp only [matchPat, Option.some.injEq] at h
          subst h
          simp [declNames, parNames]
        | cons c cs => simp [matchPat] at h
      | lit s =>
        rw [declNames_cons _ _ (by simp)]
        have hm' : matchPat trail pt xs = some b := by
          cases pt <;> simp only [matchPat] at h <;> by_cases e : s = x <;> simp_all
        simpa using ih xs b hm'
      | par n =>
        rw [declNames_cons _ _ (by simp)]
        cases hmm : matchPat trail pt xs with
        | none => cases pt <;> simp [matchPat, hmm] at h
        | some b' =>
          have hb : b = (n, x) :: b' := by
            cases pt <;> simp [matchPat, hmm] at h <;> exact h.symm
          subst hb
          simp [ih xs b' hmm]

theorem cands_eq (sat : Nat → Bytes → Bool) (R : List Route) (m : Bytes) (p : RPath)
    (hstat : staticHit R m p = false) :
    cands sat R m p = (shapeCands R m p).filter fun r => (routeMatch sat r p).isSome := by
  unfold cands shapeCands dynRoutes
  rw [List.filter_filter, List.filter_filter]
  apply List.filter_congr
  intro r hr
  have hrm : (routeMatch sat r p).isSome = true → (matchPat p.trail r.pat p.segs).isSome = true := by
    intro h
    unfold routeMatch at h
    cases hm : matchPat p.trail r.pat p.segs with
    | none => simp [hm] at h
    | some b => rfl
  by_cases hm : r.method = m
  · by_cases hrt : (routeMatch sat r p).isSome = true
    · have hmp := hrm hrt
      have hns : isStaticPat r.pat = false := by
        cases hsp : isStaticPat r.pat with
        | false => rfl
        | true =>
          exfalso
          have : staticHit R m p = true := by
            simp only [staticHit, List.any_eq_true, decide_eq_true_eq]
            exact ⟨r, hr, hm, by simp [hsp], hmp⟩
          rw [hstat] at this; exact absurd this (by simp)
      simp [hm, hrt, hmp, hns]
    · simp [hm, hrt]
  · simp [hm]

/-- routes with the same node key and the same wildness do not beat each other -/
theorem better_same_key (ba bb ta tb : Pat) (ha : ba.all litOK = true) (hb : bb.all litOK = true)
    (hk : ekeys ba = ekeys bb) (ht : ta = tb) (hta : ta = [] ∨ ta = [PSeg.wild]) :
    better (ba ++ ta) (bb ++ tb) = false := by
  subst ht
  induction ba generalizing bb with
  | nil =>
    cases bb with
    | nil => simp [better_irrefl]
    | cons y ys =>
      simp only [List.all_cons, Bool.and_eq_true] at hb
      cases y <;> simp [ekeys, ekey, litOK] at hk hb
  | cons x xs ih =>
    simp only [List.all_cons, Bool.and_eq_true] at ha
    cases bb with
    | nil => cases x <;> simp [ekeys, ekey, litOK] at hk ha
    | cons y ys =>
      simp only [List.all_cons, Bool.and_eq_true] at hb
      have hxy : ekey x = ekey y ∧ ekeys xs = ekeys ys := by
        cases x <;> cases y <;> simp [ekeys, ekey, litOK] at hk ha hb ⊢ <;> first | exact hk | exact ⟨hk.1, hk.2⟩
      have hkind : kind x = kind y := by
        cases x <;> cases y <;> simp [ekey] at hxy <;> rfl
      simp only [List.cons_append, better, hkind, if_true]
      exact ih ys ha.2 hb.2 hxy.2

theorem entriesOf_append (R1 R2 : List Route) (m : Bytes) :
    entriesOf (R1 ++ R2) m = entriesOf R1 m ++ entriesOf R2 m := by
  simp [entriesOf, List.filter_append]

theorem entriesOf_cons_in (r : Route) (R2 : List Route) (m : Bytes) (hm : r.method = m) (ht : inTree r = true) :
    entriesOf (r :: R2) m = toEntry r :: entriesOf R2 m := by
  simp [entriesOf, List.filter_cons, hm, ht]

/-- the node a route ends at holds that route's leaf when no later route of the tree ends at the same
node in the same way -/
theorem leaf_at (R1 R2 : List Route) (ρ : Route) (hR : ∀ r ∈ R1 ++ ρ :: R2, patOK r.pat) (m : Bytes)
    (hm : ρ.method = m) (ht : inTree ρ = true)
    (hlast : ∀ r ∈ R2, r.method = m → inTree r = true →
      ekeys (bodyOf r.pat) = ekeys (bodyOf ρ.pat) → endsWild r.pat = endsWild ρ.pat → False) :
    (if endsWild ρ.pat then (getK (nodesOf (entriesOf (R1 ++ ρ :: R2) m)) (ekeys (bodyOf ρ.pat))).wild
     else (getK (nodesOf (entriesOf (R1 ++ ρ :: R2) m)) (ekeys (bodyOf ρ.pat))).leaf) = some (leafOf ρ) := by
  have hL := entriesOf_ok _ hR m
  have hsplit : entriesOf (R1 ++ ρ :: R2) m = entriesOf R1 m ++ toEntry ρ :: entriesOf R2 m := by
    rw [entriesOf_append, entriesOf_cons_in ρ R2 m hm ht]
  have hρok : (toEntry ρ).ok := hR ρ (by simp)
  -- entries after ρ do not end at ρ's node in ρ's way
  have hafter : ∀ (t : Pat), t = (if endsWild ρ.pat then [PSeg.wild] else []) →
      ∀ c ∈ entriesOf R2 m, ¬ strip c.pat (ekeys (bodyOf ρ.pat)) = some t := by
    intro t ht' c hc hs
    obtain ⟨r, hr, hrm, hrt, rfl⟩ := mem_entriesOf hc
    have hrok : (toEntry r).ok := hR r (by simp [hr])
    have hkw : ekeys (bodyOf ρ.pat) = ekeys (toEntry r).bp ∧ endsWild ρ.pat = (toEntry r).w := by
      unfold Entry.pat at hs
      cases hw : (toEntry r).w <;> cases hw2 : endsWild ρ.pat <;>
        simp only [hw, hw2, if_true, if_false, Bool.false_eq_true] at hs ht'
      · subst ht'
        exact ⟨(strip_eq_tail _ [] hrok (Or.inl rfl) _).mp hs, rfl⟩
      · exfalso
        subst ht'
        simp only [List.append_nil] at hs
        obtain ⟨pre, hp, _⟩ := strip_split _ _ _ hs
        unfold Entry.ok at hrok
        rw [hp] at hrok
        simp [litOK] at hrok
      · exfalso
        subst ht'
        obtain ⟨pre, hp, hlen⟩ := strip_split _ _ _ hs
        simp only [List.append_nil] at hp
        rw [← hp] at hlen
        have hle := List.length_filterMap_le ekey (toEntry r).bp
        simp only [List.filterMap_append, List.filterMap_cons, ekey, List.filterMap_nil, List.length_append,
          List.length_nil, List.length_cons] at hlen
        omega
      · subst ht'
        exact ⟨(strip_eq_tail _ [PSeg.wild] hrok (Or.inr rfl) _).mp hs, rfl⟩
    exact hlast r hr hrm hrt hkw.1.symm hkw.2.symm
  cases hw : endsWild ρ.pat with
  | true =>
    simp only [if_true]
    rw [nodesOf_wild _ hL, hsplit]
    apply lastSome_suff
    · have : strip (toEntry ρ).pat (ekeys (bodyOf ρ.pat)) = some [PSeg.wild] := by
        unfold Entry.pat
        have hwe : (toEntry ρ).w = true := hw
        simp only [hwe, if_true]
        exact (strip_eq_tail _ [PSeg.wild] hρok (Or.inr rfl) _).mpr rfl
      show (if strip (toEntry ρ).pat (ekeys (bodyOf ρ.pat)) = some [PSeg.wild] then some (toEntry ρ).lf else none) = some (leafOf ρ)
      rw [if_pos this]; rfl
    · intro c hc
      have := hafter [PSeg.wild] (by simp [hw]) c hc
      simp [this]
  | false =>
    simp only [Bool.false_eq_true, if_false]
    rw [nodesOf_leaf _ hL, hsplit]
    apply lastSome_suff
    · have : strip (toEntry ρ).pat (ekeys (bodyOf ρ.pat)) = some [] := by
        unfold Entry.pat
        have hwe : (toEntry ρ).w = false := hw
        simp only [hwe, Bool.false_eq_true, if_false]
        exact (strip_eq_tail _ [] hρok (Or.inl rfl) _).mpr rfl
      show (if strip (toEntry ρ).pat (ekeys (bodyOf ρ.pat)) = some [] then some (toEntry ρ).lf else none) = some (leafOf ρ)
      rw [if_pos this]; rfl
    · intro c hc
      have := hafter [] (by simp [hw]) c hc
      simp [this]


/-! ### the tree lookup against the reference choice -/

theorem pick_some_isSome (c : Route) (l : List Route) : (pick (some c) l).isSome = true := by
  induction l generalizing c with
  | nil => rfl
  | cons d ds ih =>
    simp only [pick]
    split
    · exact ih c
    · exact ih d

theorem pick_none_nil (l : List Route) (h : pick none l = none) : l = [] := by
  cases l with
  | nil => rfl
  | cons d ds =>
    simp only [pick] at h
    have := pick_some_isSome d ds
    rw [h] at this; exact absurd this (by simp)

theorem pat_split (pat : Pat) : pat = bodyOf pat ++ (if endsWild pat then [PSeg.wild] else []) := by
  have h := toEntry_pat ⟨[], [], pat, [], 0⟩
  simp only [toEntry, Entry.pat] at h
  exact h.symm

theorem ekeys_body (pat : Pat) : ekeys (bodyOf pat) = ekeys pat := by
  have h := pat_split pat
  cases hw : endsWild pat with
  | true =>
    rw [hw] at h
    simp only [if_true] at h
    conv => rhs; rw [h]
    simp [ekeys, ekey]
  | false =>
    rw [hw] at h
    simp only [Bool.false_eq_true, if_false, List.append_nil] at h
    rw [← h]

theorem matchPat_isSome_key (trail : Bool) (pat : Pat) (hp : patOK pat) (segs : List Bytes) :
    (matchPat trail pat segs).isSome = matchKey (ekeys (bodyOf pat)) (endsWild pat) segs trail := by
  rw [matchKey_entry _ hp]
  conv => lhs; rw [pat_split pat]

theorem inTree_notStatic (r : Route) (trail : Bool) (segs : List Bytes) (hseg : segs ≠ []) (ht : inTree r = true)
    (hm : (matchPat trail r.pat segs).isSome = true) : isStaticPat r.pat = false := by
  simp only [inTree, Bool.or_eq_true, Bool.not_eq_true', List.isEmpty_iff] at ht
  rcases ht with h | h
  · exact h
  · rw [h] at hm
    cases segs with
    | nil => exact absurd rfl hseg
    | cons x xs => simp [matchPat] at hm

theorem notStatic_inTree (r : Route) (h : isStaticPat r.pat = false) : inTree r = true := by
  simp [inTree, h]


/-! ### the search against the reference choice (since the K01b/K01f repair) -/

/-- the parameter writes along a pattern depend on its node key only -/
theorem pushesFor_key (ns : Nodes) (trail : Bool) (t : Pat) (ba : Pat) :
    ∀ (bb : Pat) (cur : Key) (segs : List Bytes), ba.all litOK = true → bb.all litOK = true → ekeys ba = ekeys bb →
      pushesFor ns trail cur (ba ++ t) segs = pushesFor ns trail cur (bb ++ t) segs := by
  induction ba with
  | nil =>
    intro bb cur segs _ hb hk
    cases bb with
    | nil => rfl
    | cons y ys =>
      simp only [List.all_cons, Bool.and_eq_true] at hb
      cases y <;> simp [ekeys, ekey, litOK] at hk hb
  | cons x xs ih =>
    intro bb cur segs ha hb hk
    simp only [List.all_cons, Bool.and_eq_true] at ha
    cases bb with
    | nil => cases x <;> simp [ekeys, ekey, litOK] at hk ha
    | cons y ys =>
      simp only [List.all_cons, Bool.and_eq_true] at hb
      cases x with
      | wild => simp [litOK] at ha
      | lit sx =>
        cases y with
        | wild => simp [litOK] at hb
        | par ny => simp [ekeys, ekey] at hk
        | lit sy =>
          have hk' : sx = sy ∧ ekeys xs = ekeys ys := by simpa [ekeys, ekey] using hk
          obtain ⟨rfl, hk2⟩ := hk'
          cases segs with
          | nil => simp [pushesFor]
          | cons z zs =>
            simp only [List.cons_append, pushesFor]
            exact ih ys _ zs ha.2 hb.2 hk2
      | par nx =>
        cases y with
        | wild => simp [litOK] at hb
        | lit sy => simp [ekeys, ekey] at hk
        | par ny =>
          have hk2 : ekeys xs = ekeys ys := by simpa [ekeys, ekey] using hk
          cases segs with
          | nil => simp [pushesFor]
          | cons z zs =>
            simp only [List.cons_append, pushesFor]
            rw [ih ys _ zs ha.2 hb.2 hk2]

/-- patterns with the same node key and the same wildness have the same shape -/
theorem shapeEq_of_key (t : Pat) (ht : t = [] ∨ t = [PSeg.wild]) (ba : Pat) :
    ∀ (bb : Pat), ba.all litOK = true → bb.all litOK = true → ekeys ba = ekeys bb → shapeEq (ba ++ t) (bb ++ t) = true := by
  induction ba with
  | nil =>
    intro bb _ hb hk
    cases bb with
    | nil => rcases ht with rfl | rfl <;> simp [shapeEq, sameShape]
    | cons y ys =>
      simp only [List.all_cons, Bool.and_eq_true] at hb
      cases y <;> simp [ekeys, ekey, litOK] at hk hb
  | cons x xs ih =>
    intro bb ha hb hk
    simp only [List.all_cons, Bool.and_eq_true] at ha
    cases bb with
    | nil => cases x <;> simp [ekeys, ekey, litOK] at hk ha
    | cons y ys =>
      simp only [List.all_cons, Bool.and_eq_true] at hb
      cases x with
      | wild => simp [litOK] at ha
      | lit sx =>
        cases y with
        | wild => simp [litOK] at hb
        | par ny => simp [ekeys, ekey] at hk
        | lit sy =>
          have hk' : sx = sy ∧ ekeys xs = ekeys ys := by simpa [ekeys, ekey] using hk
          obtain ⟨rfl, hk2⟩ := hk'
          simp [shapeEq, sameShape, ih ys ha.2 hb.2 hk2]
      | par nx =>
        cases y with
        | wild => simp [litOK] at hb
        | lit sy => simp [ekeys, ekey] at hk
        | par ny =>
          have hk2 : ekeys xs = ekeys ys := by simpa [ekeys, ekey] using hk
          simp [shapeEq, sameShape, ih ys ha.2 hb.2 hk2]

/-- the leaf (or wildcard leaf) a node holds is the leaf of a registered route of the tree that ends at
that node in that way -/
theorem node_route (R : List Route) (hR : ∀ r ∈ R, patOK r.pat) (m : Bytes) (k : Key) (w : Bool) (lf : Leaf)
    (h : (if w then (getK (nodesOf (entriesOf R m)) k).wild else (getK (nodesOf (entriesOf R m)) k).leaf) = some lf) :
    ∃ r ∈ R, r.method = m ∧ inTree r = true ∧ lf = leafOf r ∧ k = ekeys (bodyOf r.pat) ∧ w = endsWild r.pat := by
  have hL := entriesOf_ok R hR m
  have hleaf : ∃ e ∈ entriesOf R m, e.lf = lf ∧ strip e.pat k = some (if w then [PSeg.wild] else []) := by
    cases w with
    | true =>
      simp only [if_true] at h ⊢
      rw [nodesOf_wild _ hL] at h
      obtain ⟨e, he, hfe⟩ := lastSome_some _ _ _ h
      by_cases hs : strip e.pat k = some [PSeg.wild]
      · simp only [hs, if_true, Option.some.injEq] at hfe
        exact ⟨e, he, hfe, hs⟩
      · simp [hs] at hfe
    | false =>
      simp only [Bool.false_eq_true, if_false] at h ⊢
      rw [nodesOf_leaf _ hL] at h
      obtain ⟨e, he, hfe⟩ := lastSome_some _ _ _ h
      by_cases hs : strip e.pat k = some []
      · simp only [hs, if_true, Option.some.injEq] at hfe
        exact ⟨e, he, hfe, hs⟩
      · simp [hs] at hfe
  obtain ⟨e, he, helf, hes⟩ := hleaf
  obtain ⟨r, hr, hrm, hrt, rfl⟩ := mem_entriesOf he
  have hok : (toEntry r).ok := hR r hr
  have hkw : k = ekeys (toEntry r).bp ∧ w = (toEntry r).w := by
    unfold Entry.pat at hes
    cases hw : (toEntry r).w <;> cases w <;> simp only [hw, if_true, if_false, Bool.false_eq_true] at hes
    · exact ⟨(strip_eq_tail _ [] hok (Or.inl rfl) k).mp hes, rfl⟩
    · exfalso
      simp only [List.append_nil] at hes
      obtain ⟨pre, hp, _⟩ := strip_split _ _ _ hes
      unfold Entry.ok at hok
      rw [hp] at hok
      simp [litOK] at hok
    · exfalso
      obtain ⟨pre, hp, hlen⟩ := strip_split _ _ _ hes
      simp only [List.append_nil] at hp
      rw [← hp] at hlen
      have hle := List.length_filterMap_le ekey (toEntry r).bp
      simp only [List.filterMap_append, List.filterMap_cons, ekey, List.filterMap_nil, List.length_append,
        List.length_nil, List.length_cons] at hlen
      omega
    · exact ⟨(strip_eq_tail _ [PSeg.wild] hok (Or.inr rfl) k).mp hes, rfl⟩
  exact ⟨r, hr, hrm, hrt, by simp [← helf, toEntry], hkw.1, hkw.2⟩

theorem matchPat_some_of_isSome {trail : Bool} {pat : Pat} {segs : List Bytes} (h : (matchPat trail pat segs).isSome = true) :
    ∃ b, matchPat trail pat segs = some b := by
  cases hm : matchPat trail pat segs with
  | none => rw [hm] at h; simp at h
  | some b => exact ⟨b, rfl⟩

/-- what a node accepts, read as a route: the node a matching route `r` ends at answers with the leaf of
a registered route `r2` of the same shape (the last one registered) that matches the path, constraints
included, and with `r2`'s own bindings -/
theorem accAt_route (sat : Nat → Bytes → Bool) (R : List Route) (hR : ∀ r ∈ R, patOK r.pat)
    (hD : ∀ r ∈ R, distinct (declNames r.pat) = true) (m : Bytes) (p : RPath)
    (r : Route) (hr : r ∈ R) (hmatch : (matchPat p.trail r.pat p.segs).isSome = true) (res : Leaf × Ctx)
    (h : accAt sat (nodesOf (entriesOf R m)) p.trail [] (Ctx.fresh, []) r.pat p.segs = some res) :
    ∃ r2 ∈ R, r2.method = m ∧ inTree r2 = true ∧ ekeys (bodyOf r2.pat) = ekeys (bodyOf r.pat) ∧
      endsWild r2.pat = endsWild r.pat ∧
      ∃ b2, routeMatch sat r2 p = some b2 ∧ res = (leafOf r2, pushAll Ctx.fresh b2) := by
  unfold accAt at h
  simp only [List.nil_append] at h
  cases hlf : (if endsWild r.pat = true then (getK (nodesOf (entriesOf R m)) (ekeys r.pat)).wild
      else (getK (nodesOf (entriesOf R m)) (ekeys r.pat)).leaf) with
  | none => rw [hlf] at h; simp [acceptsGen] at h
  | some lf =>
    rw [hlf] at h
    obtain ⟨r2, hr2, hr2m, hr2t, hlf2, hk, hw⟩ := node_route R hR m _ _ lf hlf
    rw [← ekeys_body r.pat] at hk
    have hm2 : (matchPat p.trail r2.pat p.segs).isSome = true := by
      rw [matchPat_isSome_key _ _ (hR r2 hr2), ← hk, ← hw, ← matchPat_isSome_key _ _ (hR r hr)]
      exact hmatch
    obtain ⟨b2, hb2⟩ := matchPat_some_of_isSome hm2
    -- the captures along r are the captures along r2
    have hpush : pushesFor (nodesOf (entriesOf R m)) p.trail [] r.pat p.segs =
        pushesFor (nodesOf (entriesOf R m)) p.trail [] r2.pat p.segs := by
      conv => lhs; rw [pat_split r.pat]
      conv => rhs; rw [pat_split r2.pat]
      rw [← hw]
      exact pushesFor_key _ _ _ _ _ _ _ (hR r hr) (hR r2 hr2) hk
    have hvals := pushesFor_vals (nodesOf (entriesOf R m)) p.trail p.segs [] r2.pat b2 hb2
    have hnames : (leafOf r2).names = b2.map (·.1) := by rw [matchPat_keys _ _ _ _ hb2]; rfl
    have hbound : boundCtx false lf (pushAllT (Ctx.fresh, [])
        (pushesFor (nodesOf (entriesOf R m)) p.trail [] r.pat p.segs)) = pushAll Ctx.fresh b2 := by
      rw [hpush, hlf2]
      have hlen : (leafOf r2).names.length = (pushesFor (nodesOf (entriesOf R m)) p.trail [] r2.pat p.segs).length := by
        have h2 := congrArg List.length hvals
        simp only [List.length_map] at h2
        rw [hnames, List.length_map, h2]
      rw [bound_fresh _ _ hlen, hvals, hnames, zip_fst_snd]
    have hkeys : distinct (b2.map (·.1)) = true := by rw [matchPat_keys _ _ _ _ hb2]; exact hD r2 hr2
    have hv : validate sat lf.cons (pushAll Ctx.fresh b2) = consOK sat r2.cons b2 := by
      rw [hlf2]; exact validate_pushAll sat r2.cons b2 hkeys
    simp only [acceptsGen, hbound, hv] at h
    by_cases hc : consOK sat r2.cons b2 = true
    · simp only [hc, if_true, Option.some.injEq] at h
      refine ⟨r2, hr2, hr2m, hr2t, hk.symm, hw.symm, b2, by simp [routeMatch, hb2, hc], ?_⟩
      rw [← h, hlf2]
    · simp [hc] at h

/-- **Soundness of the tree lookup, unconditionally** (pattern, constraints and bindings): whatever the
search returns is the leaf of a registered route of the tree that matches the path — constraints included —
together with the context holding exactly that route's own bindings. -/
theorem walk_sound (sat : Nat → Bytes → Bool) (R : List Route) (hR : ∀ r ∈ R, patOK r.pat)
    (hD : ∀ r ∈ R, distinct (declNames r.pat) = true) (m : Bytes) (p : RPath) (res : Leaf × Ctx)
    (h : walkGen false false false sat (nodesOf (entriesOf R m)) p.trail [] (Ctx.fresh, []) p.segs = some res) :
    ∃ r ∈ R, r.method = m ∧ inTree r = true ∧ ∃ b, routeMatch sat r p = some b ∧ res = (leafOf r, pushAll Ctx.fresh b) := by
  have hL := entriesOf_ok R hR m
  obtain ⟨e, suf, hc, hacc⟩ := walk_some sat (entriesOf R m) hL p.trail p.segs [] (Ctx.fresh, []) res h
  obtain ⟨r, hr, _, _, rfl⟩ := mem_entriesOf hc.mem
  have hs := hc.str
  rw [strip_nil_key, toEntry_pat] at hs
  injection hs with hs; subst hs
  obtain ⟨r2, hr2, hr2m, hr2t, _, _, b2, hrm2, hres⟩ := accAt_route sat R hR hD m p r hr hc.mat res hacc
  exact ⟨r2, hr2, hr2m, hr2t, b2, hrm2, hres⟩

theorem laterThan_split (ρ : Route) (R : List Route) (h : ρ ∈ R) : ∃ R1, R = R1 ++ ρ :: laterThan ρ R := by
  induction R with
  | nil => simp at h
  | cons r rest ih =>
    by_cases hr : r = ρ
    · subst hr; exact ⟨[], by simp [laterThan]⟩
    · simp only [List.mem_cons] at h
      rcases h with h | h
      · exact absurd h.symm hr
      · obtain ⟨R1, hR1⟩ := ih h
        refine ⟨r :: R1, ?_⟩
        simp only [laterThan, hr, if_false, List.cons_append]
        rw [← hR1]

theorem rm_isSome_match {sat : Nat → Bytes → Bool} {r : Route} {p : RPath} (h : (routeMatch sat r p).isSome = true) :
    (matchPat p.trail r.pat p.segs).isSome = true := by
  unfold routeMatch at h
  cases hm : matchPat p.trail r.pat p.segs with
  | none => simp [hm] at h
  | some b => rfl

/-- **The tree lookup is the reference choice** unless the route the reference selects was replaced by a
later registration of its shape (`dReplaced1`, K01c). -/
theorem walk_ref (sat : Nat → Bytes → Bool) (R : List Route) (hR : ∀ r ∈ R, patOK r.pat)
    (hD : ∀ r ∈ R, distinct (declNames r.pat) = true) (m : Bytes) (p : RPath) (hseg : p.segs ≠ [])
    (hstat : staticHit R m p = false) (hOw : dReplaced1 sat R m p = false) :
    walkGen false false false sat (nodesOf (entriesOf R m)) p.trail [] (Ctx.fresh, []) p.segs =
      (refRoute sat R m p).map fun r => (leafOf r, pushAll Ctx.fresh ((routeMatch sat r p).getD [])) := by
  have hL := entriesOf_ok R hR m
  have hcandsM : ∀ c ∈ cands sat R m p, (matchPat p.trail c.pat p.segs).isSome = true := by
    intro c hc
    have := (List.mem_filter.mp hc).2
    simp only [decide_eq_true_eq] at this
    exact rm_isSome_match this.2
  cases href : refRoute sat R m p with
  | none =>
    simp only [Option.map_none]
    cases hw : walkGen false false false sat (nodesOf (entriesOf R m)) p.trail [] (Ctx.fresh, []) p.segs with
    | none => rfl
    | some res =>
      exfalso
      obtain ⟨r, hr, hrm, _, b, hb, _⟩ := walk_sound sat R hR hD m p res hw
      have hmem : r ∈ cands sat R m p := by
        simp only [cands, List.mem_filter, decide_eq_true_eq]
        exact ⟨hr, hrm, by rw [hb]; rfl⟩
      have hnil : cands sat R m p = [] := pick_none_nil _ href
      rw [hnil] at hmem; simp at hmem
  | some ρ =>
    simp only [Option.map_some]
    have hpick : pick none (cands sat R m p) = some ρ := href
    rcases pick_nec p.trail p.segs _ none ρ hcandsM (by intro c hc; cases hc) hpick with ⟨h, _⟩ | ⟨l1, l2, hl12, _, h1, h2⟩
    · cases h
    have hρc : ρ ∈ cands sat R m p := by rw [hl12]; simp
    have hρ := List.mem_filter.mp hρc
    simp only [decide_eq_true_eq] at hρ
    obtain ⟨hρR, hρm, hρrm⟩ := hρ
    have hρmatch := rm_isSome_match hρrm
    obtain ⟨b, hb⟩ := matchPat_some_of_isSome hρmatch
    have hcons : consOK sat ρ.cons b = true := by
      unfold routeMatch at hρrm
      rw [hb] at hρrm
      by_cases hc : consOK sat ρ.cons b = true
      · exact hc
      · simp [hc] at hρrm
    have hrm : routeMatch sat ρ p = some b := by simp [routeMatch, hb, hcons]
    -- ρ lives in the tree
    have hρns : isStaticPat ρ.pat = false := by
      cases hsp : isStaticPat ρ.pat with
      | false => rfl
      | true =>
        exfalso
        have : staticHit R m p = true := by
          simp only [staticHit, List.any_eq_true, decide_eq_true_eq]
          exact ⟨ρ, hρR, hρm, by simp [hsp], hρmatch⟩
        rw [hstat] at this; exact absurd this (by simp)
    have hρt : inTree ρ = true := notStatic_inTree ρ hρns
    have hmem : toEntry ρ ∈ entriesOf R m := by
      simp only [entriesOf, List.mem_map, List.mem_filter, Bool.and_eq_true, decide_eq_true_eq]
      exact ⟨ρ, ⟨hρR, hρm, hρt⟩, rfl⟩
    have hstrip : strip (toEntry ρ).pat [] = some ρ.pat := by rw [strip_nil_key, toEntry_pat]
    have hcand : Cand (entriesOf R m) p.trail [] p.segs (toEntry ρ) ρ.pat := ⟨hmem, hstrip, hρmatch⟩
    -- the node ρ ends at still holds ρ's leaf
    obtain ⟨R1, hRsplit⟩ := laterThan_split ρ R hρR
    have hleaf := leaf_at R1 (laterThan ρ R) ρ (by rw [← hRsplit]; exact hR) m hρm hρt (by
      intro r hr hrm hrt hk hw
      have hrR : r ∈ R := by rw [hRsplit]; simp [hr]
      have hshape : shapeEq r.pat ρ.pat = true := by
        rw [pat_split r.pat, pat_split ρ.pat, hw]
        exact shapeEq_of_key _ (by cases endsWild ρ.pat <;> simp) _ _ (hR r hrR) (hR ρ hρR) hk
      simp only [dReplaced1, href] at hOw
      have := (List.any_eq_false.mp hOw) r hr
      simp [hrm, hshape] at this)
    rw [← hRsplit, ekeys_body] at hleaf
    -- what that node answers
    have hvals := pushesFor_vals (nodesOf (entriesOf R m)) p.trail p.segs [] ρ.pat b hb
    have hnames : (leafOf ρ).names = b.map (·.1) := by rw [matchPat_keys _ _ _ _ hb]; rfl
    have hbound : boundCtx false (leafOf ρ) (pushAllT (Ctx.fresh, [])
        (pushesFor (nodesOf (entriesOf R m)) p.trail [] ρ.pat p.segs)) = pushAll Ctx.fresh b := by
      have hlen : (leafOf ρ).names.length = (pushesFor (nodesOf (entriesOf R m)) p.trail [] ρ.pat p.segs).length := by
        have h2 := congrArg List.length hvals
        simp only [List.length_map] at h2
        rw [hnames, List.length_map, h2]
      rw [bound_fresh _ _ hlen, hvals, hnames, zip_fst_snd]
    have hkeys : distinct (b.map (·.1)) = true := by rw [matchPat_keys _ _ _ _ hb]; exact hD ρ hρR
    have hv : validate sat (leafOf ρ).cons (pushAll Ctx.fresh b) = consOK sat ρ.cons b :=
      validate_pushAll sat ρ.cons b hkeys
    have hacc : accAt sat (nodesOf (entriesOf R m)) p.trail [] (Ctx.fresh, []) ρ.pat p.segs =
        some (leafOf ρ, pushAll Ctx.fresh b) := by
      unfold accAt
      simp only [List.nil_append]
      rw [hleaf]
      simp only [acceptsGen, hbound, hv, hcons, if_true]
    -- no node that accepts beats ρ
    have hmax : MaxAcc sat (entriesOf R m) p.trail [] (Ctx.fresh, []) p.segs ρ.pat := by
      intro e' suf' hc' hacc'
      obtain ⟨r', hr', _, _, rfl⟩ := mem_entriesOf hc'.mem
      have hs' := hc'.str
      rw [strip_nil_key, toEntry_pat] at hs'
      injection hs' with hs'; subst hs'
      obtain ⟨res', hres'⟩ : ∃ res', accAt sat (nodesOf (entriesOf R m)) p.trail [] (Ctx.fresh, []) r'.pat p.segs = some res' := by
        cases hh : accAt sat (nodesOf (entriesOf R m)) p.trail [] (Ctx.fresh, []) r'.pat p.segs with
        | none => rw [hh] at hacc'; simp at hacc'
        | some v => exact ⟨v, rfl⟩
      obtain ⟨r2, hr2, hr2m, _, hk2, hw2, b2, hrm2, _⟩ := accAt_route sat R hR hD m p r' hr' hc'.mat res' hres'
      have hr2c : r2 ∈ cands sat R m p := by
        simp only [cands, List.mem_filter, decide_eq_true_eq]
        exact ⟨hr2, hr2m, by rw [hrm2]; rfl⟩
      have hr2ρ : better r2.pat ρ.pat = false := by
        rw [hl12] at hr2c
        simp only [List.mem_append, List.mem_cons] at hr2c
        rcases hr2c with hin | rfl | hin
        · exact h1 r2 hin
        · exact better_irrefl _
        · exact better_asymm _ _ (h2 r2 hin)
      have hr'r2 : better r'.pat r2.pat = false := by
        rw [pat_split r'.pat, pat_split r2.pat]
        apply better_same_key _ _ _ _ (hR r' hr') (hR r2 hr2) hk2.symm (by rw [hw2])
        cases endsWild r'.pat <;> simp
      exact better_negtrans p.trail p.segs r'.pat r2.pat ρ.pat hc'.mat (rm_isSome_match (by rw [hrm2]; rfl)) hρmatch hr'r2 hr2ρ
    rw [walk_max sat (entriesOf R m) hL p.trail p.segs hseg [] (Ctx.fresh, []) (toEntry ρ) ρ.pat _ hcand hacc hmax]
    simp [hrm]

end Rivaas.RadixL
