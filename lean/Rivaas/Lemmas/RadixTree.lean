import Rivaas.Lemmas.RadixParams
import Rivaas.Lemmas.MatchOrder
/-
Layer L1 of C01 assembled: a method tree filled from a list of routes, looked up with the model's
`walk`, against the reference choice of Spec/Match.
-/
namespace Rivaas.RadixL
open Rivaas.Route Rivaas.Radix Rivaas.Match Rivaas.MatchL

def leafOf (r : Route) : Leaf := ⟨r.rid, r.cons, r.text, declNames r.pat⟩
def bodyOf (pat : Pat) : Pat := if endsWild pat then pat.dropLast else pat
def toEntry (r : Route) : Entry := ⟨bodyOf r.pat, endsWild r.pat, leafOf r⟩

/-- routes that live in the node map: everything except non-empty parameter-free patterns -/
def inTree (r : Route) : Bool := !isStaticPat r.pat || r.pat.isEmpty

/-- a pattern the tree registration handles as the vocabulary intends -/
def patOK (pat : Pat) : Prop := (bodyOf pat).all litOK = true

def entriesOf (R : List Route) (m : Bytes) : List Entry :=
  (R.filter fun r => r.method = m && inTree r).map toEntry

theorem toEntry_pat (r : Route) : (toEntry r).pat = r.pat := by
  unfold toEntry Entry.pat bodyOf
  simp only
  by_cases hw : endsWild r.pat = true
  · simp only [hw, if_true]
    unfold endsWild at hw
    simp only [decide_eq_true_eq] at hw
    have hne : r.pat ≠ [] := by intro e; rw [e] at hw; simp at hw
    have := List.dropLast_concat_getLast hne
    rw [List.getLast?_eq_some_getLast hne] at hw
    injection hw with hw
    rw [hw] at this
    exact this
  · simp [hw]

theorem entriesOf_ok (R : List Route) (hR : ∀ r ∈ R, patOK r.pat) (m : Bytes) : ∀ e ∈ entriesOf R m, e.ok := by
  intro e he
  simp only [entriesOf, List.mem_map, List.mem_filter] at he
  obtain ⟨r, ⟨hr, _⟩, rfl⟩ := he
  exact hR r hr

theorem lastSome_some {α β} (f : α → Option β) (l : List α) (v : β) (h : lastSome f l = some v) :
    ∃ a ∈ l, f a = some v := by
  induction l with
  | nil => simp [lastSome] at h
  | cons b rest ih =>
    simp only [lastSome] at h
    cases hr : lastSome f rest with
    | some w =>
      rw [hr] at h; simp at h
      obtain ⟨a, ha, hfa⟩ := ih (by rw [hr, h])
      exact ⟨a, List.mem_cons_of_mem _ ha, hfa⟩
    | none =>
      rw [hr] at h; simp at h
      exact ⟨b, List.mem_cons_self .., h⟩

theorem lastSome_suff {α β} (f : α → Option β) (l1 l2 : List α) (a : α) (v : β) (ha : f a = some v)
    (h2 : ∀ c ∈ l2, f c = none) : lastSome f (l1 ++ a :: l2) = some v := by
  induction l1 with
  | nil =>
    simp only [List.nil_append, lastSome]
    have : lastSome f l2 = none := by
      induction l2 with
      | nil => rfl
      | cons c cs ih =>
        simp only [lastSome, h2 c (List.mem_cons_self ..), ih (fun x hx => h2 x (List.mem_cons_of_mem _ hx))]
        rfl
    simp [this, ha]
  | cons b rest ih => simp [lastSome, ih]

/-- **Soundness of the tree lookup, unconditionally**: whatever `walk` returns is the leaf of a
registered route of the tree whose pattern matches the path segment-wise. -/
theorem walk_sound (sat : Nat → Bytes → Bool) (R : List Route) (hR : ∀ r ∈ R, patOK r.pat) (m : Bytes)
    (trail : Bool) (segs : List Bytes) (st : Ctx × List (Bytes × Bytes)) (ctx' : Ctx) (lf : Leaf)
    (h : okOf (walkGen false false sat (nodesOf (entriesOf R m)) trail [] st segs) = some (lf, ctx')) :
    ∃ r ∈ R, r.method = m ∧ inTree r = true ∧ lf = leafOf r ∧ (matchPat trail r.pat segs).isSome = true := by
  have hL := entriesOf_ok R hR m
  rw [walk_eq_descend] at h
  cases hd : descend (nodesOf (entriesOf R m)) trail [] segs with
  | none => simp [hd] at h
  | some res =>
    obtain ⟨k, w, ps⟩ := res
    simp only [hd, Option.bind_some, finish] at h
    obtain ⟨q, hkq, hmk⟩ := descend_shape _ _ _ _ _ _ _ hd
    simp only [List.nil_append] at hkq
    subst hkq
    -- the leaf found at the node
    have hleaf : ∃ e ∈ entriesOf R m, e.lf = lf ∧ strip e.pat k = some (if w then [PSeg.wild] else []) := by
      cases w with
      | true =>
        simp only [if_true] at h ⊢
        rw [nodesOf_wild _ hL] at h
        cases hl : lastSome (fun e : Entry => if strip e.pat k = some [PSeg.wild] then some e.lf else none) (entriesOf R m) with
        | none => simp [hl] at h
        | some lf' =>
          obtain ⟨e, he, hfe⟩ := lastSome_some _ _ _ hl
          simp only [hl] at h
          by_cases hs : strip e.pat k = some [PSeg.wild]
          · simp only [hs, if_true, Option.some.injEq] at hfe
            refine ⟨e, he, ?_, hs⟩
            by_cases hv : validate sat lf'.cons (boundCtx false lf' (pushAllT st ps)) = true
            · simp only [hv, if_true, Option.some.injEq, Prod.mk.injEq] at h
              rw [hfe, h.1]
            · simp [hv] at h
          · simp [hs] at hfe
      | false =>
        simp only [Bool.false_eq_true, if_false] at h ⊢
        rw [nodesOf_leaf _ hL] at h
        cases hl : lastSome (fun e : Entry => if strip e.pat k = some [] then some e.lf else none) (entriesOf R m) with
        | none => simp [hl] at h
        | some lf' =>
          obtain ⟨e, he, hfe⟩ := lastSome_some _ _ _ hl
          simp only [hl] at h
          by_cases hs : strip e.pat k = some []
          · simp only [hs, if_true, Option.some.injEq] at hfe
            refine ⟨e, he, ?_, hs⟩
            by_cases hv : validate sat lf'.cons (boundCtx false lf' (pushAllT st ps)) = true
            · simp only [hv, if_true, Option.some.injEq, Prod.mk.injEq] at h
              rw [hfe, h.1]
            · simp [hv] at h
          · simp [hs] at hfe
    obtain ⟨e, he, helf, hes⟩ := hleaf
    simp only [entriesOf, List.mem_map, List.mem_filter, Bool.and_eq_true, decide_eq_true_eq] at he
    obtain ⟨r, ⟨hr, hrm, hrt⟩, rfl⟩ := he
    refine ⟨r, hr, hrm, hrt, by simp [← helf, toEntry], ?_⟩
    -- the key is the entry's key, the wildness the entry's
    have hok : (toEntry r).ok := hR r hr
    have hpat := toEntry_pat r
    have hkw : k = ekeys (toEntry r).bp ∧ w = (toEntry r).w := by
      unfold Entry.pat at hes
      cases hw : (toEntry r).w <;> cases w <;> simp only [hw, if_true, if_false, Bool.false_eq_true] at hes
      · exact ⟨(strip_eq_tail _ [] hok (Or.inl rfl) k).mp hes, rfl⟩
      · exfalso
        simp only [List.append_nil] at hes
        obtain ⟨pre, hp, _⟩ := strip_split _ _ _ hes
        unfold Entry.ok at hok
        rw [hp] at hok
        simp [litOK] at hok
      · exfalso
        obtain ⟨pre, hp, hlen⟩ := strip_split _ _ _ hes
        simp only [List.append_nil] at hp
        rw [← hp] at hlen
        have hle := List.length_filterMap_le ekey (toEntry r).bp
        simp only [List.filterMap_append, List.filterMap_cons, ekey, List.filterMap_nil, List.length_append,
          List.length_nil, List.length_cons] at hlen
        omega
      · exact ⟨(strip_eq_tail _ [PSeg.wild] hok (Or.inr rfl) k).mp hes, rfl⟩
    obtain ⟨hk, hw⟩ := hkw
    rw [hk, hw, matchKey_entry _ hok] at hmk
    rw [← hpat]
    exact hmk


/-- **Soundness and priority of the tree lookup, unconditionally**: whatever `walk` returns is the leaf
of a registered route of the tree whose pattern matches, and no registered pattern of the tree that
matches the same segments beats it. -/
theorem walk_sound_max (sat : Nat → Bytes → Bool) (R : List Route) (hR : ∀ r ∈ R, patOK r.pat) (m : Bytes)
    (trail : Bool) (segs : List Bytes) (st : Ctx × List (Bytes × Bytes)) (ctx' : Ctx) (lf : Leaf)
    (h : okOf (walkGen false false sat (nodesOf (entriesOf R m)) trail [] st segs) = some (lf, ctx')) :
    ∃ r ∈ R, r.method = m ∧ inTree r = true ∧ lf = leafOf r ∧ (matchPat trail r.pat segs).isSome = true ∧
      ∀ r' ∈ R, r'.method = m → inTree r' = true → (matchPat trail r'.pat segs).isSome = true →
        better r'.pat r.pat = false := by
  have hL := entriesOf_ok R hR m
  rw [walk_eq_descend] at h
  cases hd : descend (nodesOf (entriesOf R m)) trail [] segs with
  | none => simp [hd] at h
  | some res =>
    obtain ⟨k, w, ps⟩ := res
    simp only [hd, Option.bind_some, finish] at h
    obtain ⟨q, hkq, hmk⟩ := descend_shape _ _ _ _ _ _ _ hd
    simp only [List.nil_append] at hkq
    subst hkq
    -- the leaf found at the node
    have hleaf : ∃ e ∈ entriesOf R m, e.lf = lf ∧ strip e.pat k = some (if w then [PSeg.wild] else []) := by
      cases w with
      | true =>
        simp only [if_true] at h ⊢
        rw [nodesOf_wild _ hL] at h
        cases hl : lastSome (fun e : Entry => if strip e.pat k = some [PSeg.wild] then some e.lf else none) (entriesOf R m) with
        | none => simp [hl] at h
        | some lf' =>
          obtain ⟨e, he, hfe⟩ := lastSome_some _ _ _ hl
          simp only [hl] at h
          by_cases hs : strip e.pat k = some [PSeg.wild]
          · simp only [hs, if_true, Option.some.injEq] at hfe
            refine ⟨e, he, ?_, hs⟩
            by_cases hv : validate sat lf'.cons (boundCtx false lf' (pushAllT st ps)) = true
            · simp only [hv, if_true, Option.some.injEq, Prod.mk.injEq] at h
              rw [hfe, h.1]
            · simp [hv] at h
          · simp [hs] at hfe
      | false =>
        simp only [Bool.false_eq_true, if_false] at h ⊢
        rw [nodesOf_leaf _ hL] at h
        cases hl : lastSome (fun e : Entry => if strip e.pat k = some [] then some e.lf else none) (entriesOf R m) with
        | none => simp [hl] at h
        | some lf' =>
          obtain ⟨e, he, hfe⟩ := lastSome_some _ _ _ hl
          simp only [hl] at h
          by_cases hs : strip e.pat k = some []
          · simp only [hs, if_true, Option.some.injEq] at hfe
            refine ⟨e, he, ?_, hs⟩
            by_cases hv : validate sat lf'.cons (boundCtx false lf' (pushAllT st ps)) = true
            · simp only [hv, if_true, Option.some.injEq, Prod.mk.injEq] at h
              rw [hfe, h.1]
            · simp [hv] at h
          · simp [hs] at hfe
    obtain ⟨e, he, helf, hes⟩ := hleaf
    simp only [entriesOf, List.mem_map, List.mem_filter, Bool.and_eq_true, decide_eq_true_eq] at he
    obtain ⟨r, ⟨hr, hrm, hrt⟩, rfl⟩ := he
    refine ⟨r, hr, hrm, hrt, by simp [← helf, toEntry], ?_, ?_⟩
    rotate_left
    · intro r' hr' hrm' hrt' hmatch'
      have hmem' : toEntry r' ∈ entriesOf R m := by
        simp only [entriesOf, List.mem_map, List.mem_filter, Bool.and_eq_true, decide_eq_true_eq]
        exact ⟨r', ⟨hr', hrm', hrt'⟩, rfl⟩
      have hd' : descend (nodesOf (entriesOf R m)) trail [] segs = some ([] ++ k, w, ps) := by simpa using hd
      have := descend_max (entriesOf R m) hL trail segs [] k w ps hd' r.pat (by rw [← toEntry_pat r]; exact hes)
        (toEntry r') hmem' r'.pat (by rw [strip_nil_key, toEntry_pat]) hmatch'
      exact this
    -- the key is the entry's key, the wildness the entry's
    have hok : (toEntry r).ok := hR r hr
    have hpat := toEntry_pat r
    have hkw : k = ekeys (toEntry r).bp ∧ w = (toEntry r).w := by
      unfold Entry.pat at hes
      cases hw : (toEntry r).w <;> cases w <;> simp only [hw, if_true, if_false, Bool.false_eq_true] at hes
      · exact ⟨(strip_eq_tail _ [] hok (Or.inl rfl) k).mp hes, rfl⟩
      · exfalso
        simp only [List.append_nil] at hes
        obtain ⟨pre, hp, _⟩ := strip_split _ _ _ hes
        unfold Entry.ok at hok
        rw [hp] at hok
        simp [litOK] at hok
      · exfalso
        obtain ⟨pre, hp, hlen⟩ := strip_split _ _ _ hes
        simp only [List.append_nil] at hp
        rw [← hp] at hlen
        have hle := List.length_filterMap_le ekey (toEntry r).bp
        simp only [List.filterMap_append, List.filterMap_cons, ekey, List.filterMap_nil, List.length_append,
          List.length_nil, List.length_cons] at hlen
        omega
      · exact ⟨(strip_eq_tail _ [PSeg.wild] hok (Or.inr rfl) k).mp hes, rfl⟩
    obtain ⟨hk, hw⟩ := hkw
    rw [hk, hw, matchKey_entry _ hok] at hmk
    rw [← hpat]
    exact hmk


/-! ### the guards of Spec/MatchClass give the hypotheses of the descent lemmas -/

theorem mem_entriesOf {R : List Route} {m : Bytes} {e : Entry} (he : e ∈ entriesOf R m) :
    ∃ r ∈ R, r.method = m ∧ inTree r = true ∧ e = toEntry r := by
  simp only [entriesOf, List.mem_map, List.mem_filter, Bool.and_eq_true, decide_eq_true_eq] at he
  obtain ⟨r, ⟨hr, hrm, hrt⟩, rfl⟩ := he
  exact ⟨r, hr, hrm, hrt, rfl⟩

theorem mem_dynRoutes {R : List Route} {m : Bytes} {r : Route} (hr : r ∈ R) (hm : r.method = m)
    (ht : inTree r = true) (hne : r.pat ≠ []) : r ∈ dynRoutes R m := by
  simp only [dynRoutes, List.mem_filter, decide_eq_true_eq]
  refine ⟨hr, hm, ?_⟩
  simp only [inTree, Bool.or_eq_true, Bool.not_eq_true', List.isEmpty_iff] at ht
  rcases ht with h | h
  · simp [h]
  · exact absurd h hne

theorem noShadow_of (R : List Route) (m : Bytes) (p : RPath) (ρ : Route)
    (hstat : staticHit R m p = false) (hrho : rho R m p = some ρ) (hS : dShadow1 R m p = false) :
    NoShadowAt (entriesOf R m) [] ρ.pat p.segs := by
  intro e' he' suf' hs i a b x hpre ha hb hx hc
  obtain ⟨r', hr', hm', ht', rfl⟩ := mem_entriesOf he'
  rw [strip_nil_key, toEntry_pat] at hs
  injection hs with hs; subst hs
  have hne : r'.pat ≠ [] := by intro e; rw [e] at ha; simp at ha
  have hdyn := mem_dynRoutes hr' hm' ht' hne
  simp only [dShadow1, hstat, Bool.not_false, Bool.true_and, hrho] at hS
  have h1 := Bool.eq_false_iff.mpr ((List.any_eq_false.mp hS) r' hdyn)
  have hi : i < ρ.pat.length := by
    rcases Nat.lt_or_ge i ρ.pat.length with h | h
    · exact h
    · rw [List.getElem?_eq_none h] at hb; cases hb
  have h2 := Bool.eq_false_iff.mpr ((List.any_eq_false.mp h1) i (List.mem_range.mpr hi))
  simp only [hpre, ha, hb, hx, hc, Bool.true_and, decide_eq_false_iff_not] at h2
  omega


/-! ### bindings and names -/

theorem declNames_cons (a : PSeg) (pt : Pat) (ha : a ≠ PSeg.wild) :
    declNames (a :: pt) = (match a with | PSeg.par n => [n] | _ => []) ++ declNames pt := by
  have hl : ((a :: pt).getLast? = some PSeg.wild) ↔ (pt.getLast? = some PSeg.wild) := by
    cases pt with
    | nil => simp [ha]
    | cons b bs => simp [List.getLast?_cons_cons]
  unfold declNames
  cases a with
  | wild => exact absurd rfl ha
  | lit s => simp only [parNames, List.nil_append]; simp only [hl]
  | par n => simp only [parNames, List.cons_append, List.nil_append]; simp only [hl]

theorem matchPat_keys (trail : Bool) (pat : Pat) (segs : List Bytes) (b : List (Bytes × Bytes))
    (h : matchPat trail pat segs = some b) : b.map (·.1) = declNames pat := by
  induction pat generalizing segs b with
  | nil =>
    cases segs with
    | nil =>
      cases trail <;> simp [matchPat] at h
      subst h; rfl
    | cons x xs => simp [matchPat] at h
  | cons a pt ih =>
    cases segs with
    | nil => cases a <;> cases pt <;> simp [matchPat] at h
    | cons x xs =>
      cases a with
      | wild =>
        cases pt with
        | nil =>
          simp only [matchPat, Option.some.injEq] at h
          subst h
          simp [declNames, parNames]
        | cons c cs => simp [matchPat] at h
      | lit s =>
        rw [declNames_cons _ _ (by simp)]
        have hm' : matchPat trail pt xs = some b := by
          cases pt <;> simp only [matchPat] at h <;> by_cases e : s = x <;> simp_all
        simpa using ih xs b hm'
      | par n =>
        rw [declNames_cons _ _ (by simp)]
        cases hmm : matchPat trail pt xs with
        | none => cases pt <;> simp [matchPat, hmm] at h
        | some b' =>
          have hb : b = (n, x) :: b' := by
            cases pt <;> simp [matchPat, hmm] at h <;> exact h.symm
          subst hb
          simp [ih xs b' hmm]

theorem cands_eq (sat : Nat → Bytes → Bool) (R : List Route) (m : Bytes) (p : RPath)
    (hstat : staticHit R m p = false) :
    cands sat R m p = (shapeCands R m p).filter fun r => (routeMatch sat r p).isSome := by
  unfold cands shapeCands dynRoutes
  rw [List.filter_filter, List.filter_filter]
  apply List.filter_congr
  intro r hr
  have hrm : (routeMatch sat r p).isSome = true → (matchPat p.trail r.pat p.segs).isSome = true := by
    intro h
    unfold routeMatch at h
    cases hm : matchPat p.trail r.pat p.segs with
    | none => simp [hm] at h
    | some b => rfl
  by_cases hm : r.method = m
  · by_cases hrt : (routeMatch sat r p).isSome = true
    · have hmp := hrm hrt
      have hns : isStaticPat r.pat = false := by
        cases hsp : isStaticPat r.pat with
        | false => rfl
        | true =>
          exfalso
          have : staticHit R m p = true := by
            simp only [staticHit, List.any_eq_true, decide_eq_true_eq]
            exact ⟨r, hr, hm, by simp [hsp], hmp⟩
          rw [hstat] at this; exact absurd this (by simp)
      simp [hm, hrt, hmp, hns]
    · simp [hm, hrt]
  · simp [hm]

/-- routes with the same node key and the same wildness do not beat each other -/
theorem better_same_key (ba bb ta tb : Pat) (ha : ba.all litOK = true) (hb : bb.all litOK = true)
    (hk : ekeys ba = ekeys bb) (ht : ta = tb) (hta : ta = [] ∨ ta = [PSeg.wild]) :
    better (ba ++ ta) (bb ++ tb) = false := by
  subst ht
  induction ba generalizing bb with
  | nil =>
    cases bb with
    | nil => simp [better_irrefl]
    | cons y ys =>
      simp only [List.all_cons, Bool.and_eq_true] at hb
      cases y <;> simp [ekeys, ekey, litOK] at hk hb
  | cons x xs ih =>
    simp only [List.all_cons, Bool.and_eq_true] at ha
    cases bb with
    | nil => cases x <;> simp [ekeys, ekey, litOK] at hk ha
    | cons y ys =>
      simp only [List.all_cons, Bool.and_eq_true] at hb
      have hxy : ekey x = ekey y ∧ ekeys xs = ekeys ys := by
        cases x <;> cases y <;> simp [ekeys, ekey, litOK] at hk ha hb ⊢ <;> first | exact hk | exact ⟨hk.1, hk.2⟩
      have hkind : kind x = kind y := by
        cases x <;> cases y <;> simp [ekey] at hxy <;> rfl
      simp only [List.cons_append, better, hkind, if_true]
      exact ih ys ha.2 hb.2 hxy.2

theorem entriesOf_append (R1 R2 : List Route) (m : Bytes) :
    entriesOf (R1 ++ R2) m = entriesOf R1 m ++ entriesOf R2 m := by
  simp [entriesOf, List.filter_append]

theorem entriesOf_cons_in (r : Route) (R2 : List Route) (m : Bytes) (hm : r.method = m) (ht : inTree r = true) :
    entriesOf (r :: R2) m = toEntry r :: entriesOf R2 m := by
  simp [entriesOf, List.filter_cons, hm, ht]

/-- the node a route ends at holds that route's leaf when no later route of the tree ends at the same
node in the same way -/
theorem leaf_at (R1 R2 : List Route) (ρ : Route) (hR : ∀ r ∈ R1 ++ ρ :: R2, patOK r.pat) (m : Bytes)
    (hm : ρ.method = m) (ht : inTree ρ = true)
    (hlast : ∀ r ∈ R2, r.method = m → inTree r = true →
      ekeys (bodyOf r.pat) = ekeys (bodyOf ρ.pat) → endsWild r.pat = endsWild ρ.pat → False) :
    (if endsWild ρ.pat then (getK (nodesOf (entriesOf (R1 ++ ρ :: R2) m)) (ekeys (bodyOf ρ.pat))).wild
     else (getK (nodesOf (entriesOf (R1 ++ ρ :: R2) m)) (ekeys (bodyOf ρ.pat))).leaf) = some (leafOf ρ) := by
  have hL := entriesOf_ok _ hR m
  have hsplit : entriesOf (R1 ++ ρ :: R2) m = entriesOf R1 m ++ toEntry ρ :: entriesOf R2 m := by
    rw [entriesOf_append, entriesOf_cons_in ρ R2 m hm ht]
  have hρok : (toEntry ρ).ok := hR ρ (by simp)
  -- entries after ρ do not end at ρ's node in ρ's way
  have hafter : ∀ (t : Pat), t = (if endsWild ρ.pat then [PSeg.wild] else []) →
      ∀ c ∈ entriesOf R2 m, ¬ strip c.pat (ekeys (bodyOf ρ.pat)) = some t := by
    intro t ht' c hc hs
    obtain ⟨r, hr, hrm, hrt, rfl⟩ := mem_entriesOf hc
    have hrok : (toEntry r).ok := hR r (by simp [hr])
    have hkw : ekeys (bodyOf ρ.pat) = ekeys (toEntry r).bp ∧ endsWild ρ.pat = (toEntry r).w := by
      unfold Entry.pat at hs
      cases hw : (toEntry r).w <;> cases hw2 : endsWild ρ.pat <;>
        simp only [hw, hw2, if_true, if_false, Bool.false_eq_true] at hs ht'
      · subst ht'
        exact ⟨(strip_eq_tail _ [] hrok (Or.inl rfl) _).mp hs, rfl⟩
      · exfalso
        subst ht'
        simp only [List.append_nil] at hs
        obtain ⟨pre, hp, _⟩ := strip_split _ _ _ hs
        unfold Entry.ok at hrok
        rw [hp] at hrok
        simp [litOK] at hrok
      · exfalso
        subst ht'
        obtain ⟨pre, hp, hlen⟩ := strip_split _ _ _ hs
        simp only [List.append_nil] at hp
        rw [← hp] at hlen
        have hle := List.length_filterMap_le ekey (toEntry r).bp
        simp only [List.filterMap_append, List.filterMap_cons, ekey, List.filterMap_nil, List.length_append,
          List.length_nil, List.length_cons] at hlen
        omega
      · subst ht'
        exact ⟨(strip_eq_tail _ [PSeg.wild] hrok (Or.inr rfl) _).mp hs, rfl⟩
    exact hlast r hr hrm hrt hkw.1.symm hkw.2.symm
  cases hw : endsWild ρ.pat with
  | true =>
    simp only [if_true]
    rw [nodesOf_wild _ hL, hsplit]
    apply lastSome_suff
    · have : strip (toEntry ρ).pat (ekeys (bodyOf ρ.pat)) = some [PSeg.wild] := by
        unfold Entry.pat
        have hwe : (toEntry ρ).w = true := hw
        simp only [hwe, if_true]
        exact (strip_eq_tail _ [PSeg.wild] hρok (Or.inr rfl) _).mpr rfl
      show (if strip (toEntry ρ).pat (ekeys (bodyOf ρ.pat)) = some [PSeg.wild] then some (toEntry ρ).lf else none) = some (leafOf ρ)
      rw [if_pos this]; rfl
    · intro c hc
      have := hafter [PSeg.wild] (by simp [hw]) c hc
      simp [this]
  | false =>
    simp only [Bool.false_eq_true, if_false]
    rw [nodesOf_leaf _ hL, hsplit]
    apply lastSome_suff
    · have : strip (toEntry ρ).pat (ekeys (bodyOf ρ.pat)) = some [] := by
        unfold Entry.pat
        have hwe : (toEntry ρ).w = false := hw
        simp only [hwe, Bool.false_eq_true, if_false]
        exact (strip_eq_tail _ [] hρok (Or.inl rfl) _).mpr rfl
      show (if strip (toEntry ρ).pat (ekeys (bodyOf ρ.pat)) = some [] then some (toEntry ρ).lf else none) = some (leafOf ρ)
      rw [if_pos this]; rfl
    · intro c hc
      have := hafter [] (by simp [hw]) c hc
      simp [this]


/-! ### the tree lookup against the reference choice -/

theorem pick_some_isSome (c : Route) (l : List Route) : (pick (some c) l).isSome = true := by
  induction l generalizing c with
  | nil => rfl
  | cons d ds ih =>
    simp only [pick]
    split
    · exact ih c
    · exact ih d

theorem pick_none_nil (l : List Route) (h : pick none l = none) : l = [] := by
  cases l with
  | nil => rfl
  | cons d ds =>
    simp only [pick] at h
    have := pick_some_isSome d ds
    rw [h] at this; exact absurd this (by simp)

theorem pat_split (pat : Pat) : pat = bodyOf pat ++ (if endsWild pat then [PSeg.wild] else []) := by
  have h := toEntry_pat ⟨[], [], pat, [], 0⟩
  simp only [toEntry, Entry.pat] at h
  exact h.symm

theorem ekeys_body (pat : Pat) : ekeys (bodyOf pat) = ekeys pat := by
  have h := pat_split pat
  cases hw : endsWild pat with
  | true =>
    rw [hw] at h
    simp only [if_true] at h
    conv => rhs; rw [h]
    simp [ekeys, ekey]
  | false =>
    rw [hw] at h
    simp only [Bool.false_eq_true, if_false, List.append_nil] at h
    rw [← h]

theorem matchPat_isSome_key (trail : Bool) (pat : Pat) (hp : patOK pat) (segs : List Bytes) :
    (matchPat trail pat segs).isSome = matchKey (ekeys (bodyOf pat)) (endsWild pat) segs trail := by
  rw [matchKey_entry _ hp]
  conv => lhs; rw [pat_split pat]

theorem inTree_notStatic (r : Route) (trail : Bool) (segs : List Bytes) (hseg : segs ≠ []) (ht : inTree r = true)
    (hm : (matchPat trail r.pat segs).isSome = true) : isStaticPat r.pat = false := by
  simp only [inTree, Bool.or_eq_true, Bool.not_eq_true', List.isEmpty_iff] at ht
  rcases ht with h | h
  · exact h
  · rw [h] at hm
    cases segs with
    | nil => exact absurd rfl hseg
    | cons x xs => simp [matchPat] at hm

theorem notStatic_inTree (r : Route) (h : isStaticPat r.pat = false) : inTree r = true := by
  simp [inTree, h]

theorem walk_ref (sat : Nat → Bytes → Bool) (R : List Route) (hR : ∀ r ∈ R, patOK r.pat)
    (hD : ∀ r ∈ R, distinct (declNames r.pat) = true) (m : Bytes) (p : RPath) (hseg : p.segs ≠ [])
    (hstat : staticHit R m p = false)
    (hS : dShadow1 R m p = false) (hC : dCfall1 sat R m p = false) :
    okOf (walkGen false false sat (nodesOf (entriesOf R m)) p.trail [] (Ctx.fresh, []) p.segs) =
      (refRoute sat R m p).map fun r => (leafOf r, pushAll Ctx.fresh ((routeMatch sat r p).getD [])) := by
  have hL := entriesOf_ok R hR m
  have hcands := cands_eq sat R m p hstat
  have hSCm : ∀ c ∈ shapeCands R m p, (matchPat p.trail c.pat p.segs).isSome = true := by
    intro c hc
    simp only [shapeCands, List.mem_filter] at hc
    exact hc.2
  cases hrho : rho R m p with
  | none =>
    have hSC : shapeCands R m p = [] := pick_none_nil _ hrho
    have href : refRoute sat R m p = none := by
      unfold refRoute; rw [hcands, hSC]; rfl
    rw [href]
    cases hw : okOf (walkGen false false sat (nodesOf (entriesOf R m)) p.trail [] (Ctx.fresh, []) p.segs) with
    | none => rfl
    | some res =>
      exfalso
      obtain ⟨lf, ctx'⟩ := res
      obtain ⟨r, hr, hrm, hrt, _, hmatch⟩ := walk_sound sat R hR m p.trail p.segs _ _ _ hw
      have hns := inTree_notStatic r p.trail p.segs hseg hrt hmatch
      have : r ∈ shapeCands R m p := by
        simp only [shapeCands, dynRoutes, List.mem_filter, decide_eq_true_eq]
        exact ⟨⟨hr, hrm, by simp [hns]⟩, hmatch⟩
      rw [hSC] at this; simp at this
  | some ρ =>
    have hrho' : pick none (shapeCands R m p) = some ρ := hrho
    rcases pick_nec p.trail p.segs _ none ρ hSCm (by intro c hc; cases hc) hrho' with ⟨h, _⟩ | ⟨l1, l2, hl12, _, h1, h2⟩
    · cases h
    have hρSC : ρ ∈ shapeCands R m p := by rw [hl12]; simp
    have hρ : ρ ∈ R ∧ ρ.method = m ∧ isStaticPat ρ.pat = false ∧ (matchPat p.trail ρ.pat p.segs).isSome = true := by
      simp only [shapeCands, dynRoutes, List.mem_filter, decide_eq_true_eq] at hρSC
      obtain ⟨⟨a, b, c⟩, d⟩ := hρSC
      exact ⟨a, b, by simpa using c, d⟩
    obtain ⟨hρR, hρm, hρns, hρmatch⟩ := hρ
    have hρt : inTree ρ = true := notStatic_inTree ρ hρns
    obtain ⟨b, hb⟩ : ∃ b, matchPat p.trail ρ.pat p.segs = some b := by
      cases hmm : matchPat p.trail ρ.pat p.segs with
      | none => rw [hmm] at hρmatch; simp at hρmatch
      | some b => exact ⟨b, rfl⟩
    -- position of ρ in R
    have hSCfilter : shapeCands R m p =
        R.filter fun r => (matchPat p.trail r.pat p.segs).isSome && (decide (r.method = m ∧ ¬ isStaticPat r.pat = true)) := by
      unfold shapeCands dynRoutes
      rw [List.filter_filter]
    rw [hSCfilter] at hl12
    obtain ⟨Ra, Rb, hRab, hRa, hRb⟩ := List.filter_eq_append_iff.mp hl12
    obtain ⟨Rc, R2, hRb2, _, _, hR2⟩ := List.filter_eq_cons_iff.mp hRb
    have hRsplit : R = (Ra ++ Rc) ++ ρ :: R2 := by rw [hRab, hRb2]; simp
    -- the descent reaches ρ's node
    have hmem : toEntry ρ ∈ entriesOf R m := by
      simp only [entriesOf, List.mem_map, List.mem_filter, Bool.and_eq_true, decide_eq_true_eq]
      exact ⟨ρ, ⟨hρR, hρm, hρt⟩, rfl⟩
    have hstrip : strip (toEntry ρ).pat [] = some ρ.pat := by rw [strip_nil_key, toEntry_pat]
    have hdesc := descend_complete (entriesOf R m) hL p.trail p.segs hseg [] ρ.pat ⟨toEntry ρ, hmem, hstrip⟩ hρmatch
      (noShadow_of R m p ρ hstat hrho hS)
    have hvals := pushesFor_vals (nodesOf (entriesOf R m)) p.trail p.segs [] ρ.pat b hb
    rw [walk_eq_descend, hdesc]
    simp only [List.nil_append, Option.bind_some, finish]
    -- the leaf there is ρ's
    have hleaf := leaf_at (Ra ++ Rc) R2 ρ (by rw [← hRsplit]; exact hR) m hρm hρt (by
      intro r hr hrm hrt hk hw
      have hrR : r ∈ R := by rw [hRsplit]; simp [hr]
      have hrmatch : (matchPat p.trail r.pat p.segs).isSome = true := by
        rw [matchPat_isSome_key _ _ (hR r hrR), hk, hw, ← matchPat_isSome_key _ _ (hR ρ hρR)]
        exact hρmatch
      have hrns := inTree_notStatic r p.trail p.segs hseg hrt hrmatch
      have hrl2 : r ∈ l2 := by
        rw [← hR2]
        simp only [List.mem_filter, Bool.and_eq_true, decide_eq_true_eq]
        exact ⟨hr, hrmatch, hrm, by simp [hrns]⟩
      have hb1 := h2 r hrl2
      have hb2 : better ρ.pat r.pat = false := by
        rw [pat_split ρ.pat, pat_split r.pat]
        apply better_same_key _ _ _ _ (hR ρ hρR) (hR r hrR) hk.symm (by rw [hw])
        cases endsWild ρ.pat <;> simp
      rw [hb1] at hb2; exact absurd hb2 (by simp))
    rw [← hRsplit, ekeys_body] at hleaf
    have hleaf' : (if endsWild ρ.pat = true then (getK (nodesOf (entriesOf R m)) (ekeys ρ.pat)).wild
        else (getK (nodesOf (entriesOf R m)) (ekeys ρ.pat)).leaf) = some (leafOf ρ) := hleaf
    rw [hleaf']
    -- the captured values under ρ's own names are ρ's bindings
    have hbound : boundCtx false (leafOf ρ) (pushAllT (Ctx.fresh, [])
        (pushesFor (nodesOf (entriesOf R m)) p.trail [] ρ.pat p.segs)) = pushAll Ctx.fresh b := by
      have hlen : (leafOf ρ).names.length = (pushesFor (nodesOf (entriesOf R m)) p.trail [] ρ.pat p.segs).length := by
        have h1 : (leafOf ρ).names = b.map (·.1) := by rw [matchPat_keys _ _ _ _ hb]; rfl
        have h2 := congrArg List.length hvals
        simp only [List.length_map] at h2
        rw [h1, List.length_map, h2]
      rw [bound_fresh _ _ hlen, hvals]
      have h1 : (leafOf ρ).names = b.map (·.1) := by rw [matchPat_keys _ _ _ _ hb]; rfl
      rw [h1, zip_fst_snd]
    simp only [hbound]
    -- constraints
    have hkeys : distinct (b.map (·.1)) = true := by rw [matchPat_keys _ _ _ _ hb]; exact hD ρ hρR
    have hv : validate sat (leafOf ρ).cons (pushAll Ctx.fresh b) = consOK sat ρ.cons b :=
      validate_pushAll sat ρ.cons b hkeys
    have hSCsplit : shapeCands R m p = l1 ++ ρ :: l2 := by
      rw [hSCfilter]; exact hl12
    by_cases hcons : consOK sat ρ.cons b = true
    · have hrm : routeMatch sat ρ p = some b := by simp [routeMatch, hb, hcons]
      have href : refRoute sat R m p = some ρ := by
        unfold refRoute
        rw [hcands, hSCsplit, List.filter_append, List.filter_cons]
        simp only [hrm, Option.isSome_some, if_true]
        apply pick_suff
        · intro c hc; cases hc
        · intro c hc; exact h1 c (List.mem_filter.mp hc).1
        · intro c hc; exact h2 c (List.mem_filter.mp hc).1
      simp only [hv, hcons, if_true, href, Option.map_some, hrm, Option.getD_some]
    · have hrm : routeMatch sat ρ p = none := by simp [routeMatch, hb, hcons]
      have hany : (shapeCands R m p).any (fun r => (routeMatch sat r p).isSome) = false := by
        simp only [dCfall1, hstat, Bool.not_false, Bool.true_and, hrho, hrm, Option.isNone_none] at hC
        exact hC
      have href : refRoute sat R m p = none := by
        unfold refRoute
        rw [hcands]
        have : (shapeCands R m p).filter (fun r => (routeMatch sat r p).isSome) = [] := by
          apply List.filter_eq_nil_iff.mpr
          intro a ha
          have := (List.any_eq_false.mp hany) a ha
          exact this
        rw [this]; rfl
      simp only [hv, hcons, Bool.false_eq_true, if_false, href, Option.map_none]

end Rivaas.RadixL
