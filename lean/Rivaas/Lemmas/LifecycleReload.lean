import Rivaas.Lemmas.LifecycleShut
/-
C09 — helper lemmas, part 5: the reload rounds around the select loop.
-/
namespace Rivaas.Lifecycle
open Spec

theorem reloadEvs_kinds (r k i : Nat) : kindsIn [.reload] (reloadEvs r k i) := by
  induction k generalizing i with
  | zero => exact kindsIn_nil _
  | succ k ih => exact kindsIn_cons (by simp [kind]) (kindsIn_cons (by simp [kind]) (ih _))

theorem reloadEvs_rounds' (r k i : Nat) : ∀ x ∈ (reloadEvs r k i).filterMap reloadRound, x = r := by
  induction k generalizing i with
  | zero => intro x hx; simp [reloadEvs] at hx
  | succ k ih =>
    intro x hx
    simp only [reloadEvs, List.filterMap_cons, reloadRound, List.mem_cons] at hx
    rcases hx with hx | hx | hx
    · exact hx
    · exact hx
    · exact ih _ x hx

/-- round ids of a piece of log -/
def ids (l : List Ev) : List Nat := l.filterMap reloadRound

theorem ids_nil : ids [] = [] := rfl

theorem ids_append (a b : List Ev) : ids (a ++ b) = ids a ++ ids b := List.filterMap_append ..

theorem ids_sig : ids [Ev.sig] = [] := rfl

theorem ids_take_drop (l : List Ev) (c : Nat) : ids (l.take c) ++ ids (l.drop c) = ids l := by
  rw [← ids_append, List.take_append_drop]

theorem ids_splice (pre evs : List Ev) (c : Nat) :
    ids (pre ++ evs.take c ++ [Ev.sig] ++ evs.drop c) = ids pre ++ ids evs := by
  rw [ids_append, ids_append, ids_append, ids_sig, List.append_nil, List.append_assoc, ids_take_drop]

theorem ids_splice2 (pre evs : List Ev) (c : Nat) :
    ids (pre ++ evs.take c ++ [Ev.sig]) ++ ids (evs.drop c) = ids pre ++ ids evs := by
  rw [ids_append, ids_append, ids_sig, List.append_nil, List.append_assoc, ids_take_drop]

theorem reloadEvs_rounds (r k i : Nat) : ∀ x ∈ ids (reloadEvs r k i), x = r := reloadEvs_rounds' r k i

/-- what the reload loop maintains; `r` = number of the next round -/
structure LoopInv (fx : Fixes) (st : Loop) (r : Nat) : Prop where
  preK : kindsIn [.reload, .sig] st.pre
  postK : kindsIn [.reload] st.post
  lt : ∀ x ∈ ids st.pre ++ ids st.post, x < r
  sorted : (ids st.pre ++ ids st.post).Pairwise (· ≤ ·)
  post : st.cancelled = false → st.post = []
  sig : st.cancelled = true → st.pre.any isSig = true
  dead : fx.d = true → st.dead = false
  res : fx.d = true → st.res.all (· != .panic) = true
  /-- apart from reload events the loop contributes the stop signal, if it arrived inside a round -/
  rest : st.pre.filter (fun e => !isReload e) = if st.cancelled then [Ev.sig] else []

theorem filter_nonReload_of_kinds {l : List Ev} (h : kindsIn [.reload] l) :
    l.filter (fun e => !isReload e) = [] := by
  apply List.filter_eq_nil_iff.mpr
  intro e he
  have := h e he
  simp only [List.mem_singleton] at this
  simp [kind_isReload e this]

theorem LoopInv.init (fx : Fixes) : LoopInv fx ⟨[], [], false, false, []⟩ 0 where
  preK := kindsIn_nil _
  postK := kindsIn_nil _
  lt := by intro x hx; simp [ids_nil] at hx
  sorted := by simp [ids_nil]
  post := fun _ => rfl
  sig := by intro h; cases h
  dead := fun _ => rfl
  res := fun _ => rfl
  rest := rfl

theorem roundRes_ne_panic (fx : Fixes) (h : fx.d = true) (beh : List HB) (n : Nat) :
    (roundRes fx beh n != .panic) = true := by
  unfold roundRes
  split <;> simp [h]

theorem roundPanics_false (fx : Fixes) (h : fx.d = true) (beh : List HB) (n : Nat) :
    roundPanics fx beh n = false := by
  simp [roundPanics, h]

/-- appending a block of events of round `r` (with or without the signal in it) keeps the ids sorted -/
theorem sorted_snoc_round {pre : List Nat} {r : Nat} {blk : List Nat} (hlt : ∀ x ∈ pre, x < r)
    (hs : pre.Pairwise (· ≤ ·)) (hb : ∀ x ∈ blk, x = r) : (pre ++ blk).Pairwise (· ≤ ·) := by
  rw [List.pairwise_append]
  refine ⟨hs, ?_, ?_⟩
  · induction blk with
    | nil => exact List.Pairwise.nil
    | cons y ys ih =>
      apply List.Pairwise.cons
      · intro z hz
        have h1 := hb y (List.mem_cons_self ..)
        have h2 := hb z (List.mem_cons_of_mem _ hz)
        omega
      · exact ih (fun x hx => hb x (List.mem_cons_of_mem _ hx))
  · intro a ha b hb'
    have := hlt a ha
    have := hb b hb'
    omega

theorem LoopInv.step (fx : Fixes) (n : Nat) (st : Loop) (r : Nat) (rd : Round) (h : LoopInv fx st r) :
    LoopInv fx (roundStep fx n st r rd) (r + 1) := by
  have lt' : ∀ x ∈ ids st.pre ++ ids st.post, x < r + 1 := fun x hx => Nat.lt_succ_of_lt (h.lt x hx)
  have resNa : fx.d = true → (st.res ++ [RRes.na]).all (· != .panic) = true := by
    intro hd; simp only [List.all_append, h.res hd, Bool.true_and]; rfl
  unfold roundStep
  by_cases hcd : (st.cancelled || st.dead) = true
  · simp only [hcd, if_true]
    exact ⟨h.preK, h.postK, lt', h.sorted, h.post, h.sig, h.dead, resNa, h.rest⟩
  · simp only [hcd, Bool.false_eq_true, if_false]
    by_cases hh : (rd.trig == Trig.hup && n == 0) = true
    · simp only [hh, if_true]
      exact ⟨h.preK, h.postK, lt', h.sorted, h.post, h.sig, h.dead, resNa, h.rest⟩
    · simp only [hh, Bool.false_eq_true, if_false]
      have hc : st.cancelled = false := by
        cases hx : st.cancelled
        · rfl
        · simp [hx] at hcd
      have hpost : st.post = [] := h.post hc
      have hlt0 : ∀ x ∈ ids st.pre, x < r := by
        intro x hx; exact h.lt x (List.mem_append_left _ hx)
      have hs0 : (ids st.pre).Pairwise (· ≤ ·) := by
        have := h.sorted; rw [hpost, ids_nil, List.append_nil] at this; exact this
      have hk := reloadEvs_kinds r (ran rd.beh n) 0
      have hr := reloadEvs_rounds r (ran rd.beh n) 0
      have hk' : kindsIn [Kind.reload, Kind.sig] (reloadEvs r (ran rd.beh n) 0) := kindsIn_mono hk (by simp)
      have hsig : kindsIn [Kind.reload, Kind.sig] [Ev.sig] := kindsIn_cons (by simp [kind]) (kindsIn_nil _)
      have resR : fx.d = true → (st.res ++ [roundRes fx rd.beh n]).all (· != .panic) = true := by
        intro hd
        simp only [List.all_append, h.res hd, Bool.true_and, List.all_cons, List.all_nil, Bool.and_true]
        exact roundRes_ne_panic fx hd _ _
      have full : ∀ x ∈ ids st.pre ++ ids (reloadEvs r (ran rd.beh n) 0), x < r + 1 := by
        intro x hx
        rcases List.mem_append.mp hx with hx | hx
        · exact Nat.lt_succ_of_lt (hlt0 x hx)
        · rw [hr x hx]; exact Nat.lt_succ_self _
      have fullS : (ids st.pre ++ ids (reloadEvs r (ran rd.beh n) 0)).Pairwise (· ≤ ·) :=
        sorted_snoc_round hlt0 hs0 hr
      have hrest0 : st.pre.filter (fun e => !isReload e) = [] := by
        have := h.rest; rw [hc] at this; simpa using this
      have hf0 := filter_nonReload_of_kinds hk
      have hft : ∀ c, (List.take c (reloadEvs r (ran rd.beh n) 0)).filter (fun e => !isReload e) = [] :=
        fun c => filter_nonReload_of_kinds (kindsIn_take hk c)
      have hfd : ∀ c, (List.drop c (reloadEvs r (ran rd.beh n) 0)).filter (fun e => !isReload e) = [] :=
        fun c => filter_nonReload_of_kinds (kindsIn_drop hk c)
      have hfs : [Ev.sig].filter (fun e => !isReload e) = [Ev.sig] := rfl
      split
      · -- SIGHUP round, no signal inside
        refine ⟨kindsIn_append h.preK hk', h.postK, ?_, ?_, ?_, ?_, ?_, resNa, ?_⟩
        · rw [hpost, ids_nil, List.append_nil, ids_append]; exact full
        · rw [hpost, ids_nil, List.append_nil, ids_append]; exact fullS
        · intro _; exact hpost
        · intro hx; simp [hc] at hx
        · intro hd; exact roundPanics_false fx hd _ _
        · simp only [List.filter_append, hrest0, hf0, hc, List.nil_append, Bool.false_eq_true, if_false]
      · -- SIGHUP round, the signal arrives in hook j
        rename_i c _
        refine ⟨?_, h.postK, ?_, ?_, ?_, ?_, ?_, resNa, ?_⟩
        · exact kindsIn_append (kindsIn_append (kindsIn_append h.preK (kindsIn_take hk' _)) hsig) (kindsIn_drop hk' _)
        · rw [hpost, ids_nil, List.append_nil, ids_splice]; exact full
        · rw [hpost, ids_nil, List.append_nil, ids_splice]; exact fullS
        · intro hx; cases hx
        · intro _; simp [isSig]
        · intro hd; exact roundPanics_false fx hd _ _
        · simp only [List.filter_append, hrest0, hft, hfd, hfs, List.nil_append, List.append_nil, if_true]
      · -- programmatic round, no signal inside
        refine ⟨kindsIn_append h.preK hk', h.postK, ?_, ?_, ?_, ?_, h.dead, resR, ?_⟩
        · rw [hpost, ids_nil, List.append_nil, ids_append]; exact full
        · rw [hpost, ids_nil, List.append_nil, ids_append]; exact fullS
        · intro _; exact hpost
        · intro hx; simp [hc] at hx
        · simp only [List.filter_append, hrest0, hf0, hc, List.nil_append, Bool.false_eq_true, if_false]
      · -- programmatic round, the signal arrives in hook j: the rest of the round runs after Start returned
        rename_i c _
        refine ⟨?_, kindsIn_drop hk _, ?_, ?_, ?_, ?_, h.dead, resR, ?_⟩
        · exact kindsIn_append (kindsIn_append h.preK (kindsIn_take hk' _)) hsig
        · rw [ids_splice2]; exact full
        · rw [ids_splice2]; exact fullS
        · intro hx; cases hx
        · intro _; simp [isSig]
        · simp only [List.filter_append, hrest0, hft, hfs, List.nil_append, if_true]

theorem LoopInv.rounds (fx : Fixes) (n : Nat) (st : Loop) (r : Nat) (rds : List Round) (h : LoopInv fx st r) :
    ∃ r', LoopInv fx (roundsFrom fx n st r rds) r' := by
  induction rds generalizing st r with
  | nil => exact ⟨r, h⟩
  | cons rd rest ih => exact ih _ _ (LoopInv.step fx n st r rd h)

/-! ### what continues after `Start` has returned belongs to a round the environment started itself -/

theorem reloadEvs_round_eq (r k i : Nat) : ∀ e ∈ reloadEvs r k i, reloadRound e = some r := by
  induction k generalizing i with
  | zero => intro e he; cases he
  | succ k ih =>
    intro e he
    simp only [reloadEvs, List.mem_cons] at he
    rcases he with rfl | rfl | he
    · rfl
    · rfl
    · exact ih _ e he

/-- a step leaves `post` alone, or — in a programmatic round — sets it to a piece of that round's events -/
theorem roundStep_post (fx : Fixes) (n : Nat) (st : Loop) (r : Nat) (rd : Round) :
    (roundStep fx n st r rd).post = st.post ∨
    (rd.trig = .prog ∧ ∃ c k, (roundStep fx n st r rd).post = (reloadEvs r k 0).drop c) := by
  unfold roundStep
  split
  · left; rfl
  · split
    · left; rfl
    · simp only []
      split
      · left; rfl
      · left; rfl
      · left; rfl
      · rename_i c _ htr _
        right; exact ⟨by simpa using htr, _, _, rfl⟩

theorem roundsFrom_post_env (fx : Fixes) (n : Nat) (all : List Round) (st : Loop) (r : Nat) (rds : List Round)
    (hall : all.drop r = rds)
    (hp : ∀ e ∈ st.post, ∃ r' rd', reloadRound e = some r' ∧ all[r']? = some rd' ∧ rd'.trig = .prog) :
    ∀ e ∈ (roundsFrom fx n st r rds).post,
      ∃ r' rd', reloadRound e = some r' ∧ all[r']? = some rd' ∧ rd'.trig = .prog := by
  induction rds generalizing st r with
  | nil => exact hp
  | cons rd rest ih =>
    simp only [roundsFrom]
    apply ih
    · rw [← List.drop_drop, hall]; rfl
    · have hrd : all[r]? = some rd := by
        have := congrArg List.head? hall
        simpa [List.head?_drop] using this
      rcases roundStep_post fx n st r rd with h | ⟨htr, c, k, h⟩
      · rw [h]; exact hp
      · rw [h]
        intro e he
        exact ⟨r, rd, reloadEvs_round_eq r k 0 e (List.mem_of_mem_drop he), hrd, htr⟩

end Rivaas.Lifecycle
