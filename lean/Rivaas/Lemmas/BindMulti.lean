import Rivaas.Model.Bind
import Rivaas.Spec.Bind
import Rivaas.Lemmas.BindVal
import Rivaas.Lemmas.BindPath
import Rivaas.Lemmas.BindItems
import Rivaas.Lemmas.BindSound
/-
C04, several sources: `bindMultiSource` as a run over the oracle's phases (the defaults round, then
the values round), the shape of the stripped type, and how places of the type relate across tags.
-/
set_option linter.unusedSimpArgs false
set_option linter.unusedVariables false
namespace Rivaas.Bind
open Spec

/-! ### HasStructTag: the model's and the oracle's reading coincide -/

mutual
theorem lemma_hasTag_fld (tag : Tag) (h : FieldHdr) : ∀ t : Ty, hasTagFld tag h t = mentionsFld tag h t
  | .struct fs => by simp only [hasTagFld, mentionsFld, taggedUnder, explicitTag, lemma_hasTag_fs tag fs]
  | .ptr (.struct fs) => by simp only [hasTagFld, mentionsFld, taggedUnder, explicitTag, lemma_hasTag_fs tag fs]
  | .prim _ => rfl
  | .slice _ => rfl
  | .map _ => rfl
  | .ptr (.prim _) => rfl
  | .ptr (.ptr _) => rfl
  | .ptr (.slice _) => rfl
  | .ptr (.map _) => rfl
theorem lemma_hasTag_fs (tag : Tag) : ∀ fs : List Fld, hasTagFs tag fs = mentionsFs tag fs
  | [] => rfl
  | (h, t) :: rest => by simp only [hasTagFs, mentionsFs, lemma_hasTag_fld tag h t, lemma_hasTag_fs tag rest]
end

/-! ### bindMultiSource is a run over the phases -/

def phaseFs (fs : List Fld) (ph : Phase) : List Fld := if ph.noDefaults then stripFs fs else fs

/-- the binds of a multi-source bind, phase by phase -/
def runPhases (P : Params) (cfg : Cfg) (fs : List Fld) : List Phase → Val → Outcome
  | [], cur => .ok cur
  | ph :: rest, cur =>
    match bind P cfg ph.src.kind (.struct (phaseFs fs ph)) cur ph.src with
    | .ok v => runPhases P cfg fs rest v
    | o => o

theorem lemma_runPhases_append (P : Params) (cfg : Cfg) (fs : List Fld) : ∀ (a b : List Phase) (cur : Val),
    runPhases P cfg fs (a ++ b) cur = match runPhases P cfg fs a cur with
      | .ok v => runPhases P cfg fs b v
      | o => o
  | [], b, cur => rfl
  | ph :: a, b, cur => by
    simp only [List.cons_append, runPhases]
    cases bind P cfg ph.src.kind (.struct (phaseFs fs ph)) cur ph.src with
    | ok v => exact lemma_runPhases_append P cfg fs a b v
    | err e => rfl
    | panic => rfl

/-- one pass of `bindPass` is the run over the phases built from the participating sources -/
theorem lemma_bindPass_phases (P : Params) (cfg : Cfg) (fs fs' : List Fld) (mk : Src → Phase)
    (hk : ∀ s, (mk s).src.kind = s.kind) (hfs : ∀ s, phaseFs fs (mk s) = fs') :
    ∀ (srcs : List Src) (cur : Val) (f : Src → Src) (hf : ∀ s, (f s).kind = s.kind) (hm : ∀ s, (mk s).src = f s),
      bindPass P cfg fs (fun _ => .struct fs') (srcs.map f) cur =
        runPhases P cfg fs ((srcs.filter (fun s => mentionsFs s.kind fs)).map mk) cur
  | [], cur, f, _, _ => rfl
  | s :: rest, cur, f, hf, hm => by
    simp only [List.map_cons, bindPass, hf, lemma_hasTag_fs, List.filter_cons]
    by_cases ht : mentionsFs s.kind fs = true
    · simp only [ht, if_true, List.map_cons, runPhases, hfs, hm]
      simp only [hf]
      cases bind P cfg s.kind (.struct fs') cur (f s) with
      | ok v => exact lemma_bindPass_phases P cfg fs fs' mk hk hfs rest v f hf hm
      | err e => rfl
      | panic => rfl
    · have ht' : mentionsFs s.kind fs = false := by simpa using ht
      simp only [ht', Bool.false_eq_true, if_false]
      exact lemma_bindPass_phases P cfg fs fs' mk hk hfs rest cur f hf hm

theorem lemma_bindMulti_phases (P : Params) (cfg : Cfg) (fs : List Fld) (init : Val) (srcs : List Src) :
    bindMulti P cfg fs init srcs =
      if srcs.isEmpty then .err .conv else runPhases P cfg fs (phasesOf fs srcs) init := by
  unfold bindMulti phasesOf
  by_cases he : srcs.isEmpty = true
  · simp [he]
  · simp only [he, Bool.false_eq_true, if_false]
    by_cases h1 : (srcs.length == 1) = true
    · simp only [h1, if_true]
      have := lemma_bindPass_phases P cfg fs fs (fun s => { src := s, defaultsOnly := false, noDefaults := false })
        (fun _ => rfl) (fun _ => by simp [phaseFs]) srcs init id (fun _ => rfl) (fun _ => rfl)
      simpa using this
    · simp only [h1, Bool.false_eq_true, if_false]
      have hA := lemma_bindPass_phases P cfg fs fs
        (fun s => { src := { s with kvs := [] }, defaultsOnly := true, noDefaults := false })
        (fun _ => rfl) (fun _ => by simp [phaseFs]) srcs init (fun s => { s with kvs := [] }) (fun _ => rfl) (fun _ => rfl)
      have hB := fun cur => lemma_bindPass_phases P cfg fs (stripFs fs)
        (fun s => { src := s, defaultsOnly := false, noDefaults := true })
        (fun _ => rfl) (fun _ => by simp [phaseFs]) srcs cur id (fun _ => rfl) (fun _ => rfl)
      rw [lemma_runPhases_append, hA]
      cases runPhases P cfg fs (List.map (fun s => ({ src := { s with kvs := [] }, defaultsOnly := true, noDefaults := false } : Phase))
          (List.filter (fun s => mentionsFs s.kind fs) srcs)) init with
      | ok v =>
        have := hB v
        simp only [List.map_id] at this
        simpa using this
      | err e => rfl
      | panic => rfl


/-! ### the oracle's unfolding of the type without default tags -/

def stripItem : Item → Item
  | .leaf l => .leaf { l with dflt := [], ty := stripTy l.ty }
  | .node n => .node n
  | .frame f => .frame { f with ty := stripTy f.ty }

theorem lemma_strip_under (k : Nat) (x : Item) : stripItem (x.under k) = (stripItem x).under k := by
  cases x <;> rfl

theorem lemma_strip_below (k : Nat) (name p : Bytes) (x : Item) :
    stripItem (x.below k name p) = (stripItem x).below k name p := by
  cases x <;> rfl

mutual
theorem lemma_items_strip_fld (tag : Tag) (i : Nat) (h : FieldHdr) :
    ∀ t : Ty, itemsFld tag i { h with dflt := [] } (stripTy t) = (itemsFld tag i h t).map stripItem
  | .struct fs => by
    simp only [stripTy, itemsFld, FieldHdr.tag]
    split
    · simp [stripItem, stripTy]
    · split
      · rw [lemma_items_strip_fs tag fs 0]
        simp [List.map_map, Function.comp_def, lemma_strip_under]
      · cases tagNames (h.tags.getD tag.idx []) h.name (tag == Tag.form) with
        | none => simp [stripItem, stripTy]
        | some pa =>
          simp only [List.map_cons, stripItem]
          rw [lemma_items_strip_fs tag fs 0]
          simp [List.map_map, Function.comp_def, lemma_strip_below]
  | .ptr (.struct fs) => by
    simp only [stripTy, itemsFld, FieldHdr.tag]
    split
    · simp [stripItem, stripTy]
    · split
      · rw [lemma_items_strip_fs tag fs 0]
        simp [List.map_map, Function.comp_def, lemma_strip_under]
      · cases tagNames (h.tags.getD tag.idx []) h.name (tag == Tag.form) with
        | none => simp [stripItem, stripTy]
        | some pa =>
          simp only [List.map_cons, stripItem]
          rw [lemma_items_strip_fs tag fs 0]
          simp [List.map_map, Function.comp_def, lemma_strip_below]
  | .prim p => by
    simp only [stripTy, itemsFld, FieldHdr.tag]
    split
    · simp [stripItem, stripTy]
    · cases tagNames (h.tags.getD tag.idx []) h.name (tag == Tag.form) <;> simp [stripItem, stripTy]
  | .slice e => by
    simp only [stripTy, itemsFld, FieldHdr.tag]
    split
    · simp [stripItem, stripTy]
    · cases tagNames (h.tags.getD tag.idx []) h.name (tag == Tag.form) <;> simp [stripItem, stripTy]
  | .map e => by
    simp only [stripTy, itemsFld, FieldHdr.tag]
    split
    · simp [stripItem, stripTy]
    · cases tagNames (h.tags.getD tag.idx []) h.name (tag == Tag.form) <;> simp [stripItem, stripTy]
  | .ptr (.prim p) => by
    simp only [stripTy, itemsFld, FieldHdr.tag]
    split
    · simp [stripItem, stripTy]
    · cases tagNames (h.tags.getD tag.idx []) h.name (tag == Tag.form) <;> simp [stripItem, stripTy]
  | .ptr (.slice e) => by
    simp only [stripTy, itemsFld, FieldHdr.tag]
    split
    · simp [stripItem, stripTy]
    · cases tagNames (h.tags.getD tag.idx []) h.name (tag == Tag.form) <;> simp [stripItem, stripTy]
  | .ptr (.map e) => by
    simp only [stripTy, itemsFld, FieldHdr.tag]
    split
    · simp [stripItem, stripTy]
    · cases tagNames (h.tags.getD tag.idx []) h.name (tag == Tag.form) <;> simp [stripItem, stripTy]
  | .ptr (.ptr e) => by
    cases e with
    | struct fs =>
      simp only [stripTy, itemsFld, FieldHdr.tag]
      split
      · simp [stripItem, stripTy]
      · cases tagNames (h.tags.getD tag.idx []) h.name (tag == Tag.form) <;> simp [stripItem, stripTy]
    | _ =>
      simp only [stripTy, itemsFld, FieldHdr.tag]
      split
      · simp [stripItem, stripTy]
      · cases tagNames (h.tags.getD tag.idx []) h.name (tag == Tag.form) <;> simp [stripItem, stripTy]
theorem lemma_items_strip_fs (tag : Tag) :
    ∀ (fs : List Fld) (i : Nat), itemsFs tag i (stripFs fs) = (itemsFs tag i fs).map stripItem
  | [], i => rfl
  | (h, t) :: rest, i => by
    simp only [stripFs, itemsFs, List.map_append]
    rw [lemma_items_strip_fld tag i h t, lemma_items_strip_fs tag rest (i+1)]
end


/-! ### the places of a type, across tags -/

theorem lemma_itemsFld_leaf (tag : Tag) (k : Nat) (h : FieldHdr) (t : Ty) (hns : structFields? t = none) :
    itemsFld tag k h t = leafItems tag k h t := by
  cases t with
  | struct fs => simp [structFields?] at hns
  | ptr e =>
    cases e with
    | struct fs => simp [structFields?] at hns
    | _ =>
      simp only [itemsFld, leafItems, leafAt]
      cases h.exported <;> cases tagNames (h.tag tag) h.name (tag == .form) <;> rfl
  | _ =>
    simp only [itemsFld, leafItems, leafAt]
    cases h.exported <;> cases tagNames (h.tag tag) h.name (tag == .form) <;> rfl

/-- how a leaf place `(p, t)` of the type under one tag shows under another tag `B`: as a leaf at the
    same path, or inside (or as) a field that `B` does not bind -/
def Cover (B : Tag) (i : Nat) (fs : List Fld) (p : List Nat) (t : Ty) : Prop :=
  (∃ l, Item.leaf l ∈ itemsFs B i fs ∧ l.path = p ∧ l.ty = t) ∨
  (∃ f r, Item.frame f ∈ itemsFs B i fs ∧ p = f.path ++ r ∧ ZeroLikeAt (zero f.ty) r t)

def CoverFld (B : Tag) (k : Nat) (h : FieldHdr) (ty : Ty) (p : List Nat) (t : Ty) : Prop :=
  (∃ l, Item.leaf l ∈ itemsFld B k h ty ∧ l.path = p ∧ l.ty = t) ∨
  (∃ f r, Item.frame f ∈ itemsFld B k h ty ∧ p = f.path ++ r ∧ ZeroLikeAt (zero f.ty) r t)

theorem lemma_cover_under (B : Tag) (k : Nat) (sub : List Fld) (p : List Nat) (t : Ty) (its : List Item)
    (hits : its = (itemsFs B 0 sub).map (Item.under k)) (h : Cover B 0 sub p t) :
    (∃ l, Item.leaf l ∈ its ∧ l.path = k :: p ∧ l.ty = t) ∨
    (∃ f r, Item.frame f ∈ its ∧ k :: p = f.path ++ r ∧ ZeroLikeAt (zero f.ty) r t) := by
  subst hits
  rcases h with ⟨l, hl, hp, ht⟩ | ⟨f, r, hf, hp, hz⟩
  · left
    exact ⟨l.under k, List.mem_map.2 ⟨.leaf l, hl, rfl⟩, by simp [Leaf.under, hp], ht⟩
  · right
    exact ⟨{ f with path := k :: f.path }, r, List.mem_map.2 ⟨.frame f, hf, rfl⟩, by simp [hp], hz⟩

theorem lemma_cover_below (B : Tag) (k : Nat) (name pk : Bytes) (sub : List Fld) (p : List Nat) (t : Ty)
    (its : List Item) (n : Item)
    (hits : its = n :: (itemsFs B 0 sub).map (Item.below k name pk)) (h : Cover B 0 sub p t) :
    (∃ l, Item.leaf l ∈ its ∧ l.path = k :: p ∧ l.ty = t) ∨
    (∃ f r, Item.frame f ∈ its ∧ k :: p = f.path ++ r ∧ ZeroLikeAt (zero f.ty) r t) := by
  subst hits
  rcases h with ⟨l, hl, hp, ht⟩ | ⟨f, r, hf, hp, hz⟩
  · left
    exact ⟨l.below k name pk, List.mem_cons_of_mem _ (List.mem_map.2 ⟨.leaf l, hl, rfl⟩), by simp [Leaf.below, hp], ht⟩
  · right
    exact ⟨{ f with path := k :: f.path }, r, List.mem_cons_of_mem _ (List.mem_map.2 ⟨.frame f, hf, rfl⟩), by simp [hp], hz⟩

/-- a leaf-typed field under another tag: leaf again, or a frame with the same path and type -/
theorem lemma_cover_leafItems (A B : Tag) (k : Nat) (h : FieldHdr) (t : Ty) (l : Leaf)
    (hl : Item.leaf l ∈ leafItems A k h t) :
    (∃ l', Item.leaf l' ∈ leafItems B k h t ∧ l'.path = l.path ∧ l'.ty = l.ty) ∨
    (∃ f r, Item.frame f ∈ leafItems B k h t ∧ l.path = f.path ++ r ∧ ZeroLikeAt (zero f.ty) r l.ty) := by
  unfold leafItems at hl ⊢
  by_cases hex : h.exported = true
  · simp only [hex, Bool.not_true, Bool.false_eq_true, if_false] at hl ⊢
    cases hA : tagNames (h.tag A) h.name (A == .form) with
    | none => simp [hA] at hl
    | some pa =>
      obtain ⟨p, as⟩ := pa
      simp only [hA, List.mem_singleton, Item.leaf.injEq] at hl
      subst hl
      cases hB : tagNames (h.tag B) h.name (B == .form) with
      | none =>
        right
        exact ⟨{ path := [k], ty := t }, [], by simp, by simp [leafAt], Or.inr (by simp [valAt, leafAt])⟩
      | some pb =>
        obtain ⟨p', as'⟩ := pb
        left
        exact ⟨leafAt k h t p' as', by simp, rfl, rfl⟩
  · have hex' : h.exported = false := by simpa using hex
    simp [hex'] at hl

mutual
theorem lemma_cover_fld (A B : Tag) (k : Nat) (h : FieldHdr) :
    ∀ (t : Ty) (l : Leaf), Item.leaf l ∈ itemsFld A k h t → CoverFld B k h t l.path l.ty
  | .struct sub, l, hl => by
    unfold CoverFld
    by_cases hex : h.exported = true
    · by_cases han : h.anon = true
      · rw [(lemma_itemsFld_embedded A k h sub hex han).1] at hl
        rw [(lemma_itemsFld_embedded B k h sub hex han).1]
        simp only [List.mem_map] at hl
        obtain ⟨x, hx, hxl⟩ := hl
        cases x with
        | node n => simp [Item.under] at hxl
        | frame f => simp [Item.under] at hxl
        | leaf l0 =>
          simp only [Item.under, Item.leaf.injEq] at hxl
          subst hxl
          exact lemma_cover_under B k sub l0.path l0.ty _ rfl (lemma_cover_fs A B sub 0 l0 hx)
      · have han' : h.anon = false := by simpa using han
        rw [(lemma_itemsFld_nested A k h sub hex han').1] at hl
        rw [(lemma_itemsFld_nested B k h sub hex han').1]
        unfold nestedItems at hl ⊢
        cases hA : tagNames (h.tag A) h.name (A == .form) with
        | none => simp [hA] at hl
        | some pa =>
          obtain ⟨pA, _⟩ := pa
          simp only [hA, List.mem_cons, reduceCtorEq, false_or, List.mem_map] at hl
          obtain ⟨x, hx, hxl⟩ := hl
          cases x with
          | node n => simp [Item.below] at hxl
          | frame f => simp [Item.below] at hxl
          | leaf l0 =>
            simp only [Item.below, Item.leaf.injEq] at hxl
            subst hxl
            cases hB : tagNames (h.tag B) h.name (B == .form) with
            | some pb =>
              obtain ⟨pB, _⟩ := pb
              exact lemma_cover_below B k h.name pB sub l0.path l0.ty _ _ rfl (lemma_cover_fs A B sub 0 l0 hx)
            | none =>
              right
              refine ⟨{ path := [k], ty := .struct sub }, l0.path, by simp, by simp [Leaf.below], ?_⟩
              have := (lemma_items_paths A sub (.leaf l0) hx (l0.path, l0.ty) rfl).2
              simpa [zero, Leaf.below] using this
    · have hex' : h.exported = false := by simpa using hex
      rw [lemma_itemsFld_unexported A k h _ hex'] at hl
      simp at hl
  | .ptr (.struct sub), l, hl => by
    unfold CoverFld
    by_cases hex : h.exported = true
    · by_cases han : h.anon = true
      · rw [(lemma_itemsFld_embedded A k h sub hex han).2] at hl
        rw [(lemma_itemsFld_embedded B k h sub hex han).2]
        simp only [List.mem_map] at hl
        obtain ⟨x, hx, hxl⟩ := hl
        cases x with
        | node n => simp [Item.under] at hxl
        | frame f => simp [Item.under] at hxl
        | leaf l0 =>
          simp only [Item.under, Item.leaf.injEq] at hxl
          subst hxl
          exact lemma_cover_under B k sub l0.path l0.ty _ rfl (lemma_cover_fs A B sub 0 l0 hx)
      · have han' : h.anon = false := by simpa using han
        rw [(lemma_itemsFld_nested A k h sub hex han').2] at hl
        rw [(lemma_itemsFld_nested B k h sub hex han').2]
        unfold nestedItems at hl ⊢
        cases hA : tagNames (h.tag A) h.name (A == .form) with
        | none => simp [hA] at hl
        | some pa =>
          obtain ⟨pA, _⟩ := pa
          simp only [hA, List.mem_cons, reduceCtorEq, false_or, List.mem_map] at hl
          obtain ⟨x, hx, hxl⟩ := hl
          cases x with
          | node n => simp [Item.below] at hxl
          | frame f => simp [Item.below] at hxl
          | leaf l0 =>
            simp only [Item.below, Item.leaf.injEq] at hxl
            subst hxl
            cases hB : tagNames (h.tag B) h.name (B == .form) with
            | some pb =>
              obtain ⟨pB, _⟩ := pb
              exact lemma_cover_below B k h.name pB sub l0.path l0.ty _ _ rfl (lemma_cover_fs A B sub 0 l0 hx)
            | none =>
              right
              refine ⟨{ path := [k], ty := .ptr (.struct sub) }, l0.path, by simp, by simp [Leaf.below], ?_⟩
              obtain ⟨a, r, hp⟩ := (lemma_items_paths A sub (.leaf l0) hx (l0.path, l0.ty) rfl).1
              left
              simp only at hp
              simp [zero, hp, valAt]
    · have hex' : h.exported = false := by simpa using hex
      rw [lemma_itemsFld_unexported A k h _ hex'] at hl
      simp at hl
  | .prim p, l, hl => by
    unfold CoverFld
    rw [lemma_itemsFld_leaf A k h _ (by simp [structFields?])] at hl
    rw [lemma_itemsFld_leaf B k h _ (by simp [structFields?])]
    exact lemma_cover_leafItems A B k h _ l hl
  | .slice e, l, hl => by
    unfold CoverFld
    rw [lemma_itemsFld_leaf A k h _ (by simp [structFields?])] at hl
    rw [lemma_itemsFld_leaf B k h _ (by simp [structFields?])]
    exact lemma_cover_leafItems A B k h _ l hl
  | .map e, l, hl => by
    unfold CoverFld
    rw [lemma_itemsFld_leaf A k h _ (by simp [structFields?])] at hl
    rw [lemma_itemsFld_leaf B k h _ (by simp [structFields?])]
    exact lemma_cover_leafItems A B k h _ l hl
  | .ptr (.prim p), l, hl => by
    unfold CoverFld
    rw [lemma_itemsFld_leaf A k h _ (by simp [structFields?])] at hl
    rw [lemma_itemsFld_leaf B k h _ (by simp [structFields?])]
    exact lemma_cover_leafItems A B k h _ l hl
  | .ptr (.ptr e), l, hl => by
    unfold CoverFld
    rw [lemma_itemsFld_leaf A k h _ (by simp [structFields?])] at hl
    rw [lemma_itemsFld_leaf B k h _ (by simp [structFields?])]
    exact lemma_cover_leafItems A B k h _ l hl
  | .ptr (.slice e), l, hl => by
    unfold CoverFld
    rw [lemma_itemsFld_leaf A k h _ (by simp [structFields?])] at hl
    rw [lemma_itemsFld_leaf B k h _ (by simp [structFields?])]
    exact lemma_cover_leafItems A B k h _ l hl
  | .ptr (.map e), l, hl => by
    unfold CoverFld
    rw [lemma_itemsFld_leaf A k h _ (by simp [structFields?])] at hl
    rw [lemma_itemsFld_leaf B k h _ (by simp [structFields?])]
    exact lemma_cover_leafItems A B k h _ l hl
theorem lemma_cover_fs (A B : Tag) :
    ∀ (fs : List Fld) (i : Nat) (l : Leaf), Item.leaf l ∈ itemsFs A i fs → Cover B i fs l.path l.ty
  | [], i, l, hl => by simp [itemsFs] at hl
  | (h, t) :: rest, i, l, hl => by
    simp only [itemsFs, List.mem_append] at hl
    unfold Cover
    simp only [itemsFs, List.mem_append]
    rcases hl with hl | hl
    · rcases lemma_cover_fld A B i h t l hl with ⟨l', h1, h2, h3⟩ | ⟨f, r, h1, h2, h3⟩
      · exact Or.inl ⟨l', Or.inl h1, h2, h3⟩
      · exact Or.inr ⟨f, r, Or.inl h1, h2, h3⟩
    · rcases lemma_cover_fs A B rest (i+1) l hl with ⟨l', h1, h2, h3⟩ | ⟨f, r, h1, h2, h3⟩
      · exact Or.inl ⟨l', Or.inr h1, h2, h3⟩
      · exact Or.inr ⟨f, r, Or.inr h1, h2, h3⟩
end


/-! ### a path determines the leaf type, whatever the tag -/

theorem lemma_items_head (tag : Tag) : ∀ (fs : List Fld) (i : Nat) (x : Item), x ∈ itemsFs tag i fs →
    ∀ pt, x.pathTy = some pt → ∃ j q, pt.1 = (i + j) :: q
  | [], i, x, hx, _, _ => by simp [itemsFs] at hx
  | (h, t) :: rest, i, x, hx, pt, hpt => by
    simp only [itemsFs, List.mem_append] at hx
    rcases hx with hx | hx
    · obtain ⟨q, hq, _⟩ := lemma_zero_fld tag i h t x hx pt hpt
      exact ⟨0, q, by simpa using hq⟩
    · obtain ⟨j, q, hq⟩ := lemma_items_head tag rest (i+1) x hx pt hpt
      exact ⟨j + 1, q, by rw [hq]; congr 1; omega⟩

theorem lemma_leafItems_ty (A : Tag) (k : Nat) (h : FieldHdr) (t : Ty) (l : Leaf)
    (hl : Item.leaf l ∈ leafItems A k h t) : l.ty = t := by
  unfold leafItems at hl
  split at hl
  · simp at hl
  · split at hl
    · simp at hl
    · simp only [List.mem_singleton, Item.leaf.injEq] at hl
      subst hl
      rfl

mutual
theorem lemma_samepath_fld (A B : Tag) (k : Nat) (h : FieldHdr) :
    ∀ (t : Ty) (l l' : Leaf), Item.leaf l ∈ itemsFld A k h t → Item.leaf l' ∈ itemsFld B k h t →
      l.path = l'.path → l.ty = l'.ty
  | .struct sub, l, l', hl, hl', hp => by
    by_cases hex : h.exported = true
    · by_cases han : h.anon = true
      · rw [(lemma_itemsFld_embedded A k h sub hex han).1] at hl
        rw [(lemma_itemsFld_embedded B k h sub hex han).1] at hl'
        simp only [List.mem_map] at hl hl'
        obtain ⟨x, hx, hxl⟩ := hl
        obtain ⟨y, hy, hyl⟩ := hl'
        cases x with
        | node n => simp [Item.under] at hxl
        | frame f => simp [Item.under] at hxl
        | leaf l0 =>
          cases y with
          | node n => simp [Item.under] at hyl
          | frame f => simp [Item.under] at hyl
          | leaf l0' =>
            simp only [Item.under, Item.leaf.injEq] at hxl hyl
            subst hxl; subst hyl
            simp only [Leaf.under, List.cons.injEq, true_and] at hp
            exact lemma_samepath_fs A B sub 0 l0 l0' hx hy hp
      · have han' : h.anon = false := by simpa using han
        rw [(lemma_itemsFld_nested A k h sub hex han').1] at hl
        rw [(lemma_itemsFld_nested B k h sub hex han').1] at hl'
        unfold nestedItems at hl hl'
        cases hA : tagNames (h.tag A) h.name (A == .form) with
        | none => simp [hA] at hl
        | some pa =>
          cases hB : tagNames (h.tag B) h.name (B == .form) with
          | none => simp [hB] at hl'
          | some pb =>
            simp only [hA, hB, List.mem_cons, reduceCtorEq, false_or, List.mem_map] at hl hl'
            obtain ⟨x, hx, hxl⟩ := hl
            obtain ⟨y, hy, hyl⟩ := hl'
            cases x with
            | node n => simp [Item.below] at hxl
            | frame f => simp [Item.below] at hxl
            | leaf l0 =>
              cases y with
              | node n => simp [Item.below] at hyl
              | frame f => simp [Item.below] at hyl
              | leaf l0' =>
                simp only [Item.below, Item.leaf.injEq] at hxl hyl
                subst hxl; subst hyl
                simp only [Leaf.below, List.cons.injEq, true_and] at hp
                exact lemma_samepath_fs A B sub 0 l0 l0' hx hy hp
    · have hex' : h.exported = false := by simpa using hex
      rw [lemma_itemsFld_unexported A k h _ hex'] at hl
      simp at hl
  | .ptr (.struct sub), l, l', hl, hl', hp => by
    by_cases hex : h.exported = true
    · by_cases han : h.anon = true
      · rw [(lemma_itemsFld_embedded A k h sub hex han).2] at hl
        rw [(lemma_itemsFld_embedded B k h sub hex han).2] at hl'
        simp only [List.mem_map] at hl hl'
        obtain ⟨x, hx, hxl⟩ := hl
        obtain ⟨y, hy, hyl⟩ := hl'
        cases x with
        | node n => simp [Item.under] at hxl
        | frame f => simp [Item.under] at hxl
        | leaf l0 =>
          cases y with
          | node n => simp [Item.under] at hyl
          | frame f => simp [Item.under] at hyl
          | leaf l0' =>
            simp only [Item.under, Item.leaf.injEq] at hxl hyl
            subst hxl; subst hyl
            simp only [Leaf.under, List.cons.injEq, true_and] at hp
            exact lemma_samepath_fs A B sub 0 l0 l0' hx hy hp
      · have han' : h.anon = false := by simpa using han
        rw [(lemma_itemsFld_nested A k h sub hex han').2] at hl
        rw [(lemma_itemsFld_nested B k h sub hex han').2] at hl'
        unfold nestedItems at hl hl'
        cases hA : tagNames (h.tag A) h.name (A == .form) with
        | none => simp [hA] at hl
        | some pa =>
          cases hB : tagNames (h.tag B) h.name (B == .form) with
          | none => simp [hB] at hl'
          | some pb =>
            simp only [hA, hB, List.mem_cons, reduceCtorEq, false_or, List.mem_map] at hl hl'
            obtain ⟨x, hx, hxl⟩ := hl
            obtain ⟨y, hy, hyl⟩ := hl'
            cases x with
            | node n => simp [Item.below] at hxl
            | frame f => simp [Item.below] at hxl
            | leaf l0 =>
              cases y with
              | node n => simp [Item.below] at hyl
              | frame f => simp [Item.below] at hyl
              | leaf l0' =>
                simp only [Item.below, Item.leaf.injEq] at hxl hyl
                subst hxl; subst hyl
                simp only [Leaf.below, List.cons.injEq, true_and] at hp
                exact lemma_samepath_fs A B sub 0 l0 l0' hx hy hp
    · have hex' : h.exported = false := by simpa using hex
      rw [lemma_itemsFld_unexported A k h _ hex'] at hl
      simp at hl
  | .prim p, l, l', hl, hl', _ => by
    rw [lemma_itemsFld_leaf A k h _ (by simp [structFields?])] at hl
    rw [lemma_itemsFld_leaf B k h _ (by simp [structFields?])] at hl'
    rw [lemma_leafItems_ty A k h _ l hl, lemma_leafItems_ty B k h _ l' hl']
  | .slice e, l, l', hl, hl', _ => by
    rw [lemma_itemsFld_leaf A k h _ (by simp [structFields?])] at hl
    rw [lemma_itemsFld_leaf B k h _ (by simp [structFields?])] at hl'
    rw [lemma_leafItems_ty A k h _ l hl, lemma_leafItems_ty B k h _ l' hl']
  | .map e, l, l', hl, hl', _ => by
    rw [lemma_itemsFld_leaf A k h _ (by simp [structFields?])] at hl
    rw [lemma_itemsFld_leaf B k h _ (by simp [structFields?])] at hl'
    rw [lemma_leafItems_ty A k h _ l hl, lemma_leafItems_ty B k h _ l' hl']
  | .ptr (.prim p), l, l', hl, hl', _ => by
    rw [lemma_itemsFld_leaf A k h _ (by simp [structFields?])] at hl
    rw [lemma_itemsFld_leaf B k h _ (by simp [structFields?])] at hl'
    rw [lemma_leafItems_ty A k h _ l hl, lemma_leafItems_ty B k h _ l' hl']
  | .ptr (.ptr e), l, l', hl, hl', _ => by
    rw [lemma_itemsFld_leaf A k h _ (by simp [structFields?])] at hl
    rw [lemma_itemsFld_leaf B k h _ (by simp [structFields?])] at hl'
    rw [lemma_leafItems_ty A k h _ l hl, lemma_leafItems_ty B k h _ l' hl']
  | .ptr (.slice e), l, l', hl, hl', _ => by
    rw [lemma_itemsFld_leaf A k h _ (by simp [structFields?])] at hl
    rw [lemma_itemsFld_leaf B k h _ (by simp [structFields?])] at hl'
    rw [lemma_leafItems_ty A k h _ l hl, lemma_leafItems_ty B k h _ l' hl']
  | .ptr (.map e), l, l', hl, hl', _ => by
    rw [lemma_itemsFld_leaf A k h _ (by simp [structFields?])] at hl
    rw [lemma_itemsFld_leaf B k h _ (by simp [structFields?])] at hl'
    rw [lemma_leafItems_ty A k h _ l hl, lemma_leafItems_ty B k h _ l' hl']
theorem lemma_samepath_fs (A B : Tag) :
    ∀ (fs : List Fld) (i : Nat) (l l' : Leaf), Item.leaf l ∈ itemsFs A i fs → Item.leaf l' ∈ itemsFs B i fs →
      l.path = l'.path → l.ty = l'.ty
  | [], i, l, l', hl, _, _ => by simp [itemsFs] at hl
  | (h, t) :: rest, i, l, l', hl, hl', hp => by
    simp only [itemsFs, List.mem_append] at hl hl'
    rcases hl with hl | hl <;> rcases hl' with hl' | hl'
    · exact lemma_samepath_fld A B i h t l l' hl hl' hp
    · obtain ⟨q, hq, _⟩ := lemma_zero_fld A i h t _ hl (l.path, l.ty) rfl
      obtain ⟨j, q', hq'⟩ := lemma_items_head B rest (i+1) _ hl' (l'.path, l'.ty) rfl
      simp only at hq hq'
      rw [hq, hq'] at hp
      simp only [List.cons.injEq] at hp
      omega
    · obtain ⟨q, hq, _⟩ := lemma_zero_fld B i h t _ hl' (l'.path, l'.ty) rfl
      obtain ⟨j, q', hq'⟩ := lemma_items_head A rest (i+1) _ hl (l.path, l.ty) rfl
      simp only at hq hq'
      rw [hq, hq'] at hp
      simp only [List.cons.injEq] at hp
      omega
    · exact lemma_samepath_fs A B rest (i+1) l l' hl hl' hp
end


/-! ### values along a path, admissible values -/

mutual
theorem lemma_valAt_append : ∀ (v : Val) (q r : List Nat),
    valAt v (q ++ r) = (match valAt v q with
      | some x => valAt x r
      | none => none)
  | v, [], r => by simp [valAt]
  | .struct vs, i :: q, r => by
    simp only [List.cons_append, valAt]
    exact lemma_valAtFs_append vs i q r
  | .ptr w, i :: q, r => by
    simp only [List.cons_append, valAt]
    exact lemma_valAt_append w (i :: q) r
  | .int _, i :: q, r => by simp [valAt]
  | .uint _, i :: q, r => by simp [valAt]
  | .flt _, i :: q, r => by simp [valAt]
  | .bool _, i :: q, r => by simp [valAt]
  | .str _, i :: q, r => by simp [valAt]
  | .time _, i :: q, r => by simp [valAt]
  | .nil, i :: q, r => by simp [valAt]
  | .list _, i :: q, r => by simp [valAt]
  | .map _, i :: q, r => by simp [valAt]
theorem lemma_valAtFs_append : ∀ (vs : List Val) (i : Nat) (q r : List Nat),
    valAtFs vs i (q ++ r) = (match valAtFs vs i q with
      | some x => valAt x r
      | none => none)
  | [], i, q, r => by simp [valAtFs]
  | x :: xs, 0, q, r => by simp only [valAtFs]; exact lemma_valAt_append x q r
  | x :: xs, i + 1, q, r => by simp only [valAtFs]; exact lemma_valAtFs_append xs i q r
end

theorem lemma_mapOf_norm (c : Val) : mapOf (some c) = mapOf (some (normLeaf c)) := by
  cases c with
  | map kvs => cases kvs <;> rfl
  | ptr y =>
    cases y with
    | map kvs => cases kvs <;> rfl
    | _ => rfl
  | _ => rfl

theorem lemma_matches_refl (ty : Ty) (cur : Option Val) : matchesAdm ty cur cur = true := by
  cases cur <;> simp [matchesAdm]

theorem lemma_matches_mapOf (ty : Ty) (cur a : Option Val) (h : matchesAdm ty cur a = true) : mapOf cur = mapOf a := by
  cases a with
  | some x =>
    cases cur with
    | none => simp [matchesAdm] at h
    | some c =>
      simp only [matchesAdm, beq_iff_eq] at h
      rw [lemma_mapOf_norm c, lemma_mapOf_norm x, h]
  | none =>
    cases cur with
    | none => rfl
    | some c =>
      simp only [matchesAdm, beq_iff_eq] at h
      rw [lemma_mapOf_norm c, h, ← lemma_mapOf_norm, lemma_mapOf_zero]
      rfl

/-- the admissible value after an outcome `e` of a phase: untouched keeps `a`, a value replaces it -/
def keepOr (a : Option Val) : Option Val → Option Val
  | none => a
  | some x => some x

/-- one phase on a leaf: the admissible value before, the outcome the oracle admitted for the
    phase, the admissible value after -/
theorem lemma_matches_step (l : Leaf) (v0 v1 : Val) (a e : Option Val)
    (hm : matchesAdm l.ty (valAt v0 l.path) a = true) (hh : holds v0 v1 l e = true) :
    matchesAdm l.ty (valAt v1 l.path) (keepOr a e) = true := by
  unfold holds at hh
  unfold keepOr
  cases e with
  | some x =>
    simp only at hh ⊢
    cases hc : valAt v1 l.path with
    | none => simp [hc] at hh
    | some c => simpa [hc, matchesAdm] using hh
  | none =>
    simp only at hh ⊢
    cases hc : valAt v1 l.path with
    | none =>
      cases hw : valAt v0 l.path with
      | none =>
        rw [hw] at hm
        cases a with
        | none => simp [matchesAdm]
        | some x => simp [matchesAdm] at hm
      | some w => simp [hc, hw] at hh
    | some c =>
      cases hw : valAt v0 l.path with
      | none =>
        rw [hw] at hm
        simp only [hc, hw] at hh
        cases a with
        | none => simpa [matchesAdm] using hh
        | some x => simp [matchesAdm] at hm
      | some w =>
        rw [hw] at hm
        simp only [hc, hw, beq_iff_eq] at hh
        cases a with
        | none =>
          simp only [matchesAdm, beq_iff_eq] at hm ⊢
          rw [hh, hm]
        | some x =>
          simp only [matchesAdm, beq_iff_eq] at hm ⊢
          rw [hh, hm]

end Rivaas.Bind
