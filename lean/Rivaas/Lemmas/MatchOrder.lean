import Rivaas.Spec.MatchClass
/-
Order theory of the reference matcher (Spec/Match): `better` is a strict weak order on the patterns that
match one path, and `pick` returns a maximum, the last registered among equals.
-/
namespace Rivaas.MatchL
open Rivaas.Route Rivaas.Match

theorem better_irrefl (a : Pat) : better a a = false := by
  induction a with
  | nil => rfl
  | cons x xs ih => simp [better, ih]

theorem better_asymm (a b : Pat) (h : better a b = true) : better b a = false := by
  induction a generalizing b with
  | nil => simp [better] at h
  | cons x xs ih =>
    cases b with
    | nil => simp [better] at h
    | cons y ys =>
      simp only [better] at h ⊢
      by_cases hk : kind x = kind y
      · simp only [hk, if_true] at h ⊢
        exact ih ys h
      · have hk' : ¬ kind y = kind x := fun e => hk e.symm
        simp only [hk, hk', if_false, decide_eq_true_eq, decide_eq_false_iff_not] at h ⊢
        omega

theorem shapeEq_better (a b : Pat) (h : shapeEq a b = true) : better a b = false := by
  induction a generalizing b with
  | nil => cases b <;> simp [better]
  | cons x xs ih =>
    cases b with
    | nil => simp [better]
    | cons y ys =>
      simp only [shapeEq, Bool.and_eq_true] at h
      have hk : kind x = kind y := by
        cases x <;> cases y <;> simp [sameShape] at h <;> rfl
      simp only [better, hk, if_true]
      exact ih ys h.2

/-- how a pattern can match a non-empty segment list -/
theorem matchPat_cons_inv (trail : Bool) (a : Pat) (x : Bytes) (xs : List Bytes)
    (h : (matchPat trail a (x :: xs)).isSome = true) :
    a = [PSeg.wild] ∨ (∃ t, a = PSeg.lit x :: t ∧ (matchPat trail t xs).isSome = true) ∨
      (∃ n t, a = PSeg.par n :: t ∧ (matchPat trail t xs).isSome = true) := by
  cases a with
  | nil => simp [matchPat] at h
  | cons s t =>
    cases s with
    | wild =>
      cases t with
      | nil => left; rfl
      | cons b bs => simp [matchPat] at h
    | lit s =>
      right; left
      have hsx : s = x := by
        cases t <;> simp only [matchPat] at h <;> by_cases e : s = x <;> simp_all
      subst hsx
      refine ⟨t, rfl, ?_⟩
      cases t <;> simpa [matchPat] using h
    | par n =>
      right; right
      refine ⟨n, t, rfl, ?_⟩
      cases t <;> simpa [matchPat] using h

/-- negative transitivity among patterns matching one path: "not better" chains -/
theorem better_negtrans (trail : Bool) (segs : List Bytes) (a b c : Pat)
    (ha : (matchPat trail a segs).isSome = true) (hb : (matchPat trail b segs).isSome = true)
    (hc : (matchPat trail c segs).isSome = true)
    (hab : better a b = false) (hbc : better b c = false) : better a c = false := by
  induction segs generalizing a b c with
  | nil =>
    cases a with
    | nil => simp [better]
    | cons s t => cases s <;> cases t <;> simp [matchPat] at ha
  | cons x xs ih =>
    rcases matchPat_cons_inv trail a x xs ha with rfl | ⟨ta, rfl, hta⟩ | ⟨na, ta, rfl, hta⟩ <;>
    rcases matchPat_cons_inv trail b x xs hb with rfl | ⟨tb, rfl, htb⟩ | ⟨nb, tb, rfl, htb⟩ <;>
    rcases matchPat_cons_inv trail c x xs hc with rfl | ⟨tc, rfl, htc⟩ | ⟨nc, tc, rfl, htc⟩ <;>
    simp only [better, kind] at hab hbc ⊢ <;>
    first
      | rfl
      | (simp at hab; done)
      | (simp at hbc; done)
      | (simp; done)
      | (simp only [if_true] at hab hbc ⊢; exact ih ta tb tc hta htb htc hab hbc)
      | (simp at hab hbc ⊢; exact ih ta tb tc hta htb htc hab hbc)


/-! ### `pick` -/

/-- sufficient: an element that is not beaten by anything before it and beats everything after it is
the one `pick` returns -/
theorem pick_suff (l1 l2 : List Route) (r : Route) (cur : Option Route)
    (hcur : ∀ c, cur = some c → better c.pat r.pat = false)
    (h1 : ∀ c ∈ l1, better c.pat r.pat = false) (h2 : ∀ c ∈ l2, better r.pat c.pat = true) :
    pick cur (l1 ++ r :: l2) = some r := by
  induction l1 generalizing cur with
  | nil =>
    have hstay : ∀ (l : List Route), (∀ c ∈ l, better r.pat c.pat = true) → pick (some r) l = some r := by
      intro l
      induction l with
      | nil => intro _; rfl
      | cons d ds ih =>
        intro h
        simp only [pick, h d (List.mem_cons_self ..), if_true]
        exact ih (fun c hc => h c (List.mem_cons_of_mem _ hc))
    cases cur with
    | none => simp only [List.nil_append, pick]; exact hstay l2 h2
    | some c0 =>
      simp only [List.nil_append, pick, hcur c0 rfl, Bool.false_eq_true, if_false]
      exact hstay l2 h2
  | cons d ds ih =>
    have hd := h1 d (List.mem_cons_self ..)
    have hds : ∀ c ∈ ds, better c.pat r.pat = false := fun c hc => h1 c (List.mem_cons_of_mem _ hc)
    cases cur with
    | none =>
      simp only [List.cons_append, pick]
      exact ih (some d) (by intro c hc; injection hc with hc; subst hc; exact hd) hds
    | some c0 =>
      simp only [List.cons_append, pick]
      by_cases hb : better c0.pat d.pat = true
      · simp only [hb, if_true]
        exact ih (some c0) hcur hds
      · simp only [hb, Bool.false_eq_true, if_false]
        exact ih (some d) (by intro c hc; injection hc with hc; subst hc; exact hd) hds

/-- necessary: what `pick` returns sits in the list, nothing before it (nor the start value) beats it,
and it beats everything after it — provided all elements match one path -/
theorem pick_nec (trail : Bool) (segs : List Bytes) (l : List Route) (cur : Option Route) (r : Route)
    (hl : ∀ c ∈ l, (matchPat trail c.pat segs).isSome = true)
    (hc : ∀ c, cur = some c → (matchPat trail c.pat segs).isSome = true)
    (h : pick cur l = some r) :
    (cur = some r ∧ ∀ c ∈ l, better r.pat c.pat = true) ∨
    ∃ l1 l2, l = l1 ++ r :: l2 ∧ (∀ c, cur = some c → better c.pat r.pat = false) ∧
      (∀ c ∈ l1, better c.pat r.pat = false) ∧ (∀ c ∈ l2, better r.pat c.pat = true) := by
  induction l generalizing cur with
  | nil =>
    simp only [pick] at h
    left; exact ⟨h, by simp⟩
  | cons d ds ih =>
    have hds : ∀ c ∈ ds, (matchPat trail c.pat segs).isSome = true := fun c hc => hl c (List.mem_cons_of_mem _ hc)
    have hdm := hl d (List.mem_cons_self ..)
    -- the case where `d` becomes the current candidate
    have take : pick (some d) ds = some r → (∀ c, cur = some c → better c.pat d.pat = false) →
        (cur = some r ∧ ∀ c ∈ d :: ds, better r.pat c.pat = true) ∨
        ∃ l1 l2, d :: ds = l1 ++ r :: l2 ∧ (∀ c, cur = some c → better c.pat r.pat = false) ∧
          (∀ c ∈ l1, better c.pat r.pat = false) ∧ (∀ c ∈ l2, better r.pat c.pat = true) := by
      intro h' hcd
      right
      rcases ih (some d) hds (by intro c hc; injection hc with hc; subst hc; exact hdm) h' with ⟨hdr, hall⟩ | ⟨l1, l2, hl12, hd1, h1, h2⟩
      · injection hdr with hdr; subst hdr
        exact ⟨[], ds, rfl, hcd, by simp, hall⟩
      · refine ⟨d :: l1, l2, by simp [hl12], ?_, ?_, h2⟩
        · intro c hcc
          have hrm : (matchPat trail r.pat segs).isSome = true := hds r (by rw [hl12]; simp)
          exact better_negtrans trail segs c.pat d.pat r.pat (hc c hcc) hdm hrm (hcd c hcc) (hd1 d rfl)
        · intro c hcc
          simp only [List.mem_cons] at hcc
          rcases hcc with rfl | hcc
          · exact hd1 c rfl
          · exact h1 c hcc
    cases cur with
    | none =>
      simp only [pick] at h
      exact take h (by intro c hc; cases hc)
    | some c0 =>
      simp only [pick] at h
      by_cases hb : better c0.pat d.pat = true
      · simp only [hb, if_true] at h
        rcases ih (some c0) hds hc h with ⟨hcr, hall⟩ | ⟨l1, l2, hl12, hd1, h1, h2⟩
        · left
          injection hcr with hcr; subst hcr
          refine ⟨rfl, ?_⟩
          intro c hcc
          simp only [List.mem_cons] at hcc
          rcases hcc with rfl | hcc
          · exact hb
          · exact hall c hcc
        · right
          refine ⟨d :: l1, l2, by simp [hl12], hd1, ?_, h2⟩
          intro c hcc
          simp only [List.mem_cons] at hcc
          rcases hcc with rfl | hcc
          · -- d is beaten by c0, c0 is not better than r: d is not better than r
            have hrm : (matchPat trail r.pat segs).isSome = true := hds r (by rw [hl12]; simp)
            exact better_negtrans trail segs c.pat c0.pat r.pat hdm (hc c0 rfl) hrm (better_asymm _ _ hb) (hd1 c0 rfl)
          · exact h1 c hcc
      · simp only [hb, Bool.false_eq_true, if_false] at h
        have hb' : better c0.pat d.pat = false := by cases hbb : better c0.pat d.pat <;> simp_all
        exact take h (by intro c hcc; injection hcc with hcc; subst hcc; exact hb')

end Rivaas.MatchL
