import Rivaas.Lemmas.RadixParams
/-
Layer L1c of C01: the descent of `getRoute` with backtracking (`(*node).descend`, since the K01b/K01f
repair) seen as a search among the registered entries that pass through a node.

* `walk_some` (soundness): whatever the search returns is what `accepts` answers at the node of a
  registered entry whose pattern matches the remaining segments.
* `walk_max` (completeness and priority): if an entry's node accepts and no entry whose node accepts
  beats it segment-wise, the search returns exactly what that node answers.
-/
namespace Rivaas.RadixL
open Rivaas.Route Rivaas.Radix Rivaas.Match

abbrev St := Ctx × List (Bytes × Bytes)

/-- what `(*node).accepts` answers at the node reached by following `suf` from `cur` over `segs` -/
def accAt (sat : Nat → Bytes → Bool) (ns : Nodes) (trail : Bool) (cur : Key) (st : St) (suf : Pat) (segs : List Bytes) : Option (Leaf × Ctx) :=
  acceptsGen false sat
    (if endsWild suf then (getK ns (cur ++ ekeys suf)).wild else (getK ns (cur ++ ekeys suf)).leaf)
    (pushAllT st (pushesFor ns trail cur suf segs))

/-- the continuation after a static or parameter step -/
def nextB (sat : Nat → Bytes → Bool) (ns : Nodes) (trail : Bool) (rest : List Bytes) (cur1 : Key) (st1 : St) : Option (Leaf × Ctx) :=
  if rest.isEmpty && !trail then acceptsGen false sat (getK ns cur1).leaf st1
  else walkGen false false false sat ns trail cur1 st1 rest

def altS (sat : Nat → Bytes → Bool) (ns : Nodes) (trail : Bool) (cur : Key) (st : St) (seg : Bytes) (rest : List Bytes) : Option (Leaf × Ctx) :=
  if hasK ns (cur ++ [ESeg.s seg]) then nextB sat ns trail rest (cur ++ [ESeg.s seg]) st else none

def altP (sat : Nat → Bytes → Bool) (ns : Nodes) (trail : Bool) (cur : Key) (st : St) (seg : Bytes) (rest : List Bytes) : Option (Leaf × Ctx) :=
  match (getK ns cur).pname with
  | some key => nextB sat ns trail rest (cur ++ [ESeg.p]) (pushT st key seg)
  | none => none

def altW (sat : Nat → Bytes → Bool) (ns : Nodes) (trail : Bool) (cur : Key) (st : St) (seg : Bytes) (rest : List Bytes) : Option (Leaf × Ctx) :=
  match (getK ns cur).wild with
  | some lf => acceptsGen false sat (some lf) (pushT st wildParam (restOfPath (seg :: rest) trail))
  | none => none

theorem walk_cons (sat : Nat → Bytes → Bool) (ns : Nodes) (trail : Bool) (cur : Key) (st : St) (seg : Bytes) (rest : List Bytes) :
    walkGen false false false sat ns trail cur st (seg :: rest) =
      match altS sat ns trail cur st seg rest with
      | some r => some r
      | none =>
        match altP sat ns trail cur st seg rest with
        | some r => some r
        | none => altW sat ns trail cur st seg rest := by
  simp only [walkGen, altS, altP, altW, nextB, Bool.false_eq_true, if_false]
  rfl

theorem lastSome_some {α β} (f : α → Option β) (l : List α) (v : β) (h : lastSome f l = some v) :
    ∃ a ∈ l, f a = some v := by
  induction l with
  | nil => simp [lastSome] at h
  | cons b rest ih =>
    simp only [lastSome] at h
    cases hr : lastSome f rest with
    | some w =>
      rw [hr] at h; simp at h
      obtain ⟨a, ha, hfa⟩ := ih (by rw [hr, h])
      exact ⟨a, List.mem_cons_of_mem _ ha, hfa⟩
    | none =>
      rw [hr] at h; simp at h
      exact ⟨b, List.mem_cons_self .., h⟩

theorem pushAllT_cons (st : St) (k v : Bytes) (ps : List (Bytes × Bytes)) :
    pushAllT st ((k, v) :: ps) = pushAllT (pushT st k v) ps := by
  simp [pushAllT]

/-- an entry of `L` passes through the node `cur` with the rest `suf` of its pattern, which matches `segs` -/
structure Cand (L : List Entry) (trail : Bool) (cur : Key) (segs : List Bytes) (e : Entry) (suf : Pat) : Prop where
  mem : e ∈ L
  str : strip e.pat cur = some suf
  mat : (matchPat trail suf segs).isSome = true

theorem strip_step {pat : Pat} {cur : Key} {e : ESeg} {suf1 : Pat} (h : strip pat (cur ++ [e]) = some suf1) :
    ∃ a, strip pat cur = some (a :: suf1) ∧ ekey a = some e := by
  rw [strip_snoc] at h
  cases hs : strip pat cur with
  | none => simp [hs] at h
  | some sufc =>
    rw [hs] at h
    cases sufc with
    | nil => simp [stepSuf] at h
    | cons a tail =>
      simp only [Option.bind_some, stepSuf] at h
      by_cases hk : ekey a = some e
      · simp only [hk, if_true, Option.some.injEq] at h
        subst h
        exact ⟨a, rfl, hk⟩
      · simp [hk] at h

theorem ekeys_cons_lit (x : Bytes) (as : Pat) : ekeys (PSeg.lit x :: as) = ESeg.s x :: ekeys as := by
  simp [ekeys, ekey]

theorem ekeys_cons_par (n : Bytes) (as : Pat) : ekeys (PSeg.par n :: as) = ESeg.p :: ekeys as := by
  simp [ekeys, ekey]

theorem accAt_lit (sat : Nat → Bytes → Bool) (ns : Nodes) (trail : Bool) (cur : Key) (st : St) (x : Bytes) (as : Pat) (rest : List Bytes) :
    accAt sat ns trail cur st (PSeg.lit x :: as) (x :: rest) = accAt sat ns trail (cur ++ [ESeg.s x]) st as rest := by
  unfold accAt
  rw [endsWild_cons _ _ (by simp), ekeys_cons_lit]
  simp only [pushesFor, List.append_assoc, List.singleton_append]

theorem accAt_par (sat : Nat → Bytes → Bool) (ns : Nodes) (trail : Bool) (cur : Key) (st : St) (n key x : Bytes) (as : Pat) (rest : List Bytes)
    (hp : (getK ns cur).pname = some key) :
    accAt sat ns trail cur st (PSeg.par n :: as) (x :: rest) = accAt sat ns trail (cur ++ [ESeg.p]) (pushT st key x) as rest := by
  unfold accAt
  rw [endsWild_cons _ _ (by simp), ekeys_cons_par]
  simp only [pushesFor, hp, Option.getD_some, pushAllT_cons, List.append_assoc, List.singleton_append]

theorem accAt_wild (sat : Nat → Bytes → Bool) (ns : Nodes) (trail : Bool) (cur : Key) (st : St) (x : Bytes) (rest : List Bytes) :
    accAt sat ns trail cur st [PSeg.wild] (x :: rest) =
      acceptsGen false sat (getK ns cur).wild (pushT st wildParam (restOfPath (x :: rest) trail)) := by
  unfold accAt
  simp [endsWild, ekeys, ekey, List.filterMap, pushesFor, pushAllT]

theorem accAt_nil (sat : Nat → Bytes → Bool) (ns : Nodes) (trail : Bool) (cur : Key) (st : St) :
    accAt sat ns trail cur st [] [] = acceptsGen false sat (getK ns cur).leaf st := by
  unfold accAt
  simp [endsWild, ekeys, pushesFor, pushAllT]

theorem matchPat_lit_cons (trail : Bool) (x : Bytes) (as : Pat) (rest : List Bytes) :
    matchPat trail (PSeg.lit x :: as) (x :: rest) = matchPat trail as rest := by
  cases as <;> simp [matchPat]

theorem matchPat_par_cons_isSome (trail : Bool) (n x : Bytes) (as : Pat) (rest : List Bytes) :
    (matchPat trail (PSeg.par n :: as) (x :: rest)).isSome = (matchPat trail as rest).isSome := by
  cases as <;> simp [matchPat]

/-- soundness of the continuation, given soundness of the search on the remaining segments -/
theorem next_some (sat : Nat → Bytes → Bool) (L : List Entry) (hL : ∀ e ∈ L, e.ok) (trail : Bool) (rest : List Bytes)
    (ih : ∀ (cur : Key) (st : St) (res : Leaf × Ctx), walkGen false false false sat (nodesOf L) trail cur st rest = some res →
      ∃ e suf, Cand L trail cur rest e suf ∧ accAt sat (nodesOf L) trail cur st suf rest = some res)
    (cur1 : Key) (st1 : St) (res : Leaf × Ctx)
    (h : nextB sat (nodesOf L) trail rest cur1 st1 = some res) :
    ∃ e suf, Cand L trail cur1 rest e suf ∧ accAt sat (nodesOf L) trail cur1 st1 suf rest = some res := by
  unfold nextB at h
  by_cases hl : (rest.isEmpty && !trail) = true
  · simp only [hl, if_true] at h
    simp only [Bool.and_eq_true, List.isEmpty_iff, Bool.not_eq_true'] at hl
    obtain ⟨hr, ht⟩ := hl
    subst hr; subst ht
    -- the leaf at the node comes from an entry that ends there
    cases hlf : (getK (nodesOf L) cur1).leaf with
    | none => rw [hlf] at h; simp [acceptsGen] at h
    | some lf =>
      have hsome := hlf
      rw [nodesOf_leaf L hL] at hsome
      obtain ⟨e, he, hfe⟩ := lastSome_some _ _ _ hsome
      by_cases hs : strip e.pat cur1 = some []
      · refine ⟨e, [], ⟨he, hs, by simp [matchPat]⟩, ?_⟩
        rw [accAt_nil]; exact h
      · simp [hs] at hfe
  · simp only [hl, Bool.false_eq_true, if_false] at h
    exact ih cur1 st1 res h


/-- the hypothesis both inductions carry: soundness of the search on the remaining segments -/
def SoundOn (sat : Nat → Bytes → Bool) (L : List Entry) (trail : Bool) (rest : List Bytes) : Prop :=
  ∀ (cur : Key) (st : St) (res : Leaf × Ctx), walkGen false false false sat (nodesOf L) trail cur st rest = some res →
    ∃ e suf, Cand L trail cur rest e suf ∧ accAt sat (nodesOf L) trail cur st suf rest = some res

theorem altS_some (sat : Nat → Bytes → Bool) (L : List Entry) (hL : ∀ e ∈ L, e.ok) (trail : Bool) (rest : List Bytes)
    (ih : SoundOn sat L trail rest) (cur : Key) (st : St) (seg : Bytes) (res : Leaf × Ctx)
    (h : altS sat (nodesOf L) trail cur st seg rest = some res) :
    ∃ e as, Cand L trail cur (seg :: rest) e (PSeg.lit seg :: as) ∧
      accAt sat (nodesOf L) trail cur st (PSeg.lit seg :: as) (seg :: rest) = some res := by
  unfold altS at h
  by_cases hk : hasK (nodesOf L) (cur ++ [ESeg.s seg]) = true
  · simp only [hk, if_true] at h
    obtain ⟨e, suf1, hc, hacc⟩ := next_some sat L hL trail rest ih _ _ _ h
    obtain ⟨a, hs, hek⟩ := strip_step hc.str
    have ha := ekey_static hek
    subst ha
    refine ⟨e, suf1, ⟨hc.mem, hs, by rw [matchPat_lit_cons]; exact hc.mat⟩, ?_⟩
    rw [accAt_lit]; exact hacc
  · simp [hk] at h

theorem altP_some (sat : Nat → Bytes → Bool) (L : List Entry) (hL : ∀ e ∈ L, e.ok) (trail : Bool) (rest : List Bytes)
    (ih : SoundOn sat L trail rest) (cur : Key) (st : St) (seg : Bytes) (res : Leaf × Ctx)
    (h : altP sat (nodesOf L) trail cur st seg rest = some res) :
    ∃ e n as, Cand L trail cur (seg :: rest) e (PSeg.par n :: as) ∧
      accAt sat (nodesOf L) trail cur st (PSeg.par n :: as) (seg :: rest) = some res := by
  unfold altP at h
  cases hp : (getK (nodesOf L) cur).pname with
  | none => simp [hp] at h
  | some key =>
    simp only [hp] at h
    obtain ⟨e, suf1, hc, hacc⟩ := next_some sat L hL trail rest ih _ _ _ h
    obtain ⟨a, hs, hek⟩ := strip_step hc.str
    obtain ⟨n, rfl⟩ := ekey_param hek
    refine ⟨e, n, suf1, ⟨hc.mem, hs, by rw [matchPat_par_cons_isSome]; exact hc.mat⟩, ?_⟩
    rw [accAt_par _ _ _ _ _ _ key _ _ _ hp]; exact hacc

theorem altW_some (sat : Nat → Bytes → Bool) (L : List Entry) (hL : ∀ e ∈ L, e.ok) (trail : Bool) (rest : List Bytes)
    (cur : Key) (st : St) (seg : Bytes) (res : Leaf × Ctx)
    (h : altW sat (nodesOf L) trail cur st seg rest = some res) :
    ∃ e, Cand L trail cur (seg :: rest) e [PSeg.wild] ∧
      accAt sat (nodesOf L) trail cur st [PSeg.wild] (seg :: rest) = some res := by
  unfold altW at h
  cases hw : (getK (nodesOf L) cur).wild with
  | none => simp [hw] at h
  | some lf =>
    simp only [hw] at h
    have hsome := hw
    rw [nodesOf_wild L hL] at hsome
    obtain ⟨e, he, hfe⟩ := lastSome_some _ _ _ hsome
    by_cases hs : strip e.pat cur = some [PSeg.wild]
    · refine ⟨e, ⟨he, hs, by simp [matchPat]⟩, ?_⟩
      rw [accAt_wild, hw]; exact h
    · simp [hs] at hfe

/-- **Soundness of the search**: whatever it returns is what `accepts` answers at the node of a registered
entry that passes through `cur` and whose remaining pattern matches the remaining segments. -/
theorem walk_some (sat : Nat → Bytes → Bool) (L : List Entry) (hL : ∀ e ∈ L, e.ok) (trail : Bool) (segs : List Bytes) :
    SoundOn sat L trail segs := by
  induction segs with
  | nil => intro cur st res h; simp [walkGen] at h
  | cons seg rest ih =>
    intro cur st res h
    rw [walk_cons] at h
    cases hS : altS sat (nodesOf L) trail cur st seg rest with
    | some r =>
      simp only [hS, Option.some.injEq] at h
      subst h
      obtain ⟨e, as, hc, hacc⟩ := altS_some sat L hL trail rest ih cur st seg r hS
      exact ⟨e, _, hc, hacc⟩
    | none =>
      simp only [hS] at h
      cases hP : altP sat (nodesOf L) trail cur st seg rest with
      | some r =>
        simp only [hP, Option.some.injEq] at h
        subst h
        obtain ⟨e, n, as, hc, hacc⟩ := altP_some sat L hL trail rest ih cur st seg r hP
        exact ⟨e, _, hc, hacc⟩
      | none =>
        simp only [hP] at h
        obtain ⟨e, hc, hacc⟩ := altW_some sat L hL trail rest cur st seg res h
        exact ⟨e, _, hc, hacc⟩


/-- no entry whose node accepts beats `suf` segment-wise -/
def MaxAcc (sat : Nat → Bytes → Bool) (L : List Entry) (trail : Bool) (cur : Key) (st : St) (segs : List Bytes) (suf : Pat) : Prop :=
  ∀ e' suf', Cand L trail cur segs e' suf' → (accAt sat (nodesOf L) trail cur st suf' segs).isSome = true → better suf' suf = false

def CompleteOn (sat : Nat → Bytes → Bool) (L : List Entry) (trail : Bool) (rest : List Bytes) : Prop :=
  ∀ (cur : Key) (st : St) (e : Entry) (suf : Pat) (res : Leaf × Ctx), Cand L trail cur rest e suf →
    accAt sat (nodesOf L) trail cur st suf rest = some res → MaxAcc sat L trail cur st rest suf →
    walkGen false false false sat (nodesOf L) trail cur st rest = some res

theorem next_max (sat : Nat → Bytes → Bool) (L : List Entry) (trail : Bool) (rest : List Bytes)
    (ih : rest ≠ [] → CompleteOn sat L trail rest)
    (cur1 : Key) (st1 : St) (e : Entry) (as : Pat) (res : Leaf × Ctx) (hc : Cand L trail cur1 rest e as)
    (hacc : accAt sat (nodesOf L) trail cur1 st1 as rest = some res) (hmax : MaxAcc sat L trail cur1 st1 rest as) :
    nextB sat (nodesOf L) trail rest cur1 st1 = some res := by
  unfold nextB
  by_cases hl : (rest.isEmpty && !trail) = true
  · simp only [hl, if_true]
    simp only [Bool.and_eq_true, List.isEmpty_iff, Bool.not_eq_true'] at hl
    obtain ⟨hr, ht⟩ := hl
    subst hr
    obtain ⟨has, _⟩ := matchPat_nil_segs trail as hc.mat
    subst has
    rw [accAt_nil] at hacc
    exact hacc
  · simp only [hl, Bool.false_eq_true, if_false]
    have hrne : rest ≠ [] := by
      intro hr; subst hr
      obtain ⟨_, ht⟩ := matchPat_nil_segs trail as hc.mat
      simp [ht] at hl
    exact ih hrne cur1 st1 e as res hc hacc hmax

theorem better_lit_lit (x : Bytes) (a b : Pat) : better (PSeg.lit x :: a) (PSeg.lit x :: b) = better a b := by
  simp [better, kind]

theorem better_par_par (n m : Bytes) (a b : Pat) : better (PSeg.par n :: a) (PSeg.par m :: b) = better a b := by
  simp [better, kind]

/-- **Completeness and priority of the search**: if the node of an entry through `cur` accepts and no entry
whose node accepts beats it segment-wise, the search returns exactly what that node answers. -/
theorem walk_max (sat : Nat → Bytes → Bool) (L : List Entry) (hL : ∀ e ∈ L, e.ok) (trail : Bool) (segs : List Bytes) (hne : segs ≠ []) :
    CompleteOn sat L trail segs := by
  induction segs with
  | nil => exact absurd rfl hne
  | cons seg rest ih =>
    intro cur st e suf res hc hacc hmax
    have hsound := walk_some sat L hL trail rest
    rw [walk_cons]
    cases suf with
    | nil => have := hc.mat; simp [matchPat] at this
    | cons a as =>
      cases a with
      | lit x =>
        have hsx : x = seg := by
          have := hc.mat
          cases as <;> simp only [matchPat] at this <;> by_cases h : x = seg <;> simp_all
        subst hsx
        have hm' : (matchPat trail as rest).isSome = true := by
          have := hc.mat; rw [matchPat_lit_cons] at this; exact this
        have hstr : strip e.pat (cur ++ [ESeg.s x]) = some as := by
          rw [strip_snoc, hc.str]; simp [stepSuf, ekey]
        have hk : hasK (nodesOf L) (cur ++ [ESeg.s x]) = true := by
          rw [nodesOf_hasK L hL _ (by simp)]
          simp only [List.any_eq_true]
          exact ⟨e, hc.mem, by rw [hstr]; rfl⟩
        have hnext : nextB sat (nodesOf L) trail rest (cur ++ [ESeg.s x]) st = some res := by
          apply next_max sat L trail rest ih _ _ e as res ⟨hc.mem, hstr, hm'⟩
          · rw [← accAt_lit]; exact hacc
          · intro e' suf1' hc' hacc'
            obtain ⟨a', hs', hek'⟩ := strip_step hc'.str
            have ha' := ekey_static hek'
            subst ha'
            have := hmax e' (PSeg.lit x :: suf1') ⟨hc'.mem, hs', by rw [matchPat_lit_cons]; exact hc'.mat⟩
              (by rw [accAt_lit]; exact hacc')
            rw [better_lit_lit] at this; exact this
        simp only [altS, hk, if_true, hnext]
      | par n =>
        have hm' : (matchPat trail as rest).isSome = true := by
          have := hc.mat; rw [matchPat_par_cons_isSome] at this; exact this
        have hstr : strip e.pat (cur ++ [ESeg.p]) = some as := by
          rw [strip_snoc, hc.str]; simp [stepSuf, ekey]
        -- the static alternative cannot succeed: its entry would beat `suf`
        have hS : altS sat (nodesOf L) trail cur st seg rest = none := by
          cases h : altS sat (nodesOf L) trail cur st seg rest with
          | none => rfl
          | some r =>
            exfalso
            obtain ⟨e', as', hc', hacc'⟩ := altS_some sat L hL trail rest hsound cur st seg r h
            have := hmax e' _ hc' (by rw [hacc']; rfl)
            simp [better, kind] at this
        have hpn : ∃ key, (getK (nodesOf L) cur).pname = some key := by
          have : ((getK (nodesOf L) cur).pname).isSome = true := by
            rw [nodesOf_pname L hL]
            exact firstSome_isSome_of_mem _ L e hc.mem (by simp [nameAtS, hc.str])
          cases hp : (getK (nodesOf L) cur).pname with
          | none => rw [hp] at this; simp at this
          | some v => exact ⟨v, rfl⟩
        obtain ⟨key, hp⟩ := hpn
        have hnext : nextB sat (nodesOf L) trail rest (cur ++ [ESeg.p]) (pushT st key seg) = some res := by
          apply next_max sat L trail rest ih _ _ e as res ⟨hc.mem, hstr, hm'⟩
          · rw [← accAt_par _ _ _ _ _ n key _ _ _ hp]; exact hacc
          · intro e' suf1' hc' hacc'
            obtain ⟨a', hs', hek'⟩ := strip_step hc'.str
            obtain ⟨n', rfl⟩ := ekey_param hek'
            have := hmax e' (PSeg.par n' :: suf1') ⟨hc'.mem, hs', by rw [matchPat_par_cons_isSome]; exact hc'.mat⟩
              (by rw [accAt_par _ _ _ _ _ n' key _ _ _ hp]; exact hacc')
            rw [better_par_par] at this; exact this
        simp only [hS, altP, hp, hnext]
      | wild =>
        have has : as = [] := by
          cases as with
          | nil => rfl
          | cons b bs => have := hc.mat; simp [matchPat] at this
        subst has
        have hS : altS sat (nodesOf L) trail cur st seg rest = none := by
          cases h : altS sat (nodesOf L) trail cur st seg rest with
          | none => rfl
          | some r =>
            exfalso
            obtain ⟨e', as', hc', hacc'⟩ := altS_some sat L hL trail rest hsound cur st seg r h
            have := hmax e' _ hc' (by rw [hacc']; rfl)
            simp [better, kind] at this
        have hP : altP sat (nodesOf L) trail cur st seg rest = none := by
          cases h : altP sat (nodesOf L) trail cur st seg rest with
          | none => rfl
          | some r =>
            exfalso
            obtain ⟨e', n', as', hc', hacc'⟩ := altP_some sat L hL trail rest hsound cur st seg r h
            have := hmax e' _ hc' (by rw [hacc']; rfl)
            simp [better, kind] at this
        rw [accAt_wild] at hacc
        cases hw : (getK (nodesOf L) cur).wild with
        | none => rw [hw] at hacc; simp [acceptsGen] at hacc
        | some lf =>
          rw [hw] at hacc
          simp only [hS, hP, altW, hw]
          exact hacc

end Rivaas.RadixL
