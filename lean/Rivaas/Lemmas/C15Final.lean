import Rivaas.Lemmas.C15Fold
/-
Helper lemmas for C15, part 5: the end of the exchange — the middleware's Close, net/http's
finishRequest on both sides — and the predicate `Transparent` that collects what C15 demands.
-/
namespace Rivaas.C15
open Rivaas.Http Rivaas.Compress

/-- what C15 demands of the exchange with the middleware (`W`) against the one without (`P`);
    `enc` is the encoding the middleware was set up with for this request -/
structure Transparent (enc : Bytes) (W : WithResp) (P : Base × List WOut) : Prop where
  noPanic : W.panicked = P.1.panicked
  status : W.resp.status = P.1.resp.status
  headers : ∀ k, k ≠ kCE → k ≠ kCL → k ≠ kVary → hget W.resp.hdrs k = hget P.1.resp.hdrs k
  body : W.decoded = some P.1.resp.body
  outs : W.outs = P.2
  coding : hget W.resp.hdrs kCE = hget P.1.resp.hdrs kCE ∨ hget W.resp.hdrs kCE = some [enc]

theorem lemma_final_pass (sn : Sniff) (a b : Base) (h : PassRel a b) :
    (a.finish sn).resp = (b.finish sn).resp ∧ (a.finish sn).panicked = (b.finish sn).panicked := by
  have := lemma_pass_flush sn a b h
  refine ⟨lemma_pass_resp _ _ this, ?_⟩
  obtain ⟨h1, _⟩ := this
  unfold Base.finish
  rw [h1]

theorem lemma_status_ne_304 (s : Nat) (h : noBody s = false) : (s == 304) = false := by
  simp only [noBody, Bool.or_eq_false_iff] at h
  exact h.2

theorem lemma_final_cmp (sn : Sniff) (w : CW) (p : Base) (core : CmpCore sn w p) :
    let b := w.base.finish sn
    let P := p.finish sn
    b.panicked = P.panicked ∧ b.resp.status = P.resp.status ∧
    (∀ k, k ≠ kCE → k ≠ kCL → k ≠ kVary → hget b.resp.hdrs k = hget P.resp.hdrs k) ∧
    b.body = [] ∧ plainOf w.evs = P.resp.body ∧ hget b.resp.hdrs kCE = some [w.enc] := by
  obtain ⟨hd, hc, hw, nr, hs, cl, encne, bw, bst, pw, nb, bb, bct, bpn, pp, pl, T, hsnap, hT⟩ := core
  obtain ⟨f1, f2, f3, f4, f5, f6, f7⟩ := lemma_base_flush_cases sn p pw
  obtain ⟨g1, g2, g3, g4, g5, g6⟩ := lemma_cmp_base_flush sn w.base p.snap T w.enc encne bw hsnap bct
  have hT' : (p.flush sn).ctype = T := by
    rw [f7]
    by_cases hsent : p.sent = true
    · simp only [hsent, if_true] at hT ⊢; exact hT
    · have hsent' : p.sent = false := by simpa using hsent
      simp only [hsent', Bool.false_eq_true, if_false] at hT ⊢; exact hT
  have h304 := lemma_status_ne_304 p.status nb
  simp only [Base.finish]
  refine ⟨by rw [g6, f5, bpn, pp], ?_, ?_, by rw [g4, bb], ?_, ?_⟩
  · simp only [Base.resp, g2, f2, bst]
  · intro k h1 h2 h3
    simp only [Base.resp, g2, bst, f2, h304, g3, g5, f3, hT', hsnap, Bool.false_eq_true, if_false]
    show hget (hdel (cmpSnap p.snap T w.enc) kCL) k = hget (hdel (addCT p.snap T) kCL) k
    unfold cmpSnap
    rw [lemma_hget_hdel, if_neg h2, lemma_hget_hset, if_neg h3, lemma_hget_hset, if_neg h1]
  · simp only [Base.resp, f4, pl]
  · simp only [Base.resp, g2, bst, h304, g3, g5, hsnap, Bool.false_eq_true, if_false]
    have h1 : kCE ≠ kCL := by decide
    have h2 : kCE ≠ kVary := by decide
    unfold cmpSnap
    rw [lemma_hget_hdel, if_neg h1, lemma_hget_hset, if_neg h2, lemma_hget_hset, if_pos rfl]

theorem lemma_finish_panicked (sn : Sniff) (b : Base) : (b.finish sn).panicked = b.panicked := by
  cases b with
  | mk live wrote status snap sent ctype pend body panicked =>
    by_cases hw : wrote = true <;> by_cases hs : sent = true <;>
      simp [Base.finish, Base.flush, Base.writeHeader, Base.emit, hw, hs, validCode, informational]

theorem lemma_init (sn : Sniff) (cfg : Cfg) (enc : Bytes) (h0 : Hdrs) (henc : enc ≠ []) :
    Inv sn false ({ base := { live := h0 }, thr := cfg.minSize, enc := enc, exclCT := cfg.exclCT } : CW) { live := h0 } := by
  left
  refine ⟨⟨Or.inl ⟨rfl, rfl, fun _ => ⟨rfl, rfl, rfl⟩, fun h => absurd rfl h⟩, henc⟩, fun _ => ⟨rfl, fun _ => rfl⟩⟩

/-- the response assembled from the middleware's final writer state -/
def respOf (sn : Sniff) (w : CW) (outs : List WOut) : WithResp :=
  let b := w.base.finish sn
  if w.compress && w.hasWriter then
    { panicked := w.panicked, resp := { b.resp with body := [] },
      decoded := if w.closed && b.body.isEmpty then some w.plain else none, outs := outs }
  else
    { panicked := w.panicked, resp := b.resp, decoded := some b.resp.body, outs := outs }

theorem lemma_respOf_pass (sn : Sniff) (w : CW) (p : Base) (outs : List WOut) (hc : w.compress = false)
    (rel : PassRel w.base p) : Transparent w.enc (respOf sn w outs) (p.finish sn, outs) := by
  obtain ⟨r1, r2⟩ := lemma_final_pass sn w.base p rel
  unfold respOf
  simp only [hc, Bool.false_and, Bool.false_eq_true, if_false]
  refine ⟨?_, by rw [r1], fun k _ _ _ => by rw [r1], by rw [r1], rfl, Or.inl (by rw [r1])⟩
  simp only [CW.panicked]
  rw [← lemma_finish_panicked sn w.base, r2]

theorem lemma_respOf_cmp (sn : Sniff) (w : CW) (p : Base) (outs : List WOut) (core : CmpCore sn w p) :
    Transparent w.enc (respOf sn { w with closed := true } outs) (p.finish sn, outs) := by
  obtain ⟨c1, c2, c3, c4, c5, c6⟩ := lemma_final_cmp sn w p core
  unfold respOf
  simp only [core.c, core.hw, Bool.and_self, if_true, c4, List.isEmpty_nil]
  refine ⟨?_, c2, c3, ?_, rfl, Or.inr c6⟩
  · simp only [CW.panicked]
    rw [← lemma_finish_panicked sn w.base, c1]
  · simp only [CW.plain, c5]

theorem lemma_cw_close_cmp (sn : Sniff) (w : CW) (hd : w.decided = true) (hc : w.compress = true)
    (hw : w.hasWriter = true) : w.close sn = { w with closed := true } := by
  unfold CW.close
  simp [hd, hc, hw]

theorem lemma_cw_close_und (sn : Sniff) (w : CW) (hd : w.decided = false) :
    w.close sn =
      if (w.start sn w.buffer (decide (w.buffer.length > 0) && decide (w.buffer.length ≥ w.thr))).2 != .ok
      then (w.start sn w.buffer (decide (w.buffer.length > 0) && decide (w.buffer.length ≥ w.thr))).1
      else if (w.start sn w.buffer (decide (w.buffer.length > 0) && decide (w.buffer.length ≥ w.thr))).1.compress &&
              (w.start sn w.buffer (decide (w.buffer.length > 0) && decide (w.buffer.length ≥ w.thr))).1.hasWriter
        then { (w.start sn w.buffer (decide (w.buffer.length > 0) && decide (w.buffer.length ≥ w.thr))).1 with closed := true }
        else (w.start sn w.buffer (decide (w.buffer.length > 0) && decide (w.buffer.length ≥ w.thr))).1 := by
  unfold CW.close
  simp only [hd, Bool.not_false, if_true]

/-- the end of the exchange: the middleware closes (unless the deferred finalisation already ran),
    net/http finishes both responses -/
theorem lemma_close_transparent (sn : Sniff) (seen : Bool) (w : CW) (p : Base) (outs : List WOut)
    (h : Inv sn seen w p) :
    Transparent w.enc (respOf sn (if w.restored then w else w.close sn) outs) (p.finish sn, outs) := by
  rcases h with ⟨hl, _⟩ | hr
  · have hnr := lemma_live_restored sn w p hl
    simp only [hnr, Bool.false_eq_true, if_false]
    obtain ⟨hrel, henc⟩ := hl
    rcases hrel with hu | hp | hcm
    · obtain ⟨hd, _, _, _, _⟩ := lemma_und_fields sn w p hu
      by_cases h0 : w.status = 0
      · obtain ⟨nf, pp, st0, _⟩ := hu
        obtain ⟨hb, hcm, hpe⟩ := st0 h0
        have e : w.close sn = { w with decided := true, compress := false, buffer := [] } := by
          rw [nf]
          simp [CW.close, CW.start, CW.restoreHeader, CW.restoreTrailers, hcm, hb, h0]
        rw [e]
        refine lemma_respOf_pass sn { w with decided := true, compress := false, buffer := [] } p outs rfl ⟨?_, fun _ => ?_⟩
        · simp only
          rw [nf, hpe]
        · simp only
          rw [nf]
      · rw [lemma_cw_close_und sn w hd]
        generalize hcdef : (decide (w.buffer.length > 0) && decide (w.buffer.length ≥ w.thr)) = c
        by_cases hc : (c = true ∧ (hfirst p.snap kCE).isEmpty = true)
        · obtain ⟨hc1, hce⟩ := hc
          subst hc1
          obtain ⟨core, hok⟩ := lemma_start_und_cmp sn w p hu h0 hce henc
          have henc2 := lemma_start_enc sn w w.buffer true
          generalize (w.start sn w.buffer true) = r at core hok henc2 ⊢
          have e1 : (r.2 != Err.ok) = false := by rw [hok]; rfl
          have e2 : (r.1.compress && r.1.hasWriter) = true := by rw [core.c, core.hw]; rfl
          simp only [e1, Bool.false_eq_true, if_false, e2, if_true]
          rw [← henc2]
          exact lemma_respOf_cmp sn r.1 p outs core
        · have hc' : c = false ∨ (hfirst p.snap kCE).isEmpty = false := by
            by_cases h1 : c = true
            · right
              by_cases h2 : (hfirst p.snap kCE).isEmpty = true
              · exact absurd ⟨h1, h2⟩ hc
              · simpa using h2
            · left; simpa using h1
          obtain ⟨pas, hok⟩ := lemma_start_und_pass sn w p c hu h0 hc'
          have henc2 := lemma_start_enc sn w w.buffer c
          generalize (w.start sn w.buffer c) = r at pas hok henc2 ⊢
          have e1 : (r.2 != Err.ok) = false := by rw [hok]; rfl
          have e2 : (r.1.compress && r.1.hasWriter) = false := by rw [pas.c]; rfl
          simp only [e1, Bool.false_eq_true, if_false, e2]
          rw [← henc2]
          exact lemma_respOf_pass sn r.1 p outs pas.c pas.rel
    · rw [lemma_cw_close_decided sn w hp.d hp.c]
      exact lemma_respOf_pass sn w p outs hp.c hp.rel
    · rw [lemma_cw_close_cmp sn w hcm.1.d hcm.1.c hcm.1.hw]
      exact lemma_respOf_cmp sn w p outs hcm.1
  · obtain ⟨hres, hc, rel⟩ := hr
    simp only [hres, if_true]
    exact lemma_respOf_pass sn w p outs hc rel

end Rivaas.C15
