import Rivaas.Lemmas.LifecycleSegs
/-
C09 — helper lemmas, part 4: executeShutdownHooks (LIFO) and the reload loop.
-/
namespace Rivaas.Lifecycle
open Spec

/-! ### executeShutdownHooks -/

theorem relIn_kinds (met : Bool) (i k : Nat) (qs : List Rel) : kindsIn [.reqFin] (relIn met i k qs) := by
  induction qs generalizing k with
  | nil => exact kindsIn_nil _
  | cons q rest ih =>
    simp only [relIn]
    apply kindsIn_append _ (ih _)
    split
    · exact kindsIn_cons (by simp [kind]) (kindsIn_nil _)
    · exact kindsIn_nil _

theorem relIn_probes (sc : Scenario) (i k : Nat) (qs : List Rel) :
    (relIn sc.metrics i k qs).all (reqProbeOk sc) = true := by
  induction qs generalizing k with
  | nil => simp [relIn]
  | cons q rest ih =>
    simp only [relIn, List.all_append, ih, Bool.and_true]
    split <;> simp [reqProbeOk]

theorem relIn_tags (met : Bool) (i k : Nat) (qs : List Rel) : (relIn met i k qs).filterMap shutTag = [] := by
  apply List.filterMap_eq_nil_iff.mpr
  intro e he
  have := relIn_kinds met i k qs e he
  cases e <;> simp [kind] at this <;> rfl

/-- the events of one hook -/
def shutHead (met sent : Bool) (reqs : List Rel) (ex : Bool) (i : Nat) : List Ev :=
  Ev.shutIn i true met (!ex) :: ((if sent then relIn met i 0 reqs else []) ++ [Ev.shutOut i])

theorem shutHooks_cons (met sent : Bool) (reqs : List Rel) (ex : Bool) (i : Nat) (b : HB)
    (rest : List (Nat × HB)) :
    shutHooks met sent reqs ex ((i, b) :: rest) =
      if b == .panic then ⟨shutHead met sent reqs ex i, true, ex⟩
      else
        let r := shutHooks met sent reqs (ex || b == .block) rest
        ⟨shutHead met sent reqs ex i ++ r.evs, r.panicked, r.expired⟩ := by
  simp only [shutHooks, shutHead]

theorem shutHead_kinds (met sent : Bool) (reqs : List Rel) (ex : Bool) (i : Nat) :
    kindsIn [.shut, .reqFin] (shutHead met sent reqs ex i) := by
  apply kindsIn_cons (by simp [kind])
  apply kindsIn_append
  · cases sent
    · exact kindsIn_nil _
    · exact kindsIn_mono (relIn_kinds met i 0 reqs) (by simp)
  · exact kindsIn_cons (by simp [kind]) (kindsIn_nil _)

theorem shutHead_tags (met sent : Bool) (reqs : List Rel) (ex : Bool) (i : Nat) :
    (shutHead met sent reqs ex i).filterMap shutTag = [(true, i), (false, i)] := by
  cases sent <;> simp [shutHead, shutTag, List.filterMap_append, relIn_tags]

theorem shutHead_reqProbes (sc : Scenario) (sent : Bool) (ex : Bool) (i : Nat) :
    (shutHead sc.metrics sent sc.reqs ex i).all (reqProbeOk sc) = true := by
  cases sent <;> simp [shutHead, reqProbeOk, List.all_append, relIn_probes]

theorem shutHooks_kinds (met sent : Bool) (reqs : List Rel) (ex : Bool) (order : List (Nat × HB)) :
    kindsIn [.shut, .reqFin] (shutHooks met sent reqs ex order).evs := by
  induction order generalizing ex with
  | nil => exact kindsIn_nil _
  | cons p rest ih =>
    obtain ⟨i, b⟩ := p
    rw [shutHooks_cons]
    split
    · exact shutHead_kinds _ _ _ _ _
    · exact kindsIn_append (shutHead_kinds _ _ _ _ _) (ih _)

theorem shutHooks_reqProbes (sc : Scenario) (sent : Bool) (ex : Bool) (order : List (Nat × HB)) :
    (shutHooks sc.metrics sent sc.reqs ex order).evs.all (reqProbeOk sc) = true := by
  induction order generalizing ex with
  | nil => simp [shutHooks]
  | cons p rest ih =>
    obtain ⟨i, b⟩ := p
    rw [shutHooks_cons]
    split
    · exact shutHead_reqProbes _ _ _ _
    · simp only [List.all_append, shutHead_reqProbes, ih, Bool.and_self]

/-- a run over `l1 ++ l2` is the run over `l1` followed — unless a hook of `l1` panicked — by the run over
    `l2` with the deadline state `l1` left -/
theorem shutHooks_append (met sent : Bool) (reqs : List Rel) (ex : Bool) (l1 l2 : List (Nat × HB)) :
    shutHooks met sent reqs ex (l1 ++ l2) =
      if (shutHooks met sent reqs ex l1).panicked then shutHooks met sent reqs ex l1
      else
        ⟨(shutHooks met sent reqs ex l1).evs ++ (shutHooks met sent reqs (shutHooks met sent reqs ex l1).expired l2).evs,
         (shutHooks met sent reqs (shutHooks met sent reqs ex l1).expired l2).panicked,
         (shutHooks met sent reqs (shutHooks met sent reqs ex l1).expired l2).expired⟩ := by
  induction l1 generalizing ex with
  | nil => simp [shutHooks]
  | cons p rest ih =>
    obtain ⟨i, b⟩ := p
    rw [List.cons_append, shutHooks_cons, shutHooks_cons]
    by_cases hb : (b == HB.panic) = true
    · simp [hb]
    · simp only [hb, Bool.false_eq_true, if_false, ih]
      by_cases hp : (shutHooks met sent reqs (ex || b == HB.block) rest).panicked = true
      · simp [hp]
      · simp [hp, List.append_assoc]

theorem shutHooks_single (met sent : Bool) (reqs : List Rel) (ex : Bool) (i : Nat) (b : HB) :
    shutHooks met sent reqs ex [(i, b)] =
      if b == .panic then ⟨shutHead met sent reqs ex i, true, ex⟩
      else ⟨shutHead met sent reqs ex i, false, ex || b == .block⟩ := by
  rw [shutHooks_cons]
  split <;> simp [shutHooks]

/-- no hook panicked ⇒ there is no first panicking hook -/
theorem shutHooks_not_panicked (met sent : Bool) (reqs : List Rel) (ex : Bool) (order : List (Nat × HB))
    (h : (shutHooks met sent reqs ex order).panicked = false) : firstPanicIdx order = none := by
  induction order generalizing ex with
  | nil => rfl
  | cons p rest ih =>
    obtain ⟨i, b⟩ := p
    rw [shutHooks_cons] at h
    by_cases hb : (b == HB.panic) = true
    · simp [hb] at h
    · simp only [hb, Bool.false_eq_true, if_false] at h
      simp only [firstPanicIdx, hb, Bool.false_eq_true, if_false]
      exact ih _ h

theorem seqDown_succ_bottom (n lo : Nat) :
    seqDown (n + 1) lo = seqDown n (lo + 1) ++ [(true, lo), (false, lo)] := by
  induction n with
  | zero => simp [seqDown]
  | succ n ih =>
    rw [seqDown, ih]
    have h1 : lo + (n + 1) = lo + 1 + n := by omega
    simp only [seqDown, h1, List.cons_append]

/-- OnShutdown hooks run in reverse registration order, each once, down to the first that panics -/
theorem shutHooks_lifo_tags (met sent : Bool) (reqs : List Rel) (ex : Bool) (i : Nat) (hs : List HB) :
    (shutHooks met sent reqs ex (lifo i hs)).panicked = (lastPanic hs i).isSome ∧
    (shutHooks met sent reqs ex (lifo i hs)).evs.filterMap shutTag =
      (match lastPanic hs i with
       | none => seqDown hs.length i
       | some p => seqDown (i + hs.length - p) p) ∧
    (∀ p, lastPanic hs i = some p → i ≤ p ∧ p < i + hs.length) := by
  induction hs generalizing i with
  | nil => simp [lifo, shutHooks, lastPanic, seqDown]
  | cons b rest ih =>
    obtain ⟨ih1, ih2, ih3⟩ := ih (i + 1)
    rw [lifo, shutHooks_append, shutHooks_single]
    cases hlp : lastPanic rest (i + 1) with
    | some p =>
      have hp := ih3 p hlp
      rw [hlp] at ih1 ih2
      simp only [Option.isSome_some] at ih1
      simp only [ih1, if_true, lastPanic, hlp, Option.isSome_some, true_and]
      refine ⟨?_, ?_⟩
      · rw [ih2]
        have : i + 1 + rest.length - p = i + (rest.length + 1) - p := by omega
        simp only [List.length_cons, this]
      · intro q hq
        simp only [Option.some.injEq] at hq
        subst hq
        simp only [List.length_cons]; omega
    | none =>
      rw [hlp] at ih1 ih2
      simp only [Option.isSome_none] at ih1
      simp only [ih1, Bool.false_eq_true, if_false, lastPanic, hlp]
      by_cases hb : (b == HB.panic) = true
      · simp only [hb, if_true, Option.isSome_some, List.filterMap_append, ih2, shutHead_tags, true_and]
        refine ⟨?_, ?_⟩
        · have : i + (rest.length + 1) - i = rest.length + 1 := by omega
          simp only [List.length_cons, this, seqDown_succ_bottom]
        · intro q hq
          simp only [Option.some.injEq] at hq
          subst hq
          simp only [List.length_cons]; omega
      · simp only [hb, Bool.false_eq_true, if_false, Option.isSome_none, List.filterMap_append, ih2,
          shutHead_tags, true_and, List.length_cons, seqDown_succ_bottom]
        intro q hq; cases hq

/-- the deadline can only have passed because a hook held on until it -/
theorem shutHooks_lifo_expired (met sent : Bool) (reqs : List Rel) (ex : Bool) (i : Nat) (hs : List HB)
    (h : (shutHooks met sent reqs ex (lifo i hs)).expired = true) :
    ex = true ∨ ∃ j, i ≤ j ∧ hs[j - i]? = some .block := by
  induction hs generalizing i with
  | nil => left; simpa [lifo, shutHooks] using h
  | cons b rest ih =>
    rw [lifo, shutHooks_append, shutHooks_single] at h
    have lift : (ex = true ∨ ∃ j, i + 1 ≤ j ∧ rest[j - (i + 1)]? = some HB.block) →
        ex = true ∨ ∃ j, i ≤ j ∧ (b :: rest)[j - i]? = some HB.block := by
      rintro (h1 | ⟨j, hj, hb⟩)
      · left; exact h1
      · right
        refine ⟨j, by omega, ?_⟩
        have : j - i = (j - (i + 1)) + 1 := by omega
        rw [this, List.getElem?_cons_succ]; exact hb
    by_cases hp : (shutHooks met sent reqs ex (lifo (i + 1) rest)).panicked = true
    · simp only [hp, if_true] at h
      exact lift (ih (i + 1) h)
    · simp only [hp, Bool.false_eq_true, if_false] at h
      by_cases hb : (b == HB.panic) = true
      · simp only [hb, if_true] at h
        exact lift (ih (i + 1) h)
      · simp only [hb, Bool.false_eq_true, if_false, Bool.or_eq_true, beq_iff_eq] at h
        rcases h with h | h
        · exact lift (ih (i + 1) h)
        · right
          refine ⟨i, Nat.le_refl _, ?_⟩
          simp [h]

/-- what an OnShutdown hook sees: the server still serves, the metrics server is as started, and its
    context has ended only if a hook registered after it held on until the deadline -/
theorem shutHooks_lifo_probes (met sent : Bool) (reqs : List Rel) (ex : Bool) (i : Nat) (hs : List HB) :
    ∀ e ∈ (shutHooks met sent reqs ex (lifo i hs)).evs, ∀ j a m live, e = Ev.shutIn j a m live →
      a = true ∧ m = met ∧ i ≤ j ∧ (live = true ∨ ex = true ∨ ∃ j', j < j' ∧ hs[j' - i]? = some .block) := by
  induction hs generalizing i with
  | nil => intro e he; simp [lifo, shutHooks] at he
  | cons b rest ih =>
    intro e he j a m live hej
    rw [lifo, shutHooks_append, shutHooks_single] at he
    have lift : ∀ j, (a = true ∧ m = met ∧ i + 1 ≤ j ∧
          (live = true ∨ ex = true ∨ ∃ j', j < j' ∧ rest[j' - (i + 1)]? = some HB.block)) →
        a = true ∧ m = met ∧ i ≤ j ∧ (live = true ∨ ex = true ∨ ∃ j', j < j' ∧ (b :: rest)[j' - i]? = some HB.block) := by
      rintro j ⟨h1, h2, h3, h4⟩
      refine ⟨h1, h2, by omega, ?_⟩
      rcases h4 with h4 | h4 | ⟨j', hj', hb⟩
      · left; exact h4
      · right; left; exact h4
      · right; right
        refine ⟨j', hj', ?_⟩
        have : j' - i = (j' - (i + 1)) + 1 := by omega
        rw [this, List.getElem?_cons_succ]; exact hb
    have inHead : e ∈ shutHead met sent reqs (shutHooks met sent reqs ex (lifo (i + 1) rest)).expired i →
        a = true ∧ m = met ∧ i ≤ j ∧ (live = true ∨ ex = true ∨ ∃ j', j < j' ∧ (b :: rest)[j' - i]? = some HB.block) := by
      intro hm
      subst hej
      simp only [shutHead, List.mem_cons, Ev.shutIn.injEq, List.mem_append] at hm
      rcases hm with ⟨hj, ha, hmm, hl⟩ | hm | hm
      · refine ⟨ha, hmm, by omega, ?_⟩
        cases hexp : (shutHooks met sent reqs ex (lifo (i + 1) rest)).expired
        · left; rw [hl, hexp]; rfl
        · right
          rcases shutHooks_lifo_expired met sent reqs ex (i + 1) rest hexp with h | ⟨j', hj', hb⟩
          · left; exact h
          · right
            refine ⟨j', by omega, ?_⟩
            have : j' - i = (j' - (i + 1)) + 1 := by omega
            rw [this, List.getElem?_cons_succ]; exact hb
      · exfalso
        cases sent
        · simp at hm
        · simp only [if_true] at hm
          have := relIn_kinds met i 0 reqs _ hm
          simp [kind] at this
      · simp at hm
    by_cases hp : (shutHooks met sent reqs ex (lifo (i + 1) rest)).panicked = true
    · simp only [hp, if_true] at he
      exact lift j (ih (i + 1) e he j a m live hej)
    · simp only [hp, Bool.false_eq_true, if_false] at he
      rcases List.mem_append.mp he with he | he
      · exact lift j (ih (i + 1) e he j a m live hej)
      · by_cases hb : (b == HB.panic) = true
        · simp only [hb, if_true] at he; exact inHead he
        · simp only [hb, Bool.false_eq_true, if_false] at he; exact inHead he

end Rivaas.Lifecycle
