import Rivaas.Lemmas.CompilerEngine
/-
C11, dynamic side: a successful `matchAndExtract` of a compiled route of the vocabulary is a match of the
oracle with the same bindings.
-/
namespace Rivaas.CompilerL
open Rivaas.Route Rivaas.Radix Rivaas.Compiler Rivaas.Match Rivaas.RadixL

/-- the constraint check of the compiled matcher: per parameter, every constraint registered under
its name -/
def consFirstOK (sat : Nat → Bytes → Bool) (cons : List (Bytes × Nat)) (b : List (Bytes × Bytes)) : Bool :=
  b.all fun (n, v) => (consFor false n cons).all fun cid => sat cid v

/-- body patterns: literals and parameters only -/
def noWild (pat : Pat) : Prop := pat.all litOK = true

/-- the analysis loop of `CompileRoute` against the oracle's sequential match, position by position -/
theorem analyse_match (sat : Nat → Bytes → Bool) (cons : List (Bytes × Nat)) (pat : Pat) (hp : noWild pat) :
    ∀ (pre xs : List Bytes), xs.length = pat.length →
      ((analyse cons pre.length (segTexts pat)).1.all (fun (x : Nat × Bytes) => (pre ++ xs)[x.1]? == some x.2) = true ∧
       paramsValid sat (pre ++ xs) (analyse cons pre.length (segTexts pat)).2 = true) →
      ∃ b, matchPat false pat xs = some b ∧ consFirstOK sat cons b = true ∧
        ∀ (j : Nat) (slots : List (Bytes × Bytes)) (over : SMap), slots.length = min j 8 →
          paramsWrite (pre ++ xs) j (analyse cons pre.length (segTexts pat)).2 slots over =
            ((pushAll ⟨slots, over⟩ b).slots, (pushAll ⟨slots, over⟩ b).over) := by
  induction pat with
  | nil =>
    intro pre xs hlen _
    have : xs = [] := List.eq_nil_of_length_eq_zero (by simpa using hlen)
    subst this
    refine ⟨[], by simp [matchPat], by simp [consFirstOK], ?_⟩
    intro j slots over _
    simp [segTexts, analyse, paramsWrite, pushAll]
  | cons a rest ih =>
    intro pre xs hlen hchk
    unfold noWild at hp
    simp only [List.all_cons, Bool.and_eq_true] at hp
    cases xs with
    | nil => simp at hlen
    | cons x xs' =>
      have hlen' : xs'.length = rest.length := by simpa using hlen
      have hpre : pre ++ x :: xs' = (pre ++ [x]) ++ xs' := by simp
      have hprelen : (pre ++ [x]).length = pre.length + 1 := by simp
      cases a with
      | wild => simp [litOK] at hp
      | lit s =>
        -- the segment text of a literal does not start with `:`
        have hs : litOK (PSeg.lit s) = true := hp.1
        have han : analyse cons pre.length (segTexts (PSeg.lit s :: rest)) =
            ((pre.length, s) :: (analyse cons (pre.length + 1) (segTexts rest)).1,
             (analyse cons (pre.length + 1) (segTexts rest)).2) := by
          simp only [segTexts, List.map_cons, renderSeg, analyse]
          simp only [litOK, Bool.and_eq_true, decide_eq_true_eq] at hs
          cases s with
          | nil => exact absurd rfl hs.1
          | cons c cs =>
            split
            · rename_i name heq
              injection heq with h1 _
              subst h1
              simp at hs
            · rfl
        rw [han] at hchk
        simp only [List.all_cons, Bool.and_eq_true] at hchk
        obtain ⟨⟨hx, hst⟩, hpv⟩ := hchk
        have hsx : s = x := by
          have : (pre ++ x :: xs')[pre.length]? = some x := by simp
          rw [this] at hx
          exact (by simpa using hx : x = s).symm
        subst hsx
        rw [hpre, ← hprelen] at hst hpv
        obtain ⟨b, hb, hcb, hw⟩ := ih hp.2 (pre ++ [s]) xs' hlen' ⟨hst, hpv⟩
        refine ⟨b, ?_, hcb, ?_⟩
        · cases rest <;> simp [matchPat, hb]
        · intro j slots over hsl
          rw [han]
          simp only
          rw [hpre, ← hprelen]
          exact hw j slots over hsl
      | par n =>
        have han : analyse cons pre.length (segTexts (PSeg.par n :: rest)) =
            ((analyse cons (pre.length + 1) (segTexts rest)).1,
             (pre.length, n, consFor false n cons) :: (analyse cons (pre.length + 1) (segTexts rest)).2) := by
          simp only [segTexts, List.map_cons, renderSeg, analyse]
        rw [han] at hchk
        obtain ⟨hst, hpv⟩ := hchk
        have hget : (pre ++ x :: xs')[pre.length]? = some x := by simp
        simp only [paramsValid, hget] at hpv
        by_cases hcx : rejects sat (consFor false n cons) x = true
        · simp [hcx] at hpv
        simp only [hcx, if_false] at hpv
        rw [hpre, ← hprelen] at hst hpv
        obtain ⟨b, hb, hcb, hw⟩ := ih hp.2 (pre ++ [x]) xs' hlen' ⟨hst, hpv⟩
        refine ⟨(n, x) :: b, ?_, ?_, ?_⟩
        · cases rest <;> simp [matchPat, hb]
        · simp only [consFirstOK, List.all_cons, Bool.and_eq_true]
          refine ⟨?_, hcb⟩
          simpa [rejects] using hcx
        · intro j slots over hsl
          rw [han]
          simp only [paramsWrite, hget, Option.getD_some]
          rw [hpre, ← hprelen]
          by_cases hj : j < 8
          · simp only [hj, if_true]
            rw [hw (j + 1) (slots ++ [(n, x)]) over (by simp; omega)]
            have : pushAll ⟨slots, over⟩ ((n, x) :: b) = pushAll ⟨slots ++ [(n, x)], over⟩ b := by
              simp only [pushAll, List.foldl_cons, Ctx.push]
              have : slots.length < 8 := by omega
              simp [this]
            rw [this]
          · simp only [hj, if_false]
            rw [hw (j + 1) slots (SMap.set n x over) (by omega)]
            have : pushAll ⟨slots, over⟩ ((n, x) :: b) = pushAll ⟨slots, SMap.set n x over⟩ b := by
              simp only [pushAll, List.foldl_cons, Ctx.push]
              have : ¬ slots.length < 8 := by omega
              simp [this]
            rw [this]


/-! ### what `CompileRoute` computes for a route of the vocabulary -/

theorem segTexts_last_star (pat : Pat) (hne : pat ≠ []) (h : ∀ s ∈ pat, segOK s) :
    lastStar (segTexts pat) = endsWild pat := by
  have hne' : segTexts pat ≠ [] := by simpa [segTexts] using hne
  unfold lastStar
  rw [List.getLast?_eq_some_getLast hne']
  simp only
  have hlast : (segTexts pat).getLast hne' = renderSeg (pat.getLast hne) := by
    simp [segTexts, List.getLast_map]
  rw [hlast]
  unfold endsWild
  rw [List.getLast?_eq_some_getLast hne]
  have hsok := h _ (List.getLast_mem hne)
  cases hs : pat.getLast hne with
  | wild => simp [renderSeg]
  | lit x =>
    rw [hs] at hsok
    have : ¬ (renderSeg (PSeg.lit x)).getLast? = some '*' := by
      intro hh; exact hsok.2.2.2 (List.mem_of_getLast? hh)
    simp [this]
  | par n =>
    rw [hs] at hsok
    have : ¬ (renderSeg (PSeg.par n)).getLast? = some '*' := by
      intro hh
      have hm := List.mem_of_getLast? hh
      simp only [renderSeg, List.mem_cons] at hm
      rcases hm with hm | hm
      · exact absurd hm (by decide)
      · exact hsok.2.2.2 hm
    simp [this]

/-- `CompileRoute` past the normalisation, for a trimmed text other than `/` -/
theorem compileRoute_unfold (method text : Bytes) (cons : List (Bytes × Nat)) (rid : Nat)
    (h1 : text ≠ ['/']) (h2 : text ≠ []) :
    compileRoute method text cons rid =
      if lastStar (splitSlash (trimSlashes text)) then
        ⟨method, text, (splitSlash (trimSlashes text)).length, [], [], false, true, rid⟩
      else
        ⟨method, text, (splitSlash (trimSlashes text)).length,
         (analyse cons 0 (splitSlash (trimSlashes text))).1, (analyse cons 0 (splitSlash (trimSlashes text))).2,
         (analyse cons 0 (splitSlash (trimSlashes text))).2.isEmpty, false, rid⟩ := by
  unfold compileRoute compileRouteGen
  simp only [Bool.false_eq_true, if_false, h2, h1]

/-- the compiled form of a parameter route without wildcard -/
theorem compileRoute_dyn (r : Route) (hn : NormalPat r.text r.pat)
    (hne : r.pat ≠ []) (hw : endsWild r.pat = false) :
    compileRoute r.method r.text r.cons r.rid =
      ⟨r.method, r.text, r.pat.length, (analyse r.cons 0 (segTexts r.pat)).1, (analyse r.cons 0 (segTexts r.pat)).2,
       (analyse r.cons 0 (segTexts r.pat)).2.isEmpty, false, r.rid⟩ := by
  obtain ⟨h1, h2⟩ := render_ne r.pat hne hn.segs
  rw [← hn.text] at h1 h2
  have hsegs : splitSlash (trimSlashes r.text) = segTexts r.pat := by
    rw [hn.text]; exact model_segs _ hne hn.segs
  rw [compileRoute_unfold _ _ _ _ h1 h2, hsegs, segTexts_last_star r.pat hne hn.segs, hw]
  simp [segTexts]

theorem compileRoute_wild (r : Route) (hn : NormalPat r.text r.pat)
    (hne : r.pat ≠ []) (hw : endsWild r.pat = true) :
    (compileRoute r.method r.text r.cons r.rid).isStatic = false ∧
    (compileRoute r.method r.text r.cons r.rid).hasWildcard = true := by
  obtain ⟨h1, h2⟩ := render_ne r.pat hne hn.segs
  rw [← hn.text] at h1 h2
  have hsegs : splitSlash (trimSlashes r.text) = segTexts r.pat := by
    rw [hn.text]; exact model_segs _ hne hn.segs
  rw [compileRoute_unfold _ _ _ _ h1 h2, hsegs, segTexts_last_star r.pat hne hn.segs, hw]
  exact ⟨rfl, rfl⟩

theorem compileRoute_root (r : Route) (hn : NormalPat r.text r.pat) (hpe : r.pat = []) :
    compileRoute r.method r.text r.cons r.rid = ⟨r.method, ['/'], 0, [], [], true, false, r.rid⟩ := by
  have ht : r.text = ['/'] := by rw [hn.text, hpe]; rfl
  rw [ht]
  rfl

theorem compileRoute_meta (r : Route) (hn : NormalPat r.text r.pat) :
    (compileRoute r.method r.text r.cons r.rid).method = r.method ∧
    (compileRoute r.method r.text r.cons r.rid).pattern = r.text ∧
    (compileRoute r.method r.text r.cons r.rid).rid = r.rid := by
  by_cases hpe : r.pat = []
  · rw [compileRoute_root r hn hpe]
    have : r.text = ['/'] := by rw [hn.text, hpe]; rfl
    exact ⟨rfl, this.symm, rfl⟩
  · obtain ⟨h1, h2⟩ := render_ne r.pat hpe hn.segs
    rw [← hn.text] at h1 h2
    rw [compileRoute_unfold _ _ _ _ h1 h2]
    split <;> exact ⟨rfl, rfl, rfl⟩

/-- the parameter list of the analysis is empty exactly for parameter-free bodies -/
theorem analyse_params_empty (cons : List (Bytes × Nat)) (pat : Pat) (hp : noWild pat) (i : Nat) :
    (analyse cons i (segTexts pat)).2.isEmpty = isStaticPat pat := by
  induction pat generalizing i with
  | nil => rfl
  | cons a rest ih =>
    unfold noWild at hp
    simp only [List.all_cons, Bool.and_eq_true] at hp
    cases a with
    | wild => simp [litOK] at hp
    | par n => simp [segTexts, renderSeg, analyse, isStaticPat, kind]
    | lit s =>
      have hs := hp.1
      simp only [litOK, Bool.and_eq_true, decide_eq_true_eq] at hs
      have han : (analyse cons i (segTexts (PSeg.lit s :: rest))).2 = (analyse cons (i + 1) (segTexts rest)).2 := by
        simp only [segTexts, List.map_cons, renderSeg, analyse]
        cases s with
        | nil => exact absurd rfl hs.1
        | cons c cs =>
          split
          · rename_i name heq
            injection heq with h1 _
            subst h1
            simp at hs
          · rfl
      rw [han, ih hp.2]
      simp [isStaticPat, kind]


/-! ### `matchAndExtract` -/

theorem split_length (s : Bytes) : (splitOnSlash s).length = countSlashes s + 1 := by
  induction s with
  | nil => rfl
  | cons c cs ih =>
    simp only [splitOnSlash, countSlashes]
    by_cases hc : c = '/'
    · simp only [hc, if_true, List.length_cons, ih, countSlashes, List.filter_cons, decide_true]
    · simp only [hc, if_false, List.filter_cons, decide_false, Bool.false_eq_true]
      cases hsp : splitOnSlash cs with
      | nil => exact absurd hsp (split_ne_nil cs)
      | cons h t =>
        rw [hsp] at ih
        simpa [countSlashes] using ih

theorem indexSlash_some (l : Bytes) (k : Nat) (h : indexSlash l = some k) :
    l = l.take k ++ '/' :: l.drop (k + 1) ∧ '/' ∉ l.take k := by
  induction l generalizing k with
  | nil => simp [indexSlash] at h
  | cons c cs ih =>
    simp only [indexSlash] at h
    by_cases hc : c = '/'
    · simp only [hc, if_true, Option.some.injEq] at h
      subst h; subst hc
      simp
    · simp only [hc, if_false] at h
      cases hi : indexSlash cs with
      | none => simp [hi] at h
      | some j =>
        simp only [hi, Option.map_some, Option.some.injEq] at h
        subst h
        obtain ⟨h1, h2⟩ := ih j hi
        refine ⟨by simp only [List.take_succ_cons, List.drop_succ_cons, List.cons_append]; rw [← h1], ?_⟩
        simp only [List.take_succ_cons, List.mem_cons, not_or]
        exact ⟨fun e => hc e.symm, h2⟩

theorem indexSlash_none (l : Bytes) (h : indexSlash l = none) : '/' ∉ l := by
  induction l with
  | nil => simp
  | cons c cs ih =>
    simp only [indexSlash] at h
    by_cases hc : c = '/'
    · simp [hc] at h
    · simp only [hc, if_false, Option.map_eq_none_iff] at h
      simp only [List.mem_cons, not_or]
      exact ⟨fun e => hc e.symm, ih h⟩

theorem fastMatch_true (sat : Nat → Bytes → Bool) (s name : Bytes) (c : List Nat) (path : Bytes) (over : SMap)
    (e : Extract) (h : fastMatch false sat (some s) name c path over = (true, e)) :
    ∃ v, path = '/' :: (s ++ '/' :: v) ∧ '/' ∉ s ∧ '/' ∉ v ∧ v ≠ [] ∧ rejects sat c v = false ∧
      e = ⟨[(name, v)], over⟩ := by
  unfold fastMatch at h
  split at h
  · rename_i rest
    split at h
    · simp at h
    · split at h
      · simp at h
      · rename_i k hidx
        split at h
        · simp at h
        · rename_i hmore
          split at h
          · simp at h
          · rename_i hfs
            split at h
            · simp at h
            · rename_i hemp
              split at h
              · simp at h
              · rename_i hrej
                simp only [Prod.mk.injEq, true_and] at h
                obtain ⟨hrest, hnos⟩ := indexSlash_some rest k hidx
                have hseq : rest.take k = s := by simpa [firstMismatch] using hfs
                have hnov : '/' ∉ rest.drop (k + 1) := by
                  apply indexSlash_none
                  cases hh : indexSlash (rest.drop (k + 1)) with
                  | none => rfl
                  | some j => rw [hh] at hmore; simp at hmore
                refine ⟨rest.drop (k + 1), ?_, ?_, hnov, ?_, ?_, h.symm⟩
                · rw [← hseq]; congr 1
                · rw [← hseq]; exact hnos
                · intro e0; rw [e0] at hemp; simp at hemp
                · cases hr : rejects sat c (rest.drop (k + 1)) with
                  | false => rfl
                  | true => exact absurd hr hrej
  · simp at h

theorem generalMatch_true (sat : Nat → Bytes → Bool) (r : CRoute) (rest : Bytes) (over : SMap) (e : Extract)
    (h : generalMatch sat r ('/' :: rest) over = (true, e)) :
    countSlashes ('/' :: rest) = r.segCount ∧ (parseSegs16 ('/' :: rest)).length = r.segCount ∧
    (r.statics.all fun (x : Nat × Bytes) => (parseSegs16 ('/' :: rest))[x.1]? == some x.2) = true ∧
    paramsValid sat (parseSegs16 ('/' :: rest)) r.params = true ∧
    e = ⟨(paramsWrite (parseSegs16 ('/' :: rest)) 0 r.params [] over).1,
         (paramsWrite (parseSegs16 ('/' :: rest)) 0 r.params [] over).2⟩ := by
  unfold generalMatch at h
  simp only at h
  split at h
  · simp at h
  · split at h
    · simp at h
    · rename_i hcs
      split at h
      · simp at h
      · rename_i hlen
        split at h
        · simp at h
        · rename_i hst
          split at h
          · simp at h
          · rename_i hpv
            simp only [Prod.mk.injEq, true_and] at h
            refine ⟨by simpa [expectedSlashes] using hcs, by simpa using hlen, by simpa using hst, by simpa using hpv, h.symm⟩

/-- **Soundness of the compiled matcher**: when `matchAndExtract` accepts a path for the compiled form
of a parameter route of the vocabulary, the oracle's pattern match succeeds on the same segments, the
first-constraint-per-parameter check holds, and the context holds exactly the bindings (first eight
inline, the rest in the map). -/
theorem matchAndExtract_sound (sat : Nat → Bytes → Bool) (r : Route) (hn : NormalPat r.text r.pat)
    (hne : r.pat ≠ []) (hw : endsWild r.pat = false)
    (hns : isStaticPat r.pat = false)
    (path : Bytes) (hp : path.head? = some '/') (over : SMap) (e : Extract)
    (h : matchAndExtract sat (compileRoute r.method r.text r.cons r.rid) path over = (true, e)) :
    ∃ b, matchPat (cutAny path).trail r.pat (cutAny path).segs = some b ∧ consFirstOK sat r.cons b = true ∧
      (⟨e.slots, e.over⟩ : Ctx) = pushAll ⟨[], over⟩ b := by
  have hpok := normal_patOK _ _ hn
  have hbody : bodyOf r.pat = r.pat := by simp [bodyOf, hw]
  unfold patOK at hpok
  rw [hbody] at hpok
  have hnow : noWild r.pat := hpok
  rw [compileRoute_dyn r hn hne hw] at h
  cases path with
  | nil => simp at hp
  | cons c rest =>
    simp only [List.head?_cons, Option.some.injEq] at hp
    subst hp
    unfold matchAndExtract matchAndExtractGen at h
    simp only at h
    have hlen0 : ¬ r.pat.length = 0 := by
      intro e0; exact hne (List.eq_nil_of_length_eq_zero e0)
    simp only [hlen0, if_false] at h
    by_cases hfast : r.pat.length = 2 ∧ (analyse r.cons 0 (segTexts r.pat)).2.length = 1 ∧
        ((analyse r.cons 0 (segTexts r.pat)).2.head?.map (·.1)) = some 1
    · -- the two-segment fast path
      simp only [hfast, and_self, if_true] at h
      obtain ⟨hl2, hl1, hpos⟩ := hfast
      -- the pattern is `[lit s, par n]`
      obtain ⟨a, bq, hpat⟩ : ∃ a bq, r.pat = [a, bq] := by
        cases hpp : r.pat with
        | nil => rw [hpp] at hl2; simp at hl2
        | cons a t =>
          cases t with
          | nil => rw [hpp] at hl2; simp at hl2
          | cons bq t' =>
            cases t' with
            | nil => exact ⟨a, bq, rfl⟩
            | cons _ _ => rw [hpp] at hl2; simp at hl2
      rw [hpat] at hnow hl1 hpos h
      unfold noWild at hnow
      simp only [List.all_cons, List.all_nil, Bool.and_true, Bool.and_eq_true] at hnow
      cases a with
      | wild => simp [litOK] at hnow
      | par na => simp [segTexts, renderSeg, analyse] at hpos
      | lit s =>
        have hs := hnow.1
        have hslit : ∀ (i : Nat) (restT : List Bytes), analyse r.cons i (s :: restT) =
            ((i, s) :: (analyse r.cons (i + 1) restT).1, (analyse r.cons (i + 1) restT).2) := by
          intro i restT
          simp only [analyse]
          simp only [litOK, Bool.and_eq_true, decide_eq_true_eq] at hs
          cases s with
          | nil => exact absurd rfl hs.1
          | cons c cs =>
            split
            · rename_i name heq
              injection heq with h1 _
              subst h1
              simp at hs
            · rfl
        cases bq with
        | wild => simp [litOK] at hnow
        | lit s2 =>
          exfalso
          have hs2 := hnow.2
          have : (analyse r.cons 0 (segTexts [PSeg.lit s, PSeg.lit s2])).2 = [] := by
            have h2 : ∀ (i : Nat), analyse r.cons i [s2] = ([(i, s2)], []) := by
              intro i
              simp only [analyse]
              simp only [litOK, Bool.and_eq_true, decide_eq_true_eq] at hs2
              cases s2 with
              | nil => exact absurd rfl hs2.1
              | cons c cs =>
                split
                · rename_i name heq
                  injection heq with h1 _
                  subst h1
                  simp at hs2
                · rfl
            simp only [segTexts, List.map_cons, List.map_nil, renderSeg, hslit, h2]
          rw [this] at hl1; simp at hl1
        | par n =>
          have han : analyse r.cons 0 (segTexts [PSeg.lit s, PSeg.par n]) =
              ([(0, s)], [(1, n, consFor false n r.cons)]) := by
            simp only [segTexts, List.map_cons, List.map_nil, renderSeg, hslit]
            simp [analyse]
          rw [han] at h
          simp only [List.head?_cons, Option.map_some] at h
          obtain ⟨v, hpath, hnos, hnov, hvne, hrej, he⟩ := fastMatch_true sat s n _ _ over e h
          injection hpath with _ hrest
          have hsplit : splitOnSlash rest = [s, v] := by
            have hj : rest = Match.joinSlash [s, v] := by simp only [Match.joinSlash]; exact hrest
            rw [hj]
            apply split_join _ (by simp)
            intro t htm
            simp only [List.mem_cons, List.not_mem_nil, or_false] at htm
            rcases htm with rfl | rfl
            · exact hnos
            · exact hnov
          have hrne : rest ≠ [] := by rw [hrest]; simp
          have hcut : cutAny ('/' :: rest) = ⟨[s, v], false⟩ := by
            rw [cutAny_slashed rest hrne, hsplit]
            have : ¬ [s, v].getLast? = some [] := by simp [hvne]
            rw [if_neg this]
          rw [hcut, hpat]
          refine ⟨[(n, v)], by simp [matchPat], ?_, ?_⟩
          · simp only [consFirstOK, List.all_cons, List.all_nil, Bool.and_true]
            simpa [rejects] using hrej
          · rw [he]
            simp [pushAll, Ctx.push]
    · -- the general path
      simp only [hfast, if_false] at h
      obtain ⟨hcs, hlen, hst, hpv, he⟩ := generalMatch_true sat _ rest over e h
      simp only at hcs hlen hst hpv he
      -- the path has exactly `n` segments and no trailing slash
      have hrne : rest ≠ [] := by
        intro e0
        subst e0
        have : parseSegs16 ['/'] = [] := by decide
        rw [this] at hlen
        exact hlen0 hlen.symm
      have hpieces : (splitOnSlash rest).length = r.pat.length := by
        rw [split_length]
        have : countSlashes ('/' :: rest) = countSlashes rest + 1 := by simp [countSlashes]
        omega
      have hp16 : parseSegs16 ('/' :: rest) =
          (if (splitOnSlash rest).getLast? = some [] then (splitOnSlash rest).dropLast else splitOnSlash rest).take 16 := by
        unfold parseSegs16 parsePath
        simp only [splitSlash_eq]
        split <;> rfl
      have hlast : ¬ (splitOnSlash rest).getLast? = some [] := by
        intro hl
        rw [hp16, if_pos hl] at hlen
        have : ((splitOnSlash rest).dropLast.take 16).length ≤ (splitOnSlash rest).length - 1 := by
          simp [List.length_take]; omega
        have hpos : 0 < r.pat.length := Nat.pos_of_ne_zero hlen0
        omega
      have hsegs : parseSegs16 ('/' :: rest) = splitOnSlash rest := by
        rw [hp16, if_neg hlast] at hlen ⊢
        apply List.take_of_length_le
        simp only [List.length_take] at hlen
        omega
      have hcut : cutAny ('/' :: rest) = ⟨splitOnSlash rest, false⟩ := by
        rw [cutAny_slashed rest hrne, if_neg hlast]
      rw [hcut]
      rw [hsegs] at hst hpv he
      obtain ⟨b, hb, hcb, hwr⟩ := analyse_match sat r.cons r.pat hnow [] (splitOnSlash rest) hpieces
        ⟨by simpa using hst, by simpa using hpv⟩
      refine ⟨b, hb, hcb, ?_⟩
      have := hwr 0 [] over (by simp)
      simp only [List.nil_append, List.length_nil] at this
      rw [he, this]

end Rivaas.CompilerL
