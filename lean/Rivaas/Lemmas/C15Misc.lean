import Rivaas.Lemmas.C15Final
/-
Helper lemmas for C15, part 7: the encoding the writer was set up with never changes
(`lemma_finalCW_enc`), and the plain writer honours io.Writer (`lemma_plain_contract`), also
through io.Copy's loop.
-/
namespace Rivaas.C15
open Rivaas.Http Rivaas.Compress Rivaas.CompressSpec


theorem lemma_write_enc (sn : Sniff) (w : CW) (d : Bytes) : (w.write sn d).1.enc = w.enc := by
  unfold CW.write
  simp only [lemma_implicitOK]
  have h := lemma_writeHeader_enc w 200
  generalize w.writeHeader 200 = w' at h ⊢
  split
  · split <;> simpa using h
  · split
    · simpa using h
    · simp only; rw [lemma_start_enc]; exact h

theorem lemma_flush_enc (sn : Sniff) (w : CW) : (w.flush sn).enc = w.enc := by
  unfold CW.flush
  simp only [lemma_implicitOK]
  have h := lemma_writeHeader_enc w 200
  generalize w.writeHeader 200 = w' at h ⊢
  simp only [apply_ite CW.enc, lemma_start_enc, h, ite_self]

theorem lemma_close_enc (sn : Sniff) (w : CW) : (w.close sn).enc = w.enc := by
  unfold CW.close
  simp only [apply_ite CW.enc, ite_self]
  split
  · exact lemma_start_enc sn w _ _
  · rfl

theorem lemma_copy_enc (sn : Sniff) (cs : List Bytes) :
    ∀ (w : CW) (acc : Nat), (copyLoop (CW.write sn) w cs acc).1.enc = w.enc := by
  induction cs with
  | nil => intro w acc; rfl
  | cons c cs ih =>
    intro w acc
    unfold copyLoop
    split
    · exact ih w acc
    · simp only
      split
      · exact lemma_write_enc sn w c
      · split
        · exact lemma_write_enc sn w c
        · split
          · exact lemma_write_enc sn w c
          · rw [ih]; exact lemma_write_enc sn w c

theorem lemma_step_enc (sn : Sniff) (w : CW) (o : Op) : (CW.step sn w o).1.enc = w.enc := by
  unfold CW.step
  split
  · rfl
  · cases o with
    | setH k vs => rfl
    | delH k => rfl
    | writeHeader c => exact lemma_writeHeader_enc w c
    | write d => exact lemma_write_enc sn w d
    | flush => exact lemma_flush_enc sn w
    | copy cs => exact lemma_copy_enc sn cs w 0
    | panic => exact lemma_close_enc sn w

theorem lemma_runOps_enc (sn : Sniff) (ops : List Op) :
    ∀ w : CW, (runOps (CW.step sn) w ops).1.enc = w.enc := by
  induction ops with
  | nil => intro w; rfl
  | cons o os ih => intro w; simp only [runOps]; rw [ih, lemma_step_enc]

theorem lemma_finalCW_enc (sn : Sniff) (cfg : Cfg) (enc : Bytes) (h0 : Hdrs) (ops : List Op) :
    (finalCW sn cfg enc h0 ops).1.enc = enc := by
  unfold finalCW
  simp only
  split
  · rw [lemma_runOps_enc]
  · rw [lemma_close_enc, lemma_runOps_enc]


/-- a model result as the harness reports it (fully observed) -/
def toObs (o : WOut) : OutObs := ⟨1, o.n, o.err⟩

theorem lemma_base_write_out (sn : Sniff) (b : Base) (d : Bytes) :
    (b.write sn d).2 = ⟨d.length, .ok⟩ ∨ (b.write sn d).2 = ⟨0, .bodyNotAllowed⟩ := by
  cases b with
  | mk live wrote status snap sent ctype pend body panicked =>
    by_cases hd : d = []
    · subst hd; left
      by_cases hw : wrote = true <;> simp [Base.write, hw]
    · have hd' : d.isEmpty = false := by
        cases d with
        | nil => exact absurd rfl hd
        | cons x xs => rfl
      by_cases hw : wrote = true
      · by_cases hn : noBody status = true
        · right; simp [Base.write, hw, hd', hn]
        · left; simp [Base.write, hw, hd', hn]
      · left
        simp [Base.write, Base.writeHeader, hw, hd', validCode, informational, noBody]

/-- io.Copy over a writer that honours io.Writer: never more than offered, everything unless an error is reported -/
theorem lemma_copyLoop_out {σ : Type} (f : σ → Bytes → σ × WOut)
    (hf : ∀ s d, (f s d).2 = ⟨d.length, .ok⟩ ∨ ((f s d).2.err ≠ .ok ∧ (f s d).2.n ≤ d.length)) :
    ∀ (cs : List Bytes) (s : σ) (acc : Nat),
      (copyLoop f s cs acc).2.n ≤ acc + (cs.map List.length).sum ∧
      ((copyLoop f s cs acc).2.err = .ok → (copyLoop f s cs acc).2.n = acc + (cs.map List.length).sum) := by
  intro cs
  induction cs with
  | nil => intro s acc; simp [copyLoop]
  | cons c cs ih =>
    intro s acc
    unfold copyLoop
    by_cases hc : c.isEmpty = true
    · have : c = [] := by simpa using hc
      subst this
      simp only [List.isEmpty_nil, if_true, List.map_cons, List.length_nil, List.sum_cons, Nat.zero_add]
      exact ih s acc
    · have hc' : c.isEmpty = false := by simpa using hc
      simp only [hc', Bool.false_eq_true, if_false, List.map_cons, List.sum_cons]
      rcases hf s c with h | ⟨h1, h2⟩
      · rw [h]
        simp only [Nat.lt_irrefl, if_false, bne_self_eq_false, Bool.false_eq_true]
        obtain ⟨i1, i2⟩ := ih (f s c).1 (acc + c.length)
        exact ⟨by omega, fun e => by rw [i2 e]; omega⟩
      · by_cases c1 : (f s c).2.n > c.length
        · exact absurd c1 (by omega)
        · simp only [c1, if_false]
          have c2 : ((f s c).2.err != Err.ok) = true := by simpa using h1
          simp only [c2, if_true]
          exact ⟨by omega, fun e => absurd e h1⟩

theorem lemma_plain_contract (sn : Sniff) (ops : List Op) :
    ∀ b : Base, writeContract (writeLens ops) ((runOps (plainStep sn) b ops).2.map toObs) = true := by
  induction ops with
  | nil => intro b; rfl
  | cons o os ih =>
    intro b
    cases o with
    | setH k vs => simpa [runOps, plainStep, writeLens] using ih _
    | delH k => simpa [runOps, plainStep, writeLens] using ih _
    | writeHeader c => simpa [runOps, plainStep, writeLens] using ih _
    | flush => simpa [runOps, plainStep, writeLens] using ih _
    | panic => simpa [runOps, plainStep, writeLens] using ih _
    | write d =>
      simp only [runOps, plainStep, writeLens, List.singleton_append, List.map_cons, writeContract,
        Bool.and_eq_true]
      refine ⟨?_, ih _⟩
      rcases lemma_base_write_out sn b d with h | h <;> rw [h] <;> simp [toObs, outOK]
    | copy cs =>
      simp only [runOps, plainStep, writeLens, List.singleton_append, List.map_cons, writeContract,
        Bool.and_eq_true]
      refine ⟨?_, ih _⟩
      obtain ⟨h1, h2⟩ := lemma_copyLoop_out (Base.write sn) (fun s d => by
        rcases lemma_base_write_out sn s d with h | h
        · exact Or.inl h
        · right; rw [h]; exact ⟨by simp, by simp⟩) cs b 0
      simp only [Nat.zero_add] at h1 h2
      simp only [toObs, outOK, bne_self_eq_false, Bool.false_or, Bool.or_eq_true, Bool.and_eq_true,
        beq_iff_eq, bne_iff_ne, ne_eq, decide_eq_true_eq]
      by_cases he : (copyLoop (Base.write sn) b cs 0).2.err = Err.ok
      · exact Or.inl ⟨he, h2 he⟩
      · exact Or.inr ⟨he, decide_eq_true h1⟩

theorem lemma_writeHeader_panicked (b : Base) (c : Nat) (hc : validCode c = true) :
    (b.writeHeader c).panicked = b.panicked := by
  unfold Base.writeHeader
  split
  · rfl
  · simp only [hc, Bool.not_true, Bool.false_eq_true, if_false]
    split <;> rfl

theorem lemma_emit_panicked (sn : Sniff) (b : Base) (p : Bytes) : (b.emit sn p).panicked = b.panicked := by
  unfold Base.emit
  split <;> rfl

theorem lemma_write_panicked (sn : Sniff) (b : Base) (d : Bytes) : (b.write sn d).1.panicked = b.panicked := by
  rw [lemma_base_write_norm]
  have h := lemma_writeHeader_panicked b 200 (by decide)
  have hw : (b.writeHeader 200).wrote = true := by
    unfold Base.writeHeader
    split
    · assumption
    · simp [validCode, informational]
  generalize b.writeHeader 200 = b' at h hw ⊢
  unfold Base.write
  simp only [hw, if_true]
  split
  · exact h
  · split
    · exact h
    · simp only
      split
      · rw [lemma_emit_panicked]; exact h
      · split <;> exact h

theorem lemma_flush_panicked (sn : Sniff) (b : Base) : (b.flush sn).panicked = b.panicked := by
  have := lemma_finish_panicked sn b
  exact this

theorem lemma_copy_panicked (sn : Sniff) (cs : List Bytes) :
    ∀ (b : Base) (acc : Nat), (copyLoop (Base.write sn) b cs acc).1.panicked = b.panicked := by
  induction cs with
  | nil => intro b acc; rfl
  | cons c cs ih =>
    intro b acc
    unfold copyLoop
    split
    · exact ih b acc
    · simp only
      split
      · exact lemma_write_panicked sn b c
      · split
        · exact lemma_write_panicked sn b c
        · split
          · exact lemma_write_panicked sn b c
          · rw [ih]; exact lemma_write_panicked sn b c

/-- the bare writer does not panic on a program whose status codes are acceptable -/
theorem lemma_plain_no_panic (sn : Sniff) (h0 : Hdrs) (ops : List Op) (hv : ∀ o ∈ ops, OpValid o) :
    (runPlain sn h0 ops).1.panicked = false := by
  unfold runPlain
  simp only
  rw [show ∀ b : Base, (b.finish sn).panicked = b.panicked from lemma_finish_panicked sn]
  have : ∀ (ops : List Op) (b : Base), (∀ o ∈ ops, OpValid o) → b.panicked = false →
      (runOps (plainStep sn) b ops).1.panicked = false := by
    intro ops
    induction ops with
    | nil => intro b _ h; exact h
    | cons o os ih =>
      intro b hv h
      simp only [runOps]
      apply ih _ (fun o' ho' => hv o' (List.mem_cons_of_mem _ ho'))
      have ho := hv o (List.mem_cons_self ..)
      cases o with
      | setH k vs => exact h
      | delH k => exact h
      | writeHeader c => simp only [plainStep]; rw [lemma_writeHeader_panicked b c ho.1]; exact h
      | write d => simp only [plainStep]; rw [lemma_write_panicked]; exact h
      | flush => simp only [plainStep]; rw [lemma_flush_panicked]; exact h
      | copy cs => simp only [plainStep]; rw [lemma_copy_panicked]; exact h
      | panic => exact h
  exact this ops { live := h0 } hv rfl

end Rivaas.C15
