import Rivaas.Lemmas.CompilerStatic
/-
C11, engine level: the per-tree table + tree stage of the compiled engine is the tree engine, and the
version cache is invisible for every bloom configuration.
-/
namespace Rivaas.CompilerL
open Rivaas.Route Rivaas.Radix Rivaas.Compiler Rivaas.Match Rivaas.RadixL

theorem getT_fold_other (R : List Route) (m : Bytes) (h : ∀ r ∈ R, r.method ≠ m) (r0 : Router) :
    getT (R.foldl registerR r0).trees m = getT r0.trees m := by
  induction R generalizing r0 with
  | nil => rfl
  | cons r rest ih =>
    simp only [List.foldl_cons]
    rw [ih (fun x hx => h x (List.mem_cons_of_mem _ hx))]
    simp only [registerR]
    rw [getT_setTree]
    have : ¬ m = r.method := fun e => h r (List.mem_cons_self ..) e.symm
    simp [this]

/-- the method trees of the built router, for any method text -/
theorem getT_build (noRoute : Bool) (script : List Reg) (R : List Route) (hR : specRoutes script = some R)
    (hstd : ∀ r ∈ R, r.method ∈ stdMethods) (m : Bytes) :
    getT (build noRoute script).trees m = if R.filter (·.method = m) = [] then none else some (treeFor R m) := by
  by_cases hm : m ∈ stdMethods
  · rw [← treeOf_eq _ _ hm]
    exact treeOf_build noRoute script R hR m hm
  · have hf : R.filter (·.method = m) = [] := by
      apply List.filter_eq_nil_iff.mpr
      intro r hr hc
      simp only [decide_eq_true_eq] at hc
      rw [← hc] at hm
      exact hm (hstd r hr)
    unfold build
    rw [buildFrom_eq script 0 R hR, getT_fold_other R m]
    · simp [hf, getT]
    · intro r hr e
      rw [← e] at hm
      exact hm (hstd r hr)

/-- a `staticPaths` entry carries its own key as path -/
theorem statics_leaf_path (R : List Route) (m : Bytes) (path : Bytes) (lf : Leaf)
    (h : getStatic path (staticsOf R m) = some lf) : lf.path = path ∧ ∃ r ∈ R, inTree r = false ∧ r.text = path := by
  obtain ⟨hnd, hmem⟩ := staticsOf_inv R m
  have hl := lastSome_unique path _ hnd
  rw [h] at hl
  obtain ⟨x, hx, hfx⟩ := RadixL.lastSome_some _ _ _ hl
  obtain ⟨r, hr, _, ht, rfl⟩ := hmem x hx
  by_cases he : r.text = path
  · simp only [he, if_true, Option.map_some, Option.some.injEq, Prod.mk.injEq, true_and] at hfx
    rw [← hfx]
    exact ⟨he, r, hr, ht, he⟩
  · simp [he] at hfx

/-- **Stage 3 of the compiled engine is the tree engine.** The per-tree table (any bloom size, any
number of hash functions) followed by `getRoute` answers exactly like `getRoute` alone. -/
theorem stage3_eq (hash : Bytes → Nat) (sat : Nat → Bytes → Bool) (R : List Route)
    (hR : ∀ r ∈ R, NormalPat r.text r.pat) (m : Bytes) (size k : Nat) (req : Req) (r : Router)
    (hinj : InjOn hash (req.path :: R.map (·.text))) :
    (match (mainTable hash size k (treeFor R m)).get hash req.path with
     | some (_, lf) => servedTable lf req.path req
     | none =>
       match getRoute sat (treeFor R m) req.path Ctx.fresh with
       | (some lf, ctx) => served lf ctx req
       | (none, _) => notFound sat r req) =
    (match getRoute sat (treeFor R m) req.path Ctx.fresh with
     | (some lf, ctx) => served lf ctx req
     | (none, _) => notFound sat r req) := by
  have hget : (mainTable hash size k (treeFor R m)).get hash req.path =
      (getStatic req.path (staticsOf R m)).map fun lf => (req.path, lf) := by
    unfold mainTable
    rw [fillTable_eq, treeFor_char R hR m]
    exact table_get_statics hash R hR m _ req.path hinj
  rw [hget]
  cases hs : getStatic req.path (staticsOf R m) with
  | none => rfl
  | some lf =>
    simp only [Option.map_some]
    obtain ⟨hlp, r', hr', ht', htx⟩ := statics_leaf_path R m req.path lf hs
    have hgood := static_text_good r' (hR r' hr') ht'
    rw [htx] at hgood
    have hnr : ¬ (req.path = ['/'] ∨ req.path = []) := by
      intro h; rcases h with h | h
      · exact hgood.2.2 h
      · exact hgood.1 h
    have hgr : getRoute sat (treeFor R m) req.path Ctx.fresh = (some lf, Ctx.fresh) := by
      rw [treeFor_char R hR m]
      simp only [getRoute, getRouteGen, hnr, if_false, hs]
    rw [hgr]
    simp only [servedTable, served, hlp, hgood.1, if_false]
    have h1 : Ctx.fresh.all = [] := rfl
    have h2 : ∀ n, Ctx.fresh.param n = [] := fun _ => rfl
    simp only [h1, h2]

/-- the table compiled from a method tree answers like the list of its parameter-free routes, for every
bloom configuration -/
theorem versionTable_get (hash : Bytes → Nat) (size k : Nat) (R : List Route)
    (hN : ∀ r ∈ R, NormalPat r.text r.pat) (m path : Bytes) (hinj : InjOn hash (path :: R.map (·.text))) :
    (versionTable hash size k (treeFor R m)).bind (·.get hash path) =
      (getStatic path (staticsOf R m)).map fun lf => (path, lf) := by
  have htg : ∀ b0, (fillTable hash (treeFor R m) ⟨[], b0⟩).get hash path =
      (getStatic path (staticsOf R m)).map fun lf => (path, lf) := by
    intro b0
    rw [fillTable_eq, treeFor_char R hN m]
    exact table_get_statics hash R hN m _ path hinj
  unfold versionTable
  by_cases hc : countStatic (treeFor R m) = 0
  · rw [if_pos hc]
    have : staticsOf R m = [] := by
      have hcs : (treeFor R m).statics.length = 0 := by
        unfold countStatic at hc; omega
      rw [treeFor_char R hN m] at hcs
      exact List.eq_nil_of_length_eq_zero hcs
    rw [this]; rfl
  · rw [if_neg hc]
    dsimp only
    generalize (if size = 1000 then optimalBloom (countStatic (treeFor R m)) else size) = sz
    by_cases hempty : (fillTable hash (treeFor R m) ⟨[], Bloom.new sz k⟩).routes.isEmpty = true
    · rw [if_pos hempty]
      show none = _
      rw [← htg (Bloom.new sz k)]
      have hok : TableOK (fillTable hash (treeFor R m) ⟨[], Bloom.new sz k⟩) := by
        rw [fillTable_eq]; exact fold_ok hash _ _ (by intro h hh; simp [mapGet] at hh)
      rw [Table.get_eq hash _ hok, List.isEmpty_iff.mp hempty]
      rfl
    · rw [if_neg hempty]
      exact htg _

/-- the version cache as compiled at warm-up does not depend on the options -/
theorem versionLookup_char (hash : Bytes → Nat) (o : Opts) (W : List Reg) (R : List Route)
    (hR : specRoutes W = some R) (hN : ∀ r ∈ R, NormalPat r.text r.pat)
    (hstd : ∀ r ∈ R, r.method ∈ stdMethods) (m path : Bytes) (hinj : InjOn hash (path :: R.map (·.text))) :
    versionLookup hash o W m path =
      if R.filter (·.method = m) = [] then none
      else (getStatic path (staticsOf R m)).map fun lf => (path, lf) := by
  unfold versionLookup
  have hT := getT_build false W R hR hstd m
  unfold getT at hT
  rw [hT]
  by_cases hf : R.filter (·.method = m) = []
  · simp [hf]
  · simp only [hf, if_false, Option.bind_some]
    exact versionTable_get hash o.size o.k R hN m path hinj

theorem specRoutesFrom_take (script : List Reg) : ∀ (i : Nat) (R : List Route) (k : Nat),
    specRoutesFrom i script = some R → specRoutesFrom i (script.take k) = some (R.take k) := by
  induction script with
  | nil =>
    intro i R k h
    simp only [specRoutesFrom, Option.some.injEq] at h
    subst h; simp [specRoutesFrom]
  | cons g gs ih =>
    intro i R k h
    cases k with
    | zero => simp [specRoutesFrom]
    | succ k =>
      simp only [specRoutesFrom] at h
      cases hp : parsePattern (regText g) with
      | none => simp [hp] at h
      | some p =>
        cases hr : specRoutesFrom (i + 1) gs with
        | none => simp [hp, hr] at h
        | some rest =>
          simp only [hp, hr, Option.some.injEq] at h
          subst h
          simp only [List.take_succ_cons, specRoutesFrom, hp, ih (i + 1) rest k hr]

/-- the routes warm-up has seen are a prefix of the routes of the script -/
theorem warmed_routes (o : Opts) (script : List Reg) (R : List Route) (hR : specRoutes script = some R) :
    ∃ R', specRoutes (o.warmed script) = some R' ∧ ∀ r ∈ R', r ∈ R := by
  unfold Opts.warmed
  cases o.warmAt with
  | none => exact ⟨R, hR, fun _ h => h⟩
  | some k => exact ⟨R.take k, specRoutesFrom_take script 0 R k hR, fun _ h => List.mem_of_mem_take h⟩

/-- **The version cache is invisible**: inside a version tree the answer does not depend on the
bloom filter size, the number of hash functions, or whether route compilation is on (for the same
placement of the explicit `Warmup()` call, if any). -/
theorem versioned_transparent (hash : Bytes → Nat) (sat : Nat → Bytes → Bool) (o o' : Opts)
    (hw : o.warmAt = o'.warmAt)
    (noRoute : Bool) (script : List Reg) (R : List Route) (hR : specRoutes script = some R)
    (hN : ∀ r ∈ R, NormalPat r.text r.pat) (hstd : ∀ r ∈ R, r.method ∈ stdMethods) (req : Req)
    (hinj : InjOn hash (req.path :: R.map (·.text))) :
    serveVersioned hash sat o script noRoute req = serveVersioned hash sat o' script noRoute req := by
  obtain ⟨R', hR', hsub⟩ := warmed_routes o script R hR
  have hww : o'.warmed script = o.warmed script := by unfold Opts.warmed; rw [hw]
  have hinj' : InjOn hash (req.path :: R'.map (·.text)) := by
    intro a ha b hb hab
    apply hinj a _ b _ hab
    · simp only [List.mem_cons, List.mem_map] at ha ⊢
      rcases ha with ha | ⟨r, hr, ha⟩
      · exact Or.inl ha
      · exact Or.inr ⟨r, hsub r hr, ha⟩
    · simp only [List.mem_cons, List.mem_map] at hb ⊢
      rcases hb with hb | ⟨r, hr, hb⟩
      · exact Or.inl hb
      · exact Or.inr ⟨r, hsub r hr, hb⟩
  have h1 := versionLookup_char hash o (o.warmed script) R' hR' (fun r hr => hN r (hsub r hr))
    (fun r hr => hstd r (hsub r hr)) req.method req.path hinj'
  have h2 := versionLookup_char hash o' (o.warmed script) R' hR' (fun r hr => hN r (hsub r hr))
    (fun r hr => hstd r (hsub r hr)) req.method req.path hinj'
  unfold serveVersioned
  rw [hww, h1, h2]

end Rivaas.CompilerL
