import Rivaas.Lemmas.ComposeSound
/-
Soundness of the composition model including `Mount` (the code after the K02b fix: a mount reads the
`route.Route` objects of the sub-router, warmed up or not): `Rivaas.Compose.compose_admitted_mount`. Generalises the router invariant of `ComposeSound.lean`
from "the record a declaring op hands to its router" to "a record any op (declaration or mount)
hands to a router".
-/
namespace Rivaas.Compose

/-! ### what `Mount` hands to the parent -/

def mountRecs (w : World) (p s seg : Nat) (inh : Bool) (extra : List Hid) : List RouteRec :=
  match w.routers[p]?, w.routers[s]? with
  | some pr, some sr =>
    let f := fun (rt : RouteRec) =>
      ({ ver := none, path := seg :: rt.path, hs := ((if inh then pr.mw else []) ++ sr.mw ++ extra) ++ rt.hs } : RouteRec)
    sr.objs.map f
  | _, _ => []

theorem mountOp_eq (w : World) (p s seg : Nat) (inh : Bool) (extra : List Hid) :
    mountOp w p s seg inh extra = (mountRecs w p s seg inh extra).foldl (fun w rt => w.addRouteOn p rt) w := by
  unfold mountOp mountRecs
  cases w.routers[p]? with
  | none => rfl
  | some pr =>
    cases w.routers[s]? with
    | none => rfl
    | some sr => simp only [List.foldl_map]

/-- the records op hands to routers -/
def handed (w : World) (op : Op) : List (Nat × RouteRec) :=
  match op with
  | .mount p s seg inh extra => (mountRecs w p s seg inh extra).map fun rt => (p, rt)
  | _ => (routeRecOf w op).toList

def Handed (script : List Op) (i r : Nat) (rec : RouteRec) : Prop :=
  ∃ op, script[i]? = some op ∧ (r, rec) ∈ handed (W script i) op

theorem modifyAt_modifyAt {α} (l : List α) (i : Nat) (f g : α → α) :
    modifyAt (modifyAt l i f) i g = modifyAt l i (fun x => g (f x)) := by
  induction l generalizing i with
  | nil => rfl
  | cons a r ih => cases i <;> simp [modifyAt, ih]

theorem modifyAt_id {α} (l : List α) (i : Nat) : modifyAt l i (fun x => x) = l := by
  induction l generalizing i with
  | nil => rfl
  | cons a r ih => cases i <;> simp [modifyAt, ih]

theorem foldl_addRouteOn_routers (recs : List RouteRec) (p : Nat) (w : World) :
    (recs.foldl (fun w rt => w.addRouteOn p rt) w).routers =
      modifyAt w.routers p (fun x => recs.foldl addRoute x) := by
  induction recs generalizing w with
  | nil => simp [modifyAt_id]
  | cons a l ih =>
    simp only [List.foldl_cons]
    rw [ih]
    simp [World.addRouteOn, modifyAt_modifyAt]

theorem addRoute_fields (rs : RouterSt) (rt : RouteRec) :
    (addRoute rs rt).mw = rs.mw ∧ (addRoute rs rt).warmed = rs.warmed := by
  unfold addRoute
  by_cases hw : rs.warmed = true
  · simp [hw, register]
  · have hw' : rs.warmed = false := by simpa using hw
    simp [hw']

theorem foldl_addRoute (recs : List RouteRec) (rs : RouterSt) (hne : recs ≠ []) :
    recs.foldl addRoute rs =
      if rs.warmed then
        { rs with hasInfo := true, objs := rs.objs ++ recs,
                  tree := rs.tree ++ recs.map fun rt => { rt with hs := rs.mw ++ rt.hs } }
      else { rs with hasInfo := true, objs := rs.objs ++ recs, pending := rs.pending ++ recs } := by
  induction recs generalizing rs with
  | nil => exact (hne rfl).elim
  | cons a l ih =>
    simp only [List.foldl_cons]
    have hf := addRoute_fields rs a
    cases l with
    | nil =>
      simp only [List.foldl_nil]
      unfold addRoute
      by_cases hw : rs.warmed = true
      · simp [hw, register]
      · have hw' : rs.warmed = false := by simpa using hw
        simp [hw']
    | cons b l' =>
      rw [ih (addRoute rs a) (by simp)]
      unfold addRoute
      by_cases hw : rs.warmed = true
      · simp [hw, register]
      · have hw' : rs.warmed = false := by simpa using hw
        simp [hw']

/-! ### the router invariant, with records handed over by any op -/

structure RInvM (script : List Op) (t r : Nat) (rs : RouterSt) : Prop where
  mw : rs.mw = usesB script (selUse r) t
  pend : ∀ rec ∈ rs.pending, ∃ i, i < t ∧ Handed script i r rec
  tree : ∀ rec ∈ rs.tree, ∃ i rec0 treg, i < t ∧ i ≤ treg ∧ treg ≤ t ∧ Handed script i r rec0 ∧
    rec = regRec script r treg rec0
  pres : ∀ i rec0, i < t → Handed script i r rec0 → r < (W script i).routers.length →
    rec0 ∈ rs.pending ∨ ∃ treg, i ≤ treg ∧ treg ≤ t ∧ regRec script r treg rec0 ∈ rs.tree
  warmed : rs.warmed = true → rs.pending = []
  cold : rs.warmed = false → rs.tree = []
  objs : ∀ rec ∈ rs.objs, ∃ i, i < t ∧ Handed script i r rec
  /-- every record ever handed to the router is one of its route objects (what `Mount` reads) -/
  opres : ∀ i rec0, i < t → Handed script i r rec0 → r < (W script i).routers.length → rec0 ∈ rs.objs

section
variable (script : List Op) (t : Nat) (htl : t < script.length)
include htl

theorem handed_at (r : Nat) (rec : RouteRec) :
    Handed script t r rec ↔ (r, rec) ∈ handed (W script t) script[t] := by
  unfold Handed
  rw [List.getElem?_eq_getElem htl]
  constructor
  · rintro ⟨op, h1, h2⟩; cases h1; exact h2
  · intro h; exact ⟨_, rfl, h⟩

/-- the op neither hands this router a record nor warms it up; it may attach middleware `hs` -/
theorem rinvM_keep (r : Nat) (rs rs' : RouterSt) (h : RInvM script t r rs) (hs : List Hid)
    (hsel : (selUse r script[t]).getD [] = hs) (hnone : ∀ rec, ¬ Handed script t r rec)
    (h1 : rs'.mw = rs.mw ++ hs) (h2 : rs'.pending = rs.pending) (h3 : rs'.tree = rs.tree)
    (h4 : rs'.warmed = rs.warmed) (h5 : rs'.objs = rs.objs) : RInvM script (t + 1) r rs' where
  mw := by rw [h1, h.mw, usesB_succ _ _ _ htl, hsel]
  pend := by
    intro rec hr
    rw [h2] at hr
    obtain ⟨i, a, b⟩ := h.pend rec hr
    exact ⟨i, by omega, b⟩
  tree := by
    intro rec hr
    rw [h3] at hr
    obtain ⟨i, rec0, treg, a, b, c, d, e⟩ := h.tree rec hr
    exact ⟨i, rec0, treg, by omega, b, by omega, d, e⟩
  pres := by
    intro i rec0 a b c
    rw [h2, h3]
    rcases Nat.lt_or_ge i t with hlt | hge
    · rcases h.pres i rec0 hlt b c with hp | ⟨treg, x, y, z⟩
      · exact Or.inl hp
      · exact Or.inr ⟨treg, x, by omega, z⟩
    · have : i = t := by omega
      subst this
      exact (hnone rec0 b).elim
  warmed := by rw [h4, h2]; exact h.warmed
  cold := by rw [h4, h3]; exact h.cold
  objs := by
    intro rec hr
    rw [h5] at hr
    obtain ⟨i, a, b⟩ := h.objs rec hr
    exact ⟨i, by omega, b⟩
  opres := by
    intro i rec0 a b c
    rw [h5]
    rcases Nat.lt_or_ge i t with hlt | hge
    · exact h.opres i rec0 hlt b c
    · have : i = t := by omega
      subst this
      exact (hnone rec0 b).elim

/-- `Warmup` of this router -/
theorem rinvM_warm (r : Nat) (rs : RouterSt) (h : RInvM script t r rs)
    (hsel : selUse r script[t] = none) (hnone : ∀ rec, ¬ Handed script t r rec) :
    RInvM script (t + 1) r (warmup rs) := by
  unfold warmup
  by_cases hw : rs.warmed = true
  · simp only [hw, if_true]
    exact rinvM_keep script t htl r rs rs h [] (by rw [hsel]; rfl) hnone (by simp) rfl rfl rfl rfl
  · have hw' : rs.warmed = false := by simpa using hw
    simp only [hw', Bool.false_eq_true, if_false]
    rw [foldl_register]
    have hk := rinvM_keep script t htl r rs rs h [] (by rw [hsel]; rfl) hnone (by simp) rfl rfl rfl rfl
    refine ⟨hk.mw, by simp, ?_, ?_, by simp, by simp, hk.objs, hk.opres⟩
    · intro rec hr
      simp only [List.mem_append, List.mem_map] at hr
      rcases hr with hr | ⟨rt, hrt, rfl⟩
      · exact hk.tree rec hr
      · obtain ⟨i, a, b⟩ := h.pend rt hrt
        exact ⟨i, rt, t, by omega, by omega, by omega, b, by simp [regRec, h.mw]⟩
    · intro i rec0 a b c
      rcases hk.pres i rec0 a b c with hp | ⟨treg, x, y, z⟩
      · refine Or.inr ⟨t, ?_, by omega, ?_⟩
        · rcases Nat.lt_or_ge i t with hlt | hge
          · omega
          · have : i = t := by omega
            subst this
            exact (hnone rec0 b).elim
        · simp only [List.mem_append, List.mem_map]
          exact Or.inr ⟨rec0, hp, by simp [regRec, h.mw]⟩
      · exact Or.inr ⟨treg, x, y, by simp only [List.mem_append]; exact Or.inl z⟩

/-- the op hands this router exactly the records `recs` -/
theorem rinvM_add (r : Nat) (rs : RouterSt) (h : RInvM script t r rs) (recs : List RouteRec)
    (hsel : selUse r script[t] = none) (hrecs : ∀ rec, Handed script t r rec ↔ rec ∈ recs) :
    RInvM script (t + 1) r (recs.foldl addRoute rs) := by
  by_cases hne : recs = []
  · subst hne
    exact rinvM_keep script t htl r rs rs h [] (by rw [hsel]; rfl)
      (by intro rec hx; have := (hrecs rec).mp hx; simp at this) (by simp) rfl rfl rfl rfl
  · rw [foldl_addRoute recs rs hne]
    have hmw : usesB script (selUse r) (t + 1) = usesB script (selUse r) t := by
      rw [usesB_succ _ _ _ htl, hsel]; simp
    by_cases hw : rs.warmed = true
    · simp only [hw, if_true]
      have hp := h.warmed hw
      refine ⟨by simp only []; rw [h.mw, hmw], ?_, ?_, ?_, fun _ => hp, fun hx => by simp [hw] at hx, (by
        intro rc hr
        simp only [List.mem_append] at hr
        rcases hr with hr | hr
        · obtain ⟨i, a, b⟩ := h.objs rc hr
          exact ⟨i, by omega, b⟩
        · exact ⟨t, by omega, (hrecs rc).mpr hr⟩), (by
        intro i rec0 a b c
        simp only [List.mem_append]
        rcases Nat.lt_or_ge i t with hlt | hge
        · exact Or.inl (h.opres i rec0 hlt b c)
        · have : i = t := by omega
          subst this
          exact Or.inr ((hrecs rec0).mp b))⟩
      · intro rc hr; simp only [] at hr; rw [hp] at hr; simp at hr
      · intro rc hr
        simp only [List.mem_append, List.mem_map] at hr
        rcases hr with hr | ⟨rt, hrt, rfl⟩
        · obtain ⟨i, rec0, treg, a, b, c, d, e⟩ := h.tree rc hr
          exact ⟨i, rec0, treg, by omega, b, by omega, d, e⟩
        · exact ⟨t, rt, t, by omega, by omega, by omega, (hrecs rt).mpr hrt, by simp [regRec, h.mw]⟩
      · intro i rec0 a b c
        rcases Nat.lt_or_ge i t with hlt | hge
        · rcases h.pres i rec0 hlt b c with hq | ⟨treg, x, y, z⟩
          · rw [hp] at hq; simp at hq
          · exact Or.inr ⟨treg, x, by omega, by simp only [List.mem_append]; exact Or.inl z⟩
        · have : i = t := by omega
          subst this
          refine Or.inr ⟨i, by omega, by omega, ?_⟩
          simp only [List.mem_append, List.mem_map]
          exact Or.inr ⟨rec0, (hrecs rec0).mp b, by simp [regRec, h.mw]⟩
    · have hw' : rs.warmed = false := by simpa using hw
      simp only [hw', Bool.false_eq_true, if_false]
      refine ⟨by simp only []; rw [h.mw, hmw], ?_, ?_, ?_, fun hx => by simp [hw'] at hx, fun _ => h.cold hw', (by
        intro rc hr
        simp only [List.mem_append] at hr
        rcases hr with hr | hr
        · obtain ⟨i, a, b⟩ := h.objs rc hr
          exact ⟨i, by omega, b⟩
        · exact ⟨t, by omega, (hrecs rc).mpr hr⟩), (by
        intro i rec0 a b c
        simp only [List.mem_append]
        rcases Nat.lt_or_ge i t with hlt | hge
        · exact Or.inl (h.opres i rec0 hlt b c)
        · have : i = t := by omega
          subst this
          exact Or.inr ((hrecs rec0).mp b))⟩
      · intro rc hr
        simp only [List.mem_append] at hr
        rcases hr with hr | hr
        · obtain ⟨i, a, b⟩ := h.pend rc hr
          exact ⟨i, by omega, b⟩
        · exact ⟨t, by omega, (hrecs rc).mpr hr⟩
      · intro rc hr
        obtain ⟨i, rec0, treg, a, b, c, d, e⟩ := h.tree rc hr
        exact ⟨i, rec0, treg, by omega, b, by omega, d, e⟩
      · intro i rec0 a b c
        rcases Nat.lt_or_ge i t with hlt | hge
        · rcases h.pres i rec0 hlt b c with hq | ⟨treg, x, y, z⟩
          · exact Or.inl (by simp only [List.mem_append]; exact Or.inl hq)
          · exact Or.inr ⟨treg, x, by omega, z⟩
        · have : i = t := by omega
          subst this
          exact Or.inl (by simp only [List.mem_append]; exact Or.inr ((hrecs rec0).mp b))

/-- `rt.Where…` on a route of this router -/
theorem rinvM_rereg (r : Nat) (rs : RouterSt) (h : RInvM script t r rs) (ver : Option Nat) (path : Path)
    (hsel : selUse r script[t] = none) (hnone : ∀ rec, ¬ Handed script t r rec) :
    RInvM script (t + 1) r (reRegister ver path rs) := by
  have hk := rinvM_keep script t htl r rs rs h [] (by rw [hsel]; rfl) hnone (by simp) rfl rfl rfl rfl
  unfold reRegister
  cases hf : rs.objs.find? (fun o => o.ver == ver && o.path == path) with
  | none => exact hk
  | some o =>
    simp only []
    by_cases ha : rs.tree.any (fun rt => rt.ver == ver && rt.path == path) = true
    · simp only [ha, if_true, register]
      obtain ⟨i, a1, a2⟩ := h.objs o (List.mem_of_find?_eq_some hf)
      have hwarm : rs.warmed = true := by
        cases hw : rs.warmed with
        | true => rfl
        | false => rw [h.cold hw] at ha; simp at ha
      refine ⟨hk.mw, hk.pend, ?_, ?_, hk.warmed, fun hx => by simp [hwarm] at hx, hk.objs, hk.opres⟩
      · intro rc hr
        simp only [List.mem_append, List.mem_singleton] at hr
        rcases hr with hr | rfl
        · exact hk.tree rc hr
        · exact ⟨i, o, t, by omega, by omega, by omega, a2, by simp [regRec, h.mw]⟩
      · intro i' rec0 b1 b2 b3
        rcases hk.pres i' rec0 b1 b2 b3 with hp | ⟨treg, x, y, z⟩
        · exact Or.inl hp
        · exact Or.inr ⟨treg, x, y, by simp only [List.mem_append]; exact Or.inl z⟩
    · simp only [ha]
      exact hk

end

/-! ### one step on the routers, `Mount` included -/

inductive RStepM (w : World) (op : Op) (rs' : List RouterSt) : Prop
  | new : op = .newRouter → rs' = w.routers ++ [({} : RouterSt)] → handed w op = [] → RStepM w op rs'
  | use (r : Nat) (hs : List Hid) : selUse r op = some hs → (∀ r', r' ≠ r → selUse r' op = none) →
      rs' = modifyAt w.routers r (fun x => { x with mw := x.mw ++ hs }) → handed w op = [] → RStepM w op rs'
  | warm (r : Nat) : op = .warmup r → rs' = modifyAt w.routers r warmup → handed w op = [] → RStepM w op rs'
  | rereg (r : Nat) (ver : Option Nat) (path : Path) : op = .whereOp r ver path →
      rs' = modifyAt w.routers r (reRegister ver path) → handed w op = [] → RStepM w op rs'
  | hand (p : Nat) (recs : List RouteRec) : handed w op = recs.map (fun rt => (p, rt)) →
      (∀ r', selUse r' op = none) → rs' = modifyAt w.routers p (fun x => recs.foldl addRoute x) →
      op ≠ .newRouter → (∀ r, op ≠ .warmup r) → RStepM w op rs'

theorem handed_nomount (w : World) (op : Op) (h : isMount op = false) : handed w op = (routeRecOf w op).toList := by
  cases op <;> first | rfl | (simp [isMount, isMountOp] at h)

theorem rstepM (w : World) (op : Op) : RStepM w op (apply w op).routers := by
  by_cases hm : isMount op = true
  · cases op <;> simp [isMount, isMountOp] at hm
    case mount p s seg inh extra =>
      refine .hand p (mountRecs w p s seg inh extra) rfl (fun _ => rfl) ?_ (by simp) (by simp)
      show (mountOp w p s seg inh extra).routers = _
      rw [mountOp_eq, foldl_addRouteOn_routers]
  · have hm' : isMount op = false := by simpa using hm
    have hh := handed_nomount w op hm'
    cases rstep w op hm' with
    | new h1 h2 => exact .new h1 h2 (by rw [hh, h1]; rfl)
    | use r hs h1 h2 h3 h4 => exact .use r hs h1 h2 h3 (by rw [hh, h4]; rfl)
    | warm r h1 h2 => exact .warm r h1 h2 (by rw [hh, h1]; rfl)
    | route r rec h1 h2 h3 =>
      refine .hand r [rec] (by rw [hh, h1]; rfl) h2 (by rw [h3]; rfl) ?_ ?_
      · intro hx; rw [hx] at h1; simp [routeRecOf] at h1
      · intro r' hx; rw [hx] at h1; simp [routeRecOf] at h1
    | rereg r v p h1 h2 => exact .rereg r v p h1 h2 (by rw [hh, h1]; rfl)
    | same h1 h2 h3 h4 h5 =>
      exact .hand 0 [] (by rw [hh, h1]; rfl) h2 (by rw [h5]; simp [modifyAt_id]) h3 h4

theorem routers_length_M (script : List Op) :
    ∀ t, t ≤ script.length → (W script t).routers.length = 1 + cnt isNewRouter script t := by
  intro t
  induction t with
  | zero => intro _; rw [W_zero]; simp [cnt]
  | succ t ih =>
    intro ht
    have htl : t < script.length := ht
    have hs := rstepM (W script t) script[t]
    rw [← W_succ script t htl] at hs
    have hcnt := cnt_succ isNewRouter script t htl
    have ih' := ih (Nat.le_of_lt htl)
    cases hs with
    | new h1 h2 _ => rw [h2, hcnt, h1]; simp [isNewRouter, isNewRouterOp, ih']; omega
    | use r hs h1 h2 h3 _ =>
      have : isNewRouter script[t] = false := by
        cases hop : script[t] <;> simp [isNewRouter, isNewRouterOp] <;> rw [hop] at h1 <;> simp [selUse] at h1
      rw [h3, modifyAt_length, hcnt, this, ih']; simp
    | warm r h1 h2 _ => rw [h2, modifyAt_length, hcnt, h1, ih']; simp [isNewRouter, isNewRouterOp]
    | rereg r v p h1 h2 _ => rw [h2, modifyAt_length, hcnt, h1, ih']; simp [isNewRouter, isNewRouterOp]
    | hand p recs h1 h2 h3 h4 h5 =>
      have : isNewRouter script[t] = false := by
        cases hop : script[t] <;> simp [isNewRouter, isNewRouterOp]
        exact h4 hop
      rw [h3, modifyAt_length, hcnt, this, ih']; simp

/-- only the serving router is ever warmed up explicitly -/
def SubsCold (script : List Op) : Prop := ∀ op ∈ script, ∀ r, op = .warmup r → r = 0

theorem rinvM (script : List Op) (hwf : WFR script) :
    ∀ t, t ≤ script.length → ∀ r rs, (W script t).routers[r]? = some rs → RInvM script t r rs := by
  intro t
  induction t with
  | zero =>
    intro _ r rs h
    rw [W_zero] at h
    have : r = 0 ∧ rs = {} := by
      cases r with
      | zero => simp at h; exact ⟨rfl, h.symm⟩
      | succ r => simp at h
    obtain ⟨rfl, rfl⟩ := this
    exact ⟨by simp [usesB_zero], by simp, by simp, by intro i rec0 h2; omega, by simp, by simp, by simp,
      by intro i rec0 h2; omega⟩
  | succ t ih =>
    intro ht r rs hr
    have htl : t < script.length := ht
    have ih' := ih (Nat.le_of_lt htl)
    have hs := rstepM (W script t) script[t]
    rw [← W_succ script t htl] at hs
    have hlen := routers_length_M script t (Nat.le_of_lt htl)
    have hH := handed_at script t htl
    cases hs with
    | new h1 h2 h3 =>
      rw [h2] at hr
      have hsel : ∀ r', selUse r' script[t] = none := by intro r'; rw [h1]; rfl
      have hnone : ∀ r' rec, ¬ Handed script t r' rec := by
        intro r' rec hx; rw [hH, h3] at hx; simp at hx
      rcases Nat.lt_or_ge r (W script t).routers.length with hlt | hge
      · rw [List.getElem?_append_left hlt] at hr
        exact rinvM_keep script t htl r rs rs (ih' r rs hr) [] (by rw [hsel]; rfl) (hnone r) (by simp) rfl rfl rfl rfl
      · rw [List.getElem?_append_right hge] at hr
        have hr0 : r = (W script t).routers.length := by
          cases hx : r - (W script t).routers.length with
          | zero => omega
          | succ j => rw [hx] at hr; simp at hr
        simp [hr0] at hr
        subst hr
        refine ⟨?_, by simp, by simp, ?_, by simp, by simp, by simp, ?_⟩
        · show ([] : List Hid) = _
          rw [usesB_succ _ _ _ htl, hsel r, usesB_router_future_nil script hwf r t (by omega)]; rfl
        · intro i rec0 a b c
          have hli := routers_length_M script i (by omega)
          have := cnt_mono isNewRouter script i t (by omega)
          omega
        · intro i rec0 a b c
          have hli := routers_length_M script i (by omega)
          have := cnt_mono isNewRouter script i t (by omega)
          omega
    | use r0 hs h1 h2 h3 h4 =>
      have hnone : ∀ r' rec, ¬ Handed script t r' rec := by
        intro r' rec hx; rw [hH, h4] at hx; simp at hx
      rw [h3, modifyAt_getElem?] at hr
      by_cases hrr : r0 = r
      · subst hrr
        simp only [if_true] at hr
        cases hold : (W script t).routers[r0]? with
        | none => rw [hold] at hr; simp at hr
        | some rs0 =>
          rw [hold] at hr; simp at hr; subst hr
          exact rinvM_keep script t htl r0 rs0 _ (ih' r0 rs0 hold) hs (by rw [h1]; rfl) (hnone r0) rfl rfl rfl rfl rfl
      · simp only [hrr, if_false] at hr
        exact rinvM_keep script t htl r rs rs (ih' r rs hr) [] (by rw [h2 r (Ne.symm hrr)]; rfl) (hnone r)
          (by simp) rfl rfl rfl rfl
    | warm r0 h1 h2 h3 =>
      have hsel : ∀ r', selUse r' script[t] = none := by intro r'; rw [h1]; rfl
      have hnone : ∀ r' rec, ¬ Handed script t r' rec := by
        intro r' rec hx; rw [hH, h3] at hx; simp at hx
      rw [h2, modifyAt_getElem?] at hr
      by_cases hrr : r0 = r
      · subst hrr
        simp only [if_true] at hr
        cases hold : (W script t).routers[r0]? with
        | none => rw [hold] at hr; simp at hr
        | some rs0 =>
          rw [hold] at hr; simp at hr; subst hr
          exact rinvM_warm script t htl r0 rs0 (ih' r0 rs0 hold) (hsel r0) (hnone r0)
      · simp only [hrr, if_false] at hr
        exact rinvM_keep script t htl r rs rs (ih' r rs hr) [] (by rw [hsel]; rfl) (hnone r) (by simp) rfl rfl rfl rfl
    | rereg r0 v p h1 h2 h3 =>
      have hsel : ∀ r', selUse r' script[t] = none := by intro r'; rw [h1]; rfl
      have hnone : ∀ r' rec, ¬ Handed script t r' rec := by
        intro r' rec hx; rw [hH, h3] at hx; simp at hx
      rw [h2, modifyAt_getElem?] at hr
      by_cases hrr : r0 = r
      · subst hrr
        simp only [if_true] at hr
        cases hold : (W script t).routers[r0]? with
        | none => rw [hold] at hr; simp at hr
        | some rs0 =>
          rw [hold] at hr; simp at hr; subst hr
          exact rinvM_rereg script t htl r0 rs0 (ih' r0 rs0 hold) v p (hsel r0) (hnone r0)
      · simp only [hrr, if_false] at hr
        exact rinvM_keep script t htl r rs rs (ih' r rs hr) [] (by rw [hsel]; rfl) (hnone r) (by simp) rfl rfl rfl rfl
    | hand p recs h1 h2 h3 h4 h5 =>
      rw [h3, modifyAt_getElem?] at hr
      by_cases hrr : p = r
      · subst hrr
        simp only [if_true] at hr
        cases hold : (W script t).routers[p]? with
        | none => rw [hold] at hr; simp at hr
        | some rs0 =>
          rw [hold] at hr; simp at hr; subst hr
          exact rinvM_add script t htl p rs0 (ih' p rs0 hold) recs (h2 p) (by
            intro rec; rw [hH, h1]; simp)
      · simp only [hrr, if_false] at hr
        exact rinvM_keep script t htl r rs rs (ih' r rs hr) [] (by rw [h2]; rfl) (by
          intro rec hx; rw [hH, h1] at hx; simp at hx; exact hrr hx.2) (by simp) rfl rfl rfl rfl

/-! ### well-formedness with mounts -/

structure WFM (script : List Op) : Prop extends WF script where
  rt : ∀ (t : Nat) (op : Op), script[t]? = some op →
    match op with
    | .route (.router r) _ _ => r < 1 + cnt isNewRouter script t
    | .group r _ _ => r < 1 + cnt isNewRouter script t
    | .version r _ => r = 0
    | .mount p s _ _ _ => p < s ∧ s < 1 + cnt isNewRouter script t
    | _ => True
  msegs : ∀ (i j : Nat) (opi opj : Op) (sg : Nat), script[i]? = some opi → script[j]? = some opj →
    mountSegOf opi = some sg → mountSegOf opj = some sg → i = j

theorem wfm_of_wfB (script : List Op) (h : wfB script = true) : WFM script := by
  have hwf := wf_of_wfB script h
  simp only [wfB, Bool.and_eq_true, List.all_eq_true, List.mem_range] at h
  obtain ⟨h1, h2⟩ := h
  refine { toWF := hwf, rt := ?_, msegs := ?_ }
  · intro t op ht
    have := h1 t (lt_of_getElem? ht)
    rw [ht] at this
    simp only [opRefsOK, Bool.and_eq_true] at this
    have h4 := this.2
    cases op with
    | route o seg hs => cases o <;> simp_all [isNewRouter, routerRefsOK]
    | group r seg hs => simpa [isNewRouter, routerRefsOK] using h4
    | version r v => simpa [routerRefsOK] using h4
    | mount p s seg inh extra => simpa [isNewRouter, routerRefsOK] using h4
    | _ => trivial
  · intro i j opi opj sg hi hj si sj
    have := h2 i (lt_of_getElem? hi) j (lt_of_getElem? hj)
    rw [hi, hj] at this
    simp only [Option.bind_some, si, sj, Bool.or_eq_true, beq_iff_eq, Bool.and_eq_true] at this
    rcases this with h' | h'
    · exact h'
    · simp at h'

/-! ### sub-routers stay cold -/

theorem foldl_addRoute_warmed (recs : List RouteRec) (rs : RouterSt) :
    (recs.foldl addRoute rs).warmed = rs.warmed := by
  induction recs generalizing rs with
  | nil => rfl
  | cons a l ih => rw [List.foldl_cons, ih, (addRoute_fields rs a).2]

theorem reRegister_warmed (ver : Option Nat) (path : Path) (rs : RouterSt) :
    (reRegister ver path rs).warmed = rs.warmed := by
  unfold reRegister
  split
  · split <;> rfl
  · rfl

theorem subs_cold (script : List Op) (hc : SubsCold script) :
    ∀ t, t ≤ script.length → ∀ r rs, 1 ≤ r → (W script t).routers[r]? = some rs → rs.warmed = false := by
  intro t
  induction t with
  | zero =>
    intro _ r rs h1 h
    rw [W_zero] at h
    cases r with
    | zero => omega
    | succ r => simp at h
  | succ t ih =>
    intro ht r rs h1 hr
    have htl : t < script.length := ht
    have ih' := ih (Nat.le_of_lt htl)
    have hs := rstepM (W script t) script[t]
    rw [← W_succ script t htl] at hs
    cases hs with
    | new a b _ =>
      rw [b] at hr
      rcases Nat.lt_or_ge r (W script t).routers.length with hlt | hge
      · rw [List.getElem?_append_left hlt] at hr; exact ih' r rs h1 hr
      · rw [List.getElem?_append_right hge] at hr
        cases hx : r - (W script t).routers.length with
        | zero => rw [hx] at hr; simp at hr; subst hr; rfl
        | succ j => rw [hx] at hr; simp at hr
    | use r0 hs a b c _ =>
      rw [c, modifyAt_getElem?] at hr
      by_cases hrr : r0 = r
      · subst hrr
        simp only [if_true] at hr
        cases hold : (W script t).routers[r0]? with
        | none => rw [hold] at hr; simp at hr
        | some rs0 => rw [hold] at hr; simp at hr; subst hr; exact ih' r0 rs0 h1 hold
      · simp only [hrr, if_false] at hr; exact ih' r rs h1 hr
    | warm r0 a b _ =>
      have : r0 = 0 := hc script[t] (List.getElem_mem htl) r0 a
      subst this
      rw [b, modifyAt_getElem?] at hr
      have : (0 : Nat) ≠ r := by omega
      simp only [this, if_false] at hr
      exact ih' r rs h1 hr
    | rereg r0 v p a b _ =>
      rw [b, modifyAt_getElem?] at hr
      by_cases hrr : r0 = r
      · subst hrr
        simp only [if_true] at hr
        cases hold : (W script t).routers[r0]? with
        | none => rw [hold] at hr; simp at hr
        | some rs0 =>
          rw [hold] at hr; simp at hr; subst hr
          rw [reRegister_warmed]; exact ih' r0 rs0 h1 hold
      · simp only [hrr, if_false] at hr; exact ih' r rs h1 hr
    | hand p recs a b c _ _ =>
      rw [c, modifyAt_getElem?] at hr
      by_cases hrr : p = r
      · subst hrr
        simp only [if_true] at hr
        cases hold : (W script t).routers[p]? with
        | none => rw [hold] at hr; simp at hr
        | some rs0 =>
          rw [hold] at hr; simp at hr; subst hr
          rw [foldl_addRoute_warmed]; exact ih' p rs0 h1 hold
      · simp only [hrr, if_false] at hr; exact ih' r rs h1 hr

/-! ### every record handed to a router is an instance the oracle knows -/

abbrev arr := arrival

/-- what the oracle says about a record handed to router `r` at time `j` -/
def IDesc (script : List Op) (r : Nat) (rec : RouteRec) (j : Nat) : Prop :=
  ∃ (js : List Nat) (i rr : Nat) (ver0 : Option Nat) (path0 : Path) (gls : List Level) (hs : List Hid)
    (mpre : Path) (mls : List Level),
    arr js i = j ∧ routeInfo script i = some (rr, ver0, path0, gls, hs) ∧
    mountLevels script i rr js r = some (mpre, mls) ∧
    rec.path = mpre ++ path0 ∧ rec.ver = (if js = [] then ver0 else none) ∧
    matchLevels (mls ++ gls ++ [(hs, [])]) rec.hs = true ∧
    (∃ sg op, path0.getLast? = some sg ∧ script[i]? = some op ∧ routeSegOf op = some sg)

theorem handed_not_use (w : World) (op : Op) (x : Nat × RouteRec) (h : x ∈ handed w op) :
    ∀ r, selUse r op = none := by
  intro r
  cases op <;> first | rfl | (simp [handed, routeRecOf] at h)

theorem handed_mount (w : World) (p s seg : Nat) (inh : Bool) (extra : List Hid) (r : Nat) (rec : RouteRec)
    (h : (r, rec) ∈ handed w (.mount p s seg inh extra)) :
    r = p ∧ ∃ pr sr recS, w.routers[p]? = some pr ∧ w.routers[s]? = some sr ∧
      recS ∈ sr.objs ∧
      rec = { ver := none, path := seg :: recS.path,
              hs := ((if inh then pr.mw else []) ++ sr.mw ++ extra) ++ recS.hs } := by
  simp only [handed, List.mem_map, Prod.mk.injEq] at h
  obtain ⟨rt, hrt, rfl, rfl⟩ := h
  refine ⟨rfl, ?_⟩
  unfold mountRecs at hrt
  cases hp : w.routers[p]? with
  | none => simp [hp] at hrt
  | some pr =>
    cases hs : w.routers[s]? with
    | none => simp [hp, hs] at hrt
    | some sr =>
      simp only [hp, hs, List.mem_map] at hrt
      obtain ⟨recS, h1, rfl⟩ := hrt
      exact ⟨pr, sr, recS, rfl, rfl, h1, rfl⟩

theorem matchLevels_append_must (must may : List Hid) (ls : List Level) (c : List Hid)
    (hc : matchLevels ls c = true) : matchLevels ((must, may) :: ls) (must ++ c) = true := by
  have := matchLevels_cons must may [] c ls (List.nil_sublist _) hc
  simpa using this

theorem bridge (script : List Op) (hwf : WFM script) :
    ∀ j r rec, Handed script j r rec → IDesc script r rec j := by
  intro j
  induction j using Nat.strongRecOn with
  | _ j ih =>
    intro r rec ⟨op, hop, hmem⟩
    have hjl := lt_of_getElem? hop
    by_cases hm : isMount op = true
    · cases op <;> simp [isMount, isMountOp] at hm
      case mount p s seg inh extra =>
        obtain ⟨rfl, pr, sr, recS, hp, hs, hin, hrec⟩ := handed_mount _ _ _ _ _ _ _ _ hmem
        have hrt := hwf.rt j _ hop
        simp only [] at hrt
        -- the record is one of the routes created on the sub-router
        have hinvS := rinvM script hwf.r j (Nat.le_of_lt hjl) s sr hs
        have hinvP := rinvM script hwf.r j (Nat.le_of_lt hjl) r pr hp
        obtain ⟨i', hi'j, hH'⟩ := hinvS.objs recS hin
        obtain ⟨js, i, rr, ver0, path0, gls, hs0, mpre, mls, a1, a2, a3, a4, a5, a6, a7⟩ := ih i' hi'j s recS hH'
        -- middleware of the sub-router between the arrival there and the mount
        obtain ⟨op', hop', hmem'⟩ := hH'
        obtain ⟨mid, hmid, hsub⟩ := usesB_split script (selUse s) i' j op' hop'
          (handed_not_use _ _ _ hmem' s) (Nat.le_of_lt hi'j)
        refine ⟨j :: js, i, rr, ver0, path0, gls, hs0, seg :: mpre,
          (if inh then [routerLevel script r j] else []) ++ [routerLevel script s i', (extra, [])] ++ mls,
          rfl, a2, ?_, ?_, by simp [hrec], ?_, a7⟩
        · simp only [mountLevels, hop]
          rw [show arrival js i = i' from a1]
          simp [hi'j, a3]
        · rw [hrec]; simp [a4]
        · rw [hrec, hinvP.mw, hinvS.mw, hmid]
          have e1 := matchLevels_append_must extra [] _ _ a6
          have e2 := matchLevels_cons (usesB script (selUse s) i') _ mid _ _ hsub e1
          simp only [routerLevel_eq, splitAt_eq]
          cases inh with
          | false => simpa [usesB, List.append_assoc] using e2
          | true =>
            have e3 := matchLevels_append_must (usesB script (selUse r) j)
              (((script.drop (j + 1)).filterMap (selUse r)).flatten) _ _ e2
            simpa [usesB, List.append_assoc] using e3
    · have hm' : isMount op = false := by simpa using hm
      rw [handed_nomount _ _ hm'] at hmem
      have hrec : routeRecOf (W script j) op = some (r, rec) := by
        cases hx : routeRecOf (W script j) op with
        | none => rw [hx] at hmem; simp at hmem
        | some y => rw [hx] at hmem; simp at hmem; rw [hmem]
      obtain ⟨gls, hs, hinfo, hhs⟩ := routeInfo_of_model script hwf.toWF j op r rec hop hrec
      obtain ⟨sg, c1, c2⟩ := routeRecOf_seg _ _ _ _ hrec
      refine ⟨[], j, r, rec.ver, rec.path, gls, hs, [], [], rfl, hinfo, by simp [mountLevels], by simp, by simp, ?_,
        ⟨sg, op, c2, hop, c1⟩⟩
      rw [hhs]
      simpa using matchLevels_musts gls hs

/-! ### presence: the oracle's instances are in the model -/

theorem vrouter_is_serving (script : List Op) (hwf : WFM script) (t v r ver : Nat) (ht : t ≤ script.length)
    (h : (W script t).vrouters[v]? = some (r, ver)) : r = 0 := by
  obtain ⟨i, op, h1, h2, h3, h4⟩ := (ainv vrouterA vrouterA_ok script t ht).2 v (r, ver) h
  have hrt := hwf.rt i op h1
  cases op <;> simp [vrouterA] at h4
  case version r' ver' => simp only [] at hrt; obtain ⟨rfl, _⟩ := h4; exact hrt
  case aversion ver' => exact h4.1.symm

/-- the router a declaring op hands its record to exists -/
theorem decl_router_exists (script : List Op) (hwf : WFM script) (j : Nat) (op : Op) (r : Nat) (rec : RouteRec)
    (hop : script[j]? = some op) (hrec : routeRecOf (W script j) op = some (r, rec)) :
    r < (W script j).routers.length := by
  have hjl := lt_of_getElem? hop
  have hjle : j ≤ script.length := Nat.le_of_lt hjl
  have hlen := routers_length_M script j hjle
  have hzero : 0 < (W script j).routers.length := by omega
  cases op with
  | route o seg hs =>
    cases o with
    | router r' =>
      simp [routeRecOf] at hrec
      have := hwf.rt j _ hop
      simp only [] at this
      omega
    | group g =>
      simp [routeRecOf] at hrec
      obtain ⟨p, hp, rfl, _⟩ := hrec
      obtain ⟨ri, rop, ls, h1, h2, h3, h4, h5, h6⟩ := genLevels_of_model groupM groupM_ok script hwf.g g j p hjle hp
      have hrt := hwf.rt ri rop h3
      cases rop <;> simp [groupM, groupC] at h4
      case group r' seg' hs' =>
        simp only [] at hrt
        simp [groupM] at h5
        have := cnt_mono isNewRouter script ri j (Nat.le_of_lt h6)
        omega
    | vrouter v =>
      simp [routeRecOf] at hrec
      obtain ⟨r', ver, hv, rfl, _⟩ := hrec
      rw [vrouter_is_serving script hwf j v r' ver hjle hv]; exact hzero
    | vgroup vg =>
      cases hp : (W script j).vgroups[vg]? with
      | none => simp [routeRecOf, hp] at hrec
      | some p =>
      cases hv : (W script j).vrouters[p.owner]? with
      | none => simp [routeRecOf, hp, hv] at hrec
      | some x =>
      obtain ⟨r', ver⟩ := x
      simp [routeRecOf, hp, hv] at hrec
      obtain ⟨rfl, _⟩ := hrec
      rw [vrouter_is_serving script hwf j p.owner r' ver hjle hv]; exact hzero
  | aroute o seg b hh a =>
    cases o with
    | app => simp [routeRecOf] at hrec; rw [← hrec.1]; exact hzero
    | agroup g =>
      simp [routeRecOf] at hrec
      obtain ⟨p, hp, rfl, _⟩ := hrec
      exact hzero
    | avgroup vg =>
      cases hp : (W script j).avgroups[vg]? with
      | none => simp [routeRecOf, hp] at hrec
      | some p =>
      cases hv : (W script j).vrouters[p.owner]? with
      | none => simp [routeRecOf, hp, hv] at hrec
      | some x =>
      obtain ⟨r', ver⟩ := x
      simp [routeRecOf, hp, hv] at hrec
      obtain ⟨rfl, _⟩ := hrec
      rw [vrouter_is_serving script hwf j p.owner r' ver hjle hv]; exact hzero
  | _ => simp [routeRecOf] at hrec

theorem routers_length_mono (script : List Op) (a b : Nat) (hab : a ≤ b) (hb : b ≤ script.length) :
    (W script a).routers.length ≤ (W script b).routers.length := by
  rw [routers_length_M script a (Nat.le_trans hab hb), routers_length_M script b hb]
  have := cnt_mono isNewRouter script a b hab
  omega

theorem presence (script : List Op) (hwf : WFM script) (i rr : Nat) (ver0 : Option Nat)
    (path0 : Path) (gls : List Level) (hs : List Hid)
    (hri : routeInfo script i = some (rr, ver0, path0, gls, hs)) :
    ∀ (js : List Nat) (r : Nat) (mpre : Path) (mls : List Level),
      mountLevels script i rr js r = some (mpre, mls) →
      ∃ rec, Handed script (arr js i) r rec ∧ rec.path = mpre ++ path0 ∧
        r < (W script (arr js i)).routers.length ∧ arr js i < script.length ∧
        rec.ver = (if js = [] then ver0 else none) := by
  intro js
  induction js with
  | nil =>
    intro r mpre mls hml
    simp only [mountLevels] at hml
    by_cases hr : r = rr
    · subst hr
      simp at hml
      obtain ⟨rfl, rfl⟩ := hml
      cases hop : script[i]? with
      | none => simp [routeInfo, hop] at hri
      | some op =>
        have hseg : (routeSeg op).isSome = true := by
          cases op <;> first | rfl | (simp [routeInfo, hop] at hri)
        have hex := routeRecOf_exists script hwf.toWF i op hop hseg
        obtain ⟨⟨r', rec0⟩, hrec⟩ := Option.isSome_iff_exists.mp hex
        obtain ⟨gls', hs', hinfo, hhs⟩ := routeInfo_of_model script hwf.toWF i op r' rec0 hop hrec
        rw [hri] at hinfo
        simp only [Option.some.injEq, Prod.mk.injEq] at hinfo
        obtain ⟨e1, e2, e3, e4, e5⟩ := hinfo
        subst e1 e3
        have hm : isMount op = false := by
          cases op <;> first | rfl | (simp [routeRecOf] at hrec)
        refine ⟨rec0, ⟨op, hop, ?_⟩, by simp,
          decl_router_exists script hwf i op r rec0 hop hrec, lt_of_getElem? hop, by simp [e2]⟩
        show (r, rec0) ∈ handed (W script i) op
        rw [handed_nomount _ _ hm, hrec]; simp
    · simp [hr] at hml
  | cons j js ih =>
    intro r mpre mls hml
    simp only [mountLevels] at hml
    cases hop : script[j]? with
    | none => simp [hop] at hml
    | some op =>
      cases op <;> simp [hop] at hml
      case mount p s seg inh extra =>
        obtain ⟨⟨hpr, htn⟩, hrest⟩ := hml
        subst hpr
        cases hsub : mountLevels script i rr js s with
        | none => simp [hsub] at hrest
        | some x =>
          obtain ⟨mpre', mls'⟩ := x
          simp [hsub] at hrest
          obtain ⟨rfl, rfl⟩ := hrest
          obtain ⟨recS, hH, hpath, hex, _, _⟩ := ih s mpre' mls' hsub
          have hjl := lt_of_getElem? hop
          have hrt := hwf.rt j _ hop
          simp only [] at hrt
          have hlenj := routers_length_M script j (Nat.le_of_lt hjl)
          have hs_lt : s < (W script j).routers.length := by rw [hlenj]; exact hrt.2
          have hp_lt : p < (W script j).routers.length := by omega
          have hsr := List.getElem?_eq_getElem hs_lt
          have hpr := List.getElem?_eq_getElem hp_lt
          have hinvS := rinvM script hwf.r j (Nat.le_of_lt hjl) s _ hsr
          have hobj : recS ∈ ((W script j).routers[s]).objs := hinvS.opres (arr js i) recS htn hH hex
          refine ⟨{ ver := none, path := seg :: recS.path,
                    hs := ((if inh then ((W script j).routers[p]).mw else []) ++ ((W script j).routers[s]).mw ++ extra) ++
                      recS.hs }, ⟨_, hop, ?_⟩, ?_, hp_lt, hjl, by simp⟩
          · show (p, _) ∈ (mountRecs (W script j) p s seg inh extra).map (fun rt => (p, rt))
            refine List.mem_map.mpr ⟨_, ?_, rfl⟩
            unfold mountRecs
            rw [hpr, hsr]
            simp only [List.mem_map]
            exact ⟨recS, hobj, rfl⟩
          · simp [hpath]

/-! ### uniqueness of the instance behind a path, and the theorem -/

theorem mounts_unique (script : List Op) (hwf : WFM script) (i rr : Nat) :
    ∀ (js js' : List Nat) (r : Nat) (mpre : Path) (mls mls' : List Level),
      mountLevels script i rr js r = some (mpre, mls) → mountLevels script i rr js' r = some (mpre, mls') →
      js = js' := by
  intro js
  induction js with
  | nil =>
    intro js' r mpre mls mls' h1 h2
    simp only [mountLevels] at h1
    by_cases hr : r = rr
    · simp [hr] at h1
      obtain ⟨rfl, _⟩ := h1
      cases js' with
      | nil => rfl
      | cons j' t' =>
        simp only [mountLevels] at h2
        cases hop : script[j']? with
        | none => simp [hop] at h2
        | some op =>
          cases op <;> simp [hop] at h2
          case mount p s seg inh extra =>
            obtain ⟨_, h2⟩ := h2
            cases hsub : mountLevels script i rr t' s with
            | none => simp [hsub] at h2
            | some x => simp [hsub] at h2
    · simp [hr] at h1
  | cons j t ih =>
    intro js' r mpre mls mls' h1 h2
    simp only [mountLevels] at h1
    cases hop : script[j]? with
    | none => simp [hop] at h1
    | some op =>
      cases op <;> simp [hop] at h1
      case mount p s seg inh extra =>
        obtain ⟨_, h1⟩ := h1
        cases hsub : mountLevels script i rr t s with
        | none => simp [hsub] at h1
        | some x =>
          obtain ⟨mp1, ml1⟩ := x
          simp [hsub] at h1
          obtain ⟨rfl, _⟩ := h1
          cases js' with
          | nil =>
            simp only [mountLevels] at h2
            by_cases hr : r = rr
            · simp [hr] at h2
            · simp [hr] at h2
          | cons j' t' =>
            simp only [mountLevels] at h2
            cases hop' : script[j']? with
            | none => simp [hop'] at h2
            | some op' =>
              cases op' <;> simp [hop'] at h2
              case mount p' s' seg' inh' extra' =>
                obtain ⟨_, h2⟩ := h2
                cases hsub' : mountLevels script i rr t' s' with
                | none => simp [hsub'] at h2
                | some x' =>
                  obtain ⟨mp2, ml2⟩ := x'
                  simp [hsub'] at h2
                  obtain ⟨⟨rfl, rfl⟩, _⟩ := h2
                  have hjj : j = j' := hwf.msegs j j' _ _ seg' hop hop' rfl rfl
                  subst hjj
                  rw [hop] at hop'
                  cases hop'
                  rw [ih t' s _ _ _ hsub hsub']

theorem mounted_from_sub (script : List Op) (hwf : WFM script) (i rr : Nat) :
    ∀ (js : List Nat) (r : Nat) (x : Path × List Level), mountLevels script i rr js r = some x → js ≠ [] → 1 ≤ rr := by
  intro js
  induction js with
  | nil => intro r x _ h; exact (h rfl).elim
  | cons j t ih =>
    intro r x h _
    simp only [mountLevels] at h
    cases hop : script[j]? with
    | none => simp [hop] at h
    | some op =>
      cases op <;> simp [hop] at h
      case mount p s seg inh extra =>
        obtain ⟨_, h⟩ := h
        cases hsub : mountLevels script i rr t s with
        | none => simp [hsub] at h
        | some y =>
          have hrt := hwf.rt j _ hop
          simp only [] at hrt
          cases t with
          | nil =>
            simp only [mountLevels] at hsub
            by_cases hs : s = rr
            · omega
            · simp [hs] at hsub
          | cons j' t' => exact ih s y hsub (by simp)

theorem versioned_on_serving (script : List Op) (hwf : WFM script) (i rr v : Nat) (path0 : Path)
    (gls : List Level) (hs : List Hid) (hri : routeInfo script i = some (rr, some v, path0, gls, hs)) : rr = 0 := by
  cases hop : script[i]? with
  | none => simp [routeInfo, hop] at hri
  | some op =>
    have hseg : (routeSeg op).isSome = true := by
      cases op <;> first | rfl | (simp [routeInfo, hop] at hri)
    have hex := routeRecOf_exists script hwf.toWF i op hop hseg
    obtain ⟨⟨r', rec0⟩, hrec⟩ := Option.isSome_iff_exists.mp hex
    obtain ⟨gls', hs', hinfo, _⟩ := routeInfo_of_model script hwf.toWF i op r' rec0 hop hrec
    rw [hri] at hinfo
    simp only [Option.some.injEq, Prod.mk.injEq] at hinfo
    obtain ⟨e1, e2, _, _, _⟩ := hinfo
    subst e1
    have hile : i ≤ script.length := Nat.le_of_lt (lt_of_getElem? hop)
    cases op with
    | route o seg hs0 =>
      cases o with
      | router r => simp [routeRecOf] at hrec; rw [← hrec.2] at e2; simp at e2
      | group g => simp [routeRecOf] at hrec; obtain ⟨p, _, _, h⟩ := hrec; rw [← h] at e2; simp at e2
      | vrouter v' =>
        simp [routeRecOf] at hrec
        obtain ⟨r'', ver, hv, rfl, _⟩ := hrec
        exact vrouter_is_serving script hwf i v' r'' ver hile hv
      | vgroup vg =>
        cases hp : (W script i).vgroups[vg]? with
        | none => simp [routeRecOf, hp] at hrec
        | some p =>
        cases hv : (W script i).vrouters[p.owner]? with
        | none => simp [routeRecOf, hp, hv] at hrec
        | some x =>
        obtain ⟨r'', ver⟩ := x
        simp [routeRecOf, hp, hv] at hrec
        obtain ⟨rfl, _⟩ := hrec
        exact vrouter_is_serving script hwf i p.owner r'' ver hile hv
    | aroute o seg b hh a =>
      cases o with
      | app => simp [routeRecOf] at hrec; exact hrec.1.symm
      | agroup g => simp [routeRecOf] at hrec; obtain ⟨p, _, h, _⟩ := hrec; exact h.symm
      | avgroup vg =>
        cases hp : (W script i).avgroups[vg]? with
        | none => simp [routeRecOf, hp] at hrec
        | some p =>
        cases hv : (W script i).vrouters[p.owner]? with
        | none => simp [routeRecOf, hp, hv] at hrec
        | some x =>
        obtain ⟨r'', ver⟩ := x
        simp [routeRecOf, hp, hv] at hrec
        obtain ⟨rfl, _⟩ := hrec
        exact vrouter_is_serving script hwf i p.owner r'' ver hile hv
    | _ => simp [routeRecOf] at hrec

theorem routeInfo_seg (script : List Op) (hwf : WF script) (i rr : Nat) (ver0 : Option Nat) (path0 : Path)
    (gls : List Level) (hs : List Hid) (hri : routeInfo script i = some (rr, ver0, path0, gls, hs)) :
    ∃ sg op, path0.getLast? = some sg ∧ script[i]? = some op ∧ routeSegOf op = some sg := by
  cases hop : script[i]? with
  | none => simp [routeInfo, hop] at hri
  | some op =>
    have hseg : (routeSeg op).isSome = true := by
      cases op <;> first | rfl | (simp [routeInfo, hop] at hri)
    have hex := routeRecOf_exists script hwf i op hop hseg
    obtain ⟨⟨r', rec0⟩, hrec⟩ := Option.isSome_iff_exists.mp hex
    obtain ⟨gls', hs', hinfo, _⟩ := routeInfo_of_model script hwf i op r' rec0 hop hrec
    rw [hri] at hinfo
    simp only [Option.some.injEq, Prod.mk.injEq] at hinfo
    obtain ⟨_, _, e3, _, _⟩ := hinfo
    obtain ⟨sg, c1, c2⟩ := routeRecOf_seg _ _ _ _ hrec
    exact ⟨sg, op, by rw [e3]; exact c2, rfl, c1⟩

theorem getLast?_append_some {α} (a b : List α) (x : α) (h : b.getLast? = some x) : (a ++ b).getLast? = some x := by
  rw [List.getLast?_append, h]; rfl

/-- **Soundness of the composition model, `Mount` included** — for scripts in which only the
    serving router is warmed up explicitly. -/
theorem compose_admitted_mount (script : List Op) (hwf : WFM script) (tg : Target)
    (ver : Option Nat) (path : Path) (ls : List Level) (hl : levels script tg = some (ver, path, ls)) :
    ∃ chain, compose script ver path = some chain ∧ matchLevels ls chain = true := by
  obtain ⟨js, i⟩ := tg
  simp only [levels] at hl
  cases hri : routeInfo script i with
  | none => simp [hri] at hl
  | some x =>
    obtain ⟨rr, ver0, path0, gls, hs⟩ := x
    simp only [hri, Option.bind_eq_bind, Option.bind_some] at hl
    cases hml : mountLevels script i rr js 0 with
    | none => simp [hml] at hl
    | some y0 =>
      obtain ⟨mpre, mls⟩ := y0
      simp only [hml, Option.bind_some, Option.some.injEq, Prod.mk.injEq] at hl
      obtain ⟨rfl, rfl, rfl⟩ := hl
      obtain ⟨rec, hH, hpath, hex, harrlt, hver⟩ := presence script hwf i rr ver path0 gls hs hri js 0 mpre mls hml
      have hv : rec.ver = ver := by
        by_cases hjs : js = []
        · simpa [hjs] using hver
        · have hnone : rec.ver = none := by simpa [hjs] using hver
          have h1 := mounted_from_sub script hwf i rr js 0 _ hml hjs
          cases ver with
          | none => exact hnone
          | some v =>
            have := versioned_on_serving script hwf i rr v path0 gls hs hri
            omega
      obtain ⟨sg, opi, hsg, hopi, hsegi⟩ := routeInfo_seg script hwf.toWF i rr ver path0 gls hs hri
      -- router 0 at the end of the script
      have hlen := routers_length_M script script.length (Nat.le_refl _)
      have h0lt : 0 < (W script script.length).routers.length := by omega
      have hrs0 : (W script script.length).routers[0]? = some (W script script.length).routers[0] :=
        List.getElem?_eq_getElem h0lt
      generalize (W script script.length).routers[0] = rs0 at hrs0
      have hinv := rinvM script hwf.r script.length (Nat.le_refl _) 0 rs0 hrs0
      have hcomp : compose script ver (mpre ++ path0) = findRoute (warmup rs0).tree ver (mpre ++ path0) := by
        unfold compose
        rw [← W_full, hrs0]
      have htree : ∀ y ∈ (warmup rs0).tree, ∃ i' rec0' treg, i' ≤ treg ∧ Handed script i' 0 rec0' ∧
          y = regRec script 0 treg rec0' := by
        intro y hy
        unfold warmup at hy
        by_cases hw : rs0.warmed = true
        · simp only [hw, if_true] at hy
          obtain ⟨i', rec0', treg, _, a3, _, a5, a6⟩ := hinv.tree y hy
          exact ⟨i', rec0', treg, a3, a5, a6⟩
        · have hw' : rs0.warmed = false := by simpa using hw
          simp only [hw', Bool.false_eq_true, if_false] at hy
          rw [foldl_register] at hy
          simp only [List.mem_append, List.mem_map] at hy
          rcases hy with hy | ⟨rt, hrt, rfl⟩
          · obtain ⟨i', rec0', treg, _, a3, _, a5, a6⟩ := hinv.tree y hy
            exact ⟨i', rec0', treg, a3, a5, a6⟩
          · obtain ⟨i', a2, a3⟩ := hinv.pend rt hrt
            exact ⟨i', rt, script.length, by omega, a3, by simp [regRec, hinv.mw]⟩
      have hpres : ∃ treg, regRec script 0 treg rec ∈ (warmup rs0).tree := by
        unfold warmup
        by_cases hw : rs0.warmed = true
        · simp only [hw, if_true]
          rcases hinv.pres (arr js i) rec harrlt hH hex with hp | ⟨treg, _, _, c⟩
          · rw [hinv.warmed hw] at hp; simp at hp
          · exact ⟨treg, c⟩
        · have hw' : rs0.warmed = false := by simpa using hw
          simp only [hw', Bool.false_eq_true, if_false]
          rw [foldl_register]
          rcases hinv.pres (arr js i) rec harrlt hH hex with hp | ⟨treg, _, _, c⟩
          · refine ⟨script.length, ?_⟩
            simp only [List.mem_append, List.mem_map]
            exact Or.inr ⟨rec, hp, by simp [regRec, hinv.mw]⟩
          · exact ⟨treg, by simp only [List.mem_append]; exact Or.inl c⟩
      obtain ⟨treg0, hmem0⟩ := hpres
      have hfind : ∃ y, (warmup rs0).tree.reverse.find? (fun rt => rt.ver == ver && rt.path == mpre ++ path0) = some y := by
        cases hf : (warmup rs0).tree.reverse.find? (fun rt => rt.ver == ver && rt.path == mpre ++ path0) with
        | some y => exact ⟨y, rfl⟩
        | none =>
          have := List.find?_eq_none.mp hf (regRec script 0 treg0 rec) (by simpa using hmem0)
          simp [regRec, hv, hpath] at this
      obtain ⟨y, hy⟩ := hfind
      have hyp := List.find?_some hy
      have hymem : y ∈ (warmup rs0).tree := by simpa using List.mem_of_find?_eq_some hy
      obtain ⟨i', rec0', treg, b2, b3, b4⟩ := htree y hymem
      simp only [Bool.and_eq_true, beq_iff_eq] at hyp
      have hpath' : rec0'.path = mpre ++ path0 := by rw [← hyp.2, b4]; rfl
      -- the oracle's description of the record that was found
      obtain ⟨js', i'', rr', ver', path0', gls', hs', mpre', mls', d1, d2, d3, d4, d5, d6, sg', opi', d7, d8, d9⟩ :=
        bridge script hwf i' 0 rec0' b3
      have hlast : (mpre ++ path0).getLast? = some sg := getLast?_append_some _ _ _ hsg
      have hlast' : (mpre' ++ path0').getLast? = some sg' := getLast?_append_some _ _ _ d7
      rw [← d4, hpath', hlast] at hlast'
      have hsgeq : sg = sg' := Option.some.inj hlast'
      subst hsgeq
      have hii : i'' = i := hwf.segs i'' i opi' opi sg d8 hopi d9 hsegi
      subst hii
      rw [hri] at d2
      simp only [Option.some.injEq, Prod.mk.injEq] at d2
      obtain ⟨e1, e2, e3, e4, e5⟩ := d2
      subst e1 e2 e3 e4 e5
      have hmp : mpre' = mpre := by
        rw [hpath'] at d4
        exact (List.append_cancel_right d4).symm
      subst hmp
      have hjs : js' = js := mounts_unique script hwf i'' rr js' js 0 mpre' mls' mls d3 hml
      subst hjs
      rw [hml] at d3
      simp only [Option.some.injEq, Prod.mk.injEq, true_and] at d3
      subst d3
      -- the chain and its admission
      refine ⟨y.hs, by rw [hcomp]; simp [findRoute, hy], ?_⟩
      obtain ⟨op', hop', hmem'⟩ := b3
      obtain ⟨mid, hmid, hsub⟩ := usesB_split script (selUse 0) i' treg op' hop' (handed_not_use _ _ _ hmem' 0) b2
      rw [b4]
      show matchLevels ([routerLevel script 0 (arrival js' i'')] ++ mls ++ gls ++ [(hs, [])])
        (usesB script (selUse 0) treg ++ rec0'.hs) = true
      rw [show arrival js' i'' = i' from d1, hmid, routerLevel_eq, splitAt_eq]
      have := matchLevels_cons (usesB script (selUse 0) i') _ mid _ (mls ++ gls ++ [(hs, [])]) hsub d6
      simpa [usesB, List.append_assoc] using this

theorem subsCold_of_subsColdB (script : List Op) (h : subsColdB script = true) : SubsCold script := by
  intro op hop r hr
  simp only [subsColdB, List.all_eq_true] at h
  have := h op hop
  rw [hr] at this
  simpa using this

end Rivaas.Compose
