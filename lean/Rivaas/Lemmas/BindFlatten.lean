import Rivaas.Model.Bind
import Rivaas.Lemmas.BindPath
/-
C04 helper lemmas about `flatten` (parseStructType): every cached index path leads to its field
(`lemma_flattenFs`, the engine of `flatten_faithful`), paths are relative to the prefix
(`lemma_flatten_prefix`), and a faithful path never makes `reach` panic on a well-typed value.
-/
set_option linter.unusedSimpArgs false
set_option linter.unusedVariables false
namespace Rivaas.Bind

/-- `reflect.Type.FieldByIndex`: follow an index path through struct and pointer-to-struct fields -/
def fieldAt : List Fld → List Nat → Option Fld
  | _, [] => none
  | fs, [i] => fs[i]?
  | fs, i :: j :: rest =>
    match fs[i]? with
    | some (_, t) =>
      match structFields? t with
      | some fs' => fieldAt fs' (j :: rest)
      | none => none
    | none => none

theorem lemma_mkInfo {P : Params} {tag : Tag} {idx : List Nat} {h : FieldHdr} {t : Ty} {f : FieldInfo}
    (hm : f ∈ (mkInfo P tag idx h t).toList) : f.index = idx ∧ f.ty = t ∧ f.name = h.name ∧ f.dflt = h.dflt := by
  unfold mkInfo at hm
  simp only at hm
  split at hm
  · simp at hm
  · split at hm
    · simp at hm
    · simp only [Option.toList_some, List.mem_singleton] at hm
      subst hm
      simp

/-- what a flattened entry must satisfy relative to the field list `all` it was produced from -/
def Faithful (all : List Fld) (q : List Nat) (f : FieldInfo) : Prop :=
  ∃ h t, fieldAt all q = some (h, t) ∧ f.ty = t ∧ f.name = h.name ∧ f.dflt = h.dflt

theorem lemma_fieldAt_cons {all : List Fld} {i : Nat} {h : FieldHdr} {t : Ty} {fs' : List Fld} {q : List Nat}
    (h0 : all[i]? = some (h, t)) (hs : structFields? t = some fs') (hq : q ≠ []) :
    fieldAt all (i :: q) = fieldAt fs' q := by
  cases q with
  | nil => exact absurd rfl hq
  | cons j r => simp [fieldAt, h0, hs]

mutual
theorem lemma_flattenFld (P : Params) (tag : Tag) (pre : List Nat) (i : Nat) (h : FieldHdr) :
    ∀ (t : Ty) (f : FieldInfo), f ∈ flattenFld P tag pre i h t →
      ∃ q, q ≠ [] ∧ f.index = pre ++ q ∧ ∀ all : List Fld, all[i]? = some (h, t) → Faithful all q f
  | .struct fs, f, hf => by
    unfold flattenFld at hf
    split at hf
    · simp at hf
    · split at hf
      · obtain ⟨q, hq0, hq, hall⟩ := lemma_flattenFs P tag (pre ++ [i]) 0 fs f hf
        refine ⟨i :: q, by simp, by simp [hq], ?_⟩
        intro all h0
        have := hall fs (fun k => by simp)
        unfold Faithful at *
        rw [lemma_fieldAt_cons (fs' := fs) h0 (by simp [structFields?]) hq0]
        exact this
      · obtain ⟨h1, h2, h3, h4⟩ := lemma_mkInfo hf
        refine ⟨[i], by simp, h1, ?_⟩
        intro all h0
        exact ⟨h, _, by simp [fieldAt, h0], h2, h3, h4⟩
  | .ptr (.struct fs), f, hf => by
    unfold flattenFld at hf
    split at hf
    · simp at hf
    · split at hf
      · obtain ⟨q, hq0, hq, hall⟩ := lemma_flattenFs P tag (pre ++ [i]) 0 fs f hf
        refine ⟨i :: q, by simp, by simp [hq], ?_⟩
        intro all h0
        have := hall fs (fun k => by simp)
        unfold Faithful at *
        rw [lemma_fieldAt_cons (fs' := fs) h0 (by simp [structFields?]) hq0]
        exact this
      · obtain ⟨h1, h2, h3, h4⟩ := lemma_mkInfo hf
        refine ⟨[i], by simp, h1, ?_⟩
        intro all h0
        exact ⟨h, _, by simp [fieldAt, h0], h2, h3, h4⟩
  | .prim p, f, hf => by
    simp only [flattenFld] at hf
    split at hf
    · simp at hf
    · obtain ⟨h1, h2, h3, h4⟩ := lemma_mkInfo hf
      exact ⟨[i], by simp, h1, fun all h0 => ⟨h, _, by simp [fieldAt, h0], h2, h3, h4⟩⟩
  | .slice e, f, hf => by
    simp only [flattenFld] at hf
    split at hf
    · simp at hf
    · obtain ⟨h1, h2, h3, h4⟩ := lemma_mkInfo hf
      exact ⟨[i], by simp, h1, fun all h0 => ⟨h, _, by simp [fieldAt, h0], h2, h3, h4⟩⟩
  | .map e, f, hf => by
    simp only [flattenFld] at hf
    split at hf
    · simp at hf
    · obtain ⟨h1, h2, h3, h4⟩ := lemma_mkInfo hf
      exact ⟨[i], by simp, h1, fun all h0 => ⟨h, _, by simp [fieldAt, h0], h2, h3, h4⟩⟩
  | .ptr (.prim p), f, hf => by
    simp only [flattenFld] at hf
    split at hf
    · simp at hf
    · obtain ⟨h1, h2, h3, h4⟩ := lemma_mkInfo hf
      exact ⟨[i], by simp, h1, fun all h0 => ⟨h, _, by simp [fieldAt, h0], h2, h3, h4⟩⟩
  | .ptr (.ptr e), f, hf => by
    simp only [flattenFld] at hf
    split at hf
    · simp at hf
    · obtain ⟨h1, h2, h3, h4⟩ := lemma_mkInfo hf
      exact ⟨[i], by simp, h1, fun all h0 => ⟨h, _, by simp [fieldAt, h0], h2, h3, h4⟩⟩
  | .ptr (.slice e), f, hf => by
    simp only [flattenFld] at hf
    split at hf
    · simp at hf
    · obtain ⟨h1, h2, h3, h4⟩ := lemma_mkInfo hf
      exact ⟨[i], by simp, h1, fun all h0 => ⟨h, _, by simp [fieldAt, h0], h2, h3, h4⟩⟩
  | .ptr (.map e), f, hf => by
    simp only [flattenFld] at hf
    split at hf
    · simp at hf
    · obtain ⟨h1, h2, h3, h4⟩ := lemma_mkInfo hf
      exact ⟨[i], by simp, h1, fun all h0 => ⟨h, _, by simp [fieldAt, h0], h2, h3, h4⟩⟩
theorem lemma_flattenFs (P : Params) (tag : Tag) (pre : List Nat) :
    ∀ (i : Nat) (fs : List Fld) (f : FieldInfo), f ∈ flattenFs P tag pre i fs →
      ∃ q, q ≠ [] ∧ f.index = pre ++ q ∧ ∀ all : List Fld, (∀ k, all[i + k]? = fs[k]?) → Faithful all q f
  | _, [], f, hf => by simp [flattenFs] at hf
  | i, (h, t) :: rest, f, hf => by
    simp only [flattenFs, List.mem_append] at hf
    rcases hf with hf | hf
    · obtain ⟨q, hq0, hq, hall⟩ := lemma_flattenFld P tag pre i h t f hf
      exact ⟨q, hq0, hq, fun all ha => hall all (by simpa using ha 0)⟩
    · obtain ⟨q, hq0, hq, hall⟩ := lemma_flattenFs P tag pre (i+1) rest f hf
      refine ⟨q, hq0, hq, fun all ha => hall all (fun k => ?_)⟩
      have := ha (k+1)
      simpa [Nat.add_assoc, Nat.add_comm 1 k] using this
end


/-! ### index paths are relative to the prefix -/

def addPre (pre : List Nat) (f : FieldInfo) : FieldInfo := { f with index := pre ++ f.index }

theorem lemma_mkInfo_pre (P : Params) (tag : Tag) (pre : List Nat) (i : Nat) (h : FieldHdr) (t : Ty) :
    (mkInfo P tag (pre ++ [i]) h t).toList = ((mkInfo P tag [i] h t).toList).map (addPre pre) := by
  unfold mkInfo
  simp only
  split
  · simp
  · split
    · simp
    · simp [addPre]

mutual
theorem lemma_flattenFld_pre (P : Params) (tag : Tag) (i : Nat) (h : FieldHdr) :
    ∀ (t : Ty) (pre : List Nat), flattenFld P tag pre i h t = (flattenFld P tag [] i h t).map (addPre pre)
  | .struct fs, pre => by
    unfold flattenFld
    split
    · simp
    · split
      · rw [lemma_flattenFs_pre P tag fs 0 (pre ++ [i]), lemma_flattenFs_pre P tag fs 0 ([] ++ [i])]
        simp [List.map_map, Function.comp_def, addPre]
      · simpa using lemma_mkInfo_pre P tag pre i h _
  | .ptr (.struct fs), pre => by
    unfold flattenFld
    split
    · simp
    · split
      · rw [lemma_flattenFs_pre P tag fs 0 (pre ++ [i]), lemma_flattenFs_pre P tag fs 0 ([] ++ [i])]
        simp [List.map_map, Function.comp_def, addPre]
      · simpa using lemma_mkInfo_pre P tag pre i h _
  | .prim p, pre => by
    simp only [flattenFld]; split
    · simp
    · simpa using lemma_mkInfo_pre P tag pre i h _
  | .slice e, pre => by
    simp only [flattenFld]; split
    · simp
    · simpa using lemma_mkInfo_pre P tag pre i h _
  | .map e, pre => by
    simp only [flattenFld]; split
    · simp
    · simpa using lemma_mkInfo_pre P tag pre i h _
  | .ptr (.prim p), pre => by
    simp only [flattenFld]; split
    · simp
    · simpa using lemma_mkInfo_pre P tag pre i h _
  | .ptr (.ptr e), pre => by
    simp only [flattenFld]; split
    · simp
    · simpa using lemma_mkInfo_pre P tag pre i h _
  | .ptr (.slice e), pre => by
    simp only [flattenFld]; split
    · simp
    · simpa using lemma_mkInfo_pre P tag pre i h _
  | .ptr (.map e), pre => by
    simp only [flattenFld]; split
    · simp
    · simpa using lemma_mkInfo_pre P tag pre i h _
theorem lemma_flattenFs_pre (P : Params) (tag : Tag) :
    ∀ (fs : List Fld) (i : Nat) (pre : List Nat), flattenFs P tag pre i fs = (flattenFs P tag [] i fs).map (addPre pre)
  | [], i, pre => by simp [flattenFs]
  | (h, t) :: rest, i, pre => by
    simp only [flattenFs, List.map_append]
    rw [lemma_flattenFld_pre P tag i h t pre, lemma_flattenFs_pre P tag rest (i+1) pre]
end

/-- the promoted fields of the struct embedded at position `j` are its own fields, seen through `j` -/
theorem lemma_flatten_embedded (P : Params) (tag : Tag) (j : Nat) (sub : List Fld) :
    flattenFs P tag [j] 0 sub = (flatten P tag sub).map (pj j) := by
  rw [lemma_flattenFs_pre P tag sub 0 [j]]
  rfl

/-! ### a faithful path never makes `reach` panic -/

theorem lemma_reach_valid : ∀ (q : List Nat) (fs : List Fld) (vs : List Val),
    wts fs vs = true → (fieldAt fs q).isSome → reach (.struct vs) q ≠ .bad
  | [], fs, vs, _, hq => by simp [fieldAt] at hq
  | [i], fs, vs, hw, hq => by
    simp only [fieldAt] at hq
    obtain ⟨⟨h, t⟩, hf⟩ := Option.isSome_iff_exists.1 hq
    obtain ⟨v, hv, _⟩ := lemma_wts_get fs vs i h t hw hf
    simp [reach, hv]
  | i :: j :: rest, fs, vs, hw, hq => by
    simp only [fieldAt] at hq
    cases hf : fs[i]? with
    | none => simp [hf] at hq
    | some ht =>
      obtain ⟨h, t⟩ := ht
      simp only [hf] at hq
      obtain ⟨v, hv, hwt⟩ := lemma_wts_get fs vs i h t hw hf
      cases hsf : structFields? t with
      | none => simp [hsf] at hq
      | some fs' =>
        simp only [hsf] at hq
        -- t is a struct or a pointer to one
        cases t with
        | struct sub =>
          simp only [structFields?, Option.some.injEq] at hsf
          subst hsf
          cases v with
          | struct cs =>
            rw [lemma_reach_struct vs i j rest cs hv]
            exact lemma_reach_valid (j :: rest) sub cs (by simpa [wt] using hwt) hq
          | _ => simp [wt] at hwt
        | ptr t' =>
          cases t' with
          | struct sub =>
            simp only [structFields?, Option.some.injEq] at hsf
            subst hsf
            cases v with
            | nil => rw [lemma_reach_nil vs i j rest hv]; simp
            | ptr y =>
              rw [lemma_reach_ptr vs i j rest y hv]
              cases y with
              | struct cs => exact lemma_reach_valid (j :: rest) sub cs (by simpa [wt] using hwt) hq
              | _ => simp [wt] at hwt
            | _ => simp [wt] at hwt
          | _ => simp [structFields?] at hsf
        | _ => simp [structFields?] at hsf

/-- every flattened field of a struct type: non-empty path, and `reach` never panics on a
    well-typed value of that type -/
theorem lemma_flatten_valid (P : Params) (tag : Tag) (fs : List Fld) (vs : List Val) (hw : wts fs vs = true)
    (f : FieldInfo) (hf : f ∈ flatten P tag fs) : f.index ≠ [] ∧ reach (.struct vs) f.index ≠ .bad := by
  obtain ⟨q, hq0, hq, hall⟩ := lemma_flattenFs P tag [] 0 fs f hf
  have hidx : f.index = q := by simpa using hq
  obtain ⟨h, t, hfa, _⟩ := hall fs (fun k => by simp)
  rw [hidx]
  exact ⟨hq0, lemma_reach_valid q fs vs hw (by simp [hfa])⟩

end Rivaas.Bind
