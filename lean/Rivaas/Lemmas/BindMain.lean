import Rivaas.Model.Bind
import Rivaas.Model.BindObs
import Rivaas.Spec.Bind
import Rivaas.Lemmas.BindVal
import Rivaas.Lemmas.BindRef
import Rivaas.Lemmas.BindSound
/-
C04: assembly of the main theorem — induction on the nesting levels the depth limit still allows
(`lemma_bindAt_spec`), then the oracle `Spec.specOK` on the outcome of `bind` (`lemma_bind_meets_spec`).
-/
set_option linter.unusedSimpArgs false
set_option linter.unusedVariables false
namespace Rivaas.Bind

theorem lemma_keyed_top (s : Src) (l : Spec.Leaf) : keyed { src := s } l = l := by
  cases l
  simp [keyed]

/-- bindFieldsWithDepth at any depth meets the oracle for the struct it binds (by induction on the
    number of nesting levels the depth limit still allows) -/
theorem lemma_bindAt_spec (P : Params) (hP : FloatSane P) (cfg : Cfg) (tag : Tag) :
    ∀ (n d : Nat), cfg.maxDepth ≤ d + n → NestSpec P cfg tag (bindAt P cfg tag n) d
  | 0, d, hnd => by
    intro nfs ivs g hw hg hs
    have hn : d + 1 ≤ cfg.maxDepth → NestSpec P cfg tag (fun _ _ _ _ => Outcome.err Err.depth) (d + 1) := by
      intro h; omega
    have hfs := lemma_ref_fs P cfg _ tag hP g hs d hn nfs 0 ivs hw hg
    simp only [bindAt]
    rw [lemma_loop_eq_ref P cfg _ tag g d nfs ivs hw]
    cases hr : refFs P cfg (fun _ _ _ _ => Outcome.err Err.depth) tag g d nfs ivs with
    | inl rvs =>
      rw [hr] at hfs
      simp only [refOut, List.nil_append]
      exact hfs.2 ivs rvs (fun j => by simp) (fun j => by simp)
    | inr o =>
      rw [hr] at hfs
      cases o with
      | panic => exact hfs
      | err e =>
        simp only [refOut, Stop.out]
        exact hfs ivs (fun j => by simp)
  | n + 1, d, hnd => by
    intro nfs ivs g hw hg hs
    have hn : d + 1 ≤ cfg.maxDepth → NestSpec P cfg tag (bindAt P cfg tag n) (d + 1) := by
      intro _
      exact lemma_bindAt_spec P hP cfg tag n (d + 1) (by omega)
    have hfs := lemma_ref_fs P cfg _ tag hP g hs d hn nfs 0 ivs hw hg
    simp only [bindAt]
    rw [lemma_loop_eq_ref P cfg _ tag g d nfs ivs hw]
    cases hr : refFs P cfg (bindAt P cfg tag n) tag g d nfs ivs with
    | inl rvs =>
      rw [hr] at hfs
      simp only [refOut, List.nil_append]
      exact hfs.2 ivs rvs (fun j => by simp) (fun j => by simp)
    | inr o =>
      rw [hr] at hfs
      cases o with
      | panic => exact hfs
      | err e =>
        simp only [refOut, Stop.out]
        exact hfs ivs (fun j => by simp)

/-- **C04, main theorem.** For every struct type of the grammar (nested, embedded to any depth,
    pointers, slices, maps, aliases, defaults), every well-typed destination (zero or pre-filled),
    every source of the five kinds and every option setting, what the model of `binding` returns is
    admitted by the oracle: on success every leaf holds exactly the converted value of its own key,
    its default, or what it held before; every error names an offending field with an admissible
    class (unrepresentable value, slice / map / depth limit); binding never panics. -/
theorem lemma_bind_meets_spec (P : Params) (hP : FloatSane P) (cfg : Cfg) (tag : Tag) (fs : List Fld) (ivs : List Val)
    (src : Src) (hw : wts fs ivs = true) (hg : Spec.inGrammarFs fs = true) (hs : Spec.srcOK src = true) :
    Spec.specOK P cfg tag fs (.struct ivs) src (toObs (bind P cfg tag (.struct fs) (.struct ivs) src)) = true := by
  have hsp := lemma_bindAt_spec P hP cfg tag cfg.maxDepth 0 (by omega) fs ivs { src := src } hw hg hs
  simp only [Rivaas.Bind.bind]
  cases hr : bindAt P cfg tag cfg.maxDepth fs (.struct ivs) { src := src } 0 with
  | panic => rw [hr] at hsp; exact absurd hsp (by simp)
  | err e =>
    rw [hr] at hsp
    simp only [toObs, Spec.specOK, Spec.causes, List.contains_iff_mem, List.mem_append, List.mem_flatMap, List.mem_map,
      List.mem_filter, Spec.leavesOf, Spec.nodesOf, List.mem_filterMap, Spec.items]
    rcases hsp with ⟨l, hl, c, hc, hh⟩ | ⟨n, hn, hd, he⟩
    · left
      refine ⟨l, ⟨.leaf l, hl, rfl⟩, c, ?_, hc.symm⟩
      rw [lemma_keyed_top] at hh
      rcases hh with h | ⟨h1, h2⟩
      · exact Or.inl h
      · right
        simp only [h1, if_true, List.mem_cons, List.mem_nil_iff, or_false]
        exact h2
    · right
      exact ⟨n, ⟨⟨.node n, hn, rfl⟩, by simpa using hd⟩, he.symm⟩
  | ok v =>
    rw [hr] at hsp
    obtain ⟨h1, h2, h3⟩ := hsp
    simp only [toObs, Spec.specOK, Bool.and_eq_true, Bool.not_eq_true', List.all_eq_true, Bool.or_eq_true,
      List.any_eq_true, Spec.mustFail, Bool.or_eq_false_iff, List.any_eq_false, Spec.leavesOf, Spec.nodesOf,
      Spec.framesOf, List.mem_filterMap, Spec.items]
    refine ⟨⟨⟨?_, ?_⟩, ?_⟩, ?_⟩
    · rintro l ⟨x, hx, hxl⟩
      cases x with
      | node n => simp at hxl
      | frame f => simp at hxl
      | leaf l0 =>
        simp only [Option.some.injEq] at hxl
        subst hxl
        have := h1 l0 hx
        rw [lemma_keyed_top] at this
        rcases this with h | ⟨e, he, _⟩
        · simp [h]
        · cases hoks : (Spec.expect P cfg src (.struct ivs) l0).oks with
          | nil => rw [hoks] at he; cases he
          | cons _ _ => simp
    · rintro n ⟨x, hx, hxn⟩
      cases x with
      | leaf l => simp at hxn
      | frame f => simp at hxn
      | node n0 =>
        simp only [Option.some.injEq] at hxn
        subst hxn
        have := h2 n0 hx
        first
          | omega
          | (simp only [decide_eq_false_iff_not, Nat.not_lt]; omega)
          | (simp; omega)
    · rintro l ⟨x, hx, hxl⟩
      cases x with
      | node n => simp at hxl
      | frame f => simp at hxl
      | leaf l0 =>
        simp only [Option.some.injEq] at hxl
        subst hxl
        have := h1 l0 hx
        rw [lemma_keyed_top] at this
        rcases this with h | ⟨e, he, hh⟩
        · exact Or.inl h
        · exact Or.inr ⟨e, he, hh⟩
    · rintro f ⟨x, hx, hxf⟩
      cases x with
      | node n => simp at hxf
      | leaf l => simp at hxf
      | frame f0 =>
        simp only [Option.some.injEq] at hxf
        subst hxf
        exact h3 f0 hx


end Rivaas.Bind
