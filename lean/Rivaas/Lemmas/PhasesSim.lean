import Rivaas.Lemmas.PhasesCore
/-
C12 — the goroutine-level model against the trace monitor: a simulation relation `Rel` between the
model state and the monitor state that every scheduler step preserves, for every schedule.
-/
namespace Rivaas.Phases
open Rivaas.Phases.Spec

/-- model state vs monitor state -/
structure Rel (s : St) (m : Mon) : Prop where
  inv : Inv s.core
  serving : m.servingBegun = s.core.frozen
  accepted : m.accepted = s.core.objs
  cons : m.cons = s.core.cons
  names : m.names = s.core.named
  /-- a request parked at `serve.frozen` has returned from `Freeze()`: `freezeOnce` is done -/
  frozenPt : (∃ i : Nat, s.status[i]? = some Status.atFrozen) → s.core.fpc = .done

theorem lemma_rel_init (n : Nat) : Rel (St.init n) Mon.init := by
  refine ⟨lemma_inv_init, rfl, rfl, rfl, rfl, ?_⟩
  rintro ⟨i, hi⟩
  simp only [St.init, List.getElem?_replicate] at hi
  split at hi <;> simp at hi

/-! ### what an operation does to the fields the monitor mirrors -/

theorem lemma_reg_frozen (c : Core) (r : RouteId) : (registerRoute c r).frozen = c.frozen :=
  (lemma_reg_fields c r).2.2.2.2.2.2.1

theorem lemma_foldl_frozen (l : List RouteId) (c : Core) : (l.foldl registerRoute c).frozen = c.frozen :=
  (lemma_foldl_fields l c).2.2.2.2.2.2.1

/-- only `enterFreeze` changes the `frozen` flag -/
theorem lemma_frozen_step (c : Core) (op : Op) (h : op ≠ .enterFreeze) : (c.step op).frozen = c.frozen := by
  cases op with
  | enterFreeze => exact absurd rfl h
  | freezeCallWarmup =>
    simp only [Core.step]
    split
    · cases c.wpc <;> simp [drain]
    · rfl
  | enterWarmup => simp only [Core.step]; split <;> simp [drain]
  | warmupStep =>
    simp only [Core.step]
    cases c.wpc <;> simp [lemma_foldl_frozen]
  | freezeFinish => simp only [Core.step]; split <;> rfl
  | register r =>
    simp only [Core.step]
    split
    · rfl
    · split
      · rfl
      · split
        · rw [lemma_reg_frozen]
        · rfl
  | whereInt r =>
    simp only [Core.step]
    split
    · rfl
    · split
      · rfl
      · split
        · rw [lemma_reg_frozen]
        · rfl
  | setName r =>
    simp only [Core.step]
    split
    · rfl
    · split <;> rfl

/-- operations of the two `Once` bodies do not touch objects, constraints or names -/
def Op.isBody : Op → Bool
  | .enterFreeze | .freezeCallWarmup | .enterWarmup | .warmupStep | .freezeFinish => true
  | _ => false

theorem lemma_body_fields (c : Core) (op : Op) (h : op.isBody = true) :
    (c.step op).objs = c.objs ∧ (c.step op).cons = c.cons ∧ (c.step op).named = c.named := by
  cases op with
  | enterFreeze => simp only [Core.step]; split <;> simp
  | freezeCallWarmup =>
    simp only [Core.step]
    split
    · cases c.wpc <;> simp [drain]
    · simp
  | enterWarmup => simp only [Core.step]; split <;> simp [drain]
  | warmupStep =>
    simp only [Core.step]
    cases c.wpc <;> simp
    have := lemma_foldl_fields c.taken { c with taken := [], wpc := .drained }
    exact ⟨this.1, this.2.2.2.1, this.2.2.2.2.1⟩
  | freezeFinish => simp only [Core.step]; split <;> simp
  | register r => simp [Op.isBody] at h
  | whereInt r => simp [Op.isBody] at h
  | setName r => simp [Op.isBody] at h

/-- `freezeOnce` done is final -/
theorem lemma_done_stable (c : Core) (op : Op) (h : c.fpc = .done) : (c.step op).fpc = .done := by
  cases op with
  | enterFreeze => simp [Core.step, h]
  | freezeCallWarmup => simp [Core.step, h]
  | enterWarmup => simp only [Core.step]; split <;> simp [drain, h]
  | warmupStep =>
    simp only [Core.step]
    cases c.wpc <;> simp [h]
    exact (lemma_foldl_fields c.taken _).2.2.2.2.2.2.2.2.1
  | freezeFinish => simp [Core.step, h]
  | register r =>
    simp only [Core.step]
    split
    · exact h
    · split
      · exact h
      · split
        · exact (lemma_reg_fields _ r).2.2.2.2.2.2.2.2.1.trans h
        · exact h
  | whereInt r =>
    simp only [Core.step]
    split
    · exact h
    · split
      · exact h
      · split
        · exact (lemma_reg_fields _ r).2.2.2.2.2.2.2.2.1.trans h
        · exact h
  | setName r =>
    simp only [Core.step]
    split
    · exact h
    · split <;> exact h

/-! ### the monitor on a step that reports nothing -/

theorem lemma_next_none (m : Mon) (k : Kind) (i : Nat) (v : Vis) :
    m.next k { actor := i, vis := v, out := .none } =
      some (if v = .freezeFlags then { m with servingBegun := true } else m) := by
  cases k <;> simp [Mon.next]

/-! ### status bookkeeping -/

theorem lemma_setStatus_self (s : St) (i : Nat) (st : Status) (h : i < s.status.length) :
    (setStatus s i st).status[i]? = some st := by
  simp [setStatus, h]

theorem lemma_setStatus_core (s : St) (i : Nat) (st : Status) : (setStatus s i st).core = s.core := rfl

/-- no goroutine is parked at `serve.frozen` in the status list, except possibly those listed -/
def NoFrozenPt (l : List Status) : Prop := ∀ i : Nat, l[i]? ≠ some Status.atFrozen

theorem lemma_atFrozen_set (l : List Status) (i : Nat) (st : Status) (j : Nat)
    (h : (l.set i st)[j]? = some Status.atFrozen) : st = .atFrozen ∨ l[j]? = some Status.atFrozen := by
  by_cases hij : i = j
  · subst hij
    by_cases hl : i < l.length
    · simp [hl] at h; exact Or.inl h
    · simp [hl] at h
  · rw [List.getElem?_set_ne hij] at h
    exact Or.inr h

theorem lemma_atFrozen_wakeW (l : List Status) (j : Nat)
    (h : (l.map fun st => if st = .blockedW then .finished else st)[j]? = some Status.atFrozen) :
    l[j]? = some Status.atFrozen := by
  rw [List.getElem?_map] at h
  cases hj : l[j]? with
  | none => simp [hj] at h
  | some st =>
    simp only [hj, Option.map_some, Option.some.injEq] at h
    split at h
    · simp at h
    · rw [h]

/-! ### `Rel` is preserved when only flags / positions of the `Once` bodies move -/

theorem lemma_rel_body (s : St) (m : Mon) (hR : Rel s m) (op : Op) (hb : op.isBody = true)
    (status' : List Status) (w : Bool)
    (hfz : (∃ j : Nat, status'[j]? = some Status.atFrozen) → (s.core.step op).fpc = .done)
    (hne : op ≠ .enterFreeze) :
    Rel { core := s.core.step op, status := status', wByFreeze := w } m := by
  obtain ⟨h1, h2, h3⟩ := lemma_body_fields s.core op hb
  exact
    { inv := lemma_inv_step s.core op hR.inv
      serving := by show m.servingBegun = (s.core.step op).frozen
                    rw [lemma_frozen_step s.core op hne]; exact hR.serving
      accepted := by show m.accepted = (s.core.step op).objs; rw [h1]; exact hR.accepted
      cons := by show m.cons = (s.core.step op).cons; rw [h2]; exact hR.cons
      names := by show m.names = (s.core.step op).named; rw [h3]; exact hR.names
      frozenPt := hfz }

end Rivaas.Phases
