import Rivaas.Lemmas.PhasesCore
/-
C12 — the goroutine-level model against the trace monitor: a simulation relation `Rel` between the
model state and the monitor state that every scheduler step preserves, for every schedule.
-/
namespace Rivaas.Phases
open Rivaas.Phases.Spec

/-- model state vs monitor state -/
structure Rel (s : St) (m : Mon) : Prop where
  inv : Inv s.core
  serving : m.servingBegun = s.core.frozen
  accepted : m.accepted = s.core.objs
  cons : m.cons = s.core.cons
  names : m.names = s.core.named
  /-- a request parked at `serve.frozen` has returned from `Freeze()`: `freezeOnce` is done -/
  frozenPt : (∃ i : Nat, s.status[i]? = some Status.atFrozen) → s.core.fpc = .done

theorem lemma_rel_init (n : Nat) : Rel (St.init n) Mon.init := by
  refine ⟨lemma_inv_init, rfl, rfl, rfl, rfl, ?_⟩
  rintro ⟨i, hi⟩
  simp only [St.init, List.getElem?_replicate] at hi
  split at hi <;> simp at hi

/-! ### what an operation does to the fields the monitor mirrors -/

theorem lemma_reg_frozen (c : Core) (r : RouteId) : (registerRoute c r).frozen = c.frozen :=
  (lemma_reg_fields c r).2.2.2.2.2.2.1

theorem lemma_foldl_frozen (l : List RouteId) (c : Core) : (l.foldl registerRoute c).frozen = c.frozen :=
  (lemma_foldl_fields l c).2.2.2.2.2.2.1

/-- only `enterFreeze` changes the `frozen` flag -/
theorem lemma_frozen_step (c : Core) (op : Op) (h : op ≠ .enterFreeze) : (c.step op).frozen = c.frozen := by
  cases op with
  | enterFreeze => exact absurd rfl h
  | freezeCallWarmup =>
    simp only [Core.step]
    split
    · cases c.wpc <;> simp [drain]
    · rfl
  | enterWarmup => simp only [Core.step]; split <;> simp [drain]
  | warmupStep =>
    simp only [Core.step]
    cases c.wpc <;> simp [lemma_foldl_frozen]
  | freezeFinish => simp only [Core.step]; split <;> rfl
  | register r =>
    simp only [Core.step]
    split
    · rfl
    · split
      · rfl
      · split
        · rw [lemma_reg_frozen]
        · rfl
  | whereInt r =>
    simp only [Core.step]
    split
    · rfl
    · split
      · rfl
      · split
        · rw [lemma_reg_frozen]
        · rfl
  | setName r =>
    simp only [Core.step]
    split
    · rfl
    · split <;> rfl

/-- operations of the two `Once` bodies do not touch objects, constraints or names -/
def Op.isBody : Op → Bool
  | .enterFreeze | .freezeCallWarmup | .enterWarmup | .warmupStep | .freezeFinish => true
  | _ => false

theorem lemma_body_fields (c : Core) (op : Op) (h : op.isBody = true) :
    (c.step op).objs = c.objs ∧ (c.step op).cons = c.cons ∧ (c.step op).named = c.named := by
  cases op with
  | enterFreeze => simp only [Core.step]; split <;> simp
  | freezeCallWarmup =>
    simp only [Core.step]
    split
    · cases c.wpc <;> simp [drain]
    · simp
  | enterWarmup => simp only [Core.step]; split <;> simp [drain]
  | warmupStep =>
    simp only [Core.step]
    cases c.wpc <;> simp
    have := lemma_foldl_fields c.taken { c with taken := [], wpc := .drained }
    exact ⟨this.1, this.2.2.2.1, this.2.2.2.2.1⟩
  | freezeFinish => simp only [Core.step]; split <;> simp
  | register r => simp [Op.isBody] at h
  | whereInt r => simp [Op.isBody] at h
  | setName r => simp [Op.isBody] at h

/-- `freezeOnce` done is final -/
theorem lemma_done_stable (c : Core) (op : Op) (h : c.fpc = .done) : (c.step op).fpc = .done := by
  cases op with
  | enterFreeze => simp [Core.step, h]
  | freezeCallWarmup => simp [Core.step, h]
  | enterWarmup => simp only [Core.step]; split <;> simp [drain, h]
  | warmupStep =>
    simp only [Core.step]
    cases c.wpc <;> simp [h]
    exact (lemma_foldl_fields c.taken _).2.2.2.2.2.2.2.2.1
  | freezeFinish => simp [Core.step, h]
  | register r =>
    simp only [Core.step]
    split
    · exact h
    · split
      · exact h
      · split
        · exact (lemma_reg_fields _ r).2.2.2.2.2.2.2.2.1.trans h
        · exact h
  | whereInt r =>
    simp only [Core.step]
    split
    · exact h
    · split
      · exact h
      · split
        · exact (lemma_reg_fields _ r).2.2.2.2.2.2.2.2.1.trans h
        · exact h
  | setName r =>
    simp only [Core.step]
    split
    · exact h
    · split <;> exact h

/-! ### the monitor on a step that reports nothing -/

theorem lemma_next_none (m : Mon) (k : Kind) (i : Nat) (v : Vis) :
    m.next k { actor := i, vis := v, out := .none } =
      some (if v = .freezeFlags then { m with servingBegun := true } else m) := by
  cases k <;> simp [Mon.next]

/-! ### status bookkeeping -/

theorem lemma_setStatus_self (s : St) (i : Nat) (st : Status) (h : i < s.status.length) :
    (setStatus s i st).status[i]? = some st := by
  simp [setStatus, h]

theorem lemma_setStatus_core (s : St) (i : Nat) (st : Status) : (setStatus s i st).core = s.core := rfl

/-- no goroutine is parked at `serve.frozen` in the status list, except possibly those listed -/
def NoFrozenPt (l : List Status) : Prop := ∀ i : Nat, l[i]? ≠ some Status.atFrozen

theorem lemma_atFrozen_set (l : List Status) (i : Nat) (st : Status) (j : Nat)
    (h : (l.set i st)[j]? = some Status.atFrozen) : st = .atFrozen ∨ l[j]? = some Status.atFrozen := by
  by_cases hij : i = j
  · subst hij
    by_cases hl : i < l.length
    · simp [hl] at h; exact Or.inl h
    · simp [hl] at h
  · rw [List.getElem?_set_ne hij] at h
    exact Or.inr h

theorem lemma_atFrozen_wakeW (l : List Status) (j : Nat)
    (h : (l.map fun st => if st = .blockedW then .finished else st)[j]? = some Status.atFrozen) :
    l[j]? = some Status.atFrozen := by
  rw [List.getElem?_map] at h
  cases hj : l[j]? with
  | none => simp [hj] at h
  | some st =>
    simp only [hj, Option.map_some, Option.some.injEq] at h
    split at h
    · simp at h
    · rw [h]

/-! ### `Rel` is preserved when only flags / positions of the `Once` bodies move -/

theorem lemma_rel_body (s : St) (m : Mon) (hR : Rel s m) (op : Op) (hb : op.isBody = true)
    (status' : List Status) (w : Bool)
    (hfz : (∃ j : Nat, status'[j]? = some Status.atFrozen) → (s.core.step op).fpc = .done)
    (hne : op ≠ .enterFreeze) :
    Rel { core := s.core.step op, status := status', wByFreeze := w } m := by
  obtain ⟨h1, h2, h3⟩ := lemma_body_fields s.core op hb
  exact
    { inv := lemma_inv_step s.core op hR.inv
      serving := by show m.servingBegun = (s.core.step op).frozen
                    rw [lemma_frozen_step s.core op hne]; exact hR.serving
      accepted := by show m.accepted = (s.core.step op).objs; rw [h1]; exact hR.accepted
      cons := by show m.cons = (s.core.step op).cons; rw [h2]; exact hR.cons
      names := by show m.names = (s.core.step op).named; rw [h3]; exact hR.names
      frozenPt := hfz }


/-! ### small transitions -/

theorem lemma_rel_setStatus (s : St) (m : Mon) (hR : Rel s m) (i : Nat) (st' : Status)
    (h : st' ≠ .atFrozen ∨ s.core.fpc = .done) : Rel (setStatus s i st') m :=
  { inv := hR.inv, serving := hR.serving, accepted := hR.accepted, cons := hR.cons, names := hR.names
    frozenPt := by
      rintro ⟨j, hj⟩
      rcases h with h | h
      · rcases lemma_atFrozen_set s.status i st' j hj with h1 | h1
        · exact absurd h1 h
        · exact hR.frozenPt ⟨j, h1⟩
      · exact h }

theorem lemma_wpcVis_ne (w : WPc) : wpcVis w ≠ .freezeFlags := by cases w <;> simp [wpcVis]

theorem lemma_visFF_frozen (s : St) (i : Nat) (hI : Inv s.core) (h : visOf s i = .freezeFlags) :
    s.core.frozen = true := by
  unfold visOf at h
  cases hs : s.status[i]? with
  | none => simp [hs] at h
  | some st =>
    simp only [hs] at h
    cases st <;> simp only [vis] at h <;> try (simp at h; done)
    · -- inFreeze
      cases hf : s.core.fpc with
      | flags => exact hI.frozen_iff.2 (by simp [hf])
      | idle => simp [hf] at h
      | tail => simp [hf] at h
      | done => simp [hf] at h
      | inWarmup =>
        simp only [hf] at h
        split at h
        · exact absurd h (lemma_wpcVis_ne _)
        · simp at h
    · -- inWarmup
      exact absurd h (lemma_wpcVis_ne _)

theorem lemma_rel_vis (s : St) (m : Mon) (hR : Rel s m) (i : Nat) :
    Rel s (if visOf s i = .freezeFlags then { m with servingBegun := true } else m) := by
  split
  · rename_i h
    have hf := lemma_visFF_frozen s i hR.inv h
    exact { inv := hR.inv, serving := by simp [hf], accepted := hR.accepted, cons := hR.cons,
            names := hR.names, frozenPt := hR.frozenPt }
  · exact hR

/-- a step that reports nothing and leaves the monitor's view unchanged -/
theorem lemma_quiet (m : Mon) (k : Kind) (i : Nat) (s' : St) (hR : Rel s' m) :
    ∃ m', m.next k { actor := i, vis := visOf s' i, out := .none } = some m' ∧ Rel s' m' :=
  ⟨_, lemma_next_none m k i _, lemma_rel_vis s' m hR i⟩

theorem lemma_vis_finished (s : St) (i : Nat) (h : s.status[i]? = some .finished) : visOf s i = .done := by
  simp [visOf, h, vis]

theorem lemma_stable_atFrozen (s : St) (m : Mon) (hR : Rel s m) (op : Op) (l : List Status)
    (h : (∃ j : Nat, l[j]? = some Status.atFrozen) → ∃ j : Nat, s.status[j]? = some Status.atFrozen) :
    (∃ j : Nat, l[j]? = some Status.atFrozen) → (s.core.step op).fpc = .done :=
  fun hx => lemma_done_stable s.core op (hR.frozenPt (h hx))

/-! ### `callFreeze` -/

theorem lemma_callFreeze (s : St) (m : Mon) (hR : Rel s m) (i : Nat) (k : Kind) (hi : i < s.status.length) :
    ∃ m', m.next k { actor := i, vis := visOf (callFreeze s i k) i, out := .none } = some m' ∧
      Rel (callFreeze s i k) m' := by
  unfold callFreeze
  cases hf : s.core.fpc with
  | done =>
    simp only
    exact lemma_quiet m k i _ (lemma_rel_setStatus s m hR i _ (Or.inr hf))
  | idle =>
    simp only
    -- the goroutine enters the `freezeOnce` body: flags stored, parked at `freeze.flags`
    have hcore : (s.core.step .enterFreeze) = { s.core with serving := true, frozen := true, fpc := .flags } := by
      simp [Core.step, hf]
    have hvis : visOf (setStatus { s with core := s.core.step .enterFreeze } i .inFreeze) i = .freezeFlags := by
      simp [visOf, setStatus, hi, vis, hcore]
    refine ⟨{ m with servingBegun := true }, ?_, ?_⟩
    · rw [lemma_next_none, hvis]; simp
    · have hb := lemma_body_fields s.core .enterFreeze rfl
      exact
        { inv := lemma_inv_step s.core .enterFreeze hR.inv
          serving := by show true = (s.core.step .enterFreeze).frozen; rw [hcore]
          accepted := by show m.accepted = (s.core.step .enterFreeze).objs; rw [hb.1]; exact hR.accepted
          cons := by show m.cons = (s.core.step .enterFreeze).cons; rw [hb.2.1]; exact hR.cons
          names := by show m.names = (s.core.step .enterFreeze).named; rw [hb.2.2]; exact hR.names
          frozenPt := by
            rintro ⟨j, hj⟩
            rcases lemma_atFrozen_set s.status i .inFreeze j hj with h1 | h1
            · cases h1
            · have := hR.frozenPt ⟨j, h1⟩
              rw [hf] at this
              cases this }
  | flags =>
    simp only
    exact lemma_quiet m k i _ (lemma_rel_setStatus s m hR i _ (Or.inl (by simp)))
  | inWarmup =>
    simp only
    exact lemma_quiet m k i _ (lemma_rel_setStatus s m hR i _ (Or.inl (by simp)))
  | tail =>
    simp only
    exact lemma_quiet m k i _ (lemma_rel_setStatus s m hR i _ (Or.inl (by simp)))


/-! ### the `Once` bodies -/

theorem lemma_body_step (s : St) (m : Mon) (hR : Rel s m) (op : Op) (hb : op.isBody = true)
    (hne : op ≠ .enterFreeze) (l : List Status) (w : Bool)
    (h : (∃ j : Nat, l[j]? = some Status.atFrozen) → ∃ j : Nat, s.status[j]? = some Status.atFrozen) :
    Rel { core := s.core.step op, status := l, wByFreeze := w } m :=
  lemma_rel_body s m hR op hb l w (lemma_stable_atFrozen s m hR op l h) hne

theorem lemma_wakeW_atFrozen (s : St)
    (h : ∃ j : Nat, (wakeW s).status[j]? = some Status.atFrozen) : ∃ j : Nat, s.status[j]? = some Status.atFrozen := by
  obtain ⟨j, hj⟩ := h
  exact ⟨j, lemma_atFrozen_wakeW s.status j hj⟩

/-- the goroutine that owns the `freezeOnce` body -/
theorem lemma_inFreeze (kinds : List Kind) (s : St) (m : Mon) (hR : Rel s m) (i : Nat) (k : Kind) :
    ∃ m', m.next k { actor := i, vis := visOf (stepActor kinds s i k .inFreeze).1 i,
                     out := (stepActor kinds s i k .inFreeze).2 } = some m' ∧
      Rel (stepActor kinds s i k .inFreeze).1 m' := by
  have hstep : stepActor kinds s i k .inFreeze =
      ((match s.core.fpc with
        | .flags => { s with core := s.core.step .freezeCallWarmup, wByFreeze := decide (s.core.wpc = .idle) }
        | .inWarmup =>
          if s.wByFreeze then
            (if s.core.wpc = .compiled then wakeW { s with core := s.core.step .warmupStep }
             else { s with core := s.core.step .warmupStep })
          else s
        | .tail => setStatus (wakeF kinds { s with core := s.core.step .freezeFinish }) i (afterFreeze k)
        | _ => s), .none) := by
    cases k <;> rfl
  rw [hstep]
  simp only
  cases hf : s.core.fpc with
  | idle => exact lemma_quiet m k i s hR
  | done => exact lemma_quiet m k i s hR
  | flags =>
    exact lemma_quiet m k i _ (lemma_body_step s m hR .freezeCallWarmup rfl (by simp) s.status _ id)
  | inWarmup =>
    simp only
    split
    · split
      · refine lemma_quiet m k i _ ?_
        have := lemma_body_step s m hR .warmupStep rfl (by simp)
          (wakeW { s with core := s.core.step .warmupStep }).status s.wByFreeze
          (fun hx => lemma_wakeW_atFrozen { s with core := s.core.step .warmupStep } hx)
        exact this
      · exact lemma_quiet m k i _ (lemma_body_step s m hR .warmupStep rfl (by simp) s.status _ id)
    · exact lemma_quiet m k i s hR
  | tail =>
    simp only
    refine lemma_quiet m k i _ ?_
    have hdone : (s.core.step .freezeFinish).fpc = .done := by simp [Core.step, hf]
    exact lemma_rel_body s m hR .freezeFinish rfl _ _ (fun _ => hdone) (by simp)

/-- the goroutine that owns the `warmupOnce` body through an explicit `Warmup()` -/
theorem lemma_inWarmup (kinds : List Kind) (s : St) (m : Mon) (hR : Rel s m) (i : Nat) (k : Kind) :
    ∃ m', m.next k { actor := i, vis := visOf (stepActor kinds s i k .inWarmup).1 i,
                     out := (stepActor kinds s i k .inWarmup).2 } = some m' ∧
      Rel (stepActor kinds s i k .inWarmup).1 m' := by
  have hstep : stepActor kinds s i k .inWarmup =
      (if s.core.wpc = .compiled then setStatus (wakeW { s with core := s.core.step .warmupStep }) i .finished
       else { s with core := s.core.step .warmupStep }, .none) := by
    cases k <;> rfl
  rw [hstep]
  simp only
  split
  · refine lemma_quiet m k i _ ?_
    refine lemma_body_step s m hR .warmupStep rfl (by simp) _ _ ?_
    rintro ⟨j, hj⟩
    rcases lemma_atFrozen_set _ i .finished j hj with h1 | h1
    · cases h1
    · exact lemma_wakeW_atFrozen { s with core := s.core.step .warmupStep } ⟨j, h1⟩
  · exact lemma_quiet m k i _ (lemma_body_step s m hR .warmupStep rfl (by simp) s.status _ id)


/-! ### mutations -/

theorem lemma_setStatus_vis_finished (s : St) (i : Nat) (hi : i < s.status.length) :
    visOf (setStatus s i .finished) i = .done :=
  lemma_vis_finished _ i (lemma_setStatus_self s i .finished hi)

theorem lemma_register_objs (c : Core) (r : RouteId) (h1 : c.objs.contains r = false)
    (h2 : (c.serving || c.frozen) = false) :
    (c.step (.register r)).objs = r :: c.objs ∧ (c.step (.register r)).cons = c.cons ∧
    (c.step (.register r)).named = c.named := by
  simp only [Core.step, h1, h2, Bool.false_eq_true, if_false]
  split
  · exact ⟨(lemma_reg_fields _ r).1, (lemma_reg_fields _ r).2.2.2.1, (lemma_reg_fields _ r).2.2.2.2.1⟩
  · exact ⟨rfl, rfl, rfl⟩

theorem lemma_next_register (m : Mon) (i : Nat) (r : RouteId) (res : Res) :
    m.next (.register r) { actor := i, vis := .done, out := .mut res } =
      (if res = .na then (if m.accepted.contains r then some m else none)
       else if m.accepted.contains r then none
       else if mutationOK m true res then
         some (if res = .accepted then { m with accepted := r :: m.accepted } else m)
       else none) := by
  simp [Mon.next]

theorem lemma_next_where (m : Mon) (i : Nat) (r : RouteId) (res : Res) :
    m.next (.whereInt r) { actor := i, vis := .done, out := .mut res } =
      (if mutationOK m (m.accepted.contains r) res then
         some (if res = .accepted then { m with cons := r :: m.cons } else m)
       else none) := by
  simp [Mon.next]

theorem lemma_next_name (m : Mon) (i : Nat) (r : RouteId) (res : Res) :
    m.next (.setName r) { actor := i, vis := .done, out := .mut res } =
      (if mutationOK m (m.accepted.contains r) res then
         some (if res = .accepted then { m with names := r :: m.names } else m)
       else none) := by
  simp [Mon.next]

theorem lemma_register (s : St) (m : Mon) (hR : Rel s m) (i : Nat) (r : RouteId) (hi : i < s.status.length) :
    ∃ m', m.next (.register r)
        { actor := i, vis := visOf (setStatus { s with core := s.core.step (.register r) } i .finished) i,
          out := .mut (registerRes s.core r) } = some m' ∧
      Rel (setStatus { s with core := s.core.step (.register r) } i .finished) m' := by
  rw [lemma_setStatus_vis_finished { s with core := s.core.step (.register r) } i hi, lemma_next_register]
  have hsf := hR.inv.serving_frozen
  by_cases hobj : s.core.objs.contains r = true
  · -- not a new object
    have hres : registerRes s.core r = .na := by simp only [registerRes, hobj, ↓reduceIte]
    have hc : s.core.step (.register r) = s.core := by simp only [Core.step, hobj, ↓reduceIte]
    have hacc : m.accepted.contains r = true := by rw [hR.accepted]; exact hobj
    rw [hc, hres]
    refine ⟨m, ?_, lemma_rel_setStatus s m hR i _ (Or.inl (by simp))⟩
    simp only [hacc, ↓reduceIte]
  · have hobj' : s.core.objs.contains r = false := by simpa using hobj
    have hacc : m.accepted.contains r = false := by rw [hR.accepted]; exact hobj'
    have hmem : r ∉ m.accepted := by simpa using hacc
    by_cases hsv : (s.core.serving || s.core.frozen) = true
    · -- rejected
      have hres : registerRes s.core r = .rejected := by
        simp only [registerRes, hobj', hsv, ↓reduceIte, Bool.false_eq_true]
      have hc : s.core.step (.register r) = s.core := by
        simp only [Core.step, hobj', hsv, ↓reduceIte, Bool.false_eq_true]
      have hfr : s.core.frozen = true := by
        rw [hsf] at hsv; simpa using hsv
      have hsb : m.servingBegun = true := by rw [hR.serving]; exact hfr
      rw [hc, hres]
      refine ⟨m, ?_, lemma_rel_setStatus s m hR i _ (Or.inl (by simp))⟩
      simp [hmem, mutationOK, hsb]
    · -- accepted
      have hsv' : (s.core.serving || s.core.frozen) = false := by simpa using hsv
      have hres : registerRes s.core r = .accepted := by
        simp only [registerRes, hobj', hsv', ↓reduceIte, Bool.false_eq_true]
      have hfr : s.core.frozen = false := by
        rw [hsf] at hsv'; simpa using hsv'
      have hsb : m.servingBegun = false := by rw [hR.serving]; exact hfr
      obtain ⟨h1, h2, h3⟩ := lemma_register_objs s.core r hobj' hsv'
      rw [hres]
      refine ⟨{ m with accepted := r :: m.accepted }, ?_, ?_⟩
      · simp [hmem, mutationOK, hsb]
      · exact
          { inv := lemma_inv_step s.core (.register r) hR.inv
            serving := by show m.servingBegun = (s.core.step (.register r)).frozen
                          rw [lemma_frozen_step _ _ (by simp)]; exact hR.serving
            accepted := by show r :: m.accepted = (s.core.step (.register r)).objs
                           rw [h1, hR.accepted]
            cons := by show m.cons = (s.core.step (.register r)).cons; rw [h2]; exact hR.cons
            names := by show m.names = (s.core.step (.register r)).named; rw [h3]; exact hR.names
            frozenPt := by
              rintro ⟨j, hj⟩
              rcases lemma_atFrozen_set s.status i .finished j hj with h1 | h1
              · cases h1
              · exact lemma_done_stable _ _ (hR.frozenPt ⟨j, h1⟩) }

/-- the unlocked flag test at the top of a registration -/
theorem lemma_register_check (kinds : List Kind) (s : St) (m : Mon) (hR : Rel s m) (i : Nat) (r : RouteId)
    (hi : i < s.status.length) :
    ∃ m', m.next (.register r)
        { actor := i, vis := visOf (stepActor kinds s i (.register r) .start).1 i,
          out := (stepActor kinds s i (.register r) .start).2 } = some m' ∧
      Rel (stepActor kinds s i (.register r) .start).1 m' := by
  have hsf := hR.inv.serving_frozen
  simp only [stepActor]
  by_cases hobj : s.core.objs.contains r = true
  · have hres : registerRes s.core r = .na := by simp only [registerRes, hobj, ↓reduceIte]
    have hacc : m.accepted.contains r = true := by rw [hR.accepted]; exact hobj
    rw [hres]
    simp only
    rw [lemma_setStatus_vis_finished s i hi, lemma_next_register]
    refine ⟨m, ?_, lemma_rel_setStatus s m hR i _ (Or.inl (by simp))⟩
    simp only [hacc, ↓reduceIte]
  · have hobj' : s.core.objs.contains r = false := by simpa using hobj
    have hacc : m.accepted.contains r = false := by rw [hR.accepted]; exact hobj'
    have hmem : r ∉ m.accepted := by simpa using hacc
    by_cases hsv : (s.core.serving || s.core.frozen) = true
    · have hres : registerRes s.core r = .rejected := by
        simp only [registerRes, hobj', hsv, ↓reduceIte, Bool.false_eq_true]
      have hfr : s.core.frozen = true := by
        rw [hsf] at hsv; simpa using hsv
      have hsb : m.servingBegun = true := by rw [hR.serving]; exact hfr
      rw [hres]
      simp only
      rw [lemma_setStatus_vis_finished s i hi, lemma_next_register]
      refine ⟨m, ?_, lemma_rel_setStatus s m hR i _ (Or.inl (by simp))⟩
      simp [hmem, mutationOK, hsb]
    · have hsv' : (s.core.serving || s.core.frozen) = false := by simpa using hsv
      have hres : registerRes s.core r = .accepted := by
        simp only [registerRes, hobj', hsv', ↓reduceIte, Bool.false_eq_true]
      rw [hres]
      simp only
      exact lemma_quiet m _ i _ (lemma_rel_setStatus s m hR i _ (Or.inl (by simp)))

theorem lemma_where_fields (c : Core) (r : RouteId) (h1 : c.objs.contains r = true) (h2 : c.frozen = false) :
    (c.step (.whereInt r)).objs = c.objs ∧ (c.step (.whereInt r)).cons = r :: c.cons ∧
    (c.step (.whereInt r)).named = c.named := by
  simp only [Core.step, h1, h2, Bool.not_true, Bool.false_eq_true, ↓reduceIte]
  split
  · exact ⟨(lemma_reg_fields _ r).1, (lemma_reg_fields _ r).2.2.2.1, (lemma_reg_fields _ r).2.2.2.2.1⟩
  · exact ⟨rfl, rfl, rfl⟩

theorem lemma_whereInt (s : St) (m : Mon) (hR : Rel s m) (i : Nat) (r : RouteId) (hi : i < s.status.length) :
    ∃ m', m.next (.whereInt r)
        { actor := i, vis := visOf (setStatus { s with core := s.core.step (.whereInt r) } i .finished) i,
          out := .mut (mutateRes s.core r) } = some m' ∧
      Rel (setStatus { s with core := s.core.step (.whereInt r) } i .finished) m' := by
  rw [lemma_setStatus_vis_finished { s with core := s.core.step (.whereInt r) } i hi, lemma_next_where]
  by_cases hobj : s.core.objs.contains r = true
  · have hacc : m.accepted.contains r = true := by rw [hR.accepted]; exact hobj
    have hmem : r ∈ m.accepted := by simpa using hacc
    by_cases hfr : s.core.frozen = true
    · have hres : mutateRes s.core r = .rejected := by
        simp only [mutateRes, hobj, hfr, Bool.not_true, Bool.false_eq_true, ↓reduceIte]
      have hc : s.core.step (.whereInt r) = s.core := by
        simp only [Core.step, hobj, hfr, Bool.not_true, Bool.false_eq_true, ↓reduceIte]
      have hsb : m.servingBegun = true := by rw [hR.serving]; exact hfr
      rw [hc, hres]
      refine ⟨m, ?_, lemma_rel_setStatus s m hR i _ (Or.inl (by simp))⟩
      simp [hmem, mutationOK, hsb]
    · have hfr' : s.core.frozen = false := by simpa using hfr
      have hres : mutateRes s.core r = .accepted := by
        simp only [mutateRes, hobj, hfr', Bool.not_true, Bool.false_eq_true, ↓reduceIte]
      have hsb : m.servingBegun = false := by rw [hR.serving]; exact hfr'
      obtain ⟨h1, h2, h3⟩ := lemma_where_fields s.core r hobj hfr'
      rw [hres]
      refine ⟨{ m with cons := r :: m.cons }, ?_, ?_⟩
      · simp [hmem, mutationOK, hsb]
      · exact
          { inv := lemma_inv_step s.core (.whereInt r) hR.inv
            serving := by show m.servingBegun = (s.core.step (.whereInt r)).frozen
                          rw [lemma_frozen_step _ _ (by simp)]; exact hR.serving
            accepted := by show m.accepted = (s.core.step (.whereInt r)).objs; rw [h1]; exact hR.accepted
            cons := by show r :: m.cons = (s.core.step (.whereInt r)).cons; rw [h2, hR.cons]
            names := by show m.names = (s.core.step (.whereInt r)).named; rw [h3]; exact hR.names
            frozenPt := by
              rintro ⟨j, hj⟩
              rcases lemma_atFrozen_set s.status i .finished j hj with h1 | h1
              · cases h1
              · exact lemma_done_stable _ _ (hR.frozenPt ⟨j, h1⟩) }
  · have hobj' : s.core.objs.contains r = false := by simpa using hobj
    have hacc : m.accepted.contains r = false := by rw [hR.accepted]; exact hobj'
    have hmem : r ∉ m.accepted := by simpa using hacc
    have hres : mutateRes s.core r = .na := by
      simp only [mutateRes, hobj', Bool.not_false, ↓reduceIte]
    have hc : s.core.step (.whereInt r) = s.core := by
      simp only [Core.step, hobj', Bool.not_false, ↓reduceIte]
    rw [hc, hres]
    refine ⟨m, ?_, lemma_rel_setStatus s m hR i _ (Or.inl (by simp))⟩
    simp [hmem, mutationOK]

theorem lemma_setName (s : St) (m : Mon) (hR : Rel s m) (i : Nat) (r : RouteId) (hi : i < s.status.length) :
    ∃ m', m.next (.setName r)
        { actor := i, vis := visOf (setStatus { s with core := s.core.step (.setName r) } i .finished) i,
          out := .mut (mutateRes s.core r) } = some m' ∧
      Rel (setStatus { s with core := s.core.step (.setName r) } i .finished) m' := by
  rw [lemma_setStatus_vis_finished { s with core := s.core.step (.setName r) } i hi, lemma_next_name]
  by_cases hobj : s.core.objs.contains r = true
  · have hacc : m.accepted.contains r = true := by rw [hR.accepted]; exact hobj
    have hmem : r ∈ m.accepted := by simpa using hacc
    by_cases hfr : s.core.frozen = true
    · have hres : mutateRes s.core r = .rejected := by
        simp only [mutateRes, hobj, hfr, Bool.not_true, Bool.false_eq_true, ↓reduceIte]
      have hc : s.core.step (.setName r) = s.core := by
        simp only [Core.step, hobj, hfr, Bool.not_true, Bool.false_eq_true, ↓reduceIte]
      have hsb : m.servingBegun = true := by rw [hR.serving]; exact hfr
      rw [hc, hres]
      refine ⟨m, ?_, lemma_rel_setStatus s m hR i _ (Or.inl (by simp))⟩
      simp [hmem, mutationOK, hsb]
    · have hfr' : s.core.frozen = false := by simpa using hfr
      have hres : mutateRes s.core r = .accepted := by
        simp only [mutateRes, hobj, hfr', Bool.not_true, Bool.false_eq_true, ↓reduceIte]
      have hsb : m.servingBegun = false := by rw [hR.serving]; exact hfr'
      have hc : s.core.step (.setName r) = { s.core with named := r :: s.core.named } := by
        simp only [Core.step, hobj, hfr', Bool.not_true, Bool.false_eq_true, ↓reduceIte]
      rw [hres]
      refine ⟨{ m with names := r :: m.names }, ?_, ?_⟩
      · simp [hmem, mutationOK, hsb]
      · exact
          { inv := lemma_inv_step s.core (.setName r) hR.inv
            serving := by show m.servingBegun = (s.core.step (.setName r)).frozen
                          rw [lemma_frozen_step _ _ (by simp)]; exact hR.serving
            accepted := by show m.accepted = (s.core.step (.setName r)).objs; rw [hc]; exact hR.accepted
            cons := by show m.cons = (s.core.step (.setName r)).cons; rw [hc]; exact hR.cons
            names := by show r :: m.names = (s.core.step (.setName r)).named; rw [hc, hR.names]
            frozenPt := by
              rintro ⟨j, hj⟩
              rcases lemma_atFrozen_set s.status i .finished j hj with h1 | h1
              · cases h1
              · exact lemma_done_stable _ _ (hR.frozenPt ⟨j, h1⟩) }
  · have hobj' : s.core.objs.contains r = false := by simpa using hobj
    have hacc : m.accepted.contains r = false := by rw [hR.accepted]; exact hobj'
    have hmem : r ∉ m.accepted := by simpa using hacc
    have hres : mutateRes s.core r = .na := by
      simp only [mutateRes, hobj', Bool.not_false, ↓reduceIte]
    have hc : s.core.step (.setName r) = s.core := by
      simp only [Core.step, hobj', Bool.not_false, ↓reduceIte]
    rw [hc, hres]
    refine ⟨m, ?_, lemma_rel_setStatus s m hR i _ (Or.inl (by simp))⟩
    simp [hmem, mutationOK]

theorem lemma_urlFor (s : St) (m : Mon) (hR : Rel s m) (i : Nat) (r : RouteId) (hi : i < s.status.length) :
    ∃ m', m.next (.urlFor r)
        { actor := i, vis := visOf (setStatus s i .finished) i, out := .url (urlFor s.core r) } = some m' ∧
      Rel (setStatus s i .finished) m' := by
  rw [lemma_setStatus_vis_finished _ i hi]
  refine ⟨m, ?_, lemma_rel_setStatus s m hR i _ (Or.inl (by simp))⟩
  unfold urlFor
  by_cases hfr : s.core.frozen = true
  · by_cases hn : s.core.named.contains r = true
    · have hm : r ∈ s.core.named := by simpa using hn
      simp [Mon.next, hfr, hm, hR.names, hR.serving]
    · have hm : r ∉ s.core.named := by simpa using hn
      simp [Mon.next, hfr, hm, hR.names]
  · have hfr' : s.core.frozen = false := by simpa using hfr
    simp [Mon.next, hfr', hR.serving]

theorem lemma_next_bad (m : Mon) (i : Nat) (r : RouteId) (res : Res) :
    m.next (.whereBad r) { actor := i, vis := .done, out := .mut res } =
      (if mutationOK m (m.accepted.contains r) res then some m else none) := by
  simp [Mon.next]

theorem lemma_whereBad (s : St) (m : Mon) (hR : Rel s m) (i : Nat) (r : RouteId) (hi : i < s.status.length) :
    ∃ m', m.next (.whereBad r)
        { actor := i, vis := visOf (setStatus s i .finished) i, out := .mut (mutateRes s.core r) } = some m' ∧
      Rel (setStatus s i .finished) m' := by
  rw [lemma_setStatus_vis_finished s i hi, lemma_next_bad]
  refine ⟨m, ?_, lemma_rel_setStatus s m hR i _ (Or.inl (by simp))⟩
  by_cases hobj : s.core.objs.contains r = true
  · have hacc : m.accepted.contains r = true := by rw [hR.accepted]; exact hobj
    have hmem : r ∈ m.accepted := by simpa using hacc
    by_cases hfr : s.core.frozen = true
    · have hres : mutateRes s.core r = .rejected := by
        simp only [mutateRes, hobj, hfr, Bool.not_true, Bool.false_eq_true, ↓reduceIte]
      have hsb : m.servingBegun = true := by rw [hR.serving]; exact hfr
      rw [hres]; simp [hmem, mutationOK, hsb]
    · have hfr' : s.core.frozen = false := by simpa using hfr
      have hres : mutateRes s.core r = .accepted := by
        simp only [mutateRes, hobj, hfr', Bool.not_true, Bool.false_eq_true, ↓reduceIte]
      have hsb : m.servingBegun = false := by rw [hR.serving]; exact hfr'
      rw [hres]; simp [hmem, mutationOK, hsb]
  · have hobj' : s.core.objs.contains r = false := by simpa using hobj
    have hacc : m.accepted.contains r = false := by rw [hR.accepted]; exact hobj'
    have hmem : r ∉ m.accepted := by simpa using hacc
    have hres : mutateRes s.core r = .na := by simp only [mutateRes, hobj', Bool.not_false, ↓reduceIte]
    rw [hres]; simp [hmem, mutationOK]

/-- a request parked at `serve.frozen` consults the tree (a request whose context was done on arrival only
    returns: serving has begun — the monitor is told so, and it knew already) -/
theorem lemma_lookup (s : St) (m : Mon) (hR : Rel s m) (i : Nat) (t : RouteId) (v g : Bool)
    (hs : s.status[i]? = some .atFrozen) :
    ∃ m', m.next (.request t v g)
        { actor := i, vis := visOf (setStatus s i .finished) i,
          out := if g then .gone else .hit (lookup s.core t v) } = some m' ∧
      Rel (setStatus s i .finished) m' := by
  have hi : i < s.status.length := by
    rcases Nat.lt_or_ge i s.status.length with h | h
    · exact h
    · rw [List.getElem?_eq_none h] at hs; cases hs
  rw [lemma_setStatus_vis_finished _ i hi]
  have hd : s.core.fpc = .done := hR.frozenPt ⟨i, hs⟩
  have hfr : s.core.frozen = true := hR.inv.frozen_iff.2 (by simp [hd])
  have hsb : m.servingBegun = true := by rw [hR.serving]; exact hfr
  have hm : ({ m with servingBegun := true } : Mon) = m := by
    cases m; simp only [Mon.mk.injEq, and_true] at *; exact hsb.symm
  refine ⟨m, ?_, lemma_rel_setStatus s m hR i _ (Or.inl (by simp))⟩
  cases g with
  | true => simp [Mon.next, hm]
  | false =>
    rw [lemma_lookup_done s.core hR.inv hd]
    simp [Mon.next, expected, hR.serving, hfr, hR.accepted, hR.cons]

/-! ### every scheduler step -/

theorem lemma_stepActor (kinds : List Kind) (s : St) (m : Mon) (hR : Rel s m) (i : Nat) (k : Kind) (st : Status)
    (hs : s.status[i]? = some st) :
    ∃ m', m.next k { actor := i, vis := visOf (stepActor kinds s i k st).1 i,
                     out := (stepActor kinds s i k st).2 } = some m' ∧
      Rel (stepActor kinds s i k st).1 m' := by
  have hi : i < s.status.length := by
    rcases Nat.lt_or_ge i s.status.length with h | h
    · exact h
    · rw [List.getElem?_eq_none h] at hs; cases hs
  cases st with
  | inFreeze => exact lemma_inFreeze kinds s m hR i k
  | inWarmup => exact lemma_inWarmup kinds s m hR i k
  | blockedF => cases k <;> exact lemma_quiet m _ i s hR
  | blockedW => cases k <;> exact lemma_quiet m _ i s hR
  | finished => cases k <;> exact lemma_quiet m _ i s hR
  | atEntry =>
    cases k with
    | request t v g => exact lemma_callFreeze s m hR i _ hi
    | _ => exact lemma_quiet m _ i s hR
  | atFrozen =>
    cases k with
    | request t v g => exact lemma_lookup s m hR i t v g hs
    | _ => exact lemma_quiet m _ i s hR
  | atChecked =>
    cases k with
    | register r => exact lemma_register s m hR i r hi
    | _ => exact lemma_quiet m _ i s hR
  | start =>
    cases k with
    | request t v g =>
      exact lemma_quiet m _ i _ (lemma_rel_setStatus s m hR i _ (Or.inl (by simp)))
    | freeze => exact lemma_callFreeze s m hR i _ hi
    | warmup =>
      simp only [stepActor]
      cases hw : s.core.wpc with
      | done => exact lemma_quiet m _ i _ (lemma_rel_setStatus s m hR i _ (Or.inl (by simp)))
      | idle =>
        simp only
        refine lemma_quiet m _ i _ ?_
        refine lemma_body_step s m hR .enterWarmup rfl (by simp) _ _ ?_
        rintro ⟨j, hj⟩
        rcases lemma_atFrozen_set _ i .inWarmup j hj with h1 | h1
        · cases h1
        · exact ⟨j, h1⟩
      | drained => exact lemma_quiet m _ i _ (lemma_rel_setStatus s m hR i _ (Or.inl (by simp)))
      | registered => exact lemma_quiet m _ i _ (lemma_rel_setStatus s m hR i _ (Or.inl (by simp)))
      | compiled => exact lemma_quiet m _ i _ (lemma_rel_setStatus s m hR i _ (Or.inl (by simp)))
    | register r => exact lemma_register_check kinds s m hR i r hi
    | whereInt r => exact lemma_whereInt s m hR i r hi
    | setName r => exact lemma_setName s m hR i r hi
    | urlFor r => exact lemma_urlFor s m hR i r hi
    | whereBad r => exact lemma_whereBad s m hR i r hi

theorem lemma_wakeF_length (kinds : List Kind) (s : St) (h : s.status.length = kinds.length) :
    (wakeF kinds s).status.length = s.status.length := by
  simp [wakeF, List.length_zip, h]

theorem lemma_callFreeze_length (s : St) (i : Nat) (k : Kind) :
    (callFreeze s i k).status.length = s.status.length := by
  unfold callFreeze
  cases s.core.fpc <;> simp [setStatus]

theorem lemma_stepActor_length (kinds : List Kind) (s : St) (i : Nat) (k : Kind) (st : Status)
    (h : s.status.length = kinds.length) :
    (stepActor kinds s i k st).1.status.length = s.status.length := by
  cases st <;> cases k <;> simp only [stepActor, callFreeze] <;> (repeat' split) <;>
    simp [setStatus, wakeW, wakeF, List.length_zip, h]

/-- **for every schedule** the trace of the model is accepted by the monitor, and the final states are
    related -/
theorem lemma_run_rel (kinds : List Kind) (sched : List Nat) (s : St) (m : Mon) (hR : Rel s m)
    (hlen : s.status.length = kinds.length) (hv : ∀ i ∈ sched, i < kinds.length) :
    ∃ m', monitor kinds m (runFrom kinds s sched).2 = some m' ∧ Rel (runFrom kinds s sched).1 m' ∧
      (runFrom kinds s sched).1.status.length = kinds.length := by
  induction sched generalizing s m with
  | nil => exact ⟨m, rfl, hR, hlen⟩
  | cons i rest ih =>
    have hi : i < kinds.length := hv i (by simp)
    obtain ⟨k, hk⟩ : ∃ k, kinds[i]? = some k := ⟨kinds[i], by simp [hi]⟩
    obtain ⟨st, hst⟩ : ∃ st, s.status[i]? = some st := ⟨s.status[i]'(hlen ▸ hi), by simp [hlen, hi]⟩
    have hstep : step kinds s i = stepActor kinds s i k st := by simp [step, hk, hst]
    obtain ⟨m1, hm1, hR1⟩ := lemma_stepActor kinds s m hR i k st hst
    have hlen1 : (stepActor kinds s i k st).1.status.length = kinds.length :=
      (lemma_stepActor_length kinds s i k st hlen).trans hlen
    obtain ⟨m2, hm2, hR2, hl2⟩ := ih (stepActor kinds s i k st).1 m1 hR1 hlen1 (fun j hj => hv j (by simp [hj]))
    refine ⟨m2, ?_, ?_, ?_⟩
    · simp only [runFrom, hstep, monitor, hk, hm1]
      exact hm2
    · simp only [runFrom, hstep]; exact hR2
    · simp only [runFrom, hstep]; exact hl2


/-! ### the freeze that the first probe request completes -/

/-- the control part of a body operation: it depends on the two program positions only -/
def ctlStep : FPc × WPc → Op → FPc × WPc
  | (f, w), .enterFreeze => if f = .idle then (.flags, w) else (f, w)
  | (f, w), .freezeCallWarmup =>
    if f = .flags then
      (match w with
       | .done => (.tail, w)
       | .idle => (.inWarmup, .drained)
       | _ => (.inWarmup, w))
    else (f, w)
  | (f, w), .warmupStep =>
    (match w with
     | .drained => (f, .registered)
     | .registered => (f, .compiled)
     | .compiled => (if f = .inWarmup then .tail else f, .done)
     | _ => (f, w))
  | (f, w), .freezeFinish => if f = .tail then (.done, w) else (f, w)
  | p, _ => p

theorem lemma_ctlStep (c : Core) (op : Op)
    (h : op = .enterFreeze ∨ op = .freezeCallWarmup ∨ op = .warmupStep ∨ op = .freezeFinish) :
    ((c.step op).fpc, (c.step op).wpc) = ctlStep (c.fpc, c.wpc) op := by
  rcases h with rfl | rfl | rfl | rfl
  · simp only [Core.step, ctlStep]; split <;> rfl
  · simp only [Core.step, ctlStep]
    split
    · cases c.wpc <;> simp [drain]
    · rfl
  · cases hw : c.wpc with
    | idle => simp [Core.step, ctlStep, hw]
    | done => simp [Core.step, ctlStep, hw]
    | registered => simp [Core.step, ctlStep, hw]
    | compiled => simp [Core.step, ctlStep, hw]
    | drained =>
      simp only [Core.step, ctlStep, hw]
      have := lemma_foldl_fields c.taken { c with taken := [], wpc := .drained }
      simp only [Prod.mk.injEq, and_true]
      exact this.2.2.2.2.2.2.2.2.1
  · simp only [Core.step, ctlStep]; split <;> rfl

def completeOps : List Op := [.enterFreeze, .freezeCallWarmup, .warmupStep, .warmupStep, .warmupStep, .freezeFinish]

theorem lemma_completeFreeze_eq (c : Core) : completeFreeze c = completeOps.foldl Core.step c := rfl

theorem lemma_ctl_fold (ops : List Op) (c : Core)
    (h : ∀ op ∈ ops, op = .enterFreeze ∨ op = .freezeCallWarmup ∨ op = .warmupStep ∨ op = .freezeFinish) :
    ((ops.foldl Core.step c).fpc, (ops.foldl Core.step c).wpc) = ops.foldl ctlStep (c.fpc, c.wpc) := by
  induction ops generalizing c with
  | nil => rfl
  | cons o os ih =>
    simp only [List.foldl_cons]
    rw [ih (c.step o) (fun op hop => h op (by simp [hop])), lemma_ctlStep c o (h o (by simp))]

/-- positions that `Inv` allows -/
def ctlValid (f : FPc) (w : WPc) : Bool :=
  (if f = .tail || f = .done then w = .done else true) && (if f = .inWarmup then w != .idle && w != .done else true)

theorem lemma_ctl_complete (f : FPc) (w : WPc) (h : ctlValid f w = true) :
    (completeOps.foldl ctlStep (f, w)).1 = .done := by
  cases f <;> cases w <;> revert h <;> decide

theorem lemma_completeFreeze_done (c : Core) (h : Inv c) : (completeFreeze c).fpc = .done := by
  have hv : ctlValid c.fpc c.wpc = true := by
    have h1 := h.tail_done
    have h2 := h.in_warmup
    unfold ctlValid
    cases hf : c.fpc <;> cases hw : c.wpc <;> simp_all
  have := lemma_ctl_fold completeOps c (by intro op hop; simp [completeOps] at hop; exact hop)
  rw [lemma_completeFreeze_eq]
  have h2 := lemma_ctl_complete c.fpc c.wpc hv
  rw [← this] at h2
  exact h2

theorem lemma_body_fold_fields (ops : List Op) (c : Core) (h : ∀ op ∈ ops, op.isBody = true) :
    (ops.foldl Core.step c).objs = c.objs ∧ (ops.foldl Core.step c).cons = c.cons := by
  induction ops generalizing c with
  | nil => exact ⟨rfl, rfl⟩
  | cons o os ih =>
    simp only [List.foldl_cons]
    obtain ⟨h1, h2⟩ := ih (c.step o) (fun op hop => h op (by simp [hop]))
    obtain ⟨g1, g2, _⟩ := lemma_body_fields c o (h o (by simp))
    exact ⟨h1.trans g1, h2.trans g2⟩

/-- the probe requests after the run see exactly the accepted registrations and constraints -/
theorem lemma_probes (s : St) (m : Mon) (hR : Rel s m) (ids : List RouteId) :
    probes s.core ids = ids.map fun r => (expected m r true, expected m r false) := by
  unfold probes
  have hI : Inv (completeFreeze s.core) := lemma_inv_run completeOps s.core hR.inv
  have hd := lemma_completeFreeze_done s.core hR.inv
  obtain ⟨ho, hc⟩ := lemma_body_fold_fields completeOps s.core (by intro op hop; simp [completeOps] at hop; rcases hop with rfl | rfl | rfl | rfl <;> rfl)
  rw [← lemma_completeFreeze_eq] at ho hc
  apply List.map_congr_left
  intro r _
  rw [lemma_lookup_done _ hI hd, lemma_lookup_done _ hI hd, ho, hc]
  simp [expected, hR.accepted, hR.cons]

end Rivaas.Phases
