import Rivaas.Model.Bind
import Rivaas.Spec.Bind
import Rivaas.Lemmas.BindVal
import Rivaas.Lemmas.BindPath
import Rivaas.Lemmas.BindFlatten
import Rivaas.Lemmas.BindRef
import Rivaas.Lemmas.BindExpect
import Rivaas.Lemmas.BindMap
import Rivaas.Lemmas.BindItems
/-
C04: the structural binder meets the oracle, item by item (`lemma_ref_fld` / `lemma_ref_fs`), for
every treatment of nested structs that meets it one level deeper (`NestSpec`).
-/
set_option linter.unusedSimpArgs false
set_option linter.unusedVariables false
namespace Rivaas.Bind
open Spec

/-- every item is satisfied by the result `res` (which was `init`), seen through getter `g` at depth `d` -/
def ItemsOK (P : Params) (cfg : Cfg) (g : Getter) (d : Nat) (its : List Item) (init res : Val) : Prop :=
  (∀ l, Item.leaf l ∈ its → ambiguous g.src (keyed g l) = true ∨
      ∃ e ∈ (expect P cfg g.src init (keyed g l)).oks, holds init res (keyed g l) e = true) ∧
  (∀ n, Item.node n ∈ its → d + n.depth ≤ cfg.maxDepth) ∧
  (∀ f, Item.frame f ∈ its → holdsFrame init res f = true)

/-- the error is one the oracle admits for some item -/
def ItemsErr (P : Params) (cfg : Cfg) (g : Getter) (d : Nat) (its : List Item) (init : Val) (e : Err) : Prop :=
  (∃ l, Item.leaf l ∈ its ∧ ∃ c, e = wrapErr l.names c ∧
      (c ∈ (expect P cfg g.src init (keyed g l)).errs ∨
        (ambiguous g.src (keyed g l) = true ∧ (c = .conv ∨ c = .sliceLen ∨ c = .mapSize)))) ∨
  (∃ n, Item.node n ∈ its ∧ cfg.maxDepth < d + n.depth ∧ e = wrapErr n.names .depth)

theorem lemma_itemsOK_append (P : Params) (cfg : Cfg) (g : Getter) (d : Nat) (a b : List Item) (init res : Val) :
    ItemsOK P cfg g d (a ++ b) init res ↔ ItemsOK P cfg g d a init res ∧ ItemsOK P cfg g d b init res := by
  unfold ItemsOK
  simp only [List.mem_append]
  constructor
  · rintro ⟨h1, h2, h3⟩
    exact ⟨⟨fun l hl => h1 l (Or.inl hl), fun n hn => h2 n (Or.inl hn), fun f hf => h3 f (Or.inl hf)⟩,
           ⟨fun l hl => h1 l (Or.inr hl), fun n hn => h2 n (Or.inr hn), fun f hf => h3 f (Or.inr hf)⟩⟩
  · rintro ⟨⟨h1, h2, h3⟩, ⟨h4, h5, h6⟩⟩
    exact ⟨fun l hl => hl.elim (h1 l) (h4 l), fun n hn => hn.elim (h2 n) (h5 n), fun f hf => hf.elim (h3 f) (h6 f)⟩

theorem lemma_itemsErr_left (P : Params) (cfg : Cfg) (g : Getter) (d : Nat) (a b : List Item) (init : Val) (e : Err)
    (h : ItemsErr P cfg g d a init e) : ItemsErr P cfg g d (a ++ b) init e := by
  unfold ItemsErr at h ⊢
  rcases h with ⟨l, hl, h⟩ | ⟨n, hn, h⟩
  · exact Or.inl ⟨l, by simp [hl], h⟩
  · exact Or.inr ⟨n, by simp [hn], h⟩

theorem lemma_itemsErr_right (P : Params) (cfg : Cfg) (g : Getter) (d : Nat) (a b : List Item) (init : Val) (e : Err)
    (h : ItemsErr P cfg g d b init e) : ItemsErr P cfg g d (a ++ b) init e := by
  unfold ItemsErr at h ⊢
  rcases h with ⟨l, hl, h⟩ | ⟨n, hn, h⟩
  · exact Or.inl ⟨l, by simp [hl], h⟩
  · exact Or.inr ⟨n, by simp [hn], h⟩

theorem lemma_itemsOK_nil (P : Params) (cfg : Cfg) (g : Getter) (d : Nat) (init res : Val) :
    ItemsOK P cfg g d [] init res := by
  unfold ItemsOK; simp

/-! ### `mkInfo` and the oracle's `tagNames` read the tag alike -/

theorem lemma_parseTag (tv name : Bytes) (isForm : Bool) :
    parseTag tv name isForm =
      (let parts := (splitB ',' tv).map trimSpace
       let primary := parts.headD []
       (if primary.isEmpty && isForm then name else primary,
        (parts.drop 1).filter (fun p => !p.isEmpty && !(isForm && p == B "omitempty")))) := by
  unfold parseTag
  have h1 : ((splitB ',' tv).map trimSpace).headD [] = trimSpace ((splitB ',' tv).headD []) := by
    cases splitB ',' tv with
    | nil => simp [trimSpace, trimLeft]
    | cons a r => simp
  have h2 : ((splitB ',' tv).map trimSpace).drop 1 = ((splitB ',' tv).drop 1).map trimSpace := by
    simp [List.map_drop]
  simp only [h1, h2]

theorem lemma_mkInfo_link (P : Params) (tag : Tag) (idx : List Nat) (h : FieldHdr) (t : Ty) :
    match tagNames (h.tag tag) h.name (tag == .form) with
    | none => mkInfo P tag idx h t = none
    | some (p, as) => ∃ f, mkInfo P tag idx h t = some f ∧ f.tagName = p ∧ f.aliases = as ∧ f.name = h.name ∧
        f.ty = t ∧ f.dflt = h.dflt ∧
        f.typedDefault = (if !h.dflt.isEmpty && !isSliceTy t && !isMapTy t then convTy P Cfg.default t h.dflt else none) := by
  unfold tagNames mkInfo
  simp only
  have hne : (tag != Tag.form) = !(tag == Tag.form) := rfl
  by_cases h1 : ((h.tag tag).isEmpty && !(tag == Tag.form)) = true
  · simp [h1, hne]
  · have h1' : ((h.tag tag).isEmpty && !(tag == Tag.form)) = false := by simpa using h1
    simp only [h1', hne, Bool.false_eq_true, if_false]
    by_cases h2 : ((tag == Tag.form) && (h.tag tag == B "-")) = true
    · simp [h2]
    · have h2' : ((tag == Tag.form) && (h.tag tag == B "-")) = false := by simpa using h2
      simp only [h2', Bool.false_eq_true, if_false, lemma_parseTag]
      exact ⟨_, rfl, rfl, rfl, rfl, rfl, rfl, rfl⟩


/-! ### one leaf field -/

variable (P : Params) (cfg : Cfg) (nest : Nest) (tag : Tag)

/-- the oracle's leaf for field `k` with header `h`, type `t`, names `p :: as` -/
def leafAt (k : Nat) (h : FieldHdr) (t : Ty) (p : Bytes) (as : List Bytes) : Leaf :=
  { path := [k], names := [h.name], keys := p :: as, ty := t, dflt := h.dflt, nested := false }

/-- outcome of the structural binder on field `k`, against the items of that field -/
def FldSpec (g : Getter) (d k : Nat) (its : List Item) (iv : Val) : Val ⊕ Stop → Prop
  | .inl rv => ∀ init res : List Val, init[k]? = some iv → res[k]? = some rv →
      ItemsOK P cfg g d its (.struct init) (.struct res)
  | .inr (.err e) => ∀ init : List Val, init[k]? = some iv → ItemsErr P cfg g d its (.struct init) e
  | .inr .panic => False

theorem lemma_leafOK_mono (E : Expect) (amb : Bool) (iv : Val) (name : Bytes) (o : Val ⊕ Stop)
    (h : LeafOK E false iv name o) : LeafOK E amb iv name o := by
  cases o with
  | inl rv =>
    simp only [LeafOK] at h ⊢
    rcases h with h | h
    · cases h
    · exact Or.inr h
  | inr s =>
    cases s with
    | err e =>
      simp only [LeafOK] at h ⊢
      obtain ⟨c, hc, h⟩ := h
      refine ⟨c, hc, ?_⟩
      rcases h with h | ⟨h, _⟩
      · exact Or.inl h
      · cases h
    | panic => exact h

theorem lemma_leaf_core (g : Getter) (d k : Nat) (h : FieldHdr) (t : Ty) (p : Bytes) (as : List Bytes) (f : FieldInfo)
    (iv : Val) (hname : f.name = h.name)
    (hLO : LeafOK (expectV P cfg g.src (keyed g (leafAt k h t p as)) (mapOf (some iv)))
      (ambiguous g.src (keyed g (leafAt k h t p as))) iv f.name
      (if !wants g f then .inl iv else fieldAction P cfg nest g d f iv)) :
    FldSpec P cfg g d k [.leaf (leafAt k h t p as)] iv (if !wants g f then .inl iv else fieldAction P cfg nest g d f iv) := by
  generalize (if !wants g f then (Sum.inl iv : Val ⊕ Stop) else fieldAction P cfg nest g d f iv) = o at hLO ⊢
  have hpath : (keyed g (leafAt k h t p as)).path = [k] := rfl
  cases o with
  | inl rv =>
    intro init res hi hr
    refine ⟨?_, by simp, by simp⟩
    intro l hl
    simp only [List.mem_singleton, Item.leaf.injEq] at hl
    subst hl
    simp only [LeafOK] at hLO
    rcases hLO with h | ⟨e, he, hh⟩
    · exact Or.inl h
    · right
      refine ⟨e, ?_, ?_⟩
      · simp only [expect, hpath, lemma_valAt_one init k iv hi]
        exact he
      · simp only [holds, hpath, lemma_valAt_one init k iv hi, lemma_valAt_one res k rv hr]
        cases e <;> exact hh
  | inr st =>
    cases st with
    | panic => exact hLO
    | err e =>
      intro init hi
      simp only [LeafOK] at hLO
      obtain ⟨c, hc, hh⟩ := hLO
      left
      refine ⟨leafAt k h t p as, by simp, c, ?_, ?_⟩
      · rw [hc, hname]; rfl
      · simp only [expect, hpath, lemma_valAt_one init k iv hi]
        exact hh


/-- the items of a leaf-typed field -/
def leafItems (k : Nat) (h : FieldHdr) (t : Ty) : List Item :=
  if !h.exported then [.frame { path := [k], ty := t }]
  else match tagNames (h.tag tag) h.name (tag == .form) with
    | none => [.frame { path := [k], ty := t }]
    | some (p, as) => [.leaf (leafAt k h t p as)]

/-- a field the bind leaves alone -/
theorem lemma_fldspec_frame (g : Getter) (d k : Nat) (t : Ty) (iv : Val) :
    FldSpec P cfg g d k [.frame { path := [k], ty := t }] iv (.inl iv) := by
  intro init res hi hr
  refine ⟨by simp, by simp, ?_⟩
  intro f hf
  simp only [List.mem_singleton, Item.frame.injEq] at hf
  subst hf
  simp [holdsFrame, lemma_valAt_one init k iv hi, lemma_valAt_one res k iv hr]

theorem lemma_leaf_fld_aux (g : Getter) (d k : Nat) (h : FieldHdr) (t : Ty) (iv : Val) (hex : h.exported = true)
    (hLeaf : ∀ f l, LeafLink P g f l → f.ty = t → l.ty = t →
      LeafOK (expectV P cfg g.src l (mapOf (some iv))) (ambiguous g.src l) iv f.name
        (if !wants g f then .inl iv else fieldAction P cfg nest g d f iv)) :
    FldSpec P cfg g d k (leafItems tag k h t) iv (refLeaf P cfg nest tag g d h t iv) := by
  have link := lemma_mkInfo_link P tag [] h t
  unfold leafItems refLeaf
  simp only [hex, Bool.not_true, Bool.false_eq_true, if_false]
  cases htn : tagNames (h.tag tag) h.name (tag == .form) with
  | none =>
    rw [htn] at link
    simp only [link]
    exact lemma_fldspec_frame P cfg g d k t iv
  | some pa =>
    obtain ⟨p, as⟩ := pa
    rw [htn] at link
    obtain ⟨f, hmk, h1, h2, h3, h4, h5, h6⟩ := link
    simp only [hmk]
    have hl : LeafLink P g f (keyed g (leafAt k h t p as)) :=
      { keys := by simp [keyed, leafAt, h1, h2]
        ty := by simp [keyed, leafAt, h4]
        dflt := by simp [keyed, leafAt, h5]
        nested := by simp [keyed, leafAt]
        td := by rw [h6, h4, h5] }
    exact lemma_leaf_core P cfg nest g d k h t p as f iv h3 (hLeaf f _ hl h4 (by simp [keyed, leafAt]))

/-- **a leaf field** of any kind of the grammar -/
theorem lemma_leaf_fld (hP : FloatSane P) (g : Getter) (hs : srcOK g.src = true) (d k : Nat) (h : FieldHdr)
    (t : Ty) (hleaf : leafTy t = true) (iv : Val) (hex : h.exported = true) :
    FldSpec P cfg g d k (leafItems tag k h t) iv (refLeaf P cfg nest tag g d h t iv) := by
  apply lemma_leaf_fld_aux P cfg nest tag g d k h t iv hex
  intro f l hl hft hlt
  unfold expectV ambiguous
  -- the six leaf shapes
  cases t with
  | prim p =>
    simp only [hlt]
    exact lemma_leaf_scalar P cfg nest hP g hs d f l p hl hft iv
  | slice e =>
    cases e with
    | prim p =>
      simp only [hlt]
      exact lemma_leaf_slice P cfg nest hP g hs d f l p false hl (by simpa using hft) iv
    | _ => simp [leafTy] at hleaf
  | map e =>
    cases e with
    | prim p =>
      simp only [hlt]
      have := lemma_leaf_map P cfg nest hP g hs d f l p false hl (by simpa using hft) iv
      simp only [this.1, Bool.not_true, Bool.false_eq_true, if_false]
      exact lemma_leafOK_mono _ _ _ _ _ this.2
    | _ => simp [leafTy] at hleaf
  | ptr e =>
    cases e with
    | prim p =>
      simp only [hlt]
      exact lemma_leaf_ptr P cfg nest hP g hs d f l p hl hft iv
    | slice e' =>
      cases e' with
      | prim p =>
        simp only [hlt]
        exact lemma_leaf_slice P cfg nest hP g hs d f l p true hl (by simpa using hft) iv
      | _ => simp [leafTy] at hleaf
    | map e' =>
      cases e' with
      | prim p =>
        simp only [hlt]
        have := lemma_leaf_map P cfg nest hP g hs d f l p true hl (by simpa using hft) iv
        simp only [this.1, Bool.not_true, Bool.false_eq_true, if_false]
        exact lemma_leafOK_mono _ _ _ _ _ this.2
      | _ => simp [leafTy] at hleaf
    | _ => simp [leafTy] at hleaf
  | struct fs => simp [leafTy] at hleaf


/-! ### moving between a struct and the value of one of its struct fields -/

/-- how the initial value of the enclosing struct relates to the initial value `init'` the
    sub-struct was bound from, place by place (leaves and frames): the same, or nothing (nil
    pointer) where `init'` is a freshly allocated zero value -/
def InitRel (Init : List Val) (k : Nat) (init' : Val) (its : List Item) : Prop :=
  ∀ x ∈ its, ∀ pt, x.pathTy = some pt → valAt (.struct Init) (k :: pt.1) = valAt init' pt.1 ∨
    (valAt (.struct Init) (k :: pt.1) = none ∧ (valAt init' pt.1 = none ∨ valAt init' pt.1 = some (zero pt.2)))

def ResRel (Res : List Val) (k : Nat) (res' : Val) (its : List Item) : Prop :=
  ∀ x ∈ its, ∀ pt, x.pathTy = some pt → valAt (.struct Res) (k :: pt.1) = valAt res' pt.1

theorem lemma_keyed_under (g : Getter) (k : Nat) (l : Leaf) :
    keyed g (l.under k) = { keyed g l with path := k :: (keyed g l).path, names := (keyed g l).names } := rfl

theorem lemma_keyed_below (g : Getter) (k : Nat) (name p : Bytes) (l : Leaf) :
    keyed g (l.below k name p) =
      { keyed (g.push p) l with path := k :: (keyed (g.push p) l).path, names := name :: l.names } := by
  simp [keyed, Leaf.below, Getter.push, List.map_map, Function.comp_def, List.append_assoc]

theorem lemma_amb_path (s : Src) (l : Leaf) (q : List Nat) (ns : List Bytes) :
    ambiguous s { l with path := q, names := ns } = ambiguous s l := rfl

theorem lemma_under_ok (g : Getter) (d k : Nat) (its : List Item) (Init Res : List Val) (init' res' : Val)
    (hi : InitRel Init k init' its) (hr : ResRel Res k res' its)
    (h : ItemsOK P cfg g d its init' res') :
    ItemsOK P cfg g d (its.map (Item.under k)) (.struct Init) (.struct Res) := by
  obtain ⟨h1, h2, h3⟩ := h
  refine ⟨?_, ?_, ?_⟩
  · intro l hl
    simp only [List.mem_map] at hl
    obtain ⟨x, hx, hxl⟩ := hl
    cases x with
    | node n => simp [Item.under] at hxl
    | frame f => simp [Item.under] at hxl
    | leaf l0 =>
      simp only [Item.under, Item.leaf.injEq] at hxl
      subst hxl
      rw [lemma_keyed_under, lemma_amb_path]
      have ht := lemma_transfer P cfg g.src (keyed g l0) k (keyed g l0).names (.struct Init) (.struct Res) init' res'
        (hr _ hx (l0.path, l0.ty) rfl) (hi _ hx (l0.path, l0.ty) rfl)
      rcases h1 l0 hx with h | ⟨e, he, hh⟩
      · exact Or.inl h
      · exact Or.inr ⟨e, by rw [ht.1]; exact he, ht.2 e hh⟩
  · intro n hn
    simp only [List.mem_map] at hn
    obtain ⟨x, hx, hxl⟩ := hn
    cases x with
    | leaf l0 => simp [Item.under] at hxl
    | frame f => simp [Item.under] at hxl
    | node n0 =>
      simp only [Item.under, Item.node.injEq] at hxl
      subst hxl
      exact h2 n0 hx
  · intro f hf
    simp only [List.mem_map] at hf
    obtain ⟨x, hx, hxl⟩ := hf
    cases x with
    | leaf l0 => simp [Item.under] at hxl
    | node n0 => simp [Item.under] at hxl
    | frame f0 =>
      simp only [Item.under, Item.frame.injEq] at hxl
      subst hxl
      exact lemma_transfer_frame f0 k (.struct Init) (.struct Res) init' res'
        (hr _ hx (f0.path, f0.ty) rfl) (hi _ hx (f0.path, f0.ty) rfl) (h3 f0 hx)

theorem lemma_under_err (g : Getter) (d k : Nat) (its : List Item) (Init : List Val) (init' : Val) (e : Err)
    (hi : InitRel Init k init' its) (h : ItemsErr P cfg g d its init' e) :
    ItemsErr P cfg g d (its.map (Item.under k)) (.struct Init) e := by
  rcases h with ⟨l, hl, c, hc, hh⟩ | ⟨n, hn, hd, he⟩
  · left
    refine ⟨l.under k, List.mem_map.2 ⟨.leaf l, hl, rfl⟩, c, hc, ?_⟩
    rw [lemma_keyed_under, lemma_amb_path]
    rw [lemma_transfer_expect P cfg g.src (keyed g l) k (keyed g l).names (.struct Init) init' (hi _ hl (l.path, l.ty) rfl)]
    exact hh
  · right
    exact ⟨n, List.mem_map.2 ⟨.node n, hn, rfl⟩, hd, he⟩

theorem lemma_below_ok (g : Getter) (d k : Nat) (name p : Bytes) (its : List Item) (Init Res : List Val) (init' res' : Val)
    (hi : InitRel Init k init' its) (hr : ResRel Res k res' its) (hd : d + 1 ≤ cfg.maxDepth)
    (h : ItemsOK P cfg (g.push p) (d + 1) its init' res') :
    ItemsOK P cfg g d (.node { names := [name], depth := 1 } :: its.map (Item.below k name p)) (.struct Init) (.struct Res) := by
  obtain ⟨h1, h2, h3⟩ := h
  refine ⟨?_, ?_, ?_⟩
  · intro l hl
    simp only [List.mem_cons, reduceCtorEq, false_or, List.mem_map] at hl
    obtain ⟨x, hx, hxl⟩ := hl
    cases x with
    | node n => simp [Item.below] at hxl
    | frame f => simp [Item.below] at hxl
    | leaf l0 =>
      simp only [Item.below, Item.leaf.injEq] at hxl
      subst hxl
      rw [lemma_keyed_below, lemma_amb_path]
      have ht := lemma_transfer P cfg g.src (keyed (g.push p) l0) k (name :: l0.names) (.struct Init) (.struct Res) init' res'
        (hr _ hx (l0.path, l0.ty) rfl) (hi _ hx (l0.path, l0.ty) rfl)
      rcases h1 l0 hx with h | ⟨e, he, hh⟩
      · exact Or.inl h
      · exact Or.inr ⟨e, by rw [ht.1]; exact he, ht.2 e hh⟩
  · intro n hn
    simp only [List.mem_cons, Item.node.injEq, List.mem_map] at hn
    rcases hn with rfl | ⟨x, hx, hxl⟩
    · exact hd
    · cases x with
      | leaf l0 => simp [Item.below] at hxl
      | frame f => simp [Item.below] at hxl
      | node n0 =>
        simp only [Item.below, Item.node.injEq] at hxl
        subst hxl
        have := h2 n0 hx
        simp only
        omega
  · intro f hf
    simp only [List.mem_cons, reduceCtorEq, false_or, List.mem_map] at hf
    obtain ⟨x, hx, hxl⟩ := hf
    cases x with
    | leaf l0 => simp [Item.below] at hxl
    | node n0 => simp [Item.below] at hxl
    | frame f0 =>
      simp only [Item.below, Item.frame.injEq] at hxl
      subst hxl
      exact lemma_transfer_frame f0 k (.struct Init) (.struct Res) init' res'
        (hr _ hx (f0.path, f0.ty) rfl) (hi _ hx (f0.path, f0.ty) rfl) (h3 f0 hx)

theorem lemma_below_err (g : Getter) (d k : Nat) (name p : Bytes) (its : List Item) (Init : List Val) (init' : Val) (e : Err)
    (hi : InitRel Init k init' its) (h : ItemsErr P cfg (g.push p) (d + 1) its init' e) :
    ItemsErr P cfg g d (.node { names := [name], depth := 1 } :: its.map (Item.below k name p)) (.struct Init) (.bind name e) := by
  rcases h with ⟨l, hl, c, hc, hh⟩ | ⟨n, hn, hd, he⟩
  · left
    refine ⟨l.below k name p, List.mem_cons_of_mem _ (List.mem_map.2 ⟨.leaf l, hl, rfl⟩), c, ?_, ?_⟩
    · rw [hc]; rfl
    · rw [lemma_keyed_below, lemma_amb_path,
        lemma_transfer_expect P cfg g.src (keyed (g.push p) l) k (name :: l.names) (.struct Init) init' (hi _ hl (l.path, l.ty) rfl)]
      exact hh
  · right
    refine ⟨{ names := name :: n.names, depth := n.depth + 1 },
      List.mem_cons_of_mem _ (List.mem_map.2 ⟨.node n, hn, rfl⟩), by simp only; omega, ?_⟩
    rw [he]; rfl

/-- every place of the items of a struct: non-empty path, zero-like in the zero struct -/
theorem lemma_items_paths (sub : List Fld) (x : Item) (hx : x ∈ itemsFs tag 0 sub) (pt : List Nat × Ty)
    (hpt : x.pathTy = some pt) :
    (∃ a r, pt.1 = a :: r) ∧ ZeroLikeAt (.struct (zeroFs sub)) pt.1 pt.2 := by
  obtain ⟨q, hq, ⟨a, r, hne⟩, hz⟩ := lemma_zero_fs tag sub 0 x hx pt hpt
  exact ⟨⟨a, r, by rw [hq, hne]⟩, hz (zeroFs sub) (fun j => by simp)⟩

theorem lemma_initrel_same (Init : List Val) (k : Nat) (v : Val) (its : List Item) (hk : Init[k]? = some v) :
    InitRel Init k v its := fun _ _ pt _ => Or.inl (lemma_valAt_cons Init k pt.1 v hk)

theorem lemma_initrel_ptr (Init : List Val) (k : Nat) (v : Val) (its : List Item) (hk : Init[k]? = some (.ptr v))
    (hne : ∀ x ∈ its, ∀ pt, x.pathTy = some pt → ∃ a r, pt.1 = a :: r) : InitRel Init k v its := by
  intro x hx pt hpt
  obtain ⟨a, r, hp⟩ := hne x hx pt hpt
  left
  rw [lemma_valAt_cons Init k pt.1 _ hk, hp, lemma_valAt_ptr]

theorem lemma_initrel_nil (Init : List Val) (k : Nat) (init' : Val) (its : List Item) (hk : Init[k]? = some .nil)
    (hz : ∀ x ∈ its, ∀ pt, x.pathTy = some pt → (∃ a r, pt.1 = a :: r) ∧ ZeroLikeAt init' pt.1 pt.2) :
    InitRel Init k init' its := by
  intro x hx pt hpt
  obtain ⟨⟨a, r, hp⟩, hzl⟩ := hz x hx pt hpt
  right
  refine ⟨?_, hzl⟩
  rw [lemma_valAt_cons Init k pt.1 _ hk, hp, lemma_valAt_nil]

theorem lemma_resrel_same (Res : List Val) (k : Nat) (v : Val) (its : List Item) (hk : Res[k]? = some v) :
    ResRel Res k v its := fun _ _ pt _ => lemma_valAt_cons Res k pt.1 v hk

theorem lemma_resrel_ptr (Res : List Val) (k : Nat) (v : Val) (its : List Item) (hk : Res[k]? = some (.ptr v))
    (hne : ∀ x ∈ its, ∀ pt, x.pathTy = some pt → ∃ a r, pt.1 = a :: r) : ResRel Res k v its := by
  intro x hx pt hpt
  obtain ⟨a, r, hp⟩ := hne x hx pt hpt
  rw [lemma_valAt_cons Res k pt.1 _ hk, hp, lemma_valAt_ptr]

/-! ### an embedded nil pointer none of whose promoted fields receives a value -/

/-- the item is a leaf the oracle expects untouched -/
def Untouched (g : Getter) : Item → Prop
  | .leaf l => (∃ a r, l.path = a :: r) ∧
      (ambiguous g.src (keyed g l) = true ∨ ∀ m0, none ∈ (expectV P cfg g.src (keyed g l) m0).oks)
  | .node _ => False
  | .frame f => ∃ a r, f.path = a :: r

theorem lemma_untouched_leaf (g : Getter) (hs : srcOK g.src = true) (pre : List Nat) (k : Nat) (h : FieldHdr) (t : Ty)
    (hleaf : leafTy t = true)
    (hu : ∀ f ∈ (if !h.exported then [] else (mkInfo P tag (pre ++ [k]) h t).toList), wants g f = false) :
    ∀ x ∈ leafItems tag k h t, Untouched P cfg g x := by
  intro x hx
  unfold leafItems at hx
  by_cases hex : h.exported = true
  · simp only [hex, Bool.not_true, Bool.false_eq_true, if_false] at hx hu
    have link := lemma_mkInfo_link P tag (pre ++ [k]) h t
    cases htn : tagNames (h.tag tag) h.name (tag == .form) with
    | none =>
      rw [htn] at hx
      simp only [List.mem_singleton] at hx
      subst hx
      exact ⟨k, [], rfl⟩
    | some pa =>
      obtain ⟨p, as⟩ := pa
      rw [htn] at link hx
      simp only [List.mem_singleton] at hx
      subst hx
      obtain ⟨f, hmk, h1, h2, h3, h4, h5, h6⟩ := link
      have hwf := hu f (by simp [hmk])
      have hl : LeafLink P g f (keyed g (leafAt k h t p as)) :=
        { keys := by simp [keyed, leafAt, h1, h2]
          ty := by simp [keyed, leafAt, h4]
          dflt := by simp [keyed, leafAt, h5]
          nested := by simp [keyed, leafAt]
          td := by rw [h6, h4, h5] }
      refine ⟨⟨k, [], rfl⟩, ?_⟩
      by_cases ha : ambiguous g.src (keyed g (leafAt k h t p as)) = true
      · exact Or.inl ha
      · right
        intro m0
        rcases lemma_unwanted P cfg g hs f _ hl (by rw [h4]; exact hleaf) hwf m0 with h | h
        · exact absurd h ha
        · exact h
  · have hex' : h.exported = false := by simpa using hex
    simp only [hex', Bool.not_false, if_true, List.mem_singleton] at hx
    subst hx
    exact ⟨k, [], rfl⟩

theorem lemma_untouched_under (g : Getter) (k : Nat) (its : List Item) (h : ∀ x ∈ its, Untouched P cfg g x) :
    ∀ x ∈ its.map (Item.under k), Untouched P cfg g x := by
  intro x hx
  simp only [List.mem_map] at hx
  obtain ⟨y, hy, hyx⟩ := hx
  subst hyx
  have := h y hy
  cases y with
  | node n => exact this
  | frame f => exact ⟨k, f.path, rfl⟩
  | leaf l =>
    obtain ⟨⟨a, r, hp⟩, h2⟩ := this
    exact ⟨⟨k, l.path, rfl⟩, h2⟩

mutual
theorem lemma_untouched_fld (g : Getter) (hs : srcOK g.src = true) (k : Nat) (h : FieldHdr) :
    ∀ (t : Ty) (pre : List Nat), inGrammar t = true →
      (∀ f ∈ flattenFld P tag pre k h t, wants g f = false) → ∀ x ∈ itemsFld tag k h t, Untouched P cfg g x
  | .struct sub, pre, hg, hu => by
    unfold flattenFld at hu
    unfold itemsFld
    by_cases hex : h.exported = true
    · simp only [hex, Bool.not_true, Bool.false_eq_true, if_false] at hu ⊢
      by_cases han : h.anon = true
      · simp only [han, if_true] at hu ⊢
        exact lemma_untouched_under P cfg g k _
          (lemma_untouched_fs g hs sub (pre ++ [k]) 0 (by simpa [inGrammar] using hg) hu)
      · have han' : h.anon = false := by simpa using han
        simp only [han', Bool.false_eq_true, if_false] at hu ⊢
        have link := lemma_mkInfo_link P tag (pre ++ [k]) h (.struct sub)
        cases htn : tagNames (h.tag tag) h.name (tag == .form) with
        | none =>
          intro x hx
          simp only [List.mem_singleton] at hx
          subst hx
          exact ⟨k, [], rfl⟩
        | some pa =>
          obtain ⟨p, as⟩ := pa
          rw [htn] at link
          obtain ⟨f, hmk, _, _, _, h4, _, _⟩ := link
          have := hu f (by simp [hmk])
          simp [wants, h4, isStructTy, structFields?] at this
    · have hex' : h.exported = false := by simpa using hex
      simp only [hex', Bool.not_false, if_true]
      intro x hx
      simp only [List.mem_singleton] at hx
      subst hx
      exact ⟨k, [], rfl⟩
  | .ptr (.struct sub), pre, hg, hu => by
    unfold flattenFld at hu
    unfold itemsFld
    by_cases hex : h.exported = true
    · simp only [hex, Bool.not_true, Bool.false_eq_true, if_false] at hu ⊢
      by_cases han : h.anon = true
      · simp only [han, if_true] at hu ⊢
        exact lemma_untouched_under P cfg g k _
          (lemma_untouched_fs g hs sub (pre ++ [k]) 0 (by simpa [inGrammar] using hg) hu)
      · have han' : h.anon = false := by simpa using han
        simp only [han', Bool.false_eq_true, if_false] at hu ⊢
        have link := lemma_mkInfo_link P tag (pre ++ [k]) h (.ptr (.struct sub))
        cases htn : tagNames (h.tag tag) h.name (tag == .form) with
        | none =>
          intro x hx
          simp only [List.mem_singleton] at hx
          subst hx
          exact ⟨k, [], rfl⟩
        | some pa =>
          obtain ⟨p, as⟩ := pa
          rw [htn] at link
          obtain ⟨f, hmk, _, _, _, h4, _, _⟩ := link
          have := hu f (by simp [hmk])
          simp [wants, h4, isStructTy, structFields?] at this
    · have hex' : h.exported = false := by simpa using hex
      simp only [hex', Bool.not_false, if_true]
      intro x hx
      simp only [List.mem_singleton] at hx
      subst hx
      exact ⟨k, [], rfl⟩
  | .prim p, pre, hg, hu => by
    have : itemsFld tag k h (.prim p) = leafItems tag k h (.prim p) := by
      simp only [itemsFld, leafItems, leafAt]
      cases h.exported <;> cases tagNames (h.tag tag) h.name (tag == .form) <;> rfl
    rw [this]
    exact lemma_untouched_leaf P cfg tag g hs pre k h _ (by simpa [inGrammar] using hg) (by simpa [flattenFld] using hu)
  | .slice e, pre, hg, hu => by
    have : itemsFld tag k h (.slice e) = leafItems tag k h (.slice e) := by
      simp only [itemsFld, leafItems, leafAt]
      cases h.exported <;> cases tagNames (h.tag tag) h.name (tag == .form) <;> rfl
    rw [this]
    exact lemma_untouched_leaf P cfg tag g hs pre k h _ (by simpa [inGrammar] using hg) (by simpa [flattenFld] using hu)
  | .map e, pre, hg, hu => by
    have : itemsFld tag k h (.map e) = leafItems tag k h (.map e) := by
      simp only [itemsFld, leafItems, leafAt]
      cases h.exported <;> cases tagNames (h.tag tag) h.name (tag == .form) <;> rfl
    rw [this]
    exact lemma_untouched_leaf P cfg tag g hs pre k h _ (by simpa [inGrammar] using hg) (by simpa [flattenFld] using hu)
  | .ptr (.prim p), pre, hg, hu => by
    have : itemsFld tag k h (.ptr (.prim p)) = leafItems tag k h (.ptr (.prim p)) := by
      simp only [itemsFld, leafItems, leafAt]
      cases h.exported <;> cases tagNames (h.tag tag) h.name (tag == .form) <;> rfl
    rw [this]
    exact lemma_untouched_leaf P cfg tag g hs pre k h _ (by simpa [inGrammar] using hg) (by simpa [flattenFld] using hu)
  | .ptr (.ptr e), pre, hg, hu => by simp [inGrammar, leafTy] at hg
  | .ptr (.slice e), pre, hg, hu => by
    have : itemsFld tag k h (.ptr (.slice e)) = leafItems tag k h (.ptr (.slice e)) := by
      simp only [itemsFld, leafItems, leafAt]
      cases h.exported <;> cases tagNames (h.tag tag) h.name (tag == .form) <;> rfl
    rw [this]
    exact lemma_untouched_leaf P cfg tag g hs pre k h _ (by simpa [inGrammar] using hg) (by simpa [flattenFld] using hu)
  | .ptr (.map e), pre, hg, hu => by
    have : itemsFld tag k h (.ptr (.map e)) = leafItems tag k h (.ptr (.map e)) := by
      simp only [itemsFld, leafItems, leafAt]
      cases h.exported <;> cases tagNames (h.tag tag) h.name (tag == .form) <;> rfl
    rw [this]
    exact lemma_untouched_leaf P cfg tag g hs pre k h _ (by simpa [inGrammar] using hg) (by simpa [flattenFld] using hu)
theorem lemma_untouched_fs (g : Getter) (hs : srcOK g.src = true) :
    ∀ (fs : List Fld) (pre : List Nat) (i : Nat), inGrammarFs fs = true →
      (∀ f ∈ flattenFs P tag pre i fs, wants g f = false) → ∀ x ∈ itemsFs tag i fs, Untouched P cfg g x
  | [], pre, i, _, _ => by simp [itemsFs]
  | (h, t) :: rest, pre, i, hg, hu => by
    simp only [inGrammarFs, Bool.and_eq_true] at hg
    simp only [flattenFs, List.mem_append] at hu
    simp only [itemsFs, List.mem_append]
    intro x hx
    rcases hx with hx | hx
    · exact lemma_untouched_fld g hs i h t pre hg.1 (fun f hf => hu f (Or.inl hf)) x hx
    · exact lemma_untouched_fs g hs rest pre (i+1) hg.2 (fun f hf => hu f (Or.inr hf)) x hx
end


/-! ### a nested struct field -/

/-- the treatment of nested structs meets the oracle at depth `d` -/
def NestSpec (nest : Nest) (d : Nat) : Prop :=
  ∀ (nfs : List Fld) (ivs : List Val) (g : Getter), wts nfs ivs = true → inGrammarFs nfs = true → srcOK g.src = true →
    match nest nfs (.struct ivs) g d with
    | .ok v => ItemsOK P cfg g d (itemsFs tag 0 nfs) (.struct ivs) v
    | .err e => ItemsErr P cfg g d (itemsFs tag 0 nfs) (.struct ivs) e
    | .panic => False

/-- the items of a nested (non-embedded) struct field -/
def nestedItems (k : Nat) (h : FieldHdr) (t : Ty) (nfs : List Fld) : List Item :=
  match tagNames (h.tag tag) h.name (tag == .form) with
  | none => [.frame { path := [k], ty := t }]
  | some (p, _) => .node { names := [h.name], depth := 1 } :: (itemsFs tag 0 nfs).map (Item.below k h.name p)

theorem lemma_nested_fld (g : Getter) (hs : srcOK g.src = true) (d : Nat)
    (hn : d + 1 ≤ cfg.maxDepth → NestSpec P cfg tag nest (d + 1))
    (k : Nat) (h : FieldHdr) (nfs : List Fld) (isPtr : Bool) (iv : Val) (hg : inGrammarFs nfs = true)
    (hw : wt (if isPtr then .ptr (.struct nfs) else .struct nfs) iv = true) :
    FldSpec P cfg g d k (nestedItems tag k h (if isPtr then .ptr (.struct nfs) else .struct nfs) nfs) iv
      (refLeaf P cfg nest tag g d h (if isPtr then .ptr (.struct nfs) else .struct nfs) iv) := by
  have link := lemma_mkInfo_link P tag [] h (if isPtr then .ptr (.struct nfs) else .struct nfs)
  unfold nestedItems refLeaf
  cases htn : tagNames (h.tag tag) h.name (tag == .form) with
  | none =>
    rw [htn] at link
    simp only [link]
    exact lemma_fldspec_frame P cfg g d k _ iv
  | some pa =>
    obtain ⟨p, as⟩ := pa
    rw [htn] at link
    obtain ⟨f, hmk, h1, h2, h3, h4, h5, h6⟩ := link
    have hst : isStructTy f.ty = true := by rw [h4]; cases isPtr <;> simp [isStructTy, structFields?]
    have hmp : isMapTy f.ty = false := by rw [h4]; cases isPtr <;> simp [isMapTy]
    have hwants : wants g f = true := by simp [wants, hst]
    have hnfs : structTyOf f.ty = nfs := by rw [h4]; cases isPtr <;> simp [structTyOf]
    simp only [hmk, hwants, Bool.not_true, Bool.false_eq_true, if_false]
    unfold fieldAction
    simp only [hmp, hst, Bool.false_eq_true, if_false, if_true, hnfs]
    by_cases hdep : cfg.maxDepth < d + 1
    · -- too deep: the field is reported, nothing is bound
      simp only [hdep, if_true]
      intro init _
      right
      exact ⟨{ names := [h.name], depth := 1 }, by simp, hdep, by rw [h3]; rfl⟩
    · simp only [hdep, if_false]
      have hd : d + 1 ≤ cfg.maxDepth := by omega
      have hspec := hn hd
      -- the struct value the nested bind starts from
      obtain ⟨ivs, hinner, hwts, hirel⟩ : ∃ ivs, innerOf nfs iv = .struct ivs ∧ wts nfs ivs = true ∧
          ∀ Init : List Val, Init[k]? = some iv → InitRel Init k (.struct ivs) (itemsFs tag 0 nfs) := by
        cases isPtr with
        | false =>
          simp only [Bool.false_eq_true, if_false] at hw
          cases iv with
          | struct cs =>
            exact ⟨cs, rfl, by simpa [wt] using hw, fun Init hk => lemma_initrel_same Init k _ _ hk⟩
          | _ => simp [wt] at hw
        | true =>
          simp only [if_true] at hw
          cases iv with
          | nil =>
            refine ⟨zeroFs nfs, by simp [innerOf, zero], lemma_wts_zero nfs, fun Init hk => ?_⟩
            exact lemma_initrel_nil Init k _ _ hk (fun x hx pt hpt => lemma_items_paths tag nfs x hx pt hpt)
          | ptr y =>
            cases y with
            | struct cs =>
              refine ⟨cs, rfl, by simpa [wt] using hw, fun Init hk => ?_⟩
              exact lemma_initrel_ptr Init k _ _ hk (fun x hx pt hpt => (lemma_items_paths tag nfs x hx pt hpt).1)
            | _ => simp [wt] at hw
          | _ => simp [wt] at hw
      rw [hinner]
      have hsp := hspec nfs ivs (g.push f.tagName) hwts hg hs
      cases hr : nest nfs (.struct ivs) (g.push f.tagName) (d + 1) with
      | panic => rw [hr] at hsp; exact hsp
      | err e =>
        rw [hr] at hsp
        simp only
        intro init hi
        rw [h3, ← h1]
        exact lemma_below_err P cfg g d k h.name f.tagName _ init _ e (hirel init hi) hsp
      | ok nv =>
        rw [hr] at hsp
        simp only
        intro init res hi hrv
        rw [← h1]
        refine lemma_below_ok P cfg g d k h.name f.tagName _ init res (.struct ivs) nv (hirel init hi) ?_ hd hsp
        cases isPtr with
        | false =>
          simp only [h4, Bool.false_eq_true, if_false, rewrap] at hrv
          exact lemma_resrel_same res k nv _ hrv
        | true =>
          simp only [h4, if_true, rewrap] at hrv
          exact lemma_resrel_ptr res k nv _ hrv (fun x hx pt hpt => (lemma_items_paths tag nfs x hx pt hpt).1)


/-! ### the structural binder meets the oracle -/

/-- outcome of the structural binder on the fields from position `i` on -/
def FsSpec (g : Getter) (d i : Nat) (its : List Item) (ivs : List Val) : List Val ⊕ Stop → Prop
  | .inl rvs => rvs.length = ivs.length ∧ ∀ init res : List Val,
      (∀ j, init[i + j]? = ivs[j]?) → (∀ j, res[i + j]? = rvs[j]?) → ItemsOK P cfg g d its (.struct init) (.struct res)
  | .inr (.err e) => ∀ init : List Val, (∀ j, init[i + j]? = ivs[j]?) → ItemsErr P cfg g d its (.struct init) e
  | .inr .panic => False

theorem lemma_itemsFld_nested (k : Nat) (h : FieldHdr) (sub : List Fld) (hex : h.exported = true) (han : h.anon = false) :
    itemsFld tag k h (.struct sub) = nestedItems tag k h (.struct sub) sub ∧
    itemsFld tag k h (.ptr (.struct sub)) = nestedItems tag k h (.ptr (.struct sub)) sub := by
  constructor <;>
  · simp only [itemsFld, nestedItems, hex, han, Bool.not_true, Bool.false_eq_true, if_false]
    cases tagNames (h.tag tag) h.name (tag == .form) <;> rfl

theorem lemma_itemsFld_embedded (k : Nat) (h : FieldHdr) (sub : List Fld) (hex : h.exported = true) (han : h.anon = true) :
    itemsFld tag k h (.struct sub) = (itemsFs tag 0 sub).map (Item.under k) ∧
    itemsFld tag k h (.ptr (.struct sub)) = (itemsFs tag 0 sub).map (Item.under k) := by
  constructor <;> simp [itemsFld, hex, han]

theorem lemma_itemsFld_unexported (k : Nat) (h : FieldHdr) (t : Ty) (hex : h.exported = false) :
    itemsFld tag k h t = [.frame { path := [k], ty := t }] := by
  cases t with
  | ptr e => cases e <;> simp [itemsFld, hex]
  | _ => simp [itemsFld, hex]

def embLift (wrap : Val → Val) : List Val ⊕ Stop → Val ⊕ Stop
  | .inl cs' => .inl (wrap (.struct cs'))
  | .inr o => .inr o

/-- the sub-struct result of an embedded field, lifted to the embedding struct -/
theorem lemma_embedded_lift (g : Getter) (d k : Nat) (sub : List Fld) (cs : List Val) (iv : Val) (wrap : Val → Val)
    (hinit : ∀ Init : List Val, Init[k]? = some iv → InitRel Init k (.struct cs) (itemsFs tag 0 sub))
    (hres : ∀ (Res : List Val) (cs' : List Val), Res[k]? = some (wrap (.struct cs')) →
      ResRel Res k (.struct cs') (itemsFs tag 0 sub))
    (r : List Val ⊕ Stop) (h : FsSpec P cfg g d 0 (itemsFs tag 0 sub) cs r) :
    FldSpec P cfg g d k ((itemsFs tag 0 sub).map (Item.under k)) iv (embLift wrap r) := by
  cases r with
  | inl cs' =>
    intro init res hi hr
    exact lemma_under_ok P cfg g d k _ init res (.struct cs) (.struct cs') (hinit init hi) (hres res cs' hr)
      (h.2 cs cs' (fun j => by simp) (fun j => by simp))
  | inr o =>
    cases o with
    | panic => exact h
    | err e =>
      intro init hi
      exact lemma_under_err P cfg g d k _ init (.struct cs) e (hinit init hi) (h cs (fun j => by simp))

mutual
theorem lemma_ref_fld (hP : FloatSane P) (g : Getter) (hs : srcOK g.src = true) (d : Nat)
    (hn : d + 1 ≤ cfg.maxDepth → NestSpec P cfg tag nest (d + 1)) (k : Nat) (h : FieldHdr) :
    ∀ (t : Ty) (iv : Val), wt t iv = true → inGrammar t = true →
      FldSpec P cfg g d k (itemsFld tag k h t) iv (refFld P cfg nest tag g d h t iv)
  | .struct sub, iv, hw, hg => by
    have hgs : inGrammarFs sub = true := by simpa [inGrammar] using hg
    unfold refFld
    by_cases hex : h.exported = true
    · simp only [hex, Bool.not_true, Bool.false_eq_true, if_false]
      by_cases han : h.anon = true
      · simp only [han, if_true]
        rw [(lemma_itemsFld_embedded tag k h sub hex han).1]
        cases iv with
        | struct cs =>
          have hwc : wts sub cs = true := by simpa [wt] using hw
          have ih := lemma_ref_fs hP g hs d hn sub 0 cs hwc hgs
          have := lemma_embedded_lift P cfg tag g d k sub cs (.struct cs) id
            (fun Init hk => lemma_initrel_same Init k _ _ hk)
            (fun Res cs' hk => lemma_resrel_same Res k _ _ hk) _ ih
          dsimp only
          cases hr : refFs P cfg nest tag g d sub cs with
          | inl cs' => rw [hr] at this; simpa [embLift] using this
          | inr o => rw [hr] at this; simpa [embLift] using this
        | _ => simp [wt] at hw
      · have han' : h.anon = false := by simpa using han
        simp only [han', Bool.false_eq_true, if_false]
        rw [(lemma_itemsFld_nested tag k h sub hex han').1]
        exact lemma_nested_fld P cfg nest tag g hs d hn k h sub false iv hgs (by simpa using hw)
    · have hex' : h.exported = false := by simpa using hex
      simp only [hex', Bool.not_false, if_true, lemma_itemsFld_unexported tag k h _ hex']
      exact lemma_fldspec_frame P cfg g d k _ iv
  | .ptr (.struct sub), iv, hw, hg => by
    have hgs : inGrammarFs sub = true := by simpa [inGrammar] using hg
    unfold refFld
    by_cases hex : h.exported = true
    · simp only [hex, Bool.not_true, Bool.false_eq_true, if_false]
      by_cases han : h.anon = true
      · simp only [han, if_true]
        rw [(lemma_itemsFld_embedded tag k h sub hex han).2]
        have hpaths := fun x hx pt hpt => (lemma_items_paths tag sub x hx pt hpt).1
        cases iv with
        | ptr y =>
          cases y with
          | struct cs =>
            have hwc : wts sub cs = true := by simpa [wt] using hw
            have ih := lemma_ref_fs hP g hs d hn sub 0 cs hwc hgs
            have := lemma_embedded_lift P cfg tag g d k sub cs (.ptr (.struct cs)) Val.ptr
              (fun Init hk => lemma_initrel_ptr Init k _ _ hk hpaths)
              (fun Res cs' hk => lemma_resrel_ptr Res k _ _ hk hpaths) _ ih
            dsimp only
            cases hr : refFs P cfg nest tag g d sub cs with
            | inl cs' => rw [hr] at this; simpa [embLift] using this
            | inr o => rw [hr] at this; simpa [embLift] using this
          | _ => simp [wt] at hw
        | nil =>
          simp only
          by_cases hany : (flatten P tag sub).any (wants g) = true
          · simp only [hany, if_true]
            have ih := lemma_ref_fs hP g hs d hn sub 0 (zeroFs sub) (lemma_wts_zero sub) hgs
            have := lemma_embedded_lift P cfg tag g d k sub (zeroFs sub) .nil Val.ptr
              (fun Init hk => lemma_initrel_nil Init k _ _ hk (fun x hx pt hpt => lemma_items_paths tag sub x hx pt hpt))
              (fun Res cs' hk => lemma_resrel_ptr Res k _ _ hk hpaths) _ ih
            cases hr : refFs P cfg nest tag g d sub (zeroFs sub) with
            | inl cs' => rw [hr] at this; simpa [embLift] using this
            | inr o => rw [hr] at this; simpa [embLift] using this
          · -- no promoted field receives a value: the pointer stays nil, every leaf below is untouched
            have hany' : (flatten P tag sub).any (wants g) = false := by simpa using hany
            simp only [hany', Bool.false_eq_true, if_false]
            have hun := lemma_untouched_fs P cfg tag g hs sub [] 0 hgs (by
              intro f hf
              simp only [List.any_eq_false] at hany'
              simpa using hany' f hf)
            intro init res hi hr
            refine ⟨?_, ?_, ?_⟩
            · intro l hl
              simp only [List.mem_map] at hl
              obtain ⟨x, hx, hxl⟩ := hl
              have hux := hun x hx
              cases x with
              | node n => simp [Item.under] at hxl
              | frame f => simp [Item.under] at hxl
              | leaf l0 =>
                simp only [Item.under, Item.leaf.injEq] at hxl
                subst hxl
                obtain ⟨⟨a, r, hp⟩, hu2⟩ := hux
                rw [lemma_keyed_under, lemma_amb_path]
                rcases hu2 with h | h
                · exact Or.inl h
                · right
                  have hvi : valAt (.struct init) (k :: (keyed g l0).path) = none := by
                    show valAt (.struct init) (k :: l0.path) = none
                    rw [lemma_valAt_cons init k l0.path _ hi, hp, lemma_valAt_nil]
                  have hvr : valAt (.struct res) (k :: (keyed g l0).path) = none := by
                    show valAt (.struct res) (k :: l0.path) = none
                    rw [lemma_valAt_cons res k l0.path _ hr, hp, lemma_valAt_nil]
                  refine ⟨none, ?_, ?_⟩
                  · simp only [expect, hvi]
                    exact h _
                  · simp only [holds, hvi, hvr]
            · intro n hn'
              simp only [List.mem_map] at hn'
              obtain ⟨x, hx, hxl⟩ := hn'
              have hux := hun x hx
              cases x with
              | leaf l0 => simp [Item.under] at hxl
              | frame f => simp [Item.under] at hxl
              | node n0 => exact absurd hux (by simp [Untouched])
            · intro f hf
              simp only [List.mem_map] at hf
              obtain ⟨x, hx, hxl⟩ := hf
              have hux := hun x hx
              cases x with
              | leaf l0 => simp [Item.under] at hxl
              | node n0 => simp [Item.under] at hxl
              | frame f0 =>
                simp only [Item.under, Item.frame.injEq] at hxl
                subst hxl
                obtain ⟨a, r, hp⟩ := hux
                have hvi : valAt (.struct init) (k :: f0.path) = none := by
                  rw [lemma_valAt_cons init k f0.path _ hi, hp, lemma_valAt_nil]
                have hvr : valAt (.struct res) (k :: f0.path) = none := by
                  rw [lemma_valAt_cons res k f0.path _ hr, hp, lemma_valAt_nil]
                simp [holdsFrame, hvi, hvr]
        | _ => simp [wt] at hw
      · have han' : h.anon = false := by simpa using han
        simp only [han', Bool.false_eq_true, if_false]
        rw [(lemma_itemsFld_nested tag k h sub hex han').2]
        exact lemma_nested_fld P cfg nest tag g hs d hn k h sub true iv hgs (by simpa using hw)
    · have hex' : h.exported = false := by simpa using hex
      simp only [hex', Bool.not_false, if_true, lemma_itemsFld_unexported tag k h _ hex']
      exact lemma_fldspec_frame P cfg g d k _ iv
  | .prim p, iv, hw, hg => by
    simp only [refFld]
    by_cases hex : h.exported = true
    · have : itemsFld tag k h (.prim p) = leafItems tag k h (.prim p) := by
        simp only [itemsFld, leafItems, leafAt]
        cases h.exported <;> cases tagNames (h.tag tag) h.name (tag == .form) <;> rfl
      simp only [hex, Bool.not_true, Bool.false_eq_true, if_false, this]
      exact lemma_leaf_fld P cfg nest tag hP g hs d k h _ (by simpa [inGrammar] using hg) iv hex
    · have hex' : h.exported = false := by simpa using hex
      simp only [hex', Bool.not_false, if_true, lemma_itemsFld_unexported tag k h _ hex']
      exact lemma_fldspec_frame P cfg g d k _ iv
  | .slice e, iv, hw, hg => by
    simp only [refFld]
    by_cases hex : h.exported = true
    · have : itemsFld tag k h (.slice e) = leafItems tag k h (.slice e) := by
        simp only [itemsFld, leafItems, leafAt]
        cases h.exported <;> cases tagNames (h.tag tag) h.name (tag == .form) <;> rfl
      simp only [hex, Bool.not_true, Bool.false_eq_true, if_false, this]
      exact lemma_leaf_fld P cfg nest tag hP g hs d k h _ (by simpa [inGrammar] using hg) iv hex
    · have hex' : h.exported = false := by simpa using hex
      simp only [hex', Bool.not_false, if_true, lemma_itemsFld_unexported tag k h _ hex']
      exact lemma_fldspec_frame P cfg g d k _ iv
  | .map e, iv, hw, hg => by
    simp only [refFld]
    by_cases hex : h.exported = true
    · have : itemsFld tag k h (.map e) = leafItems tag k h (.map e) := by
        simp only [itemsFld, leafItems, leafAt]
        cases h.exported <;> cases tagNames (h.tag tag) h.name (tag == .form) <;> rfl
      simp only [hex, Bool.not_true, Bool.false_eq_true, if_false, this]
      exact lemma_leaf_fld P cfg nest tag hP g hs d k h _ (by simpa [inGrammar] using hg) iv hex
    · have hex' : h.exported = false := by simpa using hex
      simp only [hex', Bool.not_false, if_true, lemma_itemsFld_unexported tag k h _ hex']
      exact lemma_fldspec_frame P cfg g d k _ iv
  | .ptr (.prim p), iv, hw, hg => by
    simp only [refFld]
    by_cases hex : h.exported = true
    · have : itemsFld tag k h (.ptr (.prim p)) = leafItems tag k h (.ptr (.prim p)) := by
        simp only [itemsFld, leafItems, leafAt]
        cases h.exported <;> cases tagNames (h.tag tag) h.name (tag == .form) <;> rfl
      simp only [hex, Bool.not_true, Bool.false_eq_true, if_false, this]
      exact lemma_leaf_fld P cfg nest tag hP g hs d k h _ (by simpa [inGrammar] using hg) iv hex
    · have hex' : h.exported = false := by simpa using hex
      simp only [hex', Bool.not_false, if_true, lemma_itemsFld_unexported tag k h _ hex']
      exact lemma_fldspec_frame P cfg g d k _ iv
  | .ptr (.ptr e), iv, hw, hg => by simp [inGrammar, leafTy] at hg
  | .ptr (.slice e), iv, hw, hg => by
    simp only [refFld]
    by_cases hex : h.exported = true
    · have : itemsFld tag k h (.ptr (.slice e)) = leafItems tag k h (.ptr (.slice e)) := by
        simp only [itemsFld, leafItems, leafAt]
        cases h.exported <;> cases tagNames (h.tag tag) h.name (tag == .form) <;> rfl
      simp only [hex, Bool.not_true, Bool.false_eq_true, if_false, this]
      exact lemma_leaf_fld P cfg nest tag hP g hs d k h _ (by simpa [inGrammar] using hg) iv hex
    · have hex' : h.exported = false := by simpa using hex
      simp only [hex', Bool.not_false, if_true, lemma_itemsFld_unexported tag k h _ hex']
      exact lemma_fldspec_frame P cfg g d k _ iv
  | .ptr (.map e), iv, hw, hg => by
    simp only [refFld]
    by_cases hex : h.exported = true
    · have : itemsFld tag k h (.ptr (.map e)) = leafItems tag k h (.ptr (.map e)) := by
        simp only [itemsFld, leafItems, leafAt]
        cases h.exported <;> cases tagNames (h.tag tag) h.name (tag == .form) <;> rfl
      simp only [hex, Bool.not_true, Bool.false_eq_true, if_false, this]
      exact lemma_leaf_fld P cfg nest tag hP g hs d k h _ (by simpa [inGrammar] using hg) iv hex
    · have hex' : h.exported = false := by simpa using hex
      simp only [hex', Bool.not_false, if_true, lemma_itemsFld_unexported tag k h _ hex']
      exact lemma_fldspec_frame P cfg g d k _ iv
theorem lemma_ref_fs (hP : FloatSane P) (g : Getter) (hs : srcOK g.src = true) (d : Nat)
    (hn : d + 1 ≤ cfg.maxDepth → NestSpec P cfg tag nest (d + 1)) :
    ∀ (fs : List Fld) (i : Nat) (ivs : List Val), wts fs ivs = true → inGrammarFs fs = true →
      FsSpec P cfg g d i (itemsFs tag i fs) ivs (refFs P cfg nest tag g d fs ivs)
  | [], i, ivs, hw, _ => by
    cases ivs with
    | nil =>
      simp only [refFs, itemsFs, FsSpec]
      exact ⟨by trivial, fun init res _ _ => lemma_itemsOK_nil P cfg g d _ _⟩
    | cons _ _ => simp [wts] at hw
  | (h, t) :: rest, i, [], hw, _ => by simp [wts] at hw
  | (h, t) :: rest, i, v :: vs, hw, hg => by
    simp only [wts, Bool.and_eq_true] at hw
    simp only [inGrammarFs, Bool.and_eq_true] at hg
    have ihf := lemma_ref_fld hP g hs d hn i h t v hw.1 hg.1
    have ihs := lemma_ref_fs hP g hs d hn rest (i+1) vs hw.2 hg.2
    simp only [refFs, itemsFs]
    cases hr : refFld P cfg nest tag g d h t v with
    | inr o =>
      rw [hr] at ihf
      cases o with
      | panic => exact ihf
      | err e =>
        intro init hi
        exact lemma_itemsErr_left P cfg g d _ _ _ e (ihf init (by simpa using hi 0))
    | inl v' =>
      rw [hr] at ihf
      simp only
      have shift : ∀ (l : List Val) (w : Val) (ws : List Val), (∀ j, l[i + j]? = (w :: ws)[j]?) →
          ∀ j, l[i + 1 + j]? = ws[j]? := by
        intro l w ws hl j
        have := hl (j + 1)
        simpa [Nat.add_assoc, Nat.add_comm 1 j] using this
      cases hrs : refFs P cfg nest tag g d rest vs with
      | inr o =>
        rw [hrs] at ihs
        cases o with
        | panic => exact ihs
        | err e =>
          intro init hi
          exact lemma_itemsErr_right P cfg g d _ _ _ e (ihs init (shift init v vs hi))
      | inl vs' =>
        rw [hrs] at ihs
        refine ⟨by simp [ihs.1], ?_⟩
        intro init res hi hrr
        rw [lemma_itemsOK_append]
        exact ⟨ihf init res (by simpa using hi 0) (by simpa using hrr 0),
               ihs.2 init res (shift init v vs hi) (shift res v' vs' hrr)⟩
end

end Rivaas.Bind
