import Rivaas.Model.Bind
import Rivaas.Spec.Bind
import Rivaas.Lemmas.BindVal
import Rivaas.Lemmas.BindPath
import Rivaas.Lemmas.BindFlatten
import Rivaas.Lemmas.BindRef
import Rivaas.Lemmas.BindExpect
import Rivaas.Lemmas.BindMap
import Rivaas.Lemmas.BindItems
/-
C04: the structural binder meets the oracle, item by item (`lemma_ref_fld` / `lemma_ref_fs`), for
every treatment of nested structs that meets it one level deeper (`NestSpec`).
-/
set_option linter.unusedSimpArgs false
set_option linter.unusedVariables false
namespace Rivaas.Bind
open Spec

/-- every item is satisfied by the result `res` (which was `init`), seen through getter `g` at depth `d` -/
def ItemsOK (P : Params) (cfg : Cfg) (g : Getter) (d : Nat) (its : List Item) (init res : Val) : Prop :=
  (∀ l, Item.leaf l ∈ its → ambiguous g.src (keyed g l) = true ∨
      ∃ e ∈ (expect P cfg g.src init (keyed g l)).oks, holds init res (keyed g l) e = true) ∧
  (∀ n, Item.node n ∈ its → d + n.depth ≤ cfg.maxDepth)

/-- the error is one the oracle admits for some item -/
def ItemsErr (P : Params) (cfg : Cfg) (g : Getter) (d : Nat) (its : List Item) (init : Val) (e : Err) : Prop :=
  (∃ l, Item.leaf l ∈ its ∧ ∃ c, e = wrapErr l.names c ∧
      (c ∈ (expect P cfg g.src init (keyed g l)).errs ∨
        (ambiguous g.src (keyed g l) = true ∧ (c = .conv ∨ c = .sliceLen ∨ c = .mapSize)))) ∨
  (∃ n, Item.node n ∈ its ∧ cfg.maxDepth < d + n.depth ∧ e = wrapErr n.names .depth)

theorem lemma_itemsOK_append (P : Params) (cfg : Cfg) (g : Getter) (d : Nat) (a b : List Item) (init res : Val) :
    ItemsOK P cfg g d (a ++ b) init res ↔ ItemsOK P cfg g d a init res ∧ ItemsOK P cfg g d b init res := by
  unfold ItemsOK
  simp only [List.mem_append]
  constructor
  · rintro ⟨h1, h2⟩
    exact ⟨⟨fun l hl => h1 l (Or.inl hl), fun n hn => h2 n (Or.inl hn)⟩,
           ⟨fun l hl => h1 l (Or.inr hl), fun n hn => h2 n (Or.inr hn)⟩⟩
  · rintro ⟨⟨h1, h2⟩, ⟨h3, h4⟩⟩
    exact ⟨fun l hl => hl.elim (h1 l) (h3 l), fun n hn => hn.elim (h2 n) (h4 n)⟩

theorem lemma_itemsErr_left (P : Params) (cfg : Cfg) (g : Getter) (d : Nat) (a b : List Item) (init : Val) (e : Err)
    (h : ItemsErr P cfg g d a init e) : ItemsErr P cfg g d (a ++ b) init e := by
  unfold ItemsErr at h ⊢
  rcases h with ⟨l, hl, h⟩ | ⟨n, hn, h⟩
  · exact Or.inl ⟨l, by simp [hl], h⟩
  · exact Or.inr ⟨n, by simp [hn], h⟩

theorem lemma_itemsErr_right (P : Params) (cfg : Cfg) (g : Getter) (d : Nat) (a b : List Item) (init : Val) (e : Err)
    (h : ItemsErr P cfg g d b init e) : ItemsErr P cfg g d (a ++ b) init e := by
  unfold ItemsErr at h ⊢
  rcases h with ⟨l, hl, h⟩ | ⟨n, hn, h⟩
  · exact Or.inl ⟨l, by simp [hl], h⟩
  · exact Or.inr ⟨n, by simp [hn], h⟩

theorem lemma_itemsOK_nil (P : Params) (cfg : Cfg) (g : Getter) (d : Nat) (init res : Val) :
    ItemsOK P cfg g d [] init res := by
  unfold ItemsOK; simp

/-! ### `mkInfo` and the oracle's `tagNames` read the tag alike -/

theorem lemma_parseTag (tv name : Bytes) (isForm : Bool) :
    parseTag tv name isForm =
      (let parts := (splitB ',' tv).map trimSpace
       let primary := parts.headD []
       (if primary.isEmpty && isForm then name else primary,
        (parts.drop 1).filter (fun p => !p.isEmpty && !(isForm && p == B "omitempty")))) := by
  unfold parseTag
  have h1 : ((splitB ',' tv).map trimSpace).headD [] = trimSpace ((splitB ',' tv).headD []) := by
    cases splitB ',' tv with
    | nil => simp [trimSpace, trimLeft]
    | cons a r => simp
  have h2 : ((splitB ',' tv).map trimSpace).drop 1 = ((splitB ',' tv).drop 1).map trimSpace := by
    simp [List.map_drop]
  simp only [h1, h2]

theorem lemma_mkInfo_link (P : Params) (tag : Tag) (idx : List Nat) (h : FieldHdr) (t : Ty) :
    match tagNames (h.tag tag) h.name (tag == .form) with
    | none => mkInfo P tag idx h t = none
    | some (p, as) => ∃ f, mkInfo P tag idx h t = some f ∧ f.tagName = p ∧ f.aliases = as ∧ f.name = h.name ∧
        f.ty = t ∧ f.dflt = h.dflt ∧
        f.typedDefault = (if !h.dflt.isEmpty && !isSliceTy t && !isMapTy t then convTy P Cfg.default t h.dflt else none) := by
  unfold tagNames mkInfo
  simp only
  have hne : (tag != Tag.form) = !(tag == Tag.form) := rfl
  by_cases h1 : ((h.tag tag).isEmpty && !(tag == Tag.form)) = true
  · simp [h1, hne]
  · have h1' : ((h.tag tag).isEmpty && !(tag == Tag.form)) = false := by simpa using h1
    simp only [h1', hne, Bool.false_eq_true, if_false]
    by_cases h2 : ((tag == Tag.form) && (h.tag tag == B "-")) = true
    · simp [h2]
    · have h2' : ((tag == Tag.form) && (h.tag tag == B "-")) = false := by simpa using h2
      simp only [h2', Bool.false_eq_true, if_false, lemma_parseTag]
      exact ⟨_, rfl, rfl, rfl, rfl, rfl, rfl, rfl⟩


/-! ### one leaf field -/

variable (P : Params) (cfg : Cfg) (nest : Nest) (tag : Tag)

/-- the oracle's leaf for field `k` with header `h`, type `t`, names `p :: as` -/
def leafAt (k : Nat) (h : FieldHdr) (t : Ty) (p : Bytes) (as : List Bytes) : Leaf :=
  { path := [k], names := [h.name], keys := p :: as, ty := t, dflt := h.dflt, nested := false }

/-- outcome of the structural binder on field `k`, against the items of that field -/
def FldSpec (g : Getter) (d k : Nat) (its : List Item) (iv : Val) : Val ⊕ Stop → Prop
  | .inl rv => ∀ init res : List Val, init[k]? = some iv → res[k]? = some rv →
      ItemsOK P cfg g d its (.struct init) (.struct res)
  | .inr (.err e) => ∀ init : List Val, init[k]? = some iv → ItemsErr P cfg g d its (.struct init) e
  | .inr .panic => False

theorem lemma_leafOK_mono (E : Expect) (amb : Bool) (iv : Val) (name : Bytes) (o : Val ⊕ Stop)
    (h : LeafOK E false iv name o) : LeafOK E amb iv name o := by
  cases o with
  | inl rv =>
    simp only [LeafOK] at h ⊢
    rcases h with h | h
    · cases h
    · exact Or.inr h
  | inr s =>
    cases s with
    | err e =>
      simp only [LeafOK] at h ⊢
      obtain ⟨c, hc, h⟩ := h
      refine ⟨c, hc, ?_⟩
      rcases h with h | ⟨h, _⟩
      · exact Or.inl h
      · cases h
    | panic => exact h

theorem lemma_leaf_core (g : Getter) (d k : Nat) (h : FieldHdr) (t : Ty) (p : Bytes) (as : List Bytes) (f : FieldInfo)
    (iv : Val) (hname : f.name = h.name)
    (hLO : LeafOK (expectV P cfg g.src (keyed g (leafAt k h t p as)) (mapOf (some iv)))
      (ambiguous g.src (keyed g (leafAt k h t p as))) iv f.name
      (if !wants g f then .inl iv else fieldAction P cfg nest g d f iv)) :
    FldSpec P cfg g d k [.leaf (leafAt k h t p as)] iv (if !wants g f then .inl iv else fieldAction P cfg nest g d f iv) := by
  generalize (if !wants g f then (Sum.inl iv : Val ⊕ Stop) else fieldAction P cfg nest g d f iv) = o at hLO ⊢
  have hpath : (keyed g (leafAt k h t p as)).path = [k] := rfl
  cases o with
  | inl rv =>
    intro init res hi hr
    refine ⟨?_, by simp⟩
    intro l hl
    simp only [List.mem_singleton, Item.leaf.injEq] at hl
    subst hl
    simp only [LeafOK] at hLO
    rcases hLO with h | ⟨e, he, hh⟩
    · exact Or.inl h
    · right
      refine ⟨e, ?_, ?_⟩
      · simp only [expect, hpath, valAt, hi]
        exact he
      · simp only [holds, hpath, valAt, hi, hr]
        cases e <;> exact hh
  | inr st =>
    cases st with
    | panic => exact hLO
    | err e =>
      intro init hi
      simp only [LeafOK] at hLO
      obtain ⟨c, hc, hh⟩ := hLO
      left
      refine ⟨leafAt k h t p as, by simp, c, ?_, ?_⟩
      · rw [hc, hname]; rfl
      · simp only [expect, hpath, valAt, hi]
        exact hh


/-- the items of a leaf-typed field -/
def leafItems (k : Nat) (h : FieldHdr) (t : Ty) : List Item :=
  if !h.exported then []
  else match tagNames (h.tag tag) h.name (tag == .form) with
    | none => []
    | some (p, as) => [.leaf (leafAt k h t p as)]

theorem lemma_leaf_fld_aux (g : Getter) (d k : Nat) (h : FieldHdr) (t : Ty) (iv : Val) (hex : h.exported = true)
    (hLeaf : ∀ f l, LeafLink P g f l → f.ty = t → l.ty = t →
      LeafOK (expectV P cfg g.src l (mapOf (some iv))) (ambiguous g.src l) iv f.name
        (if !wants g f then .inl iv else fieldAction P cfg nest g d f iv)) :
    FldSpec P cfg g d k (leafItems tag k h t) iv (refLeaf P cfg nest tag g d h t iv) := by
  have link := lemma_mkInfo_link P tag [] h t
  unfold leafItems refLeaf
  simp only [hex, Bool.not_true, Bool.false_eq_true, if_false]
  cases htn : tagNames (h.tag tag) h.name (tag == .form) with
  | none =>
    rw [htn] at link
    simp only [link]
    intro init res _ _
    exact lemma_itemsOK_nil P cfg g d _ _
  | some pa =>
    obtain ⟨p, as⟩ := pa
    rw [htn] at link
    obtain ⟨f, hmk, h1, h2, h3, h4, h5, h6⟩ := link
    simp only [hmk]
    have hl : LeafLink P g f (keyed g (leafAt k h t p as)) :=
      { keys := by simp [keyed, leafAt, h1, h2]
        ty := by simp [keyed, leafAt, h4]
        dflt := by simp [keyed, leafAt, h5]
        nested := by simp [keyed, leafAt]
        td := by rw [h6, h4, h5] }
    exact lemma_leaf_core P cfg nest g d k h t p as f iv h3 (hLeaf f _ hl h4 (by simp [keyed, leafAt]))

/-- **a leaf field** of any kind of the grammar -/
theorem lemma_leaf_fld (hP : FloatSane P) (g : Getter) (hs : srcOK g.src = true) (d k : Nat) (h : FieldHdr)
    (t : Ty) (hleaf : leafTy t = true) (iv : Val) (hex : h.exported = true) :
    FldSpec P cfg g d k (leafItems tag k h t) iv (refLeaf P cfg nest tag g d h t iv) := by
  apply lemma_leaf_fld_aux P cfg nest tag g d k h t iv hex
  intro f l hl hft hlt
  unfold expectV ambiguous
  -- the six leaf shapes
  cases t with
  | prim p =>
    simp only [hlt]
    exact lemma_leaf_scalar P cfg nest hP g hs d f l p hl hft iv
  | slice e =>
    cases e with
    | prim p =>
      simp only [hlt]
      exact lemma_leaf_slice P cfg nest hP g hs d f l p false hl (by simpa using hft) iv
    | _ => simp [leafTy] at hleaf
  | map e =>
    cases e with
    | prim p =>
      simp only [hlt]
      have := lemma_leaf_map P cfg nest hP g hs d f l p false hl (by simpa using hft) iv
      simp only [this.1, Bool.not_true, Bool.false_eq_true, if_false]
      exact lemma_leafOK_mono _ _ _ _ _ this.2
    | _ => simp [leafTy] at hleaf
  | ptr e =>
    cases e with
    | prim p =>
      simp only [hlt]
      exact lemma_leaf_ptr P cfg nest hP g hs d f l p hl hft iv
    | slice e' =>
      cases e' with
      | prim p =>
        simp only [hlt]
        exact lemma_leaf_slice P cfg nest hP g hs d f l p true hl (by simpa using hft) iv
      | _ => simp [leafTy] at hleaf
    | map e' =>
      cases e' with
      | prim p =>
        simp only [hlt]
        have := lemma_leaf_map P cfg nest hP g hs d f l p true hl (by simpa using hft) iv
        simp only [this.1, Bool.not_true, Bool.false_eq_true, if_false]
        exact lemma_leafOK_mono _ _ _ _ _ this.2
      | _ => simp [leafTy] at hleaf
    | _ => simp [leafTy] at hleaf
  | struct fs => simp [leafTy] at hleaf

end Rivaas.Bind
