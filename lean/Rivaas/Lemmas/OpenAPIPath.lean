import Rivaas.Lemmas.OpenAPIEval
set_option linter.unusedSimpArgs false
/-
C07 — helper lemmas: paths. `convertPath` agrees with the oracle's own reading of a route,
`ValidatePath` gives non-empty, pairwise different `:name` parameters and a leading `/`, and the
method ↦ member mapping agrees with lower-casing.
-/
namespace Rivaas.OpenAPI
open List

theorem s_colon : s ":" = [':'] := rfl

theorem cutPrefix_colon_cons (name : B) : cutPrefix (s ":") (':' :: name) = some name := by
  simp [cutPrefix, s_colon, isPrefixOf]

theorem cutPrefix_colon_nil : cutPrefix (s ":") [] = none := by
  simp [cutPrefix, s_colon, isPrefixOf]

theorem cutPrefix_colon_ne (c : Char) (cs : B) (h : c ≠ ':') : cutPrefix (s ":") (c :: cs) = none := by
  have : ([':'] : B).isPrefixOf (c :: cs) = false := by
    simp only [isPrefixOf, Bool.and_eq_false_imp, beq_iff_eq]
    intro e; exact absurd e.symm h
  simp [cutPrefix, s_colon, this]

/-- case analysis on a path segment -/
theorem seg_cases (seg : B) : seg = [] ∨ (∃ name, seg = ':' :: name) ∨ (∃ c cs, seg = c :: cs ∧ c ≠ ':') := by
  cases seg with
  | nil => exact Or.inl rfl
  | cons c cs =>
    by_cases h : c = ':'
    · exact Or.inr (Or.inl ⟨cs, by rw [h]⟩)
    · exact Or.inr (Or.inr ⟨c, cs, rfl, h⟩)

theorem routeParamNames_eq_spec (route : B) : routeParamNames route = specRouteParams route := by
  simp only [routeParamNames, specRouteParams]
  congr 1
  funext seg
  rcases seg_cases seg with rfl | ⟨name, rfl⟩ | ⟨c, cs, rfl, h⟩
  · simp [cutPrefix_colon_nil]
  · simp [cutPrefix_colon_cons]
  · rw [cutPrefix_colon_ne c cs h]
    split
    · rename_i heq; simp only [cons.injEq] at heq; exact absurd heq.1 h
    · rfl

theorem convertPath_eq_spec (route : B) : convertPath route = specPathKey route := by
  simp only [convertPath, specPathKey]
  congr 1
  apply map_congr_left
  intro seg _
  rcases seg_cases seg with rfl | ⟨name, rfl⟩ | ⟨c, cs, rfl, h⟩
  · simp [convertSeg, cutPrefix_colon_nil]
  · simp only [convertSeg, cutPrefix_colon_cons]; simp [s]
  · simp only [convertSeg, cutPrefix_colon_ne c cs h]
    split
    · rename_i heq; simp only [cons.injEq] at heq; exact absurd heq.1 h
    · rfl


/-! ## ValidatePath -/

theorem contains_singleton (c : Char) : ∀ x : B, contains x [c] = x.contains c
  | [] => by simp [contains]
  | d :: ds => by
    simp only [contains, isPrefixOf, contains_singleton c ds, List.contains_cons]
    cases ds <;> simp [isPrefixOf, Bool.beq_comm, eq_comm]

theorem no_brace_of_valid (name : B) (h : validParamName name = true) (c : Char) (hc : nameByteOK c = false)
    (hc' : c ≠ ':') : contains (':' :: name) [c] = false := by
  rw [contains_singleton]
  simp only [validParamName, Bool.and_eq_true, all_eq_true] at h
  simp only [List.contains_cons, Bool.or_eq_false_iff, beq_eq_false_iff_ne, ne_eq]
  refine ⟨hc', ?_⟩
  simp only [contains_eq_mem, decide_eq_false_iff_not]
  intro hm
  have := h.2 c hm
  rw [hc] at this
  exact absurd this (by simp)

theorem segParam_colon (name : B) :
    segParam (':' :: name) = if name = [] ∨ validParamName name = false then none else some name := by
  unfold segParam
  simp only [cutPrefix_colon_cons]
  by_cases h : name = [] ∨ validParamName name = false
  · have : (name = [] ∨ (!validParamName name) = true) := by
      rcases h with h | h
      · exact Or.inl h
      · exact Or.inr (by simp [h])
    simp only [this, if_true, h]
  · have hv : validParamName name = true := by
      simp only [not_or, Bool.not_eq_false] at h; exact h.2
    have hne : name ≠ [] := fun e => h (Or.inl e)
    have h1 : contains (':' :: name) (s "{") = false := no_brace_of_valid name hv '{' (by decide) (by decide)
    have h2 : contains (':' :: name) (s "}") = false := no_brace_of_valid name hv '}' (by decide) (by decide)
    simp [hne, hv, h1, h2]

theorem validSegs_names : ∀ (segs : List B) (seen : List B), validSegs segs seen = true →
    (∀ n ∈ segs.filterMap (cutPrefix (s ":")), n ≠ [] ∧ n ∉ seen) ∧ (segs.filterMap (cutPrefix (s ":"))).Nodup
  | [], _, _ => by simp
  | seg :: rest, seen, h => by
    rcases seg_cases seg with rfl | ⟨name, rfl⟩ | ⟨c, cs, rfl, hc⟩
    · simp only [validSegs, if_true] at h
      simpa only [filterMap_cons, cutPrefix_colon_nil] using validSegs_names rest seen h
    · simp only [validSegs, reduceCtorEq, if_false, segParam_colon] at h
      by_cases hv : name = [] ∨ validParamName name = false
      · simp [hv] at h
      · simp only [hv, if_false] at h
        have hne : name ≠ [] := fun e => hv (Or.inl e)
        simp only [hne, if_false] at h
        by_cases hs : seen.contains name = true
        · exfalso; simp only [hs, if_true] at h; cases h
        · simp only [hs, Bool.false_eq_true, if_false] at h
          obtain ⟨ih1, ih2⟩ := validSegs_names rest (name :: seen) h
          simp only [filterMap_cons, cutPrefix_colon_cons]
          refine ⟨?_, ?_⟩
          · intro n hn
            simp only [mem_cons] at hn
            rcases hn with rfl | hn
            · exact ⟨hne, by simpa using hs⟩
            · exact ⟨(ih1 n hn).1, fun hm => (ih1 n hn).2 (mem_cons_of_mem _ hm)⟩
          · rw [nodup_cons]
            exact ⟨fun hm => (ih1 name hm).2 (mem_cons_self ..), ih2⟩
    · simp only [validSegs, reduceCtorEq, if_false] at h
      simp only [filterMap_cons, cutPrefix_colon_ne c cs hc]
      split at h
      · cases h
      next pn _ =>
        split at h
        · exact validSegs_names rest seen h
        · split at h
          · cases h
          · obtain ⟨ih1, ih2⟩ := validSegs_names rest (pn :: seen) h
            exact ⟨fun n hn => ⟨(ih1 n hn).1, fun hm => (ih1 n hn).2 (mem_cons_of_mem _ hm)⟩, ih2⟩

theorem splitOn_ne_nil (sep : Char) : ∀ x : B, splitOn sep x ≠ []
  | [] => by simp [splitOn]
  | c :: cs => by
    simp only [splitOn]
    split
    · simp
    · split <;> simp

/-- what `ValidatePath` gives about the route's `:name` parameters and the converted key -/
theorem validatePath_names {path : B} (h : validatePath path = true) :
    (∀ n ∈ routeParamNames path, n ≠ []) ∧ (routeParamNames path).Nodup := by
  unfold validatePath at h
  split at h
  · cases h
  · split at h
    · cases h
    · obtain ⟨h1, h2⟩ := validSegs_names _ [] h
      exact ⟨fun n hn => (h1 n hn).1, h2⟩

theorem validatePath_slash {path : B} (h : validatePath path = true) : hasPrefix (s "/") (convertPath path) = true := by
  unfold validatePath at h
  split at h
  · cases h
  · split at h
    · cases h
    next hp =>
      have hs1 : s "/" = ['/'] := rfl
      simp only [Bool.not_eq_true, Bool.not_eq_false, hasPrefix, hs1] at hp
      cases path with
      | nil => simp [isPrefixOf] at hp
      | cons c cs =>
        have hc : c = '/' := by
          simp only [isPrefixOf, Bool.and_true] at hp
          have : ('/' == c) = true := by cases h : ('/' == c) <;> simp_all
          exact (beq_iff_eq.1 this).symm
        subst hc
        simp only [convertPath, splitOn]
        have hne := splitOn_ne_nil '/' cs
        cases hsp : splitOn '/' cs with
        | nil => exact absurd hsp hne
        | cons seg more =>
          simp only [if_true, map_cons]
          have : convertSeg [] = [] := by simp [convertSeg, cutPrefix_colon_nil]
          rw [this]
          have hs : s "/" = ['/'] := rfl
          cases hm : map convertSeg more with
          | nil => simp only [joinWith, hasPrefix, hs, nil_append]; rfl
          | cons y ys => simp only [joinWith, hasPrefix, hs, nil_append]; rfl


/-! ## methods and path item members -/

theorem lowerC_upperC (c : Char) : lowerC (upperC c) = lowerC c := by
  unfold upperC
  split <;> first | rfl | decide

theorem upperC_lowerC (c : Char) : upperC (lowerC c) = upperC c := by
  unfold lowerC
  split <;> first | rfl | decide

theorem toLower_toUpper (m : B) : toLower (toUpper m) = toLower m := by
  simp [toLower, toUpper, lowerC_upperC]

theorem toUpper_toLower (m : B) : toUpper (toLower m) = toUpper m := by
  simp [toLower, toUpper, upperC_lowerC]

def storedMembers : List B := [s "get", s "post", s "put", s "delete", s "patch", s "options", s "head"]

/-- the member an operation is stored under is the lower-cased method, one of the seven -/
theorem methodMember_some {m x : B} (h : methodMember m = some x) : x = specMember m ∧ x ∈ storedMembers := by
  unfold methodMember at h
  simp only [] at h
  have key : ∀ (U L : B), toUpper m = U → toLower U = L → specMember m = L := by
    intro U L h1 h2
    rw [specMember, ← toLower_toUpper, h1, h2]
  split at h
  next hu => cases h; exact ⟨(key _ _ hu (by decide)).symm, by decide⟩
  split at h
  next hu => cases h; exact ⟨(key _ _ hu (by decide)).symm, by decide⟩
  split at h
  next hu => cases h; exact ⟨(key _ _ hu (by decide)).symm, by decide⟩
  split at h
  next hu => cases h; exact ⟨(key _ _ hu (by decide)).symm, by decide⟩
  split at h
  next hu => cases h; exact ⟨(key _ _ hu (by decide)).symm, by decide⟩
  split at h
  next hu => cases h; exact ⟨(key _ _ hu (by decide)).symm, by decide⟩
  split at h
  next hu => cases h; exact ⟨(key _ _ hu (by decide)).symm, by decide⟩
  cases h

/-- conversely, a method whose lower-cased form is one of the seven members is stored there -/
theorem methodMember_of_spec {m : B} (h : specMember m ∈ storedMembers) : methodMember m = some (specMember m) := by
  have hup : toUpper m = toUpper (specMember m) := by rw [specMember, toUpper_toLower]
  simp only [storedMembers, List.mem_cons, List.not_mem_nil, or_false] at h
  unfold methodMember
  simp only []
  rcases h with h | h | h | h | h | h | h <;> rw [hup, h] <;> decide

end Rivaas.OpenAPI
