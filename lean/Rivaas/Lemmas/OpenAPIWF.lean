import Rivaas.Lemmas.OpenAPISpec
set_option linter.unusedSimpArgs false
/-
C07 — helper lemmas: the projected schemas satisfy the WF fragment.
-/
namespace Rivaas.OpenAPI
open List

theorem isDigit_iff (c : Char) : isDigit c = c.isDigit := by
  simp only [isDigit, Char.isDigit, Char.le_def, Bool.decide_and]

theorem isNatText_itoa (n : Nat) : isNatText (itoa n) = true := by
  simp only [isNatText, itoa, Nat.toList_repr, Bool.and_eq_true, Bool.not_eq_eq_eq_not, Bool.not_true, all_eq_true]
  constructor
  · cases h : Nat.toDigits 10 n with
    | nil => exact absurd h Nat.toDigits_ne_nil
    | cons a as => rfl
  · intro c hc
    rw [isDigit_iff]
    exact Nat.isDigit_of_mem_toDigits (by decide) (by decide) hc

theorem kind_ok (k : Kind) (h : kindString k ≠ []) : typeNames.contains (kindString k) = true := by
  cases k <;> first | exact absurd rfl h | decide

section attrs
variable (v : Version)

theorem attrCoreOK_type_str (k : Kind) (h : kindString k ≠ []) : attrCoreOK v (s "type", .str (kindString k)) = true := by
  have := kind_ok k h
  simp only [contains_eq_mem, decide_eq_true_eq] at this
  cases v <;> simp [attrCoreOK, this]

theorem attrCoreOK_strKey (key : B) (x : B) (hk : key ≠ s "type")
    (hm : key ∈ [s "format", s "pattern", s "example", s "description"]) :
    attrCoreOK v (key, .str x) = true := by
  simp only [mem_cons, not_mem_nil, or_false] at hm
  cases v <;> simp [attrCoreOK, hk] <;> simp [hm]

theorem attrCoreOK_required (xs : List B) (h1 : xs.isEmpty = false) (h2 : xs.Nodup) :
    attrCoreOK v (s "required", .strs xs) = true := by
  cases v <;> simp [attrCoreOK, h1, (nodupB_iff xs).2 h2] <;> simpa using h1

theorem attrCoreOK_enum (xs : List B) (h1 : xs.isEmpty = false) : attrCoreOK v (s "enum", .strs xs) = true := by
  have : s "enum" ≠ s "required" := by decide
  cases v <;> simp [attrCoreOK, this] <;> simpa using h1

theorem attrCoreOK_len (key : B) (n : Nat) (hm : key ∈ [s "maxLength", s "minLength"]) :
    attrCoreOK v (key, .num (itoa n)) = true := by
  simp only [mem_cons, not_mem_nil, or_false] at hm
  cases v <;> simp [attrCoreOK, hm, isNatText_itoa]

theorem attrCoreOK_bound (key : B) (x : B) (hn : key ∉ [s "maxLength", s "minLength"])
    (hm : key ∈ [s "maximum", s "minimum"]) : attrCoreOK v (key, .num x) = true := by
  simp only [mem_cons, not_mem_nil, or_false, not_or] at hm hn
  cases v <;> simp [attrCoreOK, hn] <;> simp [hm]
end attrs

theorem all_optAttr (P : B × Sc → Bool) (k : String) (c : Bool) (x : Sc) (h : c = true → P (s k, x) = true) :
    (optAttr k c x).all P = true := by
  unfold optAttr
  split
  next hc => simp [h hc]
  · rfl

/-- `schema30` emits only members the 3.0 Schema Object admits, with admissible values -/
theorem head30r_ok (h : Head) (hr : h.required.Nodup) : (head30r h).all (attrCoreOK .v30) = true := by
  simp only [head30r, all_append, Bool.and_eq_true]
  refine ⟨⟨⟨⟨⟨⟨⟨⟨⟨⟨⟨⟨?_, ?_⟩, ?_⟩, ?_⟩, ?_⟩, ?_⟩, ?_⟩, ?_⟩, ?_⟩, ?_⟩, ?_⟩, ?_⟩, ?_⟩
  · exact all_optAttr _ _ _ _ fun hc => attrCoreOK_enum _ _ (by simpa using hc)
  · exact all_optAttr _ _ _ _ fun _ => attrCoreOK_strKey _ (s "example") _ (by decide) (by decide)
  · exact all_optAttr _ _ _ _ fun _ => by decide
  · exact all_optAttr _ _ _ _ fun _ => by decide
  · exact all_optAttr _ _ _ _ fun _ => attrCoreOK_strKey _ (s "format") _ (by decide) (by decide)
  · cases h.maxLength <;> simp [attrCoreOK_len .v30 (s "maxLength") _ (by decide)]
  · cases h.maximum <;> simp [attrCoreOK_bound .v30 (s "maximum") _ (by decide) (by decide)]
  · cases h.minLength <;> simp [attrCoreOK_len .v30 (s "minLength") _ (by decide)]
  · cases h.minimum <;> simp [attrCoreOK_bound .v30 (s "minimum") _ (by decide) (by decide)]
  · exact all_optAttr _ _ _ _ fun _ => by decide
  · exact all_optAttr _ _ _ _ fun _ => attrCoreOK_strKey _ (s "pattern") _ (by decide) (by decide)
  · exact all_optAttr _ _ _ _ fun hc => attrCoreOK_required _ _ (by simpa using hc) hr
  · exact all_optAttr _ _ _ _ fun hc => attrCoreOK_type_str _ _ (by simpa using hc)


theorem attrCoreOK31_strs_examples (xs : List B) : attrCoreOK .v31 (s "examples", .strs xs) = true := by
  have h1 : s "examples" ≠ s "required" := by decide
  have h2 : s "examples" ≠ s "enum" := by decide
  have h3 : s "examples" ≠ s "type" := by decide
  simp [attrCoreOK, h1, h2, h3]

theorem attrCoreOK31_type_null (k : Kind) (h : kindString k ≠ []) :
    attrCoreOK .v31 (s "type", .strs [kindString k, s "null"]) = true := by
  have h1 : s "type" ≠ s "required" := by decide
  have h2 : s "type" ≠ s "enum" := by decide
  have hk := kind_ok k h
  simp only [contains_eq_mem, decide_eq_true_eq] at hk
  have hne : kindString k ≠ s "null" := by cases k <;> first | exact absurd rfl h | decide
  simp [attrCoreOK, h1, h2, nodupB, hk, hne]

theorem attrCoreOK31_exclusive (key : B) (x : B) (hm : key ∈ [s "exclusiveMaximum", s "exclusiveMinimum"]) :
    attrCoreOK .v31 (key, .num x) = true := by
  simp only [mem_cons, not_mem_nil, or_false] at hm
  rcases hm with rfl | rfl <;> simp [attrCoreOK] <;> exact Or.inl (by decide)

theorem attrCoreOK31_contentEncoding (x : B) : attrCoreOK .v31 (s "contentEncoding", .str x) = true := by
  have h1 : s "contentEncoding" ≠ s "type" := by decide
  simp [attrCoreOK, h1]

/-- `schema31` emits only members with admissible values -/
theorem head31r_ok (h : Head) (hr : h.required.Nodup) : (head31r h).all (attrCoreOK .v31) = true := by
  simp only [head31r, all_append, Bool.and_eq_true]
  refine ⟨⟨⟨⟨⟨⟨⟨⟨⟨⟨⟨⟨?_, ?_⟩, ?_⟩, ?_⟩, ?_⟩, ?_⟩, ?_⟩, ?_⟩, ?_⟩, ?_⟩, ?_⟩, ?_⟩, ?_⟩
  · exact all_optAttr _ _ _ _ fun hc => attrCoreOK_enum _ _ (by simpa using hc)
  · exact all_optAttr _ _ _ _ fun _ => attrCoreOK_strKey _ (s "example") _ (by decide) (by decide)
  · exact all_optAttr _ _ _ _ fun _ => attrCoreOK31_strs_examples _
  · rcases h.maximum with _ | ⟨x, _ | _⟩ <;> simp [attrCoreOK31_exclusive (s "exclusiveMaximum") _ (by decide)]
  · rcases h.minimum with _ | ⟨x, _ | _⟩ <;> simp [attrCoreOK31_exclusive (s "exclusiveMinimum") _ (by decide)]
  · exact all_optAttr _ _ _ _ fun _ => attrCoreOK_strKey _ (s "format") _ (by decide) (by decide)
  · cases h.maxLength <;> simp [attrCoreOK_len .v31 (s "maxLength") _ (by decide)]
  · rcases h.maximum with _ | ⟨x, _ | _⟩ <;> simp [attrCoreOK_bound .v31 (s "maximum") _ (by decide) (by decide)]
  · cases h.minLength <;> simp [attrCoreOK_len .v31 (s "minLength") _ (by decide)]
  · rcases h.minimum with _ | ⟨x, _ | _⟩ <;> simp [attrCoreOK_bound .v31 (s "minimum") _ (by decide) (by decide)]
  · exact all_optAttr _ _ _ _ fun _ => attrCoreOK_strKey _ (s "pattern") _ (by decide) (by decide)
  · exact all_optAttr _ _ _ _ fun hc => attrCoreOK_required _ _ (by simpa using hc) hr
  · by_cases hk : kindString h.kind = []
    · simp [hk]
    · by_cases hn : h.nullable = true
      · simp [hk, hn, attrCoreOK31_type_null h.kind hk]
      · simp [hk, hn, attrCoreOK_type_str .v31 h.kind hk]

theorem all_attrOK_of_core (v : Version) (l : Attrs) (h : l.all (attrCoreOK v) = true) : l.all (attrOK v) = true := by
  simp only [all_eq_true] at h ⊢
  intro a ha
  simp [attrOK, h a ha]

theorem dfltAttrs_ok (v : Version) (h : Head) : (dfltAttrs h).all (attrOK v) = true := by
  unfold dfltAttrs
  cases h.dflt <;> simp [attrOK]

theorem descAttrs_ok (v : Version) (h : Head) : (descAttrs h).all (attrOK v) = true :=
  all_attrOK_of_core _ _ (all_optAttr _ _ _ _ fun _ => attrCoreOK_strKey _ (s "description") _ (by decide) (by decide))

theorem head30_ok (h : Head) (hr : h.required.Nodup) : (head30 h).all (attrOK .v30) = true := by
  simp only [head30, all_append, Bool.and_eq_true]
  exact ⟨⟨dfltAttrs_ok _ h, descAttrs_ok _ h⟩, all_attrOK_of_core _ _ (head30r_ok h hr)⟩

theorem head31_ok (h : Head) (hr : h.required.Nodup) : (head31 h).all (attrOK .v31) = true := by
  simp only [head31, all_append, Bool.and_eq_true]
  refine ⟨⟨⟨?_, dfltAttrs_ok _ h⟩, descAttrs_ok _ h⟩, all_attrOK_of_core _ _ (head31r_ok h hr)⟩
  exact all_attrOK_of_core _ _ (all_optAttr _ _ _ _ fun _ => attrCoreOK31_contentEncoding _)

/-! ## wfSchema of a projected schema -/

mutual
  theorem wfSchema_of_all (v : Version) : ∀ (t : Schema),
      Tree.All (fun a : Attrs => a.all (attrOK v) = true) (fun _ => True) t → wfSchema v t = true
    | .ref _, _ => by simp [wfSchema]
    | .node h i p a, hall => by
      simp only [Tree.All] at hall
      simp only [wfSchema, Bool.and_eq_true]
      exact ⟨⟨⟨hall.1, wfO_of_all v i hall.2.1⟩, wfP_of_all v p hall.2.2.1⟩, wfO_of_all v a hall.2.2.2⟩
  theorem wfO_of_all (v : Version) : ∀ (t : OTree Attrs),
      OTree.All (fun a : Attrs => a.all (attrOK v) = true) (fun _ => True) t → wfO v t = true
    | .none, _ => by simp [wfO]
    | .some t, hall => by
      simp only [OTree.All] at hall
      simp only [wfO]
      exact wfSchema_of_all v t hall
  theorem wfP_of_all (v : Version) : ∀ (t : PTree Attrs),
      PTree.All (fun a : Attrs => a.all (attrOK v) = true) (fun _ => True) t → wfP v t = true
    | .nil, _ => by simp [wfP]
    | .cons _ t rest, hall => by
      simp only [PTree.All] at hall
      simp only [wfP, Bool.and_eq_true]
      exact ⟨wfSchema_of_all v t hall.1, wfP_of_all v rest hall.2⟩
end

/-- every projected schema satisfies the WF fragment of its version -/
theorem wfSchema_proj (v : Version) (ns : List B) (t : IR) (h : Good ns t) : wfSchema v (projSchema v t) = true := by
  apply wfSchema_of_all
  cases v
  · exact Tree.All.project (fun hd hnd => head30_ok hd hnd) t (Tree.All.mono (fun _ x => x) (fun _ _ => trivial) t h)
  · exact Tree.All.project (fun hd hnd => head31_ok hd hnd) t (Tree.All.mono (fun _ x => x) (fun _ _ => trivial) t h)

/-- the model's `ValidateResponseCode` accepts exactly the keys the oracle's transcription accepts -/
theorem specCodeOK_of_valid (c : B) (h : validResponseCode c = true) : specCodeOK c = true := by
  simp only [validResponseCode, Bool.or_eq_true, decide_eq_true_eq] at h
  simp only [specCodeOK, Bool.or_eq_true, decide_eq_true_eq]
  rcases h with h | h
  · exact Or.inl h
  · right
    split at h
    next a b d =>
      simp only [Bool.and_eq_true, Bool.or_eq_true, decide_eq_true_eq] at h
      simp only [length_cons, length_nil, head?_cons, drop_succ_cons, drop_zero, all_cons, all_nil, Bool.and_true,
        Bool.and_eq_true, Bool.or_eq_true, decide_eq_true_eq, cons.injEq, and_true, beq_iff_eq]
      refine ⟨⟨trivial, h.1⟩, ?_⟩
      rcases h.2 with hd | hx
      · left
        simpa only [isDigit, Bool.and_eq_true, decide_eq_true_eq] using hd
      · exact Or.inr hx
    · cases h

/-- the model's style table admits exactly what the oracle's transcription admits -/
theorem specStyleOK_of_styleOK (loc style : B) (h : styleOK loc style = true) : specStyleOK loc style = true := by
  by_cases he : style = []
  · subst he; rfl
  · have q1 : s "query" ≠ s "path" := by decide
    have q2 : s "header" ≠ s "path" := by decide
    have q3 : s "header" ≠ s "query" := by decide
    have q4 : s "cookie" ≠ s "path" := by decide
    have q5 : s "cookie" ≠ s "query" := by decide
    have q6 : s "cookie" ≠ s "header" := by decide
    by_cases h1 : loc = s "path"
    · subst h1
      have : style ∈ [s "matrix", s "label", s "simple"] := by simpa [styleOK, he] using h
      simp only [mem_cons, not_mem_nil, or_false] at this
      rcases this with rfl | rfl | rfl <;> decide
    · by_cases h2 : loc = s "query"
      · subst h2
        have : style ∈ [s "form", s "spaceDelimited", s "pipeDelimited", s "deepObject"] := by
          simpa [styleOK, he, q1] using h
        simp only [mem_cons, not_mem_nil, or_false] at this
        rcases this with rfl | rfl | rfl | rfl <;> decide
      · by_cases h3 : loc = s "header"
        · subst h3
          have : style = s "simple" := by simpa [styleOK, he, q2, q3] using h
          subst this; decide
        · by_cases h4 : loc = s "cookie"
          · subst h4
            have : style = s "form" := by simpa [styleOK, he, q4, q5, q6] using h
            subst this; decide
          · simp [styleOK, he, h1, h2, h3, h4] at h

/-- the operation clause of WF, from the shape and the schemas -/
theorem wfOperation_of_shape (v : Version) {route : B} {o : Operation Schema} (h : OpShape route o)
    (hs : ∀ x ∈ o.schemas, wfSchema v x = true) : wfOperation v o = true := by
  have hnd : ∀ l : List (B × B), nodupPairs l = true ↔ l.Nodup := by
    intro l
    induction l with
    | nil => simp [nodupPairs]
    | cons x xs ih => simp [nodupPairs, ih]
  simp only [wfOperation, Bool.and_eq_true, all_eq_true]
  refine ⟨⟨⟨⟨?_, ?_⟩, ?_⟩, ?_⟩, ?_⟩
  · intro p hp
    obtain ⟨h1, h2, h3⟩ := h.params p hp
    simp only [wfParam, Bool.and_eq_true, Bool.or_eq_true, bne_iff_ne, ne_eq]
    refine ⟨⟨⟨⟨by simpa using h1, by simpa using h2⟩, ?_⟩, specStyleOK_of_styleOK _ _ (h.styles p hp)⟩, ?_⟩
    · by_cases hl : p.loc = s "path"
      · exact Or.inr (h3 hl)
      · exact Or.inl hl
    · exact hs _ (by simp only [Operation.schemas, mem_append, mem_map]; exact Or.inl (Or.inl ⟨p, hp, rfl⟩))
  · exact (hnd _).2 h.nodup
  · cases hb : o.body with
    | none => rfl
    | some x =>
      exact hs x (by simp [Operation.schemas, hb])
  · simp only [Bool.not_eq_eq_eq_not, Bool.not_true, isEmpty_eq_false_iff]
    exact h.respsNe
  · intro r hr
    obtain ⟨h1, h2⟩ := h.resps r hr
    simp only [wfResp, Bool.and_eq_true]
    refine ⟨⟨⟨specCodeOK_of_valid _ h1, by simpa using h2⟩, ?_⟩, ?_⟩
    · cases hx : r.schema with
      | none => rfl
      | some x =>
        exact hs x (by simp only [Operation.schemas, mem_append, mem_filterMap]; exact Or.inr ⟨r, hr, hx⟩)
    · have := h.exX r hr
      cases he : r.hasExample <;> cases hn : r.exampleNames <;> simp_all


/-- every key of the built `paths` is the converted path of an operation handed in -/
theorem build_keys (env : Env) (ops : List OpIn) (paths : List (B × PathItem IR)) (comps : List (B × IR))
    (h : build env ops = .ok (paths, comps)) : ∀ p ∈ paths.map (·.1), ∃ op ∈ ops, convertPath op.path = p := by
  obtain ⟨hnd, _, _⟩ := build_prov env ops paths comps h
  simp only [build, buildFromGroups] at h
  split at h
  · cases h
  next r heq =>
    simp only [Except.ok.injEq, Prod.mk.injEq] at h
    obtain ⟨rfl, _⟩ := h
    obtain ⟨hkeys, _⟩ := buildGroups_prov env _ [] [] r.1 r.2 (by rw [heq])
    intro p hp
    rw [hkeys] at hp hnd
    have hp' : p ∈ (groupByPath ops).map (·.1) := ((sortByKey_perm _).map _).mem_iff.1 hp
    have hnd' : ((groupByPath ops).map (·.1)).Nodup := ((sortByKey_perm _).map _).nodup_iff.1 hnd
    obtain ⟨e, he, rfl⟩ := mem_map.1 hp'
    have hl := lookup_of_mem_nodup _ e.1 e.2 hnd' he
    rw [groupByPath_lookup] at hl
    split at hl
    · cases hl
    next hne =>
      cases hf : ops.filter (fun o => convertPath o.path = e.1) with
      | nil => exact absurd hf hne
      | cons op rest =>
        have : op ∈ ops.filter (fun o => convertPath o.path = e.1) := by rw [hf]; exact mem_cons_self ..
        simp only [mem_filter, decide_eq_true_eq] at this
        exact ⟨op, this.1, this.2⟩

end Rivaas.OpenAPI
