import Rivaas.Model.Bind
import Rivaas.Spec.Bind
import Rivaas.Lemmas.BindVal
import Rivaas.Lemmas.BindPath
import Rivaas.Lemmas.BindExpect
/-
C04: structure of the oracle's unfolding (`Spec.itemsFs`): membership, non-empty paths, what the
leaves see in a zero value, how `holds` / `expect` move between a struct and the value of one of
its fields (`lemma_transfer`).
-/
set_option linter.unusedSimpArgs false
set_option linter.unusedVariables false
namespace Rivaas.Bind
open Spec

/-- the leaf as the getter `g` addresses it: keys behind the getter's prefix -/
def keyed (g : Getter) (l : Leaf) : Leaf :=
  { l with keys := l.keys.map (g.pre ++ ·), nested := l.nested || g.nested }

theorem lemma_mapOf_zero : ∀ t : Ty, mapOf (some (zero t)) = []
  | .prim p => by cases p <;> rfl
  | .ptr _ => rfl
  | .slice _ => rfl
  | .map _ => rfl
  | .struct _ => by simp [zero, mapOf]

theorem lemma_valAtFs : ∀ (vs : List Val) (k : Nat) (q : List Nat),
    valAtFs vs k q = match vs[k]? with
      | some x => valAt x q
      | none => none
  | [], k, q => by simp [valAtFs]
  | x :: xs, 0, q => by simp [valAtFs]
  | x :: xs, k + 1, q => by simp [valAtFs, lemma_valAtFs xs k q]

theorem lemma_valAt_ptr (v : Val) (a : Nat) (r : List Nat) : valAt (.ptr v) (a :: r) = valAt v (a :: r) := by
  simp [valAt]

theorem lemma_valAt_nil (a : Nat) (r : List Nat) : valAt .nil (a :: r) = none := by
  simp [valAt]

theorem lemma_valAt_cons (vs : List Val) (k : Nat) (q : List Nat) (v : Val) (h : vs[k]? = some v) :
    valAt (.struct vs) (k :: q) = valAt v q := by
  simp [valAt, lemma_valAtFs, h]

theorem lemma_valAt_one (vs : List Val) (k : Nat) (v : Val) (h : vs[k]? = some v) :
    valAt (.struct vs) [k] = some v := by
  rw [lemma_valAt_cons vs k [] v h]; simp [valAt]

/-- **transfer.** A leaf `l` (path `q`, non-empty) of a sub-value, seen from an enclosing value
    whose results / initial values at `k :: q` are those of the sub-value at `q` — or, for the
    initial value, nothing at all where the sub-value is a freshly allocated zero value. -/
theorem lemma_transfer (P : Params) (cfg : Cfg) (s : Src) (l : Leaf) (k : Nat) (ns : List Bytes)
    (Init Res init res : Val)
    (hres : valAt Res (k :: l.path) = valAt res l.path)
    (hinit : valAt Init (k :: l.path) = valAt init l.path ∨
      (valAt Init (k :: l.path) = none ∧ (valAt init l.path = none ∨ valAt init l.path = some (zero l.ty)))) :
    expect P cfg s Init { l with path := k :: l.path, names := ns } = expect P cfg s init l ∧
    ∀ e, holds init res l e = true → holds Init Res { l with path := k :: l.path, names := ns } e = true := by
  constructor
  · unfold expect
    have hm : mapOf (valAt Init (k :: l.path)) = mapOf (valAt init l.path) := by
      rcases hinit with h | ⟨h1, h2 | h2⟩
      · rw [h]
      · rw [h1, h2]
      · rw [h1, h2, lemma_mapOf_zero]; rfl
    simp only [hm]
    rfl
  · intro e he
    unfold holds at he ⊢
    simp only [hres]
    rcases hinit with h | ⟨h1, h2 | h2⟩
    · simp only [h]; exact he
    · simp only [h1]; simp only [h2] at he; exact he
    · simp only [h1]
      simp only [h2] at he
      cases e with
      | some x => exact he
      | none =>
        cases hc : valAt res l.path with
        | none => simp [hc] at he
        | some c => simpa [hc] using he


theorem lemma_transfer_expect (P : Params) (cfg : Cfg) (s : Src) (l : Leaf) (k : Nat) (ns : List Bytes)
    (Init init : Val)
    (hinit : valAt Init (k :: l.path) = valAt init l.path ∨
      (valAt Init (k :: l.path) = none ∧ (valAt init l.path = none ∨ valAt init l.path = some (zero l.ty)))) :
    expect P cfg s Init { l with path := k :: l.path, names := ns } = expect P cfg s init l := by
  unfold expect
  have hm : mapOf (valAt Init (k :: l.path)) = mapOf (valAt init l.path) := by
    rcases hinit with h | ⟨h1, h2 | h2⟩
    · rw [h]
    · rw [h1, h2]
    · rw [h1, h2, lemma_mapOf_zero]; rfl
  simp only [hm]
  rfl

theorem lemma_transfer_frame (f : Frame) (k : Nat) (Init Res init res : Val)
    (hres : valAt Res (k :: f.path) = valAt res f.path)
    (hinit : valAt Init (k :: f.path) = valAt init f.path ∨
      (valAt Init (k :: f.path) = none ∧ (valAt init f.path = none ∨ valAt init f.path = some (zero f.ty))))
    (h : holdsFrame init res f = true) : holdsFrame Init Res { f with path := k :: f.path } = true := by
  unfold holdsFrame at h ⊢
  simp only [hres]
  rcases hinit with hi | ⟨h1, h2 | h2⟩
  · simp only [hi]; exact h
  · simp only [h1]; simp only [h2] at h; exact h
  · simp only [h1]
    simp only [h2] at h
    cases hc : valAt res f.path with
    | none => simp [hc] at h
    | some c => simpa [hc] using h

/-- in a zero value the place holds nothing, or the zero value of its own type -/
def ZeroLikeAt (v : Val) (path : List Nat) (ty : Ty) : Prop := valAt v path = none ∨ valAt v path = some (zero ty)

/-- in a zero value the leaf has nothing, or the zero value of its own type -/
def ZeroLike (v : Val) (l : Leaf) : Prop := ZeroLikeAt v l.path l.ty

/-- where an item keeps a value, and of which type (leaves and frames) -/
def Spec.Item.pathTy : Item → Option (List Nat × Ty)
  | .leaf l => some (l.path, l.ty)
  | .frame f => some (f.path, f.ty)
  | .node _ => none

theorem lemma_pathTy_under (k : Nat) (x : Item) :
    (x.under k).pathTy = x.pathTy.map (fun pt => (k :: pt.1, pt.2)) := by
  cases x <;> rfl

theorem lemma_pathTy_below (k : Nat) (name p : Bytes) (x : Item) :
    (x.below k name p).pathTy = x.pathTy.map (fun pt => (k :: pt.1, pt.2)) := by
  cases x <;> rfl

theorem lemma_zeroFs_get : ∀ (fs : List Fld) (j : Nat) (h : FieldHdr) (t : Ty),
    fs[j]? = some (h, t) → (zeroFs fs)[j]? = some (zero t)
  | [], j, h, t, hf => by simp at hf
  | (h', t') :: fs, 0, h, t, hf => by
    simp only [List.getElem?_cons_zero, Option.some.injEq, Prod.mk.injEq] at hf
    simp [zeroFs, hf.2]
  | (h', t') :: fs, j+1, h, t, hf => by
    simp only [List.getElem?_cons_succ] at hf
    simpa [zeroFs] using lemma_zeroFs_get fs j h t hf

/-- what a single-position item (leaf or frame of field `k`, type `t`) sees -/
theorem lemma_zero_single (k : Nat) (t : Ty) (x : Item) (pt : List Nat × Ty) (hx : x.pathTy = some pt)
    (hp : pt = ([k], t)) :
    ∃ q, pt.1 = k :: q ∧ ∀ vs : List Val, vs[k]? = some (zero t) → ZeroLikeAt (.struct vs) pt.1 pt.2 := by
  subst hp
  exact ⟨[], rfl, fun vs hv => Or.inr (lemma_valAt_one vs k _ hv)⟩

mutual
theorem lemma_zero_fld (tag : Tag) (k : Nat) (h : FieldHdr) :
    ∀ (t : Ty) (x : Item), x ∈ itemsFld tag k h t → ∀ pt, x.pathTy = some pt →
      ∃ q, pt.1 = k :: q ∧ ∀ vs : List Val, vs[k]? = some (zero t) → ZeroLikeAt (.struct vs) pt.1 pt.2
  | .struct sub, x, hx, pt, hpt => by
    unfold itemsFld at hx
    split at hx
    · simp only [List.mem_singleton] at hx
      subst hx
      exact lemma_zero_single k _ _ pt hpt (by simpa [Item.pathTy] using hpt.symm)
    · split at hx
      · simp only [List.mem_map] at hx
        obtain ⟨y, hy, hyx⟩ := hx
        subst hyx
        rw [lemma_pathTy_under] at hpt
        cases hyp : y.pathTy with
        | none => simp [hyp] at hpt
        | some pt0 =>
          simp only [hyp, Option.map_some, Option.some.injEq] at hpt
          subst hpt
          obtain ⟨q, hq, ⟨a, r, hne⟩, hz⟩ := lemma_zero_fs tag sub 0 y hy pt0 hyp
          refine ⟨pt0.1, rfl, ?_⟩
          intro vs hv
          have := hz (zeroFs sub) (fun j => by simp)
          unfold ZeroLikeAt at this ⊢
          simp only
          rw [lemma_valAt_cons vs k pt0.1 _ hv]
          simpa [zero] using this
      · split at hx
        · simp only [List.mem_singleton] at hx
          subst hx
          exact lemma_zero_single k _ _ pt hpt (by simpa [Item.pathTy] using hpt.symm)
        · simp only [List.mem_cons, List.mem_map] at hx
          rcases hx with rfl | ⟨y, hy, hyx⟩
          · simp [Item.pathTy] at hpt
          · subst hyx
            rw [lemma_pathTy_below] at hpt
            cases hyp : y.pathTy with
            | none => simp [hyp] at hpt
            | some pt0 =>
              simp only [hyp, Option.map_some, Option.some.injEq] at hpt
              subst hpt
              obtain ⟨q, hq, ⟨a, r, hne⟩, hz⟩ := lemma_zero_fs tag sub 0 y hy pt0 hyp
              refine ⟨pt0.1, rfl, ?_⟩
              intro vs hv
              have := hz (zeroFs sub) (fun j => by simp)
              unfold ZeroLikeAt at this ⊢
              simp only
              rw [lemma_valAt_cons vs k pt0.1 _ hv]
              simpa [zero] using this
  | .ptr (.struct sub), x, hx, pt, hpt => by
    unfold itemsFld at hx
    split at hx
    · simp only [List.mem_singleton] at hx
      subst hx
      exact lemma_zero_single k _ _ pt hpt (by simpa [Item.pathTy] using hpt.symm)
    · split at hx
      · simp only [List.mem_map] at hx
        obtain ⟨y, hy, hyx⟩ := hx
        subst hyx
        rw [lemma_pathTy_under] at hpt
        cases hyp : y.pathTy with
        | none => simp [hyp] at hpt
        | some pt0 =>
          simp only [hyp, Option.map_some, Option.some.injEq] at hpt
          subst hpt
          obtain ⟨q, hq, ⟨a, r, hne⟩, hz⟩ := lemma_zero_fs tag sub 0 y hy pt0 hyp
          refine ⟨pt0.1, rfl, ?_⟩
          intro vs hv
          left
          simp only
          rw [lemma_valAt_cons vs k pt0.1 _ hv, hq, hne]
          simp [zero, valAt]
      · split at hx
        · simp only [List.mem_singleton] at hx
          subst hx
          exact lemma_zero_single k _ _ pt hpt (by simpa [Item.pathTy] using hpt.symm)
        · simp only [List.mem_cons, List.mem_map] at hx
          rcases hx with rfl | ⟨y, hy, hyx⟩
          · simp [Item.pathTy] at hpt
          · subst hyx
            rw [lemma_pathTy_below] at hpt
            cases hyp : y.pathTy with
            | none => simp [hyp] at hpt
            | some pt0 =>
              simp only [hyp, Option.map_some, Option.some.injEq] at hpt
              subst hpt
              obtain ⟨q, hq, ⟨a, r, hne⟩, hz⟩ := lemma_zero_fs tag sub 0 y hy pt0 hyp
              refine ⟨pt0.1, rfl, ?_⟩
              intro vs hv
              left
              simp only
              rw [lemma_valAt_cons vs k pt0.1 _ hv, hq, hne]
              simp [zero, valAt]
  | .prim p, x, hx, pt, hpt => by
    simp only [itemsFld] at hx
    split at hx
    · simp only [List.mem_singleton] at hx; subst hx
      exact lemma_zero_single k _ _ pt hpt (by simpa [Item.pathTy] using hpt.symm)
    · split at hx
      · simp only [List.mem_singleton] at hx; subst hx
        exact lemma_zero_single k _ _ pt hpt (by simpa [Item.pathTy] using hpt.symm)
      · simp only [List.mem_singleton] at hx; subst hx
        exact lemma_zero_single k _ _ pt hpt (by simpa [Item.pathTy] using hpt.symm)
  | .slice e, x, hx, pt, hpt => by
    simp only [itemsFld] at hx
    split at hx
    · simp only [List.mem_singleton] at hx; subst hx
      exact lemma_zero_single k _ _ pt hpt (by simpa [Item.pathTy] using hpt.symm)
    · split at hx
      · simp only [List.mem_singleton] at hx; subst hx
        exact lemma_zero_single k _ _ pt hpt (by simpa [Item.pathTy] using hpt.symm)
      · simp only [List.mem_singleton] at hx; subst hx
        exact lemma_zero_single k _ _ pt hpt (by simpa [Item.pathTy] using hpt.symm)
  | .map e, x, hx, pt, hpt => by
    simp only [itemsFld] at hx
    split at hx
    · simp only [List.mem_singleton] at hx; subst hx
      exact lemma_zero_single k _ _ pt hpt (by simpa [Item.pathTy] using hpt.symm)
    · split at hx
      · simp only [List.mem_singleton] at hx; subst hx
        exact lemma_zero_single k _ _ pt hpt (by simpa [Item.pathTy] using hpt.symm)
      · simp only [List.mem_singleton] at hx; subst hx
        exact lemma_zero_single k _ _ pt hpt (by simpa [Item.pathTy] using hpt.symm)
  | .ptr (.prim p), x, hx, pt, hpt => by
    simp only [itemsFld] at hx
    split at hx
    · simp only [List.mem_singleton] at hx; subst hx
      exact lemma_zero_single k _ _ pt hpt (by simpa [Item.pathTy] using hpt.symm)
    · split at hx
      · simp only [List.mem_singleton] at hx; subst hx
        exact lemma_zero_single k _ _ pt hpt (by simpa [Item.pathTy] using hpt.symm)
      · simp only [List.mem_singleton] at hx; subst hx
        exact lemma_zero_single k _ _ pt hpt (by simpa [Item.pathTy] using hpt.symm)
  | .ptr (.ptr e), x, hx, pt, hpt => by
    simp only [itemsFld] at hx
    split at hx
    · simp only [List.mem_singleton] at hx; subst hx
      exact lemma_zero_single k _ _ pt hpt (by simpa [Item.pathTy] using hpt.symm)
    · split at hx
      · simp only [List.mem_singleton] at hx; subst hx
        exact lemma_zero_single k _ _ pt hpt (by simpa [Item.pathTy] using hpt.symm)
      · simp only [List.mem_singleton] at hx; subst hx
        exact lemma_zero_single k _ _ pt hpt (by simpa [Item.pathTy] using hpt.symm)
  | .ptr (.slice e), x, hx, pt, hpt => by
    simp only [itemsFld] at hx
    split at hx
    · simp only [List.mem_singleton] at hx; subst hx
      exact lemma_zero_single k _ _ pt hpt (by simpa [Item.pathTy] using hpt.symm)
    · split at hx
      · simp only [List.mem_singleton] at hx; subst hx
        exact lemma_zero_single k _ _ pt hpt (by simpa [Item.pathTy] using hpt.symm)
      · simp only [List.mem_singleton] at hx; subst hx
        exact lemma_zero_single k _ _ pt hpt (by simpa [Item.pathTy] using hpt.symm)
  | .ptr (.map e), x, hx, pt, hpt => by
    simp only [itemsFld] at hx
    split at hx
    · simp only [List.mem_singleton] at hx; subst hx
      exact lemma_zero_single k _ _ pt hpt (by simpa [Item.pathTy] using hpt.symm)
    · split at hx
      · simp only [List.mem_singleton] at hx; subst hx
        exact lemma_zero_single k _ _ pt hpt (by simpa [Item.pathTy] using hpt.symm)
      · simp only [List.mem_singleton] at hx; subst hx
        exact lemma_zero_single k _ _ pt hpt (by simpa [Item.pathTy] using hpt.symm)
theorem lemma_zero_fs (tag : Tag) :
    ∀ (fs : List Fld) (i : Nat) (x : Item), x ∈ itemsFs tag i fs → ∀ pt, x.pathTy = some pt →
      ∃ q, pt.1 = q ∧ (∃ a r, q = a :: r) ∧
        ∀ vs : List Val, (∀ j, vs[i + j]? = (zeroFs fs)[j]?) → ZeroLikeAt (.struct vs) pt.1 pt.2
  | [], i, x, hx, _, _ => by simp [itemsFs] at hx
  | (h, t) :: rest, i, x, hx, pt, hpt => by
    simp only [itemsFs, List.mem_append] at hx
    rcases hx with hx | hx
    · obtain ⟨q, hq, hz⟩ := lemma_zero_fld tag i h t x hx pt hpt
      exact ⟨pt.1, rfl, ⟨i, q, hq⟩, fun vs hv => hz vs (by simpa [zeroFs] using hv 0)⟩
    · obtain ⟨q, hq, hne, hz⟩ := lemma_zero_fs tag rest (i+1) x hx pt hpt
      refine ⟨q, hq, hne, fun vs hv => hz vs (fun j => ?_)⟩
      have := hv (j+1)
      simpa [zeroFs, Nat.add_assoc, Nat.add_comm 1 j] using this
end

end Rivaas.Bind
