import Rivaas.Model.Bind
import Rivaas.Spec.Bind
import Rivaas.Lemmas.BindVal
import Rivaas.Lemmas.BindPath
import Rivaas.Lemmas.BindExpect
/-
C04: structure of the oracle's unfolding (`Spec.itemsFs`): membership, non-empty paths, what the
leaves see in a zero value, how `holds` / `expect` move between a struct and the value of one of
its fields (`lemma_transfer`).
-/
set_option linter.unusedSimpArgs false
set_option linter.unusedVariables false
namespace Rivaas.Bind
open Spec

/-- the leaf as the getter `g` addresses it: keys behind the getter's prefix -/
def keyed (g : Getter) (l : Leaf) : Leaf :=
  { l with keys := l.keys.map (g.pre ++ ·), nested := l.nested || g.nested }

theorem lemma_mapOf_zero : ∀ t : Ty, mapOf (some (zero t)) = []
  | .prim p => by cases p <;> rfl
  | .ptr _ => rfl
  | .slice _ => rfl
  | .map _ => rfl
  | .struct _ => by simp [zero, mapOf]

theorem lemma_valAtFs : ∀ (vs : List Val) (k : Nat) (q : List Nat),
    valAtFs vs k q = match vs[k]? with
      | some x => valAt x q
      | none => none
  | [], k, q => by simp [valAtFs]
  | x :: xs, 0, q => by simp [valAtFs]
  | x :: xs, k + 1, q => by simp [valAtFs, lemma_valAtFs xs k q]

theorem lemma_valAt_ptr (v : Val) (a : Nat) (r : List Nat) : valAt (.ptr v) (a :: r) = valAt v (a :: r) := by
  simp [valAt]

theorem lemma_valAt_nil (a : Nat) (r : List Nat) : valAt .nil (a :: r) = none := by
  simp [valAt]

theorem lemma_valAt_cons (vs : List Val) (k : Nat) (q : List Nat) (v : Val) (h : vs[k]? = some v) :
    valAt (.struct vs) (k :: q) = valAt v q := by
  simp [valAt, lemma_valAtFs, h]

theorem lemma_valAt_one (vs : List Val) (k : Nat) (v : Val) (h : vs[k]? = some v) :
    valAt (.struct vs) [k] = some v := by
  rw [lemma_valAt_cons vs k [] v h]; simp [valAt]

/-- **transfer.** A leaf `l` (path `q`, non-empty) of a sub-value, seen from an enclosing value
    whose results / initial values at `k :: q` are those of the sub-value at `q` — or, for the
    initial value, nothing at all where the sub-value is a freshly allocated zero value. -/
theorem lemma_transfer (P : Params) (cfg : Cfg) (s : Src) (l : Leaf) (k : Nat) (ns : List Bytes)
    (Init Res init res : Val)
    (hres : valAt Res (k :: l.path) = valAt res l.path)
    (hinit : valAt Init (k :: l.path) = valAt init l.path ∨
      (valAt Init (k :: l.path) = none ∧ (valAt init l.path = none ∨ valAt init l.path = some (zero l.ty)))) :
    expect P cfg s Init { l with path := k :: l.path, names := ns } = expect P cfg s init l ∧
    ∀ e, holds init res l e = true → holds Init Res { l with path := k :: l.path, names := ns } e = true := by
  constructor
  · unfold expect
    have hm : mapOf (valAt Init (k :: l.path)) = mapOf (valAt init l.path) := by
      rcases hinit with h | ⟨h1, h2 | h2⟩
      · rw [h]
      · rw [h1, h2]
      · rw [h1, h2, lemma_mapOf_zero]; rfl
    simp only [hm]
    rfl
  · intro e he
    unfold holds at he ⊢
    simp only [hres]
    rcases hinit with h | ⟨h1, h2 | h2⟩
    · simp only [h]; exact he
    · simp only [h1]; simp only [h2] at he; exact he
    · simp only [h1]
      simp only [h2] at he
      cases e with
      | some x => exact he
      | none =>
        cases hc : valAt res l.path with
        | none => simp [hc] at he
        | some c => simpa [hc] using he


theorem lemma_transfer_expect (P : Params) (cfg : Cfg) (s : Src) (l : Leaf) (k : Nat) (ns : List Bytes)
    (Init init : Val)
    (hinit : valAt Init (k :: l.path) = valAt init l.path ∨
      (valAt Init (k :: l.path) = none ∧ (valAt init l.path = none ∨ valAt init l.path = some (zero l.ty)))) :
    expect P cfg s Init { l with path := k :: l.path, names := ns } = expect P cfg s init l := by
  unfold expect
  have hm : mapOf (valAt Init (k :: l.path)) = mapOf (valAt init l.path) := by
    rcases hinit with h | ⟨h1, h2 | h2⟩
    · rw [h]
    · rw [h1, h2]
    · rw [h1, h2, lemma_mapOf_zero]; rfl
  simp only [hm]
  rfl

/-- in a zero value the leaf has nothing, or the zero value of its own type -/
def ZeroLike (v : Val) (l : Leaf) : Prop := valAt v l.path = none ∨ valAt v l.path = some (zero l.ty)

theorem lemma_zeroFs_get : ∀ (fs : List Fld) (j : Nat) (h : FieldHdr) (t : Ty),
    fs[j]? = some (h, t) → (zeroFs fs)[j]? = some (zero t)
  | [], j, h, t, hf => by simp at hf
  | (h', t') :: fs, 0, h, t, hf => by
    simp only [List.getElem?_cons_zero, Option.some.injEq, Prod.mk.injEq] at hf
    simp [zeroFs, hf.2]
  | (h', t') :: fs, j+1, h, t, hf => by
    simp only [List.getElem?_cons_succ] at hf
    simpa [zeroFs] using lemma_zeroFs_get fs j h t hf

mutual
theorem lemma_zero_fld (tag : Tag) (k : Nat) (h : FieldHdr) :
    ∀ (t : Ty) (l : Leaf), Item.leaf l ∈ itemsFld tag k h t →
      ∃ q, l.path = k :: q ∧ ∀ vs : List Val, vs[k]? = some (zero t) → ZeroLike (.struct vs) l
  | .struct sub, l, hl => by
    unfold itemsFld at hl
    split at hl
    · simp at hl
    · split at hl
      · simp only [List.mem_map] at hl
        obtain ⟨x, hx, hxl⟩ := hl
        cases x with
        | node n => simp [Item.under] at hxl
        | leaf l0 =>
          simp only [Item.under, Item.leaf.injEq] at hxl
          subst hxl
          obtain ⟨j, q, hq, hz⟩ := lemma_zero_fs tag sub 0 l0 hx
          refine ⟨l0.path, rfl, ?_⟩
          intro vs hv
          have := hz (zeroFs sub) (fun j => by simp)
          unfold ZeroLike at this ⊢
          simp only [Leaf.under]
          rw [lemma_valAt_cons vs k l0.path _ hv]
          simpa [zero] using this
      · split at hl
        · simp at hl
        · simp only [List.mem_cons, reduceCtorEq, false_or, List.mem_map] at hl
          obtain ⟨x, hx, hxl⟩ := hl
          cases x with
          | node n => simp [Item.below] at hxl
          | leaf l0 =>
            simp only [Item.below, Item.leaf.injEq] at hxl
            subst hxl
            obtain ⟨j, q, hq, hz⟩ := lemma_zero_fs tag sub 0 l0 hx
            refine ⟨l0.path, rfl, ?_⟩
            intro vs hv
            have := hz (zeroFs sub) (fun j => by simp)
            unfold ZeroLike at this ⊢
            simp only [Leaf.below]
            rw [lemma_valAt_cons vs k l0.path _ hv]
            simpa [zero] using this
  | .ptr (.struct sub), l, hl => by
    unfold itemsFld at hl
    split at hl
    · simp at hl
    · split at hl
      · simp only [List.mem_map] at hl
        obtain ⟨x, hx, hxl⟩ := hl
        cases x with
        | node n => simp [Item.under] at hxl
        | leaf l0 =>
          simp only [Item.under, Item.leaf.injEq] at hxl
          subst hxl
          obtain ⟨j, q, hq, hz⟩ := lemma_zero_fs tag sub 0 l0 hx
          refine ⟨l0.path, rfl, ?_⟩
          intro vs hv
          left
          simp only [Leaf.under]
          rw [lemma_valAt_cons vs k l0.path _ hv, hq]
          simp [zero, valAt]
      · split at hl
        · simp at hl
        · simp only [List.mem_cons, reduceCtorEq, false_or, List.mem_map] at hl
          obtain ⟨x, hx, hxl⟩ := hl
          cases x with
          | node n => simp [Item.below] at hxl
          | leaf l0 =>
            simp only [Item.below, Item.leaf.injEq] at hxl
            subst hxl
            obtain ⟨j, q, hq, hz⟩ := lemma_zero_fs tag sub 0 l0 hx
            refine ⟨l0.path, rfl, ?_⟩
            intro vs hv
            left
            simp only [Leaf.below]
            rw [lemma_valAt_cons vs k l0.path _ hv, hq]
            simp [zero, valAt]
  | .prim p, l, hl => by
    simp only [itemsFld] at hl
    split at hl
    · simp at hl
    · split at hl
      · simp at hl
      · simp only [List.mem_singleton, Item.leaf.injEq] at hl
        subst hl
        exact ⟨[], rfl, fun vs hv => Or.inr (lemma_valAt_one vs k _ hv)⟩
  | .slice e, l, hl => by
    simp only [itemsFld] at hl
    split at hl
    · simp at hl
    · split at hl
      · simp at hl
      · simp only [List.mem_singleton, Item.leaf.injEq] at hl
        subst hl
        exact ⟨[], rfl, fun vs hv => Or.inr (lemma_valAt_one vs k _ hv)⟩
  | .map e, l, hl => by
    simp only [itemsFld] at hl
    split at hl
    · simp at hl
    · split at hl
      · simp at hl
      · simp only [List.mem_singleton, Item.leaf.injEq] at hl
        subst hl
        exact ⟨[], rfl, fun vs hv => Or.inr (lemma_valAt_one vs k _ hv)⟩
  | .ptr (.prim p), l, hl => by
    simp only [itemsFld] at hl
    split at hl
    · simp at hl
    · split at hl
      · simp at hl
      · simp only [List.mem_singleton, Item.leaf.injEq] at hl
        subst hl
        exact ⟨[], rfl, fun vs hv => Or.inr (lemma_valAt_one vs k _ hv)⟩
  | .ptr (.ptr e), l, hl => by
    simp only [itemsFld] at hl
    split at hl
    · simp at hl
    · split at hl
      · simp at hl
      · simp only [List.mem_singleton, Item.leaf.injEq] at hl
        subst hl
        exact ⟨[], rfl, fun vs hv => Or.inr (lemma_valAt_one vs k _ hv)⟩
  | .ptr (.slice e), l, hl => by
    simp only [itemsFld] at hl
    split at hl
    · simp at hl
    · split at hl
      · simp at hl
      · simp only [List.mem_singleton, Item.leaf.injEq] at hl
        subst hl
        exact ⟨[], rfl, fun vs hv => Or.inr (lemma_valAt_one vs k _ hv)⟩
  | .ptr (.map e), l, hl => by
    simp only [itemsFld] at hl
    split at hl
    · simp at hl
    · split at hl
      · simp at hl
      · simp only [List.mem_singleton, Item.leaf.injEq] at hl
        subst hl
        exact ⟨[], rfl, fun vs hv => Or.inr (lemma_valAt_one vs k _ hv)⟩
theorem lemma_zero_fs (tag : Tag) :
    ∀ (fs : List Fld) (i : Nat) (l : Leaf), Item.leaf l ∈ itemsFs tag i fs →
      ∃ j q, l.path = (i + j) :: q ∧ ∀ vs : List Val, (∀ j, vs[i + j]? = (zeroFs fs)[j]?) → ZeroLike (.struct vs) l
  | [], i, l, hl => by simp [itemsFs] at hl
  | (h, t) :: rest, i, l, hl => by
    simp only [itemsFs, List.mem_append] at hl
    rcases hl with hl | hl
    · obtain ⟨q, hq, hz⟩ := lemma_zero_fld tag i h t l hl
      exact ⟨0, q, by simpa using hq, fun vs hv => hz vs (by simpa [zeroFs] using hv 0)⟩
    · obtain ⟨j, q, hq, hz⟩ := lemma_zero_fs tag rest (i+1) l hl
      refine ⟨j+1, q, by rw [hq]; congr 1; omega, fun vs hv => hz vs (fun j => ?_)⟩
      have := hv (j+1)
      simpa [zeroFs, Nat.add_assoc, Nat.add_comm 1 j] using this
end

end Rivaas.Bind
