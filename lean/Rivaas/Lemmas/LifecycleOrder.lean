import Rivaas.Lemmas.LifecycleKinds
/-
C09 — helper lemmas, part 2: the ordering functions of the oracle (`precedes`, `guardedBy`,
`afterRet`, `noInterleave`, `eachOnce`, `nodupNat`) on concatenations.
-/
namespace Rivaas.Lifecycle
open Spec

/-! ### the predicates of the oracle in terms of kinds -/

theorem isStart_kind (e : Ev) : isStart e = true → kind e = .start := by cases e <;> simp [isStart, kind]
theorem isReady_kind (e : Ev) : isReady e = true → kind e = .ready := by cases e <;> simp [isReady, kind]
theorem isReload_kind (e : Ev) : isReload e = true → kind e = .reload := by cases e <;> simp [isReload, kind]
theorem isReqFin_kind (e : Ev) : isReqFin e = true → kind e = .reqFin := by cases e <;> simp [isReqFin, kind]
theorem isSig_kind (e : Ev) : isSig e = true → kind e = .sig := by cases e <;> simp [isSig, kind]
theorem isShut_kind (e : Ev) : isShut e = true → kind e = .shut := by cases e <;> simp [isShut, kind]
theorem isFlush_kind (e : Ev) : isFlush e = true → kind e = .flush := by cases e <;> simp [isFlush, kind]
theorem isStop_kind (e : Ev) : isStop e = true → kind e = .stop := by cases e <;> simp [isStop, kind]
theorem isRet_kind (e : Ev) : isRet e = true → kind e = .ret := by cases e <;> simp [isRet, kind]

theorem kind_isReload (e : Ev) : kind e = .reload → isReload e = true := by cases e <;> simp [isReload, kind]
theorem kind_isSig (e : Ev) : kind e = .sig → isSig e = true := by cases e <;> simp [isSig, kind]

/-! ### precedes -/

theorem precedes_iff (p q : Ev → Bool) (L : List Ev) :
    precedes p q L = true ↔ L.Pairwise (fun a b => ¬ (q a = true ∧ p b = true)) := by
  induction L with
  | nil => simp [precedes]
  | cons e es ih =>
    simp only [precedes, Bool.and_eq_true, Bool.or_eq_true, Bool.not_eq_true', List.all_eq_true,
      List.pairwise_cons, ih]
    constructor
    · rintro ⟨h1, h2⟩
      refine ⟨?_, h2⟩
      intro b hb ⟨hq, hp⟩
      rcases h1 with h1 | h1
      · simp [hq] at h1
      · have := h1 b hb; simp [hp] at this
    · rintro ⟨h1, h2⟩
      refine ⟨?_, h2⟩
      by_cases hq : q e = true
      · right
        intro b hb
        by_cases hp : p b = true
        · exact absurd ⟨hq, hp⟩ (h1 b hb)
        · simpa using hp
      · left; simpa using hq

/-- phase rank of a kind: 0 = may occur anywhere -/
def rk : Kind → Nat
  | .shut => 1 | .reqFin => 1 | .flush => 2 | .stop => 3 | .ret => 4 | _ => 0

def rkOk (k1 k2 : Kind) : Bool := rk k1 ≤ rk k2 || rk k2 == 0
def crossOk (ks1 ks2 : List Kind) : Bool := ks1.all fun k1 => ks2.all fun k2 => rkOk k1 k2

/-- kinds lists of consecutive segments respect the phase order -/
def ordered : List (List Kind) → Bool
  | [] => true
  | ks :: rest => crossOk ks ks && rest.all (crossOk ks) && ordered rest

def R (a b : Ev) : Prop := rkOk (kind a) (kind b) = true

theorem crossOk_R {ks1 ks2 : List Kind} (h : crossOk ks1 ks2 = true) {l1 l2 : List Ev}
    (h1 : kindsIn ks1 l1) (h2 : kindsIn ks2 l2) : ∀ a ∈ l1, ∀ b ∈ l2, R a b := by
  intro a ha b hb
  simp only [crossOk, List.all_eq_true] at h
  exact h _ (h1 a ha) _ (h2 b hb)

theorem pairwise_R_of_kinds {ks : List Kind} (h : crossOk ks ks = true) {l : List Ev} (hl : kindsIn ks l) :
    l.Pairwise R := by
  induction l with
  | nil => exact List.Pairwise.nil
  | cons e es ih =>
    apply List.Pairwise.cons
    · intro b hb
      exact crossOk_R h (l1 := [e]) (l2 := es) (fun x hx => by
        rw [List.mem_singleton.mp hx]; exact hl e (List.mem_cons_self ..))
        (fun x hx => hl x (List.mem_cons_of_mem _ hx)) e (List.mem_singleton.mpr rfl) b hb
    · exact ih (fun x hx => hl x (List.mem_cons_of_mem _ hx))

theorem Parts.mem_log {ps : Parts} {b : Ev} (hb : b ∈ ps.log) : ∃ q ∈ ps, b ∈ q.2 := by
  simp only [Parts.log, List.mem_flatMap] at hb
  exact hb

theorem Parts.pairwise_R (ps : Parts) (h : ps.WK) (ho : ordered (ps.map (·.1)) = true) :
    ps.log.Pairwise R := by
  induction ps with
  | nil => exact List.Pairwise.nil
  | cons p ps ih =>
    obtain ⟨hp, hps⟩ := Parts.WK_cons h
    simp only [List.map_cons, ordered, Bool.and_eq_true, List.all_eq_true, List.mem_map,
      forall_exists_index, and_imp, forall_apply_eq_imp_iff₂] at ho
    obtain ⟨⟨h1, h2⟩, h3⟩ := ho
    rw [Parts.log_cons, List.pairwise_append]
    refine ⟨pairwise_R_of_kinds h1 hp, ih hps h3, ?_⟩
    intro a ha b hb
    obtain ⟨q, hq, hbq⟩ := Parts.mem_log hb
    exact crossOk_R (h2 q hq) hp (hps q hq) a ha b hbq

/-- in a phase-ordered log every `p`-event precedes every `q`-event when `p`'s kind ranks lower -/
theorem precedes_of_R (p q : Ev → Bool) (kp kq : Kind) (hp : ∀ e, p e = true → kind e = kp)
    (hq : ∀ e, q e = true → kind e = kq) (hr : rk kp < rk kq ∧ rk kp ≠ 0) {L : List Ev}
    (hL : L.Pairwise R) : precedes p q L = true := by
  rw [precedes_iff]
  refine hL.imp ?_
  intro a b hab ⟨hqa, hpb⟩
  have ha := hq a hqa
  have hb := hp b hpb
  simp only [R, rkOk, ha, hb, Bool.or_eq_true, decide_eq_true_eq, beq_iff_eq] at hab
  omega

/-! ### afterRet -/

theorem afterRet_append_of_noRet {a : List Ev} (b : List Ev) (h : ∀ e ∈ a, isRet e = false) :
    afterRet (a ++ b) = afterRet b := by
  induction a with
  | nil => rfl
  | cons e es ih =>
    have he := h e (List.mem_cons_self ..)
    simp only [List.cons_append, afterRet, he, Bool.false_eq_true, if_false]
    exact ih (fun x hx => h x (List.mem_cons_of_mem _ hx))

theorem afterRet_ret_cons (b : List Ev) : afterRet (Ev.ret :: b) = b := by
  simp [afterRet, isRet]

/-! ### guardedBy -/

theorem guardedBy_append_left {g p : Ev → Bool} {a : List Ev} (b : List Ev) (hg : a.any g = true)
    (hp : ∀ e ∈ a, p e = false) : guardedBy g p (a ++ b) = true := by
  induction a with
  | nil => simp at hg
  | cons e es ih =>
    simp only [List.cons_append, guardedBy, Bool.or_eq_true, Bool.and_eq_true, Bool.not_eq_true']
    by_cases hge : g e = true
    · left; exact hge
    · right
      refine ⟨hp e (List.mem_cons_self ..), ih ?_ (fun x hx => hp x (List.mem_cons_of_mem _ hx))⟩
      simp only [List.any_cons, Bool.or_eq_true] at hg
      rcases hg with hg | hg
      · exact absurd hg hge
      · exact hg

/-! ### noInterleave: a nondecreasing list of round ids never re-enters a round -/

theorem dropWhile_eq_all_ne_of_sorted (r : Nat) (l : List Nat) (hs : l.Pairwise (· ≤ ·)) (hr : ∀ x ∈ l, r ≤ x) :
    (l.dropWhile (· == r)).all (· != r) = true := by
  induction l with
  | nil => rfl
  | cons x xs ih =>
    rw [List.pairwise_cons] at hs
    by_cases hx : x = r
    · subst hx
      simp only [List.dropWhile_cons, beq_self_eq_true, if_true]
      exact ih hs.2 (fun y hy => hr y (List.mem_cons_of_mem _ hy))
    · have hlt : r < x := by
        have := hr x (List.mem_cons_self ..); omega
      have hne : (x == r) = false := by simpa using hx
      simp only [List.dropWhile_cons, hne, Bool.false_eq_true, if_false, List.all_cons, Bool.and_eq_true,
        bne_iff_ne, ne_eq, List.all_eq_true]
      refine ⟨hx, ?_⟩
      intro y hy
      have := hs.1 y hy
      omega

theorem noInterleave_of_sorted (l : List Nat) (hs : l.Pairwise (· ≤ ·)) : noInterleave l = true := by
  induction l with
  | nil => rfl
  | cons r rest ih =>
    rw [List.pairwise_cons] at hs
    simp only [noInterleave, Bool.and_eq_true]
    exact ⟨dropWhile_eq_all_ne_of_sorted r rest hs.2 hs.1, ih hs.2⟩

/-! ### seqUp / seqDown -/

theorem count_seqUp (n lo : Nat) (b : Bool) (i : Nat) :
    (seqUp n lo).count (b, i) = if lo ≤ i ∧ i < lo + n then 1 else 0 := by
  induction n generalizing lo with
  | zero => simp [seqUp]
  | succ n ih =>
    simp only [seqUp, List.count_cons, ih (lo + 1), beq_iff_eq, Prod.mk.injEq]
    by_cases h1 : lo = i
    · subst h1
      have h2 : ¬ (lo + 1 ≤ lo ∧ lo < lo + 1 + n) := by omega
      have h3 : (lo ≤ lo ∧ lo < lo + (n + 1)) := by omega
      cases b <;> simp [h2, h3]
    · have h4 : ¬ (true = b ∧ lo = i) := fun h => h1 h.2
      have h5 : ¬ (false = b ∧ lo = i) := fun h => h1 h.2
      simp only [h4, h5, if_false, Nat.add_zero]
      by_cases h6 : lo + 1 ≤ i ∧ i < lo + 1 + n
      · have h7 : lo ≤ i ∧ i < lo + (n + 1) := by omega
        simp [h6, h7]
      · have h7 : ¬ (lo ≤ i ∧ i < lo + (n + 1)) := by omega
        simp [h6, h7]

theorem eachOnce_seqUp (n : Nat) : eachOnce (seqUp n 0) n = true := by
  simp only [eachOnce, List.all_eq_true, List.mem_range, Bool.and_eq_true, beq_iff_eq]
  intro i hi
  simp [count_seqUp, hi]

theorem nodupNat_iff (l : List Nat) : nodupNat l = true ↔ l.Nodup := by
  induction l with
  | nil => simp [nodupNat]
  | cons x xs ih => simp [nodupNat, ih]

end Rivaas.Lifecycle
