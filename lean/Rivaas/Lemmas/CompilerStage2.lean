import Rivaas.Lemmas.CompilerOrder
import Rivaas.Lemmas.RadixDispatch
/-
C11, stage 2: when the compiled dynamic matcher answers, it answered with the reference route (outside
the recorded classes), hence like the tree engine.
-/
namespace Rivaas.CompilerL
open Rivaas.Route Rivaas.Radix Rivaas.Compiler Rivaas.Match Rivaas.MatchL Rivaas.RadixL Rivaas.C01

theorem fastMatch_over (eo : Bool) (sat : Nat → Bytes → Bool) (st : Option Bytes) (name : Bytes) (c : List Nat)
    (path : Bytes) (over : SMap) : (fastMatch eo sat st name c path over).2.over = over := by
  unfold fastMatch
  split
  · split
    · rfl
    · split
      · rfl
      · split
        · rfl
        · split
          · rfl
          · split
            · rfl
            · split <;> rfl
  · rfl

theorem generalMatch_fail (sat : Nat → Bytes → Bool) (r : CRoute) (path : Bytes) (over : SMap)
    (h : (generalMatch sat r path over).1 = false) : (generalMatch sat r path over).2.over = over := by
  unfold generalMatch at h ⊢
  simp only at h ⊢
  by_cases h1 : path.length < r.segCount + (r.segCount - 1)
  · rw [if_pos h1]
  · rw [if_neg h1] at h ⊢
    by_cases h2 : countSlashes path ≠ expectedSlashes r.segCount path
    · rw [if_pos h2]
    · rw [if_neg h2] at h ⊢
      by_cases h3 : (parseSegs16 path).length ≠ r.segCount
      · rw [if_pos h3]
      · rw [if_neg h3] at h ⊢
        by_cases h4 : (!(r.statics.all fun (x : Nat × Bytes) => (parseSegs16 path)[x.1]? == some x.2)) = true
        · rw [if_pos h4]
        · rw [if_neg h4] at h ⊢
          by_cases h5 : (!paramsValid sat (parseSegs16 path) r.params) = true
          · rw [if_pos h5]
          · rw [if_neg h5] at h
            cases h

theorem matchAndExtract_fail_over (sat : Nat → Bytes → Bool) (r : CRoute) (path : Bytes) (over : SMap) (e' : Extract)
    (h : matchAndExtract sat r path over = (false, e')) : e'.over = over := by
  unfold matchAndExtract matchAndExtractGen at h
  split at h
  · injection h with _ h2; rw [← h2]
  · split at h
    · split at h
      · rename_i fst name c heq
        have := fastMatch_over false sat (Option.map (fun x => x.snd) r.statics.head?) name c path over
        rw [h] at this; exact this
      · injection h with _ h2; rw [← h2]
    · have h1 : (generalMatch sat r path over).1 = false := by rw [h]
      have := generalMatch_fail sat r path over h1
      rw [h] at this; exact this

theorem scan_some (sat : Nat → Bytes → Bool) (m path : Bytes) : ∀ (l : List CRoute) (over : SMap) (cr : CRoute) (e : Extract),
    scan sat m path l over = some (cr, e) →
    cr ∈ l ∧ cr.method = m ∧ matchAndExtract sat cr path over = (true, e) := by
  intro l
  induction l with
  | nil => intro over cr e h; simp [scan] at h
  | cons r rest ih =>
    intro over cr e h
    simp only [scan] at h
    by_cases hm : r.method = m
    · simp only [hm, if_true] at h
      cases hme : matchAndExtract sat r path over with
      | mk ok e' =>
        rw [hme] at h
        cases ok with
        | true =>
          simp only [Option.some.injEq, Prod.mk.injEq] at h
          obtain ⟨rfl, rfl⟩ := h
          exact ⟨List.mem_cons_self .., hm, hme⟩
        | false =>
          simp only at h
          have hov := matchAndExtract_fail_over sat r path over e' hme
          rw [hov] at h
          obtain ⟨h1, h2, h3⟩ := ih over cr e h
          exact ⟨List.mem_cons_of_mem _ h1, h2, h3⟩
    · simp only [hm, if_false] at h
      obtain ⟨h1, h2, h3⟩ := ih over cr e h
      exact ⟨List.mem_cons_of_mem _ h1, h2, h3⟩

theorem matchDynamic_some (sat : Nat → Bytes → Bool) (rc : RC) (m path : Bytes) (cr : CRoute) (e : Extract)
    (h : rc.matchDynamic sat m path = some (cr, e)) :
    cr ∈ rc.dynamic ∧ cr.method = m ∧ matchAndExtract sat cr path [] = (true, e) := by
  unfold RC.matchDynamic at h
  split at h
  · split at h
    · obtain ⟨h1, h2, h3⟩ := scan_some sat m _ _ _ _ _ h
      exact ⟨(List.mem_filter.mp h1).1, h2, h3⟩
    · exact scan_some sat m _ _ _ _ _ h
  · exact scan_some sat m _ _ _ _ _ h


theorem C_isStatic (r : Route) (hn : NormalPat r.text r.pat) :
    ((C r).isStatic = false ∧ (C r).hasWildcard = false) →
      r.pat ≠ [] ∧ endsWild r.pat = false ∧ isStaticPat r.pat = false := by
  intro ⟨hs, hw⟩
  have hpe : r.pat ≠ [] := by
    intro e
    unfold C at hs
    rw [compileRoute_root r hn e] at hs
    simp at hs
  have hwild : endsWild r.pat = false := by
    cases hh : endsWild r.pat with
    | false => rfl
    | true =>
      have := (compileRoute_wild r hn hpe hh).2
      unfold C at hw
      rw [this] at hw; simp at hw
  refine ⟨hpe, hwild, ?_⟩
  unfold C at hs
  rw [compileRoute_dyn r hn hpe hwild] at hs
  simp only at hs
  have hpok := normal_patOK _ _ hn
  unfold patOK at hpok
  have hbody : bodyOf r.pat = r.pat := by simp [bodyOf, hwild]
  rw [hbody] at hpok
  rw [analyse_params_empty r.cons r.pat hpok 0] at hs
  exact hs

/-- **Stage 2 of the compiled engine.** When the compiled dynamic matcher answers — whatever the order
of its candidate list, with or without the first-segment index — and the request is outside the
recorded classes, it answers exactly like the tree engine. -/
theorem stage2_eq (hash : Bytes → Nat) (sat : Nat → Bytes → Bool) (noRoute : Bool) (script : List Reg) (R : List Route)
    (hR : specRoutes script = some R) (hN : normal R = true) (hg : GoodR R)
    (hstd : ∀ g ∈ script, g.method ∈ stdMethods) (req : Req) (hp : req.path.head? = some '/')
    (hNm : dSameShape1 sat R req.method (cutAny req.path) = false)
    (hOw : dReplaced1 sat R req.method (cutAny req.path) = false)
    (hO : dOrder1 sat R req.method (cutAny req.path) = false)
    (cr : CRoute) (e : Extract)
    (hmd : (rcBuild hash script).matchDynamic sat req.method req.path = some (cr, e)) :
    servedDynamic cr e req = serve sat (build noRoute script) req := by
  obtain ⟨hcd, hcm, hme⟩ := matchDynamic_some sat _ _ _ _ _ hmd
  obtain ⟨hinv, _⟩ := rcBuild_dynamic hash script R hR hg
  obtain ⟨R1, r, R2, hRs, hcr, hst, hwc, hlast⟩ := hinv cr hcd
  have hrR : r ∈ R := by rw [hRs]; simp
  have hn := hg r hrR
  obtain ⟨hmeth, hpatt, hrid⟩ := C_meta r hn
  rw [hcr] at hst hwc hcm hme
  obtain ⟨hpe, hwild, hns⟩ := C_isStatic r hn ⟨hst, hwc⟩
  rw [hmeth] at hcm
  -- the oracle match behind the compiled match
  obtain ⟨b, hb, hcf, hctx⟩ := matchAndExtract_sound sat r hn hpe hwild hns req.path hp [] e hme
  have hNR := lemma_normalR R hN
  have hkeysEq := matchPat_keys _ _ _ _ hb
  have hkeys : distinct (b.map (·.1)) = true := by rw [hkeysEq]; exact hn.dist
  have hcdyn : compiledDyn r = true := by
    simp only [compiledDyn, hns, Bool.not_false, Bool.true_and]
    unfold endsWild at hwild
    simpa using hwild
  have hmatch : (matchPat (cutAny req.path).trail r.pat (cutAny req.path).segs).isSome = true := by rw [hb]; rfl
  have hcons : consOK sat r.cons b = true :=
    consOK_of_first sat r.cons b (by intro c hc; rw [hkeysEq]; exact (hNR r hrR).2 c hc) hkeys hcf
  have hrm : routeMatch sat r (cutAny req.path) = some b := by simp [routeMatch, hb, hcons]
  have hrc : r ∈ cands sat R req.method (cutAny req.path) := by
    simp only [cands, List.mem_filter, decide_eq_true_eq]
    exact ⟨hrR, hcm, by rw [hrm]; rfl⟩
  have hadm : admissible sat R req.method (cutAny req.path) r = true := by
    have := Bool.eq_false_iff.mpr ((List.any_eq_false.mp hO) r hrR)
    simpa [hcm, hcdyn, hrm] using this
  have hadm' : ∀ c ∈ cands sat R req.method (cutAny req.path), better c.pat r.pat = false := by
    unfold admissible at hadm
    simp only [Bool.and_eq_true, List.all_eq_true, Bool.not_eq_true'] at hadm
    exact hadm.2
  -- no parameter-free route matches
  have hstat : staticHit R req.method (cutAny req.path) = false := by
    cases hh : staticHit R req.method (cutAny req.path) with
    | false => rfl
    | true =>
      exfalso
      simp only [staticHit, List.any_eq_true, decide_eq_true_eq] at hh
      obtain ⟨s, hs, hsm, hss, hsmatch⟩ := hh
      have hsrm := routeMatch_static sat s (hNR s hs).2 hss (cutAny req.path) hsmatch
      have hsc : s ∈ cands sat R req.method (cutAny req.path) := by
        simp only [cands, List.mem_filter, decide_eq_true_eq]
        exact ⟨hs, hsm, by rw [hsrm]; rfl⟩
      have h1 := hadm' s hsc
      have h2 := better_static_dyn _ _ _ _ hss hns hsmatch hmatch
      rw [h1] at h2; exact absurd h2 (by simp)
  have hcne : cands sat R req.method (cutAny req.path) ≠ [] := by
    intro e0; rw [e0] at hrc; simp at hrc
  obtain ⟨ρ, href⟩ : ∃ ρ, refRoute sat R req.method (cutAny req.path) = some ρ := by
    cases hh : refRoute sat R req.method (cutAny req.path) with
    | some ρ => exact ⟨ρ, rfl⟩
    | none => exact absurd (pick_none_nil _ hh) hcne
  -- the compiled route is the reference route
  have hρc : ρ ∈ cands sat R req.method (cutAny req.path) := lemma_pick_mem _ _ href
  have hmatchall : ∀ c ∈ cands sat R req.method (cutAny req.path), (matchPat (cutAny req.path).trail c.pat (cutAny req.path).segs).isSome = true := by
    intro c hcc
    have := (List.mem_filter.mp hcc).2
    simp only [decide_eq_true_eq] at this
    exact routeMatch_isSome_match sat c _ this.2
  have href' : pick none (cands sat R req.method (cutAny req.path)) = some ρ := href
  rcases pick_nec _ _ _ none ρ hmatchall (by intro c hcc; cases hcc) href' with ⟨h, _⟩ | ⟨l1, l2, hl12, _, h1, h2⟩
  · cases h
  have hRnd := specRoutes_nodup script R hR
  have hcnd : (cands sat R req.method (cutAny req.path)).Nodup := List.Nodup.sublist List.filter_sublist hRnd
  have hrρ : r = ρ := by
    apply Classical.byContradiction
    intro hne
    have hrin : r ∈ l1 ++ ρ :: l2 := by rw [← hl12]; exact hrc
    simp only [List.mem_append, List.mem_cons] at hrin
    rcases hrin with hr1 | hr1 | hr2
    · -- r before ρ among the candidates: same shape, hence same pattern, hence ρ is a later
      -- registration of r's key
      have hb1 := h1 r hr1
      have hb2 := hadm' ρ hρc
      have hshape := shapeEq_of_incomparable _ _ _ _ hmatch (hmatchall ρ hρc) hb1 hb2
      by_cases hpp : r.pat = ρ.pat
      · have hρR : ρ ∈ R := (List.mem_filter.mp hρc).1
        have hρm : ρ.method = req.method := by
          have := (List.mem_filter.mp hρc).2; simp only [decide_eq_true_eq] at this; exact this.1
        have htext : ρ.text = r.text := by rw [(hNR ρ hρR).1.text, hn.text, hpp]
        rw [hRs] at hρR
        simp only [List.mem_append, List.mem_cons] at hρR
        rcases hρR with hρ1 | hρ1 | hρ2
        · -- ρ registered before r: then r comes after ρ among the candidates
          have hcsplit : cands sat R req.method (cutAny req.path) =
              (R1.filter fun x => decide (x.method = req.method ∧ (routeMatch sat x (cutAny req.path)).isSome = true)) ++
              r :: (R2.filter fun x => decide (x.method = req.method ∧ (routeMatch sat x (cutAny req.path)).isSome = true)) := by
            unfold cands
            rw [hRs, List.filter_append, List.filter_cons]
            simp [hcm, hrm]
          have hρA : ρ ∈ R1.filter fun x => decide (x.method = req.method ∧ (routeMatch sat x (cutAny req.path)).isSome = true) := by
            apply List.mem_filter.mpr
            refine ⟨hρ1, ?_⟩
            have := (List.mem_filter.mp hρc).2
            exact this
          obtain ⟨A1, A2, hA⟩ := List.append_of_mem hρA
          have heq : l1 ++ ρ :: l2 = A1 ++ ρ :: (A2 ++ r :: (R2.filter fun x => decide (x.method = req.method ∧ (routeMatch sat x (cutAny req.path)).isSome = true))) := by
            rw [← hl12, hcsplit, hA]; simp
          obtain ⟨_, hl2⟩ := nodup_split_unique _ _ _ _ _ heq (by rw [← hl12]; exact hcnd)
          have hrl2 : r ∈ l2 := by rw [hl2]; simp
          have := h2 r hrl2
          rw [hb2] at this; exact absurd this (by simp)
        · exact hne hρ1.symm
        · exact hlast ρ hρ2 ⟨by rw [hρm, hcm], htext⟩
      · -- same shape, different pattern: a parameter is named differently (class `overwrite`, same-shape part)
        have hdyn : r ∈ dynRoutes R req.method := by
          simp only [dynRoutes, List.mem_filter, decide_eq_true_eq]
          exact ⟨hrR, hcm, by simp [hns]⟩
        have : dSameShape1 sat R req.method (cutAny req.path) = true := by
          simp only [dSameShape1, href]
          apply List.any_eq_true.mpr
          refine ⟨r, hdyn, ?_⟩
          simp [hshape, hpp]
        rw [hNm] at this; exact absurd this (by simp)
    · exact hne hr1
    · have := h2 r hr2
      rw [hadm' ρ hρc] at this; exact absurd this (by simp)
  subst hrρ
  -- both engines serve r with the bindings b
  have hlook := lemma_lookupM sat noRoute script R hR hN hstd req.method req.path hp hOw
  rw [href] at hlook
  simp only [Option.map_some, hrm, Option.getD_some] at hlook
  rw [lemma_serve_lookup, hlook]
  simp only [servedDynamic, served, leafOf, hcr, hpatt, hrid]
  have hctx' : (⟨e.slots, e.over⟩ : Ctx) = pushAll Ctx.fresh b := hctx
  rw [hctx']
  rfl

end Rivaas.CompilerL
