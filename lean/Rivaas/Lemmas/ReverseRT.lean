import Rivaas.Spec.Reverse
/-
C12 (last clause) — lemmas for the URLFor round trip: splitting a joined segment list gives the
segments back; the segments of a parsed pattern are non-empty and slash-free.
-/
namespace Rivaas.Reverse

theorem lemma_split_ne_nil (s : Bytes) : splitSlash s ≠ [] := by
  cases s with
  | nil => simp [splitSlash]
  | cons c cs =>
    simp only [splitSlash]
    split
    · simp
    · split <;> simp

theorem lemma_split_noSlash (s : Bytes) : ∀ x ∈ splitSlash s, '/' ∉ x := by
  induction s with
  | nil => intro x hx; simp [splitSlash] at hx; subst hx; simp
  | cons c cs ih =>
    intro x hx
    simp only [splitSlash] at hx
    split at hx
    · rcases List.mem_cons.1 hx with rfl | hx
      · simp
      · exact ih x hx
    · rename_i hc
      cases hsp : splitSlash cs with
      | nil => exact absurd hsp (lemma_split_ne_nil cs)
      | cons h t =>
        rw [hsp] at hx ih
        simp only at hx
        rcases List.mem_cons.1 hx with rfl | hx
        · intro hm
          rcases List.mem_cons.1 hm with h1 | h1
          · exact hc h1.symm
          · exact ih h (by simp) h1
        · exact ih x (by simp [hx])

theorem lemma_split_single (a : Bytes) (ha : '/' ∉ a) : splitSlash a = [a] := by
  induction a with
  | nil => rfl
  | cons c cs ih =>
    have hc : c ≠ '/' := fun h => ha (by simp [h])
    have hcs : '/' ∉ cs := fun h => ha (by simp [h])
    simp only [splitSlash, hc, if_false, ih hcs]

theorem lemma_split_append (a rest : Bytes) (ha : '/' ∉ a) :
    splitSlash (a ++ '/' :: rest) = a :: splitSlash rest := by
  induction a with
  | nil => simp [splitSlash]
  | cons c cs ih =>
    have hc : c ≠ '/' := fun h => ha (by simp [h])
    have hcs : '/' ∉ cs := fun h => ha (by simp [h])
    simp only [List.cons_append, splitSlash, hc, if_false, ih hcs]

/-- splitting what `joinSlash` built gives the parts back -/
theorem lemma_split_join (parts : List Bytes) (hne : parts ≠ []) (h : ∀ x ∈ parts, '/' ∉ x) :
    splitSlash (joinSlash parts) = parts := by
  induction parts with
  | nil => exact absurd rfl hne
  | cons a t ih =>
    cases t with
    | nil => simp only [joinSlash]; exact lemma_split_single a (h a (by simp))
    | cons b t' =>
      simp only [joinSlash]
      rw [lemma_split_append a _ (h a (by simp)), ih (by simp) (fun x hx => h x (by simp [hx]))]

theorem lemma_segOf_static (part t : Bytes) (h : segOf part = .static t) : t = part := by
  unfold segOf at h
  split at h
  · cases h
  · cases h; rfl

/-- the static text of a parsed pattern is non-empty and slash-free -/
theorem lemma_parse_static (pattern t : Bytes) (h : Seg.static t ∈ parseReversePattern pattern) :
    t ≠ [] ∧ '/' ∉ t := by
  unfold parseReversePattern at h
  obtain ⟨part, hp, hseg⟩ := List.mem_map.1 h
  have ht := lemma_segOf_static part t hseg
  subst ht
  obtain ⟨hmem, hne⟩ := List.mem_filter.1 hp
  exact ⟨by simpa using hne, lemma_split_noSlash _ t hmem⟩

/-- the parameters of a pattern with their values, left to right -/
def boundParams (vals : Vals) : List Seg → List (Bytes × Bytes)
  | [] => []
  | .static _ :: rest => boundParams vals rest
  | .param n :: rest =>
    match valOf vals n with
    | some v => (n, v.1) :: boundParams vals rest
    | none => boundParams vals rest

/-- rendering with raw values, then matching segment by segment, binds every parameter to its value -/
theorem lemma_match_render (vals : Vals) (segs : List Seg)
    (hv : ∀ n, Seg.param n ∈ segs → ∃ v, valOf vals n = some v) :
    ∃ parts, renderAll vals false segs = some parts ∧ matchSegs segs parts = some (boundParams vals segs) ∧
      parts.length = segs.length ∧
      (∀ x ∈ parts, (∃ t, Seg.static t ∈ segs ∧ x = t) ∨ (∃ n v, Seg.param n ∈ segs ∧ valOf vals n = some v ∧ x = v.1)) := by
  induction segs with
  | nil => exact ⟨[], rfl, rfl, rfl, by simp⟩
  | cons sg rest ih =>
    obtain ⟨parts, h1, h2, h3, h4⟩ := ih (fun n hn => hv n (by simp [hn]))
    cases sg with
    | static t =>
      refine ⟨t :: parts, ?_, ?_, by simp [h3], ?_⟩
      · simp [renderAll, render, h1]
      · simp [matchSegs, h2, boundParams]
      · intro x hx
        rcases List.mem_cons.1 hx with rfl | hx
        · exact Or.inl ⟨x, by simp, rfl⟩
        · rcases h4 x hx with ⟨t', ht', hxt⟩ | ⟨n, v, hn, hvn, hxv⟩
          · exact Or.inl ⟨t', List.mem_cons_of_mem _ ht', hxt⟩
          · exact Or.inr ⟨n, v, List.mem_cons_of_mem _ hn, hvn, hxv⟩
    | param n =>
      obtain ⟨v, hvn⟩ := hv n (by simp)
      refine ⟨v.1 :: parts, ?_, ?_, by simp [h3], ?_⟩
      · simp [renderAll, render, hvn, h1]
      · simp [matchSegs, h2, boundParams, hvn]
      · intro x hx
        rcases List.mem_cons.1 hx with rfl | hx
        · exact Or.inr ⟨n, v, by simp, hvn, rfl⟩
        · rcases h4 x hx with ⟨t', ht', hxt⟩ | ⟨n', v', hn, hvn', hxv⟩
          · exact Or.inl ⟨t', List.mem_cons_of_mem _ ht', hxt⟩
          · exact Or.inr ⟨n', v', List.mem_cons_of_mem _ hn, hvn', hxv⟩

theorem lemma_getLast_mem {α} (l : List α) (x : α) (h : l.getLast? = some x) : x ∈ l := by
  exact List.mem_of_getLast? h


/-! ### the spec's reading of a pattern against the model's -/

theorem lemma_pieces_eq (p : Bytes) : Spec.pieces p = splitSlash p := by
  induction p with
  | nil => rfl
  | cons c cs ih =>
    simp only [Spec.pieces, List.foldr_cons, splitSlash] at ih ⊢
    rw [ih]
    by_cases hc : c = '/'
    · simp [hc]
    · simp only [hc, if_false]
      cases splitSlash cs <;> rfl

def ne (x : Bytes) : Bool := decide (x ≠ [])

theorem lemma_filter_ltrim (l : Bytes) :
    (splitSlash (l.dropWhile (· = '/'))).filter ne = (splitSlash l).filter ne := by
  induction l with
  | nil => rfl
  | cons c cs ih =>
    by_cases hc : c = '/'
    · subst hc
      simp only [List.dropWhile_cons, decide_true, if_true, splitSlash]
      rw [ih]
      simp [ne]
    · simp [hc]

theorem lemma_split_snoc (s : Bytes) : splitSlash (s ++ ['/']) = splitSlash s ++ [[]] := by
  induction s with
  | nil => simp [splitSlash]
  | cons c cs ih =>
    by_cases hc : c = '/'
    · simp [splitSlash, hc, ih]
    · simp only [List.cons_append, splitSlash, hc, if_false, ih]
      cases hsp : splitSlash cs with
      | nil => exact absurd hsp (lemma_split_ne_nil cs)
      | cons h t => rfl

theorem lemma_filter_rep (s : Bytes) (k : Nat) :
    (splitSlash (s ++ List.replicate k '/')).filter ne = (splitSlash s).filter ne := by
  induction k with
  | zero => simp
  | succ k ih =>
    rw [List.replicate_succ', ← List.append_assoc, lemma_split_snoc, List.filter_append, ih]
    simp [ne]

theorem lemma_mem_takeWhile' {p : Char → Bool} {l : Bytes} {x : Char} (h : x ∈ l.takeWhile p) : p x = true := by
  induction l with
  | nil => simp at h
  | cons a t ih =>
    simp only [List.takeWhile_cons] at h
    split at h
    · rename_i ha
      rcases List.mem_cons.1 h with rfl | h
      · exact ha
      · exact ih h
    · simp at h

theorem lemma_rtrim_decomp (l : Bytes) :
    ∃ k, l = (l.reverse.dropWhile (· = '/')).reverse ++ List.replicate k '/' := by
  have h := List.takeWhile_append_dropWhile (p := (· = '/')) (l := l.reverse)
  have hall : ∀ x ∈ (l.reverse.takeWhile (· = '/')).reverse, x = '/' := by
    intro x hx
    have := lemma_mem_takeWhile' (List.mem_reverse.1 hx)
    simpa using this
  refine ⟨(l.reverse.takeWhile (· = '/')).length, ?_⟩
  have hrep : (l.reverse.takeWhile (· = '/')).reverse = List.replicate (l.reverse.takeWhile (· = '/')).length '/' := by
    rw [List.eq_replicate_iff]
    exact ⟨by simp, hall⟩
  rw [← hrep, ← List.reverse_append, h, List.reverse_reverse]

/-- trimming the slashes of a pattern does not change its non-empty pieces -/
theorem lemma_filter_trim (p : Bytes) : (splitSlash (trimSlash p)).filter ne = (splitSlash p).filter ne := by
  unfold trimSlash
  obtain ⟨k, hk⟩ := lemma_rtrim_decomp (p.dropWhile (· = '/'))
  rw [← lemma_filter_ltrim p]
  conv => rhs; rw [hk]
  rw [lemma_filter_rep]

def pname : Seg → Option Bytes
  | .param n => some n
  | .static _ => none

def specName (piece : Bytes) : Option Bytes :=
  match piece with
  | ':' :: n => some n
  | _ => none

theorem lemma_pname_segOf (q : Bytes) : pname (segOf q) = specName q := by
  cases q with
  | nil => rfl
  | cons c n =>
    by_cases hc : c = ':'
    · subst hc; rfl
    · unfold segOf specName
      split
      · rename_i h; cases h; exact absurd rfl hc
      · split
        · rename_i h; cases h; exact absurd rfl hc
        · rfl

theorem lemma_parse_eq (p : Bytes) : parseReversePattern p = ((splitSlash (trimSlash p)).filter ne).map segOf := by
  unfold parseReversePattern
  congr 1

/-- the parameter names the oracle reads off a pattern are those of the model's segment list -/
theorem lemma_paramNames_eq (p : Bytes) : Spec.paramNames p = (parseReversePattern p).filterMap pname := by
  rw [lemma_parse_eq, List.filterMap_map, lemma_filter_trim]
  unfold Spec.paramNames
  rw [lemma_pieces_eq]
  have : (fun q => pname (segOf q)) = specName := funext lemma_pname_segOf
  show List.filterMap specName (splitSlash p) = List.filterMap (pname ∘ segOf) (List.filter ne (splitSlash p))
  rw [show (pname ∘ segOf) = specName from this]
  induction splitSlash p with
  | nil => rfl
  | cons a t ih =>
    by_cases ha : a = []
    · subst ha
      have h1 : specName [] = none := rfl
      have h2 : ne [] = false := by simp [ne]
      rw [List.filterMap_cons_none h1, List.filter_cons_of_neg (by simp [h2]), ih]
    · have : ne a = true := by simp [ne, ha]
      rw [List.filter_cons_of_pos this, List.filterMap_cons, List.filterMap_cons, ih]

theorem lemma_render_some (vals : Vals) (b : Bool) (segs : List Seg)
    (hv : ∀ n, Seg.param n ∈ segs → ∃ v, valOf vals n = some v) : ∃ parts, renderAll vals b segs = some parts := by
  induction segs with
  | nil => exact ⟨[], rfl⟩
  | cons sg rest ih =>
    obtain ⟨parts, h⟩ := ih (fun n hn => hv n (by simp [hn]))
    cases sg with
    | static t => exact ⟨t :: parts, by simp [renderAll, render, h]⟩
    | param n =>
      obtain ⟨v, hvn⟩ := hv n (by simp)
      exact ⟨(if b then v.2 else v.1) :: parts, by simp [renderAll, render, hvn, h]⟩

theorem lemma_any_param (segs : List Seg) : segs.any Seg.isParam = !(segs.filterMap pname).isEmpty := by
  induction segs with
  | nil => rfl
  | cons a t ih =>
    cases a with
    | static x =>
      have h1 : pname (Seg.static x) = none := rfl
      rw [List.filterMap_cons_none h1, List.any_cons, ih]
      rfl
    | param n =>
      have h1 : pname (Seg.param n) = some n := rfl
      rw [List.filterMap_cons_some h1]
      rfl

theorem lemma_bound_eq (vals : Vals) (segs : List Seg) (val : Bytes → Bytes)
    (hv : ∀ n, Seg.param n ∈ segs → ∃ v, valOf vals n = some v ∧ v.1 = val n) :
    boundParams vals segs = (segs.filterMap pname).map fun n => (n, val n) := by
  induction segs with
  | nil => rfl
  | cons a t ih =>
    have iht := ih (fun n hn => hv n (by simp [hn]))
    cases a with
    | static x =>
      have h1 : pname (Seg.static x) = none := rfl
      rw [List.filterMap_cons_none h1]
      simpa [boundParams] using iht
    | param n =>
      obtain ⟨v, hvn, hval⟩ := hv n (by simp)
      have h1 : pname (Seg.param n) = some n := rfl
      rw [List.filterMap_cons_some h1]
      simp [boundParams, hvn, hval, iht]

def strip (q : Bytes × Bytes × Bytes × Bool) : Bytes × Bytes × Bytes := (q.1, q.2.1, q.2.2.1)

theorem lemma_valOf_map (vals : List (Bytes × Bytes × Bytes × Bool)) (n : Bytes) :
    valOf (vals.map strip) n = (vals.find? (fun e => e.1 == n)).map fun q => (q.2.1, q.2.2.1) := by
  induction vals with
  | nil => rfl
  | cons a t ih =>
    unfold valOf at ih ⊢
    simp only [List.map_cons, List.find?_cons]
    by_cases h : a.1 == n
    · simp [strip, h]
    · have h' : (a.1 == n) = false := by simpa using h
      simp only [strip, h'] at ih ⊢
      exact ih

end Rivaas.Reverse
