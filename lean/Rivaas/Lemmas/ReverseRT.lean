import Rivaas.Spec.Reverse
/-
C12 (last clause) — lemmas for the URLFor round trip: splitting a joined segment list gives the
segments back; the segments of a parsed pattern are non-empty and slash-free.
-/
namespace Rivaas.Reverse

theorem lemma_split_ne_nil (s : Bytes) : splitSlash s ≠ [] := by
  cases s with
  | nil => simp [splitSlash]
  | cons c cs =>
    simp only [splitSlash]
    split
    · simp
    · split <;> simp

theorem lemma_split_noSlash (s : Bytes) : ∀ x ∈ splitSlash s, '/' ∉ x := by
  induction s with
  | nil => intro x hx; simp [splitSlash] at hx; subst hx; simp
  | cons c cs ih =>
    intro x hx
    simp only [splitSlash] at hx
    split at hx
    · rcases List.mem_cons.1 hx with rfl | hx
      · simp
      · exact ih x hx
    · rename_i hc
      cases hsp : splitSlash cs with
      | nil => exact absurd hsp (lemma_split_ne_nil cs)
      | cons h t =>
        rw [hsp] at hx ih
        simp only at hx
        rcases List.mem_cons.1 hx with rfl | hx
        · intro hm
          rcases List.mem_cons.1 hm with h1 | h1
          · exact hc h1.symm
          · exact ih h (by simp) h1
        · exact ih x (by simp [hx])

theorem lemma_split_single (a : Bytes) (ha : '/' ∉ a) : splitSlash a = [a] := by
  induction a with
  | nil => rfl
  | cons c cs ih =>
    have hc : c ≠ '/' := fun h => ha (by simp [h])
    have hcs : '/' ∉ cs := fun h => ha (by simp [h])
    simp only [splitSlash, hc, if_false, ih hcs]

theorem lemma_split_append (a rest : Bytes) (ha : '/' ∉ a) :
    splitSlash (a ++ '/' :: rest) = a :: splitSlash rest := by
  induction a with
  | nil => simp [splitSlash]
  | cons c cs ih =>
    have hc : c ≠ '/' := fun h => ha (by simp [h])
    have hcs : '/' ∉ cs := fun h => ha (by simp [h])
    simp only [List.cons_append, splitSlash, hc, if_false, ih hcs]

/-- splitting what `joinSlash` built gives the parts back -/
theorem lemma_split_join (parts : List Bytes) (hne : parts ≠ []) (h : ∀ x ∈ parts, '/' ∉ x) :
    splitSlash (joinSlash parts) = parts := by
  induction parts with
  | nil => exact absurd rfl hne
  | cons a t ih =>
    cases t with
    | nil => simp only [joinSlash]; exact lemma_split_single a (h a (by simp))
    | cons b t' =>
      simp only [joinSlash]
      rw [lemma_split_append a _ (h a (by simp)), ih (by simp) (fun x hx => h x (by simp [hx]))]

theorem lemma_segOf_static (part t : Bytes) (h : segOf part = .static t) : t = part := by
  unfold segOf at h
  split at h
  · cases h
  · cases h; rfl

/-- the static text of a parsed pattern is non-empty and slash-free -/
theorem lemma_parse_static (pattern t : Bytes) (h : Seg.static t ∈ parseReversePattern pattern) :
    t ≠ [] ∧ '/' ∉ t := by
  unfold parseReversePattern at h
  obtain ⟨part, hp, hseg⟩ := List.mem_map.1 h
  have ht := lemma_segOf_static part t hseg
  subst ht
  obtain ⟨hmem, hne⟩ := List.mem_filter.1 hp
  exact ⟨by simpa using hne, lemma_split_noSlash _ t hmem⟩

/-- the parameters of a pattern with their values, left to right -/
def boundParams (vals : Vals) : List Seg → List (Bytes × Bytes)
  | [] => []
  | .static _ :: rest => boundParams vals rest
  | .param n :: rest =>
    match valOf vals n with
    | some v => (n, v.1) :: boundParams vals rest
    | none => boundParams vals rest

/-- rendering with raw values, then matching segment by segment, binds every parameter to its value -/
theorem lemma_match_render (vals : Vals) (segs : List Seg)
    (hv : ∀ n, Seg.param n ∈ segs → ∃ v, valOf vals n = some v) :
    ∃ parts, renderAll vals false segs = some parts ∧ matchSegs segs parts = some (boundParams vals segs) ∧
      parts.length = segs.length ∧
      (∀ x ∈ parts, (∃ t, Seg.static t ∈ segs ∧ x = t) ∨ (∃ n v, Seg.param n ∈ segs ∧ valOf vals n = some v ∧ x = v.1)) := by
  induction segs with
  | nil => exact ⟨[], rfl, rfl, rfl, by simp⟩
  | cons sg rest ih =>
    obtain ⟨parts, h1, h2, h3, h4⟩ := ih (fun n hn => hv n (by simp [hn]))
    cases sg with
    | static t =>
      refine ⟨t :: parts, ?_, ?_, by simp [h3], ?_⟩
      · simp [renderAll, render, h1]
      · simp [matchSegs, h2, boundParams]
      · intro x hx
        rcases List.mem_cons.1 hx with rfl | hx
        · exact Or.inl ⟨x, by simp, rfl⟩
        · rcases h4 x hx with ⟨t', ht', hxt⟩ | ⟨n, v, hn, hvn, hxv⟩
          · exact Or.inl ⟨t', List.mem_cons_of_mem _ ht', hxt⟩
          · exact Or.inr ⟨n, v, List.mem_cons_of_mem _ hn, hvn, hxv⟩
    | param n =>
      obtain ⟨v, hvn⟩ := hv n (by simp)
      refine ⟨v.1 :: parts, ?_, ?_, by simp [h3], ?_⟩
      · simp [renderAll, render, hvn, h1]
      · simp [matchSegs, h2, boundParams, hvn]
      · intro x hx
        rcases List.mem_cons.1 hx with rfl | hx
        · exact Or.inr ⟨n, v, by simp, hvn, rfl⟩
        · rcases h4 x hx with ⟨t', ht', hxt⟩ | ⟨n', v', hn, hvn', hxv⟩
          · exact Or.inl ⟨t', List.mem_cons_of_mem _ ht', hxt⟩
          · exact Or.inr ⟨n', v', List.mem_cons_of_mem _ hn, hvn', hxv⟩

theorem lemma_getLast_mem {α} (l : List α) (x : α) (h : l.getLast? = some x) : x ∈ l := by
  exact List.mem_of_getLast? h

end Rivaas.Reverse
