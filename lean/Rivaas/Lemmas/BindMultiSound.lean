import Rivaas.Model.Bind
import Rivaas.Model.BindObs
import Rivaas.Spec.Bind
import Rivaas.Lemmas.BindVal
import Rivaas.Lemmas.BindItems
import Rivaas.Lemmas.BindSound
import Rivaas.Lemmas.BindTyped
import Rivaas.Lemmas.BindMain
import Rivaas.Lemmas.BindMulti
/-
C04, several sources: `bindMulti` meets the folded oracle `Spec.specMulti`.
-/
set_option linter.unusedSimpArgs false
set_option linter.unusedVariables false
namespace Rivaas.Bind
open Spec

/-! ### the stripped type: same shape, same zero values, same grammar -/

theorem lemma_strip_leafTy (t : Ty) (h : leafTy t = true) : stripTy t = t := by
  cases t with
  | prim p => rfl
  | slice e => rfl
  | map e => rfl
  | struct fs => simp [leafTy] at h
  | ptr e =>
    cases e with
    | prim p => rfl
    | slice e' => rfl
    | map e' => rfl
    | struct fs => simp [leafTy] at h
    | ptr e' => simp [leafTy] at h

mutual
theorem lemma_zero_strip : ∀ t : Ty, zero (stripTy t) = zero t
  | .struct fs => by simp only [stripTy, zero, lemma_zeroFs_strip fs]
  | .ptr t => by simp [stripTy, zero]
  | .slice t => by simp [stripTy, zero]
  | .map t => by simp [stripTy, zero]
  | .prim p => by simp [stripTy]
theorem lemma_zeroFs_strip : ∀ fs : List Fld, zeroFs (stripFs fs) = zeroFs fs
  | [] => rfl
  | (h, t) :: rest => by simp only [stripFs, zeroFs, lemma_zero_strip t, lemma_zeroFs_strip rest]
end

mutual
theorem lemma_strip_wt' : ∀ (t : Ty) (v : Val), wt (stripTy t) v = wt t v
  | .struct fs, v => by
    cases v with
    | struct vs => simp only [stripTy, wt]; exact lemma_strip_wts' fs vs
    | _ => simp [stripTy, wt]
  | .ptr t, v => by
    cases v with
    | ptr x => simp only [stripTy, wt]; exact lemma_strip_wt' t x
    | _ => simp [stripTy, wt]
  | .slice t, v => by simp [stripTy, wt]
  | .map t, v => by simp [stripTy, wt]
  | .prim p, v => by simp [stripTy, wt]
theorem lemma_strip_wts' : ∀ (fs : List Fld) (vs : List Val), wts (stripFs fs) vs = wts fs vs
  | [], vs => by cases vs <;> simp [stripFs, wts]
  | (h, t) :: rest, [] => by simp [stripFs, wts]
  | (h, t) :: rest, v :: vs => by simp [stripFs, wts, lemma_strip_wt' t v, lemma_strip_wts' rest vs]
end

mutual
theorem lemma_strip_grammar' : ∀ t : Ty, inGrammar (stripTy t) = inGrammar t
  | .struct fs => by simp only [stripTy, inGrammar]; exact lemma_strip_grammarFs' fs
  | .ptr (.struct fs) => by simp only [stripTy, inGrammar]; exact lemma_strip_grammarFs' fs
  | .ptr (.prim p) => by simp [stripTy, inGrammar, leafTy]
  | .ptr (.ptr t) => by simp [stripTy, inGrammar, leafTy]
  | .ptr (.slice t) => by simp [stripTy, inGrammar, leafTy]
  | .ptr (.map t) => by simp [stripTy, inGrammar, leafTy]
  | .slice t => by simp [stripTy, inGrammar, leafTy]
  | .map t => by simp [stripTy, inGrammar, leafTy]
  | .prim p => by simp [stripTy, inGrammar, leafTy]
theorem lemma_strip_grammarFs' : ∀ fs : List Fld, inGrammarFs (stripFs fs) = inGrammarFs fs
  | [] => by simp [stripFs, inGrammarFs]
  | (h, t) :: rest => by simp [stripFs, inGrammarFs, lemma_strip_grammar' t, lemma_strip_grammarFs' rest]
end

/-- leaves of a type of the grammar have leaf types -/
theorem lemma_leafItems_grammar (tag : Tag) (k : Nat) (h : FieldHdr) (t : Ty) (hg : leafTy t = true) (l : Leaf)
    (hl : Item.leaf l ∈ leafItems tag k h t) : leafTy l.ty = true := by
  rw [lemma_leafItems_ty tag k h t l hl]; exact hg

mutual
theorem lemma_leaf_grammar_fld (tag : Tag) (k : Nat) (h : FieldHdr) :
    ∀ (t : Ty) (l : Leaf), inGrammar t = true → Item.leaf l ∈ itemsFld tag k h t → leafTy l.ty = true
  | .struct sub, l, hg, hl => by
    have hgs : inGrammarFs sub = true := by simpa [inGrammar] using hg
    by_cases hex : h.exported = true
    · by_cases han : h.anon = true
      · rw [(lemma_itemsFld_embedded tag k h sub hex han).1] at hl
        simp only [List.mem_map] at hl
        obtain ⟨x, hx, hxl⟩ := hl
        cases x with
        | node n => simp [Item.under] at hxl
        | frame f => simp [Item.under] at hxl
        | leaf l0 =>
          simp only [Item.under, Item.leaf.injEq] at hxl
          subst hxl
          exact lemma_leaf_grammar_fs tag sub 0 l0 hgs hx
      · have han' : h.anon = false := by simpa using han
        rw [(lemma_itemsFld_nested tag k h sub hex han').1] at hl
        unfold nestedItems at hl
        split at hl
        · simp at hl
        · simp only [List.mem_cons, reduceCtorEq, false_or, List.mem_map] at hl
          obtain ⟨x, hx, hxl⟩ := hl
          cases x with
          | node n => simp [Item.below] at hxl
          | frame f => simp [Item.below] at hxl
          | leaf l0 =>
            simp only [Item.below, Item.leaf.injEq] at hxl
            subst hxl
            exact lemma_leaf_grammar_fs tag sub 0 l0 hgs hx
    · have hex' : h.exported = false := by simpa using hex
      rw [lemma_itemsFld_unexported tag k h _ hex'] at hl
      simp at hl
  | .ptr (.struct sub), l, hg, hl => by
    have hgs : inGrammarFs sub = true := by simpa [inGrammar] using hg
    by_cases hex : h.exported = true
    · by_cases han : h.anon = true
      · rw [(lemma_itemsFld_embedded tag k h sub hex han).2] at hl
        simp only [List.mem_map] at hl
        obtain ⟨x, hx, hxl⟩ := hl
        cases x with
        | node n => simp [Item.under] at hxl
        | frame f => simp [Item.under] at hxl
        | leaf l0 =>
          simp only [Item.under, Item.leaf.injEq] at hxl
          subst hxl
          exact lemma_leaf_grammar_fs tag sub 0 l0 hgs hx
      · have han' : h.anon = false := by simpa using han
        rw [(lemma_itemsFld_nested tag k h sub hex han').2] at hl
        unfold nestedItems at hl
        split at hl
        · simp at hl
        · simp only [List.mem_cons, reduceCtorEq, false_or, List.mem_map] at hl
          obtain ⟨x, hx, hxl⟩ := hl
          cases x with
          | node n => simp [Item.below] at hxl
          | frame f => simp [Item.below] at hxl
          | leaf l0 =>
            simp only [Item.below, Item.leaf.injEq] at hxl
            subst hxl
            exact lemma_leaf_grammar_fs tag sub 0 l0 hgs hx
    · have hex' : h.exported = false := by simpa using hex
      rw [lemma_itemsFld_unexported tag k h _ hex'] at hl
      simp at hl
  | .prim p, l, hg, hl => by
    rw [lemma_itemsFld_leaf tag k h _ (by simp [structFields?])] at hl
    exact lemma_leafItems_grammar tag k h _ (by simpa [inGrammar] using hg) l hl
  | .slice e, l, hg, hl => by
    rw [lemma_itemsFld_leaf tag k h _ (by simp [structFields?])] at hl
    exact lemma_leafItems_grammar tag k h _ (by simpa [inGrammar] using hg) l hl
  | .map e, l, hg, hl => by
    rw [lemma_itemsFld_leaf tag k h _ (by simp [structFields?])] at hl
    exact lemma_leafItems_grammar tag k h _ (by simpa [inGrammar] using hg) l hl
  | .ptr (.prim p), l, hg, hl => by
    rw [lemma_itemsFld_leaf tag k h _ (by simp [structFields?])] at hl
    exact lemma_leafItems_grammar tag k h _ (by simpa [inGrammar] using hg) l hl
  | .ptr (.ptr e), l, hg, hl => by simp [inGrammar, leafTy] at hg
  | .ptr (.slice e), l, hg, hl => by
    rw [lemma_itemsFld_leaf tag k h _ (by simp [structFields?])] at hl
    exact lemma_leafItems_grammar tag k h _ (by simpa [inGrammar] using hg) l hl
  | .ptr (.map e), l, hg, hl => by
    rw [lemma_itemsFld_leaf tag k h _ (by simp [structFields?])] at hl
    exact lemma_leafItems_grammar tag k h _ (by simpa [inGrammar] using hg) l hl
theorem lemma_leaf_grammar_fs (tag : Tag) :
    ∀ (fs : List Fld) (i : Nat) (l : Leaf), inGrammarFs fs = true → Item.leaf l ∈ itemsFs tag i fs → leafTy l.ty = true
  | [], i, l, _, hl => by simp [itemsFs] at hl
  | (h, t) :: rest, i, l, hg, hl => by
    simp only [inGrammarFs, Bool.and_eq_true] at hg
    simp only [itemsFs, List.mem_append] at hl
    rcases hl with hl | hl
    · exact lemma_leaf_grammar_fld tag i h t l hg.1 hl
    · exact lemma_leaf_grammar_fs tag rest (i+1) l hg.2 hl
end


/-! ### what one phase guarantees -/

theorem lemma_specOK_ok (P : Params) (cfg : Cfg) (tag : Tag) (fs : List Fld) (init v : Val) (s : Src)
    (h : specOK P cfg tag fs init s (.ok v) = true) :
    (∀ l, Item.leaf l ∈ itemsFs tag 0 fs → ambiguous s l = true ∨ ∃ e ∈ (expect P cfg s init l).oks, holds init v l e = true) ∧
    (∀ f, Item.frame f ∈ itemsFs tag 0 fs → holdsFrame init v f = true) ∧
    (∀ n, Item.node n ∈ itemsFs tag 0 fs → n.depth ≤ cfg.maxDepth) := by
  simp only [specOK, Bool.and_eq_true, Bool.not_eq_true', List.all_eq_true, Bool.or_eq_true, List.any_eq_true,
    mustFail, Bool.or_eq_false_iff, List.any_eq_false, leavesOf, nodesOf, framesOf, List.mem_filterMap, items] at h
  obtain ⟨⟨⟨_, hn⟩, hl⟩, hf⟩ := h
  refine ⟨?_, ?_, ?_⟩
  · intro l hlm
    exact hl l ⟨.leaf l, hlm, rfl⟩
  · intro f hfm
    exact hf f ⟨.frame f, hfm, rfl⟩
  · intro n hnm
    have := hn n ⟨.node n, hnm, rfl⟩
    simpa using this

/-- a successful phase of a multi-source bind, read on the items of the *original* type -/
theorem lemma_phase_facts (P : Params) (hP : FloatSane P) (cfg : Cfg) (fs : List Fld) (ph : Phase) (ivs : List Val) (v1 : Val)
    (hw : wts fs ivs = true) (hg : inGrammarFs fs = true) (hs : srcOK ph.src = true)
    (hb : bind P cfg ph.src.kind (.struct (phaseFs fs ph)) (.struct ivs) ph.src = .ok v1) :
    (∀ l0, Item.leaf l0 ∈ itemsFs ph.src.kind 0 fs → ambiguous ph.src (ph.leaf l0) = true ∨
        ∃ e ∈ (expect P cfg ph.src (.struct ivs) (ph.leaf l0)).oks, holds (.struct ivs) v1 (ph.leaf l0) e = true) ∧
    (∀ f, Item.frame f ∈ itemsFs ph.src.kind 0 fs → holdsFrame (.struct ivs) v1 f = true) ∧
    (∀ n, Item.node n ∈ itemsFs ph.src.kind 0 fs → n.depth ≤ cfg.maxDepth) := by
  unfold phaseFs at hb
  by_cases hnd : ph.noDefaults = true
  · simp only [hnd, if_true] at hb
    have hsp := lemma_bind_meets_spec P hP cfg ph.src.kind (stripFs fs) ivs ph.src
      (by rw [lemma_strip_wts']; exact hw) (by rw [lemma_strip_grammarFs']; exact hg) hs
    rw [hb] at hsp
    obtain ⟨h1, h2, h3⟩ := lemma_specOK_ok P cfg _ _ _ _ _ hsp
    rw [lemma_items_strip_fs] at h1 h2 h3
    refine ⟨?_, ?_, ?_⟩
    · intro l0 hl0
      have hty := lemma_leaf_grammar_fs ph.src.kind fs 0 l0 hg hl0
      have := h1 { l0 with dflt := [], ty := stripTy l0.ty } (List.mem_map.2 ⟨.leaf l0, hl0, rfl⟩)
      simp only [lemma_strip_leafTy l0.ty hty] at this
      simpa [Phase.leaf, hnd] using this
    · intro f hf
      have := h2 { f with ty := stripTy f.ty } (List.mem_map.2 ⟨.frame f, hf, rfl⟩)
      simpa [holdsFrame, lemma_zero_strip] using this
    · intro n hn
      exact h3 n (List.mem_map.2 ⟨.node n, hn, rfl⟩)
  · have hnd' : ph.noDefaults = false := by simpa using hnd
    simp only [hnd', Bool.false_eq_true, if_false] at hb
    have hsp := lemma_bind_meets_spec P hP cfg ph.src.kind fs ivs ph.src hw hg hs
    rw [hb] at hsp
    obtain ⟨h1, h2, h3⟩ := lemma_specOK_ok P cfg _ _ _ _ _ hsp
    refine ⟨?_, h2, h3⟩
    intro l0 hl0
    simpa [Phase.leaf, hnd'] using h1 l0 hl0


/-! ### one phase, one place -/

theorem lemma_mem_leavesOf (tag : Tag) (fs : List Fld) (l : Leaf) :
    l ∈ leavesOf tag fs ↔ Item.leaf l ∈ itemsFs tag 0 fs := by
  simp only [leavesOf, items, List.mem_filterMap]
  constructor
  · rintro ⟨x, hx, hxl⟩
    cases x with
    | leaf l0 => simp only [Option.some.injEq] at hxl; subst hxl; exact hx
    | node n => simp at hxl
    | frame f => simp at hxl
  · intro h
    exact ⟨.leaf l, h, rfl⟩

theorem lemma_place_step (P : Params) (cfg : Cfg) (fs : List Fld) (ph : Phase) (ivs : List Val) (v1 : Val)
    (h1 : ∀ l0, Item.leaf l0 ∈ itemsFs ph.src.kind 0 fs → ambiguous ph.src (ph.leaf l0) = true ∨
        ∃ e ∈ (expect P cfg ph.src (.struct ivs) (ph.leaf l0)).oks, holds (.struct ivs) v1 (ph.leaf l0) e = true)
    (h2 : ∀ f, Item.frame f ∈ itemsFs ph.src.kind 0 fs → holdsFrame (.struct ivs) v1 f = true)
    (T0 : Tag) (l : Leaf) (hl : Item.leaf l ∈ itemsFs T0 0 fs)
    (A0 : List (Option Val)) (a : Option Val) (ha : a ∈ A0)
    (hm : matchesAdm l.ty (valAt (.struct ivs) l.path) a = true) :
    (leavesOf ph.src.kind fs).any (fun l' => l'.path == l.path && ambiguous ph.src (ph.leaf l')) = true ∨
    ∃ a' ∈ stepAdm P cfg fs l.path ph A0, matchesAdm l.ty (valAt v1 l.path) a' = true := by
  unfold stepAdm
  cases hfind : (leavesOf ph.src.kind fs).find? (fun l' => l'.path == l.path) with
  | some l0 =>
    -- the place is a leaf of this phase too
    have hmem : l0 ∈ leavesOf ph.src.kind fs := List.mem_of_find?_eq_some hfind
    have hpath : l0.path = l.path := by simpa using List.find?_some hfind
    have hl0 := (lemma_mem_leavesOf _ _ _).1 hmem
    have hty : l.ty = l0.ty := lemma_samepath_fs T0 ph.src.kind fs 0 l l0 hl hl0 hpath.symm
    have hplp : (ph.leaf l0).path = l.path := by unfold Phase.leaf; split <;> exact hpath
    have hplt : (ph.leaf l0).ty = l.ty := by unfold Phase.leaf; split <;> exact hty.symm
    rcases h1 l0 hl0 with hamb | ⟨e, he, hh⟩
    · left
      simp only [List.any_eq_true, Bool.and_eq_true, beq_iff_eq]
      exact ⟨l0, hmem, hpath, hamb⟩
    · right
      simp only
      have hmap : mapOf (valAt (.struct ivs) (ph.leaf l0).path) = mapOf a := by
        rw [hplp]; exact lemma_matches_mapOf l.ty _ _ hm
      have he' : e ∈ (expectV P cfg ph.src (ph.leaf l0) (mapOf a)).oks := by
        unfold expect at he; rw [hmap] at he; exact he
      refine ⟨keepOr a e, ?_, ?_⟩
      · simp only [List.mem_flatMap, List.mem_map]
        refine ⟨a, ha, e, ?_, by cases e <;> rfl⟩
        split
        · rename_i hemp
          simp only [Bool.and_eq_true] at hemp
          cases hoks : (expectV P cfg ph.src (ph.leaf l0) (mapOf a)).oks with
          | nil => rw [hoks] at he'; cases he'
          | cons _ _ => rw [hoks] at hemp; simp at hemp
        · exact he'
      · have := lemma_matches_step (ph.leaf l0) (.struct ivs) v1 a e (by rw [hplp, hplt]; exact hm) hh
        rw [hplp, hplt] at this
        exact this
  | none =>
    -- no leaf of this phase at the place: it lies in (or is) a field the phase does not bind
    right
    simp only
    refine ⟨a, ha, ?_⟩
    have hnone : ∀ l' ∈ leavesOf ph.src.kind fs, ¬ l'.path = l.path := by
      intro l' hl'
      have := List.find?_eq_none.1 hfind l' hl'
      simpa using this
    rcases lemma_cover_fs T0 ph.src.kind fs 0 l hl with ⟨l', hl', hp, _⟩ | ⟨f, r, hf, hp, hz⟩
    · exact absurd hp (hnone l' ((lemma_mem_leavesOf _ _ _).2 hl'))
    · have hfr := h2 f hf
      unfold holdsFrame at hfr
      rw [hp, lemma_valAt_append] at hm ⊢
      cases hc : valAt v1 f.path with
      | none =>
        cases hw0 : valAt (.struct ivs) f.path with
        | none => rw [hw0] at hm; simpa using hm
        | some w => simp [hc, hw0] at hfr
      | some c =>
        cases hw0 : valAt (.struct ivs) f.path with
        | some w =>
          simp only [hc, hw0, beq_iff_eq] at hfr
          rw [hw0] at hm
          simp only [hfr]
          exact hm
        | none =>
          simp only [hc, hw0, beq_iff_eq] at hfr
          rw [hw0] at hm
          simp only at hm ⊢
          have ha' : a = none := by
            cases a with
            | none => rfl
            | some x => simp [matchesAdm] at hm
          subst ha'
          rw [hfr]
          rcases hz with hz | hz
          · rw [hz]; simp [matchesAdm]
          · rw [hz]; simp [matchesAdm]


/-! ### a path determines the type of the place (leaves and frames, across tags) -/

theorem lemma_leafItems_pathTy (A : Tag) (k : Nat) (h : FieldHdr) (t : Ty) (x : Item) (pt : List Nat × Ty)
    (hx : x ∈ leafItems A k h t) (hpt : x.pathTy = some pt) : pt = ([k], t) := by
  unfold leafItems at hx
  split at hx
  · simp only [List.mem_singleton] at hx; subst hx; simpa [Item.pathTy] using hpt.symm
  · split at hx
    · simp only [List.mem_singleton] at hx; subst hx; simpa [Item.pathTy] using hpt.symm
    · simp only [List.mem_singleton] at hx; subst hx; simpa [Item.pathTy, leafAt] using hpt.symm

theorem lemma_nested_pathTy (A : Tag) (k : Nat) (h : FieldHdr) (t : Ty) (sub : List Fld) (x : Item) (pt : List Nat × Ty)
    (hx : x ∈ nestedItems A k h t sub) (hpt : x.pathTy = some pt) :
    pt = ([k], t) ∨ ∃ y ∈ itemsFs A 0 sub, ∃ pt0, y.pathTy = some pt0 ∧ pt = (k :: pt0.1, pt0.2) := by
  unfold nestedItems at hx
  split at hx
  · simp only [List.mem_singleton] at hx; subst hx
    left; simpa [Item.pathTy] using hpt.symm
  · simp only [List.mem_cons, List.mem_map] at hx
    rcases hx with rfl | ⟨y, hy, rfl⟩
    · simp [Item.pathTy] at hpt
    · right
      rw [lemma_pathTy_below] at hpt
      cases hyp : y.pathTy with
      | none => simp [hyp] at hpt
      | some pt0 =>
        simp only [hyp, Option.map_some, Option.some.injEq] at hpt
        exact ⟨y, hy, pt0, hyp, hpt.symm⟩

mutual
theorem lemma_sameplace_fld (A B : Tag) (k : Nat) (h : FieldHdr) :
    ∀ (t : Ty) (x y : Item) (p : List Nat) (t1 t2 : Ty), x ∈ itemsFld A k h t → y ∈ itemsFld B k h t →
      x.pathTy = some (p, t1) → y.pathTy = some (p, t2) → t1 = t2
  | .struct sub, x, y, p, t1, t2, hx, hy, hpx, hpy => by
    by_cases hex : h.exported = true
    · by_cases han : h.anon = true
      · rw [(lemma_itemsFld_embedded A k h sub hex han).1] at hx
        rw [(lemma_itemsFld_embedded B k h sub hex han).1] at hy
        simp only [List.mem_map] at hx hy
        obtain ⟨x0, hx0, rfl⟩ := hx
        obtain ⟨y0, hy0, rfl⟩ := hy
        rw [lemma_pathTy_under] at hpx hpy
        cases hxp : x0.pathTy with
        | none => simp [hxp] at hpx
        | some px =>
          cases hyp : y0.pathTy with
          | none => simp [hyp] at hpy
          | some py =>
            simp only [hxp, hyp, Option.map_some, Option.some.injEq, Prod.mk.injEq] at hpx hpy
            have hq : px.1 = py.1 := by
              have := hpx.1.trans hpy.1.symm
              simpa using this
            rw [← hpx.2, ← hpy.2]
            exact lemma_sameplace_fs A B sub 0 x0 y0 px.1 px.2 py.2 hx0 hy0 (by simp [hxp]) (by simp [hyp, hq])
      · have han' : h.anon = false := by simpa using han
        rw [(lemma_itemsFld_nested A k h sub hex han').1] at hx
        rw [(lemma_itemsFld_nested B k h sub hex han').1] at hy
        rcases lemma_nested_pathTy A k h _ sub x _ hx hpx with h1 | ⟨x0, hx0, px, hxp, h1⟩ <;>
        rcases lemma_nested_pathTy B k h _ sub y _ hy hpy with h2 | ⟨y0, hy0, py, hyp, h2⟩
        · simp only [Prod.mk.injEq] at h1 h2; rw [h1.2, h2.2]
        · simp only [Prod.mk.injEq] at h1 h2
          obtain ⟨a, r, hne⟩ := (lemma_items_paths B sub y0 hy0 py hyp).1
          rw [h1.1, hne] at h2; simp at h2
        · simp only [Prod.mk.injEq] at h1 h2
          obtain ⟨a, r, hne⟩ := (lemma_items_paths A sub x0 hx0 px hxp).1
          rw [h2.1, hne] at h1; simp at h1
        · simp only [Prod.mk.injEq] at h1 h2
          have hq : px.1 = py.1 := by
            have := h1.1.symm.trans h2.1
            simpa using this
          rw [h1.2, h2.2]
          exact lemma_sameplace_fs A B sub 0 x0 y0 px.1 px.2 py.2 hx0 hy0 (by simp [hxp]) (by simp [hyp, hq])
    · have hex' : h.exported = false := by simpa using hex
      rw [lemma_itemsFld_unexported A k h _ hex'] at hx
      rw [lemma_itemsFld_unexported B k h _ hex'] at hy
      simp only [List.mem_singleton] at hx hy
      subst hx; subst hy
      simp only [Item.pathTy, Option.some.injEq, Prod.mk.injEq] at hpx hpy
      rw [← hpx.2, ← hpy.2]
  | .ptr (.struct sub), x, y, p, t1, t2, hx, hy, hpx, hpy => by
    by_cases hex : h.exported = true
    · by_cases han : h.anon = true
      · rw [(lemma_itemsFld_embedded A k h sub hex han).2] at hx
        rw [(lemma_itemsFld_embedded B k h sub hex han).2] at hy
        simp only [List.mem_map] at hx hy
        obtain ⟨x0, hx0, rfl⟩ := hx
        obtain ⟨y0, hy0, rfl⟩ := hy
        rw [lemma_pathTy_under] at hpx hpy
        cases hxp : x0.pathTy with
        | none => simp [hxp] at hpx
        | some px =>
          cases hyp : y0.pathTy with
          | none => simp [hyp] at hpy
          | some py =>
            simp only [hxp, hyp, Option.map_some, Option.some.injEq, Prod.mk.injEq] at hpx hpy
            have hq : px.1 = py.1 := by
              have := hpx.1.trans hpy.1.symm
              simpa using this
            rw [← hpx.2, ← hpy.2]
            exact lemma_sameplace_fs A B sub 0 x0 y0 px.1 px.2 py.2 hx0 hy0 (by simp [hxp]) (by simp [hyp, hq])
      · have han' : h.anon = false := by simpa using han
        rw [(lemma_itemsFld_nested A k h sub hex han').2] at hx
        rw [(lemma_itemsFld_nested B k h sub hex han').2] at hy
        rcases lemma_nested_pathTy A k h _ sub x _ hx hpx with h1 | ⟨x0, hx0, px, hxp, h1⟩ <;>
        rcases lemma_nested_pathTy B k h _ sub y _ hy hpy with h2 | ⟨y0, hy0, py, hyp, h2⟩
        · simp only [Prod.mk.injEq] at h1 h2; rw [h1.2, h2.2]
        · simp only [Prod.mk.injEq] at h1 h2
          obtain ⟨a, r, hne⟩ := (lemma_items_paths B sub y0 hy0 py hyp).1
          rw [h1.1, hne] at h2; simp at h2
        · simp only [Prod.mk.injEq] at h1 h2
          obtain ⟨a, r, hne⟩ := (lemma_items_paths A sub x0 hx0 px hxp).1
          rw [h2.1, hne] at h1; simp at h1
        · simp only [Prod.mk.injEq] at h1 h2
          have hq : px.1 = py.1 := by
            have := h1.1.symm.trans h2.1
            simpa using this
          rw [h1.2, h2.2]
          exact lemma_sameplace_fs A B sub 0 x0 y0 px.1 px.2 py.2 hx0 hy0 (by simp [hxp]) (by simp [hyp, hq])
    · have hex' : h.exported = false := by simpa using hex
      rw [lemma_itemsFld_unexported A k h _ hex'] at hx
      rw [lemma_itemsFld_unexported B k h _ hex'] at hy
      simp only [List.mem_singleton] at hx hy
      subst hx; subst hy
      simp only [Item.pathTy, Option.some.injEq, Prod.mk.injEq] at hpx hpy
      rw [← hpx.2, ← hpy.2]
  | .prim q, x, y, p, t1, t2, hx, hy, hpx, hpy => by
    rw [lemma_itemsFld_leaf A k h _ (by simp [structFields?])] at hx
    rw [lemma_itemsFld_leaf B k h _ (by simp [structFields?])] at hy
    have h1 := lemma_leafItems_pathTy A k h _ x _ hx hpx
    have h2 := lemma_leafItems_pathTy B k h _ y _ hy hpy
    simp only [Prod.mk.injEq] at h1 h2
    rw [h1.2, h2.2]
  | .slice e, x, y, p, t1, t2, hx, hy, hpx, hpy => by
    rw [lemma_itemsFld_leaf A k h _ (by simp [structFields?])] at hx
    rw [lemma_itemsFld_leaf B k h _ (by simp [structFields?])] at hy
    have h1 := lemma_leafItems_pathTy A k h _ x _ hx hpx
    have h2 := lemma_leafItems_pathTy B k h _ y _ hy hpy
    simp only [Prod.mk.injEq] at h1 h2
    rw [h1.2, h2.2]
  | .map e, x, y, p, t1, t2, hx, hy, hpx, hpy => by
    rw [lemma_itemsFld_leaf A k h _ (by simp [structFields?])] at hx
    rw [lemma_itemsFld_leaf B k h _ (by simp [structFields?])] at hy
    have h1 := lemma_leafItems_pathTy A k h _ x _ hx hpx
    have h2 := lemma_leafItems_pathTy B k h _ y _ hy hpy
    simp only [Prod.mk.injEq] at h1 h2
    rw [h1.2, h2.2]
  | .ptr (.prim q), x, y, p, t1, t2, hx, hy, hpx, hpy => by
    rw [lemma_itemsFld_leaf A k h _ (by simp [structFields?])] at hx
    rw [lemma_itemsFld_leaf B k h _ (by simp [structFields?])] at hy
    have h1 := lemma_leafItems_pathTy A k h _ x _ hx hpx
    have h2 := lemma_leafItems_pathTy B k h _ y _ hy hpy
    simp only [Prod.mk.injEq] at h1 h2
    rw [h1.2, h2.2]
  | .ptr (.ptr e), x, y, p, t1, t2, hx, hy, hpx, hpy => by
    rw [lemma_itemsFld_leaf A k h _ (by simp [structFields?])] at hx
    rw [lemma_itemsFld_leaf B k h _ (by simp [structFields?])] at hy
    have h1 := lemma_leafItems_pathTy A k h _ x _ hx hpx
    have h2 := lemma_leafItems_pathTy B k h _ y _ hy hpy
    simp only [Prod.mk.injEq] at h1 h2
    rw [h1.2, h2.2]
  | .ptr (.slice e), x, y, p, t1, t2, hx, hy, hpx, hpy => by
    rw [lemma_itemsFld_leaf A k h _ (by simp [structFields?])] at hx
    rw [lemma_itemsFld_leaf B k h _ (by simp [structFields?])] at hy
    have h1 := lemma_leafItems_pathTy A k h _ x _ hx hpx
    have h2 := lemma_leafItems_pathTy B k h _ y _ hy hpy
    simp only [Prod.mk.injEq] at h1 h2
    rw [h1.2, h2.2]
  | .ptr (.map e), x, y, p, t1, t2, hx, hy, hpx, hpy => by
    rw [lemma_itemsFld_leaf A k h _ (by simp [structFields?])] at hx
    rw [lemma_itemsFld_leaf B k h _ (by simp [structFields?])] at hy
    have h1 := lemma_leafItems_pathTy A k h _ x _ hx hpx
    have h2 := lemma_leafItems_pathTy B k h _ y _ hy hpy
    simp only [Prod.mk.injEq] at h1 h2
    rw [h1.2, h2.2]
theorem lemma_sameplace_fs (A B : Tag) :
    ∀ (fs : List Fld) (i : Nat) (x y : Item) (p : List Nat) (t1 t2 : Ty), x ∈ itemsFs A i fs → y ∈ itemsFs B i fs →
      x.pathTy = some (p, t1) → y.pathTy = some (p, t2) → t1 = t2
  | [], i, x, y, p, t1, t2, hx, _, _, _ => by simp [itemsFs] at hx
  | (h, t) :: rest, i, x, y, p, t1, t2, hx, hy, hpx, hpy => by
    simp only [itemsFs, List.mem_append] at hx hy
    rcases hx with hx | hx <;> rcases hy with hy | hy
    · exact lemma_sameplace_fld A B i h t x y p t1 t2 hx hy hpx hpy
    · obtain ⟨q, hq, _⟩ := lemma_zero_fld A i h t x hx _ hpx
      obtain ⟨j, q', hq'⟩ := lemma_items_head B rest (i+1) y hy _ hpy
      simp only at hq hq'
      rw [hq] at hq'
      simp only [List.cons.injEq] at hq'
      omega
    · obtain ⟨q, hq, _⟩ := lemma_zero_fld B i h t y hy _ hpy
      obtain ⟨j, q', hq'⟩ := lemma_items_head A rest (i+1) x hx _ hpx
      simp only at hq hq'
      rw [hq] at hq'
      simp only [List.cons.injEq] at hq'
      omega
    · exact lemma_sameplace_fs A B rest (i+1) x y p t1 t2 hx hy hpx hpy
end


/-! ### the run over the phases -/

theorem lemma_holdsFrame_eq (init v : Val) (f f' : Frame) (hp : f'.path = f.path) (hz : zero f'.ty = zero f.ty) :
    holdsFrame init v f' = holdsFrame init v f := by
  unfold holdsFrame
  rw [hp, hz]

theorem lemma_holdsFrame_refl (v : Val) (f : Frame) : holdsFrame v v f = true := by
  unfold holdsFrame
  cases valAt v f.path <;> simp

theorem lemma_holdsFrame_trans (v0 v1 v2 : Val) (f : Frame) (h1 : holdsFrame v0 v1 f = true) (h2 : holdsFrame v1 v2 f = true) :
    holdsFrame v0 v2 f = true := by
  unfold holdsFrame at *
  cases h0 : valAt v0 f.path <;> cases hv1 : valAt v1 f.path <;> cases hv2 : valAt v2 f.path <;>
    simp_all

/-- the error of a phase is admitted by the oracle for that phase (whatever the destination held) -/
def PhaseErr (P : Params) (cfg : Cfg) (fs : List Fld) (ph : Phase) (e : Err) : Prop :=
  ∃ ivs' : List Val, e ∈ causes P cfg ph.src.kind (phaseFs fs ph) (.struct ivs') ph.src

theorem lemma_run (P : Params) (hP : FloatSane P) (cfg : Cfg) (fs : List Fld) (hg : inGrammarFs fs = true) :
    ∀ (phs : List Phase), (∀ ph ∈ phs, srcOK ph.src = true) → ∀ ivs : List Val, wts fs ivs = true →
    match runPhases P cfg fs phs (.struct ivs) with
    | .ok v =>
      (∀ ph ∈ phs, ∀ n, Item.node n ∈ itemsFs ph.src.kind 0 fs → n.depth ≤ cfg.maxDepth) ∧
      (∀ (T0 : Tag) (l : Leaf), Item.leaf l ∈ itemsFs T0 0 fs → ∀ (A0 : List (Option Val)) (a : Option Val), a ∈ A0 →
        matchesAdm l.ty (valAt (.struct ivs) l.path) a = true →
        phs.any (fun ph => (leavesOf ph.src.kind fs).any (fun l' => l'.path == l.path && ambiguous ph.src (ph.leaf l'))) = true ∨
        ∃ a' ∈ phs.foldl (fun A ph => stepAdm P cfg fs l.path ph A) A0, matchesAdm l.ty (valAt v l.path) a' = true) ∧
      (∀ f : Frame, (∀ ph ∈ phs, ∃ f', Item.frame f' ∈ itemsFs ph.src.kind 0 fs ∧ f'.path = f.path ∧ zero f'.ty = zero f.ty) →
        holdsFrame (.struct ivs) v f = true)
    | .err e => ∃ ph ∈ phs, PhaseErr P cfg fs ph e
    | .panic => False
  | [], _, ivs, _ => by
    simp only [runPhases]
    refine ⟨by simp, ?_, fun f _ => lemma_holdsFrame_refl _ f⟩
    intro T0 l _ A0 a ha hm
    right
    exact ⟨a, by simpa using ha, hm⟩
  | ph :: rest, hs, ivs, hw => by
    have hsph : srcOK ph.src = true := hs ph (by simp)
    have hwp : wts (phaseFs fs ph) ivs = true := by
      unfold phaseFs; split
      · rw [lemma_strip_wts']; exact hw
      · exact hw
    have hgp : inGrammarFs (phaseFs fs ph) = true := by
      unfold phaseFs; split
      · rw [lemma_strip_grammarFs']; exact hg
      · exact hg
    simp only [runPhases]
    cases hb : bind P cfg ph.src.kind (.struct (phaseFs fs ph)) (.struct ivs) ph.src with
    | panic =>
      have hsp := lemma_bind_meets_spec P hP cfg ph.src.kind (phaseFs fs ph) ivs ph.src hwp hgp hsph
      rw [hb] at hsp
      simp [toObs, specOK] at hsp
    | err e =>
      have hsp := lemma_bind_meets_spec P hP cfg ph.src.kind (phaseFs fs ph) ivs ph.src hwp hgp hsph
      rw [hb] at hsp
      simp only [toObs, specOK, List.contains_iff_mem] at hsp
      exact ⟨ph, by simp, ivs, by simpa using hsp⟩
    | ok v1 =>
      simp only
      -- the intermediate value is well typed
      have hty := lemma_bindAt_typed P cfg ph.src.kind cfg.maxDepth (phaseFs fs ph) ivs { src := ph.src } 0 v1 hwp hgp
        (by simpa [Rivaas.Bind.bind] using hb)
      obtain ⟨rvs, hv1, hwr⟩ : ∃ rvs, v1 = .struct rvs ∧ wts fs rvs = true := by
        cases v1 with
        | struct rvs =>
          refine ⟨rvs, rfl, ?_⟩
          have : wts (phaseFs fs ph) rvs = true := by simpa [wt] using hty
          unfold phaseFs at this
          split at this
          · rw [lemma_strip_wts'] at this; exact this
          · exact this
        | _ => simp [wt] at hty
      subst hv1
      obtain ⟨f1, f2, f3⟩ := lemma_phase_facts P hP cfg fs ph ivs (.struct rvs) hw hg hsph hb
      have ih := lemma_run P hP cfg fs hg rest (fun p hp => hs p (by simp [hp])) rvs hwr
      cases hr : runPhases P cfg fs rest (.struct rvs) with
      | panic => rw [hr] at ih; exact ih
      | err e =>
        rw [hr] at ih
        obtain ⟨p, hp, he⟩ := ih
        exact ⟨p, by simp [hp], he⟩
      | ok v =>
        rw [hr] at ih
        obtain ⟨i1, i2, i3⟩ := ih
        refine ⟨?_, ?_, ?_⟩
        · intro p hp n hn
          simp only [List.mem_cons] at hp
          rcases hp with rfl | hp
          · exact f3 n hn
          · exact i1 p hp n hn
        · intro T0 l hl A0 a ha hm
          simp only [List.any_cons, List.foldl_cons, Bool.or_eq_true]
          rcases lemma_place_step P cfg fs ph ivs (.struct rvs) f1 f2 T0 l hl A0 a ha hm with hamb | ⟨a1, ha1, hm1⟩
          · exact Or.inl (Or.inl hamb)
          · rcases i2 T0 l hl _ a1 ha1 hm1 with hamb | hres
            · exact Or.inl (Or.inr hamb)
            · exact Or.inr hres
        · intro f hf
          obtain ⟨f', hf', hp, hz⟩ := hf ph (by simp)
          have h01 : holdsFrame (.struct ivs) (.struct rvs) f = true := by
            rw [← lemma_holdsFrame_eq _ _ f f' hp hz]; exact f2 f' hf'
          exact lemma_holdsFrame_trans _ _ _ f h01 (i3 f (fun p hp' => hf p (by simp [hp'])))


/-! ### assembly -/

theorem lemma_expectV_errs (P : Params) (cfg : Cfg) (s : Src) (l : Leaf) (m0 m0' : List (Bytes × Val)) :
    (expectV P cfg s l m0).errs = (expectV P cfg s l m0').errs := by
  unfold expectV
  split <;> try rfl
  all_goals
    rename_i v _
    cases v <;> rfl

theorem lemma_mem_nodesOf (tag : Tag) (fs : List Fld) (n : Node) :
    n ∈ nodesOf tag fs ↔ Item.node n ∈ itemsFs tag 0 fs := by
  simp only [nodesOf, items, List.mem_filterMap]
  constructor
  · rintro ⟨x, hx, hxl⟩
    cases x with
    | node n0 => simp only [Option.some.injEq] at hxl; subst hxl; exact hx
    | leaf l => simp at hxl
    | frame f => simp at hxl
  · intro h
    exact ⟨.node n, h, rfl⟩

theorem lemma_mem_framesOf (tag : Tag) (fs : List Fld) (f : Frame) :
    f ∈ framesOf tag fs ↔ Item.frame f ∈ itemsFs tag 0 fs := by
  simp only [framesOf, items, List.mem_filterMap]
  constructor
  · rintro ⟨x, hx, hxl⟩
    cases x with
    | frame f0 => simp only [Option.some.injEq] at hxl; subst hxl; exact hx
    | leaf l => simp at hxl
    | node n => simp at hxl
  · intro h
    exact ⟨.frame f, h, rfl⟩

/-- an error of a phase, read on the items of the original type -/
theorem lemma_phase_err (P : Params) (cfg : Cfg) (fs : List Fld) (hg : inGrammarFs fs = true) (ph : Phase) (init : Val) (e : Err)
    (h : PhaseErr P cfg fs ph e) :
    e ∈ ((leavesOf ph.src.kind fs).flatMap fun l0 =>
        ((expect P cfg ph.src init (ph.leaf l0)).errs ++
          (if ambiguous ph.src (ph.leaf l0) then [Err.conv, Err.sliceLen, Err.mapSize] else [])).map (wrapErr (ph.leaf l0).names)) ++
      ((nodesOf ph.src.kind fs).filter (fun n => cfg.maxDepth < n.depth)).map (fun n => wrapErr n.names .depth) := by
  obtain ⟨ivs', he⟩ := h
  unfold causes at he
  simp only [List.mem_append, List.mem_flatMap, List.mem_map, List.mem_filter] at he ⊢
  rcases he with ⟨l, hl, c, hc, hce⟩ | ⟨n, ⟨hn, hd⟩, hne⟩
  · left
    -- the leaf of the phase's type is the phase's reading of a leaf of the original type
    have hl' := (lemma_mem_leavesOf _ _ _).1 hl
    unfold phaseFs at hl'
    by_cases hnd : ph.noDefaults = true
    · simp only [hnd, if_true] at hl'
      rw [lemma_items_strip_fs] at hl'
      simp only [List.mem_map] at hl'
      obtain ⟨x, hx, hxl⟩ := hl'
      cases x with
      | node n => simp [stripItem] at hxl
      | frame f => simp [stripItem] at hxl
      | leaf l0 =>
        simp only [stripItem, Item.leaf.injEq] at hxl
        have hty := lemma_leaf_grammar_fs ph.src.kind fs 0 l0 hg hx
        rw [lemma_strip_leafTy l0.ty hty] at hxl
        have hpl : ph.leaf l0 = l := by simp [Phase.leaf, hnd, hxl]
        refine ⟨l0, (lemma_mem_leavesOf _ _ _).2 hx, c, ?_, by rw [hpl]; exact hce⟩
        rw [hpl]
        unfold expect at hc ⊢
        rw [lemma_expectV_errs P cfg ph.src l _ (mapOf (valAt (.struct ivs') l.path))]
        exact hc
    · have hnd' : ph.noDefaults = false := by simpa using hnd
      simp only [hnd', Bool.false_eq_true, if_false] at hl'
      have hpl : ph.leaf l = l := by simp [Phase.leaf, hnd']
      refine ⟨l, (lemma_mem_leavesOf _ _ _).2 hl', c, ?_, by rw [hpl]; exact hce⟩
      rw [hpl]
      unfold expect at hc ⊢
      rw [lemma_expectV_errs P cfg ph.src l _ (mapOf (valAt (.struct ivs') l.path))]
      exact hc
  · right
    have hn' := (lemma_mem_nodesOf _ _ _).1 hn
    unfold phaseFs at hn'
    refine ⟨n, ⟨(lemma_mem_nodesOf _ _ _).2 ?_, hd⟩, hne⟩
    by_cases hnd : ph.noDefaults = true
    · simp only [hnd, if_true] at hn'
      rw [lemma_items_strip_fs] at hn'
      simp only [List.mem_map] at hn'
      obtain ⟨x, hx, hxl⟩ := hn'
      cases x with
      | leaf l => simp [stripItem] at hxl
      | frame f => simp [stripItem] at hxl
      | node n0 => simp only [stripItem, Item.node.injEq] at hxl; subst hxl; exact hx
    · have hnd' : ph.noDefaults = false := by simpa using hnd
      simpa [hnd'] using hn'

theorem lemma_phases_srcOK (fs : List Fld) (srcs : List Src) (hs : ∀ s ∈ srcs, srcOK s = true) :
    ∀ ph ∈ phasesOf fs srcs, srcOK ph.src = true := by
  have hempty : ∀ s : Src, srcOK { s with kvs := [] } = true := by
    intro s
    simp only [srcOK, List.all_nil, Bool.true_and]
    cases s.kind <;> rfl
  intro ph hph
  unfold phasesOf at hph
  simp only at hph
  split at hph
  · simp only [List.mem_map, List.mem_filter] at hph
    obtain ⟨s, ⟨hsm, _⟩, rfl⟩ := hph
    exact hs s hsm
  · simp only [List.mem_append, List.mem_map, List.mem_filter] at hph
    rcases hph with ⟨s, ⟨hsm, _⟩, rfl⟩ | ⟨s, ⟨hsm, _⟩, rfl⟩
    · exact hempty s
    · exact hs s hsm

/-- **C04, several sources.** What `bindMultiSource` returns — for any list of sources in any
    order, any type of the grammar, any well-typed destination — is admitted by the folded oracle:
    leaf by leaf the value of the last source that holds the key, else the default, else what was
    there; fields no source binds untouched; errors name the field; never a panic. -/
theorem lemma_bindMulti_meets_spec (P : Params) (hP : FloatSane P) (cfg : Cfg) (fs : List Fld) (ivs : List Val)
    (srcs : List Src) (hw : wts fs ivs = true) (hg : inGrammarFs fs = true) (hs : ∀ s ∈ srcs, srcOK s = true) :
    specMulti P cfg fs (.struct ivs) srcs (toObs (bindMulti P cfg fs (.struct ivs) srcs)) = true := by
  rw [lemma_bindMulti_phases]
  by_cases he : srcs.isEmpty = true
  · simp [he, toObs, specMulti]
  · have he' : srcs.isEmpty = false := by simpa using he
    simp only [he', Bool.false_eq_true, if_false]
    have hrun := lemma_run P hP cfg fs hg (phasesOf fs srcs) (lemma_phases_srcOK fs srcs hs) ivs hw
    cases hr : runPhases P cfg fs (phasesOf fs srcs) (.struct ivs) with
    | panic => rw [hr] at hrun; exact absurd hrun (by simp)
    | err e =>
      rw [hr] at hrun
      obtain ⟨ph, hph, hpe⟩ := hrun
      simp only [toObs, specMulti, he', Bool.false_and, Bool.false_or, List.contains_iff_mem, multiCauses,
        List.mem_flatMap]
      exact ⟨ph, hph, lemma_phase_err P cfg fs hg ph (.struct ivs) e hpe⟩
    | ok v =>
      rw [hr] at hrun
      obtain ⟨r1, r2, r3⟩ := hrun
      simp only [toObs, specMulti, he', Bool.not_false, Bool.true_and, Bool.and_eq_true, List.all_eq_true,
        decide_eq_true_eq, List.mem_flatMap, List.mem_map, Bool.or_eq_true]
      refine ⟨⟨?_, ?_⟩, ?_⟩
      · intro ph hph n hn
        exact r1 ph hph n ((lemma_mem_nodesOf _ _ _).1 hn)
      · rintro pt ⟨ph, hph, l, hl, rfl⟩
        have hl' := (lemma_mem_leavesOf _ _ _).1 hl
        rcases r2 ph.src.kind l hl' [valAt (.struct ivs) l.path] _ (by simp) (lemma_matches_refl l.ty _) with h | ⟨a', ha', hm⟩
        · exact Or.inl h
        · right
          simp only [List.any_eq_true]
          exact ⟨a', ha', hm⟩
      · cases hphs : phasesOf fs srcs with
        | nil =>
          rw [hphs] at hr
          simp only [runPhases, Outcome.ok.injEq] at hr
          subst hr
          exact (lemma_val_beq_eq _ _).2 rfl
        | cons ph0 rest =>
          simp only [List.all_eq_true, List.mem_filter, List.any_eq_true, beq_iff_eq]
          rintro f ⟨hf0, hfr⟩
          have hf0' := (lemma_mem_framesOf _ _ _).1 hf0
          apply r3 f
          intro ph hph
          rw [hphs] at hph
          simp only [List.mem_cons] at hph
          rcases hph with rfl | hph
          · exact ⟨f, hf0', rfl, rfl⟩
          · obtain ⟨f', hf', hp⟩ := hfr ph hph
            have hf'' := (lemma_mem_framesOf _ _ _).1 hf'
            have hty : f'.ty = f.ty :=
              lemma_sameplace_fs ph.src.kind ph0.src.kind fs 0 (.frame f') (.frame f) f.path f'.ty f.ty hf'' hf0'
                (by simp [Item.pathTy, hp]) (by simp [Item.pathTy])
            exact ⟨f', hf'', hp, by rw [hty]⟩

end Rivaas.Bind
