import Rivaas.Model.Bind
import Rivaas.Model.BindObs
import Rivaas.Spec.Bind
import Rivaas.Lemmas.BindVal
import Rivaas.Lemmas.BindItems
import Rivaas.Lemmas.BindSound
import Rivaas.Lemmas.BindTyped
import Rivaas.Lemmas.BindMain
import Rivaas.Lemmas.BindMulti
/-
C04, several sources: `bindMulti` meets the folded oracle `Spec.specMulti`.
-/
set_option linter.unusedSimpArgs false
set_option linter.unusedVariables false
namespace Rivaas.Bind
open Spec

/-! ### the stripped type: same shape, same zero values, same grammar -/

theorem lemma_strip_leafTy (t : Ty) (h : leafTy t = true) : stripTy t = t := by
  cases t with
  | prim p => rfl
  | slice e => rfl
  | map e => rfl
  | struct fs => simp [leafTy] at h
  | ptr e =>
    cases e with
    | prim p => rfl
    | slice e' => rfl
    | map e' => rfl
    | struct fs => simp [leafTy] at h
    | ptr e' => simp [leafTy] at h

mutual
theorem lemma_zero_strip : ∀ t : Ty, zero (stripTy t) = zero t
  | .struct fs => by simp only [stripTy, zero, lemma_zeroFs_strip fs]
  | .ptr t => by simp [stripTy, zero]
  | .slice t => by simp [stripTy, zero]
  | .map t => by simp [stripTy, zero]
  | .prim p => by simp [stripTy]
theorem lemma_zeroFs_strip : ∀ fs : List Fld, zeroFs (stripFs fs) = zeroFs fs
  | [] => rfl
  | (h, t) :: rest => by simp only [stripFs, zeroFs, lemma_zero_strip t, lemma_zeroFs_strip rest]
end

mutual
theorem lemma_strip_wt' : ∀ (t : Ty) (v : Val), wt (stripTy t) v = wt t v
  | .struct fs, v => by
    cases v with
    | struct vs => simp only [stripTy, wt]; exact lemma_strip_wts' fs vs
    | _ => simp [stripTy, wt]
  | .ptr t, v => by
    cases v with
    | ptr x => simp only [stripTy, wt]; exact lemma_strip_wt' t x
    | _ => simp [stripTy, wt]
  | .slice t, v => by simp [stripTy, wt]
  | .map t, v => by simp [stripTy, wt]
  | .prim p, v => by simp [stripTy, wt]
theorem lemma_strip_wts' : ∀ (fs : List Fld) (vs : List Val), wts (stripFs fs) vs = wts fs vs
  | [], vs => by cases vs <;> simp [stripFs, wts]
  | (h, t) :: rest, [] => by simp [stripFs, wts]
  | (h, t) :: rest, v :: vs => by simp [stripFs, wts, lemma_strip_wt' t v, lemma_strip_wts' rest vs]
end

mutual
theorem lemma_strip_grammar' : ∀ t : Ty, inGrammar (stripTy t) = inGrammar t
  | .struct fs => by simp only [stripTy, inGrammar]; exact lemma_strip_grammarFs' fs
  | .ptr (.struct fs) => by simp only [stripTy, inGrammar]; exact lemma_strip_grammarFs' fs
  | .ptr (.prim p) => by simp [stripTy, inGrammar, leafTy]
  | .ptr (.ptr t) => by simp [stripTy, inGrammar, leafTy]
  | .ptr (.slice t) => by simp [stripTy, inGrammar, leafTy]
  | .ptr (.map t) => by simp [stripTy, inGrammar, leafTy]
  | .slice t => by simp [stripTy, inGrammar, leafTy]
  | .map t => by simp [stripTy, inGrammar, leafTy]
  | .prim p => by simp [stripTy, inGrammar, leafTy]
theorem lemma_strip_grammarFs' : ∀ fs : List Fld, inGrammarFs (stripFs fs) = inGrammarFs fs
  | [] => by simp [stripFs, inGrammarFs]
  | (h, t) :: rest => by simp [stripFs, inGrammarFs, lemma_strip_grammar' t, lemma_strip_grammarFs' rest]
end

/-- leaves of a type of the grammar have leaf types -/
theorem lemma_leafItems_grammar (tag : Tag) (k : Nat) (h : FieldHdr) (t : Ty) (hg : leafTy t = true) (l : Leaf)
    (hl : Item.leaf l ∈ leafItems tag k h t) : leafTy l.ty = true := by
  rw [lemma_leafItems_ty tag k h t l hl]; exact hg

mutual
theorem lemma_leaf_grammar_fld (tag : Tag) (k : Nat) (h : FieldHdr) :
    ∀ (t : Ty) (l : Leaf), inGrammar t = true → Item.leaf l ∈ itemsFld tag k h t → leafTy l.ty = true
  | .struct sub, l, hg, hl => by
    have hgs : inGrammarFs sub = true := by simpa [inGrammar] using hg
    by_cases hex : h.exported = true
    · by_cases han : h.anon = true
      · rw [(lemma_itemsFld_embedded tag k h sub hex han).1] at hl
        simp only [List.mem_map] at hl
        obtain ⟨x, hx, hxl⟩ := hl
        cases x with
        | node n => simp [Item.under] at hxl
        | frame f => simp [Item.under] at hxl
        | leaf l0 =>
          simp only [Item.under, Item.leaf.injEq] at hxl
          subst hxl
          exact lemma_leaf_grammar_fs tag sub 0 l0 hgs hx
      · have han' : h.anon = false := by simpa using han
        rw [(lemma_itemsFld_nested tag k h sub hex han').1] at hl
        unfold nestedItems at hl
        split at hl
        · simp at hl
        · simp only [List.mem_cons, reduceCtorEq, false_or, List.mem_map] at hl
          obtain ⟨x, hx, hxl⟩ := hl
          cases x with
          | node n => simp [Item.below] at hxl
          | frame f => simp [Item.below] at hxl
          | leaf l0 =>
            simp only [Item.below, Item.leaf.injEq] at hxl
            subst hxl
            exact lemma_leaf_grammar_fs tag sub 0 l0 hgs hx
    · have hex' : h.exported = false := by simpa using hex
      rw [lemma_itemsFld_unexported tag k h _ hex'] at hl
      simp at hl
  | .ptr (.struct sub), l, hg, hl => by
    have hgs : inGrammarFs sub = true := by simpa [inGrammar] using hg
    by_cases hex : h.exported = true
    · by_cases han : h.anon = true
      · rw [(lemma_itemsFld_embedded tag k h sub hex han).2] at hl
        simp only [List.mem_map] at hl
        obtain ⟨x, hx, hxl⟩ := hl
        cases x with
        | node n => simp [Item.under] at hxl
        | frame f => simp [Item.under] at hxl
        | leaf l0 =>
          simp only [Item.under, Item.leaf.injEq] at hxl
          subst hxl
          exact lemma_leaf_grammar_fs tag sub 0 l0 hgs hx
      · have han' : h.anon = false := by simpa using han
        rw [(lemma_itemsFld_nested tag k h sub hex han').2] at hl
        unfold nestedItems at hl
        split at hl
        · simp at hl
        · simp only [List.mem_cons, reduceCtorEq, false_or, List.mem_map] at hl
          obtain ⟨x, hx, hxl⟩ := hl
          cases x with
          | node n => simp [Item.below] at hxl
          | frame f => simp [Item.below] at hxl
          | leaf l0 =>
            simp only [Item.below, Item.leaf.injEq] at hxl
            subst hxl
            exact lemma_leaf_grammar_fs tag sub 0 l0 hgs hx
    · have hex' : h.exported = false := by simpa using hex
      rw [lemma_itemsFld_unexported tag k h _ hex'] at hl
      simp at hl
  | .prim p, l, hg, hl => by
    rw [lemma_itemsFld_leaf tag k h _ (by simp [structFields?])] at hl
    exact lemma_leafItems_grammar tag k h _ (by simpa [inGrammar] using hg) l hl
  | .slice e, l, hg, hl => by
    rw [lemma_itemsFld_leaf tag k h _ (by simp [structFields?])] at hl
    exact lemma_leafItems_grammar tag k h _ (by simpa [inGrammar] using hg) l hl
  | .map e, l, hg, hl => by
    rw [lemma_itemsFld_leaf tag k h _ (by simp [structFields?])] at hl
    exact lemma_leafItems_grammar tag k h _ (by simpa [inGrammar] using hg) l hl
  | .ptr (.prim p), l, hg, hl => by
    rw [lemma_itemsFld_leaf tag k h _ (by simp [structFields?])] at hl
    exact lemma_leafItems_grammar tag k h _ (by simpa [inGrammar] using hg) l hl
  | .ptr (.ptr e), l, hg, hl => by simp [inGrammar, leafTy] at hg
  | .ptr (.slice e), l, hg, hl => by
    rw [lemma_itemsFld_leaf tag k h _ (by simp [structFields?])] at hl
    exact lemma_leafItems_grammar tag k h _ (by simpa [inGrammar] using hg) l hl
  | .ptr (.map e), l, hg, hl => by
    rw [lemma_itemsFld_leaf tag k h _ (by simp [structFields?])] at hl
    exact lemma_leafItems_grammar tag k h _ (by simpa [inGrammar] using hg) l hl
theorem lemma_leaf_grammar_fs (tag : Tag) :
    ∀ (fs : List Fld) (i : Nat) (l : Leaf), inGrammarFs fs = true → Item.leaf l ∈ itemsFs tag i fs → leafTy l.ty = true
  | [], i, l, _, hl => by simp [itemsFs] at hl
  | (h, t) :: rest, i, l, hg, hl => by
    simp only [inGrammarFs, Bool.and_eq_true] at hg
    simp only [itemsFs, List.mem_append] at hl
    rcases hl with hl | hl
    · exact lemma_leaf_grammar_fld tag i h t l hg.1 hl
    · exact lemma_leaf_grammar_fs tag rest (i+1) l hg.2 hl
end

end Rivaas.Bind
