import Rivaas.Spec.Phases
/-
C12 — invariant of the shared state (`Core`) under every atomic operation, hence under every
schedule: where the two `Once` bodies are determines which of `pending` / `taken` / `table` hold the
accepted registrations; once `freezeOnce` is done the table holds all of them, with the constraints
their route objects carry.
-/
namespace Rivaas.Phases

structure Inv (c : Core) : Prop where
  serving_frozen : c.serving = c.frozen
  frozen_iff : c.frozen = true ↔ c.fpc ≠ .idle
  warmed_iff : c.warmedUp = true ↔ c.wpc ≠ .idle
  cold : c.warmedUp = false → c.table = [] ∧ c.regd = [] ∧ c.taken = []
  warm_pending : c.warmedUp = true → c.pending = []
  taken_nil : c.wpc ≠ .drained → c.taken = []
  objs_iff : ∀ r, r ∈ c.objs ↔ (r ∈ c.pending ∨ r ∈ c.taken ∨ r ∈ c.regd)
  regd_iff : ∀ r, r ∈ c.regd ↔ ∃ b, (r, b) ∈ c.table
  table_flag : ∀ r b, (r, b) ∈ c.table → b = c.cons.contains r
  tail_done : (c.fpc = .tail ∨ c.fpc = .done) → c.wpc = .done
  in_warmup : c.fpc = .inWarmup → c.wpc ≠ .idle ∧ c.wpc ≠ .done

theorem lemma_inv_init : Inv Core.init := by
  constructor <;> simp [Core.init]

/-! ### `registerRoute` -/

theorem lemma_reg_fields (c : Core) (r : RouteId) :
    (registerRoute c r).objs = c.objs ∧ (registerRoute c r).pending = c.pending ∧
    (registerRoute c r).taken = c.taken ∧ (registerRoute c r).cons = c.cons ∧
    (registerRoute c r).named = c.named ∧ (registerRoute c r).serving = c.serving ∧
    (registerRoute c r).frozen = c.frozen ∧ (registerRoute c r).warmedUp = c.warmedUp ∧
    (registerRoute c r).fpc = c.fpc ∧ (registerRoute c r).wpc = c.wpc := by
  unfold registerRoute
  split <;> simp

theorem lemma_reg_regd (c : Core) (r x : RouteId) :
    x ∈ (registerRoute c r).regd ↔ x = r ∨ x ∈ c.regd := by
  unfold registerRoute
  split
  · rename_i h
    have : r ∈ c.regd := by simpa using h
    constructor
    · intro hx; exact Or.inr hx
    · rintro (rfl | hx)
      · exact this
      · exact hx
  · simp

/-- the table part of the invariant: ids in the table = `regd`, flags = `cons` -/
def TableOK (c : Core) : Prop :=
  (∀ r, r ∈ c.regd ↔ ∃ b, (r, b) ∈ c.table) ∧ (∀ r b, (r, b) ∈ c.table → b = c.cons.contains r)

theorem lemma_reg_table (c : Core) (r : RouteId) (h : TableOK c) : TableOK (registerRoute c r) := by
  obtain ⟨h1, h2⟩ := h
  unfold registerRoute
  split
  · exact ⟨h1, h2⟩
  · rename_i hr
    have hr' : r ∉ c.regd := by simpa using hr
    refine ⟨?_, ?_⟩
    · intro x
      simp only [List.mem_cons, List.mem_append, List.mem_filter, List.mem_cons, List.not_mem_nil,
        or_false, Prod.mk.injEq, bne_iff_ne, ne_eq]
      constructor
      · rintro (rfl | hx)
        · exact ⟨c.cons.contains x, Or.inr ⟨rfl, rfl⟩⟩
        · obtain ⟨b, hb⟩ := (h1 x).1 hx
          have hxr : x ≠ r := fun e => hr' (e ▸ hx)
          exact ⟨b, Or.inl ⟨hb, hxr⟩⟩
      · rintro ⟨b, (⟨hb, _⟩ | ⟨rfl, _⟩)⟩
        · exact Or.inr ((h1 x).2 ⟨b, hb⟩)
        · exact Or.inl rfl
    · intro x b
      simp only [List.mem_append, List.mem_filter, List.mem_singleton, Prod.mk.injEq, bne_iff_ne, ne_eq]
      rintro (⟨hb, _⟩ | ⟨rfl, rfl⟩)
      · exact h2 x b hb
      · rfl

theorem lemma_foldl_fields (l : List RouteId) (c : Core) :
    (l.foldl registerRoute c).objs = c.objs ∧ (l.foldl registerRoute c).pending = c.pending ∧
    (l.foldl registerRoute c).taken = c.taken ∧ (l.foldl registerRoute c).cons = c.cons ∧
    (l.foldl registerRoute c).named = c.named ∧ (l.foldl registerRoute c).serving = c.serving ∧
    (l.foldl registerRoute c).frozen = c.frozen ∧ (l.foldl registerRoute c).warmedUp = c.warmedUp ∧
    (l.foldl registerRoute c).fpc = c.fpc ∧ (l.foldl registerRoute c).wpc = c.wpc := by
  induction l generalizing c with
  | nil => simp
  | cons a t ih =>
    have h1 := lemma_reg_fields c a
    have h2 := ih (registerRoute c a)
    simp only [List.foldl_cons]
    refine ⟨h2.1.trans h1.1, h2.2.1.trans h1.2.1, h2.2.2.1.trans h1.2.2.1, h2.2.2.2.1.trans h1.2.2.2.1,
      h2.2.2.2.2.1.trans h1.2.2.2.2.1, h2.2.2.2.2.2.1.trans h1.2.2.2.2.2.1,
      h2.2.2.2.2.2.2.1.trans h1.2.2.2.2.2.2.1, h2.2.2.2.2.2.2.2.1.trans h1.2.2.2.2.2.2.2.1,
      h2.2.2.2.2.2.2.2.2.1.trans h1.2.2.2.2.2.2.2.2.1, h2.2.2.2.2.2.2.2.2.2.trans h1.2.2.2.2.2.2.2.2.2⟩

theorem lemma_foldl_regd (l : List RouteId) (c : Core) (x : RouteId) :
    x ∈ (l.foldl registerRoute c).regd ↔ x ∈ l ∨ x ∈ c.regd := by
  induction l generalizing c with
  | nil => simp
  | cons a t ih =>
    simp only [List.foldl_cons, ih, lemma_reg_regd, List.mem_cons]
    constructor
    · rintro (h | h | h)
      · exact Or.inl (Or.inr h)
      · exact Or.inl (Or.inl h)
      · exact Or.inr h
    · rintro ((h | h) | h)
      · exact Or.inr (Or.inl h)
      · exact Or.inl h
      · exact Or.inr (Or.inr h)

theorem lemma_foldl_table (l : List RouteId) (c : Core) (h : TableOK c) : TableOK (l.foldl registerRoute c) := by
  induction l generalizing c with
  | nil => exact h
  | cons a t ih => exact ih _ (lemma_reg_table c a h)

/-! ### every operation preserves the invariant -/

/-- an operation that touches only flags and program positions -/
theorem lemma_inv_ctl (c : Core) (h : Inv c) (sv fr : Bool) (f : FPc) (w : WPc)
    (h1 : sv = fr) (h2 : fr = true ↔ f ≠ .idle) (h3 : c.warmedUp = true ↔ w ≠ .idle)
    (h4 : w ≠ .drained → c.taken = []) (h5 : (f = .tail ∨ f = .done) → w = .done)
    (h6 : f = .inWarmup → w ≠ .idle ∧ w ≠ .done) :
    Inv { c with serving := sv, frozen := fr, fpc := f, wpc := w } :=
  { serving_frozen := h1, frozen_iff := h2, warmed_iff := h3, cold := h.cold,
    warm_pending := h.warm_pending, taken_nil := h4, objs_iff := h.objs_iff, regd_iff := h.regd_iff,
    table_flag := h.table_flag, tail_done := h5, in_warmup := h6 }

theorem lemma_frozen_of (c : Core) (h : Inv c) (hf : c.fpc ≠ .idle) : c.frozen = true := h.frozen_iff.2 hf

theorem lemma_inv_drain (c : Core) (h : Inv c) (hw : c.wpc = .idle) (f : FPc)
    (hf : f = c.fpc ∨ (f = .inWarmup ∧ c.fpc = .flags)) : Inv { drain c with fpc := f } := by
  have hwu : c.warmedUp = false := by
    cases hwu : c.warmedUp with
    | false => rfl
    | true => exact absurd hw ((h.warmed_iff).1 hwu)
  obtain ⟨ht, hr, htk⟩ := h.cold hwu
  have hfro : c.frozen = true ↔ f ≠ .idle := by
    rcases hf with rfl | ⟨rfl, hfl⟩
    · exact h.frozen_iff
    · constructor
      · intro _; simp
      · intro _; exact h.frozen_iff.2 (by simp [hfl])
  exact
    { serving_frozen := h.serving_frozen
      frozen_iff := hfro
      warmed_iff := by simp [drain]
      cold := by simp [drain]
      warm_pending := by simp [drain]
      taken_nil := by simp [drain]
      objs_iff := by
        intro r
        have := h.objs_iff r
        simp only [htk, hr, List.not_mem_nil, or_false] at this
        simp [drain, this, hr]
      regd_iff := by intro r; simp [drain, hr, ht]
      table_flag := by intro r b; simp [drain, ht]
      tail_done := by
        intro hx
        rcases hf with rfl | ⟨rfl, _⟩
        · have := h.tail_done hx; simp [hw] at this
        · simp at hx
      in_warmup := by intro _; simp [drain] }

/-- `doWarmup` between `warmup.drained` and `warmup.registered`: the taken routes go into the trees -/
theorem lemma_inv_warm_register (c : Core) (h : Inv c) (hw : c.wpc = .drained) :
    Inv { c.taken.foldl registerRoute { c with taken := [], wpc := .drained } with wpc := .registered } := by
  have hwu : c.warmedUp = true := h.warmed_iff.2 (by simp [hw])
  have hpend := h.warm_pending hwu
  have hf := lemma_foldl_fields c.taken { c with taken := [], wpc := .drained }
  have hT' := lemma_foldl_table c.taken { c with taken := [], wpc := .drained } ⟨h.regd_iff, h.table_flag⟩
  have hR := lemma_foldl_regd c.taken { c with taken := [], wpc := .drained }
  generalize List.foldl registerRoute { c with taken := [], wpc := .drained } c.taken = d at hf hT' hR
  obtain ⟨f1, f2, f3, f4, _, f6, f7, f8, f9, _⟩ := hf
  simp only at f1 f2 f3 f4 f6 f7 f8 f9 hR
  exact
    { serving_frozen := by show d.serving = d.frozen; rw [f6, f7]; exact h.serving_frozen
      frozen_iff := by show d.frozen = true ↔ d.fpc ≠ .idle; rw [f7, f9]; exact h.frozen_iff
      warmed_iff := by show d.warmedUp = true ↔ WPc.registered ≠ .idle; rw [f8]; simp [hwu]
      cold := by show d.warmedUp = false → _; rw [f8]; intro hx; simp [hwu] at hx
      warm_pending := by show d.warmedUp = true → d.pending = []; rw [f2]; intro _; exact hpend
      taken_nil := by show _ → d.taken = []; rw [f3]; intro _; rfl
      objs_iff := by
        intro r
        show r ∈ d.objs ↔ (r ∈ d.pending ∨ r ∈ d.taken ∨ r ∈ d.regd)
        rw [f1, f2, f3, hR]
        have := h.objs_iff r
        rw [this]
        simp [hpend]
      regd_iff := hT'.1
      table_flag := by
        intro r b hb
        have := hT'.2 r b hb
        rw [f4] at this
        show b = d.cons.contains r
        rw [f4]
        exact this
      tail_done := by
        show (d.fpc = .tail ∨ d.fpc = .done) → _
        rw [f9]
        intro hx
        have := h.tail_done hx
        simp [hw] at this
      in_warmup := by intro _; simp }

theorem lemma_inv_step (c : Core) (op : Op) (h : Inv c) : Inv (c.step op) := by
  cases op with
  | enterFreeze =>
    simp only [Core.step]
    split
    · exact lemma_inv_ctl c h true true .flags c.wpc rfl (by simp) h.warmed_iff h.taken_nil (by simp) (by simp)
    · exact h
  | freezeCallWarmup =>
    by_cases hf : c.fpc = .flags
    · have hfr : c.frozen = true := lemma_frozen_of c h (by simp [hf])
      have hwi := h.warmed_iff
      have htn := h.taken_nil
      cases hw : c.wpc with
      | idle =>
        simp only [Core.step, hf, hw, if_true]
        exact lemma_inv_drain c h hw .inWarmup (Or.inr ⟨rfl, hf⟩)
      | done =>
        simp only [Core.step, hf, hw, if_true]
        rw [hw] at hwi htn
        have := lemma_inv_ctl c h c.serving c.frozen .tail .done h.serving_frozen (by simp [hfr])
          hwi htn (by simp) (by simp)
        exact this
      | drained =>
        simp only [Core.step, hf, hw, if_true]
        rw [hw] at hwi htn
        have := lemma_inv_ctl c h c.serving c.frozen .inWarmup .drained h.serving_frozen (by simp [hfr])
          hwi htn (by simp) (by simp)
        exact this
      | registered =>
        simp only [Core.step, hf, hw, if_true]
        rw [hw] at hwi htn
        have := lemma_inv_ctl c h c.serving c.frozen .inWarmup .registered h.serving_frozen (by simp [hfr])
          hwi htn (by simp) (by simp)
        exact this
      | compiled =>
        simp only [Core.step, hf, hw, if_true]
        rw [hw] at hwi htn
        have := lemma_inv_ctl c h c.serving c.frozen .inWarmup .compiled h.serving_frozen (by simp [hfr])
          hwi htn (by simp) (by simp)
        exact this
    · simp only [Core.step, hf, if_false]
      exact h
  | enterWarmup =>
    simp only [Core.step]
    split
    · rename_i hw
      exact lemma_inv_drain c h hw c.fpc (Or.inl rfl)
    · exact h
  | warmupStep =>
    have hwi := h.warmed_iff
    cases hw : c.wpc with
    | idle => simp only [Core.step, hw]; exact h
    | done => simp only [Core.step, hw]; exact h
    | drained =>
      simp only [Core.step, hw]
      exact lemma_inv_warm_register c h hw
    | registered =>
      simp only [Core.step, hw]
      rw [hw] at hwi
      have := lemma_inv_ctl c h c.serving c.frozen c.fpc .compiled h.serving_frozen h.frozen_iff
        (by simp at hwi; simp [hwi])
        (by intro _; exact h.taken_nil (by simp [hw]))
        (by intro hx; have := h.tail_done hx; simp [hw] at this) (by simp)
      exact this
    | compiled =>
      simp only [Core.step, hw]
      rw [hw] at hwi
      have hfi := h.frozen_iff
      have := lemma_inv_ctl c h c.serving c.frozen (if c.fpc = .inWarmup then .tail else c.fpc) .done
        h.serving_frozen
        (by by_cases hi : c.fpc = .inWarmup
            · simp [hi] at hfi ⊢; exact hfi
            · simpa [hi] using hfi)
        (by simp at hwi; simp [hwi])
        (by intro _; exact h.taken_nil (by simp [hw]))
        (by simp)
        (by intro hx
            by_cases hi : c.fpc = .inWarmup
            · simp [hi] at hx
            · simp only [hi, if_false] at hx)
      exact this
  | freezeFinish =>
    simp only [Core.step]
    split
    · rename_i hf
      have hfr : c.frozen = true := lemma_frozen_of c h (by simp [hf])
      have := lemma_inv_ctl c h c.serving c.frozen .done c.wpc h.serving_frozen (by simp [hfr])
        h.warmed_iff h.taken_nil (by intro _; exact h.tail_done (Or.inl hf)) (by simp)
      exact this
    · exact h
  | register r =>
    simp only [Core.step]
    split
    · exact h
    · rename_i hobj
      have hobj' : r ∉ c.objs := by simpa using hobj
      split
      · exact h
      · split
        · rename_i hwu
          -- registered immediately
          have hf := lemma_reg_fields { c with objs := r :: c.objs } r
          have hT' := lemma_reg_table { c with objs := r :: c.objs } r ⟨h.regd_iff, h.table_flag⟩
          exact
            { serving_frozen := by rw [hf.2.2.2.2.2.1, hf.2.2.2.2.2.2.1]; exact h.serving_frozen
              frozen_iff := by rw [hf.2.2.2.2.2.2.1, hf.2.2.2.2.2.2.2.2.1]; exact h.frozen_iff
              warmed_iff := by rw [hf.2.2.2.2.2.2.2.1, hf.2.2.2.2.2.2.2.2.2]; exact h.warmed_iff
              cold := by rw [hf.2.2.2.2.2.2.2.1]; intro hx; simp [hwu] at hx
              warm_pending := by rw [hf.2.2.2.2.2.2.2.1, hf.2.1]; exact h.warm_pending
              taken_nil := by rw [hf.2.2.2.2.2.2.2.2.2, hf.2.2.1]; exact h.taken_nil
              objs_iff := by
                intro x
                rw [hf.1, hf.2.1, hf.2.2.1, lemma_reg_regd]
                have := h.objs_iff x
                simp only [List.mem_cons]
                rw [this]
                constructor
                · rintro (rfl | h1 | h1 | h1)
                  · exact Or.inr (Or.inr (Or.inl rfl))
                  · exact Or.inl h1
                  · exact Or.inr (Or.inl h1)
                  · exact Or.inr (Or.inr (Or.inr h1))
                · rintro (h1 | h1 | h1 | h1)
                  · exact Or.inr (Or.inl h1)
                  · exact Or.inr (Or.inr (Or.inl h1))
                  · exact Or.inl h1
                  · exact Or.inr (Or.inr (Or.inr h1))
              regd_iff := hT'.1
              table_flag := by
                intro x b hb
                have := hT'.2 x b hb
                rw [hf.2.2.2.1]
                rw [hf.2.2.2.1] at this
                exact this
              tail_done := by rw [hf.2.2.2.2.2.2.2.2.1, hf.2.2.2.2.2.2.2.2.2]; exact h.tail_done
              in_warmup := by rw [hf.2.2.2.2.2.2.2.2.1, hf.2.2.2.2.2.2.2.2.2]; exact h.in_warmup }
        · rename_i hwu
          have hwu' : c.warmedUp = false := by simpa using hwu
          exact
            { serving_frozen := h.serving_frozen, frozen_iff := h.frozen_iff, warmed_iff := h.warmed_iff
              cold := h.cold
              warm_pending := by intro hx; simp [hwu'] at hx
              taken_nil := h.taken_nil
              objs_iff := by
                intro x
                have := h.objs_iff x
                simp only [List.mem_cons, List.mem_append, List.not_mem_nil, or_false]
                rw [this]
                constructor
                · rintro (rfl | h1 | h1 | h1)
                  · exact Or.inl (Or.inr rfl)
                  · exact Or.inl (Or.inl h1)
                  · exact Or.inr (Or.inl h1)
                  · exact Or.inr (Or.inr h1)
                · rintro ((h1 | h1) | h1 | h1)
                  · exact Or.inr (Or.inl h1)
                  · exact Or.inl h1
                  · exact Or.inr (Or.inr (Or.inl h1))
                  · exact Or.inr (Or.inr (Or.inr h1))
              regd_iff := h.regd_iff, table_flag := h.table_flag, tail_done := h.tail_done
              in_warmup := h.in_warmup }
  | whereInt r =>
    simp only [Core.step]
    split
    · exact h
    · split
      · exact h
      · split
        · rename_i hreg
          have hreg' : r ∈ c.regd := by simpa using hreg
          -- re-registration with the constraint
          have hreg1 : (List.filter (fun x => x != r) c.regd).contains r = false := by simp
          have heq : registerRoute { c with cons := r :: c.cons, regd := c.regd.filter (· != r) } r =
              { c with cons := r :: c.cons, regd := r :: c.regd.filter (· != r),
                       table := c.table.filter (fun e => e.1 != r) ++ [(r, true)] } := by
            unfold registerRoute
            simp
          rw [heq]
          exact
            { serving_frozen := h.serving_frozen, frozen_iff := h.frozen_iff, warmed_iff := h.warmed_iff
              cold := by
                intro hx
                have := (h.cold hx).2.1
                rw [this] at hreg'
                simp at hreg'
              warm_pending := h.warm_pending
              taken_nil := h.taken_nil
              objs_iff := by
                intro x
                have := h.objs_iff x
                simp only [List.mem_cons, List.mem_filter, bne_iff_ne, ne_eq]
                rw [this]
                constructor
                · rintro (h1 | h1 | h1)
                  · exact Or.inl h1
                  · exact Or.inr (Or.inl h1)
                  · by_cases hx : x = r
                    · exact Or.inr (Or.inr (Or.inl hx))
                    · exact Or.inr (Or.inr (Or.inr ⟨h1, hx⟩))
                · rintro (h1 | h1 | h1 | h1)
                  · exact Or.inl h1
                  · exact Or.inr (Or.inl h1)
                  · exact Or.inr (Or.inr (h1 ▸ hreg'))
                  · exact Or.inr (Or.inr h1.1)
              regd_iff := by
                intro x
                simp only [List.mem_cons, List.mem_append, List.mem_filter, List.not_mem_nil, or_false,
                  Prod.mk.injEq, bne_iff_ne, ne_eq]
                constructor
                · rintro (rfl | ⟨hx, hne⟩)
                  · exact ⟨true, Or.inr ⟨rfl, rfl⟩⟩
                  · obtain ⟨b, hb⟩ := (h.regd_iff x).1 hx
                    exact ⟨b, Or.inl ⟨hb, hne⟩⟩
                · rintro ⟨b, (⟨hb, hne⟩ | ⟨rfl, _⟩)⟩
                  · exact Or.inr ⟨(h.regd_iff x).2 ⟨b, hb⟩, hne⟩
                  · exact Or.inl rfl
              table_flag := by
                intro x b
                simp only [List.mem_append, List.mem_filter, List.mem_cons, List.not_mem_nil, or_false,
                  Prod.mk.injEq, bne_iff_ne, ne_eq, List.contains_cons]
                rintro (⟨hb, hne⟩ | ⟨rfl, rfl⟩)
                · have := h.table_flag x b hb
                  rw [this]
                  have : (x == r) = false := by simpa using hne
                  simp [this]
                · simp
              tail_done := h.tail_done
              in_warmup := h.in_warmup }
        · rename_i hreg
          have hreg' : r ∉ c.regd := by simpa using hreg
          exact
            { serving_frozen := h.serving_frozen, frozen_iff := h.frozen_iff, warmed_iff := h.warmed_iff
              cold := h.cold, warm_pending := h.warm_pending, taken_nil := h.taken_nil
              objs_iff := h.objs_iff, regd_iff := h.regd_iff
              table_flag := by
                intro x b hb
                have := h.table_flag x b hb
                rw [this]
                have hx : x ∈ c.regd := (h.regd_iff x).2 ⟨b, hb⟩
                have hne : x ≠ r := fun e => hreg' (e ▸ hx)
                show c.cons.contains x = (r :: c.cons).contains x
                rw [List.contains_cons]
                have : (x == r) = false := by simpa using hne
                rw [this, Bool.false_or]
              tail_done := h.tail_done, in_warmup := h.in_warmup }
  | setName r =>
    simp only [Core.step]
    split
    · exact h
    · split
      · exact h
      · exact
          { serving_frozen := h.serving_frozen, frozen_iff := h.frozen_iff, warmed_iff := h.warmed_iff
            cold := h.cold, warm_pending := h.warm_pending, taken_nil := h.taken_nil
            objs_iff := h.objs_iff, regd_iff := h.regd_iff, table_flag := h.table_flag
            tail_done := h.tail_done, in_warmup := h.in_warmup }

/-- for every sequence of operations -/
theorem lemma_inv_run (ops : List Op) (c : Core) (h : Inv c) : Inv (ops.foldl Core.step c) := by
  induction ops generalizing c with
  | nil => exact h
  | cons o os ih => exact ih _ (lemma_inv_step c o h)

/-! ### what a lookup sees once `freezeOnce` is done -/

theorem lemma_lookup_done (c : Core) (h : Inv c) (hd : c.fpc = .done) (t : RouteId) (v : Bool) :
    lookup c t v = if c.objs.contains t && (!c.cons.contains t || v) then some t else none := by
  have hw : c.wpc = .done := h.tail_done (Or.inr hd)
  have hwu : c.warmedUp = true := h.warmed_iff.2 (by simp [hw])
  have hp := h.warm_pending hwu
  have htk := h.taken_nil (by simp [hw])
  have hobj : t ∈ c.objs ↔ t ∈ c.regd := by
    have := h.objs_iff t
    simp [hp, htk] at this
    exact this
  unfold lookup
  cases hf : c.table.find? (fun e => e.1 == t) with
  | none =>
    have hno : t ∉ c.regd := by
      intro hr
      obtain ⟨b, hb⟩ := (h.regd_iff t).1 hr
      have := List.find?_eq_none.1 hf (t, b) hb
      simp at this
    have : c.objs.contains t = false := by
      simp only [List.contains_eq_mem, decide_eq_false_iff_not]
      exact fun hx => hno (hobj.1 hx)
    rw [this]
    rfl
  | some e =>
    obtain ⟨x, b⟩ := e
    have hmem : (x, b) ∈ c.table := List.mem_of_find?_eq_some hf
    have hx : x = t := by
      have := List.find?_some hf
      simpa using this
    subst hx
    have hb := h.table_flag x b hmem
    have hin : c.objs.contains x = true := by
      simp only [List.contains_eq_mem, decide_eq_true_eq]
      exact hobj.2 ((h.regd_iff x).2 ⟨b, hmem⟩)
    simp only [hin, Bool.true_and]
    rw [hb]
    cases c.cons.contains x <;> cases v <;> rfl

end Rivaas.Phases
