import Rivaas.Lemmas.RadixTree
/-
Layer L1d of C01: priority of the tree lookup without any guard. Whatever the search returns comes from a
node that accepts, and no node that accepts beats it segment-wise (`walk_prio`); if some node accepts the
search returns something (`walk_complete`).
-/
namespace Rivaas.RadixL
open Rivaas.Route Rivaas.Radix Rivaas.Match Rivaas.MatchL

/-- if some entry's node accepts, the search finds a route -/
def FindsOn (sat : Nat → Bytes → Bool) (L : List Entry) (trail : Bool) (rest : List Bytes) : Prop :=
  ∀ (cur : Key) (st : St) (e : Entry) (suf : Pat), Cand L trail cur rest e suf →
    (accAt sat (nodesOf L) trail cur st suf rest).isSome = true →
    (walkGen false false false sat (nodesOf L) trail cur st rest).isSome = true

theorem next_finds (sat : Nat → Bytes → Bool) (L : List Entry) (trail : Bool) (rest : List Bytes)
    (ih : rest ≠ [] → FindsOn sat L trail rest)
    (cur1 : Key) (st1 : St) (e : Entry) (as : Pat) (hc : Cand L trail cur1 rest e as)
    (hacc : (accAt sat (nodesOf L) trail cur1 st1 as rest).isSome = true) :
    (nextB sat (nodesOf L) trail rest cur1 st1).isSome = true := by
  unfold nextB
  by_cases hl : (rest.isEmpty && !trail) = true
  · simp only [hl, if_true]
    simp only [Bool.and_eq_true, List.isEmpty_iff, Bool.not_eq_true'] at hl
    obtain ⟨hr, ht⟩ := hl
    subst hr
    obtain ⟨has, _⟩ := matchPat_nil_segs trail as hc.mat
    subst has
    rw [accAt_nil] at hacc
    exact hacc
  · simp only [hl, Bool.false_eq_true, if_false]
    have hrne : rest ≠ [] := by
      intro hr; subst hr
      obtain ⟨_, ht⟩ := matchPat_nil_segs trail as hc.mat
      simp [ht] at hl
    exact ih hrne cur1 st1 e as hc hacc

theorem altS_finds (sat : Nat → Bytes → Bool) (L : List Entry) (hL : ∀ e ∈ L, e.ok) (trail : Bool) (rest : List Bytes)
    (ih : rest ≠ [] → FindsOn sat L trail rest) (cur : Key) (st : St) (x : Bytes) (e : Entry) (as : Pat)
    (hc : Cand L trail cur (x :: rest) e (PSeg.lit x :: as))
    (hacc : (accAt sat (nodesOf L) trail cur st (PSeg.lit x :: as) (x :: rest)).isSome = true) :
    (altS sat (nodesOf L) trail cur st x rest).isSome = true := by
  have hm' : (matchPat trail as rest).isSome = true := by
    have := hc.mat; rw [matchPat_lit_cons] at this; exact this
  have hstr : strip e.pat (cur ++ [ESeg.s x]) = some as := by
    rw [strip_snoc, hc.str]; simp [stepSuf, ekey]
  have hk : hasK (nodesOf L) (cur ++ [ESeg.s x]) = true := by
    rw [nodesOf_hasK L hL _ (by simp)]
    simp only [List.any_eq_true]
    exact ⟨e, hc.mem, by rw [hstr]; rfl⟩
  simp only [altS, hk, if_true]
  apply next_finds sat L trail rest ih _ _ e as ⟨hc.mem, hstr, hm'⟩
  rw [← accAt_lit]; exact hacc

theorem pname_of_cand (L : List Entry) (hL : ∀ e ∈ L, e.ok) (cur : Key) (e : Entry) (n : Bytes) (as : Pat)
    (hmem : e ∈ L) (hstr : strip e.pat cur = some (PSeg.par n :: as)) :
    ∃ key, (getK (nodesOf L) cur).pname = some key := by
  have : ((getK (nodesOf L) cur).pname).isSome = true := by
    rw [nodesOf_pname L hL]
    exact firstSome_isSome_of_mem _ L e hmem (by simp [nameAtS, hstr])
  cases hp : (getK (nodesOf L) cur).pname with
  | none => rw [hp] at this; simp at this
  | some v => exact ⟨v, rfl⟩

theorem altP_finds (sat : Nat → Bytes → Bool) (L : List Entry) (hL : ∀ e ∈ L, e.ok) (trail : Bool) (rest : List Bytes)
    (ih : rest ≠ [] → FindsOn sat L trail rest) (cur : Key) (st : St) (x n : Bytes) (e : Entry) (as : Pat)
    (hc : Cand L trail cur (x :: rest) e (PSeg.par n :: as))
    (hacc : (accAt sat (nodesOf L) trail cur st (PSeg.par n :: as) (x :: rest)).isSome = true) :
    (altP sat (nodesOf L) trail cur st x rest).isSome = true := by
  have hm' : (matchPat trail as rest).isSome = true := by
    have := hc.mat; rw [matchPat_par_cons_isSome] at this; exact this
  have hstr : strip e.pat (cur ++ [ESeg.p]) = some as := by
    rw [strip_snoc, hc.str]; simp [stepSuf, ekey]
  obtain ⟨key, hp⟩ := pname_of_cand L hL cur e n as hc.mem hc.str
  simp only [altP, hp]
  apply next_finds sat L trail rest ih _ _ e as ⟨hc.mem, hstr, hm'⟩
  rw [← accAt_par _ _ _ _ _ n key _ _ _ hp]; exact hacc

theorem some_or_isSome {α} (a : Option α) (b : Option α) (h : a.isSome = true) :
    (match a with | some r => some r | none => b).isSome = true := by
  cases a with
  | none => simp at h
  | some v => rfl

/-- **Completeness of the search**: if the node of some entry through `cur` accepts, a route is found. -/
theorem walk_complete (sat : Nat → Bytes → Bool) (L : List Entry) (hL : ∀ e ∈ L, e.ok) (trail : Bool) (segs : List Bytes) (hne : segs ≠ []) :
    FindsOn sat L trail segs := by
  induction segs with
  | nil => exact absurd rfl hne
  | cons seg rest ih =>
    intro cur st e suf hc hacc
    rw [walk_cons]
    cases suf with
    | nil => have := hc.mat; simp [matchPat] at this
    | cons a as =>
      cases a with
      | lit x =>
        have hsx : x = seg := by
          have := hc.mat
          cases as <;> simp only [matchPat] at this <;> by_cases h : x = seg <;> simp_all
        subst hsx
        have hf := altS_finds sat L hL trail rest ih cur st x e as hc hacc
        cases hS : altS sat (nodesOf L) trail cur st x rest with
        | some r => rfl
        | none => rw [hS] at hf; simp at hf
      | par n =>
        cases hS : altS sat (nodesOf L) trail cur st seg rest with
        | some r => rfl
        | none =>
          simp only
          have hf := altP_finds sat L hL trail rest ih cur st seg n e as hc hacc
          cases hP : altP sat (nodesOf L) trail cur st seg rest with
          | some r => rfl
          | none => rw [hP] at hf; simp at hf
      | wild =>
        have has : as = [] := by
          cases as with
          | nil => rfl
          | cons b bs => have := hc.mat; simp [matchPat] at this
        subst has
        cases hS : altS sat (nodesOf L) trail cur st seg rest with
        | some r => rfl
        | none =>
          simp only
          cases hP : altP sat (nodesOf L) trail cur st seg rest with
          | some r => rfl
          | none =>
            simp only
            rw [accAt_wild] at hacc
            cases hw : (getK (nodesOf L) cur).wild with
            | none => rw [hw] at hacc; simp [acceptsGen] at hacc
            | some lf =>
              rw [hw] at hacc
              simp only [altW, hw]
              exact hacc

/-- soundness with priority: the result comes from an accepting node that no accepting node beats -/
def PrioOn (sat : Nat → Bytes → Bool) (L : List Entry) (trail : Bool) (rest : List Bytes) : Prop :=
  ∀ (cur : Key) (st : St) (res : Leaf × Ctx), walkGen false false false sat (nodesOf L) trail cur st rest = some res →
    ∃ e suf, Cand L trail cur rest e suf ∧ accAt sat (nodesOf L) trail cur st suf rest = some res ∧
      MaxAcc sat L trail cur st rest suf

theorem next_prio (sat : Nat → Bytes → Bool) (L : List Entry) (hL : ∀ e ∈ L, e.ok) (trail : Bool) (rest : List Bytes)
    (ih : PrioOn sat L trail rest) (cur1 : Key) (st1 : St) (res : Leaf × Ctx)
    (h : nextB sat (nodesOf L) trail rest cur1 st1 = some res) :
    ∃ e suf, Cand L trail cur1 rest e suf ∧ accAt sat (nodesOf L) trail cur1 st1 suf rest = some res ∧
      MaxAcc sat L trail cur1 st1 rest suf := by
  by_cases hl : (rest.isEmpty && !trail) = true
  · obtain ⟨e, suf, hc, hacc⟩ := next_some sat L hL trail rest (fun cur st res hw => by
      obtain ⟨e, suf, hc, hacc, _⟩ := ih cur st res hw
      exact ⟨e, suf, hc, hacc⟩) cur1 st1 res h
    refine ⟨e, suf, hc, hacc, ?_⟩
    simp only [Bool.and_eq_true, List.isEmpty_iff, Bool.not_eq_true'] at hl
    obtain ⟨hr, _⟩ := hl
    subst hr
    obtain ⟨hs, _⟩ := matchPat_nil_segs trail suf hc.mat
    subst hs
    intro e' suf' hc' _
    obtain ⟨hs', _⟩ := matchPat_nil_segs trail suf' hc'.mat
    subst hs'
    rfl
  · unfold nextB at h
    simp only [hl, Bool.false_eq_true, if_false] at h
    exact ih cur1 st1 res h

theorem better_par_lit (n x : Bytes) (a b : Pat) : better (PSeg.par n :: a) (PSeg.lit x :: b) = false := by
  simp [better, kind]

theorem better_wild_lit (x : Bytes) (a b : Pat) : better (PSeg.wild :: a) (PSeg.lit x :: b) = false := by
  simp [better, kind]

theorem better_wild_par (n : Bytes) (a b : Pat) : better (PSeg.wild :: a) (PSeg.par n :: b) = false := by
  simp [better, kind]

/-- the shape of a candidate's first segment -/
theorem cand_head (L : List Entry) (trail : Bool) (cur : Key) (seg : Bytes) (rest : List Bytes) (e' : Entry) (suf' : Pat)
    (hc' : Cand L trail cur (seg :: rest) e' suf') :
    (∃ as', suf' = PSeg.lit seg :: as') ∨ (∃ n' as', suf' = PSeg.par n' :: as') ∨ suf' = [PSeg.wild] := by
  rcases matchPat_cons_inv trail suf' seg rest hc'.mat with rfl | ⟨t', rfl, _⟩ | ⟨n', t', rfl, _⟩
  · right; right; rfl
  · left; exact ⟨t', rfl⟩
  · right; left; exact ⟨n', t', rfl⟩

/-- **Priority of the search, without any guard**: whatever it returns is what an accepting node answers,
and no entry whose node accepts beats that node's pattern segment-wise. -/
theorem walk_prio (sat : Nat → Bytes → Bool) (L : List Entry) (hL : ∀ e ∈ L, e.ok) (trail : Bool) (segs : List Bytes) :
    PrioOn sat L trail segs := by
  induction segs with
  | nil => intro cur st res h; simp [walkGen] at h
  | cons seg rest ih =>
    intro cur st res h
    have hfinds : rest ≠ [] → FindsOn sat L trail rest := fun hr => walk_complete sat L hL trail rest hr
    rw [walk_cons] at h
    cases hS : altS sat (nodesOf L) trail cur st seg rest with
    | some r =>
      simp only [hS, Option.some.injEq] at h
      subst h
      -- through the static child
      have hk : hasK (nodesOf L) (cur ++ [ESeg.s seg]) = true := by
        cases hh : hasK (nodesOf L) (cur ++ [ESeg.s seg]) with
        | true => rfl
        | false => simp [altS, hh] at hS
      simp only [altS, hk, if_true] at hS
      obtain ⟨e, suf1, hc, hacc, hmax⟩ := next_prio sat L hL trail rest ih _ _ _ hS
      obtain ⟨a, hs, hek⟩ := strip_step hc.str
      have ha := ekey_static hek
      subst ha
      refine ⟨e, PSeg.lit seg :: suf1, ⟨hc.mem, hs, by rw [matchPat_lit_cons]; exact hc.mat⟩, by rw [accAt_lit]; exact hacc, ?_⟩
      intro e' suf' hc' hacc'
      rcases cand_head L trail cur seg rest e' suf' hc' with ⟨as', rfl⟩ | ⟨n', as', rfl⟩ | rfl
      · rw [better_lit_lit]
        have hstr' : strip e'.pat (cur ++ [ESeg.s seg]) = some as' := by
          rw [strip_snoc, hc'.str]; simp [stepSuf, ekey]
        apply hmax e' as' ⟨hc'.mem, hstr', by have := hc'.mat; rw [matchPat_lit_cons] at this; exact this⟩
        rw [← accAt_lit]; exact hacc'
      · exact better_par_lit _ _ _ _
      · exact better_wild_lit _ _ _
    | none =>
      simp only [hS] at h
      -- no entry through the static child is accepted
      have hnoS : ∀ e' as', Cand L trail cur (seg :: rest) e' (PSeg.lit seg :: as') →
          (accAt sat (nodesOf L) trail cur st (PSeg.lit seg :: as') (seg :: rest)).isSome = true → False := by
        intro e' as' hc' hacc'
        have := altS_finds sat L hL trail rest hfinds cur st seg e' as' hc' hacc'
        rw [hS] at this; simp at this
      cases hP : altP sat (nodesOf L) trail cur st seg rest with
      | some r =>
        simp only [hP, Option.some.injEq] at h
        subst h
        cases hp : (getK (nodesOf L) cur).pname with
        | none => simp [altP, hp] at hP
        | some key =>
          simp only [altP, hp] at hP
          obtain ⟨e, suf1, hc, hacc, hmax⟩ := next_prio sat L hL trail rest ih _ _ _ hP
          obtain ⟨a, hs, hek⟩ := strip_step hc.str
          obtain ⟨n, rfl⟩ := ekey_param hek
          refine ⟨e, PSeg.par n :: suf1, ⟨hc.mem, hs, by rw [matchPat_par_cons_isSome]; exact hc.mat⟩,
            by rw [accAt_par _ _ _ _ _ n key _ _ _ hp]; exact hacc, ?_⟩
          intro e' suf' hc' hacc'
          rcases cand_head L trail cur seg rest e' suf' hc' with ⟨as', rfl⟩ | ⟨n', as', rfl⟩ | rfl
          · exact absurd (hnoS e' as' hc' hacc') id
          · rw [better_par_par]
            have hstr' : strip e'.pat (cur ++ [ESeg.p]) = some as' := by
              rw [strip_snoc, hc'.str]; simp [stepSuf, ekey]
            apply hmax e' as' ⟨hc'.mem, hstr', by have := hc'.mat; rw [matchPat_par_cons_isSome] at this; exact this⟩
            rw [← accAt_par _ _ _ _ _ n' key _ _ _ hp]; exact hacc'
          · exact better_wild_par _ _ _
      | none =>
        simp only [hP] at h
        obtain ⟨e, hc, hacc⟩ := altW_some sat L hL trail rest cur st seg res h
        refine ⟨e, [PSeg.wild], hc, hacc, ?_⟩
        intro e' suf' hc' hacc'
        rcases cand_head L trail cur seg rest e' suf' hc' with ⟨as', rfl⟩ | ⟨n', as', rfl⟩ | rfl
        · exact absurd (hnoS e' as' hc' hacc') id
        · exfalso
          have := altP_finds sat L hL trail rest hfinds cur st seg n' e' as' hc' hacc'
          rw [hP] at this; simp at this
        · exact better_irrefl _


/-- a route that matches, satisfies its constraints and was not replaced by a later route of its shape is
what its node accepts -/
theorem accAt_of_last (sat : Nat → Bytes → Bool) (R : List Route) (hR : ∀ r ∈ R, patOK r.pat)
    (hD : ∀ r ∈ R, distinct (declNames r.pat) = true) (m : Bytes) (p : RPath)
    (ρ : Route) (hρR : ρ ∈ R) (hρm : ρ.method = m) (hρt : inTree ρ = true) (b : List (Bytes × Bytes))
    (hrm : routeMatch sat ρ p = some b)
    (hlast : ((laterThan ρ R).any fun r1 => r1.method = m && shapeEq r1.pat ρ.pat) = false) :
    accAt sat (nodesOf (entriesOf R m)) p.trail [] (Ctx.fresh, []) ρ.pat p.segs = some (leafOf ρ, pushAll Ctx.fresh b) := by
  have hb : matchPat p.trail ρ.pat p.segs = some b := by
    unfold routeMatch at hrm
    cases hmm : matchPat p.trail ρ.pat p.segs with
    | none => simp [hmm] at hrm
    | some b' =>
      simp only [hmm] at hrm
      split at hrm
      · injection hrm with hrm; rw [hrm]
      · cases hrm
  have hcons : consOK sat ρ.cons b = true := by
    unfold routeMatch at hrm
    rw [hb] at hrm
    by_cases hc : consOK sat ρ.cons b = true
    · exact hc
    · simp [hc] at hrm
  obtain ⟨R1, hRsplit⟩ := laterThan_split ρ R hρR
  have hleaf := leaf_at R1 (laterThan ρ R) ρ (by rw [← hRsplit]; exact hR) m hρm hρt (by
    intro r hr hrm' hrt hk hw
    have hrR : r ∈ R := by rw [hRsplit]; simp [hr]
    have hshape : shapeEq r.pat ρ.pat = true := by
      rw [pat_split r.pat, pat_split ρ.pat, hw]
      exact shapeEq_of_key _ (by cases endsWild ρ.pat <;> simp) _ _ (hR r hrR) (hR ρ hρR) hk
    have := (List.any_eq_false.mp hlast) r hr
    simp [hrm', hshape] at this)
  rw [← hRsplit, ekeys_body] at hleaf
  have hvals := pushesFor_vals (nodesOf (entriesOf R m)) p.trail p.segs [] ρ.pat b hb
  have hnames : (leafOf ρ).names = b.map (·.1) := by rw [matchPat_keys _ _ _ _ hb]; rfl
  have hbound : boundCtx false (leafOf ρ) (pushAllT (Ctx.fresh, [])
      (pushesFor (nodesOf (entriesOf R m)) p.trail [] ρ.pat p.segs)) = pushAll Ctx.fresh b := by
    have hlen : (leafOf ρ).names.length = (pushesFor (nodesOf (entriesOf R m)) p.trail [] ρ.pat p.segs).length := by
      have h2 := congrArg List.length hvals
      simp only [List.length_map] at h2
      rw [hnames, List.length_map, h2]
    rw [bound_fresh _ _ hlen, hvals, hnames, zip_fst_snd]
  have hkeys : distinct (b.map (·.1)) = true := by rw [matchPat_keys _ _ _ _ hb]; exact hD ρ hρR
  have hv : validate sat (leafOf ρ).cons (pushAll Ctx.fresh b) = consOK sat ρ.cons b :=
    validate_pushAll sat ρ.cons b hkeys
  unfold accAt
  simp only [List.nil_append]
  rw [hleaf]
  simp only [acceptsGen, hbound, hv, hcons, if_true]

/-- **Soundness and priority of the tree lookup, without any guard**: whatever the search returns is the leaf
of a registered route that matches the path, constraints included, with that route's own bindings, and no
registered route of the tree that matches with its constraints and was not replaced by a later route of its
shape beats it segment-wise. -/
theorem walk_sound_prio (sat : Nat → Bytes → Bool) (R : List Route) (hR : ∀ r ∈ R, patOK r.pat)
    (hD : ∀ r ∈ R, distinct (declNames r.pat) = true) (m : Bytes) (p : RPath) (res : Leaf × Ctx)
    (h : walkGen false false false sat (nodesOf (entriesOf R m)) p.trail [] (Ctx.fresh, []) p.segs = some res) :
    ∃ r ∈ R, r.method = m ∧ inTree r = true ∧ (∃ b, routeMatch sat r p = some b ∧ res = (leafOf r, pushAll Ctx.fresh b)) ∧
      ∀ r' ∈ R, r'.method = m → inTree r' = true → (routeMatch sat r' p).isSome = true →
        ((laterThan r' R).any fun r1 => r1.method = m && shapeEq r1.pat r'.pat) = false →
        better r'.pat r.pat = false := by
  have hL := entriesOf_ok R hR m
  obtain ⟨e, suf, hc, hacc, hmax⟩ := walk_prio sat (entriesOf R m) hL p.trail p.segs [] (Ctx.fresh, []) res h
  obtain ⟨r0, hr0, _, _, rfl⟩ := mem_entriesOf hc.mem
  have hs := hc.str
  rw [strip_nil_key, toEntry_pat] at hs
  injection hs with hs; subst hs
  obtain ⟨r, hr, hrm, hrt, hk, hw, b, hb, hres⟩ := accAt_route sat R hR hD m p r0 hr0 hc.mat res hacc
  refine ⟨r, hr, hrm, hrt, ⟨b, hb, hres⟩, ?_⟩
  intro r' hr' hrm' hrt' hmatch' hlast'
  obtain ⟨b', hb'⟩ : ∃ b', routeMatch sat r' p = some b' := by
    cases hh : routeMatch sat r' p with
    | none => rw [hh] at hmatch'; simp at hmatch'
    | some v => exact ⟨v, rfl⟩
  have hacc' := accAt_of_last sat R hR hD m p r' hr' hrm' hrt' b' hb' hlast'
  have hmem' : toEntry r' ∈ entriesOf R m := by
    simp only [entriesOf, List.mem_map, List.mem_filter, Bool.and_eq_true, decide_eq_true_eq]
    exact ⟨r', ⟨hr', hrm', hrt'⟩, rfl⟩
  have hm' := rm_isSome_match hmatch'
  have h1 : better r'.pat r0.pat = false :=
    hmax (toEntry r') r'.pat ⟨hmem', by rw [strip_nil_key, toEntry_pat], hm'⟩ (by rw [hacc']; rfl)
  have h2 : better r0.pat r.pat = false := by
    rw [pat_split r0.pat, pat_split r.pat]
    apply better_same_key _ _ _ _ (hR r0 hr0) (hR r hr) hk.symm (by rw [hw])
    cases endsWild r0.pat <;> simp
  exact better_negtrans p.trail p.segs r'.pat r0.pat r.pat hm' hc.mat (rm_isSome_match (by rw [hb]; rfl)) h1 h2

end Rivaas.RadixL
